/-
C19 — seed-compressed objects expand to exactly what full encryption would produce.

Model: `Model/Core/Enc.lean` (one cell: `encryptSkStream`, `drawMasks`, `decompressGlwe`) and
`Model/Core/EncMat.lean` (matrices of cells: loop order, `branch()`, storage index).  A `Source` is
the list of raw words it delivers; `expand seed` is the stream of `Source::new(seed)` (ChaCha8 is a
parameter).  Every theorem holds for every `expand`, every plaintext column, rank, size, radix,
secret, stream and error — no head-room is needed: the statements are equalities of the two
computations, not of their values.

/- Serialisation commutes with decompression for ALL twelve compressed types, in C18's byte-level model:
   `glwe_compressed_serialise_decompress`, `gglwe_compressed_serialise_decompress` (explicit forms),
   `matrix_compressed_serialise_decompress` (8 matrix-shaped types), `vector_compressed_serialise_decompress` (GLWE, LWE),
   `container_compressed_serialise_decompress` (GGLWE→GGSW key, blind-rotation key; new cursor-level round trip).
   FULL STATEMENT: "for every compressed layout, decompress ∘ encrypt_compressed = cell-wise standard encryption with the
   stored seeds".  Proved for the cell (`compressed_cell_eq`), for GLWE (`glwe_decompress_eq`), for every matrix routine built
   on the shared loop (`compressed_cells_eq`: GGLWE, GGSW, switching / automorphism keys), for the routines with their scratch
   temporary as the Rust runs them (`matrix_temporary_irrelevant`), the tensor key (`tensor_key_compressed_eq`), the
   GGLWE→GGSW key (`g2g_subkeys_eq`) and the compressed blind-rotation key (`brk_subkeys_eq`).
   LWE: no compressed encryption routine exists; `lwe_compress_decompress` / `lwe_decompress` (the routine with its
   base2k/size assertions, every LWE dimension) are the inverse statement; `lwe_decompress_old_assert_counterexample`
   documents the repaired finding (the old layout assertion refused every dimension other than 1).
   Not reachable: compressed circuit-bootstrapping key (module not compiled). -/
-/
import Poulpy.Lemmas.CoreCmp
import Poulpy.Lemmas.CoreSerDec
import Poulpy.Lemmas.CoreCmpT
import Poulpy.Lemmas.CoreSerAll
import Poulpy.Lemmas.CoreSerCont
import Poulpy.Lemmas.KeyWrap

namespace C19
open CoreEnc

/-! ### one cell -/

/-- **the masks drawn inside the encryption loop are exactly what `decompress_glwe` regenerates** from
the same stream: same column order, same limb order, same number of words consumed (any rank,
plaintext column, secret, accumulator) -/
theorem loop_masks_eq_drawMasks (bits b n size : Nat) (pt : Option (Col × Nat))
    (rank : Nat) (sk : List Poly) (i : Nat) (xa : List Nat) (c0 c' : Col) (ms : List Col) (xa' : List Nat)
    (h : Core.encSkLoopS bits b n size pt i sk rank xa c0 = some (c', ms, xa')) :
    Core.drawMasks b n size rank xa = some (ms, xa') :=
  CoreEnc.loop_masks_eq_drawMasks bits b n size pt rank sk i xa c0 c' ms xa' h

example : (Core.encSkLoopS 64 3 2 1 none 1 [[1, -1]] 1 [5, 6, 7] (Core.zeroCol 2 1)).map (·.2) = Core.drawMasks 3 2 1 1 [5, 6, 7]
    ∧ (Core.drawMasks 3 2 1 1 [5, 6, 7]).isSome := by decide

/-- **one cell, any plaintext column** (GLWE: column 0; GGLWE rows: column 0; GGSW rows: any column):
decompressing the stored `(body, seed)` gives, column for column, the standard encryption of the same
plaintext with the mask source `Source::new(seed)` and the same error. -/
theorem compressed_cell_eq (bits b n size kxe rank : Nat) (pt : Option (Col × Nat)) (sk : List Poly)
    (expand : List Nat → List Nat) (seed : List Nat) (e : Poly) (body : Col) (ms : List Col) (xa' : List Nat)
    (h : Core.encryptSkStream bits b n size kxe rank pt sk (expand seed) e = some (body, ms, xa')) :
    Core.decompressCell b n rank expand { body := body, seed := seed } =
      Core.standardCell bits b n size kxe rank pt sk (expand seed) e := by
  have hlen := stream_body_length h
  have hm : Core.drawMasks b n size rank (expand seed) = some (ms, xa') := by
    unfold Core.encryptSkStream at h
    cases hl : Core.encSkLoopS bits b n size pt 1 sk rank (expand seed) (Core.zeroCol n size) with
    | none => simp [hl] at h
    | some q =>
      obtain ⟨c0, ms0, xa0⟩ := q
      simp only [hl] at h
      cases hf : Core.encSkFinish b n size kxe pt e c0 with
      | none => simp [hf] at h
      | some bd =>
        simp only [hf, Option.some.injEq, Prod.mk.injEq] at h
        obtain ⟨_, rfl, rfl⟩ := h
        exact CoreEnc.loop_masks_eq_drawMasks bits b n size pt rank sk 1 (expand seed) _ c0 ms0 xa0 hl
  simp [Core.decompressCell, Core.standardCell, h, hlen, hm]

/-- non-vacuity: rank 2, N = 2, two limbs, radix 2^3, plaintext in column 1 (a GGSW cell) -/
example : Core.decompressCell 3 2 2 (fun s => s ++ [5, 6, 7, 0, 1, 2, 3, 4, 9, 8, 7, 6])
      { body := ((Core.encryptSkStream 64 3 2 2 5 2 (some ([[1, 0], [0, 0]], 1)) [[1, -1], [0, 1]]
        ([1, 2, 3, 4] ++ [5, 6, 7, 0, 1, 2, 3, 4, 9, 8, 7, 6]) [1, -1]).map (·.1)).getD [], seed := [1, 2, 3, 4] }
    = Core.standardCell 64 3 2 2 5 2 (some ([[1, 0], [0, 0]], 1)) [[1, -1], [0, 1]] ([1, 2, 3, 4] ++ [5, 6, 7, 0, 1, 2, 3, 4, 9, 8, 7, 6]) [1, -1]
    ∧ (Core.standardCell 64 3 2 2 5 2 (some ([[1, 0], [0, 0]], 1)) [[1, -1], [0, 1]] ([1, 2, 3, 4] ++ [5, 6, 7, 0, 1, 2, 3, 4, 9, 8, 7, 6]) [1, -1]).isSome := by
  decide

/-! ### GLWE -/

/-- **`decompress_glwe ∘ glwe_compressed_encrypt_sk = glwe_encrypt_sk`** with `source_xa = Source::new(seed)` -/
theorem glwe_decompress_eq (bits b k n size kxe rank : Nat) (pt : Option Col) (ptB : Nat) (sk : List Poly) (seedStream : List Nat) (e : Poly)
    (cc : Core.GLWECompressed) (h : Core.glweEncryptCompressed bits b k n size kxe rank pt ptB sk seedStream e = some cc) :
    (Core.decompressGlwe cc).map (·.cols) = (Core.glweEncryptSkS bits b k n size kxe rank pt ptB sk seedStream e).map (·.1.cols) := by
  unfold Core.glweEncryptCompressed at h
  unfold Core.glweEncryptSkS
  split at h
  · simp at h
  · rename_i hr
    rw [if_neg hr]
    split at h
    · simp at h
    rename_i hok
    rw [if_neg hok]
    cases hs : Core.encryptSkStream bits b n size kxe rank (pt.map (fun p => (p, 0))) sk seedStream e with
    | none => simp [hs] at h
    | some q =>
      obtain ⟨body, ms, xa'⟩ := q
      simp only [hs, Option.map_some, Option.some.injEq] at h
      subst h
      have hc := compressed_cell_eq bits b n size kxe rank (pt.map (fun p => (p, 0))) sk (fun _ => seedStream) [] e body ms xa' hs
      simp only [Core.decompressCell, Core.standardCell, hs, Option.map_some] at hc
      simp only [Core.decompressGlwe, Option.map_map]
      cases hd : Core.drawMasks b n body.length rank seedStream with
      | none => simp [hd] at hc
      | some r => simp [hd] at hc ⊢; exact hc

example : (Core.glweEncryptCompressed 64 3 6 2 2 5 1 (some [[1, 2]]) 3 [[1, -1]] [9, 1, 7, 3, 5] [1, -1]).isSome := by decide

/-! ### matrices of cells -/

/-- **every routine built on the shared loop** (`gglwe_compressed_encrypt_sk`, `ggsw_compressed_encrypt_sk`,
and the switching / automorphism / tensor keys that call the former): the `k`-th cell of the loop
keeps its storage index, stores the `k`-th seed `branch()` draws from the top source (words
`4k … 4k+3`), and decompresses to the standard encryption of its plaintext with `Source::new` of
that seed and the `k`-th error. -/
theorem compressed_cells_eq (bits b n size kxe rank : Nat) (sk : List Poly) (expand : List Nat → List Nat) :
    ∀ (descs : List (Nat × Option (Col × Nat))) (top : List Nat) (es : List Poly) (out : List (Nat × Core.CellC)),
      Core.compressedCells bits b n size kxe rank sk expand descs top es = some out →
      out.length = descs.length ∧
      ∀ (k : Nat) (d : Nat × Option (Col × Nat)), descs[k]? = some d →
        ∃ c e, out[k]? = some (d.1, c) ∧ es[k]? = some e ∧ c.seed = (top.drop (4 * k)).take 4 ∧
          Core.decompressCell b n rank expand c = Core.standardCell bits b n size kxe rank d.2 sk (expand c.seed) e := by
  intro descs
  induction descs with
  | nil => intro top es out h; simp [Core.compressedCells] at h; subst h; simp
  | cons d0 rest ih =>
    intro top es out h
    obtain ⟨idx, pt⟩ := d0
    cases es with
    | nil => simp [Core.compressedCells] at h
    | cons e es' =>
      unfold Core.compressedCells at h
      cases hn : Sampling.newSeed top with
      | none => simp [hn] at h
      | some p =>
        obtain ⟨seed, top'⟩ := p
        simp only [hn] at h
        cases hs : Core.encryptSkStream bits b n size kxe rank pt sk (expand seed) e with
        | none => simp [hs] at h
        | some q =>
          obtain ⟨body, ms, xa'⟩ := q
          simp only [hs] at h
          cases hr : Core.compressedCells bits b n size kxe rank sk expand rest top' es' with
          | none => simp [hr] at h
          | some out' =>
            simp only [hr, Option.some.injEq] at h
            subst h
            obtain ⟨il, ic⟩ := ih top' es' out' hr
            have hseed : seed = top.take 4 ∧ top' = top.drop 4 := by
              match top, hn with
              | a :: b' :: c :: d :: r, hn => simp [Sampling.newSeed] at hn; simp [hn.1.symm, hn.2.symm]
            refine ⟨by simp [il], ?_⟩
            intro k d hd
            cases k with
            | zero =>
              simp only [List.getElem?_cons_zero, Option.some.injEq] at hd
              subst hd
              exact ⟨_, e, by simp, by simp, by simp [hseed.1], compressed_cell_eq bits b n size kxe rank pt sk expand seed e body ms xa' hs⟩
            | succ j =>
              simp only [List.getElem?_cons_succ] at hd
              obtain ⟨c, e', h1, h2, h3, h4⟩ := ic j d hd
              refine ⟨c, e', by simpa using h1, by simpa using h2, ?_, h4⟩
              rw [h3, hseed.2, List.drop_drop]
              congr 2; omega

/-- storage index of `gglwe_compressed_encrypt_sk`: the loop (column outer, row inner) visits every
slot `row·rank_in + col` (`row < dnum`, `col < rank_in`) and only those -/
theorem gglwe_seed_index (b n size dsize rankIn dnum : Nat) (pt : List Poly) (i : Nat) :
    i ∈ (Core.gglweDescs b n size dsize rankIn dnum pt).map (·.1) ↔ ∃ col, col < rankIn ∧ ∃ row, row < dnum ∧ i = row * rankIn + col := by
  simp only [Core.gglweDescs, List.map_flatMap, List.map_map, List.mem_flatMap, List.mem_map, List.mem_range, Function.comp]
  constructor
  · rintro ⟨col, hc, row, hr, rfl⟩; exact ⟨col, hc, row, hr, rfl⟩
  · rintro ⟨col, hc, row, hr, rfl⟩; exact ⟨col, hc, row, hr, rfl⟩

/-- the slots are pairwise distinct: no seed is overwritten -/
theorem seed_index_injective (rankIn : Nat) {row col row' col' : Nat} (hc : col < rankIn) (hc' : col' < rankIn)
    (h : row * rankIn + col = row' * rankIn + col') : row = row' ∧ col = col' := by
  have h1 : (row * rankIn + col) / rankIn = row := by
    rw [Nat.mul_comm, Nat.mul_add_div (by omega), Nat.div_eq_of_lt hc]; rfl
  have h2 : (row' * rankIn + col') / rankIn = row' := by
    rw [Nat.mul_comm, Nat.mul_add_div (by omega), Nat.div_eq_of_lt hc']; rfl
  have hr : row = row' := by rw [← h1, ← h2, h]
  subst hr
  exact ⟨rfl, by omega⟩

/-- storage index of `ggsw_compressed_encrypt_sk`: slots `row·(rank+1) + col`, row outer, column inner -/
theorem ggsw_seed_index (b n size dsize rank dnum : Nat) (pt : Poly) (i : Nat) :
    i ∈ (Core.ggswDescs b n size dsize rank dnum pt).map (·.1) ↔ ∃ row, row < dnum ∧ ∃ col, col < rank + 1 ∧ i = row * (rank + 1) + col := by
  simp only [Core.ggswDescs, List.map_flatMap, List.map_map, List.mem_flatMap, List.mem_map, List.mem_range, Function.comp]
  constructor
  · rintro ⟨row, hr, col, hc, rfl⟩; exact ⟨row, hr, col, hc, rfl⟩
  · rintro ⟨row, hr, col, hc, rfl⟩; exact ⟨row, hr, col, hc, rfl⟩

example : (Core.gglweDescs 3 2 2 1 2 2 [[1, 0], [0, 1]]).map (·.1) = [0, 2, 1, 3] := by decide

/-! ### serialisation commutes with decompression (byte-level model of C18) -/

open Ser CoreSer in
/-- **`GLWECompressed`: serialise, deserialise, then decompress = decompress.**  In the byte-level model of
C18 (`Ser.wGLWECompressed` / `Ser.rGLWECompressed`), for every well-formed sender (`base2k, rank < 2^32`,
a 32-byte seed, a body buffer satisfying C18's `VecWF` / `Inv`) and every receiver of sufficient capacity
(whatever it held before), in both build profiles: the write succeeds, the read consumes exactly the
written bytes, and the compressed ciphertext the receiver then stands for — header, seed words, body
limbs decoded from the bytes — is the sender's, so `decompress_glwe` produces the same ciphertext. -/
theorem glwe_compressed_serialise_decompress (expand : List Nat → List Nat) (b r : Nat) (sd : Bytes) (xv rv : VecZnx) (tail : Bytes)
    (p : Profile) (mem : Nat) (hb : b < 2 ^ 32) (hr : r < 2 ^ 32) (hsd : sd.length = 32) (f0 f1 : Nat) (g0 : SeedGroup)
    (hw : Ser.VecWF xv) (hi : xv.Inv) (hcap : xv.n * xv.cols * xv.maxSize * 8 ≤ rv.data.length) :
    ∃ bs rs', wGLWECompressed p ⟨[b, r], [⟨1, sd⟩], [.vec xv], mem⟩ origin = .ok bs ∧
      rGLWECompressed origin ⟨[f0, f1], [g0], [.vec rv], mem⟩ (bs ++ tail) = .ok () rs' tail ∧
      glweOfState expand rs' = glweOfState expand ⟨[b, r], [⟨1, sd⟩], [.vec xv], mem⟩ ∧
      (glweOfState expand rs').bind Core.decompressGlwe = (glweOfState expand ⟨[b, r], [⟨1, sd⟩], [.vec xv], mem⟩).bind Core.decompressGlwe := by
  obtain ⟨bs, h1, h2⟩ := glwe_compressed_round_trip b r sd xv rv tail p mem hb hr hsd f0 f1 g0 hw hi hcap
  have hact : xv.n * xv.cols * xv.size * 8 ≤ xv.data.length := by
    obtain ⟨hs, hbuf⟩ := hi
    exact le_trans (Nat.mul_le_mul_right 8 (Nat.mul_le_mul_left _ hs)) hbuf
  have heq : glweOfState expand ⟨[b, r], [⟨1, sd⟩], [.vec ⟨xv.n, xv.cols, xv.size, xv.maxSize,
        xv.data.take (xv.n * xv.cols * xv.size * 8) ++ rv.data.drop (xv.n * xv.cols * xv.size * 8)⟩], mem⟩
      = glweOfState expand ⟨[b, r], [⟨1, sd⟩], [.vec xv], mem⟩ := by
    simp only [glweOfState, decodeCol_overwrite xv rv.data 0 hact]
  exact ⟨bs, _, h1, h2, heq, by rw [heq]⟩

open Ser CoreSer in
example : Ser.VecWF ⟨2, 1, 1, 1, List.replicate 16 1⟩ ∧ VecZnx.Inv ⟨2, 1, 1, 1, List.replicate 16 1⟩ ∧
    (glweOfState (fun s => s ++ [5, 6, 7]) ⟨[3, 1], [⟨1, List.replicate 32 2⟩], [.vec ⟨2, 1, 1, 1, List.replicate 16 1⟩], 0⟩).isSome := by
  unfold Ser.VecWF VecZnx.Inv; decide

open Ser CoreSer in
/-- **`GGLWECompressed` / `GGSWCompressed`: serialise, deserialise, then decompress = decompress, cell by cell.**
The four header fields, the seed count and every stored seed (in storage order) and the active bytes of the
matrix survive the round trip, hence every stored cell `(index, body, seed)` is the sender's and
`decompress_glwe` of each cell — `Core.decompressCell`, the object of `compressed_cells_eq` — is unchanged. -/
theorem gglwe_compressed_serialise_decompress (expand : List Nat → List Nat) (bb n rank : Nat)
    (k b ds ro cnt : Nat) (sb : Bytes) (xm rm : MatZnx) (tail : Bytes) (p : Profile) (mem : Nat)
    (hk : k < 2 ^ 32) (hb : b < 2 ^ 32) (hds : ds < 2 ^ 32) (hro : ro < 2 ^ 32) (hcnt : cnt < 2 ^ 32) (hcnt0 : 0 < cnt)
    (hsb : sb.length = 32 * cnt) (hmem : cnt * 32 ≤ mem)
    (f0 f1 f2 f3 : Nat) (g0 : SeedGroup) (hw : CoreSer.MatWF xm)
    (hx : xm.rows * xm.colsIn * xm.n * xm.colsOut * xm.size * 8 ≤ xm.data.length)
    (hcap : xm.rows * xm.colsIn * xm.n * xm.colsOut * xm.size * 8 ≤ rm.data.length) :
    ∃ bs rs', wGGLWECompressed p ⟨[k, b, ds, ro], [⟨cnt, sb⟩], [.mat xm], mem⟩ origin = .ok bs ∧
      rGGLWECompressed origin ⟨[f0, f1, f2, f3], [g0], [.mat rm], mem⟩ (bs ++ tail) = .ok () rs' tail ∧
      cellsOfState rs' = cellsOfState ⟨[k, b, ds, ro], [⟨cnt, sb⟩], [.mat xm], mem⟩ ∧
      (cellsOfState rs').map (fun cs => cs.map (fun c => (c.1, Core.decompressCell bb n rank expand c.2)))
        = (cellsOfState ⟨[k, b, ds, ro], [⟨cnt, sb⟩], [.mat xm], mem⟩).map (fun cs => cs.map (fun c => (c.1, Core.decompressCell bb n rank expand c.2))) := by
  obtain ⟨bs, h1, h2⟩ := gglwe_compressed_round_trip k b ds ro cnt sb xm rm tail p mem hk hb hds hro hcnt hcnt0 hsb hmem f0 f1 f2 f3 g0 hw hx hcap
  have heq : cellsOfState ⟨[k, b, ds, ro], [⟨cnt, sb⟩], [.mat ⟨xm.n, xm.size, xm.rows, xm.colsIn, xm.colsOut,
        xm.data.take (xm.rows * xm.colsIn * xm.n * xm.colsOut * xm.size * 8)
          ++ rm.data.drop (xm.rows * xm.colsIn * xm.n * xm.colsOut * xm.size * 8)⟩], mem⟩
      = cellsOfState ⟨[k, b, ds, ro], [⟨cnt, sb⟩], [.mat xm], mem⟩ := by
    simp only [cellsOfState, decodeBlock_overwrite xm rm.data _ 0 hx]
  exact ⟨bs, _, h1, h2, heq, by rw [heq]⟩

open Ser CoreSer in
example : CoreSer.MatWF ⟨2, 1, 1, 2, 1, List.replicate 32 1⟩ ∧
    (cellsOfState ⟨[6, 3, 1, 1], [⟨2, List.replicate 64 2⟩], [.mat ⟨2, 1, 1, 2, 1, List.replicate 32 1⟩], 64⟩).map List.length = some 2 := by
  unfold CoreSer.MatWF; decide

/-! ### serialisation commutes with decompression, every single-layout compressed type -/

open Ser CoreSerAll in
/-- **all eight matrix-shaped compressed types** (`GGLWECompressed`, `GGSWCompressed`, `GLWETensorKeyCompressed`,
`GLWESwitchingKeyCompressed`, `LWESwitchingKeyCompressed`, `LWEToGLWEKeyCompressed`, `GLWEToLWEKeyCompressed`,
`GLWEAutomorphismKeyCompressed`), with the reader and writer C18's tables assign to the type: for every admissible source `x`
(header fields within their wire widths, `count` seeds of 32 bytes, well-formed consistent matrix) and every same-shaped
receiver `s` with the capacity, in both build profiles: the write succeeds with bytes `bs`; the read of `bs ++ tail` succeeds,
leaves `tail`, and returns a state with the source's header fields and seeds whose stored cells `(index, body limbs decoded
from the bytes, seed words)` are the source's — hence `decompress_glwe` of every cell (`Core.decompressCell`, the object of
`compressed_cells_eq`) gives the same ciphertext: `decompress (read (write c)) = decompress c`, cell by cell. -/
theorem matrix_compressed_serialise_decompress (ty : String) (hty : ty ∈ compressedMatTypes) :
    ∃ (r : Rd St Unit) (w : Profile → St → Outcome Bytes), readerOf ty = some r ∧ (∀ p, writerOf p ty = some (w p)) ∧
      ∀ (p : Profile) (x s : St) (tail : Bytes), FieldsFit (hdrWidths ty) x.fields → s.fields.length = x.fields.length →
        SeedsOK .many x s → LeafOK .mat x s →
        ∃ bs rs', w p x = .ok bs ∧ r s (bs ++ tail) = .ok () rs' tail ∧ rs'.fields = x.fields ∧ rs'.seeds = x.seeds ∧
          cellsOf rs' = cellsOf x ∧
          ∀ (expand : List Nat → List Nat) (b n rank : Nat), decompressCells expand b n rank rs' = decompressCells expand b n rank x := by
  simp only [compressedMatTypes, List.mem_cons, List.mem_nil_iff, or_false] at hty
  rcases hty with rfl | rfl | rfl | rfl | rfl | rfl | rfl | rfl
  all_goals first
    | exact ⟨_, _, rfl, fun _ => rfl, mat_commutes' rt_gglwe_c⟩
    | exact ⟨_, _, rfl, fun _ => rfl, mat_commutes' rt_switching_c⟩
    | exact ⟨_, _, rfl, fun _ => rfl, mat_commutes' rt_autokey_c⟩

open Ser CoreSerAll in
/-- non-vacuity: an automorphism key compressed with `p = −5`, two cells -/
example : "glwe_automorphism_key_compressed" ∈ compressedMatTypes ∧
    (cellsOf ⟨[2 ^ 64 - 5, 6, 3, 1, 1], [⟨2, List.replicate 64 2⟩], [.mat ⟨2, 1, 1, 2, 1, List.replicate 32 1⟩], 64⟩).map List.length = some 2 ∧
    FieldsFit (hdrWidths "glwe_automorphism_key_compressed") [2 ^ 64 - 5, 6, 3, 1, 1] := by
  refine ⟨by decide, by decide, rfl, ?_⟩
  intro i hi _
  have : i = 0 ∨ i = 1 ∨ i = 2 ∨ i = 3 ∨ i = 4 := by simp [hdrWidths] at hi; omega
  rcases this with rfl | rfl | rfl | rfl | rfl <;> decide

open Ser CoreSerAll in
/-- **the two vector-shaped compressed types** (`GLWECompressed`, `LWECompressed`): same statement; the receiver stands for
the same compressed GLWE (`glweOfState`, hence the same `decompress_glwe`) and `decompress_lwe` of the received state into an
LWE of any dimension `nl` equals that of the source. -/
theorem vector_compressed_serialise_decompress (ty : String) (hty : ty ∈ compressedVecTypes) :
    ∃ (r : Rd St Unit) (w : Profile → St → Outcome Bytes), readerOf ty = some r ∧ (∀ p, writerOf p ty = some (w p)) ∧
      ∀ (p : Profile) (x s : St) (tail : Bytes), FieldsFit (hdrWidths ty) x.fields → s.fields.length = x.fields.length →
        SeedsOK .one x s → LeafOK .vec x s → ∀ (expand : List Nat → List Nat) (nl : Nat),
        ∃ bs rs', w p x = .ok bs ∧ r s (bs ++ tail) = .ok () rs' tail ∧ rs'.fields = x.fields ∧ rs'.seeds = x.seeds ∧
          (CoreSer.glweOfState expand rs').bind Core.decompressGlwe = (CoreSer.glweOfState expand x).bind Core.decompressGlwe ∧
          lweOfState expand nl rs' = lweOfState expand nl x := by
  simp only [compressedVecTypes, List.mem_cons, List.mem_nil_iff, or_false] at hty
  rcases hty with rfl | rfl
  all_goals
    refine ⟨_, _, rfl, fun _ => rfl, ?_⟩
    intro p x s tail hf hl hs hleaf expand nl
    obtain ⟨bs, rs', h1, h2, h3, h4, h5, h6⟩ := vec_commutes rt_glwe_c p x s tail hf hl hs hleaf expand nl
    exact ⟨bs, rs', h1, h2, h3, h4, by rw [h5], h6⟩

open Ser CoreSerAll in
/-- non-vacuity: an LWE compressed state with two limbs decompresses -/
example : "lwe_compressed" ∈ compressedVecTypes ∧
    (lweOfState (fun s => s ++ [5, 6, 7, 8, 9, 10]) 2 ⟨[6, 3], [⟨1, List.replicate 32 2⟩], [.vec ⟨1, 1, 2, 2, List.replicate 16 1⟩], 0⟩).isSome := by
  decide

open Ser CoreSerCont in
/-- **the two compressed container types** — `GGLWEToGGSWKeyCompressed` (`[keys.len()]` then one `GGLWECompressed` per key) and
`BlindRotationKeyCompressed` (`Distribution`, `[keys.len()]`, then one `GGSWCompressed` per LWE coefficient) — with the reader and
writer of C18's tables: for every list `xs` of admissible source elements and every receiver with the same number of elements,
each with the capacity (`ElemOK`), in both build profiles: write succeeds; reading the written bytes (followed by any tail) at
the moving cursors succeeds, leaves the tail, and returns a state with the source's header fields and seeds whose every element
has the source's stored cells — so `decompress` of the received container equals `decompress` of the source, element by
element, cell by cell. -/
theorem container_compressed_serialise_decompress (mem : Nat) (p : Profile) (xs rs : List CElem) (hall : List.Forall₂ (ElemOK mem) xs rs)
    (hlen : xs.length < 2 ^ 64) (mx : Nat) (tail : Bytes) :
    (∃ r w, readerOf "gglwe_to_ggsw_key_compressed" = some r ∧ writerOf p "gglwe_to_ggsw_key_compressed" = some w ∧
      ∃ bs rs', w (contState [] xs mx) = .ok bs ∧ r (contState [] rs mem) (bs ++ tail) = .ok () rs' tail ∧
        rs'.fields = (contState [] xs mx).fields ∧ rs'.seeds = (contState [] xs mx).seeds ∧
        contCellsOf rs' = contCellsOf (contState [] xs mx) ∧
        ∀ expand b n rank, contDecompress expand b n rank rs' = contDecompress expand b n rank (contState [] xs mx)) ∧
    (∀ (tag pl t0 p0 : Nat), DistCanon tag pl →
      ∃ r w, readerOf "blind_rotation_key_compressed" = some r ∧ writerOf p "blind_rotation_key_compressed" = some w ∧
      ∃ bs rs', w (contState [tag, pl] xs mx) = .ok bs ∧ r (contState [t0, p0] rs mem) (bs ++ tail) = .ok () rs' tail ∧
        rs'.fields = (contState [tag, pl] xs mx).fields ∧ rs'.seeds = (contState [tag, pl] xs mx).seeds ∧
        contCellsOf rs' = contCellsOf (contState [tag, pl] xs mx) ∧
        ∀ expand b n rank, contDecompress expand b n rank rs' = contDecompress expand b n rank (contState [tag, pl] xs mx)) := by
  constructor
  · obtain ⟨bs, rs', h1, h2, h3, h4, h5⟩ := g2g_rt mem p xs rs hall hlen mx tail
    exact ⟨_, _, rfl, rfl, bs, rs', h1, h2, h3, h4, h5, fun _ _ _ _ => by unfold contDecompress; rw [h5]⟩
  · intro tag pl t0 p0 hd
    obtain ⟨bs, rs', h1, h2, h3, h4, h5⟩ := brk_rt mem p xs rs hall hlen tag pl t0 p0 hd mx tail
    exact ⟨_, _, rfl, rfl, bs, rs', h1, h2, h3, h4, h5, fun _ _ _ _ => by unfold contDecompress; rw [h5]⟩

open Ser CoreSerCont in
/-- non-vacuity: a container of two one-cell elements (admissible, receiver with capacity) and its decoded view -/
example : List.Forall₂ (ElemOK 64) [⟨6, 3, 1, 1, 1, List.replicate 32 2, ⟨2, 1, 1, 1, 1, List.replicate 16 1⟩⟩, ⟨6, 3, 1, 1, 1, List.replicate 32 4, ⟨2, 1, 1, 1, 1, List.replicate 16 5⟩⟩]
      [⟨0, 0, 0, 0, 0, [], ⟨2, 1, 1, 1, 1, List.replicate 16 0⟩⟩, ⟨0, 0, 0, 0, 0, [], ⟨2, 1, 1, 1, 1, List.replicate 16 0⟩⟩] ∧
    ((contCellsOf (contState [] [⟨6, 3, 1, 1, 1, List.replicate 32 2, ⟨2, 1, 1, 1, 1, List.replicate 16 1⟩⟩, ⟨6, 3, 1, 1, 1, List.replicate 32 4, ⟨2, 1, 1, 1, 1, List.replicate 16 5⟩⟩] 64)).map
      (fun o => o.map List.length)) = [some 1, some 1] := by
  refine ⟨?_, by decide⟩
  refine List.Forall₂.cons ?_ (List.Forall₂.cons ?_ List.Forall₂.nil) <;>
    (unfold ElemOK MatRT MatWF MatZnx.Inv; decide)

/-! ### the scratch temporary, tensor keys, blind-rotation keys, LWE -/

/-- **the matrix routines as the Rust runs them** (`Core.gglweEncryptCompressedT` / `Core.ggswEncryptCompressedT`: one temporary
plaintext taken from scratch, zeroed *entirely*, filled on the gadget limb and normalised in place at every iteration) compute
exactly the cell list of `gglweEncryptCompressed` / `ggswEncryptCompressed`, whatever the scratch held on entry — in particular
for scalars with coefficients ≥ 2^(base2k−1), whose normalisation carries into the limb above the gadget limb.  Every theorem
about the latter (`compressed_cells_eq`, the index theorems) therefore holds for what the driver executes. -/
theorem matrix_temporary_irrelevant {n size : Nat} (tmp0 : Col) (hl : tmp0.length = size) (hw : WF n tmp0)
    (bits b kxe rankOut rankIn dnum dsize : Nat) (pts : List Poly) (hpts : ∀ col, col < rankIn → (pts.getD col []).length = n)
    (pt : Poly) (hpt : pt.length = n) (sk : List Poly) (expand : List Nat → List Nat) (seedXa : List Nat) (es : List Poly) :
    Core.gglweEncryptCompressedT tmp0 bits b n size kxe rankOut rankIn dnum dsize pts sk expand seedXa es
      = Core.gglweEncryptCompressed bits b n size kxe rankOut rankIn dnum dsize pts sk expand seedXa es ∧
    Core.ggswEncryptCompressedT tmp0 bits b n size kxe rankOut dnum dsize pt sk expand seedXa es
      = Core.ggswEncryptCompressed bits b n size kxe rankOut dnum dsize pt sk expand seedXa es :=
  ⟨gglweEncryptCompressedT_eq tmp0 hl hw bits b kxe rankOut rankIn dnum dsize pts hpts sk expand seedXa es,
   ggswEncryptCompressedT_eq tmp0 hl hw bits b kxe rankOut dnum dsize pt hpt sk expand seedXa es⟩

/-- non-vacuity: radix 2^2, a scalar with coefficient 3 ≥ 2^(b−1) (carry into the limb above), two rows, garbage temporary -/
example : (Core.gglweEncryptCompressedT [[7, 7], [9, 9], [5, 5]] 64 2 2 3 6 1 1 2 1 [[3, -2]] [[1, -1]] (fun s => s ++ [1, 2, 3, 4, 5, 6, 7, 8, 9, 10])
      [1, 2, 3, 4, 5, 6, 7, 8] [[0, 1], [1, 0]]).map (fun o => o.map (fun c => (c.1, c.2.body, c.2.seed)))
    = (Core.gglweEncryptCompressed 64 2 2 3 6 1 1 2 1 [[3, -2]] [[1, -1]] (fun s => s ++ [1, 2, 3, 4, 5, 6, 7, 8, 9, 10]) [1, 2, 3, 4, 5, 6, 7, 8]
      [[0, 1], [1, 0]]).map (fun o => o.map (fun c => (c.1, c.2.body, c.2.seed)))
    ∧ (Core.gglweEncryptCompressed 64 2 2 3 6 1 1 2 1 [[3, -2]] [[1, -1]] (fun s => s ++ [1, 2, 3, 4, 5, 6, 7, 8, 9, 10]) [1, 2, 3, 4, 5, 6, 7, 8] [[0, 1], [1, 0]]).isSome := by
  decide

/-- **`GLWETensorKeyCompressed`**: `glwe_tensor_key_compressed_encrypt_sk` is the compressed GGLWE encryption of the tensor
secret (`s_i·s_j`, `i ≤ j`, at input column `i·rank + j − i(i+1)/2`, normalised to one limb of radix 2^17 — coefficients up to
2^16 in absolute value, far above 2^(base2k−1) at small radices) with `rank_in` = number of pairs; so cell `(row, col)` of the
tensor key falls under `compressed_cells_eq` with seed index `row·rank_in + col` (`gglwe_seed_index`). -/
theorem tensor_key_compressed_eq {n size : Nat} (tmp0 : Col) (hl : tmp0.length = size) (hw : WF n tmp0)
    (bits b kxe rank dnum dsize : Nat) (hbits : bits = 64 ∨ bits = 128) (sk : List Poly) (expand : List Nat → List Nat)
    (seedXa : List Nat) (es : List Poly) :
    Core.tensorKeyEncryptCompressedT tmp0 bits b n size kxe rank dnum dsize sk expand seedXa es
      = (Core.tensorSecret bits n sk).bind (fun pts =>
          Core.gglweEncryptCompressed bits b n size kxe rank pts.length dnum dsize pts sk expand seedXa es) := by
  unfold Core.tensorKeyEncryptCompressedT
  cases ht : Core.tensorSecret bits n sk with
  | none => rfl
  | some pts =>
    simp only [Option.bind_some]
    apply gglweEncryptCompressedT_eq tmp0 hl hw
    intro col hc
    apply tensorSecret_length bits n hbits sk pts ht
    rw [List.getD_eq_getElem?_getD, List.getElem?_eq_getElem hc]
    simp

/-- non-vacuity: rank 2 (three pairs, in the order (0,0), (0,1), (1,1)) -/
example : Core.tensorSecret 64 2 [[1, 1], [0, -1]] = some [[0, 2], [1, -1], [-1, 0]] ∧
    ((Core.tensorKeyEncryptCompressedT [[0, 0], [0, 0]] 64 2 2 2 4 2 1 1 [[1, 1], [0, -1]] (fun s => s ++ [1, 2, 3, 4, 5, 6, 7, 8, 9, 10, 11, 12, 13, 14])
      [1, 2, 3, 4] [[0, 1], [1, 0], [0, 0]]).map (fun o => o.map (·.1))) = some [0, 1, 2] := by decide

/-- **`BlindRotationKeyCompressed` (CGGI, standard and block-binary)**: GGSW `i` is `ggsw_compressed_encrypt_sk` of the constant
polynomial `sk_lwe[i]` under the seed that is the `i`-th `new_seed()` of `Source::new(seed_xa)` (words `4i … 4i+3`), with the
error stream continuing where GGSW `i−1` stopped — so every cell of every GGSW falls under `compressed_cells_eq`
(through `matrix_temporary_irrelevant`). -/
theorem brk_subkeys_eq (bits b n size kxe rank dnum : Nat) (sk : List Poly) (expand : List Nat → List Nat) (tmp0 : Col) :
    ∀ (skLwe : List Int) (top : List Nat) (es : List Poly) (out : List (List (Nat × Core.CellC))),
      Core.brkLoop bits b n size kxe rank dnum sk expand tmp0 skLwe top es = some out →
      out.length = skLwe.length ∧
      ∀ (i : Nat) (si : Int), skLwe[i]? = some si →
        ∃ cells, out[i]? = some cells ∧
          Core.ggswEncryptCompressedT tmp0 bits b n size kxe rank dnum 1 (si :: List.replicate (n - 1) 0) sk expand ((top.drop (4 * i)).take 4)
            (es.drop ((out.take i).map List.length).sum) = some cells := by
  intro skLwe
  induction skLwe with
  | nil => intro top es out h; simp [Core.brkLoop] at h; subst h; simp
  | cons s0 rest ih =>
    intro top es out h
    unfold Core.brkLoop at h
    cases hn : Sampling.newSeed top with
    | none => simp [hn] at h
    | some q =>
      obtain ⟨seed, top'⟩ := q
      simp only [hn] at h
      cases hc : Core.ggswEncryptCompressedT tmp0 bits b n size kxe rank dnum 1 (s0 :: List.replicate (n - 1) 0) sk expand seed es with
      | none => simp [hc] at h
      | some cells =>
        simp only [hc] at h
        cases hr : Core.brkLoop bits b n size kxe rank dnum sk expand tmp0 rest top' (es.drop cells.length) with
        | none => simp [hr] at h
        | some out' =>
          simp only [hr, Option.some.injEq] at h
          subst h
          obtain ⟨il, ic⟩ := ih top' (es.drop cells.length) out' hr
          have hseed : seed = top.take 4 ∧ top' = top.drop 4 := by
            match top, hn with
            | a :: b' :: c :: d :: r, hn => simp [Sampling.newSeed] at hn; simp [hn.1.symm, hn.2.symm]
          refine ⟨by simp [il], ?_⟩
          intro i si hp
          cases i with
          | zero =>
            simp only [List.getElem?_cons_zero, Option.some.injEq] at hp
            subst hp
            exact ⟨cells, by simp, by simpa [hseed.1] using hc⟩
          | succ j =>
            simp only [List.getElem?_cons_succ] at hp
            obtain ⟨cs, h1, h2⟩ := ic j si hp
            refine ⟨cs, by simpa using h1, ?_⟩
            rw [hseed.2, List.drop_drop, List.drop_drop] at h2
            have e1 : 4 + 4 * j = 4 * (j + 1) := by omega
            have e2 : cells.length + ((out'.take j).map List.length).sum = (((cells :: out').take (j + 1)).map List.length).sum := by
              simp
            rw [e1, e2] at h2
            exact h2

example : (Core.brkEncryptCompressed 64 3 1 2 5 1 1 [1, 0] [[1]] (fun s => s.map (· + 1) ++ [7, 7, 7, 7, 7, 7, 7, 7]) [[0], [0]]
    [0, 0, 0, 0, 1, 1, 1, 1, 2] [[0], [1], [0], [1]]).map (fun o => o.map (fun c => c.map (fun x => x.2.seed)))
    = some [[[2, 2, 2, 2], [7, 7, 7, 7]], [[3, 3, 3, 3], [7, 7, 7, 7]]] := by decide

/-- **seed derivation of the two-level keys (GGLWE→GGSW key, blind-rotation key) is injective**: with `C` cells per sub-key,
sub-key `i` / cell `j` sits at global position `i·C + j`; distinct (sub-key, cell) pairs get distinct positions, i.e. distinct
`branch()` / `new_seed()` draws (level 1: word block `4i` of `Source::new(seed_xa)`; level 2: word block `4j` of
`Source::new(seed_i)`) -/
theorem two_level_seed_index_injective (C : Nat) {i j i' j' : Nat} (hj : j < C) (hj' : j' < C) (h : i * C + j = i' * C + j') :
    i = i' ∧ j = j' :=
  seed_index_injective C hj hj' h

example : (0 * 4 + 3 = 0 * 4 + 3) ∧ ¬ (1 * 4 + 0 = 0 * 4 + 3) := by decide

/-- **`decompress_lwe` inverts "keep the bodies and the mask seed" of a standard LWE ciphertext**: for every LWE ciphertext
produced by `lwe_encrypt_sk` with `source_xa = Source::new(seed)`, `decompress_lwe (bodies, seed)` is that ciphertext, limb for
limb (poulpy-core has no compressed LWE encryption routine; this is the statement its layout and `decompress_lwe` support). -/
theorem lwe_compress_decompress (b nl size kxe : Nat) (stream : List Nat) (filled : Col) (rest : List Nat)
    (hf : Sampling.vecFillUniform b (nl + 1) size stream = some (filled, rest)) (hfl : filled.length = size)
    (pt : List Int) (ptB : Nat) (sk : Poly) (e : Int) (ct : Col) (h : Core.lweEncryptSk b size kxe filled pt ptB sk e = some ct) :
    Core.decompressLwe b nl (Core.lweBodies ct) stream = some ct := by
  unfold Core.lweEncryptSk at h
  split at h
  · simp at h
  · simp only [] at h
    split at h
    · simp at h
    · rename_i t1 _
      simp only [Option.some.injEq] at h
      subst h
      have hlen : (Core.lweBodies ((List.range size).map (fun i =>
          ((normalizeAssignCol b t1 1).getD i []).getD 0 0 :: (filled.getD i []).drop 1))).length = size := by
        simp [Core.lweBodies]
      unfold Core.decompressLwe
      rw [hlen, hf]
      simp only [Option.map_some, Option.some.injEq]
      apply List.ext_getElem
      · simp [Core.lweBodies, hfl]
      · intro i h1 h2
        simp only [List.length_map, List.length_range] at h2
        simp [Core.lweBodies, List.getD_eq_getElem?_getD, List.getElem?_eq_getElem (show i < filled.length by omega)]

example : (Sampling.vecFillUniform 3 3 2 [1, 2, 3, 4, 5, 6, 7]).isSome ∧
    ((Sampling.vecFillUniform 3 3 2 [1, 2, 3, 4, 5, 6, 7]).bind (fun f => Core.lweEncryptSk 3 2 5 f.1 [2] 3 [1, -1] (-1))).isSome := by decide

/-- **`decompress_lwe` as it is (after repair e6c90e8), every LWE dimension**: for every `lwe_encrypt_sk` ciphertext with
`source_xa = Source::new(seed)` and a receiver of the same radix and number of limbs, `decompress_lwe (bodies, seed)` returns that
ciphertext, limb for limb; a receiver with another radix or another number of limbs is refused (panic outcome). -/
theorem lwe_decompress (b nl size kxe : Nat) (stream : List Nat) (filled : Col) (rest : List Nat)
    (hf : Sampling.vecFillUniform b (nl + 1) size stream = some (filled, rest)) (hfl : filled.length = size)
    (pt : List Int) (ptB : Nat) (sk : Poly) (e : Int) (ct : Col) (h : Core.lweEncryptSk b size kxe filled pt ptB sk e = some ct) :
    Core.decompressLweRust b size b nl (Core.lweBodies ct) stream = some ct ∧
    ∀ resB resSize, resB ≠ b ∨ resSize ≠ size → Core.decompressLweRust resB resSize b nl (Core.lweBodies ct) stream = none := by
  have hlen : (Core.lweBodies ct).length = size := by
    have hd := lwe_compress_decompress b nl size kxe stream filled rest hf hfl pt ptB sk e ct h
    unfold Core.decompressLwe at hd
    cases hv : Sampling.vecFillUniform b (nl + 1) (Core.lweBodies ct).length stream with
    | none => simp [hv] at hd
    | some r =>
      simp only [hv, Option.map_some, Option.some.injEq] at hd
      have h1 : ct.length = (Core.lweBodies ct).length := by simp [Core.lweBodies]
      unfold Core.lweEncryptSk at h
      split at h
      · simp at h
      · simp only [] at h
        split at h
        · simp at h
        · simp only [Option.some.injEq] at h
          rw [← h1, ← h]; simp
  constructor
  · unfold Core.decompressLweRust
    rw [if_neg (by rw [hlen]; simp)]
    exact lwe_compress_decompress b nl size kxe stream filled rest hf hfl pt ptB sk e ct h
  · intro resB resSize hne
    unfold Core.decompressLweRust
    rw [if_pos (by rw [hlen]; exact hne)]

/-- non-vacuity: dimension 2, two limbs; accepted with the object's radix and size, refused with another radix or size -/
example : ((Sampling.vecFillUniform 3 3 2 [1, 2, 3, 4, 5, 6, 7]).bind (fun f => Core.lweEncryptSk 3 2 5 f.1 [2] 3 [1, -1] (-1))) = some [[3, -2, -1], [0, 1, 2]] ∧
    Core.decompressLweRust 3 2 3 2 (Core.lweBodies [[3, -2, -1], [0, 1, 2]]) [1, 2, 3, 4, 5, 6, 7] = some [[3, -2, -1], [0, 1, 2]] ∧
    Core.decompressLweRust 4 2 3 2 (Core.lweBodies [[3, -2, -1], [0, 1, 2]]) [1, 2, 3, 4, 5, 6, 7] = none ∧
    Core.decompressLweRust 3 3 3 2 (Core.lweBodies [[3, -2, -1], [0, 1, 2]]) [1, 2, 3, 4, 5, 6, 7] = none := by decide

/-- **documentation of the repaired finding (the OLD assertion)**: with `assert_eq!(res.lwe_layout(), other.lwe_layout())` an LWE of
dimension 2 was refused although its decompression is well defined and equal to the standard ciphertext. -/
theorem lwe_decompress_old_assert_counterexample :
    ∃ (ct : Col), (Sampling.vecFillUniform 3 3 2 [1, 2, 3, 4, 5, 6, 7]).bind (fun f => Core.lweEncryptSk 3 2 5 f.1 [2] 3 [1, -1] (-1)) = some ct ∧
      Core.decompressLwe 3 2 (Core.lweBodies ct) [1, 2, 3, 4, 5, 6, 7] = some ct ∧
      Core.decompressLweOldAssert 3 2 (Core.lweBodies ct) [1, 2, 3, 4, 5, 6, 7] = none := by
  refine ⟨[[3, -2, -1], [0, 1, 2]], by decide, by decide, by decide⟩

/-! ### switching keys whose secrets live in a smaller ring -/

/-- **`glwe_switching_key_compressed_encrypt_sk` = the standard routine, secrets of any ring degree dividing `n`**: the compressed routine
is `gglwe_compressed_encrypt_sk` on the EMBEDDED secrets — `znxSwitchRing n` of every column of `sk_in` and of every column of `sk_out`,
column `i` from column `i` — so each decompressed cell is the standard encryption of the same gadget plaintext under the same embedded
output secret with the stored seed and the same error (`compressed_cells_eq`), the decompressed key satisfies the same `KeyWellFormed` as
`glwe_switching_key_encrypt_sk` on the same secrets (C01 `glwe_switching_key_encrypt_sk_wellformed_any_degree`), and both record the
degrees `(deg sk_in, deg sk_out)` -/
theorem switching_key_compressed_eq_standard {bits b n size kxe rankOut rankIn dnum dsize : Nat} {H E : Int}
    (c : KeyCtx bits b n size kxe rankOut H E) (hd : 1 ≤ dsize) (tmp0 : Col) (htl : tmp0.length = size) (htw : WF n tmp0)
    (skIn skOut : List Poly) (hin : ∀ s ∈ skIn, 0 < s.length ∧ s.length ∣ n ∧ ∀ x ∈ s, |x| ≤ 2 ^ 62)
    (hout : ∀ s ∈ skOut, 0 < s.length ∧ s.length ∣ n ∧ norm1 s * 2 ^ (b - 1) ≤ H)
    (expand : List Nat → List Nat) (seedXa : List Nat) (es : List Poly) (hes : ErrOk n E es (rankIn * dnum))
    (cc : List (Nat × Core.CellC)) (cells : List (Nat × List Col))
    (h : Core.glweSwitchingKeyEncryptCompressedT tmp0 bits b n size kxe rankOut rankIn dnum dsize skIn skOut expand seedXa es = some cc)
    (hdec : Core.decompressCells b n rankOut expand cc = some cells) :
    skIn.length = rankIn ∧ skOut.length = rankOut ∧
    Core.gglweEncryptCompressedT tmp0 bits b n size kxe rankOut rankIn dnum dsize (skIn.map (znxSwitchRing n)) (skOut.map (znxSwitchRing n))
      expand seedXa es = some cc ∧
    KeyWellFormed n b dsize size kxe dnum rankIn (Core.keyMat n dnum rankIn (rankOut + 1) size cells) (skOut.map (znxSwitchRing n))
      (fun i => Ks.ι n ((skIn.map (znxSwitchRing n)).getD i [])) (fun i r => es.getD (i * dnum + r) []) :=
  glweSwitchingKeyCompressed_wellformed_deg c hd tmp0 htl htw skIn skOut hin hout expand seedXa es hes cc cells h hdec

/-- non-vacuity: `n = 4`, `rank_out = 2`, output secret of degree 2; the recorded degrees -/
example : ((Core.glweSwitchingKeyEncryptCompressedT [[0, 0, 0, 0], [0, 0, 0, 0]] 64 3 4 2 5 2 1 1 1 [[1, -1]] [[1, 0], [0, 1]]
      (fun s => s ++ [1, 2, 3, 4, 5, 6, 7, 8, 9, 10, 11, 12, 13, 14, 15, 16, 17, 18, 19, 20]) [1, 2, 3, 4] [[0, 1, 0, 0]]).bind
      (Core.decompressCells 3 4 2 (fun s => s ++ [1, 2, 3, 4, 5, 6, 7, 8, 9, 10, 11, 12, 13, 14, 15, 16, 17, 18, 19, 20]))).isSome ∧
    Core.switchingKeyDegrees [[1, -1]] [[1, 0], [0, 1]] = (2, 2) := by decide

/-! ### the GGLWE→GGSW key: two levels of branching -/

/-- **`GGLWEToGGSWKeyCompressed`** (after the repair that stores the seeds in the object): sub-key `i`
is the compressed GGLWE of its plaintext columns under the seed that is the `i`-th branch of
`Source::new(seed_xa)` (words `4i … 4i+3`), with the error stream continuing where sub-key `i−1`
stopped — so every cell of every sub-key falls under `compressed_cells_eq`. -/
theorem g2g_subkeys_eq (bits b n size kxe rank dnum dsize : Nat) (sk : List Poly) (expand : List Nat → List Nat) :
    ∀ (pts : List (List Poly)) (top : List Nat) (es : List Poly) (out : List (List (Nat × Core.CellC))),
      Core.g2gLoop bits b n size kxe rank dnum dsize sk expand pts top es = some out →
      out.length = pts.length ∧
      ∀ (i : Nat) (pti : List Poly), pts[i]? = some pti →
        ∃ cells, out[i]? = some cells ∧
          Core.gglweEncryptCompressed bits b n size kxe rank rank dnum dsize pti sk expand ((top.drop (4 * i)).take 4)
            (es.drop ((out.take i).map List.length).sum) = some cells := by
  intro pts
  induction pts with
  | nil => intro top es out h; simp [Core.g2gLoop] at h; subst h; simp
  | cons p0 rest ih =>
    intro top es out h
    unfold Core.g2gLoop at h
    cases hn : Sampling.newSeed top with
    | none => simp [hn] at h
    | some q =>
      obtain ⟨seed, top'⟩ := q
      simp only [hn] at h
      cases hc : Core.gglweEncryptCompressed bits b n size kxe rank rank dnum dsize p0 sk expand seed es with
      | none => simp [hc] at h
      | some cells =>
        simp only [hc] at h
        cases hr : Core.g2gLoop bits b n size kxe rank dnum dsize sk expand rest top' (es.drop cells.length) with
        | none => simp [hr] at h
        | some out' =>
          simp only [hr, Option.some.injEq] at h
          subst h
          obtain ⟨il, ic⟩ := ih top' (es.drop cells.length) out' hr
          have hseed : seed = top.take 4 ∧ top' = top.drop 4 := by
            match top, hn with
            | a :: b' :: c :: d :: r, hn => simp [Sampling.newSeed] at hn; simp [hn.1.symm, hn.2.symm]
          refine ⟨by simp [il], ?_⟩
          intro i pti hp
          cases i with
          | zero =>
            simp only [List.getElem?_cons_zero, Option.some.injEq] at hp
            subst hp
            exact ⟨cells, by simp, by simpa [hseed.1] using hc⟩
          | succ j =>
            simp only [List.getElem?_cons_succ] at hp
            obtain ⟨cs, h1, h2⟩ := ic j pti hp
            refine ⟨cs, by simpa using h1, ?_⟩
            rw [hseed.2, List.drop_drop, List.drop_drop] at h2
            have e1 : 4 + 4 * j = 4 * (j + 1) := by omega
            have e2 : cells.length + ((out'.take j).map List.length).sum = (((cells :: out').take (j + 1)).map List.length).sum := by
              simp
            rw [e1, e2] at h2
            exact h2

/-- non-vacuity: two sub-keys, one cell each (N = 1, toy `expand`) -/
example : (Core.g2gEncryptCompressed 64 3 1 1 3 1 1 1 [[[1]], [[0]]] [[1]] (fun s => s.map (· + 1) ++ [7, 7, 7, 7, 7])
    [0, 0, 0, 0, 1, 1, 1, 1, 2] [[0], [1]]).map (fun o => o.map (fun c => c.map (fun x => x.2.seed)))
    = some [[[2, 2, 2, 2]], [[3, 3, 3, 3]]] := by decide

end C19
