import Poulpy.Lemmas.HalSpec
import Poulpy.Lemmas.CoreDetMisc
import Poulpy.Props.C04
import Poulpy.Lemmas.CoreDetKs
import Poulpy.Model.Core.Pack
import Poulpy.Model.Core.KsMat
import Poulpy.Model.Core.KsGgsw
import Poulpy.Model.Core.Enc

/-!
# C11 — outputs are fully determined by inputs: no stale data, no stray writes

Statements over the buffer transformers of `Poulpy.Model.HalSpec` (the functions the model driver
executes and the correspondence check compares, whole buffers, against the four back ends).

* **determinacy**: for every overwriting operation, the selected output column after the call is
  the same whatever the output buffer held before (two arbitrary prior contents `r₁ r₂` of the same
  shape) — and it has exactly `size` limbs, i.e. every active limb is written;
* **frame**: every other column, and every limb of the selected column beyond the active size, is
  exactly what it was; read-only operands are values, hence unchanged by construction.

In-place (`_assign`) forms read the output column, so for them only the frame half applies.
`SameShape r₁ r₂` is the only relation required between the two prior contents.
-/

namespace C11
open Hal

def SameShape (r₁ r₂ : Buf) : Prop :=
  r₁.WF ∧ r₂.WF ∧ r₁.n = r₂.n ∧ r₁.cols = r₂.cols ∧ r₁.size = r₂.size

/-- generic: writing `x` (a full active column) makes the column equal to `x`, whatever was there -/
theorem write_determined (r₁ r₂ : Buf) (h : SameShape r₁ r₂) (c : Nat) (hc : c < r₁.cols) (x : Col) (hx : x.length = r₁.size) :
    (r₁.setAct c x).act c = (r₂.setAct c x).act c := by
  obtain ⟨w1, w2, _, hcols, hsize⟩ := h
  rw [Buf.act_setAct_same r₁ w1 c hc x hx, Buf.act_setAct_same r₂ w2 c (hcols ▸ hc) x (hsize ▸ hx)]

theorem write_frame_columns (r : Buf) (c c' : Nat) (x : Col) (h : c' ≠ c) : (r.setAct c x).act c' = r.act c' :=
  Buf.act_setAct_other r c c' x h

theorem write_frame_capacity (r : Buf) (h : r.WF) (c : Nat) (hc : c < r.cols) (x : Col) (hx : x.length = r.size) :
    ((r.setAct c x).data.getD c []).drop r.size = (r.data.getD c []).drop r.size :=
  Buf.setAct_tail r h c hc x hx

/-! ### per operation -/

theorem dft_apply_determined (step off : Nat) (r₁ r₂ : Buf) (h : SameShape r₁ r₂) (c : Nat) (hc : c < r₁.cols) (x : Buf) (xc : Nat) :
    (opDftApply step off r₁ c x xc).act c = (opDftApply step off r₂ c x xc).act c := by
  unfold opDftApply
  rw [← h.2.2.1, ← h.2.2.2.2]
  exact write_determined r₁ r₂ h c hc _ (by simp)

theorem dft_apply_full (step off : Nat) (r : Buf) (hr : r.WF) (c : Nat) (hc : c < r.cols) (x : Buf) (xc : Nat) :
    (opDftApply step off r c x xc).act c = dftApplyCol r.n step off r.size (x.act xc) := by
  unfold opDftApply; exact Buf.act_setAct_same r hr c hc _ (by simp)

theorem dft_apply_frame (step off : Nat) (r : Buf) (c c' : Nat) (x : Buf) (xc : Nat) (h : c' ≠ c) :
    (opDftApply step off r c x xc).act c' = r.act c' := write_frame_columns r c c' _ h

theorem idft_determined (r₁ r₂ : Buf) (h : SameShape r₁ r₂) (c : Nat) (hc : c < r₁.cols) (d : Buf) (dc : Nat) :
    (opIdft r₁ c d dc).act c = (opIdft r₂ c d dc).act c := by
  unfold opIdft
  rw [← h.2.2.1, ← h.2.2.2.2]
  exact write_determined r₁ r₂ h c hc _ (by simp)

theorem idft_frame (r : Buf) (c c' : Nat) (d : Buf) (dc : Nat) (h : c' ≠ c) : (opIdft r c d dc).act c' = r.act c' :=
  write_frame_columns r c c' _ h

theorem zip_determined (f : Poly → Poly → Poly) (r₁ r₂ : Buf) (h : SameShape r₁ r₂) (c : Nat) (hc : c < r₁.cols)
    (a : Buf) (ac : Nat) (b : Buf) (bc : Nat) :
    (opZipExt f r₁ c a ac b bc).act c = (opZipExt f r₂ c a ac b bc).act c := by
  unfold opZipExt
  rw [← h.2.2.1, ← h.2.2.2.2]
  exact write_determined r₁ r₂ h c hc _ (by simp)

theorem zip_frame (f : Poly → Poly → Poly) (r : Buf) (c c' : Nat) (a : Buf) (ac : Nat) (b : Buf) (bc : Nat) (h : c' ≠ c) :
    (opZipExt f r c a ac b bc).act c' = r.act c' := write_frame_columns r c c' _ h

theorem zero_determined (r₁ r₂ : Buf) (h : SameShape r₁ r₂) (c : Nat) (hc : c < r₁.cols) :
    (opZero r₁ c).act c = (opZero r₂ c).act c := by
  unfold opZero
  rw [← h.2.2.1, ← h.2.2.2.2]
  exact write_determined r₁ r₂ h c hc _ (by simp)

theorem svp_apply_determined (r₁ r₂ : Buf) (h : SameShape r₁ r₂) (c : Nat) (hc : c < r₁.cols) (p : Poly) (x : Buf) (xc : Nat) :
    (opSvpApply r₁ c p x xc).act c = (opSvpApply r₂ c p x xc).act c := by
  unfold opSvpApply
  rw [← h.2.2.1, ← h.2.2.2.2]
  exact write_determined r₁ r₂ h c hc _ (by simp)

theorem svp_apply_frame (r : Buf) (c c' : Nat) (p : Poly) (x : Buf) (xc : Nat) (h : c' ≠ c) :
    (opSvpApply r c p x xc).act c' = r.act c' := write_frame_columns r c c' _ h

theorem cnv_apply_determined (off : Nat) (r₁ r₂ : Buf) (h : SameShape r₁ r₂) (c : Nat) (hc : c < r₁.cols)
    (l : Buf) (lc : Nat) (rr : Buf) (rc : Nat) :
    (opCnvApply off r₁ c l lc rr rc).act c = (opCnvApply off r₂ c l lc rr rc).act c := by
  unfold opCnvApply
  rw [← h.2.2.1, ← h.2.2.2.2]
  exact write_determined r₁ r₂ h c hc _ (by simp)

/-- the column-addressing half of the property for the convolution (the pinned FFT64 code wrote to
column 0 with the wrong stride — repaired, see known_findings.json): other columns are untouched. -/
theorem cnv_apply_frame (off : Nat) (r : Buf) (c c' : Nat) (l : Buf) (lc : Nat) (rr : Buf) (rc : Nat) (h : c' ≠ c) :
    (opCnvApply off r c l lc rr rc).act c' = r.act c' := write_frame_columns r c c' _ h

theorem cnv_pairwise_determined (off : Nat) (r₁ r₂ : Buf) (h : SameShape r₁ r₂) (c : Nat) (hc : c < r₁.cols) (l rr : Buf) (i j : Nat) :
    (opCnvPairwise off r₁ c l rr i j).act c = (opCnvPairwise off r₂ c l rr i j).act c := by
  unfold opCnvPairwise
  split
  · exact cnv_apply_determined off r₁ r₂ h c hc l i rr j
  · rw [← h.2.2.1, ← h.2.2.2.2]
    exact write_determined r₁ r₂ h c hc _ (by simp)

/-- in-place forms: frame only -/
theorem assign_frame (f : Poly → Poly → Poly) (r : Buf) (c c' : Nat) (a : Buf) (ac : Nat) (h : c' ≠ c) :
    (opAssign f r c a ac).act c' = r.act c' := write_frame_columns r c c' _ h

theorem assign_capacity (f : Poly → Poly → Poly) (r : Buf) (hr : r.WF) (c : Nat) (hc : c < r.cols) (a : Buf) (ac : Nat) :
    ((opAssign f r c a ac).data.getD c []).drop r.size = (r.data.getD c []).drop r.size := by
  unfold opAssign
  exact write_frame_capacity r hr c hc _ (by simp [Buf.act_length r hr c hc])

/-- limbs of the result beyond the operand's size are left as they were by `_assign` (documented
behaviour: "assign forms touch only min limbs") -/
theorem assign_untouched_limbs (f : Poly → Poly → Poly) (res a : Col) (j : Nat) (hj : a.length ≤ j) (hj2 : j < res.length) :
    (Hal.assignCol f res a)[j]? = res[j]? := by
  unfold Hal.assignCol
  simp [List.getElem?_mapIdx, Nat.not_lt.mpr hj]

/-- non-vacuity: a concrete well-formed 2-column buffer with capacity 2 and active size 1 -/
example : SameShape
    { n := 2, cols := 2, size := 1, maxSize := 2, data := [[[1, 2], [3, 4]], [[5, 6], [7, 8]]] }
    { n := 2, cols := 2, size := 1, maxSize := 2, data := [[[9, 9], [9, 9]], [[0, 0], [0, 0]]] } := by
  refine ⟨⟨rfl, by decide, ?_⟩, ⟨rfl, by decide, ?_⟩, rfl, rfl, rfl⟩ <;>
  · intro c hc
    have : c = 0 ∨ c = 1 := by simp at hc; omega
    rcases this with rfl | rfl <;> rfl


/-! # Core level (`poulpy-core`)

Every core entry point that takes a result operand, over the executable models `Model/Core/*.lean` and
`Model/CkksData.lean` (the definitions `pdriver ops|ks|ep|expand|mul|enc|ckks` executes).  Three situations:

1. **The model receives the previous value of `res`** (`Core.Ops.*`, the CKKS `…_into` forms, `packerFlush`, the
   tensor loops, and the scratch buffers `res_dft` / `res_dft_tmp` of the external-product and relinearisation
   families): determinacy is a theorem with content — two previous values of the same shape (`SameShapeG`: same
   metadata, same number of columns, column-wise the same number of limbs) give the same outcome, *including the
   same panic / error*; proved by a simulation over the column loops (`Lemmas/CoreDet*.lean`).
2. **In-place / accumulate forms** (`_assign`, `lsh_add`, `lsh_sub`, `rsh`, `sub_negate`, `tensor_apply_add_assign`):
   the operand is an input, determinacy is false (`accumulate_reads_res`); the frame is stated instead: metadata and
   number of columns preserved, columns beyond the written rank untouched, and each written column is the kernel
   applied to *its own* previous content (precise dependence).  Limbs beyond the operand's size inside a written
   column: `C09.add_assign_size_rule` / `sub_assign_size_rule` / `assign_untouched_limbs`.
3. **The model receives only the shape of `res`** (`Ks.keyswitch`, `automorphism`, `trace`, `pack`, the GGLWE/GGSW
   key-switches, `glweExternalProduct`, `matExternalProduct`, row expansion, `mulPlain`, `mulConst`, encryption,
   decryption): the previous content is not an argument of the model at all, so determinacy in the model is the
   signature itself (`*_reads_shape_only`, one-line proofs); what carries the weight there is the tie — the harness
   hands the real code a garbage-filled `res` (two different fills) while the model only ever sees the shape.
Read-only operands are values, hence unchanged by construction; the harness checks them on the real code.
-/

open Core Core.Ops C11Core

/-! ## 1a. `Core.Ops`: overwriting operations -/

theorem glwe_add_determined (N : Nat) (res₁ res₂ a b : GLWE) (h : SameShapeG res₁ res₂) :
    glweAddInto N res₁ a b = glweAddInto N res₂ a b := glweAddInto_det N res₁ res₂ a b h

theorem glwe_sub_determined (N : Nat) (res₁ res₂ a b : GLWE) (h : SameShapeG res₁ res₂) :
    glweSub N res₁ a b = glweSub N res₂ a b := glweSub_det N res₁ res₂ a b h

theorem glwe_negate_determined (N : Nat) (res₁ res₂ a : GLWE) (h : SameShapeG res₁ res₂) :
    glweNegate N res₁ a = glweNegate N res₂ a := glweNegate_det N res₁ res₂ a h

theorem glwe_copy_determined (N : Nat) (res₁ res₂ a : GLWE) (h : SameShapeG res₁ res₂) :
    glweCopy N res₁ a = glweCopy N res₂ a := glweCopy_det N res₁ res₂ a h

theorem glwe_rotate_determined (N : Nat) (k : Int) (res₁ res₂ a : GLWE) (h : SameShapeG res₁ res₂) :
    glweRotate N k res₁ a = glweRotate N k res₂ a := glweRotate_det N k res₁ res₂ a h

theorem glwe_mul_xp_minus_one_determined (N : Nat) (k : Int) (res₁ res₂ a : GLWE) (h : SameShapeG res₁ res₂) :
    glweMulXpMinusOne N k res₁ a = glweMulXpMinusOne N k res₂ a := glweMulXpMinusOne_det N k res₁ res₂ a h

/-- `glwe_lsh(res, a, k)` passes `res` to a kernel that reads it only through its number of limbs -/
theorem glwe_lsh_determined (N sc : Nat) (res₁ res₂ a : GLWE) (k : Nat) (h : SameShapeG res₁ res₂) :
    glweLsh N res₁ a k = glweLsh N res₂ a k ∧ glweLshS N sc res₁ a k = glweLshS N sc res₂ a k := by
  refine ⟨glweLsh_det N res₁ res₂ a k h, ?_⟩
  unfold glweLshS; rw [glweLsh_det N res₁ res₂ a k h]

theorem glwe_normalize_determined (N sc : Nat) (res₁ res₂ a : GLWE) (h : SameShapeG res₁ res₂) :
    glweNormalize N res₁ a = glweNormalize N res₂ a ∧ glweNormalizeS N sc res₁ a = glweNormalizeS N sc res₂ a := by
  refine ⟨glweNormalize_det N res₁ res₂ a h, ?_⟩
  unfold glweNormalizeS; rw [glweNormalize_det N res₁ res₂ a h, h.rank, ← h.2.2.1]

/-- `ggsw_rotate(k, res, a)`: when `res` holds exactly the `dnum·(rank+1)` entries the loop rewrites -/
theorem ggsw_rotate_determined (N : Nat) (k : Int) (res₁ res₂ a : GGSW) (h : SameShapeGG res₁ res₂)
    (hfull : res₁.cts.length = res₁.dnum * (res₁.rank + 1)) : ggswRotate N k res₁ a = ggswRotate N k res₂ a :=
  ggswRotate_det N k res₁ res₂ a h hfull

example : SameShapeG ⟨4, 0, 2, [[[1, 2]], [[3, 4]]]⟩ ⟨4, 0, 2, [[[9, 9]], [[-7, 0]]]⟩ :=
  ⟨rfl, rfl, rfl, rfl, fun i => by rcases i with _ | _ | i <;> simp⟩

example : glweAddInto 2 ⟨4, 0, 2, [[[1, 2]], [[3, 4]]]⟩ ⟨4, 0, 2, [[[1, 1]], [[1, 1]]]⟩ ⟨4, 0, 2, [[[5, 5]], [[6, 6]]]⟩
    = .ok ⟨4, 0, 2, [[[6, 6]], [[7, 7]]]⟩ := by decide

/-- frame half of the overwriting operations: metadata and number of columns preserved (every column is written) -/
theorem overwriting_ops_meta (N : Nat) (k : Int) (s : Nat) (res a b r : GLWE) :
    (glweAddInto N res a b = .ok r → Meta res r) ∧ (glweSub N res a b = .ok r → Meta res r) ∧
    (glweNegate N res a = .ok r → Meta res r) ∧ (glweCopy N res a = .ok r → Meta res r) ∧
    (glweRotate N k res a = .ok r → Meta res r) ∧ (glweMulXpMinusOne N k res a = .ok r → Meta res r) ∧
    (glweLsh N res a s = .ok r → Meta res r) ∧ (glweNormalize N res a = .ok r → Meta res r) :=
  ⟨glweAddInto_meta N res a b r, glweSub_meta N res a b r, glweNegate_meta N res a r, glweCopy_meta N res a r,
   glweRotate_meta N k res a r, glweMulXpMinusOne_meta N k res a r, glweLsh_meta N res a r s, glweNormalize_meta N res a r⟩

/-! ## 1b. `Core.Ops`: in-place and accumulate forms — frame and precise dependence -/

/-- accumulate forms are not determined by their operands: they read `res` -/
theorem accumulate_reads_res :
    ∃ res₁ res₂ a : GLWE, SameShapeG res₁ res₂ ∧ glweAddAssign 1 res₁ a ≠ glweAddAssign 1 res₂ a := addAssign_reads_res

theorem glwe_add_assign_frame (N : Nat) (res a r : GLWE) (h : glweAddAssign N res a = .ok r) :
    Frame (fun j => j < a.rank + 1) res r ∧
    ∀ j, j < a.rank + 1 → ∃ old, res.cols[j]? = some old ∧ r.cols[j]? = some (vecAddAssignW w64 old (a.cols.getD j [])) :=
  glweAddAssign_frame N res a r h

theorem glwe_sub_assign_frame (N : Nat) (res a r : GLWE) (h : glweSubAssign N res a = .ok r) :
    Frame (fun j => j < a.rank + 1) res r ∧
    ∀ j, j < a.rank + 1 → ∃ old, res.cols[j]? = some old ∧ r.cols[j]? = some (vecSubAssignW w64 old (a.cols.getD j [])) :=
  glweSubAssign_frame N res a r h

theorem glwe_sub_negate_assign_frame (N : Nat) (res a r : GLWE) (h : glweSubNegateAssign N res a = .ok r) :
    Frame (fun j => j < max (a.rank + 1) (res.rank + 1)) res r ∧
    (∀ j, j < a.rank + 1 → ∃ old, res.cols[j]? = some old ∧
      r.cols[j]? = some (vecSubNegateAssignW w64 old (a.cols.getD j []))) ∧
    (∀ j, a.rank + 1 ≤ j → j < res.rank + 1 → ∃ old, res.cols[j]? = some old ∧
      r.cols[j]? = some (vecNegateAssignW w64 old)) := glweSubNegateAssign_frame N res a r h

theorem glwe_lsh_add_frame (N : Nat) (res a r : GLWE) (k : Nat) (h : glweLshAdd N res a k = .ok r) :
    Frame (fun j => j < a.rank + 1) res r ∧
    ∀ j, j < a.rank + 1 → ∃ old, res.cols[j]? = some old ∧
      r.cols[j]? = some (lshAddCol res.base2k k old (a.cols.getD j []) N) := glweLshAdd_frame N res a r k h

theorem glwe_lsh_sub_frame (N : Nat) (res a r : GLWE) (k : Nat) (h : glweLshSub N res a k = .ok r) :
    Frame (fun j => j < a.rank + 1) res r ∧
    ∀ j, j < a.rank + 1 → ∃ old, res.cols[j]? = some old ∧
      r.cols[j]? = some (lshSubCol res.base2k k old (a.cols.getD j []) N) := glweLshSub_frame N res a r k h

/-- the unary in-place forms: every column is the kernel applied to itself, metadata untouched -/
theorem unary_assign_frames (N : Nat) (k : Int) (s : Nat) (scr : Int) (res r : GLWE) :
    (glweNegateAssign N res = .ok r → Frame (fun j => j < res.rank + 1) res r ∧
      ∀ j, j < res.rank + 1 → ∃ old, res.cols[j]? = some old ∧ r.cols[j]? = some (vecNegateAssignW w64 old)) ∧
    (glweRotateAssign N k res = .ok r → Frame (fun j => j < res.rank + 1) res r ∧
      ∀ j, j < res.rank + 1 → ∃ old, res.cols[j]? = some old ∧ r.cols[j]? = some (vecRotateAssignW w64 k old)) ∧
    (glweMulXpMinusOneAssign N k res = .ok r → Frame (fun j => j < res.rank + 1) res r ∧
      ∀ j, j < res.rank + 1 → ∃ old, res.cols[j]? = some old ∧ r.cols[j]? = some (vecMulXpMinusOneAssignW w64 k old)) ∧
    (glweLshAssign N res s = .ok r → Frame (fun j => j < res.rank + 1) res r ∧
      ∀ j, j < res.rank + 1 → ∃ old, res.cols[j]? = some old ∧ r.cols[j]? = some (lshAssignCol res.base2k s old N)) ∧
    (glweNormalizeAssign N res = .ok r → Frame (fun j => j < res.rank + 1) res r ∧
      ∀ j, j < res.rank + 1 → ∃ old, res.cols[j]? = some old ∧ r.cols[j]? = some (normalizeAssignCol res.base2k old N)) ∧
    (glweRsh N scr s res = .ok r → Frame (fun j => j < res.rank + 1) res r ∧
      ∀ j, j < res.rank + 1 → ∃ old, res.cols[j]? = some old ∧
        (rshAssignCol? res.base2k s scr old N).map some = some (r.cols[j]?)) :=
  ⟨glweNegateAssign_frame N res r, glweRotateAssign_frame N k res r, glweMulXpMinusOneAssign_frame N k res r,
   fun h => glweLshAssign_frame N res r s h, glweNormalizeAssign_frame N res r, glweRsh_frame N scr s res r⟩

example : glweAddAssign 1 ⟨4, 0, 1, [[[1]], [[7]]]⟩ ⟨4, 0, 1, [[[5]]]⟩ = .ok ⟨4, 0, 1, [[[6]], [[7]]]⟩ := by decide

/-! ## 1c. CKKS data path (`Model/CkksData.lean`): the `…_into` forms -/

section ckks
open Ckks

/-- the destination of every CKKS `…_into` operation is read through its metadata and shape only -/
theorem ckks_into_determined (env : Env) (N : Nat) (sub : Bool) (k bits : Nat) (d₁ d₂ a b : DCt) (pt : Pt) (pg : Col)
    (hm : d₁.md = d₂.md) (hs : SameShapeG d₁.g d₂.g) :
    dRescaleInto env N d₁ k a = dRescaleInto env N d₂ k a ∧
    dMulPow2Into env N d₁ a bits = dMulPow2Into env N d₂ a bits ∧
    dDivPow2Into env N d₁ a bits = dDivPow2Into env N d₂ a bits ∧
    dNegInto env N d₁ a = dNegInto env N d₂ a ∧
    dAddInto env N sub d₁ a b = dAddInto env N sub d₂ a b ∧
    dAddPtInto env N sub d₁ a pt pg = dAddPtInto env N sub d₂ a pt pg :=
  ⟨dRescaleInto_det env N d₁ d₂ k a hm hs, dMulPow2Into_det env N d₁ d₂ a bits hm hs, dDivPow2Into_det env N d₁ d₂ a bits hm hs,
   dNegInto_det env N d₁ d₂ a hm hs, dAddInto_det env N sub d₁ d₂ a b hm hs, dAddPtInto_det env N sub d₁ d₂ a pt pg hm hs⟩

end ckks

/-! ## 1d. packing: `glwe_packer_flush(packer, res)` -/

theorem packer_flush_determined (N : Nat) (p : Ks.Packer) (res₁ res₂ : GLWE) (h : SameShapeG res₁ res₂) :
    Ks.packerFlush N p res₁ = Ks.packerFlush N p res₂ := by
  unfold Ks.packerFlush
  simp only [← h.1, glweCopy_det N res₁ res₂ _ h, glweNormalize_det N res₁ res₂ _ h]

/-! ## 1e. scratch buffers that the code does not zero: external products, CMux, Cswap, relinearisation, tensor -/

theorem cmux_scratch_determined (big : Bool) (n rb rs : Nat) (t f : List Col) (g : EpGGSW) (res0 res0' tmp0 tmp0' : List Col)
    (hd : 1 ≤ g.dsize)
    (h0 : shapeOk g.n (g.rank + 1) g.size res0 = true) (h0' : shapeOk g.n (g.rank + 1) g.size res0' = true)
    (ht : shapeOk g.n (g.rank + 1) g.size tmp0 = true) (ht' : shapeOk g.n (g.rank + 1) g.size tmp0' = true) :
    cmux big n rb rs t f g res0 tmp0 = cmux big n rb rs t f g res0' tmp0' ∧
    cmuxAssign big n rb t f g res0 tmp0 = cmuxAssign big n rb t f g res0' tmp0' ∧
    cmuxAssignNeg big n rb t f g res0 tmp0 = cmuxAssignNeg big n rb t f g res0' tmp0' ∧
    cswap big n rb t f g res0 tmp0 = cswap big n rb t f g res0' tmp0' := by
  refine ⟨?_, ?_, ?_, ?_⟩
  · unfold cmux cmuxTail; simp only [Core.epInternal_determined _ g res0 res0' tmp0 tmp0' hd h0 h0' ht ht']
  · unfold cmuxAssign cmuxTail; simp only [Core.epInternal_determined _ g res0 res0' tmp0 tmp0' hd h0 h0' ht ht']
  · unfold cmuxAssignNeg cmuxTail; simp only [Core.epInternal_determined _ g res0 res0' tmp0 tmp0' hd h0 h0' ht ht']
  · unfold cswap; simp only [Core.epInternal_determined _ g res0 res0' tmp0 tmp0' hd h0 h0' ht ht']

/-- `glwe_keyswitch_internal(res_dft, a, key)`: same outcome and, column by column, the same big accumulator whatever
`res_dft` held (`glwe_keyswitch` zeroes it, the fused automorphisms below do not) -/
theorem keyswitch_internal_scratch_determined (big : Bool) (d₁ d₂ : Hal.Buf) (a : Ks.Ct) (key : Ks.Key) (hD : 1 ≤ key.dsize)
    (w1 : d₁.WF) (w2 : d₂.WF) (hs1 : d₁.size = key.mat.size) (hs2 : d₂.size = key.mat.size)
    (hm1 : d₁.maxSize = key.mat.size) (hm2 : d₂.maxSize = key.mat.size)
    (hc1 : d₁.cols = key.mat.colsOut) (hc2 : d₂.cols = key.mat.colsOut) (hn1 : d₁.n = a.n) (hn2 : d₂.n = a.n) :
    ORelK (BufAgree key.mat.colsOut) (Ks.keyswitchInternal big d₁ a key) (Ks.keyswitchInternal big d₂ a key) :=
  keyswitchInternal_det big d₁ d₂ a key hD w1 w2 hs1 hs2 hm1 hm2 hc1 hc2 hn1 hn2

/-- `glwe_automorphism_{add,sub,sub_negate}` and their `_assign` forms take `res_dft` from scratch **without zeroing
it**; the result is nevertheless independent of what the scratch held (every admissible digit size) -/
theorem automorphism_fused_scratch_determined (f : Ks.Fused) (big : Bool) (d₁ d₂ : Hal.Buf) (rb rs rr : Nat) (a : Ks.Ct)
    (key : Ks.Key) (hD : 1 ≤ key.dsize) (w1 : d₁.WF) (w2 : d₂.WF) (hs1 : d₁.size = key.mat.size) (hs2 : d₂.size = key.mat.size)
    (hm1 : d₁.maxSize = key.mat.size) (hm2 : d₂.maxSize = key.mat.size)
    (hc1 : d₁.cols = key.mat.colsOut) (hc2 : d₂.cols = key.mat.colsOut) (hn1 : d₁.n = a.n) (hn2 : d₂.n = a.n)
    (hpos : 0 < key.mat.colsOut) :
    Ks.automorphismFused f big d₁ rb rs rr a key = Ks.automorphismFused f big d₂ rb rs rr a key :=
  automorphismFused_det f big d₁ d₂ rb rs rr a key hD w1 w2 hs1 hs2 hm1 hm2 hc1 hc2 hn1 hn2 hpos

example : Ks.automorphismFused .add false Ks.AccumExample.dirty3 4 1 0 (Ks.mkCt 4 1 [[[3]]]) Ks.AccumExample.exKey3
    = Ks.automorphismFused .add false (Ks.zeroBuf 1 1 4) 4 1 0 (Ks.mkCt 4 1 [[[3]]]) Ks.AccumExample.exKey3 := by decide

/-- `glwe_tensor_relinearize` takes `res_dft` from scratch without zeroing it -/
theorem relinearize_scratch_determined (big : Bool) (n rb rs : Nat) (a : List Col) (ab : Nat) (g : GGLWE) (res0 res0' : List Col)
    (hd : 1 ≤ g.dsize) (h0 : shapeOk g.n g.colsOut g.size res0 = true) (h0' : shapeOk g.n g.colsOut g.size res0' = true) :
    relinearize big n rb rs a ab g g.size res0 = relinearize big n rb rs a ab g g.size res0' := by
  unfold relinearize
  simp only [fun x => C04.gglweProductDft_determined x g res0 res0' hd h0 h0']

/-- `glwe_tensor_apply` / `glwe_tensor_square_apply` (non-accumulating) overwrite the whole tensor, ranks 1 and 2
(`cols = 2, 3`: `cols(cols+1)/2 = 3, 6` columns) -/
theorem tensor_apply_determined2 (big : Bool) (n rb rs off b : Nat) (a x : List Col) (ka kx : Nat) (ha : a.length = 2)
    (r0 r1 r2 z0 z1 z2 : Col) :
    tensorApply false big n rb rs off b a ka x kx [r0, r1, r2] = tensorApply false big n rb rs off b a ka x kx [z0, z1, z2] ∧
    tensorSquare big n rb rs off b a ka [r0, r1, r2] = tensorSquare big n rb rs off b a ka [z0, z1, z2] := by
  unfold tensorApply tensorSquare
  simp only [ha]
  exact ⟨tensorApplyCore_det2 _ _ _ _ _ _ _ _ _ _, tensorSquareCore_det2 _ _ _ _ _ _ _ _ _ _⟩

theorem tensor_apply_determined3 (big : Bool) (n rb rs off b : Nat) (a x : List Col) (ka kx : Nat) (ha : a.length = 3)
    (r0 r1 r2 r3 r4 r5 z0 z1 z2 z3 z4 z5 : Col) :
    tensorApply false big n rb rs off b a ka x kx [r0, r1, r2, r3, r4, r5]
      = tensorApply false big n rb rs off b a ka x kx [z0, z1, z2, z3, z4, z5] ∧
    tensorSquare big n rb rs off b a ka [r0, r1, r2, r3, r4, r5] = tensorSquare big n rb rs off b a ka [z0, z1, z2, z3, z4, z5] := by
  unfold tensorApply tensorSquare
  simp only [ha]
  exact ⟨tensorApplyCore_det3 _ _ _ _ _ _ _ _ _ _ _ _ _ _ _ _, tensorSquareCore_det3 _ _ _ _ _ _ _ _ _ _ _ _ _ _ _ _⟩

/- the accumulating form `glwe_tensor_apply_add_assign` reads the tensor: its precise dependence (`res ← res + a ⊗ b`
limb-wise, ranks 1 and 2) is `C05.tensorApply_acc_eq_add` in Props/C05.lean. -/

/-! ## 2. models that receive only the shape of `res` -/

/-- key-switching family: `res` enters as `(base2k, size, rank)` -/
theorem keyswitch_family_reads_shape_only (big : Bool) (res₁ res₂ : GLWE) (h : SameShapeG res₁ res₂) (a : Ks.Ct) (key : Ks.Key)
    (f : Ks.Fused) (dft0 : Hal.Buf) (keys : List Ks.Key) (kb skip : Nat) :
    Ks.keyswitch big res₁.base2k res₁.size res₁.rank a key = Ks.keyswitch big res₂.base2k res₂.size res₂.rank a key ∧
    Ks.automorphism big res₁.base2k res₁.size res₁.rank a key = Ks.automorphism big res₂.base2k res₂.size res₂.rank a key ∧
    Ks.automorphismFused f big dft0 res₁.base2k res₁.size res₁.rank a key
      = Ks.automorphismFused f big dft0 res₂.base2k res₂.size res₂.rank a key ∧
    Ks.trace big kb keys skip res₁.base2k res₁.size a = Ks.trace big kb keys skip res₂.base2k res₂.size a := by
  simp only [h.1, h.size, h.rank, and_self]

theorem pack_reads_shape_only (big : Bool) (N kb : Nat) (keys : List Ks.Key) (res₁ res₂ : GLWE) (h : SameShapeG res₁ res₂)
    (a : Ks.SlotMap) (lg : Nat) :
    Ks.pack big N kb keys res₁.base2k res₁.size a lg = Ks.pack big N kb keys res₂.base2k res₂.size a lg := by
  simp only [h.1, h.size]

/-- external products: `res` enters as `(base2k, size)` -/
theorem external_product_reads_shape_only (big : Bool) (n : Nat) (res₁ res₂ : GLWE) (h : SameShapeG res₁ res₂)
    (a : List Col) (ab : Nat) (g : EpGGSW) (rowsRes rowsA colsIn : Nat) (m : List (List Col)) (gl : Bool) :
    glweExternalProduct big n res₁.base2k res₁.size a ab g = glweExternalProduct big n res₂.base2k res₂.size a ab g ∧
    matExternalProduct big n res₁.base2k res₁.size rowsRes rowsA colsIn m ab g gl
      = matExternalProduct big n res₂.base2k res₂.size rowsRes rowsA colsIn m ab g gl := by
  simp only [h.1, h.size, and_self]

/-- row expansion, plaintext / constant products: `res` enters as `(base2k, size)` -/
theorem expand_mul_reads_shape_only (big asg : Bool) (n off b : Nat) (res₁ res₂ : GLWE) (h : SameShapeG res₁ res₂)
    (rows : List (List Col)) (t : ToGGSWKey) (a : List Col) (ka : Nat) (p : Col) (kp : Nat) (c : List Int) :
    ggswFromGGLWE big n res₁.base2k res₁.size rows t = ggswFromGGLWE big n res₂.base2k res₂.size rows t ∧
    mulPlain big n res₁.base2k res₁.size off b a ka p kp = mulPlain big n res₂.base2k res₂.size off b a ka p kp ∧
    mulConst asg big n res₁.base2k res₁.size off b a c = mulConst asg big n res₂.base2k res₂.size off b a c := by
  simp only [h.1, h.size, and_self]

/-- encryption and decryption: `res` / `pt` enter as `(base2k, k, n, size)` -/
theorem encrypt_decrypt_reads_shape_only (bits kxe : Nat) (res₁ res₂ : GLWE) (h : SameShapeG res₁ res₂)
    (masks : List Col) (pt : Option Col) (ptB : Nat) (sk : List Poly) (e : Poly) (pk : List Col) (u : Poly) (es : List Poly)
    (ct : GLWE) :
    Core.glweEncryptSk bits res₁.base2k res₁.k res₁.n res₁.size kxe masks pt ptB sk e
      = Core.glweEncryptSk bits res₂.base2k res₂.k res₂.n res₂.size kxe masks pt ptB sk e ∧
    Core.glweEncryptPk bits res₁.base2k res₁.k res₁.n res₁.size kxe pk u pt es
      = Core.glweEncryptPk bits res₂.base2k res₂.k res₂.n res₂.size kxe pk u pt es ∧
    Core.glweDecrypt bits ct sk res₁.base2k res₁.size = Core.glweDecrypt bits ct sk res₂.base2k res₂.size := by
  simp only [h.1, h.2.1, h.2.2.1, h.size, and_self]

end C11
