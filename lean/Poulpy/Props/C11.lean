import Poulpy.Lemmas.HalSpec

/-!
# C11 — outputs are fully determined by inputs: no stale data, no stray writes

Statements over the buffer transformers of `Poulpy.Model.HalSpec` (the functions the model driver
executes and the correspondence check compares, whole buffers, against the four back ends).

* **determinacy**: for every overwriting operation, the selected output column after the call is
  the same whatever the output buffer held before (two arbitrary prior contents `r₁ r₂` of the same
  shape) — and it has exactly `size` limbs, i.e. every active limb is written;
* **frame**: every other column, and every limb of the selected column beyond the active size, is
  exactly what it was; read-only operands are values, hence unchanged by construction.

In-place (`_assign`) forms read the output column, so for them only the frame half applies.
`SameShape r₁ r₂` is the only relation required between the two prior contents.
-/

namespace C11
open Hal

def SameShape (r₁ r₂ : Buf) : Prop :=
  r₁.WF ∧ r₂.WF ∧ r₁.n = r₂.n ∧ r₁.cols = r₂.cols ∧ r₁.size = r₂.size

/-- generic: writing `x` (a full active column) makes the column equal to `x`, whatever was there -/
theorem write_determined (r₁ r₂ : Buf) (h : SameShape r₁ r₂) (c : Nat) (hc : c < r₁.cols) (x : Col) (hx : x.length = r₁.size) :
    (r₁.setAct c x).act c = (r₂.setAct c x).act c := by
  obtain ⟨w1, w2, _, hcols, hsize⟩ := h
  rw [Buf.act_setAct_same r₁ w1 c hc x hx, Buf.act_setAct_same r₂ w2 c (hcols ▸ hc) x (hsize ▸ hx)]

theorem write_frame_columns (r : Buf) (c c' : Nat) (x : Col) (h : c' ≠ c) : (r.setAct c x).act c' = r.act c' :=
  Buf.act_setAct_other r c c' x h

theorem write_frame_capacity (r : Buf) (h : r.WF) (c : Nat) (hc : c < r.cols) (x : Col) (hx : x.length = r.size) :
    ((r.setAct c x).data.getD c []).drop r.size = (r.data.getD c []).drop r.size :=
  Buf.setAct_tail r h c hc x hx

/-! ### per operation -/

theorem dft_apply_determined (step off : Nat) (r₁ r₂ : Buf) (h : SameShape r₁ r₂) (c : Nat) (hc : c < r₁.cols) (x : Buf) (xc : Nat) :
    (opDftApply step off r₁ c x xc).act c = (opDftApply step off r₂ c x xc).act c := by
  unfold opDftApply
  rw [← h.2.2.1, ← h.2.2.2.2]
  exact write_determined r₁ r₂ h c hc _ (by simp)

theorem dft_apply_full (step off : Nat) (r : Buf) (hr : r.WF) (c : Nat) (hc : c < r.cols) (x : Buf) (xc : Nat) :
    (opDftApply step off r c x xc).act c = dftApplyCol r.n step off r.size (x.act xc) := by
  unfold opDftApply; exact Buf.act_setAct_same r hr c hc _ (by simp)

theorem dft_apply_frame (step off : Nat) (r : Buf) (c c' : Nat) (x : Buf) (xc : Nat) (h : c' ≠ c) :
    (opDftApply step off r c x xc).act c' = r.act c' := write_frame_columns r c c' _ h

theorem idft_determined (r₁ r₂ : Buf) (h : SameShape r₁ r₂) (c : Nat) (hc : c < r₁.cols) (d : Buf) (dc : Nat) :
    (opIdft r₁ c d dc).act c = (opIdft r₂ c d dc).act c := by
  unfold opIdft
  rw [← h.2.2.1, ← h.2.2.2.2]
  exact write_determined r₁ r₂ h c hc _ (by simp)

theorem idft_frame (r : Buf) (c c' : Nat) (d : Buf) (dc : Nat) (h : c' ≠ c) : (opIdft r c d dc).act c' = r.act c' :=
  write_frame_columns r c c' _ h

theorem zip_determined (f : Poly → Poly → Poly) (r₁ r₂ : Buf) (h : SameShape r₁ r₂) (c : Nat) (hc : c < r₁.cols)
    (a : Buf) (ac : Nat) (b : Buf) (bc : Nat) :
    (opZipExt f r₁ c a ac b bc).act c = (opZipExt f r₂ c a ac b bc).act c := by
  unfold opZipExt
  rw [← h.2.2.1, ← h.2.2.2.2]
  exact write_determined r₁ r₂ h c hc _ (by simp)

theorem zip_frame (f : Poly → Poly → Poly) (r : Buf) (c c' : Nat) (a : Buf) (ac : Nat) (b : Buf) (bc : Nat) (h : c' ≠ c) :
    (opZipExt f r c a ac b bc).act c' = r.act c' := write_frame_columns r c c' _ h

theorem zero_determined (r₁ r₂ : Buf) (h : SameShape r₁ r₂) (c : Nat) (hc : c < r₁.cols) :
    (opZero r₁ c).act c = (opZero r₂ c).act c := by
  unfold opZero
  rw [← h.2.2.1, ← h.2.2.2.2]
  exact write_determined r₁ r₂ h c hc _ (by simp)

theorem svp_apply_determined (r₁ r₂ : Buf) (h : SameShape r₁ r₂) (c : Nat) (hc : c < r₁.cols) (p : Poly) (x : Buf) (xc : Nat) :
    (opSvpApply r₁ c p x xc).act c = (opSvpApply r₂ c p x xc).act c := by
  unfold opSvpApply
  rw [← h.2.2.1, ← h.2.2.2.2]
  exact write_determined r₁ r₂ h c hc _ (by simp)

theorem svp_apply_frame (r : Buf) (c c' : Nat) (p : Poly) (x : Buf) (xc : Nat) (h : c' ≠ c) :
    (opSvpApply r c p x xc).act c' = r.act c' := write_frame_columns r c c' _ h

theorem cnv_apply_determined (off : Nat) (r₁ r₂ : Buf) (h : SameShape r₁ r₂) (c : Nat) (hc : c < r₁.cols)
    (l : Buf) (lc : Nat) (rr : Buf) (rc : Nat) :
    (opCnvApply off r₁ c l lc rr rc).act c = (opCnvApply off r₂ c l lc rr rc).act c := by
  unfold opCnvApply
  rw [← h.2.2.1, ← h.2.2.2.2]
  exact write_determined r₁ r₂ h c hc _ (by simp)

/-- the column-addressing half of the property for the convolution (the pinned FFT64 code wrote to
column 0 with the wrong stride — repaired, see known_findings.json): other columns are untouched. -/
theorem cnv_apply_frame (off : Nat) (r : Buf) (c c' : Nat) (l : Buf) (lc : Nat) (rr : Buf) (rc : Nat) (h : c' ≠ c) :
    (opCnvApply off r c l lc rr rc).act c' = r.act c' := write_frame_columns r c c' _ h

theorem cnv_pairwise_determined (off : Nat) (r₁ r₂ : Buf) (h : SameShape r₁ r₂) (c : Nat) (hc : c < r₁.cols) (l rr : Buf) (i j : Nat) :
    (opCnvPairwise off r₁ c l rr i j).act c = (opCnvPairwise off r₂ c l rr i j).act c := by
  unfold opCnvPairwise
  split
  · exact cnv_apply_determined off r₁ r₂ h c hc l i rr j
  · rw [← h.2.2.1, ← h.2.2.2.2]
    exact write_determined r₁ r₂ h c hc _ (by simp)

/-- in-place forms: frame only -/
theorem assign_frame (f : Poly → Poly → Poly) (r : Buf) (c c' : Nat) (a : Buf) (ac : Nat) (h : c' ≠ c) :
    (opAssign f r c a ac).act c' = r.act c' := write_frame_columns r c c' _ h

theorem assign_capacity (f : Poly → Poly → Poly) (r : Buf) (hr : r.WF) (c : Nat) (hc : c < r.cols) (a : Buf) (ac : Nat) :
    ((opAssign f r c a ac).data.getD c []).drop r.size = (r.data.getD c []).drop r.size := by
  unfold opAssign
  exact write_frame_capacity r hr c hc _ (by simp [Buf.act_length r hr c hc])

/-- limbs of the result beyond the operand's size are left as they were by `_assign` (documented
behaviour: "assign forms touch only min limbs") -/
theorem assign_untouched_limbs (f : Poly → Poly → Poly) (res a : Col) (j : Nat) (hj : a.length ≤ j) (hj2 : j < res.length) :
    (assignCol f res a)[j]? = res[j]? := by
  unfold assignCol
  simp [List.getElem?_mapIdx, Nat.not_lt.mpr hj]

/-- non-vacuity: a concrete well-formed 2-column buffer with capacity 2 and active size 1 -/
example : SameShape
    { n := 2, cols := 2, size := 1, maxSize := 2, data := [[[1, 2], [3, 4]], [[5, 6], [7, 8]]] }
    { n := 2, cols := 2, size := 1, maxSize := 2, data := [[[9, 9], [9, 9]], [[0, 0], [0, 0]]] } := by
  refine ⟨⟨rfl, by decide, ?_⟩, ⟨rfl, by decide, ?_⟩, rfl, rfl, rfl⟩ <;>
  · intro c hc
    have : c = 0 ∨ c = 1 := by simp at hc; omega
    rcases this with rfl | rfl <;> rfl

end C11
