import Poulpy.Lemmas.BddSupport
import Poulpy.Generated.U32.AndTab
import Poulpy.Generated.U32.OrTab
import Poulpy.Generated.U32.XorTab
import Poulpy.Generated.U32.IdentityTab
import Poulpy.Lemmas.BddSpecs
import Poulpy.Generated.U32.AddTab
import Poulpy.Generated.U32.SubTab
import Poulpy.Generated.U32.SllTab
import Poulpy.Generated.U32.SrlTab
import Poulpy.Generated.U32.SraTab
import Poulpy.Generated.U32.SltTab
import Poulpy.Generated.U32.SltuTab
/-
C13, kernel-only route (no `bv_decide`, no Mathlib; axioms ⊆ {propext, Quot.sound, Classical.choice}) for the
bitwise word operations: each per-bit circuit of `and`, `or`, `xor` names at most the two input bits `a_i`, `b_i`
(`identity`: the one bit `a_i`), so by the support lemma (`Lemmas/BddSupport.lean`) it is correct on all 2^64
inputs as soon as it is on the 4 (resp. 2) assignments of those bits — checked, together with the support
itself, by kernel evaluation on the regenerated tables.  Same statements as `C13.and_correct` … (which go
through `bv_decide`); this file imports only the table literals.

The arithmetic circuits (add, sub: carry / borrow chain; slt, sltu: comparison chain; sll, srl, sra: barrel shifter)
have full support, so they go through a verified checker instead (`Lemmas/BddSim.lean`): the circuit is compared
level by level with a small specification automaton (`Lemmas/BddSpecs.lean`; carry-conditional states for add/sub,
"equal so far" states for the comparisons, "shift amount so far" states for the shifters), `checkFlat … = true` is
evaluated by the kernel on each regenerated table, `BddSim.check_sound` (proved once) turns it into
`∀ inp, evalFlat … inp = some (value of the root state)`, and `add_root` … (proved once per family from the core
`BitVec` lemmas `carry_succ`, `getLsbD_add_add_bool`, `slt_eq_ult`, `getLsbD_shiftLeft'`, …) identify that value with the
bit of the word operation.  All 290 per-bit circuits are covered without `bv_decide`.
-/

namespace C13Kernel
open U32

theorem inp2_lo (a b : BitVec 32) (i : Nat) (hi : i < 32) : inp2 a b i = a.getLsbD i := by simp [inp2, hi]
theorem inp2_hi (a b : BitVec 32) (i : Nat) : inp2 a b (32 + i) = b.getLsbD i := by
  have : ¬ (32 + i < 32) := by omega
  simp [inp2, this]

theorem and_tables : ∀ i, i < 32 → suppIn [i, 32 + i] (And.flat i) = true ∧
    ∀ x y : Bool, evalFlat 64 (And.width i) (And.flat i) (fun k => if k = i then x else if k = 32 + i then y else false) = some (x && y) := by
  decide +kernel

theorem or_tables : ∀ i, i < 32 → suppIn [i, 32 + i] (Or.flat i) = true ∧
    ∀ x y : Bool, evalFlat 64 (Or.width i) (Or.flat i) (fun k => if k = i then x else if k = 32 + i then y else false) = some (x || y) := by
  decide +kernel

theorem xor_tables : ∀ i, i < 32 → suppIn [i, 32 + i] (Xor.flat i) = true ∧
    ∀ x y : Bool, evalFlat 64 (Xor.width i) (Xor.flat i) (fun k => if k = i then x else if k = 32 + i then y else false) = some (x ^^ y) := by
  decide +kernel

theorem identity_tables : ∀ i, i < 32 → suppIn [i] (Identity.flat i) = true ∧
    ∀ x : Bool, evalFlat 32 (Identity.width i) (Identity.flat i) (fun k => if k = i then x else false) = some x := by
  decide +kernel

/-- `and`: every output bit, all 2^64 inputs — kernel only -/
theorem and_correct (i : Nat) (hi : i < 32) (a b : BitVec 32) :
    evalFlat 64 (And.width i) (And.flat i) (inp2 a b) = some ((a &&& b).getLsbD i) := by
  obtain ⟨hS, h4⟩ := and_tables i hi
  rw [evalFlat_of_support2 64 _ _ i (32 + i) (· && ·) hS h4 (inp2 a b), inp2_lo a b i hi, inp2_hi, BitVec.getLsbD_and]

theorem or_correct (i : Nat) (hi : i < 32) (a b : BitVec 32) :
    evalFlat 64 (Or.width i) (Or.flat i) (inp2 a b) = some ((a ||| b).getLsbD i) := by
  obtain ⟨hS, h4⟩ := or_tables i hi
  rw [evalFlat_of_support2 64 _ _ i (32 + i) (· || ·) hS h4 (inp2 a b), inp2_lo a b i hi, inp2_hi, BitVec.getLsbD_or]

theorem xor_correct (i : Nat) (hi : i < 32) (a b : BitVec 32) :
    evalFlat 64 (Xor.width i) (Xor.flat i) (inp2 a b) = some ((a ^^^ b).getLsbD i) := by
  obtain ⟨hS, h4⟩ := xor_tables i hi
  rw [evalFlat_of_support2 64 _ _ i (32 + i) (· ^^ ·) hS h4 (inp2 a b), inp2_lo a b i hi, inp2_hi, BitVec.getLsbD_xor]

theorem identity_correct (i : Nat) (hi : i < 32) (a : BitVec 32) :
    evalFlat 32 (Identity.width i) (Identity.flat i) (inp1 a) = some (a.getLsbD i) := by
  obtain ⟨hS, h2⟩ := identity_tables i hi
  rw [evalFlat_of_support1 32 _ _ i id hS h2 (inp1 a)]
  rfl

example : evalFlat 64 (And.width 5) (And.flat 5) (inp2 0xFFFFFFFF#32 0x00000020#32) = some true := by decide +kernel

/-! ### arithmetic circuits through the verified checker -/

open BddSim BddSpecs

theorem add_tables : ∀ i, i < 32 → checkFlat (addSpec false i) 4 64 (Add.width i) (Add.flat i) (.S 0 false) = true := by
  decide +kernel

theorem sub_tables : ∀ i, i < 32 → checkFlat (addSpec true i) 4 64 (Sub.width i) (Sub.flat i) (.S 0 true) = true := by
  decide +kernel

theorem sll_tables : ∀ i, i < 32 →
    checkFlat (shSpec (sllTerm i) (sllDat i)) 4 37 (Sll.width i) (Sll.flat i) (.P 0 0) = true := by
  decide +kernel

theorem srl_tables : ∀ i, i < 32 →
    checkFlat (shSpec (srlTerm i) (srDat i)) 4 37 (Srl.width i) (Srl.flat i) (.P 0 0) = true := by
  decide +kernel

theorem sra_tables : ∀ i, i < 32 →
    checkFlat (shSpec (sraTerm i) (srDat i)) 4 37 (Sra.width i) (Sra.flat i) (.P 0 0) = true := by
  decide +kernel

theorem slt_table : checkFlat cmpSpec 4 64 (Slt.width 0) (Slt.flat 0) CQ.Top = true := by decide +kernel

theorem sltu_table : checkFlat cmpSpec 4 64 (Sltu.width 0) (Sltu.flat 0) (CQ.E 32) = true := by decide +kernel

/-- `add`: every output bit, all 2^64 inputs — kernel only -/
theorem add_correct (i : Nat) (hi : i < 32) (a b : BitVec 32) :
    evalFlat 64 (Add.width i) (Add.flat i) (inp2 a b) = some ((a + b).getLsbD i) := by
  rw [check_sound (addSpec false i) (inp2 a b) (addVal false i (inp2 a b)) (addVal_eq false i (inp2 a b)) 4 64 _ _ _
    (add_tables i hi), add_root a b i hi]

theorem sub_correct (i : Nat) (hi : i < 32) (a b : BitVec 32) :
    evalFlat 64 (Sub.width i) (Sub.flat i) (inp2 a b) = some ((a - b).getLsbD i) := by
  rw [check_sound (addSpec true i) (inp2 a b) (addVal true i (inp2 a b)) (addVal_eq true i (inp2 a b)) 4 64 _ _ _
    (sub_tables i hi), sub_root a b i hi]

theorem sll_correct (i : Nat) (hi : i < 32) (a b : BitVec 32) :
    evalFlat 37 (Sll.width i) (Sll.flat i) (inp2 a b) = some ((a <<< (b &&& 31#32)).getLsbD i) := by
  rw [check_sound _ (inp2 a b) (shVal (sllTerm i) (sllDat i) (inp2 a b)) (shVal_eq _ _ _) 4 37 _ _ _
    (sll_tables i hi), sll_root a b i hi]

theorem srl_correct (i : Nat) (hi : i < 32) (a b : BitVec 32) :
    evalFlat 37 (Srl.width i) (Srl.flat i) (inp2 a b) = some ((a >>> (b &&& 31#32)).getLsbD i) := by
  rw [check_sound _ (inp2 a b) (shVal (srlTerm i) (srDat i) (inp2 a b)) (shVal_eq _ _ _) 4 37 _ _ _
    (srl_tables i hi), srl_root a b i hi]

theorem sra_correct (i : Nat) (hi : i < 32) (a b : BitVec 32) :
    evalFlat 37 (Sra.width i) (Sra.flat i) (inp2 a b) = some ((BitVec.sshiftRight' a (b &&& 31#32)).getLsbD i) := by
  rw [check_sound _ (inp2 a b) (shVal (sraTerm i) (srDat i) (inp2 a b)) (shVal_eq _ _ _) 4 37 _ _ _
    (sra_tables i hi), sra_root a b i hi]

theorem slt_correct (a b : BitVec 32) :
    evalFlat 64 (Slt.width 0) (Slt.flat 0) (inp2 a b) = some (BitVec.slt a b) := by
  rw [check_sound cmpSpec (inp2 a b) (cmpVal (inp2 a b)) (cmpVal_eq _) 4 64 _ _ _ slt_table, slt_root a b]

theorem sltu_correct (a b : BitVec 32) :
    evalFlat 64 (Sltu.width 0) (Sltu.flat 0) (inp2 a b) = some (BitVec.ult a b) := by
  rw [check_sound cmpSpec (inp2 a b) (cmpVal (inp2 a b)) (cmpVal_eq _) 4 64 _ _ _ sltu_table, sltu_root a b]

/-- the checker is not vacuous: it rejects a table with one operand of one `cmux` changed (add, bit 1) and a
specification with the wrong carry-in -/
example : checkFlat (addSpec false 1) 4 64 2
    [.cmux 33 0 1, .cmux 33 1 0, .cmux 1 1 0, .cmux 1 0 1, .cmux 32 0 1, .copy, .cmux 0 0 0, .none] (.S 0 false) = false ∧
    checkFlat (addSpec false 1) 4 64 (Add.width 1) (Add.flat 1) (.S 0 true) = false := by decide +kernel

example : evalFlat 64 (Add.width 31) (Add.flat 31) (inp2 0x7FFFFFFF#32 0x00000001#32) = some true := by decide +kernel

end C13Kernel
