import Poulpy.Lemmas.BddSupport
import Poulpy.Generated.U32.AndTab
import Poulpy.Generated.U32.OrTab
import Poulpy.Generated.U32.XorTab
import Poulpy.Generated.U32.IdentityTab
/-
C13, kernel-only route (no `bv_decide`, no Mathlib; axioms ⊆ {propext, Quot.sound, Classical.choice}) for the
bitwise word operations: each per-bit circuit of `and`, `or`, `xor` names at most the two input bits `a_i`, `b_i`
(`identity`: the one bit `a_i`), so by the support lemma (`Lemmas/BddSupport.lean`) it is correct on all 2^64
inputs as soon as it is on the 4 (resp. 2) assignments of those bits — checked, together with the support
itself, by kernel evaluation on the regenerated tables.  Same statements as `C13.and_correct` … (which go
through `bv_decide`); this file imports only the table literals.
-/

namespace C13Kernel
open U32

theorem inp2_lo (a b : BitVec 32) (i : Nat) (hi : i < 32) : inp2 a b i = a.getLsbD i := by simp [inp2, hi]
theorem inp2_hi (a b : BitVec 32) (i : Nat) : inp2 a b (32 + i) = b.getLsbD i := by
  have : ¬ (32 + i < 32) := by omega
  simp [inp2, this]

theorem and_tables : ∀ i, i < 32 → suppIn [i, 32 + i] (And.flat i) = true ∧
    ∀ x y : Bool, evalFlat 64 (And.width i) (And.flat i) (fun k => if k = i then x else if k = 32 + i then y else false) = some (x && y) := by
  decide +kernel

theorem or_tables : ∀ i, i < 32 → suppIn [i, 32 + i] (Or.flat i) = true ∧
    ∀ x y : Bool, evalFlat 64 (Or.width i) (Or.flat i) (fun k => if k = i then x else if k = 32 + i then y else false) = some (x || y) := by
  decide +kernel

theorem xor_tables : ∀ i, i < 32 → suppIn [i, 32 + i] (Xor.flat i) = true ∧
    ∀ x y : Bool, evalFlat 64 (Xor.width i) (Xor.flat i) (fun k => if k = i then x else if k = 32 + i then y else false) = some (x ^^ y) := by
  decide +kernel

theorem identity_tables : ∀ i, i < 32 → suppIn [i] (Identity.flat i) = true ∧
    ∀ x : Bool, evalFlat 32 (Identity.width i) (Identity.flat i) (fun k => if k = i then x else false) = some x := by
  decide +kernel

/-- `and`: every output bit, all 2^64 inputs — kernel only -/
theorem and_correct (i : Nat) (hi : i < 32) (a b : BitVec 32) :
    evalFlat 64 (And.width i) (And.flat i) (inp2 a b) = some ((a &&& b).getLsbD i) := by
  obtain ⟨hS, h4⟩ := and_tables i hi
  rw [evalFlat_of_support2 64 _ _ i (32 + i) (· && ·) hS h4 (inp2 a b), inp2_lo a b i hi, inp2_hi, BitVec.getLsbD_and]

theorem or_correct (i : Nat) (hi : i < 32) (a b : BitVec 32) :
    evalFlat 64 (Or.width i) (Or.flat i) (inp2 a b) = some ((a ||| b).getLsbD i) := by
  obtain ⟨hS, h4⟩ := or_tables i hi
  rw [evalFlat_of_support2 64 _ _ i (32 + i) (· || ·) hS h4 (inp2 a b), inp2_lo a b i hi, inp2_hi, BitVec.getLsbD_or]

theorem xor_correct (i : Nat) (hi : i < 32) (a b : BitVec 32) :
    evalFlat 64 (Xor.width i) (Xor.flat i) (inp2 a b) = some ((a ^^^ b).getLsbD i) := by
  obtain ⟨hS, h4⟩ := xor_tables i hi
  rw [evalFlat_of_support2 64 _ _ i (32 + i) (· ^^ ·) hS h4 (inp2 a b), inp2_lo a b i hi, inp2_hi, BitVec.getLsbD_xor]

theorem identity_correct (i : Nat) (hi : i < 32) (a : BitVec 32) :
    evalFlat 32 (Identity.width i) (Identity.flat i) (inp1 a) = some (a.getLsbD i) := by
  obtain ⟨hS, h2⟩ := identity_tables i hi
  rw [evalFlat_of_support1 32 _ _ i id hS h2 (inp1 a)]
  rfl

example : evalFlat 64 (And.width 5) (And.flat 5) (inp2 0xFFFFFFFF#32 0x00000020#32) = some true := by decide +kernel

end C13Kernel
