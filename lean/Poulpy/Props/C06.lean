/-
C06 — fresh ciphertexts carry the configured randomness: full noise, uniform mask.

Model: `Model/Sampling.lean` (`nextU64n`, `digitOfWord`, `vecFillUniform`, `addNormalCol`,
`targetLimbAndScale`) and `Model/Core/Enc.lean` (`encryptSkStream`: the one routine every
secret-key encryption — GLWE, the cells of GGLWE / GGSW and of all key material — goes through).
A `Source` is the list of raw 64-bit words it delivers; ChaCha8's uniformity and the Gaussian
sampler of `rand_distr` are assumptions recorded in docs/C06.md (the latter is covered by the
statistical acceptance test of the check, which is a correspondence of a probabilistic model, not
a proof).  Determinism is by construction: every model routine is a function of (plaintext,
secret, mask words, error integers).
-/
import Poulpy.Props.C19
import Poulpy.Lemmas.SamplingL
import Poulpy.Lemmas.CoreBundle

namespace C06
open CoreEnc

/-! ### masks depend on the mask stream only -/

/-- **mask non-interference** for every routine built on `glwe_encrypt_sk_internal` (any plaintext,
any plaintext column — GLWE, GGLWE rows, GGSW rows, key material): the mask columns and the number
of words consumed are a function of the mask stream alone. -/
theorem mask_noninterference (bits b n size kxe rank : Nat) (xa : List Nat)
    (pt pt' : Option (Col × Nat)) (sk sk' : List Poly) (e e' : Poly)
    (body body' : Col) (ms ms' : List Col) (r r' : List Nat)
    (h : Core.encryptSkStream bits b n size kxe rank pt sk xa e = some (body, ms, r))
    (h' : Core.encryptSkStream bits b n size kxe rank pt' sk' xa e' = some (body', ms', r')) :
    ms = ms' ∧ r = r' := by
  have key : ∀ (pt : Option (Col × Nat)) (sk : List Poly) (e : Poly) (body : Col) (ms : List Col) (r : List Nat),
      Core.encryptSkStream bits b n size kxe rank pt sk xa e = some (body, ms, r) →
      Core.drawMasks b n size rank xa = some (ms, r) := by
    intro pt sk e body ms r h
    unfold Core.encryptSkStream at h
    cases hl : Core.encSkLoopS bits b n size pt 1 sk rank xa (Core.zeroCol n size) with
    | none => simp [hl] at h
    | some q =>
      obtain ⟨c0, ms0, xa0⟩ := q
      simp only [hl] at h
      cases hf : Core.encSkFinish b n size kxe pt e c0 with
      | none => simp [hf] at h
      | some bd =>
        simp only [hf, Option.some.injEq, Prod.mk.injEq] at h
        obtain ⟨_, rfl, rfl⟩ := h
        exact CoreEnc.loop_masks_eq_drawMasks bits b n size pt rank sk 1 xa _ c0 ms0 xa0 hl
  have h1 := key pt sk e body ms r h
  have h2 := key pt' sk' e' body' ms' r' h'
  rw [h1] at h2
  simp only [Option.some.injEq, Prod.mk.injEq] at h2
  exact h2

/-- **GLWE ciphertexts**: other plaintext, other secret, other errors — same mask columns -/
theorem glwe_mask_noninterference (bits b k n size kxe rank : Nat) (xa : List Nat)
    (pt pt' : Option Col) (ptB ptB' : Nat) (sk sk' : List Poly) (e e' : Poly) (ct ct' : Core.GLWE) (r r' : List Nat)
    (h : Core.glweEncryptSkS bits b k n size kxe rank pt ptB sk xa e = some (ct, r))
    (h' : Core.glweEncryptSkS bits b k n size kxe rank pt' ptB' sk' xa e' = some (ct', r')) :
    ct.cols.drop 1 = ct'.cols.drop 1 ∧ r = r' := by
  unfold Core.glweEncryptSkS at h h'
  split at h
  · simp at h
  · split at h
    · simp at h
    split at h'
    · simp at h'
    · split at h'
      · simp at h'
      cases hs : Core.encryptSkStream bits b n size kxe rank (pt.map (fun p => (p, 0))) sk xa e with
      | none => simp [hs] at h
      | some q =>
        cases hs' : Core.encryptSkStream bits b n size kxe rank (pt'.map (fun p => (p, 0))) sk' xa e' with
        | none => simp [hs'] at h'
        | some q' =>
          obtain ⟨bd, ms, rr⟩ := q
          obtain ⟨bd', ms', rr'⟩ := q'
          simp only [hs, hs', Option.map_some, Option.some.injEq, Prod.mk.injEq] at h h'
          obtain ⟨rfl, rfl⟩ := h
          obtain ⟨rfl, rfl⟩ := h'
          have := mask_noninterference bits b n size kxe rank xa _ _ sk sk' e e' bd bd' ms ms' rr rr' hs hs'
          simpa using this

example : ((Core.glweEncryptSkS 64 3 6 2 2 5 1 (some [[1, 2]]) 3 [[1, -1]] [9, 1, 7, 3, 5] [1, -1]).map (·.1.cols.drop 1)
    = (Core.glweEncryptSkS 64 3 6 2 2 5 1 none 0 [[0, 1]] [9, 1, 7, 3, 5] [2, 0]).map (·.1.cols.drop 1))
    ∧ (Core.glweEncryptSkS 64 3 6 2 2 5 1 (some [[1, 2]]) 3 [[1, -1]] [9, 1, 7, 3, 5] [1, -1]).isSome := by decide

/-- **changing the error seed changes only the body** (same plaintext, secret and mask stream) -/
theorem body_only_error_seed (bits b n size kxe rank : Nat) (xa : List Nat) (pt : Option (Col × Nat)) (sk : List Poly) (e e' : Poly)
    (body body' : Col) (ms ms' : List Col) (r r' : List Nat)
    (h : Core.encryptSkStream bits b n size kxe rank pt sk xa e = some (body, ms, r))
    (h' : Core.encryptSkStream bits b n size kxe rank pt sk xa e' = some (body', ms', r')) :
    ms = ms' ∧ r = r' :=
  mask_noninterference bits b n size kxe rank xa pt pt sk sk e e' body body' ms ms' r r' h h'

example : ((Core.encryptSkStream 64 3 2 2 5 1 none [[1, -1]] [9, 1, 7, 3, 5] [1, -1]).map (·.2)
    = (Core.encryptSkStream 64 3 2 2 5 1 none [[1, -1]] [9, 1, 7, 3, 5] [3, 3]).map (·.2))
    ∧ (Core.encryptSkStream 64 3 2 2 5 1 none [[1, -1]] [9, 1, 7, 3, 5] [1, -1]).map (·.1)
      ≠ (Core.encryptSkStream 64 3 2 2 5 1 none [[1, -1]] [9, 1, 7, 3, 5] [3, 3]).map (·.1) := by decide

/-- non-vacuity: two encryptions with different plaintexts (in different columns), secrets and errors -/
example : ((Core.encryptSkStream 64 3 2 2 5 2 (some ([[1, 0], [0, 0]], 1)) [[1, -1], [0, 1]] [1, 2, 3, 4, 5, 6, 7, 0, 1, 2, 3, 4, 9, 8, 7, 6] [1, -1]).map (·.2.1)
    = (Core.encryptSkStream 64 3 2 2 5 2 (some ([[3, 3], [1, 0]], 0)) [[0, 1], [1, 1]] [1, 2, 3, 4, 5, 6, 7, 0, 1, 2, 3, 4, 9, 8, 7, 6] [2, 2]).map (·.2.1))
    ∧ (Core.encryptSkStream 64 3 2 2 5 2 (some ([[1, 0], [0, 0]], 1)) [[1, -1], [0, 1]] [1, 2, 3, 4, 5, 6, 7, 0, 1, 2, 3, 4, 9, 8, 7, 6] [1, -1]).isSome := by
  decide

/-! ### uniform digits from uniform words -/

/-- `znx_fill_uniform_ref` **never rejects**: with `mask = max − 1` the first word drawn is accepted -/
theorem fill_uniform_never_rejects {b : Nat} (hb : b ≤ 63) (u : Nat) (rest : List Nat) :
    Sampling.nextU64n (Sampling.pow2k b) (Sampling.maskOf b) (u :: rest) = some (u % 2 ^ b, rest) := by
  unfold Sampling.nextU64n
  simp only [maskOf_and hb, pow2k_eq hb]
  rw [if_pos (Nat.mod_lt _ (by positivity))]

example : Sampling.nextU64n (Sampling.pow2k 7) (Sampling.maskOf 7) [0xFFFF, 3] = some (0x7F, [3]) := by
  rw [fill_uniform_never_rejects (by norm_num)]; norm_num

/-- **counting theorem**: for every `1 ≤ b ≤ 63` the map from a raw 64-bit word to the digit
`znx_fill_uniform_ref` writes is exactly `2^(64−b)`-to-one onto `[−2^(b−1), 2^(b−1))`:
`(q, v) ↦ q·2^b + (v + 2^(b−1))` is a bijection from `[0, 2^(64−b)) × [−2^(b−1), 2^(b−1))` onto
`[0, 2^64)` that maps to words whose digit is `v` — so uniform words give uniform digits. -/
theorem fill_uniform_counting {b : Nat} (hb1 : 1 ≤ b) (hb : b ≤ 63) :
    -- every digit is in range
    (∀ u : Nat, -(2 ^ (b - 1) : Int) ≤ Sampling.digitOfWord b u ∧ Sampling.digitOfWord b u < 2 ^ (b - 1)) ∧
    -- each value `v` is hit by the word `q·2^b + (v + 2^(b−1))` for every `q < 2^(64−b)`, a word below 2^64
    (∀ (q : Nat) (v : Int), q < 2 ^ (64 - b) → -(2 ^ (b - 1) : Int) ≤ v → v < 2 ^ (b - 1) →
      q * 2 ^ b + (v + 2 ^ (b - 1)).toNat < 2 ^ 64 ∧ Sampling.digitOfWord b (q * 2 ^ b + (v + 2 ^ (b - 1)).toNat) = v) ∧
    -- and by no other word: a word with digit `v` is `q·2^b + (v + 2^(b−1))` with `q = u / 2^b < 2^(64−b)`
    (∀ (u : Nat) (v : Int), u < 2 ^ 64 → Sampling.digitOfWord b u = v →
      u = (u / 2 ^ b) * 2 ^ b + (v + 2 ^ (b - 1)).toNat ∧ u / 2 ^ b < 2 ^ (64 - b)) := by
  have hpow : (2 : Int) ^ b = 2 * 2 ^ (b - 1) := by
    have : b = (b - 1) + 1 := by omega
    conv_lhs => rw [this, pow_succ]
    ring
  have hsplit : (2 : Nat) ^ 64 = 2 ^ (64 - b) * 2 ^ b := by rw [← pow_add]; congr 1; omega
  refine ⟨?_, ?_, ?_⟩
  · intro u
    rw [digitOfWord_eq hb1 hb]
    have hlt : ((u % 2 ^ b : Nat) : Int) < 2 ^ b := by exact_mod_cast Nat.mod_lt u (by positivity)
    have h0 : (0 : Int) ≤ ((u % 2 ^ b : Nat) : Int) := by positivity
    constructor <;> linarith
  · intro q v hq hv1 hv2
    have hr0 : 0 ≤ v + 2 ^ (b - 1) := by linarith
    have hrlt : (v + 2 ^ (b - 1)).toNat < 2 ^ b := by
      have : ((v + 2 ^ (b - 1)).toNat : Int) < 2 ^ b := by rw [Int.toNat_of_nonneg hr0]; linarith
      exact_mod_cast this
    refine ⟨?_, ?_⟩
    · calc q * 2 ^ b + (v + 2 ^ (b - 1)).toNat < q * 2 ^ b + 2 ^ b := by omega
        _ = (q + 1) * 2 ^ b := by ring
        _ ≤ 2 ^ (64 - b) * 2 ^ b := Nat.mul_le_mul_right _ hq
        _ = 2 ^ 64 := hsplit.symm
    · rw [digitOfWord_eq hb1 hb, Nat.mul_comm, Nat.mul_add_mod, Nat.mod_eq_of_lt hrlt, Int.toNat_of_nonneg hr0]
      ring
  · intro u v hu hd
    rw [digitOfWord_eq hb1 hb] at hd
    have hv : v + 2 ^ (b - 1) = ((u % 2 ^ b : Nat) : Int) := by linarith
    rw [hv, Int.toNat_natCast]
    refine ⟨by rw [Nat.mul_comm]; exact (Nat.div_add_mod u (2 ^ b)).symm, ?_⟩
    rw [Nat.div_lt_iff_lt_mul (by positivity)]
    rw [← hsplit]; exact hu

example : Sampling.digitOfWord 7 (5 * 2 ^ 7 + ((-3 : Int) + 2 ^ (7 - 1)).toNat) = -3 :=
  ((fill_uniform_counting (b := 7) (by norm_num) (by norm_num)).2.1 5 (-3) (by norm_num) (by norm_num) (by norm_num)).2

example : Sampling.digitOfWord 7 0xDEADBEEF12345678 = 0x78 - 64 := by decide

/-- at `base2k = 64` the shift `1 << 64` wraps (overflow checks off): every digit is 0 — outside the
supported range, recorded so that nobody reads the counting theorem as covering it -/
theorem fill_uniform_b64_degenerate (u : Nat) : Sampling.digitOfWord 64 u = 0 := by
  unfold Sampling.digitOfWord Sampling.digitOf Sampling.halfOf Sampling.maskOf Sampling.pow2k
  simp [w64]

example : Sampling.digitOfWord 64 0xDEADBEEF12345678 = 0 := fill_uniform_b64_degenerate _

/-! ### where the error goes -/

/-- **noise placement**: `vec_znx_add_normal` touches exactly limb `⌈k/b⌉−1`, adding the sampled
integers there; the integers are drawn at scale `2^((limb+1)·b − k)` (`target_limb_and_scale`), i.e.
the error has standard deviation `σ·2^-k` and magnitude `≤ bound·2^-k` on the torus
(`C01.glwe_encrypt_sk_noise_bound`). -/
theorem noise_placement (w : Int → Int) (k b : Nat) (hb : 1 ≤ b) (hk : 1 ≤ k) (c : Col) (e : Poly) (hl : errLimb k b < c.length) :
    Sampling.targetLimbAndScale k b = some (errLimb k b, (errLimb k b + 1) * b - k) ∧ errLimb k b * b < k ∧ k ≤ (errLimb k b + 1) * b ∧
    ∃ c', Sampling.addNormalCol w k b c e = some c' ∧ c'.length = c.length ∧
      ∀ j (h : j < c.length) (h' : j < c'.length),
        c'[j] = if j = errLimb k b then List.zipWith (fun x y => w (x + y)) c[j] e else c[j] := by
  have htl : Sampling.targetLimbAndScale k b = some (errLimb k b, (errLimb k b + 1) * b - k) := by
    unfold Sampling.targetLimbAndScale errLimb; rw [if_neg (by omega)]
  have hq : 1 ≤ (k + b - 1) / b := by rw [Nat.le_div_iff_mul_le (by omega)]; omega
  refine ⟨htl, ?_, ?_, ?_⟩
  · unfold errLimb
    have h3 := Nat.div_mul_le_self (k + b - 1) b
    have : ((k + b - 1) / b - 1) * b = (k + b - 1) / b * b - b := by rw [Nat.sub_mul]; simp
    omega
  · unfold errLimb
    have h2 : (k + b - 1) / b - 1 + 1 = (k + b - 1) / b := by omega
    rw [h2]
    have := Nat.lt_div_mul_add (a := k + b - 1) (by omega : 0 < b)
    generalize (k + b - 1) / b * b = P at this ⊢
    omega
  · unfold Sampling.addNormalCol
    simp only [htl]
    rw [if_pos hl]
    refine ⟨_, rfl, by simp, ?_⟩
    intro j h h'
    simp [List.getElem_mapIdx]

example : ∃ c', Sampling.addNormalCol w64 18 7 [[0, 0], [0, 0], [5, 5]] [3, -4] = some c' ∧ c' = [[0, 0], [0, 0], [8, 1]] := by
  exact ⟨_, by decide, rfl⟩

/-! ### key bundles: the order in which the sub-keys read the two sources -/

/-- **the encryption order of a bundle does not depend on the iteration order of the `atk` map**: for any two listings
`gal`, `gal'` of the same Galois elements (any permutation — what iterating a `HashMap` may produce), the order of the
sub-keys of a `CircuitBootstrappingKey` and of a `BDDKey`, and therefore the segment of `source_xa` / `source_xe` each
sub-key reads (`Core.segments`, for any per-sub-key consumption `use`), are the same. -/
theorem bundle_order_independent_of_map_iteration (gal gal' : List Int) (h : gal.Perm gal') :
    Core.cbtOrder gal = Core.cbtOrder gal' ∧ (∀ ksg, Core.bddOrder ksg gal = Core.bddOrder ksg gal') ∧
    ∀ (use : Core.SubKey → Core.Use) (ksg : Bool) (ma er : Nat),
      Core.segments use (Core.cbtOrder gal) ma er = Core.segments use (Core.cbtOrder gal') ma er ∧
      Core.segments use (Core.bddOrder ksg gal) ma er = Core.segments use (Core.bddOrder ksg gal') ma er := by
  have hs := sortedGal_of_perm h
  have hc : Core.cbtOrder gal = Core.cbtOrder gal' := by unfold Core.cbtOrder; rw [hs]
  have hb : ∀ ksg, Core.bddOrder ksg gal = Core.bddOrder ksg gal' := by intro ksg; unfold Core.bddOrder; rw [hc]
  exact ⟨hc, hb, fun use ksg ma er => ⟨by rw [hc], by rw [hb]⟩⟩

example : Core.cbtOrder [5, -1, 25, 125] = Core.cbtOrder [125, 25, -1, 5] ∧
    Core.cbtOrder [5, -1, 25, 125] = [.atk (-1), .atk 5, .atk 25, .atk 125, .brk, .tsk] ∧ [5, -1, 25, 125].Perm [125, 25, -1, 5] := by
  refine ⟨by decide, by decide, ?_⟩
  decide

/-- **the documented order**: the automorphism keys come first, by ascending Galois element (each element of the map exactly
once), then the blind-rotation key, then the tensor-switching key; a `BDDKey` puts the optional GLWE→GLWE switching key and
the GLWE→LWE key before them. -/
theorem bundle_order_spec (gal : List Int) (ksg : Bool) :
    (Core.sortedGal gal).Pairwise (fun a b => a ≤ b) ∧ (Core.sortedGal gal).Perm gal ∧
    Core.cbtOrder gal = (Core.sortedGal gal).map Core.SubKey.atk ++ [Core.SubKey.brk, Core.SubKey.tsk] ∧
    Core.bddOrder ksg gal = (if ksg then [Core.SubKey.ksGlwe] else []) ++ [Core.SubKey.ksLwe] ++ Core.cbtOrder gal :=
  ⟨sortedGal_pairwise gal, sortedGal_perm gal, rfl, rfl⟩

example : Core.bddOrder true [3, -1] = [.ksGlwe, .ksLwe, .atk (-1), .atk 3, .brk, .tsk] ∧
    Core.bddOrder false [3, -1] = [.ksLwe, .atk (-1), .atk 3, .brk, .tsk] := by decide

/-- **each sub-key reads its own consecutive segment of both streams**: the `i`-th sub-key in order starts at the sum of what
the earlier ones consumed, and segments of different sub-keys do not overlap (`i < j`: segment `i` ends before `j` begins), in
`source_xa` (mask words) and in `source_xe` (error polynomials). -/
theorem bundle_segments (use : Core.SubKey → Core.Use) (o : List Core.SubKey) (ma er : Nat) :
    (∀ i, (Core.segments use o ma er)[i]? = (o[i]?).map (fun k =>
      (k, ma + ((o.take i).map (fun k => (use k).maskWords)).sum, (use k).maskWords,
          er + ((o.take i).map (fun k => (use k).errPolys)).sum, (use k).errPolys))) ∧
    ∀ (i j : Nat) (_ : i < j) (ki kj : Core.SubKey) (mi li ei ni mj lj ej nj : Nat),
      (Core.segments use o ma er)[i]? = some (ki, mi, li, ei, ni) →
      (Core.segments use o ma er)[j]? = some (kj, mj, lj, ej, nj) → mi + li ≤ mj ∧ ei + ni ≤ ej :=
  ⟨segments_get use o ma er, fun i j hij ki kj mi li ei ni mj lj ej nj hi hj =>
    segments_disjoint use o ma er i j hij ki kj mi li ei ni mj lj ej nj hi hj⟩

example : Core.segments (fun k => match k with | .atk _ => ⟨10, 2⟩ | .brk => ⟨100, 8⟩ | _ => ⟨30, 3⟩) (Core.cbtOrder [3, -1]) 0 0
    = [(.atk (-1), 0, 10, 0, 2), (.atk 3, 10, 10, 2, 2), (.brk, 20, 100, 4, 8), (.tsk, 120, 30, 12, 3)] := by decide

end C06
