import Poulpy.Lemmas.Threads
/-
C20 — thread count and scheduling never change results.

Objects (all from `Poulpy/Model/Threads.lean`, the file the model driver executes):
`parLoop base items threads` / `chunks items threads` — the list of work items per spawned thread
of the two `thread::scope` loops; `execBdd`, `execPrepare` — per-slot action tables of the two
functions; `run`, `isInterleaving`, `threadSeq` — the abstract machine.
-/

namespace C20
open Threads

/-- **chunks_partition.**  For every number of items (zero included) and `threads ≥ 1` (any relation
between them: dividing, non-dividing, `threads > items`) the loop spawns at most `threads` threads, none of them idle;
thread `t` is the `t`-th spawned, uses scratch window `t`, and hands the body exactly the index of
the slot it writes (`base + thread_idx·chunk_size + idx` = physical position of `dst`); and the
slots written, read thread after thread, are exactly `base, base+1, …, base+items−1` — so no item
is skipped, none is executed twice, and no two threads share a slot or a scratch window. -/
theorem chunks_partition (base items threads : Nat) (ht : 1 ≤ threads) :
    ∃ qs, parLoop base items threads = .ok qs ∧
      qs.length ≤ threads ∧
      (∀ q ∈ qs, q ≠ []) ∧
      (∀ t (h : t < qs.length), ∀ w ∈ qs[t], w.thread = t ∧ w.scratch = t ∧ w.index = w.slot) ∧
      qs.flatten.map (·.slot) = List.range' base items := by
  have hcs := chunkSize_pos items threads
  have hlen := chunks_count_le base items threads ht
  refine ⟨_, parLoop_ok base items threads ht, ?_, ?_, ?_, ?_⟩
  · rw [spawnList_length]; omega
  · intro q hq
    obtain ⟨t, h, rfl⟩ := List.getElem_of_mem hq
    exact (spawn_mem _ threads hcs items base items (Nat.le_refl _) t _ (List.getElem?_eq_getElem h)).1
  · intro t h w hw
    exact (spawn_mem _ threads hcs items base items (Nat.le_refl _) t _ (List.getElem?_eq_getElem h)).2 w hw
  · rw [List.map_flatten, spawnList_slots _ _ _ _ hlen]
    exact aux_flatten _ hcs items base items (Nat.le_refl _)

example : chunks 7 3 = .ok
    [[⟨0, 0, 0, 0⟩, ⟨0, 0, 1, 1⟩, ⟨0, 0, 2, 2⟩], [⟨1, 1, 3, 3⟩, ⟨1, 1, 4, 4⟩, ⟨1, 1, 5, 5⟩], [⟨2, 2, 6, 6⟩]] := by
  rfl
/-- non-dividing count that leaves spawned threads short: 32 items on 33, 40 or 64 threads run on
32 threads; 9 items on 4 threads run on 3 (chunk size 3). -/
example : (match chunks 32 40 with | .ok qs => qs.length | _ => 0) = 32 ∧
          (match chunks 9 4 with | .ok qs => qs.length | _ => 0) = 3 := by decide

/-- corollaries in the wording of the property: every slot of `[base, base+items)` is written by
exactly one work item (`count = 1`), nothing else is written. -/
theorem each_item_exactly_once (base items threads : Nat) (ht : 1 ≤ threads) :
    ∃ qs, parLoop base items threads = .ok qs ∧
      ∀ j, (qs.flatten.map (·.slot)).count j = if base ≤ j ∧ j < base + items then 1 else 0 := by
  obtain ⟨qs, h, _, _, _, hs⟩ := chunks_partition base items threads ht
  refine ⟨qs, h, fun j => ?_⟩
  rw [hs]
  have hnd : (List.range' base items).Nodup := List.nodup_range'
  by_cases hj : base ≤ j ∧ j < base + items
  · rw [if_pos hj]
    exact List.count_eq_one_of_mem hnd (List.mem_range'_1.2 hj)
  · rw [if_neg hj]
    exact List.count_eq_zero_of_not_mem (fun h => hj (List.mem_range'_1.1 h))

example : (match parLoop 5 9 4 with | .ok qs => (qs.flatten.map (·.slot)).count 13 | _ => 7) = 1 := by decide

/-- **items = 0.**  With no work item (`circuit.output_size() = 0`, resp. `bit_count = 0`)
`chunk_size = 0.div_ceil(threads).max(1) = 1`, `chunks_mut(1)` of the empty slice yields nothing: no
thread is spawned and the call goes on to its zeroing loops, for every thread count ≥ 1. -/
theorem zero_items_ok (base threads : Nat) (ht : 1 ≤ threads) :
    parLoop base 0 threads = .ok [] := by
  have h : threads ≠ 0 := by omega
  simp [parLoop, chunksMut, divCeil, h, chunksMutAux, spawnList]

example : parLoop 3 0 4 = .ok [] := by rfl

/-- **guard (threads = 0).** `div_ceil(0)`. -/
theorem zero_threads_panics (base items : Nat) : parLoop base items 0 = .panic "overflow" := by
  simp [parLoop]

example : parLoop 0 32 0 = .panic "overflow" := by rfl

/-- **execBdd / execPrepare action tables.**  For admissible arguments (any number of work items, zero
included) the call does not panic; slot `j` of the work range is written exactly by the thread that owns it
with the result of item `j`; every other slot is zeroed (the tail loops); nothing is left
untouched. -/
theorem execPrepare_table (threads bits start count avail per : Nat) (ht : 1 ≤ threads)
    (hr : start + count ≤ bits) (hs : threads * per ≤ avail) (hs2 : splitNeeded threads per ≤ avail) :
    ∃ acts, execPrepare threads bits start count avail per = .ok acts ∧ acts.length = bits ∧
      ∀ j (h : j < acts.length),
        if start ≤ j ∧ j < start + count then ∃ t, t < threads ∧ acts[j] = Act.item t t j
        else acts[j] = Act.zero := by
  obtain ⟨qs, hq, hlen, _, hmem, hslots⟩ := chunks_partition start count threads ht
  unfold execPrepare
  have h1 : ¬ (start + count > bits) := by omega
  have h2 : ¬ (avail < threads * per) := by omega
  have h0 : ¬ (threads = 0) := by omega
  have hav : (⟨0, avail⟩ : Win).available = avail := by simp [Win.available, Win.alignOffset]
  obtain ⟨rest, hsp⟩ := splitLoop_general per threads ⟨0, avail⟩ (Or.inr (by
    have h00 : (⟨0, avail⟩ : Win).alignOffset = 0 := by simp [Win.alignOffset]
    have : splitNeeded threads per = (threads - 1) * nextMult64 per + per := by simp [splitNeeded, h0]
    rw [h00]; simp only [Nat.zero_add]; omega))
  have h5 : ¬ (avail < splitNeeded threads per) := by omega
  simp only [h1, h2, h0, if_false, hq, splitMut, hav, hsp, h5]
  refine ⟨_, rfl, by simp, ?_⟩
  intro j hj
  simp only [List.length_map, List.length_range] at hj
  simp only [List.getElem_map, List.getElem_range]
  by_cases hin : start ≤ j ∧ j < start + count
  · simp only [hin, and_self, if_true]
    have hjm : j ∈ qs.flatten.map (·.slot) := by rw [hslots]; exact List.mem_range'_1.2 (by omega)
    obtain ⟨w, hw, hwj⟩ := List.mem_map.1 hjm
    -- the first work item with slot j
    unfold actOf
    cases hf : List.find? (fun w => w.slot == j) qs.flatten with
    | none =>
      have := List.find?_eq_none.1 hf w hw
      simp [hwj] at this
    | some v =>
      have hv := List.find?_some hf
      have hvm := List.mem_of_find?_eq_some hf
      simp only [beq_iff_eq] at hv
      obtain ⟨q, hq', hvq⟩ := List.mem_flatten.1 hvm
      obtain ⟨t, htl, rfl⟩ := List.getElem_of_mem hq'
      obtain ⟨e1, e2, e3⟩ := hmem t htl v hvq
      refine ⟨t, by omega, ?_⟩
      simp [e1, e2, e3, hv]
  · simp only [hin, if_false]

example : execPrepare 3 8 2 5 384 128 = .ok
    [.zero, .zero, .item 0 0 2, .item 0 0 3, .item 1 1 4, .item 1 1 5, .item 2 2 6, .zero] := by rfl

/-- `bit_count = 0`: every bit zeroed, no panic -/
example : execPrepare 2 8 3 0 128 64 = .ok (List.replicate 8 Act.zero) := by rfl

/-- **split_mut.**  From any window, `split_mut(n, len)` succeeds exactly under its own (repaired) size
check `available ≥ (n−1)·len.next_multiple_of(64) + len`, for every `len` (multiple of 64 or not), and returns
`n` windows of `len` bytes starting at the first 64-byte boundary plus `j` rounded-up sizes — pairwise
disjoint, each 64-aligned. -/
theorem split_mut_ok (w : Win) (n len : Nat) (hw : w.alignOffset ≤ w.len) (ha : splitNeeded n len ≤ w.available) :
    ∃ rest, splitMut w n len =
      .ok ((List.range n).map (fun j => (⟨w.start + w.alignOffset + j * nextMult64 len, len⟩ : Win)), rest) := by
  unfold splitMut
  rw [if_neg (by omega)]
  apply splitLoop_general
  rcases Nat.eq_zero_or_pos n with h | h
  · exact Or.inl h
  · right
    have : splitNeeded n len = (n - 1) * nextMult64 len + len := by
      have : n ≠ 0 := by omega
      simp [splitNeeded, this]
    unfold Win.available at ha
    omega

example : splitMut ⟨0, 4096⟩ 3 1024 = .ok ([⟨0, 1024⟩, ⟨1024, 1024⟩, ⟨2048, 1024⟩], ⟨3072, 1024⟩) := by rfl
/-- the former failing shape (per-thread 320144 ≡ 16 mod 64, two threads): the exact amount the check asks for suffices -/
example : splitMut ⟨0, 320192 + 320144⟩ 2 320144 = .ok ([⟨0, 320144⟩, ⟨320192, 320144⟩], ⟨640336, 0⟩) := by rfl
/-- … and one byte less is refused by the assertion, not inside `take_slice_aligned` -/
example : splitMut ⟨0, 320192 + 320143⟩ 2 320144 = .panic "assert" := by rfl


theorem execBdd_table (threads outLen outputSize inBits circIn avail per : Nat) (ht : 1 ≤ threads)
    (hc : 1 ≤ outLen) (hr : outputSize ≤ outLen) (hin : circIn ≤ inBits) (hs : threads * per ≤ avail)
    (hs2 : splitNeeded threads per ≤ avail) :
    ∃ acts, execBdd threads outLen outputSize inBits circIn avail per = .ok acts ∧ acts.length = outLen ∧
      ∀ j (h : j < acts.length),
        if j < outputSize then ∃ t, t < threads ∧ acts[j] = Act.item t t j
        else acts[j] = Act.zero := by
  obtain ⟨qs, hq, hlen, _, hmem, hslots⟩ := chunks_partition 0 outputSize threads ht
  unfold execBdd
  have h1 : ¬ (inBits < circIn) := by omega
  have h2 : ¬ (avail < threads * per) := by omega
  have h3 : ¬ (outLen < outputSize) := by omega
  have h4 : ¬ (outLen = 0) := by omega
  have hav : (⟨0, avail⟩ : Win).available = avail := by simp [Win.available, Win.alignOffset]
  have h0 : ¬ (threads = 0) := by omega
  obtain ⟨rest, hsp⟩ := splitLoop_general per threads ⟨0, avail⟩ (Or.inr (by
    have h00 : (⟨0, avail⟩ : Win).alignOffset = 0 := by simp [Win.alignOffset]
    have : splitNeeded threads per = (threads - 1) * nextMult64 per + per := by simp [splitNeeded, h0]
    rw [h00]; simp only [Nat.zero_add]; omega))
  have h5 : ¬ (avail < splitNeeded threads per) := by omega
  simp only [h1, h2, h3, h4, if_false, hq, splitMut, hav, hsp, h5]
  refine ⟨_, rfl, by simp, ?_⟩
  intro j hj
  simp only [List.length_map, List.length_range] at hj
  simp only [List.getElem_map, List.getElem_range]
  by_cases hjn : j < outputSize
  · simp only [hjn, if_true]
    have hjm : j ∈ qs.flatten.map (·.slot) := by rw [hslots]; exact List.mem_range'_1.2 (by omega)
    obtain ⟨w, hw, hwj⟩ := List.mem_map.1 hjm
    unfold actOf
    cases hf : List.find? (fun w => w.slot == j) qs.flatten with
    | none =>
      have := List.find?_eq_none.1 hf w hw
      simp [hwj] at this
    | some v =>
      have hv := List.find?_some hf
      have hvm := List.mem_of_find?_eq_some hf
      simp only [beq_iff_eq] at hv
      obtain ⟨q, hq', hvq⟩ := List.mem_flatten.1 hvm
      obtain ⟨t, htl, rfl⟩ := List.getElem_of_mem hq'
      obtain ⟨e1, e2, e3⟩ := hmem t htl v hvq
      refine ⟨t, by omega, ?_⟩
      simp [e1, e2, e3, hv]
  · simp only [hjn, if_false]

example : execBdd 40 34 32 64 64 40960 1024 = .ok
    ((List.range 32).map (fun j => Act.item j j j) ++ [.zero, .zero]) := by rfl
/-- an `slt`-like circuit (one output bit, 31 zero-filled) on 4 threads: one thread spawned -/
example : execBdd 4 32 1 64 64 4096 1024 = .ok (Act.item 0 0 0 :: List.replicate 31 Act.zero) := by rfl

/-- **interleave_eq_seq.**  Queues of micro-steps whose footprints (output slot, scratch window)
are disjoint between queues: every interleaving of the queues that keeps each queue's order ends
in the same state — outputs *and* scratch windows — as running the queues one after another.
No assumption on what the steps compute. -/
theorem interleave_eq_seq {V : Type} (micro : Nat → Nat → V × V → V × V) (qs : List (List Ev))
    (hd : DisjointQ qs) (sched : List Ev) (hs : isInterleaving qs sched = true) (st : St V) :
    run micro sched st = run micro qs.flatten st :=
  interleave_eq_seq_aux micro sched qs st hd hs

/-- non-vacuity: two threads, steps that really use slot and scratch (`out := out + scratch + 1`,
`scratch := 2·scratch + out`), a genuinely interleaved schedule -/
example :
    let qs : List (List Ev) := [[⟨0, 0, 0, 0, 0⟩, ⟨0, 0, 0, 0, 1⟩, ⟨0, 0, 1, 1, 0⟩], [⟨1, 1, 2, 2, 0⟩, ⟨1, 1, 2, 2, 1⟩]]
    let sched : List Ev := [⟨1, 1, 2, 2, 0⟩, ⟨0, 0, 0, 0, 0⟩, ⟨0, 0, 0, 0, 1⟩, ⟨1, 1, 2, 2, 1⟩, ⟨0, 0, 1, 1, 0⟩]
    isInterleaving qs sched = true ∧ sched ≠ qs.flatten ∧
    (List.range 3).map (run (fun i pc (p : Int × Int) => (p.1 + p.2 + 1 + i, 2 * p.2 + p.1 + pc)) sched ⟨fun _ => 0, fun _ => 5⟩).outs
      = [17, 29, 21] := by
  decide

/-- The queues the two loops produce have disjoint footprints, whatever the item programs are. -/
theorem parLoop_queues_disjoint (plen : Nat → Nat) (base items threads : Nat)
    (ht : 1 ≤ threads) :
    ∃ qs, parLoop base items threads = .ok qs ∧ DisjointQ (qs.map (threadSeq plen)) :=
  ⟨_, parLoop_ok base items threads ht, parLoop_disjoint plen base items threads ht⟩

example : ∃ qs, parLoop 2 5 3 = .ok qs ∧ DisjointQ (qs.map (threadSeq (fun _ => 2))) :=
  parLoop_queues_disjoint _ 2 5 3 (by decide)

/-- **par_outputs.**  If the output of each item is oblivious of the prior contents of its output
slot and of its scratch window, then after *any* schedule of *any* thread count ≥ 1 every slot of
the work range holds the item's own result and every other slot is unchanged. -/
theorem par_outputs {V : Type} (micro : Nat → Nat → V × V → V × V) (plen : Nat → Nat)
    (hob : Oblivious micro plen) (base items threads : Nat) (ht : 1 ≤ threads)
    (qs : List (List Work)) (hq : parLoop base items threads = .ok qs)
    (sched : List Ev) (hs : isInterleaving (qs.map (threadSeq plen)) sched = true) (st : St V) (j : Nat) :
    (run micro sched st).outs j =
      if base ≤ j ∧ j < base + items then (itemRun micro plen j (st.outs j, st.scr 0)).1 else st.outs j := by
  obtain ⟨qs', hq', _, _, hmem, hslots⟩ := chunks_partition base items threads ht
  obtain ⟨qs'', hq'', hd⟩ := parLoop_queues_disjoint plen base items threads ht
  rw [hq] at hq' hq''
  cases hq'; cases hq''
  rw [interleave_eq_seq micro _ hd sched hs, flatten_threadSeq, run_seq_outs micro plen hob, hslots]
  · simp only [List.mem_range'_1]
  · intro w hw
    obtain ⟨q, hq1, hwq⟩ := List.mem_flatten.1 hw
    obtain ⟨t, htl, rfl⟩ := List.getElem_of_mem hq1
    exact (hmem t htl w hwq).2.2

/-- **threads_eq_single.**  Same work, two thread counts (e.g. `t₂ = 1`), two arbitrary
schedules: identical outputs in every slot. -/
theorem threads_eq_single {V : Type} (micro : Nat → Nat → V × V → V × V) (plen : Nat → Nat)
    (hob : Oblivious micro plen) (base items t₁ t₂ : Nat) (h₁ : 1 ≤ t₁) (h₂ : 1 ≤ t₂)
    (qs₁ qs₂ : List (List Work)) (hq₁ : parLoop base items t₁ = .ok qs₁) (hq₂ : parLoop base items t₂ = .ok qs₂)
    (s₁ s₂ : List Ev) (hs₁ : isInterleaving (qs₁.map (threadSeq plen)) s₁ = true)
    (hs₂ : isInterleaving (qs₂.map (threadSeq plen)) s₂ = true) (st : St V) :
    (run micro s₁ st).outs = (run micro s₂ st).outs := by
  funext j
  rw [par_outputs micro plen hob base items t₁ h₁ qs₁ hq₁ s₁ hs₁,
      par_outputs micro plen hob base items t₂ h₂ qs₂ hq₂ s₂ hs₂]

/-- non-vacuity of `Oblivious`: a two-step item that first overwrites its scratch and output from
the (closed-over) index and then combines them — the result ignores prior contents, the steps do
not. -/
example : Oblivious (fun i pc (p : Int × Int) => if pc = 0 then (3 * i, 7 + i) else (p.1 + p.2, p.2 + p.1)) (fun _ => 2) := by
  intro i p p'
  simp [itemRun, List.range, List.range.loop]

/-- The hypothesis is needed: an item whose output depends on the scratch left behind by the
previous item of the same thread gives different results for 1 and 2 threads (the model shows the
dependency the implementation must not have — C12's "contents never matter"). -/
theorem not_oblivious_counterexample :
    let micro : Nat → Nat → Int × Int → Int × Int := fun i _ p => (p.2 + i, p.2 + 1)
    ∃ qs₁ qs₂, parLoop 0 2 1 = .ok qs₁ ∧ parLoop 0 2 2 = .ok qs₂ ∧
      (run micro (qs₁.map (threadSeq fun _ => 1)).flatten ⟨fun _ => 0, fun _ => 0⟩).outs 1 ≠
      (run micro (qs₂.map (threadSeq fun _ => 1)).flatten ⟨fun _ => 0, fun _ => 0⟩).outs 1 := by
  refine ⟨_, _, rfl, rfl, ?_⟩
  decide

/-- **multi_thread_tmp_bytes_sufficient.**  `<op>_multi_thread_tmp_bytes(threads, ..)` is
`slot + max(threads·per, pack)` (`mtTmpBytes`).  After the evaluator has taken the `slot` bytes of
output bits, what is left covers (i) `threads` regions of `per` bytes — the evaluator splits
`threads` regions whatever the number of output bits, so the term is NOT capped at the output
size — (ii) the `split_mut(threads, per)` size check when `per` is a multiple of the alignment
(it is for the crate's layouts; `per` is reported by the harness and checked), (iii) the packing
step.  Consequently `execBdd` with exactly that scratch succeeds for every `threads ≥ 1`
(including `threads` above the number of outputs) and writes every output slot once. -/
theorem multi_thread_tmp_bytes_sufficient (slot per pack threads : Nat) (ht : 1 ≤ threads) :
    threads * per ≤ mtTmpBytes slot per pack threads - slot ∧
    pack ≤ mtTmpBytes slot per pack threads - slot ∧
    (per % 64 = 0 → splitNeeded threads per ≤ mtTmpBytes slot per pack threads - slot) ∧
    (per % 64 = 0 → ∀ outLen outputSize inBits circIn, 1 ≤ outLen → outputSize ≤ outLen → circIn ≤ inBits →
      ∃ acts, execBdd threads outLen outputSize inBits circIn (mtTmpBytes slot per pack threads - slot) per = .ok acts ∧
        acts.length = outLen ∧
        ∀ j (h : j < acts.length),
          if j < outputSize then ∃ t, t < threads ∧ acts[j] = Act.item t t j else acts[j] = Act.zero) := by
  have h1 : threads * per ≤ mtTmpBytes slot per pack threads - slot := by
    unfold mtTmpBytes; omega
  have h2 : pack ≤ mtTmpBytes slot per pack threads - slot := by
    unfold mtTmpBytes; omega
  have h3 : per % 64 = 0 → splitNeeded threads per ≤ mtTmpBytes slot per pack threads - slot := by
    intro h64
    have hn : nextMult64 per = per := by unfold nextMult64; omega
    have : splitNeeded threads per = threads * per := by
      unfold splitNeeded
      rw [if_neg (by omega), hn]
      obtain ⟨k, rfl⟩ : ∃ k, threads = k + 1 := ⟨threads - 1, by omega⟩
      simp [Nat.succ_mul]
    omega
  refine ⟨h1, h2, h3, fun h64 outLen outputSize inBits circIn hc hr hin => ?_⟩
  exact execBdd_table threads outLen outputSize inBits circIn _ per ht hc hr hin h1 (h3 h64)

/-- non-vacuity, the crate's test parameters (32 output slots of 12288 bytes, 104960 bytes per thread,
86528 bytes to pack): 40 threads on 32 outputs with the queried scratch -/
example : mtTmpBytes 393216 104960 86528 40 = 4591616 ∧
    (∃ acts, execBdd 40 32 32 64 64 (mtTmpBytes 393216 104960 86528 40 - 393216) 104960 = .ok acts) :=
  ⟨by decide, (multi_thread_tmp_bytes_sufficient 393216 104960 86528 40 (by decide)).2.2.2 (by decide) 32 32 64 64
    (by decide) (by decide) (by decide) |>.imp fun _ h => h.1⟩

/-- … and the hypothesis "`threads` regions" is sharp: a query that caps the per-thread term at the
number of outputs (`min threads outputs · per`) is refused by `split_mut` as soon as `threads`
exceeds the outputs. -/
theorem capped_query_insufficient :
    execBdd 33 32 32 64 64 (393216 + max (min 33 32 * 104960) 86528 - 393216) 104960 = .panic "assert" := by
  rfl

end C20
