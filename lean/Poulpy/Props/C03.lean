import Poulpy.Model.Core.Ks
import Poulpy.Lemmas.GadgetAlg
import Poulpy.Lemmas.GadgetPhase
import Poulpy.Lemmas.GadgetSum
import Poulpy.Lemmas.GadgetAccum
import Poulpy.Lemmas.PackAlg
import Poulpy.Lemmas.GadgetExec
import Poulpy.Lemmas.AutoMul
import Poulpy.Lemmas.PackGalois
import Poulpy.Lemmas.PackPhase
import Poulpy.Lemmas.KsNoise
import Poulpy.Lemmas.LweIdx
import Poulpy.Lemmas.PackValue
import Poulpy.Lemmas.KsCompose
import Poulpy.Lemmas.KsDecrypt
import Poulpy.Lemmas.PackLoops
import Poulpy.Lemmas.ExpandExec
import Poulpy.Lemmas.AutoDecrypt
import Poulpy.Lemmas.LweDecrypt
import Poulpy.Lemmas.NoisyTrace
import Poulpy.Lemmas.KsHeadRoom
import Poulpy.Lemmas.FusedAny
import Poulpy.Lemmas.TraceJump
import Poulpy.Lemmas.GgswDecrypt
import Poulpy.Lemmas.NoisyPack
import Poulpy.Lemmas.AdmCorollaries
import Poulpy.Lemmas.GgswDecrypt2
import Poulpy.Lemmas.TraceExec
import Poulpy.Lemmas.TraceNoise
import Poulpy.Lemmas.TraceWrap
import Poulpy.Lemmas.GgswCross
import Poulpy.Lemmas.PackJump
import Poulpy.Lemmas.PackExec
import Poulpy.Lemmas.PackInstance
import Poulpy.Model.Core.Pack
import Poulpy.Props.C09

/-!
# C03 — the key-switching family preserves the plaintext within the predicted noise

Model: `Poulpy/Model/Core/Ks.lean` (what `pdriver ks` executes).  Two layers, as in DESIGN §6:

* **Layer B** (algebra): the gadget identity in poulpy's digit layout over an arbitrary commutative
  ring (`Gadget.*`, Finset sums), the norm inequality `‖p⋆q‖_∞ ≤ ‖p‖₁‖q‖_∞` for the exact negacyclic
  product `Hal.negMul`, the resulting error bound, shape independence, and the Galois arithmetic of
  automorphism keys.
* **Layer A** (the executable functions): the vector-matrix product `Hal.opVmp` that
  `Ks.gglweProductDft` calls commutes with the phase for every `limb_offset` (`vmp_phase_commutes`);
  for `dsize = 1` this is the whole product (`keyswitch_phase_dsize1`, end to end from the ciphertext:
  `keyswitch_internal_phase_dsize1`); for `dsize > 1` the loop over the `dsize` passes is characterised limb by limb
  (`product_accum_dsize_gt1`, phase level `keyswitch_phase_dsize_gt1`), each pass is an instance
  (`product_pass_phase`) on the regrouped input (`product_pass_selection`); only the notational
  identification of these list sums with the `Finset` sums of `Gadget.acc` is left (see the FULL STATEMENT block).
* `product_determined`: the product does not depend on the previous content of its result buffer (the
  defect found by the correspondence — fused automorphism forms read an un-zeroed scratch buffer for
  `dsize ≥ 3` — was repaired upstream, poulpy d3c2e96, while this slice was built).
-/

namespace C03
open Hal Ks

/-! ## Layer B — algebra -/

/-- `‖p ⋆ q‖_∞ ≤ ‖p‖₁ · ‖q‖_∞` for the exact negacyclic product (any lengths). -/
theorem negMul_norm_le (p q : Poly) : normInf (Hal.negMul p q) ≤ norm1 p * normInf q := normInf_negMul_le p q

example : normInf (Hal.negMul [1, -2, 0, 3] [5, -7, 1, 2]) ≤ norm1 [1, -2, 0, 3] * normInf [5, -7, 1, 2] := by decide
example : normInf (Hal.negMul [1, 1] [3, 3]) = norm1 [1, 1] * normInf [3, 3] := by decide   -- the bound is attained

/-- **Error bound of a gadget product**: `‖acc + Σ_k d_k ⋆ e_k‖_∞ ≤ ‖acc‖_∞ + Σ_k ‖d_k‖₁ ‖e_k‖_∞`
(the sum as the code accumulates it, `foldl polyAdd`). -/
theorem gadget_error_bound (ds es : List Poly) (acc : Poly) :
    normInf ((List.zipWith Hal.negMul ds es).foldl polyAdd acc) ≤
      normInf acc + ((List.zipWith (fun d e => norm1 d * normInf e) ds es).foldl (· + ·) 0) := by
  have gen : ∀ (ds es : List Poly) (acc : Poly) (t : Int),
      normInf ((List.zipWith Hal.negMul ds es).foldl polyAdd acc) ≤
        normInf acc + ((List.zipWith (fun d e => norm1 d * normInf e) ds es).foldl (· + ·) t) - t := by
    intro ds
    induction ds with
    | nil => intro es acc t; simp
    | cons d dt ih =>
      intro es acc t
      cases es with
      | nil => simp
      | cons e et =>
        simp only [List.zipWith_cons_cons, List.foldl_cons]
        have h1 := ih et (polyAdd acc (Hal.negMul d e)) (t + norm1 d * normInf e)
        have h2 := normInf_polyAdd_le acc (Hal.negMul d e)
        have h3 := normInf_negMul_le d e
        omega
  have := gen ds es acc 0
  omega

example : normInf ((List.zipWith Hal.negMul [[1, 1], [2, 0]] [[1, -1], [0, 3]]).foldl polyAdd [0, 0]) ≤
    normInf [0, 0] + ((List.zipWith (fun d e => norm1 d * normInf e) [[1, 1], [2, 0]] [[1, -1], [0, 3]]).foldl (· + ·) 0) := by
  decide

/-- **Gadget identity in poulpy's digit layout** (one input column; `Gadget.gadget_identity_cols` sums
it over the `rank_in` columns).  `a m` = limb `m` of the input, `φ r l` = limb `l` of the phase of key
row `r` under the target secret, `β = 2^{base2k}`, `S` = limbs of the key.  If row `r` has phase value
`s·β^{S−(r+1)·dsize} + E r`, then the value of the accumulated product
`Σ_{di<dsize} Σ_{r<rows(di)} a[r·dsize + dsize−1−di] · φ_r[l+di]` (limb `l`, truncated to
`S − max(dsize−di−2,0)` limbs in pass `di`) is `s·(used part of a) + Σ_r d_r·E_r − dropped − β^S·head`. -/
theorem gadget_identity {R : Type*} [CommRing R] (β s : R) (S dsize dnum aSize : ℕ) (a : ℕ → R) (φ : ℕ → ℕ → R) (E : ℕ → R)
    (hd : 0 < dsize) (hS : dnum * dsize ≤ S)
    (hkey : ∀ r, r < dnum → Gadget.val β S (φ r) = s * β ^ (S - (r + 1) * dsize) + E r) :
    Gadget.val β S (Gadget.acc S dsize dnum aSize a φ) =
      s * Gadget.usedVal β S dsize dnum aSize a + ∑ r ∈ Finset.range dnum, Gadget.digit β dsize dnum aSize a r * E r
        - Gadget.dropped β S dsize dnum aSize a φ - β ^ S * Gadget.head β dsize dnum aSize a φ :=
  Gadget.gadget_identity β s S dsize dnum aSize a φ E hd hS hkey

/-- no product limb is dropped for `dsize ≤ 2` (`res.set_size(pmat.size − max(dsize−di−2, 0))`). -/
theorem dropped_zero_of_dsize_le_two {R : Type*} [CommRing R] (β : R) (S dsize dnum aSize : ℕ) (a : ℕ → R) (φ : ℕ → ℕ → R)
    (h : dsize ≤ 2) : Gadget.dropped β S dsize dnum aSize a φ = 0 := Gadget.dropped_eq_zero β S dsize dnum aSize a φ h

/-- **limb regrouping = digit decomposition** (index level): with selection `(step, offset) =
(dsize, dsize−1−di)` and `ai_dft.set_size((a_size+di)/dsize)`, row `r` of pass `di` reads an existing
input limb exactly when `r` is below that size. -/
theorem limb_used_iff (aSize dsize r di : ℕ) (hd : 0 < dsize) (hdi : di < dsize) :
    r < (aSize + di) / dsize ↔ Gadget.limbIdx dsize r di < aSize := Gadget.limb_used_iff hd hdi

/-- **limb regrouping = digit decomposition** (value level): when `dnum` is large enough every input
limb is used exactly once, with its own weight. -/
theorem used_value_is_input_value {R : Type*} [CommRing R] (β : R) (S dsize dnum aSize : ℕ) (a : ℕ → R)
    (hd : 0 < dsize) (h1 : aSize ≤ dnum * dsize) :
    Gadget.usedVal β S dsize dnum aSize a = ∑ m ∈ Finset.range aSize, a m * β ^ (S - 1 - m) :=
  Gadget.usedVal_eq_val β S dsize dnum aSize a hd h1

/-- **Shape independence**: for two gadget shapes `(dsize, dnum)` and `(dsize', dnum')` that both cover
the input (`a_size ≤ dnum·dsize`) and keys with `S` limbs satisfying the key relation for the same
`s`, the accumulated products differ only by their explicit error terms — both equal `s·val(a)`
plus errors: "any digit size, digit count … gives the same plaintext". -/
theorem shape_independence {R : Type*} [CommRing R] (β s : R) (S aSize : ℕ) (a : ℕ → R)
    (dsize dnum : ℕ) (φ : ℕ → ℕ → R) (E : ℕ → R) (dsize' dnum' : ℕ) (φ' : ℕ → ℕ → R) (E' : ℕ → R)
    (hd : 0 < dsize) (hS : dnum * dsize ≤ S) (hc : aSize ≤ dnum * dsize)
    (hd' : 0 < dsize') (hS' : dnum' * dsize' ≤ S) (hc' : aSize ≤ dnum' * dsize')
    (hkey : ∀ r, r < dnum → Gadget.val β S (φ r) = s * β ^ (S - (r + 1) * dsize) + E r)
    (hkey' : ∀ r, r < dnum' → Gadget.val β S (φ' r) = s * β ^ (S - (r + 1) * dsize') + E' r) :
    Gadget.val β S (Gadget.acc S dsize dnum aSize a φ)
        - (∑ r ∈ Finset.range dnum, Gadget.digit β dsize dnum aSize a r * E r
            - Gadget.dropped β S dsize dnum aSize a φ - β ^ S * Gadget.head β dsize dnum aSize a φ)
      = Gadget.val β S (Gadget.acc S dsize' dnum' aSize a φ')
        - (∑ r ∈ Finset.range dnum', Gadget.digit β dsize' dnum' aSize a r * E' r
            - Gadget.dropped β S dsize' dnum' aSize a φ' - β ^ S * Gadget.head β dsize' dnum' aSize a φ') := by
  rw [Gadget.gadget_identity β s S dsize dnum aSize a φ E hd hS hkey,
      Gadget.gadget_identity β s S dsize' dnum' aSize a φ' E' hd' hS' hkey',
      Gadget.usedVal_eq_val β S dsize dnum aSize a hd hc, Gadget.usedVal_eq_val β S dsize' dnum' aSize a hd' hc']
  ring

/-! ### Galois arithmetic of automorphism keys -/

/-- `glwe_automorphism_key_encrypt_sk` encrypts under `σ_{p⁻¹}(s)` (`p⁻¹ = galois_element_inv(p)`); the
final `σ_p` of `glwe_automorphism` brings that secret back to `s`: `σ_p(σ_{p⁻¹}(s)) = s`. -/
theorem autokey_secret_roundtrip (k : Nat) (hk : k + 1 ≤ 64) (p p' : Int) (hp : p % 2 = 1) (s : Poly) (hl : s.length = 2 ^ k)
    (hs : AllP I64 s) (hinv : galoisElementInv p (cyclotomicOrder s.length) = .ok p') :
    znxAutomorphism p (znxAutomorphism p' s) = s := by
  have hord : cyclotomicOrder s.length = 2 ^ (k + 1) := by unfold cyclotomicOrder; rw [hl]; push_cast; ring
  rw [hord] at hinv
  have hmul := C09.galois_element_inv_mul p hp (k + 1) hk p' hinv
  have hp' : p' % 2 = 1 := by
    have h2 : (p' * p) % 2 = 1 := by
      have h3 : (p' * p) % 2 ^ (k + 1) % 2 = 1 % 2 ^ (k + 1) % 2 := by rw [hmul]
      rw [Int.emod_emod_of_dvd _ (dvd_pow_self 2 (by omega)), Int.emod_emod_of_dvd _ (dvd_pow_self 2 (by omega))] at h3
      simpa using h3
    rcases Int.emod_two_eq p' with h0 | h1
    · rw [Int.mul_emod, h0] at h2; simp at h2
    · exact h1
  rw [C09.automorphism_comp k p p' hp hp' s hl hs]
  have e2 : (2 * (s.length : Int)) = 2 ^ (k + 1) := by rw [hl]; push_cast; ring
  rw [C09.automorphism_mod (p * p') 1 s (by rw [e2, Int.mul_comm]; exact hmul)]
  exact C09.automorphism_one s hs

example : znxAutomorphism 3 (znxAutomorphism 3 [1, -1, 0, 1]) = [1, -1, 0, 1] := by decide

/-- the trace uses `p₀ = −1` and `p_i = 5^{2^{i−1}} mod 2N`: `galois_element(2^{i−1}, 2N)`. -/
theorem trace_galois_elements (n i : Nat) (K : Nat) (hK : K ≤ 64) (hn : cyclotomicOrder n = 2 ^ K) (hi : 0 < i) :
    traceGalois n i = .ok (5 ^ (2 ^ (i - 1)) % 2 ^ K) := by
  unfold traceGalois
  rw [if_neg (by omega), hn, C09.galois_element_spec _ K hK]
  have hs : ((2 : Int) ^ (i - 1)).sign = 1 := Int.sign_eq_one_of_pos (by positivity)
  have h1 : ((2 : Int) ^ (i - 1)) ≠ 0 := by positivity
  simp [h1, hs]

example : traceGalois 8 2 = .ok 9 := by
  rw [trace_galois_elements 8 2 4 (by norm_num) (by rfl) (by norm_num)]; rfl

/-! ### The automorphism is a ring homomorphism: `σ_g` of the phase -/

/-- **multiplicativity of the Galois automorphism for the exact negacyclic product**: `σ_g(a ⋆ b) = σ_g(a) ⋆ σ_g(b)`
(`σ_g` = `znxAutomorphismW id g`, the exact automorphism; proved by transfer: `σ_g` is the ring endomorphism of `ℤ[X]/(X^N+1)`
induced by `X ↦ X^g`) -/
theorem automorphism_mul (g : Int) (a b : Poly) (h : a.length = b.length) (hn : 0 < a.length) (hg : GalOk g a.length) :
    AutoMul.σ g (Hal.negMul a b) = Hal.negMul (AutoMul.σ g a) (AutoMul.σ g b) := AutoMul.auto_negMul_hal g a b h hn hg

example : AutoMul.σ 3 (Hal.negMul [1, 2, 3, 4] [5, -6, 7, 8]) = Hal.negMul (AutoMul.σ 3 [1, 2, 3, 4]) (AutoMul.σ 3 [5, -6, 7, 8]) := by decide

/-- the model's `vec_znx_automorphism` (`i64` wrapping negation) is the exact `σ_g` on in-range digits -/
theorem automorphism_exact_on_i64 (g : Int) (a : Poly) (h : ∀ x ∈ a, -(2 ^ 63) < x ∧ x < 2 ^ 63) :
    znxAutomorphism g a = AutoMul.σ g a := AutoMul.auto_w64_eq_id g a h

example : znxAutomorphism 3 [1, 2, 3, 4] = AutoMul.σ 3 [1, 2, 3, 4] := by decide

/-- **`automorphism_phase`**: applying `σ_g` to every column of a ciphertext gives a ciphertext whose phase under `σ_g(secret)` is
`σ_g(phase)` -/
theorem automorphism_phase (N : Nat) (g : Int) (hN : 0 < N) (hg : GalOk g N) (sk cs : List Poly)
    (hsk : Ks.AllLen N sk) (hcs : Ks.AllLen N cs) :
    phaseRow (sk.map (AutoMul.σ g)) (cs.map (AutoMul.σ g)) = AutoMul.σ g (phaseRow sk cs) :=
  AutoMul.automorphism_phase N g hN hg sk cs hsk hcs

example : phaseRow ([[0, 1, 0, 0]].map (AutoMul.σ 3)) ([[1, 2, 3, 4], [0, 0, 1, 0]].map (AutoMul.σ 3))
    = AutoMul.σ 3 (phaseRow [[0, 1, 0, 0]] [[1, 2, 3, 4], [0, 0, 1, 0]]) := by decide

/-- **automorphism = key-switch ∘ (X → X^g)** at the level of phases: a ciphertext that decrypts to `φ` under `σ_{g⁻¹}(s)` (what
the key-switch with the automorphism key of `g` produces) decrypts, after `vec_znx_automorphism(g)` on its columns, to `σ_g(φ)`
under `s` (`hinv` is `autokey_secret_roundtrip`) -/
theorem automorphism_phase_key (N : Nat) (g gInv : Int) (hN : 0 < N) (hg : GalOk g N) (sk sk' cs : List Poly)
    (hsk : Ks.AllLen N sk) (hcs : Ks.AllLen N cs) (hsk' : sk' = sk.map (AutoMul.σ gInv))
    (hinv : ∀ s ∈ sk, AutoMul.σ g (AutoMul.σ gInv s) = s) :
    phaseRow sk (cs.map (AutoMul.σ g)) = AutoMul.σ g (phaseRow sk' cs) :=
  AutoMul.automorphism_phase_key N g gInv hN hg sk sk' cs hsk hcs hsk' hinv

example : phaseRow [[0, 1, 0, 0]] ([[1, 2, 3, 4], [0, 0, 1, 0]].map (AutoMul.σ 3))
    = AutoMul.σ 3 (phaseRow ([[0, 1, 0, 0]].map (AutoMul.σ 3)) [[1, 2, 3, 4], [0, 0, 1, 0]]) := by decide

/-! ## Layer A — the executable product -/

/-- **The vector-matrix product commutes with the phase, for every `limb_offset`.**  `d` = the result
buffer (`rank_out+1` columns), `a` = the (selected) input limbs, `m` = the prepared key: the phase
under `sk` of limb `l` of `vmp_apply_dft_to_dft(d, a, m, lo)` is `Σ_j a_j ⋆ phase(row j, limb l+lo)`. -/
theorem vmp_phase_commutes (sk : List Poly) (d a : Buf) (m : PMat) (lo l : Nat) (hd : d.WF) (hcols : d.cols = m.colsOut)
    (hc : 0 < m.colsOut) (hl : l < d.size) (hlo : l + lo < m.size) (hM : ∀ j q, (m.entry j q).length = d.n) :
    phaseRow sk (bufRow (opVmp d a m lo) l) =
      sumPolys d.n ((List.range (min (m.colsIn * m.rows) a.flat.length)).map (fun j =>
        Hal.negMul (a.flat.getD j (zeroP d.n)) (phaseRow sk (rowLimb m j (l + lo))))) :=
  opVmp_phase sk d a m lo l hd hcols hc hl hlo hM

/-- a concrete 1-row, rank-1 key at `n = 2`: the hypotheses are satisfiable and both sides compute -/
def exKey : PMat := { n := 2, rows := 1, colsIn := 1, colsOut := 2, size := 2,
                      data := [[[[1, 2], [3, 4]], [[5, 6], [7, 8]]]] }
def exA : Buf := { n := 2, cols := 1, size := 1, maxSize := 1, data := [[[1, 1]]] }

example : (zeroBuf 2 2 2).WF := by
  refine ⟨rfl, Nat.le_refl _, ?_⟩
  intro c hc
  have : c = 0 ∨ c = 1 := by simp [zeroBuf] at hc; omega
  rcases this with rfl | rfl <;> rfl

example : phaseRow [[0, 1]] (bufRow (opVmp (zeroBuf 2 2 2) exA exKey 0) 1) =
    sumPolys 2 ((List.range (min (exKey.colsIn * exKey.rows) exA.flat.length)).map (fun j =>
      Hal.negMul (exA.flat.getD j (zeroP 2)) (phaseRow [[0, 1]] (rowLimb exKey j 1)))) := by decide

/-- **`keyswitch_phase_dsize1`**: for a key with `dsize = 1`, `gglwe_product_dft` is one vector-matrix
product, so limb `l` of its result has phase `Σ_j a_j ⋆ phase(key row j, limb l)` under the target
secret — with `j = limb·rank_in + column` running over the `min(dnum·rank_in, a_size·rank_in)` input
limbs: the gadget identity is instantiated with `d_{r,i} = a_i[r]`. -/
theorem keyswitch_phase_dsize1 (sk : List Poly) (res a : Buf) (key : Key) (l : Nat) (h1 : key.dsize = 1)
    (hd : res.WF) (hcols : res.cols = key.mat.colsOut) (hc : 0 < key.mat.colsOut) (hl : l < res.size) (hls : l < key.mat.size)
    (hM : ∀ j q, (key.mat.entry j q).length = res.n) :
    phaseRow sk (bufRow (gglweProductDft res a key) l) =
      sumPolys res.n ((List.range (min (key.mat.colsIn * key.mat.rows) a.flat.length)).map (fun j =>
        Hal.negMul (a.flat.getD j (zeroP res.n)) (phaseRow sk (rowLimb key.mat j l)))) := by
  have e : gglweProductDft res a key = opVmp res a key.mat 0 := by
    unfold gglweProductDft; rw [if_pos h1]
  rw [e]
  exact opVmp_phase sk res a key.mat 0 l hd hcols hc hl (by omega) hM

example : phaseRow [[0, 1]] (bufRow (gglweProductDft (zeroBuf 2 2 2) exA { base2k := 4, dsize := 1, p := 0, mat := exKey }) 0) =
    sumPolys 2 ((List.range 1).map (fun j => Hal.negMul (exA.flat.getD j (zeroP 2)) (phaseRow [[0, 1]] (rowLimb exKey j 0)))) := by
  decide

/-- `glwe_keyswitch_internal` on top of the product: same radix ⇒ `ok`, the big accumulator is the
product with the input's body added to column 0 on the common limbs (other columns untouched). -/
theorem keyswitch_internal_shape (big128 : Bool) (resDft : Buf) (a : Ct) (key : Key) (h : a.base2k = key.base2k) :
    ∃ aDft : Buf, keyswitchInternal big128 resDft a key =
      .ok ((gglweProductDft resDft aDft key).setAct 0
            (bigAddSmallAssign big128 ((gglweProductDft resDft aDft key).act 0) (a.cols.getD 0 []))) ∧
      ∀ c, c ≠ 0 → ∀ r, keyswitchInternal big128 resDft a key = .ok r → r.act c = (gglweProductDft resDft aDft key).act c := by
  unfold keyswitchInternal
  rw [if_neg (by simpa using h)]
  refine ⟨_, rfl, ?_⟩
  intro c hc r hr
  injection hr with hr
  rw [← hr]
  exact Buf.act_setAct_other _ 0 c _ hc

example : ∃ r, keyswitchInternal false (zeroBuf 2 2 2) (mkCt 4 2 [[[1, 0]], [[1, 1]]]) { base2k := 4, dsize := 1, p := 0, mat := exKey } = .ok r :=
  ⟨_, rfl⟩

/-- **`keyswitch_internal_phase_dsize1`** — `glwe_keyswitch_internal` end to end for `dsize = 1`, from
the ciphertext to the phase: the call succeeds, its big accumulator is `prod` with the input body
added to column 0, and limb `l` of `prod` has phase `Σ_j mask_{j mod r}[j / r] ⋆ phase(key row j, limb l)`
under the target secret (`r = rank_in`; `j` runs over the `min(dnum, a_size)·r` limb/column pairs):
the key-switch preserves the phase up to the explicit gadget error of `gadget_identity`. -/
theorem keyswitch_internal_phase_dsize1 (big128 : Bool) (sk : List Poly) (resDft : Buf) (a : Ct) (key : Key)
    (h1 : key.dsize = 1) (hb : a.base2k = key.base2k)
    (hA : ∀ c, c < a.cols.length → (a.cols.getD c []).length = a.size)
    (hd : resDft.WF) (hn : resDft.n = a.n) (hcols : resDft.cols = key.mat.colsOut) (hc : 0 < key.mat.colsOut)
    (hM : ∀ j q, (key.mat.entry j q).length = a.n) :
    ∃ prod : Buf,
      keyswitchInternal big128 resDft a key =
        .ok (prod.setAct 0 (bigAddSmallAssign big128 (prod.act 0) (a.cols.getD 0 []))) ∧
      ∀ l, l < resDft.size → l < key.mat.size →
        phaseRow sk (bufRow prod l) =
          sumPolys a.n ((List.range (min (key.mat.colsIn * key.mat.rows) (a.size * a.rank))).map (fun j =>
            Hal.negMul (limbOr0 a.n (a.cols.getD (j % a.rank + 1) []) (j / a.rank)) (phaseRow sk (rowLimb key.mat j l)))) := by
  unfold keyswitchInternal
  rw [if_neg (by simpa using hb)]
  refine ⟨_, rfl, ?_⟩
  intro l hl hls
  -- the input buffer a_dft
  have hfold := foldl_setActG (fun n size c => dftApplyCol n 1 0 size ((bufOfCols a.n a.size a.cols).act (c + 1)))
    (List.range (a.rank + 1 - 1)) (zeroBuf a.n (a.rank + 1 - 1) a.size) (zeroBuf_WF _ _ _) List.nodup_range
    (fun c hc => by simpa [zeroBuf] using List.mem_range.mp hc) (by intro c; simp [zeroBuf])
  simp only at hfold
  have hstep : (fun (acc : Buf) ci => opDftApply 1 0 acc ci (bufOfCols a.n a.size a.cols) (ci + 1)) =
      (fun (acc : Buf) c => acc.setAct c (dftApplyCol acc.n 1 0 acc.size ((bufOfCols a.n a.size a.cols).act (c + 1)))) := rfl
  rw [hstep]
  generalize hX : (List.range (a.rank + 1 - 1)).foldl
    (fun (acc : Buf) c => acc.setAct c (dftApplyCol acc.n 1 0 acc.size ((bufOfCols a.n a.size a.cols).act (c + 1))))
    (zeroBuf a.n (a.rank + 1 - 1) a.size) = aDft at hfold ⊢
  obtain ⟨_, hXc, hXs, hXn, hXa⟩ := hfold
  have hXc' : aDft.cols = a.rank := by rw [hXc]; simp [zeroBuf]
  have hXs' : aDft.size = a.size := by rw [hXs]; simp [zeroBuf]
  rw [keyswitch_phase_dsize1 sk resDft aDft key l h1 hd hcols hc hl hls (by rw [hn]; exact hM)]
  rw [hn, flat_length, hXs', hXc']
  congr 1
  apply List.map_congr_left
  intro j hj
  have hj' : j < a.size * a.rank := by
    have := List.mem_range.mp hj; omega
  have hrpos : 0 < a.rank := by
    rcases Nat.eq_zero_or_pos a.rank with h0 | h0
    · rw [h0] at hj'; omega
    · exact h0
  congr 1
  rw [flat_getD aDft j (by rw [hXs', hXc']; exact hj'), hXn, hXc']
  have hmod : j % a.rank < a.rank := Nat.mod_lt _ hrpos
  rw [hXa (j % a.rank)]
  have hmem : j % a.rank ∈ List.range (a.rank + 1 - 1) := by simp; omega
  rw [if_pos hmem]
  -- the selected column of the ciphertext, copied limb for limb
  have hlen : a.rank + 1 ≤ a.cols.length := by
    unfold Core.GLWE.rank at hrpos ⊢; omega
  have hcol : (bufOfCols a.n a.size a.cols).act (j % a.rank + 1) = a.cols.getD (j % a.rank + 1) [] := by
    unfold Buf.act bufOfCols
    simp only
    apply List.take_of_length_le
    rw [hA _ (by omega)]
  simp only [zeroBuf]
  rw [hcol]
  have := dftApplyCol_id a.n (a.cols.getD (j % a.rank + 1) [])
  rw [hA _ (by omega)] at this
  rw [this]

/-- non-vacuity: a rank-1 ciphertext with one limb at `n = 2` and the 1-row key `exKey` meet every hypothesis -/
example : ∃ prod : Buf,
    keyswitchInternal false (zeroBuf 2 2 2) (mkCt 4 2 [[[1, 0]], [[1, 1]]]) { base2k := 4, dsize := 1, p := 0, mat := exKey } =
      .ok (prod.setAct 0 (bigAddSmallAssign false (prod.act 0) [[1, 0]])) ∧
    ∀ l, l < 2 → l < 2 → phaseRow [[0, 1]] (bufRow prod l) =
      sumPolys 2 ((List.range (min (1 * 1) (1 * 1))).map (fun j =>
        Hal.negMul (limbOr0 2 ((mkCt 4 2 [[[1, 0]], [[1, 1]]]).cols.getD (j % 1 + 1) []) (j / 1)) (phaseRow [[0, 1]] (rowLimb exKey j l)))) :=
  keyswitch_internal_phase_dsize1 false [[0, 1]] (zeroBuf 2 2 2) (mkCt 4 2 [[[1, 0]], [[1, 1]]])
    { base2k := 4, dsize := 1, p := 0, mat := exKey } rfl rfl (by decide) (zeroBuf_WF 2 2 2) rfl rfl (by decide)
    (entry_length exKey 2 rfl (by decide))

/-- **`keyswitch_phase`** — ONE theorem about the executed `gglwe_product_dft`, for every digit size `dsize ≥ 1`: in the ring
`R N = ℤ[X]/(X^N+1)` (coefficient lists of length `N` through `ι = AdjoinRoot.mk ∘ toPoly`, which turns `Hal.negMul` into the ring
product and `Hal.polyAdd` into the sum), the phase under any secret of limb `l` of the product is the abstract accumulation
`Gadget.acc` of `gadget_identity`, summed over the input columns, with `a_i[m]` = limb `m` of input column `i` and
`φ_i r l` = phase of limb `l` of key row `r`, input column `i`. -/
theorem keyswitch_phase (N : Nat) (sk : List Poly) (res a : Buf) (key : Key) (l : Nat)
    (hD : 1 ≤ key.dsize) (hN : 0 < N) (hres : res.WF) (hmax : res.maxSize = key.mat.size)
    (hsize : res.size = key.mat.size) (hcols : res.cols = key.mat.colsOut) (hc0 : 0 < key.mat.colsOut)
    (hresn : res.n = N) (han : a.n = N) (hacols : a.cols = key.mat.colsIn)
    (hM : ∀ j q, (key.mat.entry j q).length = N) :
    Ks.ι N (phaseRow sk ((List.range res.cols).map (fun c => limbOr0 N ((gglweProductDft res a key).act c) l)))
      = ∑ i ∈ Finset.range key.mat.colsIn,
          Gadget.acc key.mat.size key.dsize key.mat.rows a.size (Ks.inLimb N a i) (Ks.keyPhase N sk key.mat i) l :=
  Ks.keyswitch_phase N sk res a key l hD hN hres hmax hsize hcols hc0 hresn han hacols hM

/-- **`keyswitch_value`** — the gadget identity applied to the executed product: if key row `r`, input column `i` has phase value
`s_i·β^{S−(r+1)·dsize} + E_{i,r}` under the target secret, the value of the product's phase is
`Σ_i (s_i·usedVal(a_i) + Σ_r digit_{i,r}·E_{i,r} − dropped_i − β^S·head_i)`: the key-switch preserves the phase up to the explicit
gadget error, for every digit size, digit count, ranks and limb counts — shape independence included (`used_value_is_input_value`). -/
theorem keyswitch_value (N : Nat) (sk : List Poly) (res a : Buf) (key : Key) (β : Ks.R N) (s : ℕ → Ks.R N) (E : ℕ → ℕ → Ks.R N)
    (hD : 1 ≤ key.dsize) (hN : 0 < N) (hres : res.WF) (hmax : res.maxSize = key.mat.size)
    (hsize : res.size = key.mat.size) (hcols : res.cols = key.mat.colsOut) (hc0 : 0 < key.mat.colsOut)
    (hresn : res.n = N) (han : a.n = N) (hacols : a.cols = key.mat.colsIn)
    (hM : ∀ j q, (key.mat.entry j q).length = N)
    (hS : key.mat.rows * key.dsize ≤ key.mat.size)
    (hkey : ∀ i, i < key.mat.colsIn → ∀ r, r < key.mat.rows →
      Gadget.val β key.mat.size (Ks.keyPhase N sk key.mat i r) = s i * β ^ (key.mat.size - (r + 1) * key.dsize) + E i r) :
    ∑ l ∈ Finset.range key.mat.size,
        Ks.ι N (phaseRow sk ((List.range res.cols).map (fun c => limbOr0 N ((gglweProductDft res a key).act c) l)))
          * β ^ (key.mat.size - 1 - l)
      = ∑ i ∈ Finset.range key.mat.colsIn,
          (s i * Gadget.usedVal β key.mat.size key.dsize key.mat.rows a.size (Ks.inLimb N a i)
            + ∑ r ∈ Finset.range key.mat.rows, Gadget.digit β key.dsize key.mat.rows a.size (Ks.inLimb N a i) r * E i r
            - Gadget.dropped β key.mat.size key.dsize key.mat.rows a.size (Ks.inLimb N a i) (Ks.keyPhase N sk key.mat i)
            - β ^ key.mat.size * Gadget.head β key.dsize key.mat.rows a.size (Ks.inLimb N a i) (Ks.keyPhase N sk key.mat i)) :=
  Ks.keyswitch_value N sk res a key β s E hD hN hres hmax hsize hcols hc0 hresn han hacols hM hS hkey

/-- non-vacuity: the `dsize = 3`, `N = 1` key of `Ks.AccumExample` with a garbage-filled result buffer meets every hypothesis -/
example (l : Nat) :
    Ks.ι 1 (phaseRow [] ((List.range 1).map (fun c => limbOr0 1 ((gglweProductDft AccumExample.dirty3 AccumExample.exA3 AccumExample.exKey3).act c) l)))
      = ∑ i ∈ Finset.range 1, Gadget.acc 4 3 1 1 (Ks.inLimb 1 AccumExample.exA3 i) (Ks.keyPhase 1 [] AccumExample.exKey3.mat i) l :=
  keyswitch_phase 1 [] AccumExample.dirty3 AccumExample.exA3 AccumExample.exKey3 l (by decide) (by decide) AccumExample.dirty3_WF rfl rfl rfl
    (by decide) rfl rfl rfl (entry_length AccumExample.exKey3.mat 1 rfl (by decide))


/-- **`product_pass_phase`**: pass `di > 0` of the `dsize > 1` branch writes into `res_dft_tmp`
the vector-matrix product with `limb_offset = di`; its phase at limb `l` is
`Σ_j ai_j ⋆ phase(key row j, limb l + di)` — the `di`-th term of the gadget identity. -/
theorem product_pass_phase (sk : List Poly) (a : Buf) (key : Key) (st : ProdSt) (di l : Nat) (hdi : di ≠ 0)
    (htmp : st.tmp.WF) (hsz : key.mat.size - (key.dsize - di - 2) ≤ st.tmp.maxSize)
    (hcols : st.tmp.cols = key.mat.colsOut) (hc : 0 < key.mat.colsOut)
    (hl : l < key.mat.size - (key.dsize - di - 2)) (hlo : l + di < key.mat.size)
    (hM : ∀ j q, (key.mat.entry j q).length = st.tmp.n) :
    let st' := productStep a key st di
    phaseRow sk (bufRow st'.tmp l) =
      sumPolys st.tmp.n ((List.range (min (key.mat.colsIn * key.mat.rows) st'.ai.flat.length)).map (fun j =>
        Hal.negMul (st'.ai.flat.getD j (zeroP st.tmp.n)) (phaseRow sk (rowLimb key.mat j (l + di))))) := by
  intro st'
  have e : st'.tmp = opVmp { st.tmp with size := key.mat.size - (key.dsize - di - 2) } st'.ai key.mat di := by
    simp only [st', productStep, if_neg hdi]
  rw [e]
  have hwf : ({ st.tmp with size := key.mat.size - (key.dsize - di - 2) } : Buf).WF := ⟨htmp.1, hsz, htmp.2.2⟩
  exact opVmp_phase sk _ st'.ai key.mat di l hwf hcols hc hl hlo hM

/-- selection `(step, offset) = (dsize, dsize−1−di)`: result limb `r` is input limb
`r·dsize + dsize−1−di` (`Gadget.limbIdx`) when that limb exists, zero otherwise -/
theorem dft_select_limbIdx (n dsize di rs : Nat) (a : Col) (r : Nat) (hd : 0 < dsize) (hdi : di < dsize) (hr : r < rs) :
    (dftApplyCol n dsize (dsize - di - 1) rs a).getD r (zeroP n) =
      if Gadget.limbIdx dsize r di < a.length then a.getD (Gadget.limbIdx dsize r di) (zeroP n) else zeroP n := by
  unfold dftApplyCol
  rw [mapRange_getD _ _ _ _ hr]
  have e : dsize - di - 1 + r * dsize = Gadget.limbIdx dsize r di := by unfold Gadget.limbIdx; omega
  simp only [e]
  by_cases h : r < min rs ((a.length + dsize - 1) / dsize)
  · rw [if_pos h]
  · rw [if_neg h]
    have h2 : (a.length + dsize - 1) / dsize ≤ r := by omega
    have h3 : a.length + dsize - 1 < (r + 1) * dsize := by
      have := (Nat.div_lt_iff_lt_mul hd).mp (Nat.lt_succ_of_le h2)
      simpa [Nat.succ_mul] using this
    have h4 : ¬ Gadget.limbIdx dsize r di < a.length := by
      unfold Gadget.limbIdx
      rw [Nat.succ_mul] at h3
      omega
    rw [if_neg h4]

/-- **`product_pass_selection`**: in pass `di` the buffer `ai_dft` holds, in column `c` and limb
`r < min((a_size+di)/dsize, dnum)`, the input limb `Gadget.limbIdx dsize r di` of column `c` — the
regrouping of the limbs into the digits of `gadget_identity`. -/
theorem product_pass_selection (a : Buf) (key : Key) (st : ProdSt) (di c r : Nat)
    (hd : 0 < key.dsize) (hdi : di < key.dsize) (hai : st.ai.WF) (hcols : st.ai.cols = a.cols)
    (hsz : min ((a.size + di) / key.dsize) key.mat.rows ≤ st.ai.maxSize) (hc : c < a.cols)
    (hr : r < min ((a.size + di) / key.dsize) key.mat.rows) :
    limbOr0 st.ai.n ((productStep a key st di).ai.act c) r =
      if Gadget.limbIdx key.dsize r di < (a.act c).length then (a.act c).getD (Gadget.limbIdx key.dsize r di) (zeroP st.ai.n)
      else zeroP st.ai.n := by
  have e : (productStep a key st di).ai =
      (List.range a.cols).foldl (fun (acc : Buf) j => acc.setAct j (dftApplyCol acc.n key.dsize (key.dsize - di - 1) acc.size (a.act j)))
        { st.ai with size := min ((a.size + di) / key.dsize) key.mat.rows } := by
    unfold productStep
    split <;> rfl
  rw [e]
  have hwf : ({ st.ai with size := min ((a.size + di) / key.dsize) key.mat.rows } : Buf).WF := ⟨hai.1, hsz, hai.2.2⟩
  have hfold := foldl_setActG (fun n size j => dftApplyCol n key.dsize (key.dsize - di - 1) size (a.act j))
    (List.range a.cols) _ hwf List.nodup_range (fun j hj => by rw [hcols]; exact List.mem_range.mp hj) (by intro j; simp)
  simp only at hfold
  rw [hfold.2.2.2.2 c, if_pos (List.mem_range.mpr hc)]
  unfold limbOr0
  exact dft_select_limbIdx _ _ _ _ _ _ hd hdi hr

/-! ### `dsize > 1`: the accumulation over the passes (full, data level and phase level) -/

/-- **`product_accum_dsize_gt1`** — the `dsize > 1` branch of `gglwe_product_dft`, limb by limb: pass 0
writes its vector-matrix product into the limbs `< passSize 0 = size − (dsize−2)` and zeroes the others
(whatever `res` contained), every later pass `di` *adds* the product with `limb_offset = di` of the
regrouped input `aiFlatOf … di` (selection `(dsize, dsize−1−di)`, `min((a_size+di)/dsize, dnum)` rows) into the
limbs `< passSize di`.  This is the executable counterpart of `Gadget.acc`. -/
theorem product_accum_dsize_gt1 (res a : Buf) (key : Key) (hD : 2 ≤ key.dsize) (hres : res.WF)
    (hmax : res.maxSize = key.mat.size) (hcols : res.cols = key.mat.colsOut)
    (hn : res.n = a.n) (l c : Nat) (hc : c < res.cols) :
    limbOr0 res.n ((gglweProductDft res a key).act c) l =
      (List.range (key.dsize - 1)).foldl
        (fun acc k => if l < passSize key (k + 1) then polyAdd acc (passEntry a key res.n (k + 1) l c) else acc)
        (if l < passSize key 0 then passEntry a key res.n 0 l c else zeroP res.n) :=
  product_accum res a key hD hres hmax hcols hn l c hc

example : (List.range 4).map (fun l => limbOr0 1 ((gglweProductDft AccumExample.dirty3 AccumExample.exA3 AccumExample.exKey3).act 0) l)
    = [[1], [1], [0], [0]] := by decide

/-- phase of limb `l` of the product of pass `di` -/
def passPhase (sk : List Poly) (a : Buf) (key : Key) (n di l : Nat) : Poly :=
  phaseRow sk ((List.range key.mat.colsOut).map (fun c => passEntry a key n di l c))

theorem passEntry_length (a : Buf) (key : Key) (n di l c : Nat) (hM : ∀ j q, (key.mat.entry j q).length = n) :
    (passEntry a key n di l c).length = n := by
  unfold passEntry vmpFlat
  simp only []
  rw [List.getD_eq_getElem?_getD]
  cases h : ((List.range (passSize key di * key.mat.colsOut)).map _)[l * key.mat.colsOut + c]? with
  | none => simp
  | some p =>
    have hmem := List.mem_of_getElem? h
    simp only [List.mem_map, List.mem_range] at hmem
    obtain ⟨r, _, rfl⟩ := hmem
    simp only [Option.getD_some]
    split
    · apply sumPolys_length
      intro q hq
      simp only [List.mem_map, List.mem_range] at hq
      obtain ⟨j, _, rfl⟩ := hq
      rw [Hal.negMul_length]; exact hM _ _
    · simp

/-- the phase is additive along a conditional accumulation (the shape of `product_accum`) -/
theorem phaseRow_foldl_cond (n C : Nat) (sk : List Poly) (K : List Nat) (P : Nat → Prop) [DecidablePred P]
    (f : Nat → Nat → Poly) (init : Nat → Poly) (hf : ∀ k c, (f k c).length = n) (hi : ∀ c, (init c).length = n) :
    phaseRow sk ((List.range C).map (fun c => K.foldl (fun acc k => if P k then polyAdd acc (f k c) else acc) (init c))) =
      K.foldl (fun acc k => if P k then polyAdd acc (phaseRow sk ((List.range C).map (f k))) else acc)
        (phaseRow sk ((List.range C).map init)) := by
  induction K generalizing init with
  | nil => simp
  | cons k ks ih =>
    simp only [List.foldl_cons]
    by_cases hp : P k
    · simp only [hp, if_true]
      rw [ih (fun c => polyAdd (init c) (f k c)) (by intro c; simp [hi c, hf k c])]
      congr 1
      have e : (List.range C).map (fun c => polyAdd (init c) (f k c)) =
          List.zipWith polyAdd ((List.range C).map init) ((List.range C).map (f k)) := by
        rw [List.zipWith_map_left, List.zipWith_map_right]
        simp [List.zipWith_self]
      rw [e]
      apply phaseRow_add n
      · intro p hp'; simp at hp'; obtain ⟨c, _, rfl⟩ := hp'; exact hi c
      · intro p hp'; simp at hp'; obtain ⟨c, _, rfl⟩ := hp'; exact hf k c
      · simp
    · simp only [hp, if_false]
      exact ih init hi

/-- **`keyswitch_phase_dsize_gt1`** — phase of the `dsize > 1` product: the phase (under any secret) of limb
`l` of `gglwe_product_dft` is the phase of pass 0's product (zero on the limbs pass 0 does not write) plus the
phases of the later passes' products on the limbs they reach; each `passPhase … di l` is
`Σ_j ai_j ⋆ phase(key row j, limb l+di)` by `vmp_phase_commutes`, with `ai = aiFlatOf … di` the digit
selection — i.e. the executable product instantiates `Gadget.acc`. -/
theorem keyswitch_phase_dsize_gt1 (sk : List Poly) (res a : Buf) (key : Key) (hD : 2 ≤ key.dsize) (hres : res.WF)
    (hmax : res.maxSize = key.mat.size) (hcols : res.cols = key.mat.colsOut) (hc0 : 0 < key.mat.colsOut)
    (hn : res.n = a.n) (hM : ∀ j q, (key.mat.entry j q).length = res.n) (l : Nat) :
    phaseRow sk ((List.range res.cols).map (fun c => limbOr0 res.n ((gglweProductDft res a key).act c) l)) =
      (List.range (key.dsize - 1)).foldl
        (fun acc k => if l < passSize key (k + 1) then polyAdd acc (passPhase sk a key res.n (k + 1) l) else acc)
        (if l < passSize key 0 then passPhase sk a key res.n 0 l else zeroP res.n) := by
  have e1 : (List.range res.cols).map (fun c => limbOr0 res.n ((gglweProductDft res a key).act c) l) =
      (List.range res.cols).map (fun c => (List.range (key.dsize - 1)).foldl
        (fun acc k => if l < passSize key (k + 1) then polyAdd acc (passEntry a key res.n (k + 1) l c) else acc)
        (if l < passSize key 0 then passEntry a key res.n 0 l c else zeroP res.n)) := by
    apply List.map_congr_left
    intro c hc
    exact product_accum res a key hD hres hmax hcols hn l c (List.mem_range.mp hc)
  rw [e1, phaseRow_foldl_cond res.n res.cols sk _ (fun k => l < passSize key (k + 1))
    (fun k c => passEntry a key res.n (k + 1) l c) _ (fun k c => passEntry_length a key res.n (k + 1) l c hM)
    (by intro c; split
        · exact passEntry_length a key res.n 0 l c hM
        · simp)]
  unfold passPhase
  rw [← hcols]
  congr 1
  split
  · rfl
  · exact phaseRow_zero res.n sk _ (by intro p hp; simp at hp; exact hp.2.symm ▸ rfl) (by simp; omega)

example : ∀ l, phaseRow [] ((List.range 1).map (fun c => limbOr0 1 ((gglweProductDft AccumExample.dirty3 AccumExample.exA3 AccumExample.exKey3).act c) l)) =
    (List.range 2).foldl (fun acc k => if l < passSize AccumExample.exKey3 (k + 1) then polyAdd acc (passPhase [] AccumExample.exA3 AccumExample.exKey3 1 (k + 1) l) else acc)
      (if l < passSize AccumExample.exKey3 0 then passPhase [] AccumExample.exA3 AccumExample.exKey3 1 0 l else zeroP 1) :=
  fun l => keyswitch_phase_dsize_gt1 [] AccumExample.dirty3 AccumExample.exA3 AccumExample.exKey3 (by decide) AccumExample.dirty3_WF rfl rfl (by decide) rfl
    (entry_length AccumExample.exKey3.mat 1 rfl (by decide)) l

/-! ## No stale data: the product does not depend on the previous content of `res`

The fused `glwe_automorphism_{add,sub,sub_negate}{,_assign}` take `res_dft` from scratch without zeroing it.
Before poulpy d3c2e96 pass 0 of the `dsize ≥ 3` product left `dsize−2` limbs unwritten and the later passes
added into them (found by the scratch-garbage twins of `./check C03`, plaintext destroyed); the repaired code
zeroes those limbs, and the model (`Ks.zeroFrom` in `Ks.productStep`) with it. -/

def exKey3 : Key := AccumExample.exKey3
def exA3 : Buf := AccumExample.exA3
def dirty3 : Buf := AccumExample.dirty3

/-- non-vacuity of `product_pass_selection`: pass `di = 2` of a `dsize = 3` product selects input limb 0 -/
example : limbOr0 1 ((productStep exA3 exKey3 { res := zeroBuf 1 1 4, ai := zeroBuf 1 1 1, tmp := zeroBuf 1 1 4 } 2).ai.act 0) 0 = [1] := by
  decide

/-- `dsize = 1`: the result is independent of the previous content (the single product overwrites every limb) -/
theorem product_determined_dsize1 (r₁ r₂ a : Buf) (key : Key) (h1 : key.dsize = 1)
    (hs : r₁.n = r₂.n ∧ r₁.cols = r₂.cols ∧ r₁.size = r₂.size) (hw1 : r₁.WF) (hw2 : r₂.WF) (c : Nat) (hc : c < r₁.cols) :
    (gglweProductDft r₁ a key).act c = (gglweProductDft r₂ a key).act c := by
  unfold gglweProductDft
  rw [if_pos h1, if_pos h1]
  unfold opVmp
  rw [setFlat_act r₁ hw1 _ c hc, setFlat_act r₂ hw2 _ c (by rw [← hs.2.1]; exact hc), hs.1, hs.2.1, hs.2.2]

/-- **`product_determined`** — for every admissible digit size (`dsize ≥ 1`), `gglwe_product_dft` does not
depend on the previous content of its result buffer (two buffers of the shape the callers allocate:
`rank_out+1` columns, `size = max_size = key.size`, degree `n`): no stale scratch data can reach a
key-switched / automorphed / traced ciphertext. -/
theorem product_determined (r₁ r₂ a : Buf) (key : Key) (hD : 1 ≤ key.dsize) (h1 : r₁.WF) (h2 : r₂.WF)
    (hs1 : r₁.size = key.mat.size) (hs2 : r₂.size = key.mat.size)
    (hm1 : r₁.maxSize = key.mat.size) (hm2 : r₂.maxSize = key.mat.size)
    (hc1 : r₁.cols = key.mat.colsOut) (hc2 : r₂.cols = key.mat.colsOut)
    (hn1 : r₁.n = a.n) (hn2 : r₂.n = a.n) (c : Nat) (hc : c < r₁.cols) :
    (gglweProductDft r₁ a key).act c = (gglweProductDft r₂ a key).act c := by
  by_cases h : key.dsize = 1
  · exact product_determined_dsize1 r₁ r₂ a key h ⟨by rw [hn1, hn2], by rw [hc1, hc2], by rw [hs1, hs2]⟩ h1 h2 c hc
  · exact product_determined_gt1 r₁ r₂ a key (by omega) h1 h2 hm1 hm2 hc1 hc2 hn1 hn2 c hc

/-- the witness of the former defect: a result buffer holding garbage (`5` in limb 3) and a zeroed one now
give the same product for `dsize = 3` -/
example : (gglweProductDft dirty3 exA3 exKey3).act 0 = (gglweProductDft (zeroBuf 1 1 4) exA3 exKey3).act 0 :=
  product_determined dirty3 (zeroBuf 1 1 4) exA3 exKey3 (by decide) AccumExample.dirty3_WF (zeroBuf_WF 1 1 4)
    rfl rfl rfl rfl rfl rfl rfl rfl 0 (by decide)

/-! ## Ring packing: slot placement (layer B, over an abstract automorphism-with-rotation contract)

`Pack.Contract M` abstracts the phases of the ciphertexts: `rot k` = multiplication by `X^k` (`glwe_rotate`),
`half` = the exact halving of `glwe_rsh(1)`, `sig i` = the Galois automorphism `σ_{g_i}` applied by the
key-switching automorphism of level `i`, `t i = N/2^{i+1}`; the two hypotheses are `σ_{g_i}(X^{t_i}) = −X^{t_i}`
and `σ_{g_j}(X^{t_i}) = X^{t_i}` for `j > i` (`pack_galois_*` below: they hold for poulpy's `g_i`, `t_i`).
The executable `Ks.mergeStep` (Model/Core/Pack.lean: `pack_internal` of glwe_packing.rs and `combine` of
glwe_packer.rs) performs, at the level of phases and up to the key-switch noise and the rounding of `rsh`,
`Pack.stepBoth` / `Pack.stepLo` / `Pack.stepHi` in its three branches; this correspondence is checked by the
oracle for every subset of slots, not proved. -/

/-- both slots present: `X^t·((X^{−t}a + b)/2 − σ((X^{−t}a − b)/2)) = P(a) + X^t·P(b)`, `P(x) = x/2 + σ(x/2)` -/
theorem pack_step_both {M : Type*} [AddCommGroup M] (c : Pack.Contract M) (i : ℕ) (a b : M) :
    Pack.stepBoth c i a b = Pack.merge c i a b := Pack.stepBoth_eq_merge c i a b

/-- only the lower slot present (`rsh` + `automorphism_add_assign`): the same formula with `b = 0` -/
theorem pack_step_lo {M : Type*} [AddCommGroup M] (c : Pack.Contract M) (i : ℕ) (a : M) :
    Pack.stepLo c i a = Pack.merge c i a 0 := Pack.stepLo_eq_merge c i a

/-- only the upper slot present (rotate + `rsh` + `automorphism_sub_negate`): `X^t b/2 − σ(X^t b/2) = X^t·P(b)` — the
sign of this branch is what places the upper slot with sign `+` (`σ(X^t y) = −X^t σ(y)`); the same formula with `a = 0` -/
theorem pack_step_hi {M : Type*} [AddCommGroup M] (c : Pack.Contract M) (i : ℕ) (b : M) :
    Pack.stepHi c i b = Pack.merge c i 0 b := Pack.stepHi_eq_merge c i b

/-- **Slot placement, by induction on the levels**: after `L` levels, slot `j` holds
`Σ_{m < 2^L} X^{rotOff m} · (P_{L−1} ∘ … ∘ P_0)(f (j + idxOff m))`, where the binary digits of `m` select which of the
index distances `s i` / rotation amounts `t i` are accumulated: every input is projected by all the levels
(scale `1/2 + 1/2`), rotated to its slot, with sign `+`, and nothing else is added. -/
theorem pack_slot_placement {M : Type*} [AddCommGroup M] (c : Pack.Contract M) (s : ℕ → ℕ) (f : ℕ → M) (L j : ℕ) :
    Pack.after c s f L j = ∑ m ∈ Finset.range (2 ^ L), c.rot (Pack.rotOff c L m) (Pack.Q c L (f (j + Pack.idxOff s L m))) :=
  Pack.after_closed_form c s f L j

/-- **Placement of constants**: inputs fixed by every `σ_i` (constant polynomials — what survives the projections) land on
the coefficient equal to their slot offset (`s i = t i = N/2^{i+1}`), with sign `+` and scale `1`: the packed value of slot
`j` is `Σ_m X^{idxOff m} · f(j + idxOff m)`. -/
theorem pack_placement_of_constants {M : Type*} [AddCommGroup M] (c : Pack.Contract M) (s : ℕ → ℕ) (f : ℕ → M)
    (hs : ∀ i, (s i : ℤ) = c.t i) (hf : ∀ i J, c.sig i (f J) = f J) (L j : ℕ) :
    Pack.after c s f L j = ∑ m ∈ Finset.range (2 ^ L), c.rot (Pack.idxOff s L m : ℤ) (f (j + Pack.idxOff s L m)) :=
  Pack.placement_of_constants_poulpy c s f hs hf L j

/-- non-vacuity: in `ℚ[X]/(X²+1)` (`Pack.model`, `σ_0 = σ_{−1}`, `t_0 = 1`) packing the constants `a`, `b` of slots 0, 1 gives `a + bX` -/
example (a b : ℚ) (f : ℕ → ℚ × ℚ) (h0 : f 0 = (a, 0)) (h1 : f 1 = (b, 0)) :
    Pack.after Pack.model (fun _ => 1) f 1 0 = (a, b) := Pack.model_pack_two a b f h0 h1

/-- the contract holds for poulpy's parameters, level `0`: `g = −1`, `t = N/2`: `−N/2 ≡ N/2 + N (mod 2N)`, i.e. `σ_{−1}(X^{N/2}) = −X^{N/2}` -/
theorem pack_galois_level0 (logN : ℕ) (h : 1 ≤ logN) :
    ((2 : ℤ) ^ (logN - 1) * (-1)) % 2 ^ (logN + 1) = (2 ^ (logN - 1) + 2 ^ logN) % 2 ^ (logN + 1) :=
  PackGalois.rot_self_zero logN h

/-- level `i ≥ 1`: `g_i = 5^{2^{i−1}}`, `t_i = N/2^{i+1}`: `t_i·g_i ≡ t_i + N (mod 2N)`, i.e. `σ_{g_i}(X^{t_i}) = −X^{t_i}` -/
theorem pack_galois_level (logN i : ℕ) (h1 : 1 ≤ i) (h2 : i < logN) :
    (2 ^ (logN - 1 - i) * 5 ^ (2 ^ (i - 1))) % 2 ^ (logN + 1) = (2 ^ (logN - 1 - i) + 2 ^ logN) % 2 ^ (logN + 1) :=
  PackGalois.rot_self_pos logN i h1 h2

/-- later levels fix the earlier rotations: `t_i·g_j ≡ t_i (mod 2N)` for `i < j`, i.e. `σ_{g_j}(X^{t_i}) = X^{t_i}` -/
theorem pack_galois_later (logN i j : ℕ) (h1 : i < j) (h2 : j < logN) :
    (2 ^ (logN - 1 - i) * 5 ^ (2 ^ (j - 1))) % 2 ^ (logN + 1) = (2 ^ (logN - 1 - i)) % 2 ^ (logN + 1) :=
  PackGalois.rot_later logN i j h1 h2

example : (2 ^ (4 - 1 - 1) * 5 ^ (2 ^ (1 - 1))) % 2 ^ (4 + 1) = (2 ^ (4 - 1 - 1) + 2 ^ 4) % 2 ^ (4 + 1) := by decide
example : (2 ^ (4 - 1 - 0) * 5 ^ (2 ^ (2 - 1))) % 2 ^ (4 + 1) = (2 ^ (4 - 1 - 0)) % 2 ^ (4 + 1) := by decide

/-! ### the executed packing / trace steps are the abstract ones (data flow, under the ideal-operation contract)

`Ks.IdealOps c ph N big128 keyOf`: the phase map `ph` turns each elementary operation used by `pack_internal` / `combine` /
`glwe_trace_assign` into its noise-free meaning (`glwe_rotate` = `rot`, `glwe_rsh(1)` = `half`, add / sub exact,
`glwe_normalize_assign` = identity, the key-switching automorphisms of level `i` = `sig i`).  The contract holds exactly for the
linear operations (C02) and up to the gadget noise (`keyswitch_value`, `automorphism_phase_key`) and one rounding unit (C08) for
`rsh` and the automorphisms; what is proved here is that the *code* composes them as the abstract step does — operand order,
rotation amounts, signs. -/

/-- **`mergeStep` = `Pack.merge` on the phases**, in its three branches (both slots / only lower / only upper, an absent slot = 0) -/
theorem pack_merge_step_phase {M : Type*} [AddCommGroup M] (c : Pack.Contract M) (ph : Ct → M) (N : Nat) (big128 : Bool)
    (keyOf : Nat → Key) (H : Ks.IdealOps c ph N big128 keyOf) (i : Nat)
    (ht : c.t i = ((2 ^ (log2Nat N - i - 1) : Nat) : Int)) (a b : Option Ct) (sh r : Ct) (hab : a.isSome ∨ b.isSome)
    (h : mergeStep big128 N i (keyOf i) a b sh = .ok (some r)) :
    ph r = Pack.merge c i ((a.map ph).getD 0) ((b.map ph).getD 0) :=
  Ks.mergeStep_phase c ph N big128 keyOf H i ht a b sh r hab h

/-- the branch a sign flip would break: only the upper slot present ⇒ `X^t b/2 − σ(X^t b/2)` -/
theorem pack_merge_step_hi_phase {M : Type*} [AddCommGroup M] (c : Pack.Contract M) (ph : Ct → M) (N : Nat) (big128 : Bool)
    (keyOf : Nat → Key) (H : Ks.IdealOps c ph N big128 keyOf) (i : Nat)
    (ht : c.t i = ((2 ^ (log2Nat N - i - 1) : Nat) : Int)) (b sh r : Ct)
    (h : mergeStep big128 N i (keyOf i) none (some b) sh = .ok (some r)) : ph r = Pack.stepHi c i (ph b) :=
  Ks.mergeStep_hi_phase c ph N big128 keyOf H i ht b sh r h

/-- the contract is satisfiable (degenerate witness: the zero phase; the non-degenerate content is the tie + oracle) -/
example : Ks.IdealOps Pack.model (fun _ => (0 : ℚ × ℚ)) 8 false (fun _ => exKey3) :=
  ⟨by intros; simp, by intros; simp, by intros; simp, by intros; simp, by intros; simp, by intros; simp, by intros; simp,
   by intros; simp, by intros; simp, by intros; simp⟩

/-- **trace = composition, by induction on the levels**: the executed loop of `glwe_trace_assign` (`glwe_rsh(1)` then
`glwe_automorphism_add_assign` with the key of level `i`) maps the phase to `P_{i_k}(… P_{i_1}(φ))`, `P_i(x) = x/2 + σ_i(x/2)` -/
theorem trace_is_composition {M : Type*} [AddCommGroup M] (c : Pack.Contract M) (ph : Ct → M) (big128 : Bool) (keys : List Key)
    (hrsh : ∀ x y, glweRsh 1 x = .ok y → ph y = c.half (ph x))
    (hauto : ∀ i x key p y, traceGalois x.n i = .ok p → keys.find? (fun k => k.p == p) = some key →
      automorphismFused .add big128 (zeroBuf x.n (x.rank + 1) key.size) x.base2k x.size x.rank x key = .ok y →
      (y.n = x.n ∧ ph y = ph x + c.sig i (ph x)))
    (hn : ∀ x y, glweRsh 1 x = .ok y → y.n = x.n)
    (levels : List Nat) (x r : Ct) (h : traceLoop big128 keys x levels = .ok r) :
    ph r = Ks.traceAbs c levels (ph x) :=
  Ks.traceLoop_phase c ph big128 keys hrsh hauto hn levels x r h

example : traceLoop false [] (mkCt 4 8 []) [] = .ok (mkCt 4 8 []) := rfl

/-- **partial trace**: a phase `u + Σ v_k` with `u` fixed by the automorphisms of all the levels run and every `v_k` killed
(negated at some level after being fixed by the earlier ones: `partial_trace_kills`) is mapped to `u` — the coefficients at
multiples of the gap survive with scale 1, the others vanish -/
theorem partial_trace {M : Type*} [AddCommGroup M] (c : Pack.Contract M) (levels : List Nat) (u : M) (vs : List M)
    (hu : ∀ i ∈ levels, c.sig i u = u) (hv : ∀ v ∈ vs, Ks.traceAbs c levels v = 0) :
    Ks.traceAbs c levels (u + vs.sum) = u := Ks.traceAbs_decomp c levels u vs hu hv

theorem partial_trace_kills {M : Type*} [AddCommGroup M] (c : Pack.Contract M) (pre : List Nat) (j : Nat) (post : List Nat) (x : M)
    (hpre : ∀ i ∈ pre, c.sig i x = x) (hj : c.sig j x = -x) : Ks.traceAbs c (pre ++ j :: post) x = 0 :=
  Ks.traceAbs_killed c pre j post x hpre hj

/-- in `ℚ[X]/(X²+1)`: the trace over level 0 keeps the constant `(a, 0)` and kills `(0, b) = b·X` (`σ_{−1}(X) = −X`) -/
example (a b : ℚ) : Ks.traceAbs Pack.model [0] ((a, 0) + [((0 : ℚ), b)].sum) = (a, 0) :=
  partial_trace Pack.model [0] (a, 0) [(0, b)]
    (by intro i hi; simp at hi; subst hi; simp [Pack.model, Pack.Model.conj])
    (by intro v hv; simp at hv; subst hv
        exact partial_trace_kills Pack.model [] 0 [] (0, b) (by simp) (by simp [Pack.model, Pack.Model.conj]))

/-- Layer A: the packing tree only uses the keys of the levels it runs — with no input at all `glwe_pack` panics
(`a.keys().max().unwrap()`), and an input beyond the ring degree is refused -/
theorem pack_entry_checks (big128 : Bool) (N kb : Nat) (keys : List Key) (rb rs lg : Nat) :
    pack big128 N kb keys rb rs [] lg = .panic "other" ∧
    ∀ (j : Nat) (x : Ct), N ≤ j → pack big128 N kb keys rb rs [(j, x)] lg = .panic "assert" := by
  refine ⟨rfl, ?_⟩
  intro j x hj
  simp [pack, hj]

example : pack false 8 4 [] 4 1 [(9, mkCt 4 8 [])] 0 = .panic "assert" := (pack_entry_checks false 8 4 [] 4 1 0).2 9 _ (by decide)

/-! ## Closing round: executed noise bound, matrix-level / fused / LWE operations, packing values

* `keyswitch_executed_noise_bound`: `gadget_identity` + `gadget_error_bound` applied to the executed `gglwe_product_dft` as one corollary.
* matrix-level and fused operations (`Lemmas/KsCompose.lean`): structural theorems for all shapes (which GLWE call produces which
  ciphertext) and phase theorems with an explicit additive error term under the GLWE-level contract `phOut (KS x) = phIn x + err x`
  (the product part of that contract is `keyswitch_executed_noise_bound`, the conversions / final normalisation are C08, the automorphism
  part is `automorphism_phase_key`, the row expansion is `C04.row_expansion_identity`) — the contracts are hypotheses, stated as such.
* LWE ↔ GLWE (`Lemmas/LweIdx.lean`): exact list-level index maps.
* packing / trace / packer values for every subset (`Lemmas/PackValue.lean`), over `Pack.Contract`. -/

section Closing
open Core LweIdx AutoMul Pack Polynomial Finset
variable {M : Type*} [AddCommGroup M]

/-- **`keyswitch_executed_noise_bound`** — the executed key-switch product, every `dsize ≥ 1`, rank_in, rank_out, `dnum`, limb counts: in `ℤ[X]/(X^N+1)`
(radix `2^b`) value of the phase of `gglwe_product_dft` = `Σ_i s_i·usedVal(a_i) + err − drop − 2^{bS}·head`, with the coefficient-wise bounds
`‖err‖_∞ ≤ Σ_{i,r} ‖digit_{i,r}‖₁·‖E_{i,r}‖_∞` (`gadget_error_bound` on the executed digits `Ks.digitL`) and `‖drop‖_∞ ≤ Σ 2^{b(S−1−l)}·‖a_i[limbIdx]‖₁·‖φ_{i,r}[l+di]‖_∞`
over the dropped limbs (`szOf ≤ l`, `l+di < S`; empty for `dsize ≤ 2`). -/
theorem keyswitch_executed_noise_bound (N b : ℕ) (sk : List Poly) (res a : Buf) (key : Key) (s : ℕ → R N)
    (EL : ℕ → ℕ → Poly)
    (hD : 1 ≤ key.dsize) (hN : 0 < N) (hres : res.WF) (hmax : res.maxSize = key.mat.size) (hsize : res.size = key.mat.size)
    (hcols : res.cols = key.mat.colsOut) (hc0 : 0 < key.mat.colsOut) (hresn : res.n = N) (han : a.n = N)
    (hacols : a.cols = key.mat.colsIn) (hM : ∀ j q, (key.mat.entry j q).length = N)
    (hS : key.mat.rows * key.dsize ≤ key.mat.size)
    (hkey : ∀ i, i < key.mat.colsIn → ∀ r, r < key.mat.rows →
      Gadget.val (radix N b) key.mat.size (keyPhase N sk key.mat i r) =
        s i * radix N b ^ (key.mat.size - (r + 1) * key.dsize) + ι N (EL i r))
    (hA : ∀ c l, (limbOr0 N (a.act c) l).length = N) (hEL : ∀ i r, (EL i r).length = N) :
    (∑ l ∈ Finset.range key.mat.size,
        ι N (phaseRow sk ((List.range res.cols).map (fun c => limbOr0 N ((gglweProductDft res a key).act c) l))) *
          radix N b ^ (key.mat.size - 1 - l) =
      ∑ i ∈ Finset.range key.mat.colsIn,
          s i * Gadget.usedVal (radix N b) key.mat.size key.dsize key.mat.rows a.size (inLimb N a i)
        + ι N (errL N b a key EL) - ι N (dropL N b sk a key)
        - radix N b ^ key.mat.size * ∑ i ∈ Finset.range key.mat.colsIn,
            Gadget.head (radix N b) key.dsize key.mat.rows a.size (inLimb N a i) (keyPhase N sk key.mat i)) ∧
    normInf (errL N b a key EL) ≤
      (∑ i ∈ Finset.range key.mat.colsIn, ∑ r ∈ Finset.range key.mat.rows,
        norm1 (digitL N b a key i r) * normInf (EL i r)) ∧
    normInf (dropL N b sk a key) ≤
      ∑ i ∈ Finset.range key.mat.colsIn, ∑ di ∈ Finset.range key.dsize,
        ∑ r ∈ Finset.range (Gadget.rowsOf a.size key.dsize key.mat.rows di), ∑ l ∈ Finset.range key.mat.size,
          if Gadget.szOf key.mat.size key.dsize di ≤ l ∧ l + di < key.mat.size then
            (2 : ℤ) ^ (b * (key.mat.size - 1 - l)) *
              (norm1 (limbOr0 N (a.act i) (Gadget.limbIdx key.dsize r di)) *
                normInf (phaseRow sk (rowLimb key.mat (r * key.mat.colsIn + i) (l + di))))
          else 0 := by
  apply Ks.keyswitch_executed_noise_bound_drop <;> assumption

/-- non-vacuity: the `dsize = 3`, `N = 1` key with a garbage-filled result buffer, any radix, any secrets `sL`: the key hypothesis
is discharged by `key_error_is_defined` -/
example (b : ℕ) (sk : List Poly) (sL : ℕ → Poly) (hsL : ∀ i, (sL i).length = 1) :
    normInf (errL 1 b AccumExample.exA3 AccumExample.exKey3 (keyErrL 1 b sk AccumExample.exKey3 sL)) ≤
      ∑ i ∈ Finset.range 1, ∑ r ∈ Finset.range 1,
        norm1 (digitL 1 b AccumExample.exA3 AccumExample.exKey3 i r) * normInf (keyErrL 1 b sk AccumExample.exKey3 sL i r) :=
  (keyswitch_executed_noise_bound 1 b sk AccumExample.dirty3 AccumExample.exA3 AccumExample.exKey3 (fun i => ι 1 (sL i))
    (keyErrL 1 b sk AccumExample.exKey3 sL) (by decide) (by decide) AccumExample.dirty3_WF rfl rfl rfl (by decide) rfl rfl rfl
    (entry_length AccumExample.exKey3.mat 1 rfl (by decide)) (by decide)
    (fun i _ r _ => keyErrL_spec 1 b sk AccumExample.exKey3 sL i r (by decide) (entry_length AccumExample.exKey3.mat 1 rfl (by decide)) hsL)
    (limbOr0_act_length 1 AccumExample.exA3 (by decide))
    (fun i r => keyErrL_length 1 b sk AccumExample.exKey3 sL i r (by decide) (entry_length AccumExample.exKey3.mat 1 rfl (by decide)) hsL)).2.1

/-- the key hypothesis of `keyswitch_executed_noise_bound` is satisfiable for EVERY key and every choice of secrets `sL`: `EL := keyErrL` (the row's phase value minus `s_i·2^{b(S−(r+1)dsize)}`)
is the key error; the theorem then bounds the output error by it -/
theorem key_error_is_defined (N b : ℕ) (sk : List Poly) (key : Key) (sL : ℕ → Poly) (i r : ℕ)
    (hc0 : 0 < key.mat.colsOut) (hM : ∀ j q, (key.mat.entry j q).length = N) (hsL : ∀ i, (sL i).length = N) :
    Gadget.val (radix N b) key.mat.size (keyPhase N sk key.mat i r) =
      ι N (sL i) * radix N b ^ (key.mat.size - (r + 1) * key.dsize) + ι N (keyErrL N b sk key sL i r) := by
  apply Ks.keyErrL_spec <;> assumption

/-- size of the executed digits: `‖digit_{i,r}‖₁ ≤ Σ_{di<dsize} 2^{b·di}·‖a_i[r·dsize+dsize−1−di]‖₁` -/
theorem digit_norm_bound (N b : ℕ) (a : Buf) (key : Key) (i r : ℕ) :
    norm1 (digitL N b a key i r) ≤
      ∑ di ∈ Finset.range key.dsize,
        (2 : ℤ) ^ (b * di) * norm1 (limbOr0 N (a.act i) (Gadget.limbIdx key.dsize r di)) := by
  apply Ks.norm1_digitL_le <;> assumption

example : norm1 (digitL 1 4 AccumExample.exA3 AccumExample.exKey3 0 0) = 256 := by decide

/-- the LWE inner product is the constant coefficient of the GLWE product with the `σ_{−1}`-embedded secret (what `glwe_to_lwe_key` / `lwe_to_glwe_key` / `lwe_switching_key` encrypt under) -/
theorem lwe_inner_product_is_coeff0 {N : Nat} (s a : Poly) (hs : s.length = N) (ha : a.length = N) (hN : 0 < N) :
    (Hal.negMul (AutoMul.σ (-1) s) a).getD 0 0 = ∑ j ∈ Finset.range N, s.getD j 0 * a.getD j 0 := by
  apply LweIdx.coeff0_negMul_σ <;> assumption

example : (Hal.negMul (AutoMul.σ (-1) [1, 2, 3, 4]) [5, -6, 7, 8]).getD 0 0 = 1 * 5 + 2 * (-6) + 3 * 7 + 4 * 8 := by decide

/-- **`lwe_to_glwe` / `lwe_keyswitch` input side**: limb `i` of the embedding `Ks.lweToGlweCols` (`[b,0…]`, `[a₁…a_n,0…]`) has, under `σ_{−1}(pad s_lwe)`, a phase whose constant coefficient is the LWE phase `b + Σ a_j s_j` -/
theorem lwe_embedding_phase (N : Nat) (l : Ks.Lwe) (sLwe : Poly) (i : Nat) (hN : 0 < N) (hn : l.nLwe ≤ N)
    (hs : sLwe.length = l.nLwe) (hi : i < l.data.length) :
    (Ks.phaseRow [AutoMul.σ (-1) (Ks.padTo N sLwe)] ((Ks.lweToGlweCols N l).map (fun c => c.getD i []))).getD 0 0
      = (l.data.getD i []).getD 0 0
        + ∑ j ∈ Finset.range l.nLwe, (l.data.getD i []).getD (j + 1) 0 * sLwe.getD j 0 := by
  apply LweIdx.lweToGlwe_phase <;> assumption

example : (Ks.phaseRow [AutoMul.σ (-1) (Ks.padTo 4 [2, -3])] [Ks.padTo 4 [7], Ks.padTo 4 [5, 11]]).getD 0 0 = 7 + (5 * 2 + 11 * (-3)) := by
  decide

/-- **sample-extraction index map**: coefficient 0 of the phase of `X^{−idx}·ct` is coefficient `idx` of the phase of `ct` (`glwe_rotate(−idx)` in `lwe_from_glwe`) -/
theorem extract_index (N : Nat) (sk cs : List Poly) (idx : Nat) (hcs : Ks.AllLen N cs) (hne : cs ≠ [])
    (hidx : idx < N) :
    (Ks.phaseRow sk (cs.map (rotE (-(idx : Int))))).getD 0 0 = (Ks.phaseRow sk cs).getD idx 0 := by
  apply LweIdx.extract_index <;> assumption

example : (Ks.phaseRow [[1, 2, 3, 4]] ([[9, 8, 7, 6], [5, -6, 7, 8]].map (rotE (-3)))).getD 0 0
    = (Ks.phaseRow [[1, 2, 3, 4]] [[9, 8, 7, 6], [5, -6, 7, 8]]).getD 3 0 := by decide

/-- the same on the executed `Ks.glweRotate` (in-range digits) -/
theorem extract_index_glwe (N : Nat) (sk : List Poly) (a : Ks.Ct) (idx i : Nat)
    (hne : a.cols ≠ []) (hsz : ∀ c ∈ a.cols, c.length = a.size) (hi : i < a.size)
    (hlen : ∀ c ∈ a.cols, ∀ p ∈ c, p.length = N) (hr : ∀ c ∈ a.cols, ∀ p ∈ c, ∀ x ∈ p, InR x)
    (hidx : idx < N) :
    (Ks.phaseRow sk (rowAt (Ks.glweRotate (-(idx : Int)) a).cols i)).getD 0 0
      = (Ks.phaseRow sk (rowAt a.cols i)).getD idx 0 := by
  apply LweIdx.extract_index_glwe <;> assumption

/-- **`lwe_sample_extract`**, all shapes: limb `i < min(res.size, a.size)` is `[body_i[0]] ++ mask_i[0..n_lwe)`, the remaining limbs are zero; assertions `res.n ≤ a.n`, equal radices -/
theorem sample_extract_spec (rb rs rN : Nat) (a : Ks.Ct) (l : Ks.Lwe) (h : Ks.sampleExtract rb rs rN a = .ok l) :
    l.base2k = rb ∧ l.nLwe = rN ∧ l.data.length = rs ∧ rN ≤ a.n ∧ rb = a.base2k
    ∧ (∀ i, i < min rs a.size →
        l.data.getD i [] = ((a.cols.getD 0 []).getD i []).take 1 ++ ((a.cols.getD 1 []).getD i []).take rN)
    ∧ (∀ i, min rs a.size ≤ i → i < rs → l.data.getD i [] = List.replicate (rN + 1) 0) := by
  apply LweIdx.sampleExtract_spec <;> assumption

example : Ks.sampleExtract 17 3 2 (Ks.mkCt 17 4 [[[1, 2, 3, 4], [5, 6, 7, 8]], [[9, 10, 11, 12], [13, 14, 15, 16]]])
    = .ok { base2k := 17, nLwe := 2, data := [[1, 9, 10], [5, 13, 14], [0, 0, 0]] } := by
  rw [sampleExtract_ok 17 3 2 _ (by decide) (by decide)]
  congr 2

/-- **`glwe_to_lwe` output side**: the LWE sample extracted from `(X^{−idx}c₀, X^{−idx}c₁)` decrypts under `s_lwe` to coefficient `idx` of the GLWE phase of `(c₀, c₁)` under `σ_{−1}(pad s_lwe)` -/
theorem extract_at_index {N rN : Nat} (c0 c1 sLwe : Poly) (idx : Nat) (h0 : c0.length = N) (h1 : c1.length = N)
    (hidx : idx < N) (hr : rN ≤ N) (hs : sLwe.length = rN) :
    ((rotE (-(idx : Int)) c0).take 1 ++ (rotE (-(idx : Int)) c1).take rN).getD 0 0
        + ∑ j ∈ Finset.range rN,
            ((rotE (-(idx : Int)) c0).take 1 ++ (rotE (-(idx : Int)) c1).take rN).getD (j + 1) 0 * sLwe.getD j 0
      = (Ks.phaseRow [AutoMul.σ (-1) (Ks.padTo N sLwe)] [c0, c1]).getD idx 0 := by
  apply LweIdx.extract_at_index <;> assumption

/-- `lwe_from_glwe = lwe_sample_extract ∘ glwe_keyswitch ∘ glwe_rotate(−idx)` -/
theorem lwe_from_glwe_structure (big : Bool) (rb rs rN : Nat) (a : Ks.Ct) (idx : Nat) (key : Ks.Key) (h : rN ≤ a.n) :
    Ks.lweFromGlwe big rb rs rN a idx key
      = Ks.obind (Ks.keyswitch big rb rs 1 (if idx = 0 then a else Ks.glweRotate (-(idx : Int)) a) key)
          (Ks.sampleExtract rb rs rN) := by
  apply LweIdx.lweFromGlwe_eq <;> assumption

/-- `lwe_keyswitch = lwe_sample_extract ∘ glwe_keyswitch ∘ embedding` -/
theorem lwe_keyswitch_structure (big : Bool) (n rb rs rN : Nat) (a : Ks.Lwe) (key : Ks.Key) (h1 : rN ≤ n) (h2 : a.nLwe ≤ n) :
    Ks.lweKeyswitch big n rb rs rN a key
      = Ks.obind (Ks.keyswitch big rb rs 1 (Ks.mkCt a.base2k n (Ks.lweToGlweCols n a)) key)
          (Ks.sampleExtract rb rs rN) := by
  apply LweIdx.lweKeyswitch_eq <;> assumption

/-- `glwe_from_lwe = glwe_keyswitch ∘ embedding` (same radix; `LweIdx.glweFromLwe_eq_conv` for the cross-radix path) -/
theorem glwe_from_lwe_structure (big : Bool) (n rb rs rr : Nat) (lwe : Ks.Lwe) (key : Ks.Key) (h : lwe.nLwe ≤ n)
    (hb : lwe.base2k = key.base2k) :
    Ks.glweFromLwe big n rb rs rr lwe key
      = Ks.keyswitch big rb rs rr (Ks.mkCt key.base2k n (Ks.lweToGlweCols n lwe)) key := by
  apply LweIdx.glweFromLwe_eq_same <;> assumption

/-- **`gglwe_keyswitch` is the row-wise `glwe_keyswitch`** over the `res.dnum × rank_in` ciphertexts -/
theorem gglwe_keyswitch_rows (big128 : Bool) (rb rs rri rro rd rds : Nat) (a : Mat) (b : Key) (cts : List Ct)
    (h : gglweKeyswitch big128 rb rs rri rro rd rds a b = .ok cts) :
    cts.length = rd * rri ∧ ∀ (idx : Nat) (y : Ct), cts[idx]? = some y → ∃ x, a.cts[idx]? = some x ∧ keyswitch big128 rb rs rro x b = .ok y := by
  apply Ks.gglweKeyswitch_rows <;> assumption

/-- a 1-row switching key at `N = 1` key-switched by a 1-row key: the call succeeds (kernel evaluation of the executed model) -/
def exK1 : Key := { base2k := 4, dsize := 1, p := 1, mat := { n := 1, rows := 1, colsIn := 1, colsOut := 2, size := 2, data := [[[[1], [0]], [[1], [2]]]] } }
def exM1 : Mat := { base2k := 4, dsize := 1, dnum := 1, rankIn := 1, rankOut := 1, cts := [mkCt 4 1 [[[3]], [[1]]]] }
example : ∃ cts, gglweKeyswitch false 4 1 1 1 1 1 exM1 exK1 = .ok cts := ⟨_, rfl⟩

/-- the in-place form -/
theorem gglwe_keyswitch_assign_rows (big128 : Bool) (res : Mat) (b : Key) (cts : List Ct)
    (h : gglweKeyswitchAssign big128 res b = .ok cts) :
    cts.length = res.cts.length ∧
      ∀ (idx : Nat) (y : Ct), cts[idx]? = some y → ∃ x, res.cts[idx]? = some x ∧ keyswitch big128 x.base2k x.size x.rank x b = .ok y := by
  apply Ks.gglweKeyswitchAssign_rows <;> assumption

/-- **`gglwe_keyswitch` preserves every row's plaintext** under the GLWE contract `phOut (KS x) = phIn x + err x` (established for the product by `keyswitch_executed_noise_bound`, for the conversions/normalisation by C08) -/
theorem gglwe_keyswitch_phase (big128 : Bool) (rb rs rri rro rd rds : Nat) (a : Mat) (b : Key) (cts : List Ct)
    (phIn phOut err : Ct → M)
    (hks : ∀ x y, keyswitch big128 rb rs rro x b = .ok y → phOut y = phIn x + err x)
    (h : gglweKeyswitch big128 rb rs rri rro rd rds a b = .ok cts) :
    ∀ (idx : Nat) (y : Ct), cts[idx]? = some y → ∃ x, a.cts[idx]? = some x ∧ phOut y = phIn x + err x := by
  apply Ks.gglwe_keyswitch_phase <;> assumption

/-- the contract is satisfiable on that instance (degenerate zero phase; the quantitative instance is `keyswitch_executed_noise_bound` + the oracle) -/
example : ∀ (idx : Nat) (y : Ct), (match gglweKeyswitch false 4 1 1 1 1 1 exM1 exK1 with | .ok c => c | _ => [])[idx]? = some y →
    ∃ x, exM1.cts[idx]? = some x ∧ (fun _ : Ct => (0 : ℤ)) y = (fun _ : Ct => (0 : ℤ)) x + (fun _ : Ct => (0 : ℤ)) x :=
  gglwe_keyswitch_phase false 4 1 1 1 1 1 exM1 exK1 _ (fun _ => (0 : ℤ)) (fun _ => 0) (fun _ => 0) (fun _ _ _ => by simp) rfl

/-- `glwe_automorphism = vec_znx_automorphism(p) ∘ glwe_keyswitch` -/
theorem automorphism_is_keyswitch_then_sigma (big128 : Bool) (rb rs rr : Nat) (a : Ct) (key : Key) (y : Ct)
    (h : automorphism big128 rb rs rr a key = .ok y) :
    ∃ r, keyswitch big128 rb rs rr a key = .ok r ∧ y = ctMapCols r (vecAutomorphismAssignW w64 key.p) := by
  apply Ks.automorphism_is_ks_then_sigma <;> assumption

example : ∃ y, automorphism false 4 1 1 (mkCt 4 1 [[[3]], [[1]]]) exK1 = .ok y := ⟨_, rfl⟩

/-- **`glwe_automorphism` decrypts to `σ_p(φ) + σ_p(err)`** (contracts: key-switch with error, `automorphism_phase_key`) -/
theorem automorphism_phase_err (big128 : Bool) (rb rs rr : Nat) (a : Ct) (key : Key) (y : Ct)
    (phIn phMid phOut err : Ct → M) (sg : M →+ M)
    (hks : ∀ x r, keyswitch big128 rb rs rr x key = .ok r → phMid r = phIn x + err x)
    (hsig : ∀ r, phOut (ctMapCols r (vecAutomorphismAssignW w64 key.p)) = sg (phMid r))
    (h : automorphism big128 rb rs rr a key = .ok y) : phOut y = sg (phIn a) + sg (err a) := by
  apply Ks.automorphism_phase_err <;> assumption

/-- **`glwe_automorphism_key_automorphism`**: new Galois element `p·q % 2N`, every ciphertext is `σ_{p⁻¹} ∘ KS ∘ σ_p` of the operand's -/
theorem atk_automorphism_rows (big128 : Bool) (n rb rs rd rds : Nat) (pA : Int) (a : Mat) (key : Key) (pr : Int) (cts : List Ct)
    (h : atkAutomorphism big128 n rb rs rd rds pA a key = .ok (pr, cts)) :
    pr = mulGalois pA key.p n ∧ cts.length = rd * key.rankIn ∧
      ∃ pInv, galoisElementInv pA (cyclotomicOrder n) = .ok pInv ∧
        ∀ (idx : Nat) (y : Ct), cts[idx]? = some y → ∃ x, a.cts[idx]? = some x ∧ atkAutoCt big128 rb rs pA pInv x key = .ok y := by
  apply Ks.atkAutomorphism_rows <;> assumption

/-- … and keeps its plaintext, with the key-switch error conjugated by `σ_{p⁻¹}` -/
theorem atk_automorphism_phase (big128 : Bool) (rb rs : Nat) (p pInv : Int) (x : Ct) (key : Key) (y : Ct)
    (phA phS phQ phOut err : Ct → M) (sg sgInv : M →+ M) (hinv : ∀ m, sgInv (sg m) = m)
    (hpre : phS { x with cols := (List.range (key.rankOut + 1)).map (fun i => vecAutomorphism p x.n x.size (x.cols.getD i [])) } = sg (phA x))
    (hks : ∀ t r, keyswitch big128 rb rs key.rankOut t key = .ok r → phQ r = phS t + err t)
    (hpost : ∀ r, phOut (ctMapCols r (vecAutomorphismAssignW w64 pInv)) = sgInv (phQ r))
    (h : atkAutoCt big128 rb rs p pInv x key = .ok y) :
    phOut y = phA x + sgInv (err { x with cols := (List.range (key.rankOut + 1)).map (fun i => vecAutomorphism p x.n x.size (x.cols.getD i [])) }) := by
  apply Ks.atk_automorphism_phase <;> assumption

/-- **`ggsw_keyswitch`** (row loop over `res.dnum`, poulpy 95a5a90): column 0 of row `r` = `glwe_keyswitch` of column 0 of row `r` of the operand, then row expansion -/
theorem ggsw_keyswitch_steps (big128 : Bool) (n rb rs rd rds ab ads : Nat) (aCol0 : List Ct) (key : Key) (t : ToGGSWKey)
    (cells : List (List Col)) (h : ggswKeyswitch big128 n rb rs rd rds ab ads aCol0 key t = .ok cells) :
    ∃ col0 : List Ct, col0.length = rd ∧
      (∀ (r : Nat) (y : Ct), col0[r]? = some y → ∃ x, aCol0[r]? = some x ∧ keyswitch big128 rb rs key.rankOut x key = .ok y) ∧
      expandRows big128 n rb rs col0 t = .ok cells := by
  apply Ks.ggswKeyswitch_steps <;> assumption

example : ∃ cells, ggswKeyswitch false 1 4 1 0 1 4 1 [] exK1
    { base2k := 4, n := 1, rank := 1, dsize := 1, dnum := 1, size := 2, keys := [] } = .ok cells := ⟨_, rfl⟩

/-- **`ggsw_automorphism`**: the same with `glwe_automorphism` -/
theorem ggsw_automorphism_steps (big128 : Bool) (n rb rs rd rds ab ads : Nat) (aCol0 : List Ct) (key : Key) (t : ToGGSWKey)
    (cells : List (List Col)) (h : ggswAutomorphism big128 n rb rs rd rds ab ads aCol0 key t = .ok cells) :
    ∃ col0 : List Ct, col0.length = rd ∧
      (∀ (r : Nat) (y : Ct), col0[r]? = some y → ∃ x, aCol0[r]? = some x ∧ automorphism big128 rb rs key.rankOut x key = .ok y) ∧
      expandRows big128 n rb rs col0 t = .ok cells := by
  apply Ks.ggswAutomorphism_steps <;> assumption

/-- **every cell of the resulting GGSW**: cell `(r,0)` decrypts to `img(φ_r) + err`, cell `(r,col+1)` to `s_col⋆(img(φ_r) + err) + e_exp` (`img = id` / `σ_p`; the row-expansion contract `hexp` is `C04.row_expansion_identity`) -/
theorem ggsw_cells_phase (big128 : Bool) (n rb rs : Nat) (aCol0 col0 : List Ct) (t : ToGGSWKey) (cells : List (List Col))
    (step : Ct → Outcome Ct)
    (phIn phOut err : Ct → M) (img : M → M) (phCell : Nat → List Col → M) (mulS : Nat → M → M) (eExp : Ct → Nat → M)
    (hcol0 : ∀ (r : Nat) (y : Ct), col0[r]? = some y → ∃ x, aCol0[r]? = some x ∧ step x = .ok y)
    (hstep : ∀ x y, step x = .ok y → phOut y = img (phIn x) + err x)
    (hexp : ∀ (c : Ct) (rest : List (List Col)) (col : Nat) (cell : List Col), expandRow big128 n rb rs c.cols t = some rest → rest[col]? = some cell →
      phCell col cell = mulS col (phOut c) + eExp c col)
    (h : expandRows big128 n rb rs col0 t = .ok cells) :
    ∃ rows : List (List (List Col)), cells = rows.flatten ∧ rows.length = col0.length ∧
      ∀ (r : Nat) (row : List (List Col)), rows[r]? = some row → ∃ (x c : Ct) (rest : List (List Col)), aCol0[r]? = some x ∧ row = c.cols :: rest ∧
        phOut c = img (phIn x) + err x ∧
        ∀ (col : Nat) (cell : List Col), rest[col]? = some cell → phCell col cell = mulS col (img (phIn x) + err x) + eExp c col := by
  apply Ks.ggsw_cells_phase <;> assumption

/-- data flow of `glwe_automorphism_{add,sub,sub_negate}{,_assign}`: convert, key-switch into the accumulator, per column `σ_p`, `± a_conv`, normalise -/
theorem automorphism_fused_steps (f : Fused) (big128 : Bool) (dft0 : Buf) (rb rs rr : Nat) (a : Ct) (key : Key) (y : Ct)
    (h : automorphismFused f big128 dft0 rb rs rr a key = .ok y) :
    ∃ aConv resBig, convIn a key = .ok aConv ∧ keyswitchInternal big128 dft0 aConv key = .ok resBig ∧
      y.base2k = rb ∧ y.cols.length = rr + 1 ∧
      ∀ (i : Nat) (c : Col), y.cols[i]? = some c →
        bigNormalize big128 rb rs (f.apply big128 (bigAutomorphismAssign big128 key.p (resBig.act i)) (aConv.cols.getD i []))
          key.base2k resBig.n = .ok c := by
  apply Ks.automorphismFused_steps <;> assumption

example : ∃ y, automorphismFused .add false (zeroBuf 1 2 2) 4 1 1 (mkCt 4 1 [[[3]], [[1]]]) exK1 = .ok y := ⟨_, rfl⟩

/-- the fused forms decrypt to `σ_p(φ + err) ⊕ φ + rnd` (`⊕` = `+`, `−`, reversed `−` through `comb`) -/
theorem automorphism_fused_phase (f : Fused) (big128 : Bool) (dft0 : Buf) (rb rs rr : Nat) (a : Ct) (key : Key) (y : Ct)
    (phIn : Ct → M) (phBig : Buf → M) (phOut : Ct → M) (err rnd : Ct → M) (sg : M →+ M) (comb : M → M → M)
    (hks : ∀ x r, keyswitchInternal big128 dft0 x key = .ok r → phBig r = phIn x + err x)
    (hpipe : ∀ x r, convIn a key = .ok x → keyswitchInternal big128 dft0 x key = .ok r →
      phOut y = comb (sg (phBig r)) (phIn x) + rnd x)
    (h : automorphismFused f big128 dft0 rb rs rr a key = .ok y) :
    ∃ aConv, convIn a key = .ok aConv ∧ phOut y = comb (sg (phIn aConv) + sg (err aConv)) (phIn aConv) + rnd aConv := by
  apply Ks.automorphism_fused_phase <;> assumption

/-- **`glwe_pack`, value statement for every subset `S` of slots**: inputs `f J = u J + w J` (`u J` fixed by all levels, `w J` killed by the full projector; absent slots `u = 0`): after the `L` packing levels and the trace over levels `L…K−1` the result is `Σ_{m∈S} X^{J_m}·u_{J_m}`, `J_m = idxOff s L m` — slot `J` lands on coefficient `J` with scale 1 and sign `+`, nothing else survives -/
theorem pack_value_all_subsets (c : Contract M) (s : ℕ → ℕ) (f u w : ℕ → M) {L K : ℕ} (hLK : L ≤ K)
    (hs : ∀ i, i < L → (s i : ℤ) = c.t i)
    (hf : ∀ J, f J = u J + w J)
    (hu : ∀ J i, i < K → c.sig i (u J) = u J)
    (hw : ∀ J, Ks.traceAbs c (List.range K) (w J) = 0)
    (S : Finset ℕ) (hS : S ⊆ range (2 ^ L))
    (habs : ∀ m ∈ range (2 ^ L), m ∉ S → u (idxOff s L m) = 0) :
    Ks.traceAbs c (List.range' L (K - L)) (after c s f L 0)
      = ∑ m ∈ S, c.rot (idxOff s L m : ℤ) (u (idxOff s L m)) := by
  apply Pack.pack_value_decomp_subset <;> assumption

/-- in `ℚ[X]/(X²+1)`: slots `{0,1}`, `{0}`, `{1}` — the projector kills the `X`-parts of the inputs, the constants land on their slots -/
example (x x' : ℕ → ℚ) :
    Ks.traceAbs Pack.model (List.range' 1 (1 - 1)) (Pack.after Pack.model (fun _ => 1) (fun J => (x J, x' J)) 1 0) = (x 0, x 1) :=
  Pack.model_pack_value x x'

/-- **`glwe_trace` with start level `skip > 0`**: a phase `u + Σ w` with `u` fixed by the levels `skip ≤ i < K` and every `w` negated at some level `j ≥ skip` (fixed before) is mapped to `u` (scale 1: the code halves before every `x + σ(x)`) -/
theorem trace_value_start (c : Contract M) (skip K : ℕ) (u : M) (ws : List M)
    (hu : ∀ i, skip ≤ i → i < K → c.sig i u = u)
    (hw : ∀ w ∈ ws, ∃ j, skip ≤ j ∧ j < K ∧ (∀ i, skip ≤ i → i < j → c.sig i w = w) ∧ c.sig j w = -w) :
    Ks.traceAbs c (List.range' skip (K - skip)) (u + ws.sum) = u := by
  apply Pack.trace_value_of_negated <;> assumption

/-- **streaming `GLWEPacker` (add … add, flush), every subset `S` of arrivals**: the value after `2^m` arrivals is `Σ_{k∈S} X^{revOff k}·u_k` — arrival `k` lands rotated by the bit-reversed offset, scale 1, sign `+` -/
theorem packer_value_all_subsets (c : Contract M) (lb : ℕ) (g u : ℕ → M) (m : ℕ)
    (hQ : ∀ k, Q (shift c lb) m (g k) = u k)
    (S : Finset ℕ) (hS : S ⊆ range (2 ^ m)) (habs : ∀ k ∈ range (2 ^ m), k ∉ S → u k = 0) :
    packerVal c lb g m = ∑ k ∈ S, c.rot (revOff c lb m k) (u k) := by
  apply Pack.packer_value_subset <;> assumption

example (x x' : ℕ → ℚ) : Pack.packerVal Pack.model 0 (fun k => (x k, x' k)) 1 = (x 0, x 1) := Pack.model_packer_value x x'

/-- the packer's placement: `revOff k = Σ_{i<m} bit_i(k)·t_{lb+i}` (`t_j = N/2^{j+1}`) -/
theorem packer_offsets_bit_reversed (c : Contract M) (lb : ℕ) {m k : ℕ} (h : k < 2 ^ m) :
    revOff c lb m k = ∑ i ∈ range m, ((k / 2 ^ i % 2 : ℕ) : ℤ) * c.t (lb + i) := by
  apply Pack.revOff_eq_bits <;> assumption

/-- the same from the decomposition `g k = u k + w k` -/
theorem packer_value_decomp (c : Contract M) (lb : ℕ) (g u w : ℕ → M) (m : ℕ)
    (hg : ∀ k, g k = u k + w k)
    (hu : ∀ k i, lb ≤ i → i < lb + m → c.sig i (u k) = u k)
    (hw : ∀ k, Ks.traceAbs c (List.range' lb m) (w k) = 0) :
    packerVal c lb g m = ∑ k ∈ range (2 ^ m), c.rot (revOff c lb m k) (u k) := by
  apply Pack.packer_value_decomp <;> assumption

end Closing

/-! ## End-to-end round

* `glwe_keyswitch_decrypts`: the executed key switch including both radix conversions, kernel hypotheses discharged with C08.
* executed packing loops = abstract trees, by induction on levels / arrivals (`Lemmas/PackLoops.lean`).
* GGSW forms on the executed row expansion, without `hexp` (`Lemmas/ExpandExec.lean`; `expand_executed_identity` lives there too, since
  Props/C04 imports Props/C03 and cannot be imported from here). -/

section KsDecryptSec
open KsDec Hal Core Core.Ops C02L
variable {M : Type*} [AddCommGroup M]

/-- **`glwe_keyswitch_decrypts`** — END TO END, the executed `Ks.keyswitch` including the conversion of the input into the key radix and the final normalisation into the result radix: every rank in/out, every `dsize ≥ 1`, `dnum`, three radices in `1..62`, all limb counts, `i64` and `i128` accumulators.  Hypotheses: well-formedness of `a` and of the key, digit head-room (`Hin`, product bound `Hp`, one inequality `Hp + Hin + 2^bkey + 8 ≤ 2^62 / 2^126`), the key relation with explicit key error `EL` (and the multiple `KL` of the torus modulus a real key carries), covered regime (`the converted input has at most min(key.size, dnum·dsize) limbs`).  Conclusion: the call returns a well-formed `res` and `2^(bin·sa+bkey·S)·phase_out(res) = 2^(bout·so+bkey·S)·phase_in(a) + Err + 2^(…)·Q` in `ℤ[X]/(X^N+1)` with `‖Err‖_∞ ≤ c1·(1+‖sIn‖₁)·tol_conv + c2·Σ‖digit‖₁‖E‖_∞ + c2·dropped + c3·(1+‖skOut‖₁)·tol_norm` — all kernel hypotheses discharged with C08's unconditional value theorems. -/
theorem glwe_keyswitch_decrypts (big128 : Bool) (N bout sout rout : Nat) (a : Ks.Ct) (key : Ks.Key) (sIn skOut : List Poly)
    (EL KL : ℕ → ℕ → Poly) (Hin Hp : Int)
    (hN : 0 < N) (ha : GWF N a) (hrank : a.rank = key.rankIn) (hrout : rout = key.rankOut) (hc0 : 0 < key.mat.colsOut)
    (hD : 1 ≤ key.dsize) (hM : ∀ j q, (key.mat.entry j q).length = N) (hS : key.mat.rows * key.dsize ≤ key.mat.size)
    (hbi1 : 1 ≤ a.base2k) (hbi : a.base2k ≤ 62) (hbk1 : 1 ≤ key.base2k) (hbk : key.base2k ≤ 62) (hbo1 : 1 ≤ bout) (hbo : bout ≤ 62)
    (hIn0 : 0 ≤ Hin) (hIn : Hin + 8 ≤ 2 ^ 62) (hInB : ∀ c ∈ a.cols, ∀ l ∈ c, ∀ x ∈ l, |x| ≤ Hin)
    (hHp0 : 0 ≤ Hp) (hAcc : Hp + (Hin + 2 ^ key.base2k) + 8 ≤ 2 ^ (bitsOf big128 - 2))
    (hprod : ∀ aConv, Ks.convIn a key = .ok aConv → ∀ i, i < rout + 1 → ∀ l ∈ (prodOf rout aConv key).act i, ∀ x ∈ l, |x| ≤ Hp)
    (hs : key.mat.colsIn ≤ sIn.length)
    (hEL : ∀ i r, (EL i r).length = N) (hKL : ∀ i r, (KL i r).length = N)
    (hkey : ∀ i, i < key.mat.colsIn → ∀ r, r < key.mat.rows →
      Gadget.val (Ks.radix N key.base2k) key.mat.size (Ks.keyPhase N skOut key.mat i r) =
        Ks.ι N (sIn.getD i []) * Ks.radix N key.base2k ^ (key.mat.size - (r + 1) * key.dsize) + Ks.ι N (EL i r)
          + Ks.radix N key.base2k ^ key.mat.size * Ks.ι N (KL i r))
    (hcov1 : convSize a key ≤ key.mat.size) (hcov2 : convSize a key ≤ key.mat.rows * key.dsize) :
    ∃ res aConv, Ks.keyswitch big128 bout sout rout a key = .ok res ∧ Ks.convIn a key = .ok aConv ∧
      GWF N res ∧ res.base2k = bout ∧ res.size = sout ∧ res.rank = rout ∧
      ∃ (E1 E3 : Poly) (Q : Ks.R N), E1.length = N ∧ E3.length = N ∧
        normInf E1 ≤ (1 + snorm (min a.rank sIn.length) sIn) * C02.normTol (key.base2k * convSize a key) (a.base2k * a.size) ∧
        normInf E3 ≤ (1 + snorm (min rout skOut.length) skOut) * C02.normTol (bout * sout) (key.base2k * key.mat.size) ∧
        (2 : Ks.R N) ^ (a.base2k * a.size + key.base2k * key.mat.size) * Ks.ι N (valP bout N (phase skOut res))
          = (2 : Ks.R N) ^ (bout * sout + key.base2k * key.mat.size) * Ks.ι N (valP a.base2k N (phase sIn a))
            + Ks.ι N (ksErr (2 ^ (bout * sout + key.base2k * (key.mat.size - convSize a key))) (2 ^ (a.base2k * a.size + bout * sout))
                (2 ^ (a.base2k * a.size)) E1 (Ks.errL N key.base2k (aDftOf aConv) key EL)
                (Ks.dropL N key.base2k skOut (aDftOf aConv) key) E3)
            + (2 : Ks.R N) ^ (a.base2k * a.size + bout * sout + key.base2k * key.mat.size) * Q ∧
        normInf (ksErr (2 ^ (bout * sout + key.base2k * (key.mat.size - convSize a key))) (2 ^ (a.base2k * a.size + bout * sout))
                (2 ^ (a.base2k * a.size)) E1 (Ks.errL N key.base2k (aDftOf aConv) key EL)
                (Ks.dropL N key.base2k skOut (aDftOf aConv) key) E3)
          ≤ 2 ^ (bout * sout + key.base2k * (key.mat.size - convSize a key)) *
              ((1 + snorm (min a.rank sIn.length) sIn) * C02.normTol (key.base2k * convSize a key) (a.base2k * a.size))
            + 2 ^ (a.base2k * a.size + bout * sout) * gadgetBound N key.base2k (aDftOf aConv) key EL
            + 2 ^ (a.base2k * a.size + bout * sout) * dropBound N key.base2k skOut (aDftOf aConv) key
            + 2 ^ (a.base2k * a.size) *
              ((1 + snorm (min rout skOut.length) skOut) * C02.normTol (bout * sout) (key.base2k * key.mat.size)) :=
  KsDec.glwe_keyswitch_decrypts big128 N bout sout rout a key sIn skOut EL KL Hin Hp hN ha hrank hrout hc0 hD hM hS hbi1 hbi hbk1 hbk hbo1 hbo hIn0 hIn hInB hHp0 hAcc hprod hs hEL hKL hkey hcov1 hcov2

/-- the in-place form `glwe_keyswitch_assign` -/
theorem glwe_keyswitch_assign_decrypts (big128 : Bool) (N : Nat) (a : Ks.Ct) (key : Ks.Key) (sIn skOut : List Poly)
    (EL KL : ℕ → ℕ → Poly) (Hin Hp : Int)
    (hN : 0 < N) (ha : GWF N a) (hrank : a.rank = key.rankIn) (hrout : a.rank = key.rankOut) (hc0 : 0 < key.mat.colsOut)
    (hD : 1 ≤ key.dsize) (hM : ∀ j q, (key.mat.entry j q).length = N) (hS : key.mat.rows * key.dsize ≤ key.mat.size)
    (hbi1 : 1 ≤ a.base2k) (hbi : a.base2k ≤ 62) (hbk1 : 1 ≤ key.base2k) (hbk : key.base2k ≤ 62)
    (hIn0 : 0 ≤ Hin) (hIn : Hin + 8 ≤ 2 ^ 62) (hInB : ∀ c ∈ a.cols, ∀ l ∈ c, ∀ x ∈ l, |x| ≤ Hin)
    (hHp0 : 0 ≤ Hp) (hAcc : Hp + (Hin + 2 ^ key.base2k) + 8 ≤ 2 ^ (bitsOf big128 - 2))
    (hprod : ∀ aConv, Ks.convIn a key = .ok aConv → ∀ i, i < a.rank + 1 → ∀ l ∈ (prodOf a.rank aConv key).act i, ∀ x ∈ l, |x| ≤ Hp)
    (hs : key.mat.colsIn ≤ sIn.length)
    (hEL : ∀ i r, (EL i r).length = N) (hKL : ∀ i r, (KL i r).length = N)
    (hkey : ∀ i, i < key.mat.colsIn → ∀ r, r < key.mat.rows →
      Gadget.val (Ks.radix N key.base2k) key.mat.size (Ks.keyPhase N skOut key.mat i r) =
        Ks.ι N (sIn.getD i []) * Ks.radix N key.base2k ^ (key.mat.size - (r + 1) * key.dsize) + Ks.ι N (EL i r)
          + Ks.radix N key.base2k ^ key.mat.size * Ks.ι N (KL i r))
    (hcov1 : convSize a key ≤ key.mat.size) (hcov2 : convSize a key ≤ key.mat.rows * key.dsize) :
    ∃ res aConv, Ks.keyswitch big128 a.base2k a.size a.rank a key = .ok res ∧ Ks.convIn a key = .ok aConv ∧
      GWF N res ∧ res.base2k = a.base2k ∧ res.size = a.size ∧ res.rank = a.rank ∧
      ∃ (E1 E3 : Poly) (Q : Ks.R N), E1.length = N ∧ E3.length = N ∧
        normInf E1 ≤ (1 + snorm (min a.rank sIn.length) sIn) * C02.normTol (key.base2k * convSize a key) (a.base2k * a.size) ∧
        normInf E3 ≤ (1 + snorm (min a.rank skOut.length) skOut) * C02.normTol (a.base2k * a.size) (key.base2k * key.mat.size) ∧
        (2 : Ks.R N) ^ (a.base2k * a.size + key.base2k * key.mat.size) * Ks.ι N (valP a.base2k N (phase skOut res))
          = (2 : Ks.R N) ^ (a.base2k * a.size + key.base2k * key.mat.size) * Ks.ι N (valP a.base2k N (phase sIn a))
            + Ks.ι N (ksErr (2 ^ (a.base2k * a.size + key.base2k * (key.mat.size - convSize a key))) (2 ^ (a.base2k * a.size + a.base2k * a.size))
                (2 ^ (a.base2k * a.size)) E1 (Ks.errL N key.base2k (aDftOf aConv) key EL)
                (Ks.dropL N key.base2k skOut (aDftOf aConv) key) E3)
            + (2 : Ks.R N) ^ (a.base2k * a.size + a.base2k * a.size + key.base2k * key.mat.size) * Q ∧
        normInf (ksErr (2 ^ (a.base2k * a.size + key.base2k * (key.mat.size - convSize a key))) (2 ^ (a.base2k * a.size + a.base2k * a.size))
                (2 ^ (a.base2k * a.size)) E1 (Ks.errL N key.base2k (aDftOf aConv) key EL)
                (Ks.dropL N key.base2k skOut (aDftOf aConv) key) E3)
          ≤ 2 ^ (a.base2k * a.size + key.base2k * (key.mat.size - convSize a key)) *
              ((1 + snorm (min a.rank sIn.length) sIn) * C02.normTol (key.base2k * convSize a key) (a.base2k * a.size))
            + 2 ^ (a.base2k * a.size + a.base2k * a.size) * gadgetBound N key.base2k (aDftOf aConv) key EL
            + 2 ^ (a.base2k * a.size + a.base2k * a.size) * dropBound N key.base2k skOut (aDftOf aConv) key
            + 2 ^ (a.base2k * a.size) *
              ((1 + snorm (min a.rank skOut.length) skOut) * C02.normTol (a.base2k * a.size) (key.base2k * key.mat.size)) :=
  KsDec.glwe_keyswitch_assign_decrypts big128 N a key sIn skOut EL KL Hin Hp hN ha hrank hrout hc0 hD hM hS hbi1 hbi hbk1 hbk hIn0 hIn hInB hHp0 hAcc hprod hs hEL hKL hkey hcov1 hcov2

/-- the general regime (no covering assumption): stage relations with the used part of the input explicit -/
theorem glwe_keyswitch_value (big128 : Bool) (N bout sout rout : Nat) (a : Ks.Ct) (key : Ks.Key) (sIn skOut : List Poly)
    (EL KL : ℕ → ℕ → Poly) (Hin Hp : Int)
    (hN : 0 < N) (ha : GWF N a) (hrank : a.rank = key.rankIn) (hrout : rout = key.rankOut) (hc0 : 0 < key.mat.colsOut)
    (hD : 1 ≤ key.dsize) (hM : ∀ j q, (key.mat.entry j q).length = N) (hS : key.mat.rows * key.dsize ≤ key.mat.size)
    (hbi1 : 1 ≤ a.base2k) (hbi : a.base2k ≤ 62) (hbk1 : 1 ≤ key.base2k) (hbk : key.base2k ≤ 62) (hbo1 : 1 ≤ bout) (hbo : bout ≤ 62)
    (hIn0 : 0 ≤ Hin) (hIn : Hin + 8 ≤ 2 ^ 62) (hInB : ∀ c ∈ a.cols, ∀ l ∈ c, ∀ x ∈ l, |x| ≤ Hin)
    (hHp0 : 0 ≤ Hp) (hAcc : Hp + (Hin + 2 ^ key.base2k) + 8 ≤ 2 ^ (bitsOf big128 - 2))
    (hprod : ∀ aConv, Ks.convIn a key = .ok aConv → ∀ i, i < rout + 1 → ∀ l ∈ (prodOf rout aConv key).act i, ∀ x ∈ l, |x| ≤ Hp)
    (hEL : ∀ i r, (EL i r).length = N) (hKL : ∀ i r, (KL i r).length = N)
    (hkey : ∀ i, i < key.mat.colsIn → ∀ r, r < key.mat.rows →
      Gadget.val (Ks.radix N key.base2k) key.mat.size (Ks.keyPhase N skOut key.mat i r) =
        Ks.ι N (sIn.getD i []) * Ks.radix N key.base2k ^ (key.mat.size - (r + 1) * key.dsize) + Ks.ι N (EL i r)
          + Ks.radix N key.base2k ^ key.mat.size * Ks.ι N (KL i r)) :
    ∃ res aConv, Ks.keyswitch big128 bout sout rout a key = .ok res ∧ Ks.convIn a key = .ok aConv ∧
      GWF N aConv ∧ aConv.base2k = key.base2k ∧ aConv.rank = a.rank ∧ aConv.size = convSize a key ∧
      GWF N res ∧ res.base2k = bout ∧ res.size = sout ∧ res.rank = rout ∧
      ∃ E1 Q1 E3 Q3 : Poly, E1.length = N ∧ Q1.length = N ∧ E3.length = N ∧ Q3.length = N ∧
        normInf E1 ≤ (1 + snorm (min a.rank sIn.length) sIn) * C02.normTol (key.base2k * convSize a key) (a.base2k * a.size) ∧
        normInf E3 ≤ (1 + snorm (min rout skOut.length) skOut) * C02.normTol (bout * sout) (key.base2k * key.mat.size) ∧
        (2 : Ks.R N) ^ (a.base2k * a.size) * Ks.ι N (valP key.base2k N (phase sIn aConv))
          = (2 : Ks.R N) ^ (key.base2k * convSize a key) * Ks.ι N (valP a.base2k N (phase sIn a)) + Ks.ι N E1
            + (2 : Ks.R N) ^ (key.base2k * convSize a key + a.base2k * a.size) * Ks.ι N Q1 ∧
        (2 : Ks.R N) ^ (key.base2k * key.mat.size) * Ks.ι N (valP bout N (phase skOut res))
          = (2 : Ks.R N) ^ (bout * sout) *
              (∑ i ∈ Finset.range key.mat.colsIn, Ks.ι N (sIn.getD i []) *
                  Gadget.usedVal (Ks.radix N key.base2k) key.mat.size key.dsize key.mat.rows aConv.size (Ks.inLimb N (aDftOf aConv) i)
                + Ks.ι N (valP key.base2k N (fit N key.mat.size (aConv.cols.getD 0 [])))
                + Ks.ι N (Ks.errL N key.base2k (aDftOf aConv) key EL) - Ks.ι N (Ks.dropL N key.base2k skOut (aDftOf aConv) key))
            + Ks.ι N E3
            + (2 : Ks.R N) ^ (bout * sout + key.base2k * key.mat.size) *
                (Ks.ι N Q3 + Ks.ι N (Ks.errL N key.base2k (aDftOf aConv) key KL)
                  - ∑ i ∈ Finset.range key.mat.colsIn,
                      Gadget.head (Ks.radix N key.base2k) key.dsize key.mat.rows aConv.size (Ks.inLimb N (aDftOf aConv) i)
                        (Ks.keyPhase N skOut key.mat i)) :=
  KsDec.glwe_keyswitch_value big128 N bout sout rout a key sIn skOut EL KL Hin Hp hN ha hrank hrout hc0 hD hM hS hbi1 hbi hbk1 hbk hbo1 hbo hIn0 hIn hInB hHp0 hAcc hprod hEL hKL hkey


/-- closed instance (full discharge of every hypothesis, both accumulator widths, same-radix and cross-radix 2/4/3 inputs: the two
`example`s at the end of `Lemmas/KsDecrypt.lean`); here: the executed call on that instance succeeds -/
example : ∃ res, Ks.keyswitch false 3 2 0 KsDec.exCt Ks.AccumExample.exKey3 = .ok res := ⟨_, rfl⟩
example : ∃ res, Ks.keyswitch true 3 2 0 KsDec.exCt2 Ks.AccumExample.exKey3 = .ok res := ⟨_, rfl⟩
end KsDecryptSec

section PackLoopsSec
open Hal Core Ks Pack
variable {M : Type*} [AddCommGroup M]

/-- **the executed `glwe_pack` level loop is `Pack.after`**, by induction on the number of levels: slot `j` of the map after `L` levels has phase `Pack.after c s (phases of the inputs) L j` -/
theorem pack_levels_executed (c : Pack.Contract M) (ph : Ct → M) (N : Nat) (big128 : Bool) (keyOf : Nat → Key)
    (H : IdealOps c ph N big128 keyOf) (keys : List Key) (K : Nat) (hK : log2Nat N = K) (L : Nat) (hL : L ≤ K)
    (ht : ∀ i, i < L → c.t i = ((2 ^ (K - i - 1) : Nat) : Int))
    (hkey : ∀ i, i < L → levelKey N keys i = .ok (keyOf i))
    (m m' : SlotMap) (hm : ∀ j, 2 ^ K ≤ j → m.get j = none)
    (h : packLevels big128 N keys (List.range L) m = .ok m') :
    (∀ j, j < 2 ^ (K - L) → phMap ph m' j = Pack.after c (fun i => 2 ^ (K - 1 - i)) (phMap ph m) L j) ∧
    (∀ j, 2 ^ (K - L) ≤ j → m'.get j = none) :=
  Ks.packLevels_phase c ph N big128 keyOf H keys K hK L hL ht hkey m m' hm h

/-- the executed `Ks.pack` = level loop + trace -/
theorem pack_executed_phase (c : Pack.Contract M) (ph phOut : Ct → M) (N : Nat) (big128 : Bool) (keyOf : Nat → Key)
    (H : IdealOps c ph N big128 keyOf) (keyBase2k : Nat) (keys : List Key) (rb rs : Nat) (K : Nat)
    (hK : log2Nat N = K) (hN : N = 2 ^ K) (logGapOut : Nat)
    (ht : ∀ i, i < K - logGapOut → c.t i = ((2 ^ (K - i - 1) : Nat) : Int))
    (hkey : ∀ i, i < K - logGapOut → levelKey N keys i = .ok (keyOf i))
    (htrace : ∀ x r, trace big128 keyBase2k keys (K - logGapOut) rb rs x = .ok r →
      phOut r = traceAbs c (List.range' (K - logGapOut) (K - (K - logGapOut))) (ph x))
    (a : SlotMap) (res : Ct) (h : pack big128 N keyBase2k keys rb rs a logGapOut = .ok res) :
    phOut res = traceAbs c (List.range' (K - logGapOut) (K - (K - logGapOut)))
      (Pack.after c (fun i => 2 ^ (K - 1 - i)) (phMap ph a) (K - logGapOut) 0) :=
  Ks.pack_executed_phase c ph phOut N big128 keyOf H keyBase2k keys rb rs K hK hN logGapOut ht hkey htrace a res h

/-- **`pack_value_all_subsets` on the executed model**: the phase of the executed `glwe_pack` result is `Σ_{m∈S} X^{J_m}·u_{J_m}` for every subset `S` of slots -/
theorem pack_executed_value (c : Pack.Contract M) (ph phOut : Ct → M) (N : Nat) (big128 : Bool) (keyOf : Nat → Key)
    (H : IdealOps c ph N big128 keyOf) (keyBase2k : Nat) (keys : List Key) (rb rs : Nat) (K : Nat)
    (hK : log2Nat N = K) (hN : N = 2 ^ K) (logGapOut : Nat)
    (ht : ∀ i, i < K - logGapOut → c.t i = ((2 ^ (K - i - 1) : Nat) : Int))
    (hkey : ∀ i, i < K - logGapOut → levelKey N keys i = .ok (keyOf i))
    (htrace : ∀ x r, trace big128 keyBase2k keys (K - logGapOut) rb rs x = .ok r →
      phOut r = traceAbs c (List.range' (K - logGapOut) (K - (K - logGapOut))) (ph x))
    (a : SlotMap) (res : Ct) (h : pack big128 N keyBase2k keys rb rs a logGapOut = .ok res)
    (u w : Nat → M) (hf : ∀ J, phMap ph a J = u J + w J)
    (hu : ∀ J i, i < K → c.sig i (u J) = u J)
    (hw : ∀ J, traceAbs c (List.range K) (w J) = 0)
    (S : Finset Nat) (hS : S ⊆ Finset.range (2 ^ (K - logGapOut)))
    (habs : ∀ m ∈ Finset.range (2 ^ (K - logGapOut)), m ∉ S →
      u (Pack.idxOff (fun i => 2 ^ (K - 1 - i)) (K - logGapOut) m) = 0) :
    phOut res = ∑ m ∈ S, c.rot (Pack.idxOff (fun i => 2 ^ (K - 1 - i)) (K - logGapOut) m : ℤ)
      (u (Pack.idxOff (fun i => 2 ^ (K - 1 - i)) (K - logGapOut) m)) :=
  Ks.pack_executed_value c ph phOut N big128 keyOf H keyBase2k keys rb rs K hK hN logGapOut ht hkey htrace a res h u w hf hu hw S hS habs

/-- the accumulator chain of the streaming packer is a binary counter: one `pack_core` call (any carry-chain length) maintains the invariant `CInv` -/
theorem packer_core_executed (c : Pack.Contract M) (ph : Ct → M) (N : Nat) (big128 : Bool) (keyOf : Nat → Key)
    (H : IdealOps c ph N big128 keyOf) (keys : List Key) (K : Nat) (hK : log2Nat N = K) (lb : Nat)
    (ht : ∀ i, i < K → c.t i = ((2 ^ (K - i - 1) : Nat) : Int))
    (hkey : ∀ i, i < K → levelKey N keys i = .ok (keyOf i))
    (hcopy : ∀ r x y, Core.Ops.glweCopy N r x = .ok y → ph y = ph x)
    (hnorm : ∀ r x y, Core.Ops.glweNormalize N r x = .ok y → ph y = ph x)
    (g : Nat → M) (p : Nat → Bool)
    (accs : List Acc) (q n : Nat) (hlen : lb + q + accs.length = K) (hinv : CInv c ph lb g p q n accs)
    (x : Option Ct) (hx : optPh ph x = blk c lb g q (n * 2 ^ q)) (hxp : x.isSome = presAfter p q (n * 2 ^ q))
    (accs' : List Acc) (h : packCore big128 N keys accs x (lb + q) = .ok accs') :
    CInv c ph lb g p q (n + 1) accs' ∧ accs'.length = accs.length :=
  Ks.packCore_phase c ph N big128 keyOf H keys K hK lb ht hkey hcopy hnorm g p accs q n hlen hinv x hx hxp accs' h

/-- **the executed streaming `GLWEPacker` (adds + flush) is `Pack.packerVal`**, by induction on the arrivals -/
theorem packer_run_executed (c : Pack.Contract M) (ph phOut : Ct → M) (N : Nat) (big128 : Bool) (keyOf : Nat → Key)
    (H : IdealOps c ph N big128 keyOf) (keys : List Key) (K : Nat) (hK : log2Nat N = K) (hN : N = 2 ^ K) (lb m : Nat)
    (hm : lb + m = K)
    (ht : ∀ i, i < K → c.t i = ((2 ^ (K - i - 1) : Nat) : Int))
    (hkey : ∀ i, i < K → levelKey N keys i = .ok (keyOf i))
    (hcopy : ∀ r x y, Core.Ops.glweCopy N r x = .ok y → ph y = ph x)
    (hnorm : ∀ r x y, Core.Ops.glweNormalize N r x = .ok y → ph y = ph x)
    (hcopyOut : ∀ r x y, Core.Ops.glweCopy N r x = .ok y → phOut y = ph x)
    (hnormOut : ∀ r x y, Core.Ops.glweNormalize N r x = .ok y → phOut y = ph x)
    (accBase2k accSize rank : Nat) (inputs : Nat → Option Ct) (res r : Ct)
    (hpres : ∃ k, k < 2 ^ m ∧ (inputs k).isSome = true)
    (h : packerRun big128 N keys accBase2k accSize rank lb inputs res = .ok r) :
    phOut r = Pack.packerVal c lb (fun k => optPh ph (inputs k)) m :=
  Ks.packerRun_phase c ph phOut N big128 keyOf H keys K hK hN lb m hm ht hkey hcopy hnorm hcopyOut hnormOut accBase2k accSize rank inputs res r hpres h

/-- `packer_value_all_subsets` on the executed model -/
theorem packer_executed_value (c : Pack.Contract M) (ph phOut : Ct → M) (N : Nat) (big128 : Bool) (keyOf : Nat → Key)
    (H : IdealOps c ph N big128 keyOf) (keys : List Key) (K : Nat) (hK : log2Nat N = K) (hN : N = 2 ^ K) (lb m : Nat)
    (hm : lb + m = K)
    (ht : ∀ i, i < K → c.t i = ((2 ^ (K - i - 1) : Nat) : Int))
    (hkey : ∀ i, i < K → levelKey N keys i = .ok (keyOf i))
    (hcopy : ∀ r x y, Core.Ops.glweCopy N r x = .ok y → ph y = ph x)
    (hnorm : ∀ r x y, Core.Ops.glweNormalize N r x = .ok y → ph y = ph x)
    (hcopyOut : ∀ r x y, Core.Ops.glweCopy N r x = .ok y → phOut y = ph x)
    (hnormOut : ∀ r x y, Core.Ops.glweNormalize N r x = .ok y → phOut y = ph x)
    (accBase2k accSize rank : Nat) (inputs : Nat → Option Ct) (res r : Ct)
    (hpres : ∃ k, k < 2 ^ m ∧ (inputs k).isSome = true)
    (h : packerRun big128 N keys accBase2k accSize rank lb inputs res = .ok r)
    (u : Nat → M) (hQ : ∀ k, Pack.Q (Pack.shift c lb) m (optPh ph (inputs k)) = u k)
    (S : Finset Nat) (hS : S ⊆ Finset.range (2 ^ m)) (habs : ∀ k ∈ Finset.range (2 ^ m), k ∉ S → u k = 0) :
    phOut r = ∑ k ∈ S, c.rot (Pack.revOff c lb m k) (u k) :=
  Ks.packer_executed_value c ph phOut N big128 keyOf H keys K hK hN lb m hm ht hkey hcopy hnorm hcopyOut hnormOut accBase2k accSize rank inputs res r hpres h u hQ S hS habs

/-- the executed `Ks.trace` (copy/normalise in, level loop, copy/normalise out) maps the phase to `traceAbs` -/
theorem trace_executed_phase (c : Pack.Contract M) (ph phK phOut : Ct → M) (big128 : Bool) (keys : List Key)
    (keyBase2k skip rb rs K : Nat)
    (hrsh : ∀ x y, glweRsh 1 x = .ok y → phK y = c.half (phK x))
    (hauto : ∀ i x key p y, traceGalois x.n i = .ok p → keys.find? (fun k => k.p == p) = some key →
      automorphismFused .add big128 (zeroBuf x.n (x.rank + 1) key.size) x.base2k x.size x.rank x key = .ok y →
      (y.n = x.n ∧ phK y = phK x + c.sig i (phK x)))
    (hn : ∀ x y, glweRsh 1 x = .ok y → y.n = x.n)
    (hinC : ∀ b s x, phK (glweCopy b s x) = ph x)
    (hinN : ∀ b s x y, glweNormalize b s x = .ok y → phK y = ph x)
    (houtC : ∀ b s x, phOut (glweCopy b s x) = phK x)
    (houtN : ∀ b s x y, glweNormalize b s x = .ok y → phOut y = phK x)
    (x r : Ct) (hxn : log2Nat x.n = K) (h : trace big128 keyBase2k keys skip rb rs x = .ok r) :
    phOut r = traceAbs c (List.range' skip (K - skip)) (ph x) :=
  Ks.trace_phase c ph phK phOut big128 keys keyBase2k skip rb rs K hrsh hauto hn hinC hinN houtC houtN x r hxn h


/-- closed instances (`Lemmas/PackLoops.lean`): the executed level loop / `glwe_pack` / packer on `N = 2` data, and the contract instance -/
example : packLevels false 2 [Ks.exKeyM1] (List.range 1) [] = .ok [] := rfl
example : pack false 1 4 [] 4 1 [(0, mkCt 4 1 [[[5]], [[7]]])] 0 = .ok (mkCt 4 1 [[[5]], [[7]]]) := rfl
example : Ks.IdealOps Pack.model (fun _ => (0 : ℚ × ℚ)) 2 false (fun _ => Ks.exKeyM1) := Ks.idealOps_zero 2 false _
end PackLoopsSec

section ExpandExecSec
open Hal Core Ks C02L Core.Ops
variable {M : Type*} [AddCommGroup M]

/-- **the row-expansion identity on the executed accumulator** (the former `hexp`, now a theorem; copy of `C04.expand_executed_identity` moved to Lemmas/ExpandExec.lean so that both C03 and C04 can use it): cell `(row, c+1)` has phase value `s_c·Me + Σ_i(Σ_r digit·E − dropped − β^S·head)` -/
theorem expand_cell_value (N : Nat) (sk : List Poly) (a0 : Col) (aDft : List Col) (t : ToGGSWKey) (c : Nat)
    (β sc Me : Ks.R N) (σ : ℕ → Ks.R N) (E : ℕ → ℕ → Ks.R N)
    (hd : 1 ≤ t.dsize) (hN : 0 < N) (hn : t.n = N) (hM : ∀ j q, ((t.at c).toPMat.entry j q).length = N)
    (hS : t.dnum * t.dsize ≤ t.size) (hc : c < t.rank) (hsk : c < sk.length) (hsc : sc = ι N (sk.getD c []))
    (hP : ∀ col ∈ expandProd N aDft t c, ColWF N t.size col) (ha0 : LimbsN N a0)
    (hPs : ColSmall ((expandProd N aDft t c).getD (c + 1) [])) (ha0s : ColSmall a0)
    (hkey : ∀ i, i < t.rank → ∀ r, r < t.dnum →
      Gadget.val β t.size (Ks.keyPhase N sk (t.at c).toPMat i r) = sc * σ i * β ^ (t.size - (r + 1) * t.dsize) + E i r)
    (hrow : colValS N β t.size a0 + expandUsed N aDft t β σ = Me) :
    ∑ l ∈ Finset.range t.size,
        ι N (phaseRow sk ((expandAcc false N a0 aDft t c).map (fun col => limbOr0 N col l))) * β ^ (t.size - 1 - l)
      = sc * Me + expandErr N sk aDft t c β E :=
  Core.expand_cell_value N sk a0 aDft t c β sc Me σ E hd hN hn hM hS hc hsk hsc hP ha0 hPs ha0s hkey hrow

/-- every cell of `Ks.expandRows` (executed `ggsw_expand_row` on every row) -/
theorem ggsw_cells_value (N : Nat) (big128 : Bool) (rb rs : Nat) (col0 : List Ct) (t : ToGGSWKey) (cells : List (List Col))
    (sk : List Poly) (β : R N) (σ : ℕ → R N) (E : ℕ → ℕ → ℕ → R N)
    (hd : 1 ≤ t.dsize) (hN : 0 < N) (hn : t.n = N) (hS : t.dnum * t.dsize ≤ t.size) (hrank : t.rank ≤ sk.length)
    (hM : ∀ c, c < t.rank → ∀ j q, ((t.at c).toPMat.entry j q).length = N)
    (hkey : ∀ c, c < t.rank → ∀ i, i < t.rank → ∀ r, r < t.dnum →
      Gadget.val β t.size (keyPhase N sk (t.at c).toPMat i r)
        = ι N (sk.getD c []) * σ i * β ^ (t.size - (r + 1) * t.dsize) + E c i r)
    (h : expandRows big128 N rb rs col0 t = .ok cells) :
    cells.length = col0.length * (t.rank + 1) ∧
      ∀ (r : Nat) (y : Ct), col0[r]? = some y → RowCellsValue N big128 rb rs t cells sk β σ E r y :=
  Ks.ggsw_cells_value N big128 rb rs col0 t cells sk β σ E hd hN hn hS hrank hM hkey h

/-- **`ggsw_keyswitch`, no `hexp`**: column 0 of row `r` is the key-switch of the operand's, every other cell's accumulator has value `s_c·(row value) + explicit gadget terms` -/
theorem ggsw_keyswitch_cells_value (N : Nat) (big128 : Bool) (rb rs rd rds ab ads : Nat) (aCol0 : List Ct) (key : Key) (t : ToGGSWKey)
    (cells : List (List Col)) (sk : List Poly) (β : R N) (σ : ℕ → R N) (E : ℕ → ℕ → ℕ → R N)
    (hd : 1 ≤ t.dsize) (hN : 0 < N) (hn : t.n = N) (hS : t.dnum * t.dsize ≤ t.size) (hrank : t.rank ≤ sk.length)
    (hM : ∀ c, c < t.rank → ∀ j q, ((t.at c).toPMat.entry j q).length = N)
    (hkey : ∀ c, c < t.rank → ∀ i, i < t.rank → ∀ r, r < t.dnum →
      Gadget.val β t.size (keyPhase N sk (t.at c).toPMat i r)
        = ι N (sk.getD c []) * σ i * β ^ (t.size - (r + 1) * t.dsize) + E c i r)
    (h : ggswKeyswitch big128 N rb rs rd rds ab ads aCol0 key t = .ok cells) :
    cells.length = rd * (t.rank + 1) ∧
      ∀ r, r < rd → ∃ x y, aCol0[r]? = some x ∧ keyswitch big128 rb rs key.rankOut x key = .ok y ∧
        RowCellsValue N big128 rb rs t cells sk β σ E r y :=
  Ks.ggsw_keyswitch_cells_value N big128 rb rs rd rds ab ads aCol0 key t cells sk β σ E hd hN hn hS hrank hM hkey h

/-- **`ggsw_automorphism`, no `hexp`** -/
theorem ggsw_automorphism_cells_value (N : Nat) (big128 : Bool) (rb rs rd rds ab ads : Nat) (aCol0 : List Ct) (key : Key) (t : ToGGSWKey)
    (cells : List (List Col)) (sk : List Poly) (β : R N) (σ : ℕ → R N) (E : ℕ → ℕ → ℕ → R N)
    (hd : 1 ≤ t.dsize) (hN : 0 < N) (hn : t.n = N) (hS : t.dnum * t.dsize ≤ t.size) (hrank : t.rank ≤ sk.length)
    (hM : ∀ c, c < t.rank → ∀ j q, ((t.at c).toPMat.entry j q).length = N)
    (hkey : ∀ c, c < t.rank → ∀ i, i < t.rank → ∀ r, r < t.dnum →
      Gadget.val β t.size (keyPhase N sk (t.at c).toPMat i r)
        = ι N (sk.getD c []) * σ i * β ^ (t.size - (r + 1) * t.dsize) + E c i r)
    (h : ggswAutomorphism big128 N rb rs rd rds ab ads aCol0 key t = .ok cells) :
    cells.length = rd * (t.rank + 1) ∧
      ∀ r, r < rd → ∃ x y, aCol0[r]? = some x ∧ automorphism big128 rb rs key.rankOut x key = .ok y ∧
        RowCellsValue N big128 rb rs t cells sk β σ E r y :=
  Ks.ggsw_automorphism_cells_value N big128 rb rs rd rds ab ads aCol0 key t cells sk β σ E hd hN hn hS hrank hM hkey h

/-- in-place form -/
theorem ggsw_keyswitch_assign_cells_value (N : Nat) (big128 : Bool) (x0 : Ct) (xs : List Ct) (key : Key) (t : ToGGSWKey)
    (cells : List (List Col)) (sk : List Poly) (β : R N) (σ : ℕ → R N) (E : ℕ → ℕ → ℕ → R N)
    (hd : 1 ≤ t.dsize) (hN : 0 < N) (hn : t.n = N) (hS : t.dnum * t.dsize ≤ t.size) (hrank : t.rank ≤ sk.length)
    (hM : ∀ c, c < t.rank → ∀ j q, ((t.at c).toPMat.entry j q).length = N)
    (hkey : ∀ c, c < t.rank → ∀ i, i < t.rank → ∀ r, r < t.dnum →
      Gadget.val β t.size (keyPhase N sk (t.at c).toPMat i r)
        = ι N (sk.getD c []) * σ i * β ^ (t.size - (r + 1) * t.dsize) + E c i r)
    (h : ggswKeyswitchAssign big128 N (x0 :: xs) key t = .ok cells) :
    cells.length = (x0 :: xs).length * (t.rank + 1) ∧
      ∀ (r : Nat) (x : Ct), (x0 :: xs)[r]? = some x → ∃ y, keyswitch big128 x.base2k x.size x.rank x key = .ok y ∧
        RowCellsValue N big128 x0.base2k x0.size t cells sk β σ E r y :=
  Ks.ggsw_keyswitch_assign_cells_value N big128 x0 xs key t cells sk β σ E hd hN hn hS hrank hM hkey h

/-- in-place form -/
theorem ggsw_automorphism_assign_cells_value (N : Nat) (big128 : Bool) (x0 : Ct) (xs : List Ct) (key : Key) (t : ToGGSWKey)
    (cells : List (List Col)) (sk : List Poly) (β : R N) (σ : ℕ → R N) (E : ℕ → ℕ → ℕ → R N)
    (hd : 1 ≤ t.dsize) (hN : 0 < N) (hn : t.n = N) (hS : t.dnum * t.dsize ≤ t.size) (hrank : t.rank ≤ sk.length)
    (hM : ∀ c, c < t.rank → ∀ j q, ((t.at c).toPMat.entry j q).length = N)
    (hkey : ∀ c, c < t.rank → ∀ i, i < t.rank → ∀ r, r < t.dnum →
      Gadget.val β t.size (keyPhase N sk (t.at c).toPMat i r)
        = ι N (sk.getD c []) * σ i * β ^ (t.size - (r + 1) * t.dsize) + E c i r)
    (h : ggswAutomorphismAssign big128 N (x0 :: xs) key t = .ok cells) :
    cells.length = (x0 :: xs).length * (t.rank + 1) ∧
      ∀ (r : Nat) (x : Ct), (x0 :: xs)[r]? = some x → ∃ y, automorphism big128 x.base2k x.size x.rank x key = .ok y ∧
        RowCellsValue N big128 x0.base2k x0.size t cells sk β σ E r y :=
  Ks.ggsw_automorphism_assign_cells_value N big128 x0 xs key t cells sk β σ E hd hN hn hS hrank hM hkey h


/-- closed instance (`Lemmas/ExpandExec.lean`, key `Ks.exT'` = `C04.exT`): the pre-processing of the executed row expansion -/
example : Core.expandPre 1 4 3 (mkCt 4 1 [[[3], [1], [0]], [[2], [1], [0]]]).cols Ks.exT' = some ([[3], [1], [0]], [[[2], [1], [0]]]) := by
  decide
end ExpandExecSec

section AutoDecryptSec
open KsDec Hal Core Core.Ops C02L AutoMul
variable {M : Type*} [AddCommGroup M]

/-- **`glwe_automorphism_decrypts`** — END TO END (conversion, product, normalisation, then `vec_znx_automorphism(p)` — exact on the result's digits): the result decrypts under `sk` to `σ_p` of (the input's phase under `sk` + the key-switch error of `glwe_keyswitch_decrypts`), the error bound survives `σ_p` (`‖σ_p e‖_∞ ≤ ‖e‖_∞`); the key switches from `sk` to `σ_{p⁻¹}(sk)` (`hinv` = `autokey_secret_roundtrip`) -/
theorem glwe_automorphism_decrypts (big128 : Bool) (N bout sout rout : Nat) (a : Ks.Ct) (key : Ks.Key) (sk : List Poly) (gInv : Int)
    (EL KL : ℕ → ℕ → Poly) (Hin Hp : Int)
    (hN : 0 < N) (hg : GalOk key.p N) (hsk : Ks.AllLen N sk) (hinv : ∀ s ∈ sk, σ key.p (σ gInv s) = s)
    (ha : GWF N a) (hrank : a.rank = key.rankIn) (hrout : rout = key.rankOut) (hc0 : 0 < key.mat.colsOut)
    (hD : 1 ≤ key.dsize) (hM : ∀ j q, (key.mat.entry j q).length = N) (hS : key.mat.rows * key.dsize ≤ key.mat.size)
    (hbi1 : 1 ≤ a.base2k) (hbi : a.base2k ≤ 62) (hbk1 : 1 ≤ key.base2k) (hbk : key.base2k ≤ 62) (hbo1 : 1 ≤ bout) (hbo : bout ≤ 62)
    (hIn0 : 0 ≤ Hin) (hIn : Hin + 8 ≤ 2 ^ 62) (hInB : ∀ c ∈ a.cols, ∀ l ∈ c, ∀ x ∈ l, |x| ≤ Hin)
    (hHp0 : 0 ≤ Hp) (hAcc : Hp + (Hin + 2 ^ key.base2k) + 8 ≤ 2 ^ (bitsOf big128 - 2))
    (hprod : ∀ aConv, Ks.convIn a key = .ok aConv → ∀ i, i < rout + 1 → ∀ l ∈ (prodOf rout aConv key).act i, ∀ x ∈ l, |x| ≤ Hp)
    (hs : key.mat.colsIn ≤ sk.length)
    (hEL : ∀ i r, (EL i r).length = N) (hKL : ∀ i r, (KL i r).length = N)
    (hkey : ∀ i, i < key.mat.colsIn → ∀ r, r < key.mat.rows →
      Gadget.val (Ks.radix N key.base2k) key.mat.size (Ks.keyPhase N (sk.map (σ gInv)) key.mat i r) =
        Ks.ι N (sk.getD i []) * Ks.radix N key.base2k ^ (key.mat.size - (r + 1) * key.dsize) + Ks.ι N (EL i r)
          + Ks.radix N key.base2k ^ key.mat.size * Ks.ι N (KL i r))
    (hcov1 : convSize a key ≤ key.mat.size) (hcov2 : convSize a key ≤ key.mat.rows * key.dsize) :
    ∃ res aConv, Ks.automorphism big128 bout sout rout a key = .ok res ∧ Ks.convIn a key = .ok aConv ∧
      GWF N res ∧ res.base2k = bout ∧ res.size = sout ∧ res.rank = rout ∧
      ∃ (E1 E3 : Poly) (Q : Ks.R N), E1.length = N ∧ E3.length = N ∧
        normInf E1 ≤ (1 + snorm (min a.rank sk.length) sk) * C02.normTol (key.base2k * convSize a key) (a.base2k * a.size) ∧
        normInf E3 ≤ (1 + snorm (min rout (sk.map (σ gInv)).length) (sk.map (σ gInv))) *
          C02.normTol (bout * sout) (key.base2k * key.mat.size) ∧
        (2 : Ks.R N) ^ (a.base2k * a.size + key.base2k * key.mat.size) * Ks.ι N (valP bout N (phase sk res))
          = (2 : Ks.R N) ^ (bout * sout + key.base2k * key.mat.size) * Ks.ι N (σ key.p (valP a.base2k N (phase sk a)))
            + Ks.ι N (σ key.p (ksErr (2 ^ (bout * sout + key.base2k * (key.mat.size - convSize a key))) (2 ^ (a.base2k * a.size + bout * sout))
                (2 ^ (a.base2k * a.size)) E1 (Ks.errL N key.base2k (aDftOf aConv) key EL)
                (Ks.dropL N key.base2k (sk.map (σ gInv)) (aDftOf aConv) key) E3))
            + (2 : Ks.R N) ^ (a.base2k * a.size + bout * sout + key.base2k * key.mat.size) * Q ∧
        normInf (σ key.p (ksErr (2 ^ (bout * sout + key.base2k * (key.mat.size - convSize a key))) (2 ^ (a.base2k * a.size + bout * sout))
                (2 ^ (a.base2k * a.size)) E1 (Ks.errL N key.base2k (aDftOf aConv) key EL)
                (Ks.dropL N key.base2k (sk.map (σ gInv)) (aDftOf aConv) key) E3))
          ≤ 2 ^ (bout * sout + key.base2k * (key.mat.size - convSize a key)) *
              ((1 + snorm (min a.rank sk.length) sk) * C02.normTol (key.base2k * convSize a key) (a.base2k * a.size))
            + 2 ^ (a.base2k * a.size + bout * sout) * gadgetBound N key.base2k (aDftOf aConv) key EL
            + 2 ^ (a.base2k * a.size + bout * sout) * dropBound N key.base2k (sk.map (σ gInv)) (aDftOf aConv) key
            + 2 ^ (a.base2k * a.size) *
              ((1 + snorm (min rout (sk.map (σ gInv)).length) (sk.map (σ gInv))) *
                C02.normTol (bout * sout) (key.base2k * key.mat.size)) :=
  KsDec.glwe_automorphism_decrypts big128 N bout sout rout a key sk gInv EL KL Hin Hp hN hg hsk hinv ha hrank hrout hc0 hD hM hS hbi1 hbi hbk1 hbk hbo1 hbo hIn0 hIn hInB hHp0 hAcc hprod hs hEL hKL hkey hcov1 hcov2

/-- in-place form -/
theorem glwe_automorphism_assign_decrypts (big128 : Bool) (N : Nat) (a : Ks.Ct) (key : Ks.Key) (sk : List Poly) (gInv : Int)
    (EL KL : ℕ → ℕ → Poly) (Hin Hp : Int)
    (hN : 0 < N) (hg : GalOk key.p N) (hsk : Ks.AllLen N sk) (hinv : ∀ s ∈ sk, σ key.p (σ gInv s) = s)
    (ha : GWF N a) (hrank : a.rank = key.rankIn) (hrout : a.rank = key.rankOut) (hc0 : 0 < key.mat.colsOut)
    (hD : 1 ≤ key.dsize) (hM : ∀ j q, (key.mat.entry j q).length = N) (hS : key.mat.rows * key.dsize ≤ key.mat.size)
    (hbi1 : 1 ≤ a.base2k) (hbi : a.base2k ≤ 62) (hbk1 : 1 ≤ key.base2k) (hbk : key.base2k ≤ 62)
    (hIn0 : 0 ≤ Hin) (hIn : Hin + 8 ≤ 2 ^ 62) (hInB : ∀ c ∈ a.cols, ∀ l ∈ c, ∀ x ∈ l, |x| ≤ Hin)
    (hHp0 : 0 ≤ Hp) (hAcc : Hp + (Hin + 2 ^ key.base2k) + 8 ≤ 2 ^ (bitsOf big128 - 2))
    (hprod : ∀ aConv, Ks.convIn a key = .ok aConv → ∀ i, i < a.rank + 1 → ∀ l ∈ (prodOf a.rank aConv key).act i, ∀ x ∈ l, |x| ≤ Hp)
    (hs : key.mat.colsIn ≤ sk.length)
    (hEL : ∀ i r, (EL i r).length = N) (hKL : ∀ i r, (KL i r).length = N)
    (hkey : ∀ i, i < key.mat.colsIn → ∀ r, r < key.mat.rows →
      Gadget.val (Ks.radix N key.base2k) key.mat.size (Ks.keyPhase N (sk.map (σ gInv)) key.mat i r) =
        Ks.ι N (sk.getD i []) * Ks.radix N key.base2k ^ (key.mat.size - (r + 1) * key.dsize) + Ks.ι N (EL i r)
          + Ks.radix N key.base2k ^ key.mat.size * Ks.ι N (KL i r))
    (hcov1 : convSize a key ≤ key.mat.size) (hcov2 : convSize a key ≤ key.mat.rows * key.dsize) :
    ∃ res aConv, Ks.automorphism big128 a.base2k a.size a.rank a key = .ok res ∧ Ks.convIn a key = .ok aConv ∧
      GWF N res ∧ res.base2k = a.base2k ∧ res.size = a.size ∧ res.rank = a.rank ∧
      ∃ (E1 E3 : Poly) (Q : Ks.R N), E1.length = N ∧ E3.length = N ∧
        normInf E1 ≤ (1 + snorm (min a.rank sk.length) sk) * C02.normTol (key.base2k * convSize a key) (a.base2k * a.size) ∧
        normInf E3 ≤ (1 + snorm (min a.rank (sk.map (σ gInv)).length) (sk.map (σ gInv))) *
          C02.normTol (a.base2k * a.size) (key.base2k * key.mat.size) ∧
        (2 : Ks.R N) ^ (a.base2k * a.size + key.base2k * key.mat.size) * Ks.ι N (valP a.base2k N (phase sk res))
          = (2 : Ks.R N) ^ (a.base2k * a.size + key.base2k * key.mat.size) * Ks.ι N (σ key.p (valP a.base2k N (phase sk a)))
            + Ks.ι N (σ key.p (ksErr (2 ^ (a.base2k * a.size + key.base2k * (key.mat.size - convSize a key))) (2 ^ (a.base2k * a.size + a.base2k * a.size))
                (2 ^ (a.base2k * a.size)) E1 (Ks.errL N key.base2k (aDftOf aConv) key EL)
                (Ks.dropL N key.base2k (sk.map (σ gInv)) (aDftOf aConv) key) E3))
            + (2 : Ks.R N) ^ (a.base2k * a.size + a.base2k * a.size + key.base2k * key.mat.size) * Q ∧
        normInf (σ key.p (ksErr (2 ^ (a.base2k * a.size + key.base2k * (key.mat.size - convSize a key))) (2 ^ (a.base2k * a.size + a.base2k * a.size))
                (2 ^ (a.base2k * a.size)) E1 (Ks.errL N key.base2k (aDftOf aConv) key EL)
                (Ks.dropL N key.base2k (sk.map (σ gInv)) (aDftOf aConv) key) E3))
          ≤ 2 ^ (a.base2k * a.size + key.base2k * (key.mat.size - convSize a key)) *
              ((1 + snorm (min a.rank sk.length) sk) * C02.normTol (key.base2k * convSize a key) (a.base2k * a.size))
            + 2 ^ (a.base2k * a.size + a.base2k * a.size) * gadgetBound N key.base2k (aDftOf aConv) key EL
            + 2 ^ (a.base2k * a.size + a.base2k * a.size) * dropBound N key.base2k (sk.map (σ gInv)) (aDftOf aConv) key
            + 2 ^ (a.base2k * a.size) *
              ((1 + snorm (min a.rank (sk.map (σ gInv)).length) (sk.map (σ gInv))) *
                C02.normTol (a.base2k * a.size) (key.base2k * key.mat.size)) :=
  KsDec.glwe_automorphism_assign_decrypts big128 N a key sk gInv EL KL Hin Hp hN hg hsk hinv ha hrank hrout hc0 hD hM hS hbi1 hbi hbk1 hbk hIn0 hIn hInB hHp0 hAcc hprod hs hEL hKL hkey hcov1 hcov2

/-- **`glwe_automorphism_{add,sub,sub_negate}`** in one theorem (signs `sgA f`, `sgB f`): the result decrypts to `sgA·σ_p(φ + err_ks) + sgB·φ` + normalisation error, every shape, both accumulators, fresh (zeroed) `res_dft` -/
theorem glwe_automorphism_fused_decrypts (f : Ks.Fused) (big128 : Bool) (N bout sout rout : Nat) (a : Ks.Ct) (key : Ks.Key)
    (sk : List Poly) (gInv : Int) (EL KL : ℕ → ℕ → Poly) (Hin Hp : Int)
    (hN : 0 < N) (hg : GalOk key.p N) (hsk : Ks.AllLen N sk) (hinv : ∀ s ∈ sk, σ key.p (σ gInv s) = s)
    (ha : GWF N a) (hrank : a.rank = key.rankIn) (hrout : rout = key.rankOut) (hra : a.rank = rout) (hc0 : 0 < key.mat.colsOut)
    (hD : 1 ≤ key.dsize) (hM : ∀ j q, (key.mat.entry j q).length = N) (hS : key.mat.rows * key.dsize ≤ key.mat.size)
    (hbi1 : 1 ≤ a.base2k) (hbi : a.base2k ≤ 62) (hbk1 : 1 ≤ key.base2k) (hbk : key.base2k ≤ 62) (hbo1 : 1 ≤ bout) (hbo : bout ≤ 62)
    (hIn0 : 0 ≤ Hin) (hIn : Hin + 8 ≤ 2 ^ 62) (hInB : ∀ c ∈ a.cols, ∀ l ∈ c, ∀ x ∈ l, |x| ≤ Hin)
    (hHp0 : 0 ≤ Hp) (hAcc : Hp + 2 * (Hin + 2 ^ key.base2k) + 8 ≤ 2 ^ (bitsOf big128 - 2))
    (hprod : ∀ aConv, Ks.convIn a key = .ok aConv → ∀ i, i < rout + 1 → ∀ l ∈ (prodOf rout aConv key).act i, ∀ x ∈ l, |x| ≤ Hp)
    (hs : key.mat.colsIn ≤ sk.length)
    (hEL : ∀ i r, (EL i r).length = N) (hKL : ∀ i r, (KL i r).length = N)
    (hkey : ∀ i, i < key.mat.colsIn → ∀ r, r < key.mat.rows →
      Gadget.val (Ks.radix N key.base2k) key.mat.size (Ks.keyPhase N (sk.map (σ gInv)) key.mat i r) =
        Ks.ι N (sk.getD i []) * Ks.radix N key.base2k ^ (key.mat.size - (r + 1) * key.dsize) + Ks.ι N (EL i r)
          + Ks.radix N key.base2k ^ key.mat.size * Ks.ι N (KL i r))
    (hcov1 : convSize a key ≤ key.mat.size) (hcov2 : convSize a key ≤ key.mat.rows * key.dsize) :
    ∃ res aConv, Ks.automorphismFused f big128 (Ks.zeroBuf N (rout + 1) key.size) bout sout rout a key = .ok res ∧
      Ks.convIn a key = .ok aConv ∧ GWF N res ∧ res.base2k = bout ∧ res.size = sout ∧ res.rank = rout ∧
      ∃ (E1 E3 : Poly) (Q : Ks.R N), E1.length = N ∧ E3.length = N ∧
        normInf E1 ≤ (1 + snorm (min a.rank sk.length) sk) * C02.normTol (key.base2k * convSize a key) (a.base2k * a.size) ∧
        normInf E3 ≤ (1 + snorm (min rout sk.length) sk) * C02.normTol (bout * sout) (key.base2k * key.mat.size) ∧
        (2 : Ks.R N) ^ (a.base2k * a.size + key.base2k * key.mat.size) * Ks.ι N (valP bout N (phase sk res))
          = (sgA f : Ks.R N) *
              ((2 : Ks.R N) ^ (bout * sout + key.base2k * key.mat.size) * Ks.ι N (σ key.p (valP a.base2k N (phase sk a)))
                + Ks.ι N (σ key.p (ksErr (2 ^ (bout * sout + key.base2k * (key.mat.size - convSize a key)))
                    (2 ^ (a.base2k * a.size + bout * sout)) 0 E1 (Ks.errL N key.base2k (aDftOf aConv) key EL)
                    (Ks.dropL N key.base2k (sk.map (σ gInv)) (aDftOf aConv) key) (zeroP N))))
            + (sgB f : Ks.R N) *
              ((2 : Ks.R N) ^ (bout * sout + key.base2k * key.mat.size) * Ks.ι N (valP a.base2k N (phase sk a))
                + Ks.ι N (polyScale (2 ^ (bout * sout + key.base2k * (key.mat.size - convSize a key))) E1))
            + Ks.ι N (polyScale (2 ^ (a.base2k * a.size)) E3)
            + (2 : Ks.R N) ^ (a.base2k * a.size + bout * sout + key.base2k * key.mat.size) * Q ∧
        normInf (σ key.p (ksErr (2 ^ (bout * sout + key.base2k * (key.mat.size - convSize a key)))
                    (2 ^ (a.base2k * a.size + bout * sout)) 0 E1 (Ks.errL N key.base2k (aDftOf aConv) key EL)
                    (Ks.dropL N key.base2k (sk.map (σ gInv)) (aDftOf aConv) key) (zeroP N)))
          ≤ 2 ^ (bout * sout + key.base2k * (key.mat.size - convSize a key)) *
              ((1 + snorm (min a.rank sk.length) sk) * C02.normTol (key.base2k * convSize a key) (a.base2k * a.size))
            + 2 ^ (a.base2k * a.size + bout * sout) * gadgetBound N key.base2k (aDftOf aConv) key EL
            + 2 ^ (a.base2k * a.size + bout * sout) * dropBound N key.base2k (sk.map (σ gInv)) (aDftOf aConv) key :=
  KsDec.glwe_automorphism_fused_decrypts f big128 N bout sout rout a key sk gInv EL KL Hin Hp hN hg hsk hinv ha hrank hrout hra hc0 hD hM hS hbi1 hbi hbk1 hbk hbo1 hbo hIn0 hIn hInB hHp0 hAcc hprod hs hEL hKL hkey hcov1 hcov2

/-- `σ_p(KS(a)) + a` -/
theorem glwe_automorphism_add_decrypts (big128 : Bool) (N bout sout rout : Nat) (a : Ks.Ct) (key : Ks.Key)
    (sk : List Poly) (gInv : Int) (EL KL : ℕ → ℕ → Poly) (Hin Hp : Int)
    (hN : 0 < N) (hg : GalOk key.p N) (hsk : Ks.AllLen N sk) (hinv : ∀ s ∈ sk, σ key.p (σ gInv s) = s)
    (ha : GWF N a) (hrank : a.rank = key.rankIn) (hrout : rout = key.rankOut) (hra : a.rank = rout) (hc0 : 0 < key.mat.colsOut)
    (hD : 1 ≤ key.dsize) (hM : ∀ j q, (key.mat.entry j q).length = N) (hS : key.mat.rows * key.dsize ≤ key.mat.size)
    (hbi1 : 1 ≤ a.base2k) (hbi : a.base2k ≤ 62) (hbk1 : 1 ≤ key.base2k) (hbk : key.base2k ≤ 62) (hbo1 : 1 ≤ bout) (hbo : bout ≤ 62)
    (hIn0 : 0 ≤ Hin) (hIn : Hin + 8 ≤ 2 ^ 62) (hInB : ∀ c ∈ a.cols, ∀ l ∈ c, ∀ x ∈ l, |x| ≤ Hin)
    (hHp0 : 0 ≤ Hp) (hAcc : Hp + 2 * (Hin + 2 ^ key.base2k) + 8 ≤ 2 ^ (bitsOf big128 - 2))
    (hprod : ∀ aConv, Ks.convIn a key = .ok aConv → ∀ i, i < rout + 1 → ∀ l ∈ (prodOf rout aConv key).act i, ∀ x ∈ l, |x| ≤ Hp)
    (hs : key.mat.colsIn ≤ sk.length)
    (hEL : ∀ i r, (EL i r).length = N) (hKL : ∀ i r, (KL i r).length = N)
    (hkey : ∀ i, i < key.mat.colsIn → ∀ r, r < key.mat.rows →
      Gadget.val (Ks.radix N key.base2k) key.mat.size (Ks.keyPhase N (sk.map (σ gInv)) key.mat i r) =
        Ks.ι N (sk.getD i []) * Ks.radix N key.base2k ^ (key.mat.size - (r + 1) * key.dsize) + Ks.ι N (EL i r)
          + Ks.radix N key.base2k ^ key.mat.size * Ks.ι N (KL i r))
    (hcov1 : convSize a key ≤ key.mat.size) (hcov2 : convSize a key ≤ key.mat.rows * key.dsize) :
    ∃ res aConv, Ks.automorphismFused .add big128 (Ks.zeroBuf N (rout + 1) key.size) bout sout rout a key = .ok res ∧
      Ks.convIn a key = .ok aConv ∧ GWF N res ∧ res.base2k = bout ∧ res.size = sout ∧ res.rank = rout ∧
      ∃ (E1 E3 : Poly) (Q : Ks.R N), E1.length = N ∧ E3.length = N ∧
        normInf E1 ≤ (1 + snorm (min a.rank sk.length) sk) * C02.normTol (key.base2k * convSize a key) (a.base2k * a.size) ∧
        normInf E3 ≤ (1 + snorm (min rout sk.length) sk) * C02.normTol (bout * sout) (key.base2k * key.mat.size) ∧
        (2 : Ks.R N) ^ (a.base2k * a.size + key.base2k * key.mat.size) * Ks.ι N (valP bout N (phase sk res))
          = ((sgA .add : ℤ) : Ks.R N) *
              ((2 : Ks.R N) ^ (bout * sout + key.base2k * key.mat.size) * Ks.ι N (σ key.p (valP a.base2k N (phase sk a)))
                + Ks.ι N (σ key.p (ksErr (2 ^ (bout * sout + key.base2k * (key.mat.size - convSize a key)))
                    (2 ^ (a.base2k * a.size + bout * sout)) 0 E1 (Ks.errL N key.base2k (aDftOf aConv) key EL)
                    (Ks.dropL N key.base2k (sk.map (σ gInv)) (aDftOf aConv) key) (zeroP N))))
            + ((sgB .add : ℤ) : Ks.R N) *
              ((2 : Ks.R N) ^ (bout * sout + key.base2k * key.mat.size) * Ks.ι N (valP a.base2k N (phase sk a))
                + Ks.ι N (polyScale (2 ^ (bout * sout + key.base2k * (key.mat.size - convSize a key))) E1))
            + Ks.ι N (polyScale (2 ^ (a.base2k * a.size)) E3)
            + (2 : Ks.R N) ^ (a.base2k * a.size + bout * sout + key.base2k * key.mat.size) * Q ∧
        normInf (σ key.p (ksErr (2 ^ (bout * sout + key.base2k * (key.mat.size - convSize a key)))
                    (2 ^ (a.base2k * a.size + bout * sout)) 0 E1 (Ks.errL N key.base2k (aDftOf aConv) key EL)
                    (Ks.dropL N key.base2k (sk.map (σ gInv)) (aDftOf aConv) key) (zeroP N)))
          ≤ 2 ^ (bout * sout + key.base2k * (key.mat.size - convSize a key)) *
              ((1 + snorm (min a.rank sk.length) sk) * C02.normTol (key.base2k * convSize a key) (a.base2k * a.size))
            + 2 ^ (a.base2k * a.size + bout * sout) * gadgetBound N key.base2k (aDftOf aConv) key EL
            + 2 ^ (a.base2k * a.size + bout * sout) * dropBound N key.base2k (sk.map (σ gInv)) (aDftOf aConv) key :=
  KsDec.glwe_automorphism_add_decrypts big128 N bout sout rout a key sk gInv EL KL Hin Hp hN hg hsk hinv ha hrank hrout hra hc0 hD hM hS hbi1 hbi hbk1 hbk hbo1 hbo hIn0 hIn hInB hHp0 hAcc hprod hs hEL hKL hkey hcov1 hcov2

/-- `σ_p(KS(a)) − a` -/
theorem glwe_automorphism_sub_decrypts (big128 : Bool) (N bout sout rout : Nat) (a : Ks.Ct) (key : Ks.Key)
    (sk : List Poly) (gInv : Int) (EL KL : ℕ → ℕ → Poly) (Hin Hp : Int)
    (hN : 0 < N) (hg : GalOk key.p N) (hsk : Ks.AllLen N sk) (hinv : ∀ s ∈ sk, σ key.p (σ gInv s) = s)
    (ha : GWF N a) (hrank : a.rank = key.rankIn) (hrout : rout = key.rankOut) (hra : a.rank = rout) (hc0 : 0 < key.mat.colsOut)
    (hD : 1 ≤ key.dsize) (hM : ∀ j q, (key.mat.entry j q).length = N) (hS : key.mat.rows * key.dsize ≤ key.mat.size)
    (hbi1 : 1 ≤ a.base2k) (hbi : a.base2k ≤ 62) (hbk1 : 1 ≤ key.base2k) (hbk : key.base2k ≤ 62) (hbo1 : 1 ≤ bout) (hbo : bout ≤ 62)
    (hIn0 : 0 ≤ Hin) (hIn : Hin + 8 ≤ 2 ^ 62) (hInB : ∀ c ∈ a.cols, ∀ l ∈ c, ∀ x ∈ l, |x| ≤ Hin)
    (hHp0 : 0 ≤ Hp) (hAcc : Hp + 2 * (Hin + 2 ^ key.base2k) + 8 ≤ 2 ^ (bitsOf big128 - 2))
    (hprod : ∀ aConv, Ks.convIn a key = .ok aConv → ∀ i, i < rout + 1 → ∀ l ∈ (prodOf rout aConv key).act i, ∀ x ∈ l, |x| ≤ Hp)
    (hs : key.mat.colsIn ≤ sk.length)
    (hEL : ∀ i r, (EL i r).length = N) (hKL : ∀ i r, (KL i r).length = N)
    (hkey : ∀ i, i < key.mat.colsIn → ∀ r, r < key.mat.rows →
      Gadget.val (Ks.radix N key.base2k) key.mat.size (Ks.keyPhase N (sk.map (σ gInv)) key.mat i r) =
        Ks.ι N (sk.getD i []) * Ks.radix N key.base2k ^ (key.mat.size - (r + 1) * key.dsize) + Ks.ι N (EL i r)
          + Ks.radix N key.base2k ^ key.mat.size * Ks.ι N (KL i r))
    (hcov1 : convSize a key ≤ key.mat.size) (hcov2 : convSize a key ≤ key.mat.rows * key.dsize) :
    ∃ res aConv, Ks.automorphismFused .sub big128 (Ks.zeroBuf N (rout + 1) key.size) bout sout rout a key = .ok res ∧
      Ks.convIn a key = .ok aConv ∧ GWF N res ∧ res.base2k = bout ∧ res.size = sout ∧ res.rank = rout ∧
      ∃ (E1 E3 : Poly) (Q : Ks.R N), E1.length = N ∧ E3.length = N ∧
        normInf E1 ≤ (1 + snorm (min a.rank sk.length) sk) * C02.normTol (key.base2k * convSize a key) (a.base2k * a.size) ∧
        normInf E3 ≤ (1 + snorm (min rout sk.length) sk) * C02.normTol (bout * sout) (key.base2k * key.mat.size) ∧
        (2 : Ks.R N) ^ (a.base2k * a.size + key.base2k * key.mat.size) * Ks.ι N (valP bout N (phase sk res))
          = ((sgA .sub : ℤ) : Ks.R N) *
              ((2 : Ks.R N) ^ (bout * sout + key.base2k * key.mat.size) * Ks.ι N (σ key.p (valP a.base2k N (phase sk a)))
                + Ks.ι N (σ key.p (ksErr (2 ^ (bout * sout + key.base2k * (key.mat.size - convSize a key)))
                    (2 ^ (a.base2k * a.size + bout * sout)) 0 E1 (Ks.errL N key.base2k (aDftOf aConv) key EL)
                    (Ks.dropL N key.base2k (sk.map (σ gInv)) (aDftOf aConv) key) (zeroP N))))
            + ((sgB .sub : ℤ) : Ks.R N) *
              ((2 : Ks.R N) ^ (bout * sout + key.base2k * key.mat.size) * Ks.ι N (valP a.base2k N (phase sk a))
                + Ks.ι N (polyScale (2 ^ (bout * sout + key.base2k * (key.mat.size - convSize a key))) E1))
            + Ks.ι N (polyScale (2 ^ (a.base2k * a.size)) E3)
            + (2 : Ks.R N) ^ (a.base2k * a.size + bout * sout + key.base2k * key.mat.size) * Q ∧
        normInf (σ key.p (ksErr (2 ^ (bout * sout + key.base2k * (key.mat.size - convSize a key)))
                    (2 ^ (a.base2k * a.size + bout * sout)) 0 E1 (Ks.errL N key.base2k (aDftOf aConv) key EL)
                    (Ks.dropL N key.base2k (sk.map (σ gInv)) (aDftOf aConv) key) (zeroP N)))
          ≤ 2 ^ (bout * sout + key.base2k * (key.mat.size - convSize a key)) *
              ((1 + snorm (min a.rank sk.length) sk) * C02.normTol (key.base2k * convSize a key) (a.base2k * a.size))
            + 2 ^ (a.base2k * a.size + bout * sout) * gadgetBound N key.base2k (aDftOf aConv) key EL
            + 2 ^ (a.base2k * a.size + bout * sout) * dropBound N key.base2k (sk.map (σ gInv)) (aDftOf aConv) key :=
  KsDec.glwe_automorphism_sub_decrypts big128 N bout sout rout a key sk gInv EL KL Hin Hp hN hg hsk hinv ha hrank hrout hra hc0 hD hM hS hbi1 hbi hbk1 hbk hbo1 hbo hIn0 hIn hInB hHp0 hAcc hprod hs hEL hKL hkey hcov1 hcov2

/-- `a − σ_p(KS(a))` -/
theorem glwe_automorphism_sub_negate_decrypts (big128 : Bool) (N bout sout rout : Nat) (a : Ks.Ct) (key : Ks.Key)
    (sk : List Poly) (gInv : Int) (EL KL : ℕ → ℕ → Poly) (Hin Hp : Int)
    (hN : 0 < N) (hg : GalOk key.p N) (hsk : Ks.AllLen N sk) (hinv : ∀ s ∈ sk, σ key.p (σ gInv s) = s)
    (ha : GWF N a) (hrank : a.rank = key.rankIn) (hrout : rout = key.rankOut) (hra : a.rank = rout) (hc0 : 0 < key.mat.colsOut)
    (hD : 1 ≤ key.dsize) (hM : ∀ j q, (key.mat.entry j q).length = N) (hS : key.mat.rows * key.dsize ≤ key.mat.size)
    (hbi1 : 1 ≤ a.base2k) (hbi : a.base2k ≤ 62) (hbk1 : 1 ≤ key.base2k) (hbk : key.base2k ≤ 62) (hbo1 : 1 ≤ bout) (hbo : bout ≤ 62)
    (hIn0 : 0 ≤ Hin) (hIn : Hin + 8 ≤ 2 ^ 62) (hInB : ∀ c ∈ a.cols, ∀ l ∈ c, ∀ x ∈ l, |x| ≤ Hin)
    (hHp0 : 0 ≤ Hp) (hAcc : Hp + 2 * (Hin + 2 ^ key.base2k) + 8 ≤ 2 ^ (bitsOf big128 - 2))
    (hprod : ∀ aConv, Ks.convIn a key = .ok aConv → ∀ i, i < rout + 1 → ∀ l ∈ (prodOf rout aConv key).act i, ∀ x ∈ l, |x| ≤ Hp)
    (hs : key.mat.colsIn ≤ sk.length)
    (hEL : ∀ i r, (EL i r).length = N) (hKL : ∀ i r, (KL i r).length = N)
    (hkey : ∀ i, i < key.mat.colsIn → ∀ r, r < key.mat.rows →
      Gadget.val (Ks.radix N key.base2k) key.mat.size (Ks.keyPhase N (sk.map (σ gInv)) key.mat i r) =
        Ks.ι N (sk.getD i []) * Ks.radix N key.base2k ^ (key.mat.size - (r + 1) * key.dsize) + Ks.ι N (EL i r)
          + Ks.radix N key.base2k ^ key.mat.size * Ks.ι N (KL i r))
    (hcov1 : convSize a key ≤ key.mat.size) (hcov2 : convSize a key ≤ key.mat.rows * key.dsize) :
    ∃ res aConv, Ks.automorphismFused .subNegate big128 (Ks.zeroBuf N (rout + 1) key.size) bout sout rout a key = .ok res ∧
      Ks.convIn a key = .ok aConv ∧ GWF N res ∧ res.base2k = bout ∧ res.size = sout ∧ res.rank = rout ∧
      ∃ (E1 E3 : Poly) (Q : Ks.R N), E1.length = N ∧ E3.length = N ∧
        normInf E1 ≤ (1 + snorm (min a.rank sk.length) sk) * C02.normTol (key.base2k * convSize a key) (a.base2k * a.size) ∧
        normInf E3 ≤ (1 + snorm (min rout sk.length) sk) * C02.normTol (bout * sout) (key.base2k * key.mat.size) ∧
        (2 : Ks.R N) ^ (a.base2k * a.size + key.base2k * key.mat.size) * Ks.ι N (valP bout N (phase sk res))
          = ((sgA .subNegate : ℤ) : Ks.R N) *
              ((2 : Ks.R N) ^ (bout * sout + key.base2k * key.mat.size) * Ks.ι N (σ key.p (valP a.base2k N (phase sk a)))
                + Ks.ι N (σ key.p (ksErr (2 ^ (bout * sout + key.base2k * (key.mat.size - convSize a key)))
                    (2 ^ (a.base2k * a.size + bout * sout)) 0 E1 (Ks.errL N key.base2k (aDftOf aConv) key EL)
                    (Ks.dropL N key.base2k (sk.map (σ gInv)) (aDftOf aConv) key) (zeroP N))))
            + ((sgB .subNegate : ℤ) : Ks.R N) *
              ((2 : Ks.R N) ^ (bout * sout + key.base2k * key.mat.size) * Ks.ι N (valP a.base2k N (phase sk a))
                + Ks.ι N (polyScale (2 ^ (bout * sout + key.base2k * (key.mat.size - convSize a key))) E1))
            + Ks.ι N (polyScale (2 ^ (a.base2k * a.size)) E3)
            + (2 : Ks.R N) ^ (a.base2k * a.size + bout * sout + key.base2k * key.mat.size) * Q ∧
        normInf (σ key.p (ksErr (2 ^ (bout * sout + key.base2k * (key.mat.size - convSize a key)))
                    (2 ^ (a.base2k * a.size + bout * sout)) 0 E1 (Ks.errL N key.base2k (aDftOf aConv) key EL)
                    (Ks.dropL N key.base2k (sk.map (σ gInv)) (aDftOf aConv) key) (zeroP N)))
          ≤ 2 ^ (bout * sout + key.base2k * (key.mat.size - convSize a key)) *
              ((1 + snorm (min a.rank sk.length) sk) * C02.normTol (key.base2k * convSize a key) (a.base2k * a.size))
            + 2 ^ (a.base2k * a.size + bout * sout) * gadgetBound N key.base2k (aDftOf aConv) key EL
            + 2 ^ (a.base2k * a.size + bout * sout) * dropBound N key.base2k (sk.map (σ gInv)) (aDftOf aConv) key :=
  KsDec.glwe_automorphism_sub_negate_decrypts big128 N bout sout rout a key sk gInv EL KL Hin Hp hN hg hsk hinv ha hrank hrout hra hc0 hD hM hS hbi1 hbi hbk1 hbk hbo1 hbo hIn0 hIn hInB hHp0 hAcc hprod hs hEL hKL hkey hcov1 hcov2

/-- the in-place forms -/
theorem glwe_automorphism_fused_assign_decrypts (f : Ks.Fused) (big128 : Bool) (N : Nat) (a : Ks.Ct) (key : Ks.Key)
    (sk : List Poly) (gInv : Int) (EL KL : ℕ → ℕ → Poly) (Hin Hp : Int)
    (hN : 0 < N) (hg : GalOk key.p N) (hsk : Ks.AllLen N sk) (hinv : ∀ s ∈ sk, σ key.p (σ gInv s) = s)
    (ha : GWF N a) (hrank : a.rank = key.rankIn) (hrout : a.rank = key.rankOut) (hc0 : 0 < key.mat.colsOut)
    (hD : 1 ≤ key.dsize) (hM : ∀ j q, (key.mat.entry j q).length = N) (hS : key.mat.rows * key.dsize ≤ key.mat.size)
    (hbi1 : 1 ≤ a.base2k) (hbi : a.base2k ≤ 62) (hbk1 : 1 ≤ key.base2k) (hbk : key.base2k ≤ 62)
    (hIn0 : 0 ≤ Hin) (hIn : Hin + 8 ≤ 2 ^ 62) (hInB : ∀ c ∈ a.cols, ∀ l ∈ c, ∀ x ∈ l, |x| ≤ Hin)
    (hHp0 : 0 ≤ Hp) (hAcc : Hp + 2 * (Hin + 2 ^ key.base2k) + 8 ≤ 2 ^ (bitsOf big128 - 2))
    (hprod : ∀ aConv, Ks.convIn a key = .ok aConv → ∀ i, i < a.rank + 1 → ∀ l ∈ (prodOf a.rank aConv key).act i, ∀ x ∈ l, |x| ≤ Hp)
    (hs : key.mat.colsIn ≤ sk.length)
    (hEL : ∀ i r, (EL i r).length = N) (hKL : ∀ i r, (KL i r).length = N)
    (hkey : ∀ i, i < key.mat.colsIn → ∀ r, r < key.mat.rows →
      Gadget.val (Ks.radix N key.base2k) key.mat.size (Ks.keyPhase N (sk.map (σ gInv)) key.mat i r) =
        Ks.ι N (sk.getD i []) * Ks.radix N key.base2k ^ (key.mat.size - (r + 1) * key.dsize) + Ks.ι N (EL i r)
          + Ks.radix N key.base2k ^ key.mat.size * Ks.ι N (KL i r))
    (hcov1 : convSize a key ≤ key.mat.size) (hcov2 : convSize a key ≤ key.mat.rows * key.dsize) :
    ∃ res aConv, Ks.automorphismFused f big128 (Ks.zeroBuf N (a.rank + 1) key.size) a.base2k a.size a.rank a key = .ok res ∧
      Ks.convIn a key = .ok aConv ∧ GWF N res ∧ res.base2k = a.base2k ∧ res.size = a.size ∧ res.rank = a.rank ∧
      ∃ (E1 E3 : Poly) (Q : Ks.R N), E1.length = N ∧ E3.length = N ∧
        normInf E1 ≤ (1 + snorm (min a.rank sk.length) sk) * C02.normTol (key.base2k * convSize a key) (a.base2k * a.size) ∧
        normInf E3 ≤ (1 + snorm (min a.rank sk.length) sk) * C02.normTol (a.base2k * a.size) (key.base2k * key.mat.size) ∧
        (2 : Ks.R N) ^ (a.base2k * a.size + key.base2k * key.mat.size) * Ks.ι N (valP a.base2k N (phase sk res))
          = (sgA f : Ks.R N) *
              ((2 : Ks.R N) ^ (a.base2k * a.size + key.base2k * key.mat.size) * Ks.ι N (σ key.p (valP a.base2k N (phase sk a)))
                + Ks.ι N (σ key.p (ksErr (2 ^ (a.base2k * a.size + key.base2k * (key.mat.size - convSize a key)))
                    (2 ^ (a.base2k * a.size + a.base2k * a.size)) 0 E1 (Ks.errL N key.base2k (aDftOf aConv) key EL)
                    (Ks.dropL N key.base2k (sk.map (σ gInv)) (aDftOf aConv) key) (zeroP N))))
            + (sgB f : Ks.R N) *
              ((2 : Ks.R N) ^ (a.base2k * a.size + key.base2k * key.mat.size) * Ks.ι N (valP a.base2k N (phase sk a))
                + Ks.ι N (polyScale (2 ^ (a.base2k * a.size + key.base2k * (key.mat.size - convSize a key))) E1))
            + Ks.ι N (polyScale (2 ^ (a.base2k * a.size)) E3)
            + (2 : Ks.R N) ^ (a.base2k * a.size + a.base2k * a.size + key.base2k * key.mat.size) * Q ∧
        normInf (σ key.p (ksErr (2 ^ (a.base2k * a.size + key.base2k * (key.mat.size - convSize a key)))
                    (2 ^ (a.base2k * a.size + a.base2k * a.size)) 0 E1 (Ks.errL N key.base2k (aDftOf aConv) key EL)
                    (Ks.dropL N key.base2k (sk.map (σ gInv)) (aDftOf aConv) key) (zeroP N)))
          ≤ 2 ^ (a.base2k * a.size + key.base2k * (key.mat.size - convSize a key)) *
              ((1 + snorm (min a.rank sk.length) sk) * C02.normTol (key.base2k * convSize a key) (a.base2k * a.size))
            + 2 ^ (a.base2k * a.size + a.base2k * a.size) * gadgetBound N key.base2k (aDftOf aConv) key EL
            + 2 ^ (a.base2k * a.size + a.base2k * a.size) * dropBound N key.base2k (sk.map (σ gInv)) (aDftOf aConv) key :=
  KsDec.glwe_automorphism_fused_assign_decrypts f big128 N a key sk gInv EL KL Hin Hp hN hg hsk hinv ha hrank hrout hc0 hD hM hS hbi1 hbi hbk1 hbk hIn0 hIn hInB hHp0 hAcc hprod hs hEL hKL hkey hcov1 hcov2


/-- closed instances with every hypothesis discharged (`N = 1`, `g = 1`; `N = 2`, `g = 3 ≡ −1`, all three fused forms, both accumulator
widths): the `example`s at the end of `Lemmas/AutoDecrypt.lean`; here the executed calls on the `N = 1` instance -/
example : ∃ res, Ks.automorphism false 3 2 0 KsDec.exCt Ks.AccumExample.exKey3 = .ok res := ⟨_, rfl⟩
end AutoDecryptSec

section LweDecryptSec
open KsDec Hal Core Core.Ops C02L AutoMul LweIdx
variable {M : Type*} [AddCommGroup M]

/-- `glwe_keyswitch_decrypts` read coefficient by coefficient (integers: `2^(…)·val_out[t] = 2^(…)·val_in[t] + e + 2^(…)·q`, `|e| ≤ ksBound`) -/
theorem glwe_keyswitch_decrypts_coeff (big128 : Bool) (N bout sout rout : Nat) (a : Ks.Ct) (key : Ks.Key) (sIn skOut : List Poly)
    (EL KL : ℕ → ℕ → Poly) (Hin Hp : Int) (h : KsSide big128 N bout sout rout a key sIn skOut EL KL Hin Hp)
    (ha : GWF N a) (hInB : ∀ c ∈ a.cols, ∀ l ∈ c, ∀ x ∈ l, |x| ≤ Hin) :
    ∃ res aConv, Ks.keyswitch big128 bout sout rout a key = .ok res ∧ Ks.convIn a key = .ok aConv ∧
      GWF N res ∧ res.base2k = bout ∧ res.size = sout ∧ res.rank = rout ∧
      ∀ t, t < N → ∃ e q : Int,
        2 ^ (a.base2k * a.size + key.base2k * key.mat.size) * valCoeff bout (phase skOut res) t
          = 2 ^ (bout * sout + key.base2k * key.mat.size) * valCoeff a.base2k (phase sIn a) t + e
            + 2 ^ (a.base2k * a.size + bout * sout + key.base2k * key.mat.size) * q ∧
        |e| ≤ ksBound N bout sout rout a aConv key sIn skOut EL :=
  KsDec.glwe_keyswitch_decrypts_coeff big128 N bout sout rout a key sIn skOut EL KL Hin Hp h ha hInB

/-- **`lwe_keyswitch_decrypts`** — END TO END: the LWE phase value of the result under `sOut` is the LWE phase value of the input under `sIn` plus `e`, `|e| ≤ ksBound` (embedding `[b,0…]`,`[a…,0…]` under the `σ_{−1}` secrets, GLWE key switch, sample extraction) -/
theorem lwe_keyswitch_decrypts (big128 : Bool) (n bout sout nOut : Nat) (a : Ks.Lwe) (key : Ks.Key) (sIn sOut : Poly)
    (EL KL : ℕ → ℕ → Poly) (Hin Hp : Int)
    (h : KsSide big128 n bout sout 1 (lweEmb n a) key (embSk n sIn) (embSk n sOut) EL KL Hin Hp)
    (hInB : ∀ limb ∈ a.data, ∀ x ∈ limb, |x| ≤ Hin)
    (hnIn : a.nLwe ≤ n) (hnOut : nOut ≤ n) (hsIn : sIn.length = a.nLwe) (hsOut : sOut.length = nOut) :
    ∃ res aConv, Ks.lweKeyswitch big128 n bout sout nOut a key = .ok res ∧ Ks.convIn (lweEmb n a) key = .ok aConv ∧
      res.base2k = bout ∧ res.nLwe = nOut ∧ res.data.length = sout ∧
      ∃ e q : Int,
        2 ^ (a.base2k * a.data.length + key.base2k * key.mat.size) * lwePhaseVal bout res sOut
          = 2 ^ (bout * sout + key.base2k * key.mat.size) * lwePhaseVal a.base2k a sIn + e
            + 2 ^ (a.base2k * a.data.length + bout * sout + key.base2k * key.mat.size) * q ∧
        |e| ≤ ksBound n bout sout 1 (lweEmb n a) aConv key (embSk n sIn) (embSk n sOut) EL :=
  KsDec.lwe_keyswitch_decrypts big128 n bout sout nOut a key sIn sOut EL KL Hin Hp h hInB hnIn hnOut hsIn hsOut

/-- **`glwe_to_lwe_decrypts`** (`lwe_from_glwe`, every extraction index): LWE phase of the result = coefficient `idx` of the GLWE phase of the input + `e` -/
theorem glwe_to_lwe_decrypts (big128 : Bool) (N bout sout nOut : Nat) (a : Ks.Ct) (idx : Nat) (key : Ks.Key) (sIn : List Poly) (sOut : Poly)
    (EL KL : ℕ → ℕ → Poly) (Hin Hp : Int)
    (h : KsSide big128 N bout sout 1 (rotIn a idx) key sIn (embSk N sOut) EL KL Hin Hp)
    (ha : GWF N a) (hInB : ∀ c ∈ a.cols, ∀ l ∈ c, ∀ x ∈ l, |x| ≤ Hin) (hidx : idx < N)
    (hnOut : nOut ≤ N) (hsOut : sOut.length = nOut) :
    ∃ res aConv, Ks.lweFromGlwe big128 bout sout nOut a idx key = .ok res ∧ Ks.convIn (rotIn a idx) key = .ok aConv ∧
      res.base2k = bout ∧ res.nLwe = nOut ∧ res.data.length = sout ∧
      ∃ e q : Int,
        2 ^ (a.base2k * a.size + key.base2k * key.mat.size) * lwePhaseVal bout res sOut
          = 2 ^ (bout * sout + key.base2k * key.mat.size) * valCoeff a.base2k (phase sIn a) idx + e
            + 2 ^ (a.base2k * a.size + bout * sout + key.base2k * key.mat.size) * q ∧
        |e| ≤ ksBound N bout sout 1 (rotIn a idx) aConv key sIn (embSk N sOut) EL :=
  KsDec.glwe_to_lwe_decrypts big128 N bout sout nOut a idx key sIn sOut EL KL Hin Hp h ha hInB hidx hnOut hsOut

/-- **`lwe_to_glwe_decrypts`** (`glwe_from_lwe`, same and different radices): coefficient 0 of the GLWE phase of the result = LWE phase of the input + `e` -/
theorem lwe_to_glwe_decrypts (big128 : Bool) (n bout sout rout : Nat) (a : Ks.Lwe) (key : Ks.Key) (sIn : Poly) (skOut : List Poly)
    (EL KL : ℕ → ℕ → Poly) (Hin Hp : Int)
    (h : KsSide big128 n bout sout rout (lweEmb n a) key (embSk n sIn) skOut EL KL Hin Hp)
    (hInB : ∀ limb ∈ a.data, ∀ x ∈ limb, |x| ≤ Hin) (hnIn : a.nLwe ≤ n) (hsIn : sIn.length = a.nLwe) :
    ∃ res aConv, Ks.glweFromLwe big128 n bout sout rout a key = .ok res ∧ Ks.convIn (lweEmb n a) key = .ok aConv ∧
      GWF n res ∧ res.base2k = bout ∧ res.size = sout ∧ res.rank = rout ∧
      ∃ e q : Int,
        2 ^ (a.base2k * a.data.length + key.base2k * key.mat.size) * valCoeff bout (phase skOut res) 0
          = 2 ^ (bout * sout + key.base2k * key.mat.size) * lwePhaseVal a.base2k a sIn + e
            + 2 ^ (a.base2k * a.data.length + bout * sout + key.base2k * key.mat.size) * q ∧
        |e| ≤ ksBound n bout sout rout (lweEmb n a) aConv key (embSk n sIn) skOut EL :=
  KsDec.lwe_to_glwe_decrypts big128 n bout sout rout a key sIn skOut EL KL Hin Hp h hInB hnIn hsIn


/-- closed instances with every hypothesis discharged (`N = 2` key `KsDec.exKey11`, `idx = 1`; `N = 1` same- and cross-radix): the `example`s at
the end of `Lemmas/LweDecrypt.lean`; here: the value-level index map on a concrete LWE sample -/
example : KsDec.lwePhaseVal 4 { base2k := 4, nLwe := 2, data := [[7, 5, 11]] } [2, -3] = 7 + (5 * 2 + 11 * (-3)) := by decide
end LweDecryptSec

section NoisyTraceSec
open Hal Core Ks Pack
variable {M : Type*} [AddCommGroup M]

/-- **`glwe_trace_decrypts`** — the executed trace loop with noise: under the per-level noisy contracts (`glwe_rsh(1)` halves up to `≤ Br`; `glwe_automorphism_add_assign` of level `i` gives `φ + σ_i φ` up to `≤ Ba i`), the result's phase is the partial trace `traceAbs levels φ` plus an error of size `≤ Σ_{i∈levels}(2·Br + Ba i)`; `ν` is ℚ-valued (an ℤ-valued size function with the halving law vanishes identically) -/
theorem glwe_trace_decrypts (c : Pack.Contract M) (ν : M → ℚ) (hν : SizeFn c ν) (ph : Ct → M) (big128 : Bool) (keys : List Key)
    (Br : ℚ) (Ba : Nat → ℚ)
    (hrsh : ∀ x y, glweRsh 1 x = .ok y → ∃ e, ph y = c.half (ph x) + e ∧ ν e ≤ Br)
    (hauto : ∀ i x key p y, traceGalois x.n i = .ok p → keys.find? (fun k => k.p == p) = some key →
      automorphismFused .add big128 (zeroBuf x.n (x.rank + 1) key.size) x.base2k x.size x.rank x key = .ok y →
      (y.n = x.n ∧ ∃ e, ph y = ph x + c.sig i (ph x) + e ∧ ν e ≤ Ba i))
    (hn : ∀ x y, glweRsh 1 x = .ok y → y.n = x.n)
    (levels : List Nat) (x r : Ct) (h : traceLoop big128 keys x levels = .ok r) :
    ∃ err, ph r = traceAbs c levels (ph x) + err ∧ ν err ≤ traceErrBound Br Ba levels :=
  Ks.traceLoop_noisy c ν hν ph big128 keys Br Ba hrsh hauto hn levels x r h

/-- non-degenerate: the sup-norm of `ℚ[X]/(X²+1)` is a size function, and it is not zero -/
example : Ks.SizeFn Pack.model Ks.supNorm := Ks.sizeFn_model_sup
example : Ks.supNorm (1 / 2, -3) = 3 := by norm_num [Ks.supNorm]
end NoisyTraceSec

section KsHeadRoomSec
open KsDec Hal Core Core.Ops C02L
variable {M : Type*} [AddCommGroup M]

/-- **head-room of the executed product from digit bounds** (C03-side copy of `Core.product_bound`, which lives above C03 in the import order): every limb of every column of the executed `gglwe_product_dft` is `≤ dsize·(cols_in·rows)·N·Da·Dm` when the input digits are `≤ Da` and the key digits `≤ Dm` -/
theorem product_buffer_bound (N : Nat) (res a : Buf) (key : Key) (Da Dm : Int) (hDa : 0 ≤ Da) (hDm : 0 ≤ Dm) (hD : 1 ≤ key.dsize) (hres : res.WF)
    (hmax : res.maxSize = key.mat.size) (_hsize : res.size = key.mat.size) (hcols : res.cols = key.mat.colsOut)
    (hresn : res.n = N) (han : a.n = N)
    (ha : ∀ col ∈ a.data, ∀ p ∈ col, PB N Da p) (hm : ∀ j q, normInf (key.mat.entry j q) ≤ Dm) (c : Nat) (hc : c < res.cols) :
    ∀ p ∈ (Ks.gglweProductDft res a key).act c,
      normInf p ≤ (key.dsize : Int) * (((key.mat.colsIn * key.mat.rows : Nat) : Int) * ((N : Int) * Da * Dm)) :=
  Core.product_bound N res a key Da Dm hDa hDm hD hres hmax _hsize hcols hresn han ha hm c hc

/-- `glwe_keyswitch_value` with the product-buffer hypothesis replaced by the decidable admissible-shape inequality `ksAdmissible` -/
theorem glwe_keyswitch_value_adm (big128 : Bool) (N bout sout rout : Nat) (a : Ks.Ct) (key : Ks.Key) (sIn skOut : List Poly)
    (EL KL : ℕ → ℕ → Poly) (Hin Dm : Int)
    (hN : 0 < N) (ha : GWF N a) (hrank : a.rank = key.rankIn) (hrout : rout = key.rankOut) (hc0 : 0 < key.mat.colsOut)
    (hD : 1 ≤ key.dsize) (hM : ∀ j q, (key.mat.entry j q).length = N) (hS : key.mat.rows * key.dsize ≤ key.mat.size)
    (hbi1 : 1 ≤ a.base2k) (hbi : a.base2k ≤ 62) (hbk1 : 1 ≤ key.base2k) (hbk : key.base2k ≤ 62) (hbo1 : 1 ≤ bout) (hbo : bout ≤ 62)
    (hIn0 : 0 ≤ Hin) (hIn : Hin + 8 ≤ 2 ^ 62) (hInB : ∀ c ∈ a.cols, ∀ l ∈ c, ∀ x ∈ l, |x| ≤ Hin)
    (hDm0 : 0 ≤ Dm) (hm : ∀ j q, normInf (key.mat.entry j q) ≤ Dm) (hadm : ksAdmissible big128 key N Hin Dm)
    (hEL : ∀ i r, (EL i r).length = N) (hKL : ∀ i r, (KL i r).length = N)
    (hkey : ∀ i, i < key.mat.colsIn → ∀ r, r < key.mat.rows →
      Gadget.val (Ks.radix N key.base2k) key.mat.size (Ks.keyPhase N skOut key.mat i r) =
        Ks.ι N (sIn.getD i []) * Ks.radix N key.base2k ^ (key.mat.size - (r + 1) * key.dsize) + Ks.ι N (EL i r)
          + Ks.radix N key.base2k ^ key.mat.size * Ks.ι N (KL i r)) :
    ∃ res aConv, Ks.keyswitch big128 bout sout rout a key = .ok res ∧ Ks.convIn a key = .ok aConv ∧
      GWF N aConv ∧ aConv.base2k = key.base2k ∧ aConv.rank = a.rank ∧ aConv.size = convSize a key ∧
      GWF N res ∧ res.base2k = bout ∧ res.size = sout ∧ res.rank = rout ∧
      ∃ E1 Q1 E3 Q3 : Poly, E1.length = N ∧ Q1.length = N ∧ E3.length = N ∧ Q3.length = N ∧
        normInf E1 ≤ (1 + snorm (min a.rank sIn.length) sIn) * C02.normTol (key.base2k * convSize a key) (a.base2k * a.size) ∧
        normInf E3 ≤ (1 + snorm (min rout skOut.length) skOut) * C02.normTol (bout * sout) (key.base2k * key.mat.size) ∧
        (2 : Ks.R N) ^ (a.base2k * a.size) * Ks.ι N (valP key.base2k N (phase sIn aConv))
          = (2 : Ks.R N) ^ (key.base2k * convSize a key) * Ks.ι N (valP a.base2k N (phase sIn a)) + Ks.ι N E1
            + (2 : Ks.R N) ^ (key.base2k * convSize a key + a.base2k * a.size) * Ks.ι N Q1 ∧
        (2 : Ks.R N) ^ (key.base2k * key.mat.size) * Ks.ι N (valP bout N (phase skOut res))
          = (2 : Ks.R N) ^ (bout * sout) *
              (∑ i ∈ Finset.range key.mat.colsIn, Ks.ι N (sIn.getD i []) *
                  Gadget.usedVal (Ks.radix N key.base2k) key.mat.size key.dsize key.mat.rows aConv.size (Ks.inLimb N (aDftOf aConv) i)
                + Ks.ι N (valP key.base2k N (fit N key.mat.size (aConv.cols.getD 0 [])))
                + Ks.ι N (Ks.errL N key.base2k (aDftOf aConv) key EL) - Ks.ι N (Ks.dropL N key.base2k skOut (aDftOf aConv) key))
            + Ks.ι N E3
            + (2 : Ks.R N) ^ (bout * sout + key.base2k * key.mat.size) *
                (Ks.ι N Q3 + Ks.ι N (Ks.errL N key.base2k (aDftOf aConv) key KL)
                  - ∑ i ∈ Finset.range key.mat.colsIn,
                      Gadget.head (Ks.radix N key.base2k) key.dsize key.mat.rows aConv.size (Ks.inLimb N (aDftOf aConv) i)
                        (Ks.keyPhase N skOut key.mat i)) :=
  KsDec.glwe_keyswitch_value_adm big128 N bout sout rout a key sIn skOut EL KL Hin Dm hN ha hrank hrout hc0 hD hM hS hbi1 hbi hbk1 hbk hbo1 hbo hIn0 hIn hInB hDm0 hm hadm hEL hKL hkey

/-- **`glwe_keyswitch_decrypts`, head-room derived**: the hypotheses on the executed product buffer (`Hp`, `hprod`, `hAcc`) are gone; what is left is the key digit bound `Dm` and ONE decidable inequality `ksAdmissible big128 key N Hin Dm` (`dsize·cols_in·rows·N·(Hin+2^b)·Dm + (Hin+2^b) + 8 ≤ 2^(bits−2)`), discharged by `decide` for the crate's parameter sets below -/
theorem glwe_keyswitch_decrypts_adm (big128 : Bool) (N bout sout rout : Nat) (a : Ks.Ct) (key : Ks.Key) (sIn skOut : List Poly)
    (EL KL : ℕ → ℕ → Poly) (Hin Dm : Int)
    (hN : 0 < N) (ha : GWF N a) (hrank : a.rank = key.rankIn) (hrout : rout = key.rankOut) (hc0 : 0 < key.mat.colsOut)
    (hD : 1 ≤ key.dsize) (hM : ∀ j q, (key.mat.entry j q).length = N) (hS : key.mat.rows * key.dsize ≤ key.mat.size)
    (hbi1 : 1 ≤ a.base2k) (hbi : a.base2k ≤ 62) (hbk1 : 1 ≤ key.base2k) (hbk : key.base2k ≤ 62) (hbo1 : 1 ≤ bout) (hbo : bout ≤ 62)
    (hIn0 : 0 ≤ Hin) (hIn : Hin + 8 ≤ 2 ^ 62) (hInB : ∀ c ∈ a.cols, ∀ l ∈ c, ∀ x ∈ l, |x| ≤ Hin)
    (hDm0 : 0 ≤ Dm) (hm : ∀ j q, normInf (key.mat.entry j q) ≤ Dm) (hadm : ksAdmissible big128 key N Hin Dm)
    (hs : key.mat.colsIn ≤ sIn.length)
    (hEL : ∀ i r, (EL i r).length = N) (hKL : ∀ i r, (KL i r).length = N)
    (hkey : ∀ i, i < key.mat.colsIn → ∀ r, r < key.mat.rows →
      Gadget.val (Ks.radix N key.base2k) key.mat.size (Ks.keyPhase N skOut key.mat i r) =
        Ks.ι N (sIn.getD i []) * Ks.radix N key.base2k ^ (key.mat.size - (r + 1) * key.dsize) + Ks.ι N (EL i r)
          + Ks.radix N key.base2k ^ key.mat.size * Ks.ι N (KL i r))
    (hcov1 : convSize a key ≤ key.mat.size) (hcov2 : convSize a key ≤ key.mat.rows * key.dsize) :
    ∃ res aConv, Ks.keyswitch big128 bout sout rout a key = .ok res ∧ Ks.convIn a key = .ok aConv ∧
      GWF N res ∧ res.base2k = bout ∧ res.size = sout ∧ res.rank = rout ∧
      ∃ (E1 E3 : Poly) (Q : Ks.R N), E1.length = N ∧ E3.length = N ∧
        normInf E1 ≤ (1 + snorm (min a.rank sIn.length) sIn) * C02.normTol (key.base2k * convSize a key) (a.base2k * a.size) ∧
        normInf E3 ≤ (1 + snorm (min rout skOut.length) skOut) * C02.normTol (bout * sout) (key.base2k * key.mat.size) ∧
        (2 : Ks.R N) ^ (a.base2k * a.size + key.base2k * key.mat.size) * Ks.ι N (valP bout N (phase skOut res))
          = (2 : Ks.R N) ^ (bout * sout + key.base2k * key.mat.size) * Ks.ι N (valP a.base2k N (phase sIn a))
            + Ks.ι N (ksErr (2 ^ (bout * sout + key.base2k * (key.mat.size - convSize a key))) (2 ^ (a.base2k * a.size + bout * sout))
                (2 ^ (a.base2k * a.size)) E1 (Ks.errL N key.base2k (aDftOf aConv) key EL)
                (Ks.dropL N key.base2k skOut (aDftOf aConv) key) E3)
            + (2 : Ks.R N) ^ (a.base2k * a.size + bout * sout + key.base2k * key.mat.size) * Q ∧
        normInf (ksErr (2 ^ (bout * sout + key.base2k * (key.mat.size - convSize a key))) (2 ^ (a.base2k * a.size + bout * sout))
                (2 ^ (a.base2k * a.size)) E1 (Ks.errL N key.base2k (aDftOf aConv) key EL)
                (Ks.dropL N key.base2k skOut (aDftOf aConv) key) E3)
          ≤ 2 ^ (bout * sout + key.base2k * (key.mat.size - convSize a key)) *
              ((1 + snorm (min a.rank sIn.length) sIn) * C02.normTol (key.base2k * convSize a key) (a.base2k * a.size))
            + 2 ^ (a.base2k * a.size + bout * sout) * gadgetBound N key.base2k (aDftOf aConv) key EL
            + 2 ^ (a.base2k * a.size + bout * sout) * dropBound N key.base2k skOut (aDftOf aConv) key
            + 2 ^ (a.base2k * a.size) *
              ((1 + snorm (min rout skOut.length) skOut) * C02.normTol (bout * sout) (key.base2k * key.mat.size)) :=
  KsDec.glwe_keyswitch_decrypts_adm big128 N bout sout rout a key sIn skOut EL KL Hin Dm hN ha hrank hrout hc0 hD hM hS hbi1 hbi hbk1 hbk hbo1 hbo hIn0 hIn hInB hDm0 hm hadm hs hEL hKL hkey hcov1 hcov2

/-- in-place form -/
theorem glwe_keyswitch_assign_decrypts_adm (big128 : Bool) (N : Nat) (a : Ks.Ct) (key : Ks.Key) (sIn skOut : List Poly)
    (EL KL : ℕ → ℕ → Poly) (Hin Dm : Int)
    (hN : 0 < N) (ha : GWF N a) (hrank : a.rank = key.rankIn) (hrout : a.rank = key.rankOut) (hc0 : 0 < key.mat.colsOut)
    (hD : 1 ≤ key.dsize) (hM : ∀ j q, (key.mat.entry j q).length = N) (hS : key.mat.rows * key.dsize ≤ key.mat.size)
    (hbi1 : 1 ≤ a.base2k) (hbi : a.base2k ≤ 62) (hbk1 : 1 ≤ key.base2k) (hbk : key.base2k ≤ 62)
    (hIn0 : 0 ≤ Hin) (hIn : Hin + 8 ≤ 2 ^ 62) (hInB : ∀ c ∈ a.cols, ∀ l ∈ c, ∀ x ∈ l, |x| ≤ Hin)
    (hDm0 : 0 ≤ Dm) (hm : ∀ j q, normInf (key.mat.entry j q) ≤ Dm) (hadm : ksAdmissible big128 key N Hin Dm)
    (hs : key.mat.colsIn ≤ sIn.length)
    (hEL : ∀ i r, (EL i r).length = N) (hKL : ∀ i r, (KL i r).length = N)
    (hkey : ∀ i, i < key.mat.colsIn → ∀ r, r < key.mat.rows →
      Gadget.val (Ks.radix N key.base2k) key.mat.size (Ks.keyPhase N skOut key.mat i r) =
        Ks.ι N (sIn.getD i []) * Ks.radix N key.base2k ^ (key.mat.size - (r + 1) * key.dsize) + Ks.ι N (EL i r)
          + Ks.radix N key.base2k ^ key.mat.size * Ks.ι N (KL i r))
    (hcov1 : convSize a key ≤ key.mat.size) (hcov2 : convSize a key ≤ key.mat.rows * key.dsize) :
    ∃ res aConv, Ks.keyswitch big128 a.base2k a.size a.rank a key = .ok res ∧ Ks.convIn a key = .ok aConv ∧
      GWF N res ∧ res.base2k = a.base2k ∧ res.size = a.size ∧ res.rank = a.rank ∧
      ∃ (E1 E3 : Poly) (Q : Ks.R N), E1.length = N ∧ E3.length = N ∧
        normInf E1 ≤ (1 + snorm (min a.rank sIn.length) sIn) * C02.normTol (key.base2k * convSize a key) (a.base2k * a.size) ∧
        normInf E3 ≤ (1 + snorm (min a.rank skOut.length) skOut) * C02.normTol (a.base2k * a.size) (key.base2k * key.mat.size) ∧
        (2 : Ks.R N) ^ (a.base2k * a.size + key.base2k * key.mat.size) * Ks.ι N (valP a.base2k N (phase skOut res))
          = (2 : Ks.R N) ^ (a.base2k * a.size + key.base2k * key.mat.size) * Ks.ι N (valP a.base2k N (phase sIn a))
            + Ks.ι N (ksErr (2 ^ (a.base2k * a.size + key.base2k * (key.mat.size - convSize a key))) (2 ^ (a.base2k * a.size + a.base2k * a.size))
                (2 ^ (a.base2k * a.size)) E1 (Ks.errL N key.base2k (aDftOf aConv) key EL)
                (Ks.dropL N key.base2k skOut (aDftOf aConv) key) E3)
            + (2 : Ks.R N) ^ (a.base2k * a.size + a.base2k * a.size + key.base2k * key.mat.size) * Q ∧
        normInf (ksErr (2 ^ (a.base2k * a.size + key.base2k * (key.mat.size - convSize a key))) (2 ^ (a.base2k * a.size + a.base2k * a.size))
                (2 ^ (a.base2k * a.size)) E1 (Ks.errL N key.base2k (aDftOf aConv) key EL)
                (Ks.dropL N key.base2k skOut (aDftOf aConv) key) E3)
          ≤ 2 ^ (a.base2k * a.size + key.base2k * (key.mat.size - convSize a key)) *
              ((1 + snorm (min a.rank sIn.length) sIn) * C02.normTol (key.base2k * convSize a key) (a.base2k * a.size))
            + 2 ^ (a.base2k * a.size + a.base2k * a.size) * gadgetBound N key.base2k (aDftOf aConv) key EL
            + 2 ^ (a.base2k * a.size + a.base2k * a.size) * dropBound N key.base2k skOut (aDftOf aConv) key
            + 2 ^ (a.base2k * a.size) *
              ((1 + snorm (min a.rank skOut.length) skOut) * C02.normTol (a.base2k * a.size) (key.base2k * key.mat.size)) :=
  KsDec.glwe_keyswitch_assign_decrypts_adm big128 N a key sIn skOut EL KL Hin Dm hN ha hrank hrout hc0 hD hM hS hbi1 hbi hbk1 hbk hIn0 hIn hInB hDm0 hm hadm hs hEL hKL hkey hcov1 hcov2

/-- the limbs the product reads, in every regime: `usedVal = Σ_{m < min(a_size, dnum·dsize)} a_m·β^{S−1−m}` -/
theorem used_value_general {R : Type*} [CommRing R] (β : R) (S dsize dnum aSize : ℕ) (a : ℕ → R) (hd : 0 < dsize) :
    Gadget.usedVal β S dsize dnum aSize a = ∑ m ∈ Finset.range (min aSize (dnum * dsize)), a m * β ^ (S - 1 - m) :=
  KsDec.usedVal_general β S dsize dnum aSize a hd

/-- the dropped input limbs as an explicit coefficient list `truncL` and its norm: `‖truncL‖_∞ ≤ truncBound` -/
theorem truncation_norm_bound (N b L T : Nat) (sIn : List Poly) (rin : Nat) (a : Ks.Ct) (Dg : Int) (hDg : 0 ≤ Dg) (ha : GWF N a)
    (hrin : rin ≤ a.rank) (hdig : ∀ c ∈ a.cols, ∀ l ∈ c, ∀ x ∈ l, |x| ≤ Dg) :
    normInf (truncL N b L T sIn rin a) ≤ truncBound b L T sIn rin a.size Dg :=
  KsDec.normInf_truncL_le N b L T sIn rin a Dg hDg ha hrin hdig

/-- **closed truncation bound**: `truncBound ≤ (1 + ‖s‖₁)·Dg·2·2^{b·(a_size−1−L)}` — relative to the input's scale `2^{b·a_size}` this is `(1+‖s‖₁)·2Dg/2^b·2^{−b·L}`, `L = min(a_size, key size, dnum·dsize)` -/
theorem truncation_bound_closed (b L T : Nat) (sIn : List Poly) (rin aSize : Nat) (Dg : Int) (hb : 1 ≤ b) (hDg : 0 ≤ Dg) (hLT : L ≤ T) :
    truncBound b L T sIn rin aSize Dg ≤ (1 + snorm rin sIn) * (Dg * (2 * 2 ^ (b * (aSize - L - 1)))) :=
  KsDec.truncBound_le b L T sIn rin aSize Dg hb hDg hLT

/-- **`glwe_keyswitch_decrypts`, every regime** (`hcov1`, `hcov2` dropped: `a_size > min(key size, dnum·dsize)` allowed, as long as the converted input is not longer than the key): the error gains the explicit truncation term `truncL` with the closed bound above; head-room derived (`ksAdmissible`) -/
theorem glwe_keyswitch_decrypts_general (big128 : Bool) (N bout sout rout : Nat) (a : Ks.Ct) (key : Ks.Key) (sIn skOut : List Poly)
    (EL KL : ℕ → ℕ → Poly) (Hin Dm : Int)
    (hN : 0 < N) (ha : GWF N a) (hrank : a.rank = key.rankIn) (hrout : rout = key.rankOut) (hc0 : 0 < key.mat.colsOut)
    (hD : 1 ≤ key.dsize) (hM : ∀ j q, (key.mat.entry j q).length = N) (hS : key.mat.rows * key.dsize ≤ key.mat.size)
    (hbi1 : 1 ≤ a.base2k) (hbi : a.base2k ≤ 62) (hbk1 : 1 ≤ key.base2k) (hbk : key.base2k ≤ 62) (hbo1 : 1 ≤ bout) (hbo : bout ≤ 62)
    (hIn0 : 0 ≤ Hin) (hIn : Hin + 8 ≤ 2 ^ 62) (hInB : ∀ c ∈ a.cols, ∀ l ∈ c, ∀ x ∈ l, |x| ≤ Hin)
    (hDm0 : 0 ≤ Dm) (hm : ∀ j q, normInf (key.mat.entry j q) ≤ Dm) (hadm : ksAdmissible big128 key N Hin Dm)
    (hs : key.mat.colsIn ≤ sIn.length)
    (hEL : ∀ i r, (EL i r).length = N) (hKL : ∀ i r, (KL i r).length = N)
    (hkey : ∀ i, i < key.mat.colsIn → ∀ r, r < key.mat.rows →
      Gadget.val (Ks.radix N key.base2k) key.mat.size (Ks.keyPhase N skOut key.mat i r) =
        Ks.ι N (sIn.getD i []) * Ks.radix N key.base2k ^ (key.mat.size - (r + 1) * key.dsize) + Ks.ι N (EL i r)
          + Ks.radix N key.base2k ^ key.mat.size * Ks.ι N (KL i r)) :
    ∃ res aConv, Ks.keyswitch big128 bout sout rout a key = .ok res ∧ Ks.convIn a key = .ok aConv ∧
      GWF N res ∧ res.base2k = bout ∧ res.size = sout ∧ res.rank = rout ∧
      ∃ (E1 E3 : Poly) (Q : Ks.R N), E1.length = N ∧ E3.length = N ∧
        normInf E1 ≤ (1 + snorm (min a.rank sIn.length) sIn) * C02.normTol (key.base2k * convSize a key) (a.base2k * a.size) ∧
        normInf E3 ≤ (1 + snorm (min rout skOut.length) skOut) * C02.normTol (bout * sout) (key.base2k * key.mat.size) ∧
        (2 : Ks.R N) ^ (a.base2k * a.size + key.base2k * max key.mat.size (convSize a key)) * Ks.ι N (valP bout N (phase skOut res))
          = (2 : Ks.R N) ^ (bout * sout + key.base2k * max key.mat.size (convSize a key)) * Ks.ι N (valP a.base2k N (phase sIn a))
            + Ks.ι N (polyAdd
                (ksErr (2 ^ (bout * sout + key.base2k * (key.mat.size - convSize a key)))
                  (2 ^ (a.base2k * a.size + bout * sout + key.base2k * (convSize a key - key.mat.size)))
                  (2 ^ (a.base2k * a.size + key.base2k * (convSize a key - key.mat.size))) E1
                  (Ks.errL N key.base2k (aDftOf aConv) key EL) (Ks.dropL N key.base2k skOut (aDftOf aConv) key) E3)
                (polyScale (-(2 ^ (a.base2k * a.size + bout * sout + key.base2k * (key.mat.size - convSize a key))))
                  (truncL N key.base2k (min (convSize a key) (key.mat.rows * key.dsize)) (min (convSize a key) key.mat.size)
                    sIn key.mat.colsIn aConv)))
            + (2 : Ks.R N) ^ (a.base2k * a.size + bout * sout + key.base2k * max key.mat.size (convSize a key)) * Q ∧
        normInf (polyAdd
                (ksErr (2 ^ (bout * sout + key.base2k * (key.mat.size - convSize a key)))
                  (2 ^ (a.base2k * a.size + bout * sout + key.base2k * (convSize a key - key.mat.size)))
                  (2 ^ (a.base2k * a.size + key.base2k * (convSize a key - key.mat.size))) E1
                  (Ks.errL N key.base2k (aDftOf aConv) key EL) (Ks.dropL N key.base2k skOut (aDftOf aConv) key) E3)
                (polyScale (-(2 ^ (a.base2k * a.size + bout * sout + key.base2k * (key.mat.size - convSize a key))))
                  (truncL N key.base2k (min (convSize a key) (key.mat.rows * key.dsize)) (min (convSize a key) key.mat.size)
                    sIn key.mat.colsIn aConv)))
          ≤ 2 ^ (bout * sout + key.base2k * (key.mat.size - convSize a key)) *
              ((1 + snorm (min a.rank sIn.length) sIn) * C02.normTol (key.base2k * convSize a key) (a.base2k * a.size))
            + 2 ^ (a.base2k * a.size + bout * sout + key.base2k * (convSize a key - key.mat.size)) *
                gadgetBound N key.base2k (aDftOf aConv) key EL
            + 2 ^ (a.base2k * a.size + bout * sout + key.base2k * (convSize a key - key.mat.size)) *
                dropBound N key.base2k skOut (aDftOf aConv) key
            + 2 ^ (a.base2k * a.size + key.base2k * (convSize a key - key.mat.size)) *
              ((1 + snorm (min rout skOut.length) skOut) * C02.normTol (bout * sout) (key.base2k * key.mat.size))
            + 2 ^ (a.base2k * a.size + bout * sout + key.base2k * (key.mat.size - convSize a key)) *
                truncBound key.base2k (min (convSize a key) (key.mat.rows * key.dsize)) (min (convSize a key) key.mat.size)
                  sIn key.mat.colsIn (convSize a key) (Hin + 2 ^ key.base2k) :=
  KsDec.glwe_keyswitch_decrypts_general big128 N bout sout rout a key sIn skOut EL KL Hin Dm hN ha hrank hrout hc0 hD hM hS hbi1 hbi hbk1 hbk hbo1 hbo hIn0 hIn hInB hDm0 hm hadm hs hEL hKL hkey

/-- in-place form -/
theorem glwe_keyswitch_assign_decrypts_general (big128 : Bool) (N : Nat) (a : Ks.Ct) (key : Ks.Key) (sIn skOut : List Poly)
    (EL KL : ℕ → ℕ → Poly) (Hin Dm : Int)
    (hN : 0 < N) (ha : GWF N a) (hrank : a.rank = key.rankIn) (hrout : a.rank = key.rankOut) (hc0 : 0 < key.mat.colsOut)
    (hD : 1 ≤ key.dsize) (hM : ∀ j q, (key.mat.entry j q).length = N) (hS : key.mat.rows * key.dsize ≤ key.mat.size)
    (hbi1 : 1 ≤ a.base2k) (hbi : a.base2k ≤ 62) (hbk1 : 1 ≤ key.base2k) (hbk : key.base2k ≤ 62)
    (hIn0 : 0 ≤ Hin) (hIn : Hin + 8 ≤ 2 ^ 62) (hInB : ∀ c ∈ a.cols, ∀ l ∈ c, ∀ x ∈ l, |x| ≤ Hin)
    (hDm0 : 0 ≤ Dm) (hm : ∀ j q, normInf (key.mat.entry j q) ≤ Dm) (hadm : ksAdmissible big128 key N Hin Dm)
    (hs : key.mat.colsIn ≤ sIn.length)
    (hEL : ∀ i r, (EL i r).length = N) (hKL : ∀ i r, (KL i r).length = N)
    (hkey : ∀ i, i < key.mat.colsIn → ∀ r, r < key.mat.rows →
      Gadget.val (Ks.radix N key.base2k) key.mat.size (Ks.keyPhase N skOut key.mat i r) =
        Ks.ι N (sIn.getD i []) * Ks.radix N key.base2k ^ (key.mat.size - (r + 1) * key.dsize) + Ks.ι N (EL i r)
          + Ks.radix N key.base2k ^ key.mat.size * Ks.ι N (KL i r)) :
    ∃ res aConv, Ks.keyswitch big128 a.base2k a.size a.rank a key = .ok res ∧ Ks.convIn a key = .ok aConv ∧
      GWF N res ∧ res.base2k = a.base2k ∧ res.size = a.size ∧ res.rank = a.rank ∧
      ∃ (E1 E3 : Poly) (Q : Ks.R N), E1.length = N ∧ E3.length = N ∧
        normInf E1 ≤ (1 + snorm (min a.rank sIn.length) sIn) * C02.normTol (key.base2k * convSize a key) (a.base2k * a.size) ∧
        normInf E3 ≤ (1 + snorm (min a.rank skOut.length) skOut) * C02.normTol (a.base2k * a.size) (key.base2k * key.mat.size) ∧
        (2 : Ks.R N) ^ (a.base2k * a.size + key.base2k * max key.mat.size (convSize a key)) * Ks.ι N (valP a.base2k N (phase skOut res))
          = (2 : Ks.R N) ^ (a.base2k * a.size + key.base2k * max key.mat.size (convSize a key)) * Ks.ι N (valP a.base2k N (phase sIn a))
            + Ks.ι N (polyAdd
                (ksErr (2 ^ (a.base2k * a.size + key.base2k * (key.mat.size - convSize a key)))
                  (2 ^ (a.base2k * a.size + a.base2k * a.size + key.base2k * (convSize a key - key.mat.size)))
                  (2 ^ (a.base2k * a.size + key.base2k * (convSize a key - key.mat.size))) E1
                  (Ks.errL N key.base2k (aDftOf aConv) key EL) (Ks.dropL N key.base2k skOut (aDftOf aConv) key) E3)
                (polyScale (-(2 ^ (a.base2k * a.size + a.base2k * a.size + key.base2k * (key.mat.size - convSize a key))))
                  (truncL N key.base2k (min (convSize a key) (key.mat.rows * key.dsize)) (min (convSize a key) key.mat.size)
                    sIn key.mat.colsIn aConv)))
            + (2 : Ks.R N) ^ (a.base2k * a.size + a.base2k * a.size + key.base2k * max key.mat.size (convSize a key)) * Q ∧
        normInf (polyAdd
                (ksErr (2 ^ (a.base2k * a.size + key.base2k * (key.mat.size - convSize a key)))
                  (2 ^ (a.base2k * a.size + a.base2k * a.size + key.base2k * (convSize a key - key.mat.size)))
                  (2 ^ (a.base2k * a.size + key.base2k * (convSize a key - key.mat.size))) E1
                  (Ks.errL N key.base2k (aDftOf aConv) key EL) (Ks.dropL N key.base2k skOut (aDftOf aConv) key) E3)
                (polyScale (-(2 ^ (a.base2k * a.size + a.base2k * a.size + key.base2k * (key.mat.size - convSize a key))))
                  (truncL N key.base2k (min (convSize a key) (key.mat.rows * key.dsize)) (min (convSize a key) key.mat.size)
                    sIn key.mat.colsIn aConv)))
          ≤ 2 ^ (a.base2k * a.size + key.base2k * (key.mat.size - convSize a key)) *
              ((1 + snorm (min a.rank sIn.length) sIn) * C02.normTol (key.base2k * convSize a key) (a.base2k * a.size))
            + 2 ^ (a.base2k * a.size + a.base2k * a.size + key.base2k * (convSize a key - key.mat.size)) *
                gadgetBound N key.base2k (aDftOf aConv) key EL
            + 2 ^ (a.base2k * a.size + a.base2k * a.size + key.base2k * (convSize a key - key.mat.size)) *
                dropBound N key.base2k skOut (aDftOf aConv) key
            + 2 ^ (a.base2k * a.size + key.base2k * (convSize a key - key.mat.size)) *
              ((1 + snorm (min a.rank skOut.length) skOut) * C02.normTol (a.base2k * a.size) (key.base2k * key.mat.size))
            + 2 ^ (a.base2k * a.size + a.base2k * a.size + key.base2k * (key.mat.size - convSize a key)) *
                truncBound key.base2k (min (convSize a key) (key.mat.rows * key.dsize)) (min (convSize a key) key.mat.size)
                  sIn key.mat.colsIn (convSize a key) (Hin + 2 ^ key.base2k) :=
  KsDec.glwe_keyswitch_assign_decrypts_general big128 N a key sIn skOut EL KL Hin Dm hN ha hrank hrout hc0 hD hM hS hbi1 hbi hbk1 hbk hIn0 hIn hInB hDm0 hm hadm hs hEL hKL hkey

/-- the crate's parameter sets are admissible, by `decide`: FFT64 `N = 4096`, rank 1, `dsize = 1`, `dnum = 3`, `b = 17`; FFT64 `N = 1024`,
rank 2, `dsize = 2`, `dnum = 2`, `b = 12`; NTT120 `N = 4096`, `b = 52`, `dnum = 8` on the `i128` accumulator — and `b = 52` is NOT
admissible on the `i64` accumulator -/
example : KsDec.ksAdmShape 64 1 1 3 4096 17 (2 ^ 16) (2 ^ 16) ∧ KsDec.ksAdmShape 64 2 2 2 1024 12 (2 ^ 11) (2 ^ 11) ∧
    KsDec.ksAdmShape 128 1 1 8 4096 52 (2 ^ 51) (2 ^ 51) ∧ ¬ KsDec.ksAdmShape 64 1 1 8 4096 52 (2 ^ 51) (2 ^ 51) := by decide
/-- the truncation regime is inhabited: a one-row key, a two-limb input (`dnum·dsize = 1 < 2 = a.size`); the dropped limb is `truncL = [3]`
(the full closed instance of `glwe_keyswitch_decrypts_general` is in Lemmas/KsHeadRoom.lean) -/
example : KsDec.exKeyT.mat.rows * KsDec.exKeyT.dsize < KsDec.convSize KsDec.exCtT KsDec.exKeyT ∧
    KsDec.truncL 1 4 1 2 [[1]] 1 KsDec.exCtT = [3] ∧ ∃ res, Ks.keyswitch false 3 2 0 KsDec.exCtT KsDec.exKeyT = .ok res :=
  ⟨by decide, by decide, _, rfl⟩
end KsHeadRoomSec

section FusedAnySec
open KsDec Hal Core Core.Ops C02L AutoMul
variable {M : Type*} [AddCommGroup M]

/-- since d3c2e96 the executed product does not depend on the previous content of `res_dft`, every `dsize ≥ 1`, as an equality of BUFFERS -/
theorem product_dft0_irrelevant (r₁ r₂ a : Buf) (key : Ks.Key) (hD : 1 ≤ key.dsize) (h1 : r₁.WF) (h2 : r₂.WF)
    (hs1 : r₁.size = key.mat.size) (hs2 : r₂.size = key.mat.size)
    (hm1 : r₁.maxSize = key.mat.size) (hm2 : r₂.maxSize = key.mat.size)
    (hc1 : r₁.cols = key.mat.colsOut) (hc2 : r₂.cols = key.mat.colsOut)
    (hn1 : r₁.n = a.n) (hn2 : r₂.n = a.n) :
    Ks.gglweProductDft r₁ a key = Ks.gglweProductDft r₂ a key :=
  KsDec.product_dft0_irrelevant r₁ r₂ a key hD h1 h2 hs1 hs2 hm1 hm2 hc1 hc2 hn1 hn2

/-- hence `glwe_keyswitch_internal` does not either -/
theorem keyswitch_internal_dft0_irrelevant (big128 : Bool) (d₁ d₂ : Buf) (a : Ks.Ct) (key : Ks.Key) (hD : 1 ≤ key.dsize)
    (h1 : d₁.WF) (h2 : d₂.WF) (hs1 : d₁.size = key.mat.size) (hs2 : d₂.size = key.mat.size)
    (hm1 : d₁.maxSize = key.mat.size) (hm2 : d₂.maxSize = key.mat.size)
    (hc1 : d₁.cols = key.mat.colsOut) (hc2 : d₂.cols = key.mat.colsOut) (hn1 : d₁.n = a.n) (hn2 : d₂.n = a.n) :
    Ks.keyswitchInternal big128 d₁ a key = Ks.keyswitchInternal big128 d₂ a key :=
  KsDec.keyswitchInternal_dft0_irrelevant big128 d₁ d₂ a key hD h1 h2 hs1 hs2 hm1 hm2 hc1 hc2 hn1 hn2

/-- **`product_determined` wired in**: `glwe_automorphism_{add,sub,sub_negate}{,_assign}` return the same ciphertext for ANY well-formed scratch content `dft0` of the shape `take_vec_znx_dft` gives as for the zeroed one -/
theorem automorphism_fused_dft0_irrelevant (f : Ks.Fused) (big128 : Bool) (N : Nat) (dft0 : Buf) (rb rs rr : Nat) (a : Ks.Ct) (key : Ks.Key)
    (hD : 1 ≤ key.dsize) (hc0 : 0 < key.mat.colsOut) (han : a.n = N)
    (hwf : dft0.WF) (hn : dft0.n = N) (hc : dft0.cols = rr + 1) (hs : dft0.size = key.mat.size) (hm : dft0.maxSize = key.mat.size) :
    Ks.automorphismFused f big128 dft0 rb rs rr a key = Ks.automorphismFused f big128 (Ks.zeroBuf N (rr + 1) key.size) rb rs rr a key :=
  KsDec.automorphismFused_dft0_irrelevant f big128 N dft0 rb rs rr a key hD hc0 han hwf hn hc hs hm

/-- `glwe_automorphism_fused_decrypts` for arbitrary `res_dft` content -/
theorem glwe_automorphism_fused_decrypts_any (f : Ks.Fused) (big128 : Bool) (N bout sout rout : Nat) (a : Ks.Ct) (key : Ks.Key) (dft0 : Buf)
    (sk : List Poly) (gInv : Int) (EL KL : ℕ → ℕ → Poly) (Hin Hp : Int)
    (hN : 0 < N) (hg : GalOk key.p N) (hsk : Ks.AllLen N sk) (hinv : ∀ s ∈ sk, σ key.p (σ gInv s) = s)
    (ha : GWF N a) (hrank : a.rank = key.rankIn) (hrout : rout = key.rankOut) (hra : a.rank = rout) (hc0 : 0 < key.mat.colsOut)
    (hD : 1 ≤ key.dsize) (hM : ∀ j q, (key.mat.entry j q).length = N) (hS : key.mat.rows * key.dsize ≤ key.mat.size)
    (hbi1 : 1 ≤ a.base2k) (hbi : a.base2k ≤ 62) (hbk1 : 1 ≤ key.base2k) (hbk : key.base2k ≤ 62) (hbo1 : 1 ≤ bout) (hbo : bout ≤ 62)
    (hIn0 : 0 ≤ Hin) (hIn : Hin + 8 ≤ 2 ^ 62) (hInB : ∀ c ∈ a.cols, ∀ l ∈ c, ∀ x ∈ l, |x| ≤ Hin)
    (hHp0 : 0 ≤ Hp) (hAcc : Hp + 2 * (Hin + 2 ^ key.base2k) + 8 ≤ 2 ^ (bitsOf big128 - 2))
    (hprod : ∀ aConv, Ks.convIn a key = .ok aConv → ∀ i, i < rout + 1 → ∀ l ∈ (prodOf rout aConv key).act i, ∀ x ∈ l, |x| ≤ Hp)
    (hs : key.mat.colsIn ≤ sk.length)
    (hEL : ∀ i r, (EL i r).length = N) (hKL : ∀ i r, (KL i r).length = N)
    (hkey : ∀ i, i < key.mat.colsIn → ∀ r, r < key.mat.rows →
      Gadget.val (Ks.radix N key.base2k) key.mat.size (Ks.keyPhase N (sk.map (σ gInv)) key.mat i r) =
        Ks.ι N (sk.getD i []) * Ks.radix N key.base2k ^ (key.mat.size - (r + 1) * key.dsize) + Ks.ι N (EL i r)
          + Ks.radix N key.base2k ^ key.mat.size * Ks.ι N (KL i r))
    (hcov1 : convSize a key ≤ key.mat.size) (hcov2 : convSize a key ≤ key.mat.rows * key.dsize)
    (hdwf : dft0.WF) (hdn : dft0.n = N) (hdc : dft0.cols = rout + 1) (hds : dft0.size = key.mat.size) (hdm : dft0.maxSize = key.mat.size) :
    ∃ res aConv, Ks.automorphismFused f big128 dft0 bout sout rout a key = .ok res ∧
      Ks.convIn a key = .ok aConv ∧ GWF N res ∧ res.base2k = bout ∧ res.size = sout ∧ res.rank = rout ∧
      ∃ (E1 E3 : Poly) (Q : Ks.R N), E1.length = N ∧ E3.length = N ∧
        normInf E1 ≤ (1 + snorm (min a.rank sk.length) sk) * C02.normTol (key.base2k * convSize a key) (a.base2k * a.size) ∧
        normInf E3 ≤ (1 + snorm (min rout sk.length) sk) * C02.normTol (bout * sout) (key.base2k * key.mat.size) ∧
        (2 : Ks.R N) ^ (a.base2k * a.size + key.base2k * key.mat.size) * Ks.ι N (valP bout N (phase sk res))
          = (sgA f : Ks.R N) *
              ((2 : Ks.R N) ^ (bout * sout + key.base2k * key.mat.size) * Ks.ι N (σ key.p (valP a.base2k N (phase sk a)))
                + Ks.ι N (σ key.p (ksErr (2 ^ (bout * sout + key.base2k * (key.mat.size - convSize a key)))
                    (2 ^ (a.base2k * a.size + bout * sout)) 0 E1 (Ks.errL N key.base2k (aDftOf aConv) key EL)
                    (Ks.dropL N key.base2k (sk.map (σ gInv)) (aDftOf aConv) key) (zeroP N))))
            + (sgB f : Ks.R N) *
              ((2 : Ks.R N) ^ (bout * sout + key.base2k * key.mat.size) * Ks.ι N (valP a.base2k N (phase sk a))
                + Ks.ι N (polyScale (2 ^ (bout * sout + key.base2k * (key.mat.size - convSize a key))) E1))
            + Ks.ι N (polyScale (2 ^ (a.base2k * a.size)) E3)
            + (2 : Ks.R N) ^ (a.base2k * a.size + bout * sout + key.base2k * key.mat.size) * Q ∧
        normInf (σ key.p (ksErr (2 ^ (bout * sout + key.base2k * (key.mat.size - convSize a key)))
                    (2 ^ (a.base2k * a.size + bout * sout)) 0 E1 (Ks.errL N key.base2k (aDftOf aConv) key EL)
                    (Ks.dropL N key.base2k (sk.map (σ gInv)) (aDftOf aConv) key) (zeroP N)))
          ≤ 2 ^ (bout * sout + key.base2k * (key.mat.size - convSize a key)) *
              ((1 + snorm (min a.rank sk.length) sk) * C02.normTol (key.base2k * convSize a key) (a.base2k * a.size))
            + 2 ^ (a.base2k * a.size + bout * sout) * gadgetBound N key.base2k (aDftOf aConv) key EL
            + 2 ^ (a.base2k * a.size + bout * sout) * dropBound N key.base2k (sk.map (σ gInv)) (aDftOf aConv) key :=
  KsDec.glwe_automorphism_fused_decrypts_any f big128 N bout sout rout a key dft0 sk gInv EL KL Hin Hp hN hg hsk hinv ha hrank hrout hra hc0 hD hM hS hbi1 hbi hbk1 hbk hbo1 hbo hIn0 hIn hInB hHp0 hAcc hprod hs hEL hKL hkey hcov1 hcov2 hdwf hdn hdc hds hdm

/-- `σ_p(KS(a)) + a`, arbitrary `res_dft` -/
theorem glwe_automorphism_add_decrypts_any (big128 : Bool) (N bout sout rout : Nat) (a : Ks.Ct) (key : Ks.Key) (dft0 : Buf)
    (sk : List Poly) (gInv : Int) (EL KL : ℕ → ℕ → Poly) (Hin Hp : Int)
    (hN : 0 < N) (hg : GalOk key.p N) (hsk : Ks.AllLen N sk) (hinv : ∀ s ∈ sk, σ key.p (σ gInv s) = s)
    (ha : GWF N a) (hrank : a.rank = key.rankIn) (hrout : rout = key.rankOut) (hra : a.rank = rout) (hc0 : 0 < key.mat.colsOut)
    (hD : 1 ≤ key.dsize) (hM : ∀ j q, (key.mat.entry j q).length = N) (hS : key.mat.rows * key.dsize ≤ key.mat.size)
    (hbi1 : 1 ≤ a.base2k) (hbi : a.base2k ≤ 62) (hbk1 : 1 ≤ key.base2k) (hbk : key.base2k ≤ 62) (hbo1 : 1 ≤ bout) (hbo : bout ≤ 62)
    (hIn0 : 0 ≤ Hin) (hIn : Hin + 8 ≤ 2 ^ 62) (hInB : ∀ c ∈ a.cols, ∀ l ∈ c, ∀ x ∈ l, |x| ≤ Hin)
    (hHp0 : 0 ≤ Hp) (hAcc : Hp + 2 * (Hin + 2 ^ key.base2k) + 8 ≤ 2 ^ (bitsOf big128 - 2))
    (hprod : ∀ aConv, Ks.convIn a key = .ok aConv → ∀ i, i < rout + 1 → ∀ l ∈ (prodOf rout aConv key).act i, ∀ x ∈ l, |x| ≤ Hp)
    (hs : key.mat.colsIn ≤ sk.length)
    (hEL : ∀ i r, (EL i r).length = N) (hKL : ∀ i r, (KL i r).length = N)
    (hkey : ∀ i, i < key.mat.colsIn → ∀ r, r < key.mat.rows →
      Gadget.val (Ks.radix N key.base2k) key.mat.size (Ks.keyPhase N (sk.map (σ gInv)) key.mat i r) =
        Ks.ι N (sk.getD i []) * Ks.radix N key.base2k ^ (key.mat.size - (r + 1) * key.dsize) + Ks.ι N (EL i r)
          + Ks.radix N key.base2k ^ key.mat.size * Ks.ι N (KL i r))
    (hcov1 : convSize a key ≤ key.mat.size) (hcov2 : convSize a key ≤ key.mat.rows * key.dsize)
    (hdwf : dft0.WF) (hdn : dft0.n = N) (hdc : dft0.cols = rout + 1) (hds : dft0.size = key.mat.size) (hdm : dft0.maxSize = key.mat.size) :
    ∃ res aConv, Ks.automorphismFused .add big128 dft0 bout sout rout a key = .ok res ∧
      Ks.convIn a key = .ok aConv ∧ GWF N res ∧ res.base2k = bout ∧ res.size = sout ∧ res.rank = rout ∧
      ∃ (E1 E3 : Poly) (Q : Ks.R N), E1.length = N ∧ E3.length = N ∧
        normInf E1 ≤ (1 + snorm (min a.rank sk.length) sk) * C02.normTol (key.base2k * convSize a key) (a.base2k * a.size) ∧
        normInf E3 ≤ (1 + snorm (min rout sk.length) sk) * C02.normTol (bout * sout) (key.base2k * key.mat.size) ∧
        (2 : Ks.R N) ^ (a.base2k * a.size + key.base2k * key.mat.size) * Ks.ι N (valP bout N (phase sk res))
          = ((sgA .add : ℤ) : Ks.R N) *
              ((2 : Ks.R N) ^ (bout * sout + key.base2k * key.mat.size) * Ks.ι N (σ key.p (valP a.base2k N (phase sk a)))
                + Ks.ι N (σ key.p (ksErr (2 ^ (bout * sout + key.base2k * (key.mat.size - convSize a key)))
                    (2 ^ (a.base2k * a.size + bout * sout)) 0 E1 (Ks.errL N key.base2k (aDftOf aConv) key EL)
                    (Ks.dropL N key.base2k (sk.map (σ gInv)) (aDftOf aConv) key) (zeroP N))))
            + ((sgB .add : ℤ) : Ks.R N) *
              ((2 : Ks.R N) ^ (bout * sout + key.base2k * key.mat.size) * Ks.ι N (valP a.base2k N (phase sk a))
                + Ks.ι N (polyScale (2 ^ (bout * sout + key.base2k * (key.mat.size - convSize a key))) E1))
            + Ks.ι N (polyScale (2 ^ (a.base2k * a.size)) E3)
            + (2 : Ks.R N) ^ (a.base2k * a.size + bout * sout + key.base2k * key.mat.size) * Q ∧
        normInf (σ key.p (ksErr (2 ^ (bout * sout + key.base2k * (key.mat.size - convSize a key)))
                    (2 ^ (a.base2k * a.size + bout * sout)) 0 E1 (Ks.errL N key.base2k (aDftOf aConv) key EL)
                    (Ks.dropL N key.base2k (sk.map (σ gInv)) (aDftOf aConv) key) (zeroP N)))
          ≤ 2 ^ (bout * sout + key.base2k * (key.mat.size - convSize a key)) *
              ((1 + snorm (min a.rank sk.length) sk) * C02.normTol (key.base2k * convSize a key) (a.base2k * a.size))
            + 2 ^ (a.base2k * a.size + bout * sout) * gadgetBound N key.base2k (aDftOf aConv) key EL
            + 2 ^ (a.base2k * a.size + bout * sout) * dropBound N key.base2k (sk.map (σ gInv)) (aDftOf aConv) key :=
  KsDec.glwe_automorphism_add_decrypts_any big128 N bout sout rout a key dft0 sk gInv EL KL Hin Hp hN hg hsk hinv ha hrank hrout hra hc0 hD hM hS hbi1 hbi hbk1 hbk hbo1 hbo hIn0 hIn hInB hHp0 hAcc hprod hs hEL hKL hkey hcov1 hcov2 hdwf hdn hdc hds hdm

/-- `σ_p(KS(a)) − a`, arbitrary `res_dft` -/
theorem glwe_automorphism_sub_decrypts_any (big128 : Bool) (N bout sout rout : Nat) (a : Ks.Ct) (key : Ks.Key) (dft0 : Buf)
    (sk : List Poly) (gInv : Int) (EL KL : ℕ → ℕ → Poly) (Hin Hp : Int)
    (hN : 0 < N) (hg : GalOk key.p N) (hsk : Ks.AllLen N sk) (hinv : ∀ s ∈ sk, σ key.p (σ gInv s) = s)
    (ha : GWF N a) (hrank : a.rank = key.rankIn) (hrout : rout = key.rankOut) (hra : a.rank = rout) (hc0 : 0 < key.mat.colsOut)
    (hD : 1 ≤ key.dsize) (hM : ∀ j q, (key.mat.entry j q).length = N) (hS : key.mat.rows * key.dsize ≤ key.mat.size)
    (hbi1 : 1 ≤ a.base2k) (hbi : a.base2k ≤ 62) (hbk1 : 1 ≤ key.base2k) (hbk : key.base2k ≤ 62) (hbo1 : 1 ≤ bout) (hbo : bout ≤ 62)
    (hIn0 : 0 ≤ Hin) (hIn : Hin + 8 ≤ 2 ^ 62) (hInB : ∀ c ∈ a.cols, ∀ l ∈ c, ∀ x ∈ l, |x| ≤ Hin)
    (hHp0 : 0 ≤ Hp) (hAcc : Hp + 2 * (Hin + 2 ^ key.base2k) + 8 ≤ 2 ^ (bitsOf big128 - 2))
    (hprod : ∀ aConv, Ks.convIn a key = .ok aConv → ∀ i, i < rout + 1 → ∀ l ∈ (prodOf rout aConv key).act i, ∀ x ∈ l, |x| ≤ Hp)
    (hs : key.mat.colsIn ≤ sk.length)
    (hEL : ∀ i r, (EL i r).length = N) (hKL : ∀ i r, (KL i r).length = N)
    (hkey : ∀ i, i < key.mat.colsIn → ∀ r, r < key.mat.rows →
      Gadget.val (Ks.radix N key.base2k) key.mat.size (Ks.keyPhase N (sk.map (σ gInv)) key.mat i r) =
        Ks.ι N (sk.getD i []) * Ks.radix N key.base2k ^ (key.mat.size - (r + 1) * key.dsize) + Ks.ι N (EL i r)
          + Ks.radix N key.base2k ^ key.mat.size * Ks.ι N (KL i r))
    (hcov1 : convSize a key ≤ key.mat.size) (hcov2 : convSize a key ≤ key.mat.rows * key.dsize)
    (hdwf : dft0.WF) (hdn : dft0.n = N) (hdc : dft0.cols = rout + 1) (hds : dft0.size = key.mat.size) (hdm : dft0.maxSize = key.mat.size) :
    ∃ res aConv, Ks.automorphismFused .sub big128 dft0 bout sout rout a key = .ok res ∧
      Ks.convIn a key = .ok aConv ∧ GWF N res ∧ res.base2k = bout ∧ res.size = sout ∧ res.rank = rout ∧
      ∃ (E1 E3 : Poly) (Q : Ks.R N), E1.length = N ∧ E3.length = N ∧
        normInf E1 ≤ (1 + snorm (min a.rank sk.length) sk) * C02.normTol (key.base2k * convSize a key) (a.base2k * a.size) ∧
        normInf E3 ≤ (1 + snorm (min rout sk.length) sk) * C02.normTol (bout * sout) (key.base2k * key.mat.size) ∧
        (2 : Ks.R N) ^ (a.base2k * a.size + key.base2k * key.mat.size) * Ks.ι N (valP bout N (phase sk res))
          = ((sgA .sub : ℤ) : Ks.R N) *
              ((2 : Ks.R N) ^ (bout * sout + key.base2k * key.mat.size) * Ks.ι N (σ key.p (valP a.base2k N (phase sk a)))
                + Ks.ι N (σ key.p (ksErr (2 ^ (bout * sout + key.base2k * (key.mat.size - convSize a key)))
                    (2 ^ (a.base2k * a.size + bout * sout)) 0 E1 (Ks.errL N key.base2k (aDftOf aConv) key EL)
                    (Ks.dropL N key.base2k (sk.map (σ gInv)) (aDftOf aConv) key) (zeroP N))))
            + ((sgB .sub : ℤ) : Ks.R N) *
              ((2 : Ks.R N) ^ (bout * sout + key.base2k * key.mat.size) * Ks.ι N (valP a.base2k N (phase sk a))
                + Ks.ι N (polyScale (2 ^ (bout * sout + key.base2k * (key.mat.size - convSize a key))) E1))
            + Ks.ι N (polyScale (2 ^ (a.base2k * a.size)) E3)
            + (2 : Ks.R N) ^ (a.base2k * a.size + bout * sout + key.base2k * key.mat.size) * Q ∧
        normInf (σ key.p (ksErr (2 ^ (bout * sout + key.base2k * (key.mat.size - convSize a key)))
                    (2 ^ (a.base2k * a.size + bout * sout)) 0 E1 (Ks.errL N key.base2k (aDftOf aConv) key EL)
                    (Ks.dropL N key.base2k (sk.map (σ gInv)) (aDftOf aConv) key) (zeroP N)))
          ≤ 2 ^ (bout * sout + key.base2k * (key.mat.size - convSize a key)) *
              ((1 + snorm (min a.rank sk.length) sk) * C02.normTol (key.base2k * convSize a key) (a.base2k * a.size))
            + 2 ^ (a.base2k * a.size + bout * sout) * gadgetBound N key.base2k (aDftOf aConv) key EL
            + 2 ^ (a.base2k * a.size + bout * sout) * dropBound N key.base2k (sk.map (σ gInv)) (aDftOf aConv) key :=
  KsDec.glwe_automorphism_sub_decrypts_any big128 N bout sout rout a key dft0 sk gInv EL KL Hin Hp hN hg hsk hinv ha hrank hrout hra hc0 hD hM hS hbi1 hbi hbk1 hbk hbo1 hbo hIn0 hIn hInB hHp0 hAcc hprod hs hEL hKL hkey hcov1 hcov2 hdwf hdn hdc hds hdm

/-- `a − σ_p(KS(a))`, arbitrary `res_dft` -/
theorem glwe_automorphism_sub_negate_decrypts_any (big128 : Bool) (N bout sout rout : Nat) (a : Ks.Ct) (key : Ks.Key) (dft0 : Buf)
    (sk : List Poly) (gInv : Int) (EL KL : ℕ → ℕ → Poly) (Hin Hp : Int)
    (hN : 0 < N) (hg : GalOk key.p N) (hsk : Ks.AllLen N sk) (hinv : ∀ s ∈ sk, σ key.p (σ gInv s) = s)
    (ha : GWF N a) (hrank : a.rank = key.rankIn) (hrout : rout = key.rankOut) (hra : a.rank = rout) (hc0 : 0 < key.mat.colsOut)
    (hD : 1 ≤ key.dsize) (hM : ∀ j q, (key.mat.entry j q).length = N) (hS : key.mat.rows * key.dsize ≤ key.mat.size)
    (hbi1 : 1 ≤ a.base2k) (hbi : a.base2k ≤ 62) (hbk1 : 1 ≤ key.base2k) (hbk : key.base2k ≤ 62) (hbo1 : 1 ≤ bout) (hbo : bout ≤ 62)
    (hIn0 : 0 ≤ Hin) (hIn : Hin + 8 ≤ 2 ^ 62) (hInB : ∀ c ∈ a.cols, ∀ l ∈ c, ∀ x ∈ l, |x| ≤ Hin)
    (hHp0 : 0 ≤ Hp) (hAcc : Hp + 2 * (Hin + 2 ^ key.base2k) + 8 ≤ 2 ^ (bitsOf big128 - 2))
    (hprod : ∀ aConv, Ks.convIn a key = .ok aConv → ∀ i, i < rout + 1 → ∀ l ∈ (prodOf rout aConv key).act i, ∀ x ∈ l, |x| ≤ Hp)
    (hs : key.mat.colsIn ≤ sk.length)
    (hEL : ∀ i r, (EL i r).length = N) (hKL : ∀ i r, (KL i r).length = N)
    (hkey : ∀ i, i < key.mat.colsIn → ∀ r, r < key.mat.rows →
      Gadget.val (Ks.radix N key.base2k) key.mat.size (Ks.keyPhase N (sk.map (σ gInv)) key.mat i r) =
        Ks.ι N (sk.getD i []) * Ks.radix N key.base2k ^ (key.mat.size - (r + 1) * key.dsize) + Ks.ι N (EL i r)
          + Ks.radix N key.base2k ^ key.mat.size * Ks.ι N (KL i r))
    (hcov1 : convSize a key ≤ key.mat.size) (hcov2 : convSize a key ≤ key.mat.rows * key.dsize)
    (hdwf : dft0.WF) (hdn : dft0.n = N) (hdc : dft0.cols = rout + 1) (hds : dft0.size = key.mat.size) (hdm : dft0.maxSize = key.mat.size) :
    ∃ res aConv, Ks.automorphismFused .subNegate big128 dft0 bout sout rout a key = .ok res ∧
      Ks.convIn a key = .ok aConv ∧ GWF N res ∧ res.base2k = bout ∧ res.size = sout ∧ res.rank = rout ∧
      ∃ (E1 E3 : Poly) (Q : Ks.R N), E1.length = N ∧ E3.length = N ∧
        normInf E1 ≤ (1 + snorm (min a.rank sk.length) sk) * C02.normTol (key.base2k * convSize a key) (a.base2k * a.size) ∧
        normInf E3 ≤ (1 + snorm (min rout sk.length) sk) * C02.normTol (bout * sout) (key.base2k * key.mat.size) ∧
        (2 : Ks.R N) ^ (a.base2k * a.size + key.base2k * key.mat.size) * Ks.ι N (valP bout N (phase sk res))
          = ((sgA .subNegate : ℤ) : Ks.R N) *
              ((2 : Ks.R N) ^ (bout * sout + key.base2k * key.mat.size) * Ks.ι N (σ key.p (valP a.base2k N (phase sk a)))
                + Ks.ι N (σ key.p (ksErr (2 ^ (bout * sout + key.base2k * (key.mat.size - convSize a key)))
                    (2 ^ (a.base2k * a.size + bout * sout)) 0 E1 (Ks.errL N key.base2k (aDftOf aConv) key EL)
                    (Ks.dropL N key.base2k (sk.map (σ gInv)) (aDftOf aConv) key) (zeroP N))))
            + ((sgB .subNegate : ℤ) : Ks.R N) *
              ((2 : Ks.R N) ^ (bout * sout + key.base2k * key.mat.size) * Ks.ι N (valP a.base2k N (phase sk a))
                + Ks.ι N (polyScale (2 ^ (bout * sout + key.base2k * (key.mat.size - convSize a key))) E1))
            + Ks.ι N (polyScale (2 ^ (a.base2k * a.size)) E3)
            + (2 : Ks.R N) ^ (a.base2k * a.size + bout * sout + key.base2k * key.mat.size) * Q ∧
        normInf (σ key.p (ksErr (2 ^ (bout * sout + key.base2k * (key.mat.size - convSize a key)))
                    (2 ^ (a.base2k * a.size + bout * sout)) 0 E1 (Ks.errL N key.base2k (aDftOf aConv) key EL)
                    (Ks.dropL N key.base2k (sk.map (σ gInv)) (aDftOf aConv) key) (zeroP N)))
          ≤ 2 ^ (bout * sout + key.base2k * (key.mat.size - convSize a key)) *
              ((1 + snorm (min a.rank sk.length) sk) * C02.normTol (key.base2k * convSize a key) (a.base2k * a.size))
            + 2 ^ (a.base2k * a.size + bout * sout) * gadgetBound N key.base2k (aDftOf aConv) key EL
            + 2 ^ (a.base2k * a.size + bout * sout) * dropBound N key.base2k (sk.map (σ gInv)) (aDftOf aConv) key :=
  KsDec.glwe_automorphism_sub_negate_decrypts_any big128 N bout sout rout a key dft0 sk gInv EL KL Hin Hp hN hg hsk hinv ha hrank hrout hra hc0 hD hM hS hbi1 hbi hbk1 hbk hbo1 hbo hIn0 hIn hInB hHp0 hAcc hprod hs hEL hKL hkey hcov1 hcov2 hdwf hdn hdc hds hdm

/-- in-place forms, arbitrary `res_dft` -/
theorem glwe_automorphism_fused_assign_decrypts_any (f : Ks.Fused) (big128 : Bool) (N : Nat) (a : Ks.Ct) (key : Ks.Key) (dft0 : Buf)
    (sk : List Poly) (gInv : Int) (EL KL : ℕ → ℕ → Poly) (Hin Hp : Int)
    (hN : 0 < N) (hg : GalOk key.p N) (hsk : Ks.AllLen N sk) (hinv : ∀ s ∈ sk, σ key.p (σ gInv s) = s)
    (ha : GWF N a) (hrank : a.rank = key.rankIn) (hrout : a.rank = key.rankOut) (hc0 : 0 < key.mat.colsOut)
    (hD : 1 ≤ key.dsize) (hM : ∀ j q, (key.mat.entry j q).length = N) (hS : key.mat.rows * key.dsize ≤ key.mat.size)
    (hbi1 : 1 ≤ a.base2k) (hbi : a.base2k ≤ 62) (hbk1 : 1 ≤ key.base2k) (hbk : key.base2k ≤ 62)
    (hIn0 : 0 ≤ Hin) (hIn : Hin + 8 ≤ 2 ^ 62) (hInB : ∀ c ∈ a.cols, ∀ l ∈ c, ∀ x ∈ l, |x| ≤ Hin)
    (hHp0 : 0 ≤ Hp) (hAcc : Hp + 2 * (Hin + 2 ^ key.base2k) + 8 ≤ 2 ^ (bitsOf big128 - 2))
    (hprod : ∀ aConv, Ks.convIn a key = .ok aConv → ∀ i, i < a.rank + 1 → ∀ l ∈ (prodOf a.rank aConv key).act i, ∀ x ∈ l, |x| ≤ Hp)
    (hs : key.mat.colsIn ≤ sk.length)
    (hEL : ∀ i r, (EL i r).length = N) (hKL : ∀ i r, (KL i r).length = N)
    (hkey : ∀ i, i < key.mat.colsIn → ∀ r, r < key.mat.rows →
      Gadget.val (Ks.radix N key.base2k) key.mat.size (Ks.keyPhase N (sk.map (σ gInv)) key.mat i r) =
        Ks.ι N (sk.getD i []) * Ks.radix N key.base2k ^ (key.mat.size - (r + 1) * key.dsize) + Ks.ι N (EL i r)
          + Ks.radix N key.base2k ^ key.mat.size * Ks.ι N (KL i r))
    (hcov1 : convSize a key ≤ key.mat.size) (hcov2 : convSize a key ≤ key.mat.rows * key.dsize)
    (hdwf : dft0.WF) (hdn : dft0.n = N) (hdc : dft0.cols = a.rank + 1) (hds : dft0.size = key.mat.size) (hdm : dft0.maxSize = key.mat.size) :
    ∃ res aConv, Ks.automorphismFused f big128 dft0 a.base2k a.size a.rank a key = .ok res ∧
      Ks.convIn a key = .ok aConv ∧ GWF N res ∧ res.base2k = a.base2k ∧ res.size = a.size ∧ res.rank = a.rank ∧
      ∃ (E1 E3 : Poly) (Q : Ks.R N), E1.length = N ∧ E3.length = N ∧
        normInf E1 ≤ (1 + snorm (min a.rank sk.length) sk) * C02.normTol (key.base2k * convSize a key) (a.base2k * a.size) ∧
        normInf E3 ≤ (1 + snorm (min a.rank sk.length) sk) * C02.normTol (a.base2k * a.size) (key.base2k * key.mat.size) ∧
        (2 : Ks.R N) ^ (a.base2k * a.size + key.base2k * key.mat.size) * Ks.ι N (valP a.base2k N (phase sk res))
          = (sgA f : Ks.R N) *
              ((2 : Ks.R N) ^ (a.base2k * a.size + key.base2k * key.mat.size) * Ks.ι N (σ key.p (valP a.base2k N (phase sk a)))
                + Ks.ι N (σ key.p (ksErr (2 ^ (a.base2k * a.size + key.base2k * (key.mat.size - convSize a key)))
                    (2 ^ (a.base2k * a.size + a.base2k * a.size)) 0 E1 (Ks.errL N key.base2k (aDftOf aConv) key EL)
                    (Ks.dropL N key.base2k (sk.map (σ gInv)) (aDftOf aConv) key) (zeroP N))))
            + (sgB f : Ks.R N) *
              ((2 : Ks.R N) ^ (a.base2k * a.size + key.base2k * key.mat.size) * Ks.ι N (valP a.base2k N (phase sk a))
                + Ks.ι N (polyScale (2 ^ (a.base2k * a.size + key.base2k * (key.mat.size - convSize a key))) E1))
            + Ks.ι N (polyScale (2 ^ (a.base2k * a.size)) E3)
            + (2 : Ks.R N) ^ (a.base2k * a.size + a.base2k * a.size + key.base2k * key.mat.size) * Q ∧
        normInf (σ key.p (ksErr (2 ^ (a.base2k * a.size + key.base2k * (key.mat.size - convSize a key)))
                    (2 ^ (a.base2k * a.size + a.base2k * a.size)) 0 E1 (Ks.errL N key.base2k (aDftOf aConv) key EL)
                    (Ks.dropL N key.base2k (sk.map (σ gInv)) (aDftOf aConv) key) (zeroP N)))
          ≤ 2 ^ (a.base2k * a.size + key.base2k * (key.mat.size - convSize a key)) *
              ((1 + snorm (min a.rank sk.length) sk) * C02.normTol (key.base2k * convSize a key) (a.base2k * a.size))
            + 2 ^ (a.base2k * a.size + a.base2k * a.size) * gadgetBound N key.base2k (aDftOf aConv) key EL
            + 2 ^ (a.base2k * a.size + a.base2k * a.size) * dropBound N key.base2k (sk.map (σ gInv)) (aDftOf aConv) key :=
  KsDec.glwe_automorphism_fused_assign_decrypts_any f big128 N a key dft0 sk gInv EL KL Hin Hp hN hg hsk hinv ha hrank hrout hc0 hD hM hS hbi1 hbi hbk1 hbk hIn0 hIn hInB hHp0 hAcc hprod hs hEL hKL hkey hcov1 hcov2 hdwf hdn hdc hds hdm

/-- the former defect witness (garbage in the limb the first pass skips, `dsize = 3`): same result as with the zeroed scratch, by the theorem -/
example (f : Ks.Fused) (big128 : Bool) :
    Ks.automorphismFused f big128 KsDec.dirtyR1 3 2 1 KsDec.exCt KsDec.exKeyR1 =
      Ks.automorphismFused f big128 (Ks.zeroBuf 1 (1 + 1) KsDec.exKeyR1.size) 3 2 1 KsDec.exCt KsDec.exKeyR1 :=
  automorphism_fused_dft0_irrelevant f big128 1 KsDec.dirtyR1 3 2 1 KsDec.exCt KsDec.exKeyR1 (by decide) (by decide) rfl KsDec.dirtyR1_WF
    rfl rfl rfl rfl
example : Ks.automorphismFused .add false KsDec.dirtyR1 3 2 1 KsDec.exCt KsDec.exKeyR1 = .ok (Ks.mkCt 3 1 [[[3], [-4]], [[1], [-4]]]) := by
  decide +kernel
end FusedAnySec

section TraceJumpSec
open TraceJump AutoMul Hal
variable {M : Type*} [AddCommGroup M]

/-- **the trace over the levels `j … K−1` maps `R` into `2^{K−j}·R`** (more precisely into `2^{K−j}·ℤ[X^{2^j}]`): monomial by monomial, `σ_{g_i}(X^t) = X^t` for `i ≥ K − v₂(t)`, `= −X^t` for `i = K−1−v₂(t)` (`v₂(g_i − 1) = i+1`: `5^{2^{i−1}} ≡ 1 + 2^{i+1} mod 2^{i+2}`) -/
theorem trace_suffix (K j n : ℕ) (h : j + n = K) (x : Ks.R (2 ^ K)) :
    ∃ z, InSub (2 ^ K) (2 ^ n) z ∧ traceOp (2 ^ K) (List.range' j n) x = 2 ^ n • z :=
  TraceJump.trace_suffix K j n h x

/-- divisibility form -/
theorem trace_suffix_dvd (K j : ℕ) (hj : j ≤ K) (x : Ks.R (2 ^ K)) :
    ∃ y, traceOp (2 ^ K) (List.range' j (K - j)) x = 2 ^ (K - j) • y :=
  TraceJump.trace_suffix_dvd K j hj x

/-- the full trace lands in `2^K·ℤ` -/
theorem trace_full_int (K : ℕ) (x : Ks.R (2 ^ K)) :
    ∃ c : ℤ, traceOp (2 ^ K) (List.range' 0 K) x = 2 ^ K • (c : Ks.R (2 ^ K)) :=
  TraceJump.trace_full_int K x

/-- **the executed trace is sound modulo 1**: from the per-level relations (`glwe_rsh 1`: `2φ' = φ + e + 2Q·k`; fused add: `φ⁺ = φ' + σφ' + E + Q·k'`) the wraps `Q·k` of every level are mapped into `2^n·Q·R` by the remaining levels (`trace_suffix`), hence `2^n·φ_K = T(φ_j) + Err + 2^n·Q·z` -/
theorem trace_compose_ring (K j n : ℕ) (h : j + n = K) (Q : ℤ) (φ φ' e E k k' : ℕ → Ks.R (2 ^ K))
    (h1 : ∀ i, j ≤ i → i < K → 2 • φ' i = φ i + e i + (2 * Q) • k i)
    (h2 : ∀ i, j ≤ i → i < K → φ (i + 1) = φ' i + sig (2 ^ K) (lvl (2 ^ K) i) (φ' i) + E i + Q • k' i) :
    ∃ kk, 2 ^ n • φ K = traceOp (2 ^ K) (List.range' j n) (φ j)
        + traceErr (2 ^ K) (fun i => step (2 ^ K) i (e i) + 2 • E i) j n + (2 ^ n * Q) • kk :=
  TraceJump.trace_compose_ring K j n h Q φ φ' e E k k' h1 h2

/-- with the error as a coefficient list and its norm: `‖Err‖_∞ ≤ 2^n·Σ_levels (a_i + b_i)` — after dividing by `2^n`: the sum over the levels of the `rsh` unit and the automorphism noise -/
theorem trace_compose (K j n : ℕ) (h : j + n = K) (Q : ℤ) (gs : ℕ → ℤ) (φ φ' k k' : ℕ → Ks.R (2 ^ K))
    (eL EL : ℕ → Poly) (a b : ℕ → ℤ)
    (hg : ∀ i, j ≤ i → i < K → IsLvl (2 ^ K) (gs i) i)
    (hel : ∀ i, (eL i).length = 2 ^ K) (hEl : ∀ i, (EL i).length = 2 ^ K)
    (he : ∀ i, j ≤ i → i < K → normInf (eL i) ≤ a i) (hE : ∀ i, j ≤ i → i < K → normInf (EL i) ≤ b i)
    (h1 : ∀ i, j ≤ i → i < K → 2 • φ' i = φ i + Ks.ι (2 ^ K) (eL i) + (2 * Q) • k i)
    (h2 : ∀ i, j ≤ i → i < K →
      φ (i + 1) = φ' i + sig (2 ^ K) (lvl (2 ^ K) i) (φ' i) + Ks.ι (2 ^ K) (EL i) + Q • k' i) :
    ∃ (kk : Ks.R (2 ^ K)) (ErrL : Poly), ErrL.length = 2 ^ K ∧
      normInf ErrL ≤ 2 ^ n * ∑ t ∈ Finset.range n, (a (j + t) + b (j + t)) ∧
      2 ^ n • φ K = traceOp (2 ^ K) (List.range' j n) (φ j) + Ks.ι (2 ^ K) ErrL + (2 ^ n * Q) • kk :=
  TraceJump.trace_compose K j n h Q gs φ φ' k k' eL EL a b hg hel hEl he hE h1 h2

/-- the executable's `traceGalois` produces exactly these Galois elements -/
theorem trace_galois_is_level (K i : ℕ) (hK : K + 1 ≤ 64) (g : ℤ) (h : Ks.traceGalois (2 ^ K) i = .ok g) :
    IsLvl (2 ^ K) g i :=
  TraceJump.traceGalois_isLvl K i hK g h

/-- `N = 4`: the full trace of any `x` is `4·z` with `z ∈ ℤ`; the level-1 factor kills `X`, doubles `X²` -/
example (x : Ks.R (2 ^ 2)) : ∃ z, TraceJump.InSub (2 ^ 2) (2 ^ 2) z ∧ TraceJump.traceOp (2 ^ 2) [0, 1] x = 2 ^ 2 • z :=
  trace_suffix 2 0 2 rfl x
example : TraceJump.step (2 ^ 2) 1 (TraceJump.rt (2 ^ 2)) = 0 ∧
    TraceJump.step (2 ^ 2) 1 (TraceJump.rt (2 ^ 2) ^ 2) = 2 • TraceJump.rt (2 ^ 2) ^ 2 := ⟨TraceJump.ex_step1_X, TraceJump.ex_step1_X2⟩
example (g : ℤ) (h : Ks.traceGalois (2 ^ 10) 3 = .ok g) : TraceJump.IsLvl (2 ^ 10) g 3 :=
  trace_galois_is_level 10 3 (by norm_num) g h
end TraceJumpSec

section GgswDecryptSec
open KsDec Hal Core Core.Ops C02L AutoMul
variable {M : Type*} [AddCommGroup M]

/-- `ExpandOk` (shape of the product, no wrap of the body addition) derived for BOTH accumulator widths from digit bounds -/
theorem expand_ok_of_bounds (N : Nat) (big128 : Bool) (a0 : Col) (aDft : List Col) (t : ToGGSWKey) (c : Nat) (Hp Ha : Int)
    (hd : 1 ≤ t.dsize) (hn : t.n = N) (hM : ∀ j q, ((t.at c).toPMat.entry j q).length = N) (hc : c < t.rank)
    (ha0 : LimbsN N a0) (hH : Hp + Ha < 2 ^ (bitsOf big128 - 1))
    (hprod : ∀ l ∈ (expandProd N aDft t c).getD (c + 1) [], ∀ x ∈ l, |x| ≤ Hp)
    (hbody : ∀ l ∈ a0, ∀ x ∈ l, |x| ≤ Ha) : ExpandOk N big128 a0 aDft t c :=
  KsDec.expandOk_of_bounds N big128 a0 aDft t c Hp Ha hd hn hM hc ha0 hH hprod hbody

/-- the row value of the expansion is the C02 phase value of the column-0 cell (same radix, covered regime) -/
theorem ggsw_row_value_same (N : Nat) (hN : 0 < N) (y : Ks.Ct) (t : ToGGSWKey) (sk : List Poly) (hy : GWF N y) (hrank : y.rank = t.rank)
    (hd : 1 ≤ t.dsize) (hsk : t.rank ≤ sk.length) (h1 : y.size ≤ t.size) (h2 : y.size ≤ t.dnum * t.dsize) :
    rowVal N ((2 : Ks.R N) ^ t.base2k) (y.cols.getD 0 []) (maskOf t y) t (fun i => Ks.ι N (sk.getD i []))
      = ((2 : Ks.R N) ^ t.base2k) ^ (t.size - y.size) * Ks.ι N (valP t.base2k N (phase sk y)) :=
  KsDec.rowVal_same N hN y t sk hy hrank hd hsk h1 h2

/-- normalisation of an expansion accumulator to a cell, lifted to phases (C08 discharged) -/
theorem ggsw_acc_norm_phase (big128 : Bool) (N rb rs ab S : Nat) (H : Int) (L cell : List Col) (hN : 0 < N)
    (hrb1 : 1 ≤ rb) (hrb : rb ≤ 62) (hab1 : 1 ≤ ab) (hab : ab ≤ 62) (hH0 : 0 ≤ H) (hH : H + 8 ≤ 2 ^ (bitsOf big128 - 2))
    (hne : L ≠ []) (hwf : ∀ c ∈ L, ColWF N S c) (hb : ∀ c ∈ L, ∀ l ∈ c, ∀ x ∈ l, |x| ≤ H)
    (hcell : L.mapM (fun x => bigNormalizeOff big128 N rb rs 0 x ab) = some cell) :
    cell.length = L.length ∧ (∀ c ∈ cell, ColWF N rs c) ∧ (∀ c ∈ cell, ∀ l ∈ c, ∀ x ∈ l, |x| ≤ 2 ^ rb - 1) ∧
      ∀ s : List Poly, ∃ E Q : Poly, E.length = N ∧ Q.length = N ∧
        normInf E ≤ (1 + snorm (min (L.length - 1) s.length) s) * C02.normTol (rb * rs) (ab * S) ∧
        (2 : Ks.R N) ^ (ab * S) * Ks.ι N (valP rb N (phase s (Ks.mkCt rb N cell)))
          = (2 : Ks.R N) ^ (rb * rs) *
              (∑ l ∈ Finset.range S, Ks.ι N (Ks.phaseRow s (L.map (fun col => limbOr0 N col l))) * ((2 : Ks.R N) ^ ab) ^ (S - 1 - l))
            + Ks.ι N E + (2 : Ks.R N) ^ (rb * rs + ab * S) * Ks.ι N Q :=
  KsDec.acc_norm_phase big128 N rb rs ab S H L cell hN hrb1 hrb hab1 hab hH0 hH hne hwf hb hcell

/-- **`ggsw_keyswitch_decrypts`, per cell**: cell `(r, c)` of the result decrypts under `skOut` to `σ_c ·` (phase of the operand's cell `(r,0)` under `skIn`) + explicit error (`σ_c`·key-switch error + expansion error + normalisation), `σ_0 = 1`, `σ_c = s_{c−1}` -/
theorem ggsw_keyswitch_decrypts (N : Nat) (big128 : Bool) (rs rd rds ab ads : Nat) (aCol0 : List Ks.Ct) (key : Ks.Key) (t : ToGGSWKey)
    (cells : List (List Col)) (sIn skOut : List Poly) (EL KL : ℕ → ℕ → Poly) (ET : ℕ → ℕ → ℕ → Ks.R N) (Hin Hp HpT : Int)
    (hN : 0 < N) (hrout : t.rank = key.rankOut) (hc0 : 0 < key.mat.colsOut)
    (hD : 1 ≤ key.dsize) (hMk : ∀ j q, (key.mat.entry j q).length = N) (hSk : key.mat.rows * key.dsize ≤ key.mat.size)
    (hbk1 : 1 ≤ key.base2k) (hbk : key.base2k ≤ 62) (hs : key.mat.colsIn ≤ sIn.length)
    (hEL : ∀ i r, (EL i r).length = N) (hKL : ∀ i r, (KL i r).length = N)
    (hkey : ∀ i, i < key.mat.colsIn → ∀ r, r < key.mat.rows →
      Gadget.val (Ks.radix N key.base2k) key.mat.size (Ks.keyPhase N skOut key.mat i r) =
        Ks.ι N (sIn.getD i []) * Ks.radix N key.base2k ^ (key.mat.size - (r + 1) * key.dsize) + Ks.ι N (EL i r)
          + Ks.radix N key.base2k ^ key.mat.size * Ks.ι N (KL i r))
    (hd : 1 ≤ t.dsize) (hn : t.n = N) (hS : t.dnum * t.dsize ≤ t.size) (hrank : t.rank ≤ skOut.length)
    (hMt : ∀ c, c < t.rank → ∀ j q, ((t.at c).toPMat.entry j q).length = N) (hb1 : 1 ≤ t.base2k) (hb : t.base2k ≤ 62)
    (hkeyT : ∀ c, c < t.rank → ∀ i, i < t.rank → ∀ r, r < t.dnum →
      Gadget.val ((2 : Ks.R N) ^ t.base2k) t.size (Ks.keyPhase N skOut (t.at c).toPMat i r)
        = Ks.ι N (skOut.getD c []) * Ks.ι N (skOut.getD i []) * ((2 : Ks.R N) ^ t.base2k) ^ (t.size - (r + 1) * t.dsize) + ET c i r)
    (hcov1 : rs ≤ t.size) (hcov2 : rs ≤ t.dnum * t.dsize)
    (hIn0 : 0 ≤ Hin) (hIn : Hin + 8 ≤ 2 ^ 62) (hHp0 : 0 ≤ Hp) (hAcc : Hp + (Hin + 2 ^ key.base2k) + 8 ≤ 2 ^ (bitsOf big128 - 2))
    (hHpT0 : 0 ≤ HpT) (hAccT : HpT + 2 ^ t.base2k + 8 ≤ 2 ^ (bitsOf big128 - 2))
    (hrows : ∀ r x, r < rd → aCol0[r]? = some x → KsRowOk N key.rankOut key Hin Hp x)
    (hprodT : ∀ r x y, r < rd → aCol0[r]? = some x → Ks.keyswitch big128 t.base2k rs key.rankOut x key = .ok y →
      ∀ c, c < t.rank → ∀ col ∈ expandProd N (maskOf t y) t c, ∀ l ∈ col, ∀ v ∈ l, |v| ≤ HpT)
    (h : Ks.ggswKeyswitch big128 N t.base2k rs rd rds ab ads aCol0 key t = .ok cells) :
    cells.length = rd * (t.rank + 1) ∧
      ∀ r, r < rd → ∃ x y aConv, aCol0[r]? = some x ∧ Ks.keyswitch big128 t.base2k rs key.rankOut x key = .ok y ∧
        Ks.convIn x key = .ok aConv ∧ cells[r * (t.rank + 1)]? = some y.cols ∧
        GWF N y ∧ y.base2k = t.base2k ∧ y.size = rs ∧ y.rank = t.rank ∧
        ∃ (E1 E3 : Poly) (Q : Ks.R N), E1.length = N ∧ E3.length = N ∧
          normInf E1 ≤ (1 + snorm (min x.rank sIn.length) sIn) * C02.normTol (key.base2k * convSize x key) (x.base2k * x.size) ∧
          normInf E3 ≤ (1 + snorm (min key.rankOut skOut.length) skOut) * C02.normTol (t.base2k * rs) (key.base2k * key.mat.size) ∧
          normInf (ksErrOf N t.base2k rs x aConv key skOut EL E1 E3) ≤ ksErrBound N t.base2k rs key.rankOut x aConv key sIn skOut EL ∧
          (2 : Ks.R N) ^ (x.base2k * x.size + key.base2k * key.mat.size) * Ks.ι N (valP t.base2k N (phase skOut y))
            = (2 : Ks.R N) ^ (t.base2k * rs + key.base2k * key.mat.size) * Ks.ι N (valP x.base2k N (phase sIn x))
              + Ks.ι N (ksErrOf N t.base2k rs x aConv key skOut EL E1 E3)
              + (2 : Ks.R N) ^ (x.base2k * x.size + key.base2k * key.mat.size + t.base2k * rs) * Q ∧
          ∀ c, c < t.rank → ∃ cell, cells[r * (t.rank + 1) + (c + 1)]? = some cell ∧ cell.length = t.rank + 1 ∧
            (∀ col ∈ cell, ColWF N rs col) ∧ (∀ col ∈ cell, ∀ l ∈ col, ∀ v ∈ l, |v| ≤ 2 ^ t.base2k - 1) ∧
            ∃ E3c Q3c : Poly, E3c.length = N ∧ Q3c.length = N ∧
              normInf E3c ≤ (1 + snorm (min t.rank skOut.length) skOut) * C02.normTol (t.base2k * rs) (t.base2k * t.size) ∧
              (2 : Ks.R N) ^ (x.base2k * x.size + key.base2k * key.mat.size + t.base2k * t.size) *
                  Ks.ι N (valP t.base2k N (phase skOut (Ks.mkCt t.base2k N cell)))
                = (2 : Ks.R N) ^ (t.base2k * rs + key.base2k * key.mat.size + t.base2k * t.size) *
                    (Ks.ι N (skOut.getD c []) * Ks.ι N (valP x.base2k N (phase sIn x)))
                  + ((2 : Ks.R N) ^ (t.base2k * t.size) * (Ks.ι N (skOut.getD c []) * Ks.ι N (ksErrOf N t.base2k rs x aConv key skOut EL E1 E3))
                    + (2 : Ks.R N) ^ (x.base2k * x.size + key.base2k * key.mat.size + t.base2k * rs) *
                        expandErr N skOut (maskOf t y) t c ((2 : Ks.R N) ^ t.base2k) (ET c)
                    + (2 : Ks.R N) ^ (x.base2k * x.size + key.base2k * key.mat.size) * Ks.ι N E3c)
                  + (2 : Ks.R N) ^ (x.base2k * x.size + key.base2k * key.mat.size + t.base2k * rs + t.base2k * t.size) *
                      (Ks.ι N (skOut.getD c []) * Q + Ks.ι N Q3c) :=
  KsDec.ggsw_keyswitch_decrypts N big128 rs rd rds ab ads aCol0 key t cells sIn skOut EL KL ET Hin Hp HpT hN hrout hc0 hD hMk hSk hbk1 hbk hs hEL hKL hkey hd hn hS hrank hMt hb1 hb hkeyT hcov1 hcov2 hIn0 hIn hHp0 hAcc hHpT0 hAccT hrows hprodT h

/-- same for `ggsw_automorphism` (`σ_p` of the operand's phase) -/
theorem ggsw_automorphism_decrypts (N : Nat) (big128 : Bool) (rs rd rds ab ads : Nat) (aCol0 : List Ks.Ct) (key : Ks.Key) (t : ToGGSWKey)
    (cells : List (List Col)) (sk : List Poly) (gInv : Int) (EL KL : ℕ → ℕ → Poly) (ET : ℕ → ℕ → ℕ → Ks.R N) (Hin Hp HpT : Int)
    (hN : 0 < N) (hg : GalOk key.p N) (hskl : Ks.AllLen N sk) (hinv : ∀ s ∈ sk, σ key.p (σ gInv s) = s)
    (hrout : t.rank = key.rankOut) (hc0 : 0 < key.mat.colsOut)
    (hD : 1 ≤ key.dsize) (hMk : ∀ j q, (key.mat.entry j q).length = N) (hSk : key.mat.rows * key.dsize ≤ key.mat.size)
    (hbk1 : 1 ≤ key.base2k) (hbk : key.base2k ≤ 62) (hs : key.mat.colsIn ≤ sk.length)
    (hEL : ∀ i r, (EL i r).length = N) (hKL : ∀ i r, (KL i r).length = N)
    (hkey : ∀ i, i < key.mat.colsIn → ∀ r, r < key.mat.rows →
      Gadget.val (Ks.radix N key.base2k) key.mat.size (Ks.keyPhase N (sk.map (σ gInv)) key.mat i r) =
        Ks.ι N (sk.getD i []) * Ks.radix N key.base2k ^ (key.mat.size - (r + 1) * key.dsize) + Ks.ι N (EL i r)
          + Ks.radix N key.base2k ^ key.mat.size * Ks.ι N (KL i r))
    (hd : 1 ≤ t.dsize) (hn : t.n = N) (hS : t.dnum * t.dsize ≤ t.size) (hrank : t.rank ≤ sk.length)
    (hMt : ∀ c, c < t.rank → ∀ j q, ((t.at c).toPMat.entry j q).length = N) (hb1 : 1 ≤ t.base2k) (hb : t.base2k ≤ 62)
    (hkeyT : ∀ c, c < t.rank → ∀ i, i < t.rank → ∀ r, r < t.dnum →
      Gadget.val ((2 : Ks.R N) ^ t.base2k) t.size (Ks.keyPhase N sk (t.at c).toPMat i r)
        = Ks.ι N (sk.getD c []) * Ks.ι N (sk.getD i []) * ((2 : Ks.R N) ^ t.base2k) ^ (t.size - (r + 1) * t.dsize) + ET c i r)
    (hcov1 : rs ≤ t.size) (hcov2 : rs ≤ t.dnum * t.dsize)
    (hIn0 : 0 ≤ Hin) (hIn : Hin + 8 ≤ 2 ^ 62) (hHp0 : 0 ≤ Hp) (hAcc : Hp + (Hin + 2 ^ key.base2k) + 8 ≤ 2 ^ (bitsOf big128 - 2))
    (hHpT0 : 0 ≤ HpT) (hAccT : HpT + 2 ^ t.base2k + 8 ≤ 2 ^ (bitsOf big128 - 2))
    (hrows : ∀ r x, r < rd → aCol0[r]? = some x → KsRowOk N key.rankOut key Hin Hp x)
    (hprodT : ∀ r x y, r < rd → aCol0[r]? = some x → Ks.automorphism big128 t.base2k rs key.rankOut x key = .ok y →
      ∀ c, c < t.rank → ∀ col ∈ expandProd N (maskOf t y) t c, ∀ l ∈ col, ∀ v ∈ l, |v| ≤ HpT)
    (h : Ks.ggswAutomorphism big128 N t.base2k rs rd rds ab ads aCol0 key t = .ok cells) :
    cells.length = rd * (t.rank + 1) ∧
      ∀ r, r < rd → ∃ x y aConv, aCol0[r]? = some x ∧ Ks.automorphism big128 t.base2k rs key.rankOut x key = .ok y ∧
        Ks.convIn x key = .ok aConv ∧ cells[r * (t.rank + 1)]? = some y.cols ∧
        GWF N y ∧ y.base2k = t.base2k ∧ y.size = rs ∧ y.rank = t.rank ∧
        ∃ (E1 E3 : Poly) (Q : Ks.R N), E1.length = N ∧ E3.length = N ∧
          normInf E1 ≤ (1 + snorm (min x.rank sk.length) sk) * C02.normTol (key.base2k * convSize x key) (x.base2k * x.size) ∧
          normInf E3 ≤ (1 + snorm (min key.rankOut (sk.map (σ gInv)).length) (sk.map (σ gInv))) *
            C02.normTol (t.base2k * rs) (key.base2k * key.mat.size) ∧
          normInf (σ key.p (ksErrOf N t.base2k rs x aConv key (sk.map (σ gInv)) EL E1 E3))
            ≤ ksErrBound N t.base2k rs key.rankOut x aConv key sk (sk.map (σ gInv)) EL ∧
          (2 : Ks.R N) ^ (x.base2k * x.size + key.base2k * key.mat.size) * Ks.ι N (valP t.base2k N (phase sk y))
            = (2 : Ks.R N) ^ (t.base2k * rs + key.base2k * key.mat.size) * Ks.ι N (σ key.p (valP x.base2k N (phase sk x)))
              + Ks.ι N (σ key.p (ksErrOf N t.base2k rs x aConv key (sk.map (σ gInv)) EL E1 E3))
              + (2 : Ks.R N) ^ (x.base2k * x.size + key.base2k * key.mat.size + t.base2k * rs) * Q ∧
          ∀ c, c < t.rank → ∃ cell, cells[r * (t.rank + 1) + (c + 1)]? = some cell ∧ cell.length = t.rank + 1 ∧
            (∀ col ∈ cell, ColWF N rs col) ∧ (∀ col ∈ cell, ∀ l ∈ col, ∀ v ∈ l, |v| ≤ 2 ^ t.base2k - 1) ∧
            ∃ E3c Q3c : Poly, E3c.length = N ∧ Q3c.length = N ∧
              normInf E3c ≤ (1 + snorm (min t.rank sk.length) sk) * C02.normTol (t.base2k * rs) (t.base2k * t.size) ∧
              (2 : Ks.R N) ^ (x.base2k * x.size + key.base2k * key.mat.size + t.base2k * t.size) *
                  Ks.ι N (valP t.base2k N (phase sk (Ks.mkCt t.base2k N cell)))
                = (2 : Ks.R N) ^ (t.base2k * rs + key.base2k * key.mat.size + t.base2k * t.size) *
                    (Ks.ι N (sk.getD c []) * Ks.ι N (σ key.p (valP x.base2k N (phase sk x))))
                  + ((2 : Ks.R N) ^ (t.base2k * t.size) *
                        (Ks.ι N (sk.getD c []) * Ks.ι N (σ key.p (ksErrOf N t.base2k rs x aConv key (sk.map (σ gInv)) EL E1 E3)))
                    + (2 : Ks.R N) ^ (x.base2k * x.size + key.base2k * key.mat.size + t.base2k * rs) *
                        expandErr N sk (maskOf t y) t c ((2 : Ks.R N) ^ t.base2k) (ET c)
                    + (2 : Ks.R N) ^ (x.base2k * x.size + key.base2k * key.mat.size) * Ks.ι N E3c)
                  + (2 : Ks.R N) ^ (x.base2k * x.size + key.base2k * key.mat.size + t.base2k * rs + t.base2k * t.size) *
                      (Ks.ι N (sk.getD c []) * Q + Ks.ι N Q3c) :=
  KsDec.ggsw_automorphism_decrypts N big128 rs rd rds ab ads aCol0 key t cells sk gInv EL KL ET Hin Hp HpT hN hg hskl hinv hrout hc0 hD hMk hSk hbk1 hbk hs hEL hKL hkey hd hn hS hrank hMt hb1 hb hkeyT hcov1 hcov2 hIn0 hIn hHp0 hAcc hHpT0 hAccT hrows hprodT h

/-- in-place form -/
theorem ggsw_keyswitch_assign_decrypts (N : Nat) (big128 : Bool) (x0 : Ks.Ct) (xs : List Ks.Ct) (key : Ks.Key) (t : ToGGSWKey)
    (cells : List (List Col)) (sIn skOut : List Poly) (EL KL : ℕ → ℕ → Poly) (ET : ℕ → ℕ → ℕ → Ks.R N) (Hin Hp HpT : Int)
    (hN : 0 < N) (hrout : t.rank = key.rankOut) (hc0 : 0 < key.mat.colsOut)
    (hD : 1 ≤ key.dsize) (hMk : ∀ j q, (key.mat.entry j q).length = N) (hSk : key.mat.rows * key.dsize ≤ key.mat.size)
    (hbk1 : 1 ≤ key.base2k) (hbk : key.base2k ≤ 62) (hs : key.mat.colsIn ≤ sIn.length)
    (hEL : ∀ i r, (EL i r).length = N) (hKL : ∀ i r, (KL i r).length = N)
    (hkey : ∀ i, i < key.mat.colsIn → ∀ r, r < key.mat.rows →
      Gadget.val (Ks.radix N key.base2k) key.mat.size (Ks.keyPhase N skOut key.mat i r) =
        Ks.ι N (sIn.getD i []) * Ks.radix N key.base2k ^ (key.mat.size - (r + 1) * key.dsize) + Ks.ι N (EL i r)
          + Ks.radix N key.base2k ^ key.mat.size * Ks.ι N (KL i r))
    (hd : 1 ≤ t.dsize) (hn : t.n = N) (hS : t.dnum * t.dsize ≤ t.size) (hrank : t.rank ≤ skOut.length)
    (hMt : ∀ c, c < t.rank → ∀ j q, ((t.at c).toPMat.entry j q).length = N) (hb1 : 1 ≤ t.base2k) (hb : t.base2k ≤ 62)
    (hkeyT : ∀ c, c < t.rank → ∀ i, i < t.rank → ∀ r, r < t.dnum →
      Gadget.val ((2 : Ks.R N) ^ t.base2k) t.size (Ks.keyPhase N skOut (t.at c).toPMat i r)
        = Ks.ι N (skOut.getD c []) * Ks.ι N (skOut.getD i []) * ((2 : Ks.R N) ^ t.base2k) ^ (t.size - (r + 1) * t.dsize) + ET c i r)
    (hcov1 : x0.size ≤ t.size) (hcov2 : x0.size ≤ t.dnum * t.dsize)
    (hIn0 : 0 ≤ Hin) (hIn : Hin + 8 ≤ 2 ^ 62) (hHp0 : 0 ≤ Hp) (hAcc : Hp + (Hin + 2 ^ key.base2k) + 8 ≤ 2 ^ (bitsOf big128 - 2))
    (hHpT0 : 0 ≤ HpT) (hAccT : HpT + 2 ^ t.base2k + 8 ≤ 2 ^ (bitsOf big128 - 2))
    (hrows : ∀ (r : Nat) (x : Ks.Ct), (x0 :: xs)[r]? = some x →
      KsRowOk N x.rank key Hin Hp x ∧ x.rank = key.rankOut ∧ x.base2k = t.base2k ∧ x.size = x0.size)
    (hprodT : ∀ (r : Nat) (x y : Ks.Ct), (x0 :: xs)[r]? = some x → Ks.keyswitch big128 x.base2k x.size x.rank x key = .ok y →
      ∀ c, c < t.rank → ∀ col ∈ expandProd N (maskOf t y) t c, ∀ l ∈ col, ∀ v ∈ l, |v| ≤ HpT)
    (h : Ks.ggswKeyswitchAssign big128 N (x0 :: xs) key t = .ok cells) :
    cells.length = (x0 :: xs).length * (t.rank + 1) ∧
      ∀ (r : Nat) (x : Ks.Ct), (x0 :: xs)[r]? = some x → ∃ y aConv, Ks.keyswitch big128 x.base2k x.size x.rank x key = .ok y ∧
        Ks.convIn x key = .ok aConv ∧ cells[r * (t.rank + 1)]? = some y.cols ∧
        GWF N y ∧ y.base2k = t.base2k ∧ y.size = x0.size ∧ y.rank = t.rank ∧
        ∃ (E1 E3 : Poly) (Q : Ks.R N), E1.length = N ∧ E3.length = N ∧
          normInf (ksErrOf N x.base2k x.size x aConv key skOut EL E1 E3) ≤ ksErrBound N x.base2k x.size x.rank x aConv key sIn skOut EL ∧
          (2 : Ks.R N) ^ (t.base2k * x0.size + key.base2k * key.mat.size) * Ks.ι N (valP t.base2k N (phase skOut y))
            = (2 : Ks.R N) ^ (t.base2k * x0.size + key.base2k * key.mat.size) * Ks.ι N (valP t.base2k N (phase sIn x))
              + Ks.ι N (ksErrOf N x.base2k x.size x aConv key skOut EL E1 E3)
              + (2 : Ks.R N) ^ (t.base2k * x0.size + key.base2k * key.mat.size + t.base2k * x0.size) * Q ∧
          ∀ c, c < t.rank → ∃ cell, cells[r * (t.rank + 1) + (c + 1)]? = some cell ∧ cell.length = t.rank + 1 ∧
            (∀ col ∈ cell, ColWF N x0.size col) ∧ (∀ col ∈ cell, ∀ l ∈ col, ∀ v ∈ l, |v| ≤ 2 ^ t.base2k - 1) ∧
            ∃ E3c Q3c : Poly, E3c.length = N ∧ Q3c.length = N ∧
              normInf E3c ≤ (1 + snorm (min t.rank skOut.length) skOut) * C02.normTol (t.base2k * x0.size) (t.base2k * t.size) ∧
              (2 : Ks.R N) ^ (t.base2k * x0.size + key.base2k * key.mat.size + t.base2k * t.size) *
                  Ks.ι N (valP t.base2k N (phase skOut (Ks.mkCt t.base2k N cell)))
                = (2 : Ks.R N) ^ (t.base2k * x0.size + key.base2k * key.mat.size + t.base2k * t.size) *
                    (Ks.ι N (skOut.getD c []) * Ks.ι N (valP t.base2k N (phase sIn x)))
                  + ((2 : Ks.R N) ^ (t.base2k * t.size) *
                        (Ks.ι N (skOut.getD c []) * Ks.ι N (ksErrOf N x.base2k x.size x aConv key skOut EL E1 E3))
                    + (2 : Ks.R N) ^ (t.base2k * x0.size + key.base2k * key.mat.size + t.base2k * x0.size) *
                        expandErr N skOut (maskOf t y) t c ((2 : Ks.R N) ^ t.base2k) (ET c)
                    + (2 : Ks.R N) ^ (t.base2k * x0.size + key.base2k * key.mat.size) * Ks.ι N E3c)
                  + (2 : Ks.R N) ^ (t.base2k * x0.size + key.base2k * key.mat.size + t.base2k * x0.size + t.base2k * t.size) *
                      (Ks.ι N (skOut.getD c []) * Q + Ks.ι N Q3c) :=
  KsDec.ggsw_keyswitch_assign_decrypts N big128 x0 xs key t cells sIn skOut EL KL ET Hin Hp HpT hN hrout hc0 hD hMk hSk hbk1 hbk hs hEL hKL hkey hd hn hS hrank hMt hb1 hb hkeyT hcov1 hcov2 hIn0 hIn hHp0 hAcc hHpT0 hAccT hrows hprodT h

/-- **GGSW → key switch → GGSW**: if the operand's column-0 cells encrypt `m·2^{−(r+1)·dsize·b}` then every cell `(r,c)` of the result encrypts `m·σ_c·2^{−(r+1)·dsize·b}` + noise — the well-formedness statement that C04's external product takes as input -/
theorem ggsw_keyswitch_wellformed (N : Nat) (big128 : Bool) (rs rd rds ab ads : Nat) (aCol0 : List Ks.Ct) (key : Ks.Key) (t : ToGGSWKey)
    (cells : List (List Col)) (sIn skOut : List Poly) (EL KL : ℕ → ℕ → Poly) (ET : ℕ → ℕ → ℕ → Ks.R N) (Hin Hp HpT : Int)
    (m : Ks.R N) (eIn : ℕ → Ks.R N)
    (hN : 0 < N) (hrout : t.rank = key.rankOut) (hc0 : 0 < key.mat.colsOut)
    (hD : 1 ≤ key.dsize) (hMk : ∀ j q, (key.mat.entry j q).length = N) (hSk : key.mat.rows * key.dsize ≤ key.mat.size)
    (hbk1 : 1 ≤ key.base2k) (hbk : key.base2k ≤ 62) (hs : key.mat.colsIn ≤ sIn.length)
    (hEL : ∀ i r, (EL i r).length = N) (hKL : ∀ i r, (KL i r).length = N)
    (hkey : ∀ i, i < key.mat.colsIn → ∀ r, r < key.mat.rows →
      Gadget.val (Ks.radix N key.base2k) key.mat.size (Ks.keyPhase N skOut key.mat i r) =
        Ks.ι N (sIn.getD i []) * Ks.radix N key.base2k ^ (key.mat.size - (r + 1) * key.dsize) + Ks.ι N (EL i r)
          + Ks.radix N key.base2k ^ key.mat.size * Ks.ι N (KL i r))
    (hd : 1 ≤ t.dsize) (hn : t.n = N) (hS : t.dnum * t.dsize ≤ t.size) (hrank : t.rank ≤ skOut.length)
    (hMt : ∀ c, c < t.rank → ∀ j q, ((t.at c).toPMat.entry j q).length = N) (hb1 : 1 ≤ t.base2k) (hb : t.base2k ≤ 62)
    (hkeyT : ∀ c, c < t.rank → ∀ i, i < t.rank → ∀ r, r < t.dnum →
      Gadget.val ((2 : Ks.R N) ^ t.base2k) t.size (Ks.keyPhase N skOut (t.at c).toPMat i r)
        = Ks.ι N (skOut.getD c []) * Ks.ι N (skOut.getD i []) * ((2 : Ks.R N) ^ t.base2k) ^ (t.size - (r + 1) * t.dsize) + ET c i r)
    (hcov1 : rs ≤ t.size) (hcov2 : rs ≤ t.dnum * t.dsize)
    (hIn0 : 0 ≤ Hin) (hIn : Hin + 8 ≤ 2 ^ 62) (hHp0 : 0 ≤ Hp) (hAcc : Hp + (Hin + 2 ^ key.base2k) + 8 ≤ 2 ^ (bitsOf big128 - 2))
    (hHpT0 : 0 ≤ HpT) (hAccT : HpT + 2 ^ t.base2k + 8 ≤ 2 ^ (bitsOf big128 - 2))
    (hrows : ∀ r x, r < rd → aCol0[r]? = some x → KsRowOk N key.rankOut key Hin Hp x)
    (hprodT : ∀ r x y, r < rd → aCol0[r]? = some x → Ks.keyswitch big128 t.base2k rs key.rankOut x key = .ok y →
      ∀ c, c < t.rank → ∀ col ∈ expandProd N (maskOf t y) t c, ∀ l ∈ col, ∀ v ∈ l, |v| ≤ HpT)
    (hop : ∀ r x, r < rd → aCol0[r]? = some x → x.base2k = t.base2k ∧ (r + 1) * ads ≤ x.size ∧
      Ks.ι N (valP t.base2k N (phase sIn x)) = m * ((2 : Ks.R N) ^ t.base2k) ^ (x.size - (r + 1) * ads) + eIn r)
    (hdsr : rd * ads ≤ rs)
    (h : Ks.ggswKeyswitch big128 N t.base2k rs rd rds ab ads aCol0 key t = .ok cells) :
    cells.length = rd * (t.rank + 1) ∧
      ∀ r, r < rd → ∃ x y aConv, aCol0[r]? = some x ∧ Ks.keyswitch big128 t.base2k rs key.rankOut x key = .ok y ∧
        Ks.convIn x key = .ok aConv ∧ cells[r * (t.rank + 1)]? = some y.cols ∧ GWF N y ∧ y.size = rs ∧ y.rank = t.rank ∧
        ∃ (E1 E3 : Poly) (Q : Ks.R N),
          normInf (ksErrOf N t.base2k rs x aConv key skOut EL E1 E3) ≤ ksErrBound N t.base2k rs key.rankOut x aConv key sIn skOut EL ∧
          (2 : Ks.R N) ^ (t.base2k * x.size + key.base2k * key.mat.size) * Ks.ι N (valP t.base2k N (phase skOut y))
            = (2 : Ks.R N) ^ (t.base2k * x.size + key.base2k * key.mat.size) *
                (m * 1 * ((2 : Ks.R N) ^ t.base2k) ^ (rs - (r + 1) * ads))
              + ((2 : Ks.R N) ^ (t.base2k * rs + key.base2k * key.mat.size) * eIn r
                  + Ks.ι N (ksErrOf N t.base2k rs x aConv key skOut EL E1 E3))
              + (2 : Ks.R N) ^ (t.base2k * x.size + key.base2k * key.mat.size) * (((2 : Ks.R N) ^ t.base2k) ^ rs * Q) ∧
          ∀ c, c < t.rank → ∃ cell, cells[r * (t.rank + 1) + (c + 1)]? = some cell ∧ cell.length = t.rank + 1 ∧
            (∀ col ∈ cell, ColWF N rs col) ∧ (∀ col ∈ cell, ∀ l ∈ col, ∀ v ∈ l, |v| ≤ 2 ^ t.base2k - 1) ∧
            ∃ E3c Q3c : Poly, E3c.length = N ∧ Q3c.length = N ∧
              normInf E3c ≤ (1 + snorm (min t.rank skOut.length) skOut) * C02.normTol (t.base2k * rs) (t.base2k * t.size) ∧
              (2 : Ks.R N) ^ (t.base2k * x.size + key.base2k * key.mat.size + t.base2k * t.size) *
                  Ks.ι N (valP t.base2k N (phase skOut (Ks.mkCt t.base2k N cell)))
                = (2 : Ks.R N) ^ (t.base2k * x.size + key.base2k * key.mat.size + t.base2k * t.size) *
                    (m * Ks.ι N (skOut.getD c []) * ((2 : Ks.R N) ^ t.base2k) ^ (rs - (r + 1) * ads))
                  + ((2 : Ks.R N) ^ (t.base2k * rs + key.base2k * key.mat.size + t.base2k * t.size) * (Ks.ι N (skOut.getD c []) * eIn r)
                    + ((2 : Ks.R N) ^ (t.base2k * t.size) * (Ks.ι N (skOut.getD c []) * Ks.ι N (ksErrOf N t.base2k rs x aConv key skOut EL E1 E3))
                      + (2 : Ks.R N) ^ (t.base2k * x.size + key.base2k * key.mat.size + t.base2k * rs) *
                          expandErr N skOut (maskOf t y) t c ((2 : Ks.R N) ^ t.base2k) (ET c)
                      + (2 : Ks.R N) ^ (t.base2k * x.size + key.base2k * key.mat.size) * Ks.ι N E3c))
                  + (2 : Ks.R N) ^ (t.base2k * x.size + key.base2k * key.mat.size + t.base2k * t.size) *
                      (((2 : Ks.R N) ^ t.base2k) ^ rs * (Ks.ι N (skOut.getD c []) * Q + Ks.ι N Q3c)) :=
  KsDec.ggsw_keyswitch_wellformed N big128 rs rd rds ab ads aCol0 key t cells sIn skOut EL KL ET Hin Hp HpT m eIn hN hrout hc0 hD hMk hSk hbk1 hbk hs hEL hKL hkey hd hn hS hrank hMt hb1 hb hkeyT hcov1 hcov2 hIn0 hIn hHp0 hAcc hHpT0 hAccT hrows hprodT hop hdsr h

/-- same with `σ_p(m)` -/
theorem ggsw_automorphism_wellformed (N : Nat) (big128 : Bool) (rs rd rds ab ads : Nat) (aCol0 : List Ks.Ct) (key : Ks.Key) (t : ToGGSWKey)
    (cells : List (List Col)) (sk : List Poly) (gInv : Int) (EL KL : ℕ → ℕ → Poly) (ET : ℕ → ℕ → ℕ → Ks.R N) (Hin Hp HpT : Int)
    (m : Ks.R N) (eIn : ℕ → Ks.R N)
    (hN : 0 < N) (hg : GalOk key.p N) (hskl : Ks.AllLen N sk) (hinv : ∀ s ∈ sk, σ key.p (σ gInv s) = s)
    (hrout : t.rank = key.rankOut) (hc0 : 0 < key.mat.colsOut)
    (hD : 1 ≤ key.dsize) (hMk : ∀ j q, (key.mat.entry j q).length = N) (hSk : key.mat.rows * key.dsize ≤ key.mat.size)
    (hbk1 : 1 ≤ key.base2k) (hbk : key.base2k ≤ 62) (hs : key.mat.colsIn ≤ sk.length)
    (hEL : ∀ i r, (EL i r).length = N) (hKL : ∀ i r, (KL i r).length = N)
    (hkey : ∀ i, i < key.mat.colsIn → ∀ r, r < key.mat.rows →
      Gadget.val (Ks.radix N key.base2k) key.mat.size (Ks.keyPhase N (sk.map (σ gInv)) key.mat i r) =
        Ks.ι N (sk.getD i []) * Ks.radix N key.base2k ^ (key.mat.size - (r + 1) * key.dsize) + Ks.ι N (EL i r)
          + Ks.radix N key.base2k ^ key.mat.size * Ks.ι N (KL i r))
    (hd : 1 ≤ t.dsize) (hn : t.n = N) (hS : t.dnum * t.dsize ≤ t.size) (hrank : t.rank ≤ sk.length)
    (hMt : ∀ c, c < t.rank → ∀ j q, ((t.at c).toPMat.entry j q).length = N) (hb1 : 1 ≤ t.base2k) (hb : t.base2k ≤ 62)
    (hkeyT : ∀ c, c < t.rank → ∀ i, i < t.rank → ∀ r, r < t.dnum →
      Gadget.val ((2 : Ks.R N) ^ t.base2k) t.size (Ks.keyPhase N sk (t.at c).toPMat i r)
        = Ks.ι N (sk.getD c []) * Ks.ι N (sk.getD i []) * ((2 : Ks.R N) ^ t.base2k) ^ (t.size - (r + 1) * t.dsize) + ET c i r)
    (hcov1 : rs ≤ t.size) (hcov2 : rs ≤ t.dnum * t.dsize)
    (hIn0 : 0 ≤ Hin) (hIn : Hin + 8 ≤ 2 ^ 62) (hHp0 : 0 ≤ Hp) (hAcc : Hp + (Hin + 2 ^ key.base2k) + 8 ≤ 2 ^ (bitsOf big128 - 2))
    (hHpT0 : 0 ≤ HpT) (hAccT : HpT + 2 ^ t.base2k + 8 ≤ 2 ^ (bitsOf big128 - 2))
    (hrows : ∀ r x, r < rd → aCol0[r]? = some x → KsRowOk N key.rankOut key Hin Hp x)
    (hprodT : ∀ r x y, r < rd → aCol0[r]? = some x → Ks.automorphism big128 t.base2k rs key.rankOut x key = .ok y →
      ∀ c, c < t.rank → ∀ col ∈ expandProd N (maskOf t y) t c, ∀ l ∈ col, ∀ v ∈ l, |v| ≤ HpT)
    (hop : ∀ r x, r < rd → aCol0[r]? = some x → x.base2k = t.base2k ∧ (r + 1) * ads ≤ x.size ∧
      Ks.ι N (valP t.base2k N (phase sk x)) = m * ((2 : Ks.R N) ^ t.base2k) ^ (x.size - (r + 1) * ads) + eIn r)
    (hdsr : rd * ads ≤ rs)
    (h : Ks.ggswAutomorphism big128 N t.base2k rs rd rds ab ads aCol0 key t = .ok cells) :
    cells.length = rd * (t.rank + 1) ∧
      ∀ r, r < rd → ∃ x y aConv, aCol0[r]? = some x ∧ Ks.automorphism big128 t.base2k rs key.rankOut x key = .ok y ∧
        Ks.convIn x key = .ok aConv ∧ cells[r * (t.rank + 1)]? = some y.cols ∧ GWF N y ∧ y.size = rs ∧ y.rank = t.rank ∧
        ∃ (E1 E3 : Poly) (Q : Ks.R N),
          normInf (σ key.p (ksErrOf N t.base2k rs x aConv key (sk.map (σ gInv)) EL E1 E3))
            ≤ ksErrBound N t.base2k rs key.rankOut x aConv key sk (sk.map (σ gInv)) EL ∧
          (2 : Ks.R N) ^ (t.base2k * x.size + key.base2k * key.mat.size) * Ks.ι N (valP t.base2k N (phase sk y))
            = (2 : Ks.R N) ^ (t.base2k * x.size + key.base2k * key.mat.size) *
                (gal N key.p hN hg m * 1 * ((2 : Ks.R N) ^ t.base2k) ^ (rs - (r + 1) * ads))
              + ((2 : Ks.R N) ^ (t.base2k * rs + key.base2k * key.mat.size) * gal N key.p hN hg (eIn r)
                  + Ks.ι N (σ key.p (ksErrOf N t.base2k rs x aConv key (sk.map (σ gInv)) EL E1 E3)))
              + (2 : Ks.R N) ^ (t.base2k * x.size + key.base2k * key.mat.size) * (((2 : Ks.R N) ^ t.base2k) ^ rs * Q) ∧
          ∀ c, c < t.rank → ∃ cell, cells[r * (t.rank + 1) + (c + 1)]? = some cell ∧ cell.length = t.rank + 1 ∧
            (∀ col ∈ cell, ColWF N rs col) ∧ (∀ col ∈ cell, ∀ l ∈ col, ∀ v ∈ l, |v| ≤ 2 ^ t.base2k - 1) ∧
            ∃ E3c Q3c : Poly, E3c.length = N ∧ Q3c.length = N ∧
              normInf E3c ≤ (1 + snorm (min t.rank sk.length) sk) * C02.normTol (t.base2k * rs) (t.base2k * t.size) ∧
              (2 : Ks.R N) ^ (t.base2k * x.size + key.base2k * key.mat.size + t.base2k * t.size) *
                  Ks.ι N (valP t.base2k N (phase sk (Ks.mkCt t.base2k N cell)))
                = (2 : Ks.R N) ^ (t.base2k * x.size + key.base2k * key.mat.size + t.base2k * t.size) *
                    (gal N key.p hN hg m * Ks.ι N (sk.getD c []) * ((2 : Ks.R N) ^ t.base2k) ^ (rs - (r + 1) * ads))
                  + ((2 : Ks.R N) ^ (t.base2k * rs + key.base2k * key.mat.size + t.base2k * t.size) *
                        (Ks.ι N (sk.getD c []) * gal N key.p hN hg (eIn r))
                    + ((2 : Ks.R N) ^ (t.base2k * t.size) *
                          (Ks.ι N (sk.getD c []) * Ks.ι N (σ key.p (ksErrOf N t.base2k rs x aConv key (sk.map (σ gInv)) EL E1 E3)))
                      + (2 : Ks.R N) ^ (t.base2k * x.size + key.base2k * key.mat.size + t.base2k * rs) *
                          expandErr N sk (maskOf t y) t c ((2 : Ks.R N) ^ t.base2k) (ET c)
                      + (2 : Ks.R N) ^ (t.base2k * x.size + key.base2k * key.mat.size) * Ks.ι N E3c))
                  + (2 : Ks.R N) ^ (t.base2k * x.size + key.base2k * key.mat.size + t.base2k * t.size) *
                      (((2 : Ks.R N) ^ t.base2k) ^ rs * (Ks.ι N (sk.getD c []) * Q + Ks.ι N Q3c)) :=
  KsDec.ggsw_automorphism_wellformed N big128 rs rd rds ab ads aCol0 key t cells sk gInv EL KL ET Hin Hp HpT m eIn hN hg hskl hinv hrout hc0 hD hMk hSk hbk1 hbk hs hEL hKL hkey hd hn hS hrank hMt hb1 hb hkeyT hcov1 hcov2 hIn0 hIn hHp0 hAcc hHpT0 hAccT hrows hprodT hop hdsr h

/-- the link to C04: `Gadget.val (keyPhase …)` of a prepared matrix is the phase value of the corresponding cell -/
theorem key_phase_is_cell_phase (N : Nat) (hN : 0 < N) (b S : Nat) (sk : List Poly) (m : PMat) (i r : Nat) (hn : m.n = N)
    (hc : 0 < m.colsOut) (hlen : (m.data.getD (r * m.colsIn + i) []).length = m.colsOut)
    (hwf : ∀ c ∈ m.data.getD (r * m.colsIn + i) [], ColWF N S c) :
    Gadget.val ((2 : Ks.R N) ^ b) S (Ks.keyPhase N sk m i r)
      = Ks.ι N (valP b N (phase sk (Ks.mkCt b N (m.data.getD (r * m.colsIn + i) [])))) :=
  KsDec.keyPhase_val_eq_cell_phase N hN b S sk m i r hn hc hlen hwf

/-- the executed `ggsw_keyswitch` of a one-row GGSW on both accumulator widths (the closed instance of `ggsw_keyswitch_wellformed` with
every hypothesis discharged is in Lemmas/GgswDecrypt.lean) -/
example (big128 : Bool) : Ks.ggswKeyswitch big128 1 Ks.exT'.base2k 2 1 1 4 1 [KsDec.exGX] KsDec.exGKs Ks.exT'
    = .ok [[[[3], [0]], [[1], [0]]], [[[0], [0]], [[4], [0]]]] := by
  cases big128 <;> decide +kernel
end GgswDecryptSec

section NoisyPackSec
open Hal Core Ks Pack
variable {M : Type*} [AddCommGroup M]

/-- **one executed merge with noise** (three branches): `Pack.merge` of the operand phases up to `mergeBound B i` = max over the branches of (2 `rsh` units + 2 normalisations + automorphism noise) -/
theorem merge_step_noisy (c : Pack.Contract M) (ν : M → ℚ) (hν : SizeFn' c ν) (ph : Ct → M) (N : Nat)
    (big128 : Bool) (keyOf : Nat → Key) (B : NoiseB) (H : NoisyOps c ν ph N big128 keyOf B) (i : Nat)
    (ht : c.t i = ((2 ^ (log2Nat N - i - 1) : Nat) : Int))
    (a b : Option Ct) (sh r : Ct) (h : mergeStep big128 N i (keyOf i) a b sh = .ok (some r)) :
    ∃ e, ph r = Pack.merge c i (optPh ph a) (optPh ph b) + e ∧ ν e ≤ mergeBound B i :=
  Ks.mergeStep_noisy c ν hν ph N big128 keyOf B H i ht a b sh r h

/-- **the executed level loop with noise**, by induction: `Pack.after` + error `≤ levelErr B L`, `levelErr (L+1) = 2·levelErr L + mergeBound L` (= `Σ_{i<L} 2^{L−1−i}·mergeBound i`) -/
theorem pack_levels_noisy (c : Pack.Contract M) (ν : M → ℚ) (hν : SizeFn' c ν) (ph : Ct → M) (N : Nat)
    (big128 : Bool) (keyOf : Nat → Key) (B : NoiseB) (H : NoisyOps c ν ph N big128 keyOf B)
    (keys : List Key) (K : Nat) (hK : log2Nat N = K) (L : Nat) (hL : L ≤ K)
    (ht : ∀ i, i < L → c.t i = ((2 ^ (K - i - 1) : Nat) : Int))
    (hkey : ∀ i, i < L → levelKey N keys i = .ok (keyOf i))
    (m m' : SlotMap) (hm : ∀ j, 2 ^ K ≤ j → m.get j = none)
    (h : packLevels big128 N keys (List.range L) m = .ok m') :
    (∀ j, j < 2 ^ (K - L) → ∃ err, phMap ph m' j = Pack.after c (fun i => 2 ^ (K - 1 - i)) (phMap ph m) L j + err ∧
      ν err ≤ levelErr B L) ∧
    (∀ j, 2 ^ (K - L) ≤ j → m'.get j = none) :=
  Ks.packLevels_noisy c ν hν ph N big128 keyOf B H keys K hK L hL ht hkey m m' hm h

/-- the executed `glwe_trace` wrapper with noise -/
theorem trace_noisy (c : Pack.Contract M) (ν : M → ℚ) (hν : SizeFn c ν) (ph phK phOut : Ct → M) (big128 : Bool)
    (keys : List Key) (keyBase2k skip rb rs K : Nat) (Br : ℚ) (Ba : Nat → ℚ) (Bin Bout : ℚ)
    (hrsh : ∀ x y, glweRsh 1 x = .ok y → ∃ e, phK y = c.half (phK x) + e ∧ ν e ≤ Br)
    (hauto : ∀ i x key p y, traceGalois x.n i = .ok p → keys.find? (fun k => k.p == p) = some key →
      automorphismFused .add big128 (zeroBuf x.n (x.rank + 1) key.size) x.base2k x.size x.rank x key = .ok y →
      (y.n = x.n ∧ ∃ e, phK y = phK x + c.sig i (phK x) + e ∧ ν e ≤ Ba i))
    (hn : ∀ x y, glweRsh 1 x = .ok y → y.n = x.n)
    (hinC : ∀ b s x, ∃ e, phK (glweCopy b s x) = ph x + e ∧ ν e ≤ Bin)
    (hinN : ∀ b s x y, glweNormalize b s x = .ok y → ∃ e, phK y = ph x + e ∧ ν e ≤ Bin)
    (houtC : ∀ b s x, ∃ e, phOut (glweCopy b s x) = phK x + e ∧ ν e ≤ Bout)
    (houtN : ∀ b s x y, glweNormalize b s x = .ok y → ∃ e, phOut y = phK x + e ∧ ν e ≤ Bout)
    (x r : Ct) (hxn : log2Nat x.n = K) (h : trace big128 keyBase2k keys skip rb rs x = .ok r) :
    ∃ err, phOut r = traceAbs c (List.range' skip (K - skip)) (ph x) + err ∧
      ν err ≤ Bin + traceErrBound Br Ba (List.range' skip (K - skip)) + Bout :=
  Ks.trace_noisy c ν hν ph phK phOut big128 keys keyBase2k skip rb rs K Br Ba Bin Bout hrsh hauto hn hinC hinN houtC houtN x r hxn h

/-- the executed `glwe_pack` with noise: trace of the level tree + `levelErr + traceErrBound` -/
theorem pack_executed_noisy (c : Pack.Contract M) (ν : M → ℚ) (hν : SizeFn' c ν) (ph phOut : Ct → M) (N : Nat)
    (big128 : Bool) (keyOf : Nat → Key) (B : NoiseB) (H : NoisyOps c ν ph N big128 keyOf B)
    (keyBase2k : Nat) (keys : List Key) (rb rs : Nat) (K : Nat)
    (hK : log2Nat N = K) (hN : N = 2 ^ K) (logGapOut : Nat)
    (ht : ∀ i, i < K - logGapOut → c.t i = ((2 ^ (K - i - 1) : Nat) : Int))
    (hkey : ∀ i, i < K - logGapOut → levelKey N keys i = .ok (keyOf i))
    (Bt : ℚ)
    (htrace : ∀ x r, trace big128 keyBase2k keys (K - logGapOut) rb rs x = .ok r →
      ∃ e, phOut r = traceAbs c (List.range' (K - logGapOut) (K - (K - logGapOut))) (ph x) + e ∧ ν e ≤ Bt)
    (a : SlotMap) (res : Ct) (h : pack big128 N keyBase2k keys rb rs a logGapOut = .ok res) :
    ∃ err, phOut res = traceAbs c (List.range' (K - logGapOut) (K - (K - logGapOut)))
        (Pack.after c (fun i => 2 ^ (K - 1 - i)) (phMap ph a) (K - logGapOut) 0) + err ∧
      ν err ≤ levelErr B (K - logGapOut) + Bt :=
  Ks.pack_executed_noisy c ν hν ph phOut N big128 keyOf B H keyBase2k keys rb rs K hK hN logGapOut ht hkey Bt htrace a res h

/-- **`pack_executed_value_noise`** — for EVERY subset of slots the executed `glwe_pack` result has phase `Σ_{m∈S} X^{J_m}·u_{J_m} + err`, `ν err ≤ levelErr B L + traceErrBound (levels L…K−1)` -/
theorem pack_executed_value_noise (c : Pack.Contract M) (ν : M → ℚ) (hν : SizeFn' c ν) (ph phOut : Ct → M) (N : Nat)
    (big128 : Bool) (keyOf : Nat → Key) (B : NoiseB) (H : NoisyOps c ν ph N big128 keyOf B)
    (keyBase2k : Nat) (keys : List Key) (rb rs : Nat) (K : Nat)
    (hK : log2Nat N = K) (hN : N = 2 ^ K) (logGapOut : Nat)
    (ht : ∀ i, i < K - logGapOut → c.t i = ((2 ^ (K - i - 1) : Nat) : Int))
    (hkey : ∀ i, i < K - logGapOut → levelKey N keys i = .ok (keyOf i))
    (Bt : ℚ)
    (htrace : ∀ x r, trace big128 keyBase2k keys (K - logGapOut) rb rs x = .ok r →
      ∃ e, phOut r = traceAbs c (List.range' (K - logGapOut) (K - (K - logGapOut))) (ph x) + e ∧ ν e ≤ Bt)
    (a : SlotMap) (res : Ct) (h : pack big128 N keyBase2k keys rb rs a logGapOut = .ok res)
    (u w : Nat → M) (hf : ∀ J, phMap ph a J = u J + w J)
    (hu : ∀ J i, i < K → c.sig i (u J) = u J)
    (hw : ∀ J, traceAbs c (List.range K) (w J) = 0)
    (S : Finset Nat) (hS : S ⊆ Finset.range (2 ^ (K - logGapOut)))
    (habs : ∀ m ∈ Finset.range (2 ^ (K - logGapOut)), m ∉ S →
      u (Pack.idxOff (fun i => 2 ^ (K - 1 - i)) (K - logGapOut) m) = 0) :
    ∃ err, phOut res = (∑ m ∈ S, c.rot (Pack.idxOff (fun i => 2 ^ (K - 1 - i)) (K - logGapOut) m : ℤ)
        (u (Pack.idxOff (fun i => 2 ^ (K - 1 - i)) (K - logGapOut) m))) + err ∧
      ν err ≤ levelErr B (K - logGapOut) + Bt :=
  Ks.pack_executed_value_noise c ν hν ph phOut N big128 keyOf B H keyBase2k keys rb rs K hK hN logGapOut ht hkey Bt htrace a res h u w hf hu hw S hS habs

/-- same through the `glwe_trace` wrapper with its own conversion bounds -/
theorem pack_executed_value_noise_trace (c : Pack.Contract M) (ν : M → ℚ) (hν : SizeFn' c ν) (ph phK phOut : Ct → M) (N : Nat)
    (big128 : Bool) (keyOf : Nat → Key) (B : NoiseB) (H : NoisyOps c ν ph N big128 keyOf B)
    (keyBase2k : Nat) (keys : List Key) (rb rs : Nat) (K : Nat)
    (hK : log2Nat N = K) (hN : N = 2 ^ K) (logGapOut : Nat)
    (ht : ∀ i, i < K - logGapOut → c.t i = ((2 ^ (K - i - 1) : Nat) : Int))
    (hkey : ∀ i, i < K - logGapOut → levelKey N keys i = .ok (keyOf i))
    (Br : ℚ) (Ba : Nat → ℚ) (Bin Bout : ℚ)
    (hrsh : ∀ x y, glweRsh 1 x = .ok y → ∃ e, phK y = c.half (phK x) + e ∧ ν e ≤ Br)
    (hauto : ∀ i x key p y, traceGalois x.n i = .ok p → keys.find? (fun k => k.p == p) = some key →
      automorphismFused .add big128 (zeroBuf x.n (x.rank + 1) key.size) x.base2k x.size x.rank x key = .ok y →
      (y.n = x.n ∧ ∃ e, phK y = phK x + c.sig i (phK x) + e ∧ ν e ≤ Ba i))
    (hn : ∀ x y, glweRsh 1 x = .ok y → y.n = x.n)
    (hinC : ∀ b s x, ∃ e, phK (glweCopy b s x) = ph x + e ∧ ν e ≤ Bin)
    (hinN : ∀ b s x y, glweNormalize b s x = .ok y → ∃ e, phK y = ph x + e ∧ ν e ≤ Bin)
    (houtC : ∀ b s x, ∃ e, phOut (glweCopy b s x) = phK x + e ∧ ν e ≤ Bout)
    (houtN : ∀ b s x y, glweNormalize b s x = .ok y → ∃ e, phOut y = phK x + e ∧ ν e ≤ Bout)
    (a : SlotMap)
    (hshape : ∀ m x, packLevels big128 N keys (List.range (K - logGapOut)) a = .ok m → m.get 0 = some x →
      log2Nat x.n = K)
    (res : Ct) (h : pack big128 N keyBase2k keys rb rs a logGapOut = .ok res)
    (u w : Nat → M) (hf : ∀ J, phMap ph a J = u J + w J)
    (hu : ∀ J i, i < K → c.sig i (u J) = u J)
    (hw : ∀ J, traceAbs c (List.range K) (w J) = 0)
    (S : Finset Nat) (hS : S ⊆ Finset.range (2 ^ (K - logGapOut)))
    (habs : ∀ m ∈ Finset.range (2 ^ (K - logGapOut)), m ∉ S →
      u (Pack.idxOff (fun i => 2 ^ (K - 1 - i)) (K - logGapOut) m) = 0) :
    ∃ err, phOut res = (∑ m ∈ S, c.rot (Pack.idxOff (fun i => 2 ^ (K - 1 - i)) (K - logGapOut) m : ℤ)
        (u (Pack.idxOff (fun i => 2 ^ (K - 1 - i)) (K - logGapOut) m))) + err ∧
      ν err ≤ levelErr B (K - logGapOut) +
        (Bin + traceErrBound Br Ba (List.range' (K - logGapOut) (K - (K - logGapOut))) + Bout) :=
  Ks.pack_executed_value_noise' c ν hν ph phK phOut N big128 keyOf B H keyBase2k keys rb rs K hK hN logGapOut ht hkey Br Ba Bin Bout hrsh hauto hn hinC hinN houtC houtN a hshape res h u w hf hu hw S hS habs

/-- **the empty flush**: when every arrival is absent the packer returns the freshly allocated zero accumulator -/
theorem packer_run_absent (big128 : Bool) (N : Nat) (keys : List Key) (accBase2k accSize rank lb : Nat)
    (inputs : Nat → Option Ct) (res r : Ct) (hnone : ∀ k, k < N / 2 ^ lb → inputs k = none)
    (h : packerRun big128 N keys accBase2k accSize rank lb inputs res = .ok r) :
    Core.Ops.glweCopy N res (allocCt N accBase2k accSize rank) = .ok r ∨
      Core.Ops.glweNormalize N res (allocCt N accBase2k accSize rank) = .ok r :=
  Ks.packerRun_absent big128 N keys accBase2k accSize rank lb inputs res r hnone h

/-- `packerRun_phase` WITHOUT the 'at least one arrival' hypothesis (contract field `ph 0-ciphertext = 0`) -/
theorem packer_run_phase_total (c : Pack.Contract M) (ph phOut : Ct → M) (N : Nat) (big128 : Bool) (keyOf : Nat → Key)
    (H : IdealOps c ph N big128 keyOf) (keys : List Key) (K : Nat) (hK : log2Nat N = K) (hN : N = 2 ^ K) (lb m : Nat)
    (hm : lb + m = K)
    (ht : ∀ i, i < K → c.t i = ((2 ^ (K - i - 1) : Nat) : Int))
    (hkey : ∀ i, i < K → levelKey N keys i = .ok (keyOf i))
    (hcopy : ∀ r x y, Core.Ops.glweCopy N r x = .ok y → ph y = ph x)
    (hnorm : ∀ r x y, Core.Ops.glweNormalize N r x = .ok y → ph y = ph x)
    (hcopyOut : ∀ r x y, Core.Ops.glweCopy N r x = .ok y → phOut y = ph x)
    (hnormOut : ∀ r x y, Core.Ops.glweNormalize N r x = .ok y → phOut y = ph x)
    (accBase2k accSize rank : Nat) (hzero : ph (allocCt N accBase2k accSize rank) = 0)
    (inputs : Nat → Option Ct) (res r : Ct)
    (h : packerRun big128 N keys accBase2k accSize rank lb inputs res = .ok r) :
    phOut r = Pack.packerVal c lb (fun k => optPh ph (inputs k)) m :=
  Ks.packerRun_phase_total c ph phOut N big128 keyOf H keys K hK hN lb m hm ht hkey hcopy hnorm hcopyOut hnormOut accBase2k accSize rank hzero inputs res r h

/-- the streaming packer with noise (binary-counter invariant with the error bound `pErr`) -/
theorem packer_run_noisy (c : Pack.Contract M) (ν : M → ℚ) (hν : SizeFn' c ν) (ph phOut : Ct → M) (N : Nat)
    (big128 : Bool) (keyOf : Nat → Key) (B : NoiseB) (H : NoisyOps c ν ph N big128 keyOf B)
    (keys : List Key) (K : Nat) (hK : log2Nat N = K) (hN : N = 2 ^ K) (lb m : Nat)
    (hm : lb + m = K)
    (ht : ∀ i, i < K → c.t i = ((2 ^ (K - i - 1) : Nat) : Int))
    (hkey : ∀ i, i < K → levelKey N keys i = .ok (keyOf i))
    (Bc Bout : ℚ) (hBc : 0 ≤ Bc)
    (hcopy : ∀ r x y, Core.Ops.glweCopy N r x = .ok y → ∃ e, ph y = ph x + e ∧ ν e ≤ Bc)
    (hnorm : ∀ r x y, Core.Ops.glweNormalize N r x = .ok y → ∃ e, ph y = ph x + e ∧ ν e ≤ Bc)
    (hcopyOut : ∀ r x y, Core.Ops.glweCopy N r x = .ok y → ∃ e, phOut y = ph x + e ∧ ν e ≤ Bout)
    (hnormOut : ∀ r x y, Core.Ops.glweNormalize N r x = .ok y → ∃ e, phOut y = ph x + e ∧ ν e ≤ Bout)
    (accBase2k accSize rank : Nat) (hzero : ph (allocCt N accBase2k accSize rank) = 0)
    (inputs : Nat → Option Ct) (res r : Ct)
    (h : packerRun big128 N keys accBase2k accSize rank lb inputs res = .ok r) :
    ∃ err, phOut r = Pack.packerVal c lb (fun k => optPh ph (inputs k)) m + err ∧ ν err ≤ pErr B Bc lb m + Bout :=
  Ks.packerRun_noisy c ν hν ph phOut N big128 keyOf B H keys K hK hN lb m hm ht hkey Bc Bout hBc hcopy hnorm hcopyOut hnormOut accBase2k accSize rank hzero inputs res r h

/-- **the streaming `GLWEPacker` with noise, every subset of arrivals (the empty one included)** -/
theorem packer_executed_value_noise (c : Pack.Contract M) (ν : M → ℚ) (hν : SizeFn' c ν) (ph phOut : Ct → M) (N : Nat)
    (big128 : Bool) (keyOf : Nat → Key) (B : NoiseB) (H : NoisyOps c ν ph N big128 keyOf B)
    (keys : List Key) (K : Nat) (hK : log2Nat N = K) (hN : N = 2 ^ K) (lb m : Nat)
    (hm : lb + m = K)
    (ht : ∀ i, i < K → c.t i = ((2 ^ (K - i - 1) : Nat) : Int))
    (hkey : ∀ i, i < K → levelKey N keys i = .ok (keyOf i))
    (Bc Bout : ℚ) (hBc : 0 ≤ Bc)
    (hcopy : ∀ r x y, Core.Ops.glweCopy N r x = .ok y → ∃ e, ph y = ph x + e ∧ ν e ≤ Bc)
    (hnorm : ∀ r x y, Core.Ops.glweNormalize N r x = .ok y → ∃ e, ph y = ph x + e ∧ ν e ≤ Bc)
    (hcopyOut : ∀ r x y, Core.Ops.glweCopy N r x = .ok y → ∃ e, phOut y = ph x + e ∧ ν e ≤ Bout)
    (hnormOut : ∀ r x y, Core.Ops.glweNormalize N r x = .ok y → ∃ e, phOut y = ph x + e ∧ ν e ≤ Bout)
    (accBase2k accSize rank : Nat) (hzero : ph (allocCt N accBase2k accSize rank) = 0)
    (inputs : Nat → Option Ct) (res r : Ct)
    (h : packerRun big128 N keys accBase2k accSize rank lb inputs res = .ok r)
    (u : Nat → M) (hQ : ∀ k, Pack.Q (Pack.shift c lb) m (optPh ph (inputs k)) = u k)
    (S : Finset Nat) (hS : S ⊆ Finset.range (2 ^ m)) (habs : ∀ k ∈ Finset.range (2 ^ m), k ∉ S → u k = 0) :
    ∃ err, phOut r = (∑ k ∈ S, c.rot (Pack.revOff c lb m k) (u k)) + err ∧ ν err ≤ pErr B Bc lb m + Bout :=
  Ks.packer_executed_value_noise c ν hν ph phOut N big128 keyOf B H keys K hK hN lb m hm ht hkey Bc Bout hBc hcopy hnorm hcopyOut hnormOut accBase2k accSize rank hzero inputs res r h u hQ S hS habs

/-- the sup-norm of `ℚ[X]/(X²+1)` is a `SizeFn'`; non-integer noise records evaluate: `rsh` error `1/2`, normalisation `1/4`,
automorphisms `3` ⇒ one merge `≤ 9/2`, two levels `≤ 27/2` (the theorems instantiated on this instance with a non-zero noise record
are `example`s of Lemmas/NoisyPack.lean) -/
example : Ks.SizeFn' Pack.model Ks.supNorm := Ks.sizeFn'_model_sup
example : Ks.levelErr ⟨1 / 2, 1 / 4, fun _ => 3, fun _ => 3, fun _ => 3⟩ 2 = 27 / 2 := by
  norm_num [Ks.levelErr, Ks.mergeBound, Ks.bothBound, Ks.loBound, Ks.hiBound]
end NoisyPackSec

section AdmCorollariesSec
open KsDec Hal Core Core.Ops C02L AutoMul LweIdx
variable {M : Type*} [AddCommGroup M]

/-- `glwe_automorphism_decrypts`, head-room derived (`ksAdmissible`) -/
theorem glwe_automorphism_decrypts_adm (big128 : Bool) (N bout sout rout : Nat) (a : Ks.Ct) (key : Ks.Key) (sk : List Poly) (gInv : Int)
    (EL KL : ℕ → ℕ → Poly) (Hin Dm : Int)
    (hN : 0 < N) (hg : GalOk key.p N) (hsk : Ks.AllLen N sk) (hinv : ∀ s ∈ sk, σ key.p (σ gInv s) = s)
    (ha : GWF N a) (hrank : a.rank = key.rankIn) (hrout : rout = key.rankOut) (hc0 : 0 < key.mat.colsOut)
    (hD : 1 ≤ key.dsize) (hM : ∀ j q, (key.mat.entry j q).length = N) (hS : key.mat.rows * key.dsize ≤ key.mat.size)
    (hbi1 : 1 ≤ a.base2k) (hbi : a.base2k ≤ 62) (hbk1 : 1 ≤ key.base2k) (hbk : key.base2k ≤ 62) (hbo1 : 1 ≤ bout) (hbo : bout ≤ 62)
    (hIn0 : 0 ≤ Hin) (hIn : Hin + 8 ≤ 2 ^ 62) (hInB : ∀ c ∈ a.cols, ∀ l ∈ c, ∀ x ∈ l, |x| ≤ Hin)
    (hDm0 : 0 ≤ Dm) (hDmB : ∀ j q, normInf (key.mat.entry j q) ≤ Dm) (hadm : ksAdmissible big128 key N Hin Dm)
    (hs : key.mat.colsIn ≤ sk.length)
    (hEL : ∀ i r, (EL i r).length = N) (hKL : ∀ i r, (KL i r).length = N)
    (hkey : ∀ i, i < key.mat.colsIn → ∀ r, r < key.mat.rows →
      Gadget.val (Ks.radix N key.base2k) key.mat.size (Ks.keyPhase N (sk.map (σ gInv)) key.mat i r) =
        Ks.ι N (sk.getD i []) * Ks.radix N key.base2k ^ (key.mat.size - (r + 1) * key.dsize) + Ks.ι N (EL i r)
          + Ks.radix N key.base2k ^ key.mat.size * Ks.ι N (KL i r))
    (hcov1 : convSize a key ≤ key.mat.size) (hcov2 : convSize a key ≤ key.mat.rows * key.dsize) :
    ∃ res aConv, Ks.automorphism big128 bout sout rout a key = .ok res ∧ Ks.convIn a key = .ok aConv ∧
      GWF N res ∧ res.base2k = bout ∧ res.size = sout ∧ res.rank = rout ∧
      ∃ (E1 E3 : Poly) (Q : Ks.R N), E1.length = N ∧ E3.length = N ∧
        normInf E1 ≤ (1 + snorm (min a.rank sk.length) sk) * C02.normTol (key.base2k * convSize a key) (a.base2k * a.size) ∧
        normInf E3 ≤ (1 + snorm (min rout (sk.map (σ gInv)).length) (sk.map (σ gInv))) *
          C02.normTol (bout * sout) (key.base2k * key.mat.size) ∧
        (2 : Ks.R N) ^ (a.base2k * a.size + key.base2k * key.mat.size) * Ks.ι N (valP bout N (phase sk res))
          = (2 : Ks.R N) ^ (bout * sout + key.base2k * key.mat.size) * Ks.ι N (σ key.p (valP a.base2k N (phase sk a)))
            + Ks.ι N (σ key.p (ksErr (2 ^ (bout * sout + key.base2k * (key.mat.size - convSize a key))) (2 ^ (a.base2k * a.size + bout * sout))
                (2 ^ (a.base2k * a.size)) E1 (Ks.errL N key.base2k (aDftOf aConv) key EL)
                (Ks.dropL N key.base2k (sk.map (σ gInv)) (aDftOf aConv) key) E3))
            + (2 : Ks.R N) ^ (a.base2k * a.size + bout * sout + key.base2k * key.mat.size) * Q ∧
        normInf (σ key.p (ksErr (2 ^ (bout * sout + key.base2k * (key.mat.size - convSize a key))) (2 ^ (a.base2k * a.size + bout * sout))
                (2 ^ (a.base2k * a.size)) E1 (Ks.errL N key.base2k (aDftOf aConv) key EL)
                (Ks.dropL N key.base2k (sk.map (σ gInv)) (aDftOf aConv) key) E3))
          ≤ 2 ^ (bout * sout + key.base2k * (key.mat.size - convSize a key)) *
              ((1 + snorm (min a.rank sk.length) sk) * C02.normTol (key.base2k * convSize a key) (a.base2k * a.size))
            + 2 ^ (a.base2k * a.size + bout * sout) * gadgetBound N key.base2k (aDftOf aConv) key EL
            + 2 ^ (a.base2k * a.size + bout * sout) * dropBound N key.base2k (sk.map (σ gInv)) (aDftOf aConv) key
            + 2 ^ (a.base2k * a.size) *
              ((1 + snorm (min rout (sk.map (σ gInv)).length) (sk.map (σ gInv))) *
                C02.normTol (bout * sout) (key.base2k * key.mat.size)) :=
  KsDec.glwe_automorphism_decrypts_adm big128 N bout sout rout a key sk gInv EL KL Hin Dm hN hg hsk hinv ha hrank hrout hc0 hD hM hS hbi1 hbi hbk1 hbk hbo1 hbo hIn0 hIn hInB hDm0 hDmB hadm hs hEL hKL hkey hcov1 hcov2

/-- in-place form -/
theorem glwe_automorphism_assign_decrypts_adm (big128 : Bool) (N : Nat) (a : Ks.Ct) (key : Ks.Key) (sk : List Poly) (gInv : Int)
    (EL KL : ℕ → ℕ → Poly) (Hin Dm : Int)
    (hN : 0 < N) (hg : GalOk key.p N) (hsk : Ks.AllLen N sk) (hinv : ∀ s ∈ sk, σ key.p (σ gInv s) = s)
    (ha : GWF N a) (hrank : a.rank = key.rankIn) (hrout : a.rank = key.rankOut) (hc0 : 0 < key.mat.colsOut)
    (hD : 1 ≤ key.dsize) (hM : ∀ j q, (key.mat.entry j q).length = N) (hS : key.mat.rows * key.dsize ≤ key.mat.size)
    (hbi1 : 1 ≤ a.base2k) (hbi : a.base2k ≤ 62) (hbk1 : 1 ≤ key.base2k) (hbk : key.base2k ≤ 62)
    (hIn0 : 0 ≤ Hin) (hIn : Hin + 8 ≤ 2 ^ 62) (hInB : ∀ c ∈ a.cols, ∀ l ∈ c, ∀ x ∈ l, |x| ≤ Hin)
    (hDm0 : 0 ≤ Dm) (hDmB : ∀ j q, normInf (key.mat.entry j q) ≤ Dm) (hadm : ksAdmissible big128 key N Hin Dm)
    (hs : key.mat.colsIn ≤ sk.length)
    (hEL : ∀ i r, (EL i r).length = N) (hKL : ∀ i r, (KL i r).length = N)
    (hkey : ∀ i, i < key.mat.colsIn → ∀ r, r < key.mat.rows →
      Gadget.val (Ks.radix N key.base2k) key.mat.size (Ks.keyPhase N (sk.map (σ gInv)) key.mat i r) =
        Ks.ι N (sk.getD i []) * Ks.radix N key.base2k ^ (key.mat.size - (r + 1) * key.dsize) + Ks.ι N (EL i r)
          + Ks.radix N key.base2k ^ key.mat.size * Ks.ι N (KL i r))
    (hcov1 : convSize a key ≤ key.mat.size) (hcov2 : convSize a key ≤ key.mat.rows * key.dsize) :
    ∃ res aConv, Ks.automorphism big128 a.base2k a.size a.rank a key = .ok res ∧ Ks.convIn a key = .ok aConv ∧
      GWF N res ∧ res.base2k = a.base2k ∧ res.size = a.size ∧ res.rank = a.rank ∧
      ∃ (E1 E3 : Poly) (Q : Ks.R N), E1.length = N ∧ E3.length = N ∧
        normInf E1 ≤ (1 + snorm (min a.rank sk.length) sk) * C02.normTol (key.base2k * convSize a key) (a.base2k * a.size) ∧
        normInf E3 ≤ (1 + snorm (min a.rank (sk.map (σ gInv)).length) (sk.map (σ gInv))) *
          C02.normTol (a.base2k * a.size) (key.base2k * key.mat.size) ∧
        (2 : Ks.R N) ^ (a.base2k * a.size + key.base2k * key.mat.size) * Ks.ι N (valP a.base2k N (phase sk res))
          = (2 : Ks.R N) ^ (a.base2k * a.size + key.base2k * key.mat.size) * Ks.ι N (σ key.p (valP a.base2k N (phase sk a)))
            + Ks.ι N (σ key.p (ksErr (2 ^ (a.base2k * a.size + key.base2k * (key.mat.size - convSize a key))) (2 ^ (a.base2k * a.size + a.base2k * a.size))
                (2 ^ (a.base2k * a.size)) E1 (Ks.errL N key.base2k (aDftOf aConv) key EL)
                (Ks.dropL N key.base2k (sk.map (σ gInv)) (aDftOf aConv) key) E3))
            + (2 : Ks.R N) ^ (a.base2k * a.size + a.base2k * a.size + key.base2k * key.mat.size) * Q ∧
        normInf (σ key.p (ksErr (2 ^ (a.base2k * a.size + key.base2k * (key.mat.size - convSize a key))) (2 ^ (a.base2k * a.size + a.base2k * a.size))
                (2 ^ (a.base2k * a.size)) E1 (Ks.errL N key.base2k (aDftOf aConv) key EL)
                (Ks.dropL N key.base2k (sk.map (σ gInv)) (aDftOf aConv) key) E3))
          ≤ 2 ^ (a.base2k * a.size + key.base2k * (key.mat.size - convSize a key)) *
              ((1 + snorm (min a.rank sk.length) sk) * C02.normTol (key.base2k * convSize a key) (a.base2k * a.size))
            + 2 ^ (a.base2k * a.size + a.base2k * a.size) * gadgetBound N key.base2k (aDftOf aConv) key EL
            + 2 ^ (a.base2k * a.size + a.base2k * a.size) * dropBound N key.base2k (sk.map (σ gInv)) (aDftOf aConv) key
            + 2 ^ (a.base2k * a.size) *
              ((1 + snorm (min a.rank (sk.map (σ gInv)).length) (sk.map (σ gInv))) *
                C02.normTol (a.base2k * a.size) (key.base2k * key.mat.size)) :=
  KsDec.glwe_automorphism_assign_decrypts_adm big128 N a key sk gInv EL KL Hin Dm hN hg hsk hinv ha hrank hrout hc0 hD hM hS hbi1 hbi hbk1 hbk hIn0 hIn hInB hDm0 hDmB hadm hs hEL hKL hkey hcov1 hcov2

/-- **the fused forms, arbitrary `res_dft`, head-room derived**: the only numeric hypothesis is the decidable `fusedAdmissible` (`prodBound + 2·(Hin+2^b) + 8 ≤ 2^(bits−2)`) -/
theorem glwe_automorphism_fused_decrypts_any_adm (f : Ks.Fused) (big128 : Bool) (N bout sout rout : Nat) (a : Ks.Ct) (key : Ks.Key) (dft0 : Buf)
    (sk : List Poly) (gInv : Int) (EL KL : ℕ → ℕ → Poly) (Hin Dm : Int)
    (hN : 0 < N) (hg : GalOk key.p N) (hsk : Ks.AllLen N sk) (hinv : ∀ s ∈ sk, σ key.p (σ gInv s) = s)
    (ha : GWF N a) (hrank : a.rank = key.rankIn) (hrout : rout = key.rankOut) (hra : a.rank = rout) (hc0 : 0 < key.mat.colsOut)
    (hD : 1 ≤ key.dsize) (hM : ∀ j q, (key.mat.entry j q).length = N) (hS : key.mat.rows * key.dsize ≤ key.mat.size)
    (hbi1 : 1 ≤ a.base2k) (hbi : a.base2k ≤ 62) (hbk1 : 1 ≤ key.base2k) (hbk : key.base2k ≤ 62) (hbo1 : 1 ≤ bout) (hbo : bout ≤ 62)
    (hIn0 : 0 ≤ Hin) (hIn : Hin + 8 ≤ 2 ^ 62) (hInB : ∀ c ∈ a.cols, ∀ l ∈ c, ∀ x ∈ l, |x| ≤ Hin)
    (hDm0 : 0 ≤ Dm) (hDmB : ∀ j q, normInf (key.mat.entry j q) ≤ Dm) (hadm : fusedAdmissible big128 key N Hin Dm)
    (hs : key.mat.colsIn ≤ sk.length)
    (hEL : ∀ i r, (EL i r).length = N) (hKL : ∀ i r, (KL i r).length = N)
    (hkey : ∀ i, i < key.mat.colsIn → ∀ r, r < key.mat.rows →
      Gadget.val (Ks.radix N key.base2k) key.mat.size (Ks.keyPhase N (sk.map (σ gInv)) key.mat i r) =
        Ks.ι N (sk.getD i []) * Ks.radix N key.base2k ^ (key.mat.size - (r + 1) * key.dsize) + Ks.ι N (EL i r)
          + Ks.radix N key.base2k ^ key.mat.size * Ks.ι N (KL i r))
    (hcov1 : convSize a key ≤ key.mat.size) (hcov2 : convSize a key ≤ key.mat.rows * key.dsize)
    (hdwf : dft0.WF) (hdn : dft0.n = N) (hdc : dft0.cols = rout + 1) (hds : dft0.size = key.mat.size) (hdm : dft0.maxSize = key.mat.size) :
    ∃ res aConv, Ks.automorphismFused f big128 dft0 bout sout rout a key = .ok res ∧
      Ks.convIn a key = .ok aConv ∧ GWF N res ∧ res.base2k = bout ∧ res.size = sout ∧ res.rank = rout ∧
      ∃ (E1 E3 : Poly) (Q : Ks.R N), E1.length = N ∧ E3.length = N ∧
        normInf E1 ≤ (1 + snorm (min a.rank sk.length) sk) * C02.normTol (key.base2k * convSize a key) (a.base2k * a.size) ∧
        normInf E3 ≤ (1 + snorm (min rout sk.length) sk) * C02.normTol (bout * sout) (key.base2k * key.mat.size) ∧
        (2 : Ks.R N) ^ (a.base2k * a.size + key.base2k * key.mat.size) * Ks.ι N (valP bout N (phase sk res))
          = (sgA f : Ks.R N) *
              ((2 : Ks.R N) ^ (bout * sout + key.base2k * key.mat.size) * Ks.ι N (σ key.p (valP a.base2k N (phase sk a)))
                + Ks.ι N (σ key.p (ksErr (2 ^ (bout * sout + key.base2k * (key.mat.size - convSize a key)))
                    (2 ^ (a.base2k * a.size + bout * sout)) 0 E1 (Ks.errL N key.base2k (aDftOf aConv) key EL)
                    (Ks.dropL N key.base2k (sk.map (σ gInv)) (aDftOf aConv) key) (zeroP N))))
            + (sgB f : Ks.R N) *
              ((2 : Ks.R N) ^ (bout * sout + key.base2k * key.mat.size) * Ks.ι N (valP a.base2k N (phase sk a))
                + Ks.ι N (polyScale (2 ^ (bout * sout + key.base2k * (key.mat.size - convSize a key))) E1))
            + Ks.ι N (polyScale (2 ^ (a.base2k * a.size)) E3)
            + (2 : Ks.R N) ^ (a.base2k * a.size + bout * sout + key.base2k * key.mat.size) * Q ∧
        normInf (σ key.p (ksErr (2 ^ (bout * sout + key.base2k * (key.mat.size - convSize a key)))
                    (2 ^ (a.base2k * a.size + bout * sout)) 0 E1 (Ks.errL N key.base2k (aDftOf aConv) key EL)
                    (Ks.dropL N key.base2k (sk.map (σ gInv)) (aDftOf aConv) key) (zeroP N)))
          ≤ 2 ^ (bout * sout + key.base2k * (key.mat.size - convSize a key)) *
              ((1 + snorm (min a.rank sk.length) sk) * C02.normTol (key.base2k * convSize a key) (a.base2k * a.size))
            + 2 ^ (a.base2k * a.size + bout * sout) * gadgetBound N key.base2k (aDftOf aConv) key EL
            + 2 ^ (a.base2k * a.size + bout * sout) * dropBound N key.base2k (sk.map (σ gInv)) (aDftOf aConv) key :=
  KsDec.glwe_automorphism_fused_decrypts_any_adm f big128 N bout sout rout a key dft0 sk gInv EL KL Hin Dm hN hg hsk hinv ha hrank hrout hra hc0 hD hM hS hbi1 hbi hbk1 hbk hbo1 hbo hIn0 hIn hInB hDm0 hDmB hadm hs hEL hKL hkey hcov1 hcov2 hdwf hdn hdc hds hdm

/-- `σ_p(KS(a)) + a` -/
theorem glwe_automorphism_add_decrypts_any_adm (big128 : Bool) (N bout sout rout : Nat) (a : Ks.Ct) (key : Ks.Key) (dft0 : Buf)
    (sk : List Poly) (gInv : Int) (EL KL : ℕ → ℕ → Poly) (Hin Dm : Int)
    (hN : 0 < N) (hg : GalOk key.p N) (hsk : Ks.AllLen N sk) (hinv : ∀ s ∈ sk, σ key.p (σ gInv s) = s)
    (ha : GWF N a) (hrank : a.rank = key.rankIn) (hrout : rout = key.rankOut) (hra : a.rank = rout) (hc0 : 0 < key.mat.colsOut)
    (hD : 1 ≤ key.dsize) (hM : ∀ j q, (key.mat.entry j q).length = N) (hS : key.mat.rows * key.dsize ≤ key.mat.size)
    (hbi1 : 1 ≤ a.base2k) (hbi : a.base2k ≤ 62) (hbk1 : 1 ≤ key.base2k) (hbk : key.base2k ≤ 62) (hbo1 : 1 ≤ bout) (hbo : bout ≤ 62)
    (hIn0 : 0 ≤ Hin) (hIn : Hin + 8 ≤ 2 ^ 62) (hInB : ∀ c ∈ a.cols, ∀ l ∈ c, ∀ x ∈ l, |x| ≤ Hin)
    (hDm0 : 0 ≤ Dm) (hDmB : ∀ j q, normInf (key.mat.entry j q) ≤ Dm) (hadm : fusedAdmissible big128 key N Hin Dm)
    (hs : key.mat.colsIn ≤ sk.length)
    (hEL : ∀ i r, (EL i r).length = N) (hKL : ∀ i r, (KL i r).length = N)
    (hkey : ∀ i, i < key.mat.colsIn → ∀ r, r < key.mat.rows →
      Gadget.val (Ks.radix N key.base2k) key.mat.size (Ks.keyPhase N (sk.map (σ gInv)) key.mat i r) =
        Ks.ι N (sk.getD i []) * Ks.radix N key.base2k ^ (key.mat.size - (r + 1) * key.dsize) + Ks.ι N (EL i r)
          + Ks.radix N key.base2k ^ key.mat.size * Ks.ι N (KL i r))
    (hcov1 : convSize a key ≤ key.mat.size) (hcov2 : convSize a key ≤ key.mat.rows * key.dsize)
    (hdwf : dft0.WF) (hdn : dft0.n = N) (hdc : dft0.cols = rout + 1) (hds : dft0.size = key.mat.size) (hdm : dft0.maxSize = key.mat.size) :
    ∃ res aConv, Ks.automorphismFused .add big128 dft0 bout sout rout a key = .ok res ∧
      Ks.convIn a key = .ok aConv ∧ GWF N res ∧ res.base2k = bout ∧ res.size = sout ∧ res.rank = rout ∧
      ∃ (E1 E3 : Poly) (Q : Ks.R N), E1.length = N ∧ E3.length = N ∧
        normInf E1 ≤ (1 + snorm (min a.rank sk.length) sk) * C02.normTol (key.base2k * convSize a key) (a.base2k * a.size) ∧
        normInf E3 ≤ (1 + snorm (min rout sk.length) sk) * C02.normTol (bout * sout) (key.base2k * key.mat.size) ∧
        (2 : Ks.R N) ^ (a.base2k * a.size + key.base2k * key.mat.size) * Ks.ι N (valP bout N (phase sk res))
          = ((sgA .add : ℤ) : Ks.R N) *
              ((2 : Ks.R N) ^ (bout * sout + key.base2k * key.mat.size) * Ks.ι N (σ key.p (valP a.base2k N (phase sk a)))
                + Ks.ι N (σ key.p (ksErr (2 ^ (bout * sout + key.base2k * (key.mat.size - convSize a key)))
                    (2 ^ (a.base2k * a.size + bout * sout)) 0 E1 (Ks.errL N key.base2k (aDftOf aConv) key EL)
                    (Ks.dropL N key.base2k (sk.map (σ gInv)) (aDftOf aConv) key) (zeroP N))))
            + ((sgB .add : ℤ) : Ks.R N) *
              ((2 : Ks.R N) ^ (bout * sout + key.base2k * key.mat.size) * Ks.ι N (valP a.base2k N (phase sk a))
                + Ks.ι N (polyScale (2 ^ (bout * sout + key.base2k * (key.mat.size - convSize a key))) E1))
            + Ks.ι N (polyScale (2 ^ (a.base2k * a.size)) E3)
            + (2 : Ks.R N) ^ (a.base2k * a.size + bout * sout + key.base2k * key.mat.size) * Q ∧
        normInf (σ key.p (ksErr (2 ^ (bout * sout + key.base2k * (key.mat.size - convSize a key)))
                    (2 ^ (a.base2k * a.size + bout * sout)) 0 E1 (Ks.errL N key.base2k (aDftOf aConv) key EL)
                    (Ks.dropL N key.base2k (sk.map (σ gInv)) (aDftOf aConv) key) (zeroP N)))
          ≤ 2 ^ (bout * sout + key.base2k * (key.mat.size - convSize a key)) *
              ((1 + snorm (min a.rank sk.length) sk) * C02.normTol (key.base2k * convSize a key) (a.base2k * a.size))
            + 2 ^ (a.base2k * a.size + bout * sout) * gadgetBound N key.base2k (aDftOf aConv) key EL
            + 2 ^ (a.base2k * a.size + bout * sout) * dropBound N key.base2k (sk.map (σ gInv)) (aDftOf aConv) key :=
  KsDec.glwe_automorphism_add_decrypts_any_adm big128 N bout sout rout a key dft0 sk gInv EL KL Hin Dm hN hg hsk hinv ha hrank hrout hra hc0 hD hM hS hbi1 hbi hbk1 hbk hbo1 hbo hIn0 hIn hInB hDm0 hDmB hadm hs hEL hKL hkey hcov1 hcov2 hdwf hdn hdc hds hdm

/-- `σ_p(KS(a)) − a` -/
theorem glwe_automorphism_sub_decrypts_any_adm (big128 : Bool) (N bout sout rout : Nat) (a : Ks.Ct) (key : Ks.Key) (dft0 : Buf)
    (sk : List Poly) (gInv : Int) (EL KL : ℕ → ℕ → Poly) (Hin Dm : Int)
    (hN : 0 < N) (hg : GalOk key.p N) (hsk : Ks.AllLen N sk) (hinv : ∀ s ∈ sk, σ key.p (σ gInv s) = s)
    (ha : GWF N a) (hrank : a.rank = key.rankIn) (hrout : rout = key.rankOut) (hra : a.rank = rout) (hc0 : 0 < key.mat.colsOut)
    (hD : 1 ≤ key.dsize) (hM : ∀ j q, (key.mat.entry j q).length = N) (hS : key.mat.rows * key.dsize ≤ key.mat.size)
    (hbi1 : 1 ≤ a.base2k) (hbi : a.base2k ≤ 62) (hbk1 : 1 ≤ key.base2k) (hbk : key.base2k ≤ 62) (hbo1 : 1 ≤ bout) (hbo : bout ≤ 62)
    (hIn0 : 0 ≤ Hin) (hIn : Hin + 8 ≤ 2 ^ 62) (hInB : ∀ c ∈ a.cols, ∀ l ∈ c, ∀ x ∈ l, |x| ≤ Hin)
    (hDm0 : 0 ≤ Dm) (hDmB : ∀ j q, normInf (key.mat.entry j q) ≤ Dm) (hadm : fusedAdmissible big128 key N Hin Dm)
    (hs : key.mat.colsIn ≤ sk.length)
    (hEL : ∀ i r, (EL i r).length = N) (hKL : ∀ i r, (KL i r).length = N)
    (hkey : ∀ i, i < key.mat.colsIn → ∀ r, r < key.mat.rows →
      Gadget.val (Ks.radix N key.base2k) key.mat.size (Ks.keyPhase N (sk.map (σ gInv)) key.mat i r) =
        Ks.ι N (sk.getD i []) * Ks.radix N key.base2k ^ (key.mat.size - (r + 1) * key.dsize) + Ks.ι N (EL i r)
          + Ks.radix N key.base2k ^ key.mat.size * Ks.ι N (KL i r))
    (hcov1 : convSize a key ≤ key.mat.size) (hcov2 : convSize a key ≤ key.mat.rows * key.dsize)
    (hdwf : dft0.WF) (hdn : dft0.n = N) (hdc : dft0.cols = rout + 1) (hds : dft0.size = key.mat.size) (hdm : dft0.maxSize = key.mat.size) :
    ∃ res aConv, Ks.automorphismFused .sub big128 dft0 bout sout rout a key = .ok res ∧
      Ks.convIn a key = .ok aConv ∧ GWF N res ∧ res.base2k = bout ∧ res.size = sout ∧ res.rank = rout ∧
      ∃ (E1 E3 : Poly) (Q : Ks.R N), E1.length = N ∧ E3.length = N ∧
        normInf E1 ≤ (1 + snorm (min a.rank sk.length) sk) * C02.normTol (key.base2k * convSize a key) (a.base2k * a.size) ∧
        normInf E3 ≤ (1 + snorm (min rout sk.length) sk) * C02.normTol (bout * sout) (key.base2k * key.mat.size) ∧
        (2 : Ks.R N) ^ (a.base2k * a.size + key.base2k * key.mat.size) * Ks.ι N (valP bout N (phase sk res))
          = ((sgA .sub : ℤ) : Ks.R N) *
              ((2 : Ks.R N) ^ (bout * sout + key.base2k * key.mat.size) * Ks.ι N (σ key.p (valP a.base2k N (phase sk a)))
                + Ks.ι N (σ key.p (ksErr (2 ^ (bout * sout + key.base2k * (key.mat.size - convSize a key)))
                    (2 ^ (a.base2k * a.size + bout * sout)) 0 E1 (Ks.errL N key.base2k (aDftOf aConv) key EL)
                    (Ks.dropL N key.base2k (sk.map (σ gInv)) (aDftOf aConv) key) (zeroP N))))
            + ((sgB .sub : ℤ) : Ks.R N) *
              ((2 : Ks.R N) ^ (bout * sout + key.base2k * key.mat.size) * Ks.ι N (valP a.base2k N (phase sk a))
                + Ks.ι N (polyScale (2 ^ (bout * sout + key.base2k * (key.mat.size - convSize a key))) E1))
            + Ks.ι N (polyScale (2 ^ (a.base2k * a.size)) E3)
            + (2 : Ks.R N) ^ (a.base2k * a.size + bout * sout + key.base2k * key.mat.size) * Q ∧
        normInf (σ key.p (ksErr (2 ^ (bout * sout + key.base2k * (key.mat.size - convSize a key)))
                    (2 ^ (a.base2k * a.size + bout * sout)) 0 E1 (Ks.errL N key.base2k (aDftOf aConv) key EL)
                    (Ks.dropL N key.base2k (sk.map (σ gInv)) (aDftOf aConv) key) (zeroP N)))
          ≤ 2 ^ (bout * sout + key.base2k * (key.mat.size - convSize a key)) *
              ((1 + snorm (min a.rank sk.length) sk) * C02.normTol (key.base2k * convSize a key) (a.base2k * a.size))
            + 2 ^ (a.base2k * a.size + bout * sout) * gadgetBound N key.base2k (aDftOf aConv) key EL
            + 2 ^ (a.base2k * a.size + bout * sout) * dropBound N key.base2k (sk.map (σ gInv)) (aDftOf aConv) key :=
  KsDec.glwe_automorphism_sub_decrypts_any_adm big128 N bout sout rout a key dft0 sk gInv EL KL Hin Dm hN hg hsk hinv ha hrank hrout hra hc0 hD hM hS hbi1 hbi hbk1 hbk hbo1 hbo hIn0 hIn hInB hDm0 hDmB hadm hs hEL hKL hkey hcov1 hcov2 hdwf hdn hdc hds hdm

/-- `a − σ_p(KS(a))` -/
theorem glwe_automorphism_sub_negate_decrypts_any_adm (big128 : Bool) (N bout sout rout : Nat) (a : Ks.Ct) (key : Ks.Key) (dft0 : Buf)
    (sk : List Poly) (gInv : Int) (EL KL : ℕ → ℕ → Poly) (Hin Dm : Int)
    (hN : 0 < N) (hg : GalOk key.p N) (hsk : Ks.AllLen N sk) (hinv : ∀ s ∈ sk, σ key.p (σ gInv s) = s)
    (ha : GWF N a) (hrank : a.rank = key.rankIn) (hrout : rout = key.rankOut) (hra : a.rank = rout) (hc0 : 0 < key.mat.colsOut)
    (hD : 1 ≤ key.dsize) (hM : ∀ j q, (key.mat.entry j q).length = N) (hS : key.mat.rows * key.dsize ≤ key.mat.size)
    (hbi1 : 1 ≤ a.base2k) (hbi : a.base2k ≤ 62) (hbk1 : 1 ≤ key.base2k) (hbk : key.base2k ≤ 62) (hbo1 : 1 ≤ bout) (hbo : bout ≤ 62)
    (hIn0 : 0 ≤ Hin) (hIn : Hin + 8 ≤ 2 ^ 62) (hInB : ∀ c ∈ a.cols, ∀ l ∈ c, ∀ x ∈ l, |x| ≤ Hin)
    (hDm0 : 0 ≤ Dm) (hDmB : ∀ j q, normInf (key.mat.entry j q) ≤ Dm) (hadm : fusedAdmissible big128 key N Hin Dm)
    (hs : key.mat.colsIn ≤ sk.length)
    (hEL : ∀ i r, (EL i r).length = N) (hKL : ∀ i r, (KL i r).length = N)
    (hkey : ∀ i, i < key.mat.colsIn → ∀ r, r < key.mat.rows →
      Gadget.val (Ks.radix N key.base2k) key.mat.size (Ks.keyPhase N (sk.map (σ gInv)) key.mat i r) =
        Ks.ι N (sk.getD i []) * Ks.radix N key.base2k ^ (key.mat.size - (r + 1) * key.dsize) + Ks.ι N (EL i r)
          + Ks.radix N key.base2k ^ key.mat.size * Ks.ι N (KL i r))
    (hcov1 : convSize a key ≤ key.mat.size) (hcov2 : convSize a key ≤ key.mat.rows * key.dsize)
    (hdwf : dft0.WF) (hdn : dft0.n = N) (hdc : dft0.cols = rout + 1) (hds : dft0.size = key.mat.size) (hdm : dft0.maxSize = key.mat.size) :
    ∃ res aConv, Ks.automorphismFused .subNegate big128 dft0 bout sout rout a key = .ok res ∧
      Ks.convIn a key = .ok aConv ∧ GWF N res ∧ res.base2k = bout ∧ res.size = sout ∧ res.rank = rout ∧
      ∃ (E1 E3 : Poly) (Q : Ks.R N), E1.length = N ∧ E3.length = N ∧
        normInf E1 ≤ (1 + snorm (min a.rank sk.length) sk) * C02.normTol (key.base2k * convSize a key) (a.base2k * a.size) ∧
        normInf E3 ≤ (1 + snorm (min rout sk.length) sk) * C02.normTol (bout * sout) (key.base2k * key.mat.size) ∧
        (2 : Ks.R N) ^ (a.base2k * a.size + key.base2k * key.mat.size) * Ks.ι N (valP bout N (phase sk res))
          = ((sgA .subNegate : ℤ) : Ks.R N) *
              ((2 : Ks.R N) ^ (bout * sout + key.base2k * key.mat.size) * Ks.ι N (σ key.p (valP a.base2k N (phase sk a)))
                + Ks.ι N (σ key.p (ksErr (2 ^ (bout * sout + key.base2k * (key.mat.size - convSize a key)))
                    (2 ^ (a.base2k * a.size + bout * sout)) 0 E1 (Ks.errL N key.base2k (aDftOf aConv) key EL)
                    (Ks.dropL N key.base2k (sk.map (σ gInv)) (aDftOf aConv) key) (zeroP N))))
            + ((sgB .subNegate : ℤ) : Ks.R N) *
              ((2 : Ks.R N) ^ (bout * sout + key.base2k * key.mat.size) * Ks.ι N (valP a.base2k N (phase sk a))
                + Ks.ι N (polyScale (2 ^ (bout * sout + key.base2k * (key.mat.size - convSize a key))) E1))
            + Ks.ι N (polyScale (2 ^ (a.base2k * a.size)) E3)
            + (2 : Ks.R N) ^ (a.base2k * a.size + bout * sout + key.base2k * key.mat.size) * Q ∧
        normInf (σ key.p (ksErr (2 ^ (bout * sout + key.base2k * (key.mat.size - convSize a key)))
                    (2 ^ (a.base2k * a.size + bout * sout)) 0 E1 (Ks.errL N key.base2k (aDftOf aConv) key EL)
                    (Ks.dropL N key.base2k (sk.map (σ gInv)) (aDftOf aConv) key) (zeroP N)))
          ≤ 2 ^ (bout * sout + key.base2k * (key.mat.size - convSize a key)) *
              ((1 + snorm (min a.rank sk.length) sk) * C02.normTol (key.base2k * convSize a key) (a.base2k * a.size))
            + 2 ^ (a.base2k * a.size + bout * sout) * gadgetBound N key.base2k (aDftOf aConv) key EL
            + 2 ^ (a.base2k * a.size + bout * sout) * dropBound N key.base2k (sk.map (σ gInv)) (aDftOf aConv) key :=
  KsDec.glwe_automorphism_sub_negate_decrypts_any_adm big128 N bout sout rout a key dft0 sk gInv EL KL Hin Dm hN hg hsk hinv ha hrank hrout hra hc0 hD hM hS hbi1 hbi hbk1 hbk hbo1 hbo hIn0 hIn hInB hDm0 hDmB hadm hs hEL hKL hkey hcov1 hcov2 hdwf hdn hdc hds hdm

/-- in-place forms -/
theorem glwe_automorphism_fused_assign_decrypts_any_adm (f : Ks.Fused) (big128 : Bool) (N : Nat) (a : Ks.Ct) (key : Ks.Key) (dft0 : Buf)
    (sk : List Poly) (gInv : Int) (EL KL : ℕ → ℕ → Poly) (Hin Dm : Int)
    (hN : 0 < N) (hg : GalOk key.p N) (hsk : Ks.AllLen N sk) (hinv : ∀ s ∈ sk, σ key.p (σ gInv s) = s)
    (ha : GWF N a) (hrank : a.rank = key.rankIn) (hrout : a.rank = key.rankOut) (hc0 : 0 < key.mat.colsOut)
    (hD : 1 ≤ key.dsize) (hM : ∀ j q, (key.mat.entry j q).length = N) (hS : key.mat.rows * key.dsize ≤ key.mat.size)
    (hbi1 : 1 ≤ a.base2k) (hbi : a.base2k ≤ 62) (hbk1 : 1 ≤ key.base2k) (hbk : key.base2k ≤ 62)
    (hIn0 : 0 ≤ Hin) (hIn : Hin + 8 ≤ 2 ^ 62) (hInB : ∀ c ∈ a.cols, ∀ l ∈ c, ∀ x ∈ l, |x| ≤ Hin)
    (hDm0 : 0 ≤ Dm) (hDmB : ∀ j q, normInf (key.mat.entry j q) ≤ Dm) (hadm : fusedAdmissible big128 key N Hin Dm)
    (hs : key.mat.colsIn ≤ sk.length)
    (hEL : ∀ i r, (EL i r).length = N) (hKL : ∀ i r, (KL i r).length = N)
    (hkey : ∀ i, i < key.mat.colsIn → ∀ r, r < key.mat.rows →
      Gadget.val (Ks.radix N key.base2k) key.mat.size (Ks.keyPhase N (sk.map (σ gInv)) key.mat i r) =
        Ks.ι N (sk.getD i []) * Ks.radix N key.base2k ^ (key.mat.size - (r + 1) * key.dsize) + Ks.ι N (EL i r)
          + Ks.radix N key.base2k ^ key.mat.size * Ks.ι N (KL i r))
    (hcov1 : convSize a key ≤ key.mat.size) (hcov2 : convSize a key ≤ key.mat.rows * key.dsize)
    (hdwf : dft0.WF) (hdn : dft0.n = N) (hdc : dft0.cols = a.rank + 1) (hds : dft0.size = key.mat.size) (hdm : dft0.maxSize = key.mat.size) :
    ∃ res aConv, Ks.automorphismFused f big128 dft0 a.base2k a.size a.rank a key = .ok res ∧
      Ks.convIn a key = .ok aConv ∧ GWF N res ∧ res.base2k = a.base2k ∧ res.size = a.size ∧ res.rank = a.rank ∧
      ∃ (E1 E3 : Poly) (Q : Ks.R N), E1.length = N ∧ E3.length = N ∧
        normInf E1 ≤ (1 + snorm (min a.rank sk.length) sk) * C02.normTol (key.base2k * convSize a key) (a.base2k * a.size) ∧
        normInf E3 ≤ (1 + snorm (min a.rank sk.length) sk) * C02.normTol (a.base2k * a.size) (key.base2k * key.mat.size) ∧
        (2 : Ks.R N) ^ (a.base2k * a.size + key.base2k * key.mat.size) * Ks.ι N (valP a.base2k N (phase sk res))
          = (sgA f : Ks.R N) *
              ((2 : Ks.R N) ^ (a.base2k * a.size + key.base2k * key.mat.size) * Ks.ι N (σ key.p (valP a.base2k N (phase sk a)))
                + Ks.ι N (σ key.p (ksErr (2 ^ (a.base2k * a.size + key.base2k * (key.mat.size - convSize a key)))
                    (2 ^ (a.base2k * a.size + a.base2k * a.size)) 0 E1 (Ks.errL N key.base2k (aDftOf aConv) key EL)
                    (Ks.dropL N key.base2k (sk.map (σ gInv)) (aDftOf aConv) key) (zeroP N))))
            + (sgB f : Ks.R N) *
              ((2 : Ks.R N) ^ (a.base2k * a.size + key.base2k * key.mat.size) * Ks.ι N (valP a.base2k N (phase sk a))
                + Ks.ι N (polyScale (2 ^ (a.base2k * a.size + key.base2k * (key.mat.size - convSize a key))) E1))
            + Ks.ι N (polyScale (2 ^ (a.base2k * a.size)) E3)
            + (2 : Ks.R N) ^ (a.base2k * a.size + a.base2k * a.size + key.base2k * key.mat.size) * Q ∧
        normInf (σ key.p (ksErr (2 ^ (a.base2k * a.size + key.base2k * (key.mat.size - convSize a key)))
                    (2 ^ (a.base2k * a.size + a.base2k * a.size)) 0 E1 (Ks.errL N key.base2k (aDftOf aConv) key EL)
                    (Ks.dropL N key.base2k (sk.map (σ gInv)) (aDftOf aConv) key) (zeroP N)))
          ≤ 2 ^ (a.base2k * a.size + key.base2k * (key.mat.size - convSize a key)) *
              ((1 + snorm (min a.rank sk.length) sk) * C02.normTol (key.base2k * convSize a key) (a.base2k * a.size))
            + 2 ^ (a.base2k * a.size + a.base2k * a.size) * gadgetBound N key.base2k (aDftOf aConv) key EL
            + 2 ^ (a.base2k * a.size + a.base2k * a.size) * dropBound N key.base2k (sk.map (σ gInv)) (aDftOf aConv) key :=
  KsDec.glwe_automorphism_fused_assign_decrypts_any_adm f big128 N a key dft0 sk gInv EL KL Hin Dm hN hg hsk hinv ha hrank hrout hc0 hD hM hS hbi1 hbi hbk1 hbk hIn0 hIn hInB hDm0 hDmB hadm hs hEL hKL hkey hcov1 hcov2 hdwf hdn hdc hds hdm

/-- coefficient form under `KsSideAdm` (= `KsSide` with the product-buffer fields replaced by `Dm` + `ksAdmissible`) -/
theorem glwe_keyswitch_decrypts_coeff_adm (big128 : Bool) (N bout sout rout : Nat) (a : Ks.Ct) (key : Ks.Key) (sIn skOut : List Poly)
    (EL KL : ℕ → ℕ → Poly) (Hin Dm : Int) (h : KsSideAdm big128 N bout sout rout a key sIn skOut EL KL Hin Dm)
    (ha : GWF N a) (hInB : ∀ c ∈ a.cols, ∀ l ∈ c, ∀ x ∈ l, |x| ≤ Hin) :
    ∃ res aConv, Ks.keyswitch big128 bout sout rout a key = .ok res ∧ Ks.convIn a key = .ok aConv ∧
      GWF N res ∧ res.base2k = bout ∧ res.size = sout ∧ res.rank = rout ∧
      ∀ t, t < N → ∃ e q : Int,
        2 ^ (a.base2k * a.size + key.base2k * key.mat.size) * valCoeff bout (phase skOut res) t
          = 2 ^ (bout * sout + key.base2k * key.mat.size) * valCoeff a.base2k (phase sIn a) t + e
            + 2 ^ (a.base2k * a.size + bout * sout + key.base2k * key.mat.size) * q ∧
        |e| ≤ ksBound N bout sout rout a aConv key sIn skOut EL :=
  KsDec.glwe_keyswitch_decrypts_coeff_adm big128 N bout sout rout a key sIn skOut EL KL Hin Dm h ha hInB

/-- `lwe_keyswitch_decrypts`, head-room derived -/
theorem lwe_keyswitch_decrypts_adm (big128 : Bool) (n bout sout nOut : Nat) (a : Ks.Lwe) (key : Ks.Key) (sIn sOut : Poly)
    (EL KL : ℕ → ℕ → Poly) (Hin Dm : Int)
    (h : KsSideAdm big128 n bout sout 1 (lweEmb n a) key (embSk n sIn) (embSk n sOut) EL KL Hin Dm)
    (hInB : ∀ limb ∈ a.data, ∀ x ∈ limb, |x| ≤ Hin)
    (hnIn : a.nLwe ≤ n) (hnOut : nOut ≤ n) (hsIn : sIn.length = a.nLwe) (hsOut : sOut.length = nOut) :
    ∃ res aConv, Ks.lweKeyswitch big128 n bout sout nOut a key = .ok res ∧ Ks.convIn (lweEmb n a) key = .ok aConv ∧
      res.base2k = bout ∧ res.nLwe = nOut ∧ res.data.length = sout ∧
      ∃ e q : Int,
        2 ^ (a.base2k * a.data.length + key.base2k * key.mat.size) * lwePhaseVal bout res sOut
          = 2 ^ (bout * sout + key.base2k * key.mat.size) * lwePhaseVal a.base2k a sIn + e
            + 2 ^ (a.base2k * a.data.length + bout * sout + key.base2k * key.mat.size) * q ∧
        |e| ≤ ksBound n bout sout 1 (lweEmb n a) aConv key (embSk n sIn) (embSk n sOut) EL :=
  KsDec.lwe_keyswitch_decrypts_adm big128 n bout sout nOut a key sIn sOut EL KL Hin Dm h hInB hnIn hnOut hsIn hsOut

/-- `glwe_to_lwe_decrypts`, head-room derived -/
theorem glwe_to_lwe_decrypts_adm (big128 : Bool) (N bout sout nOut : Nat) (a : Ks.Ct) (idx : Nat) (key : Ks.Key) (sIn : List Poly)
    (sOut : Poly) (EL KL : ℕ → ℕ → Poly) (Hin Dm : Int)
    (h : KsSideAdm big128 N bout sout 1 (rotIn a idx) key sIn (embSk N sOut) EL KL Hin Dm)
    (ha : GWF N a) (hInB : ∀ c ∈ a.cols, ∀ l ∈ c, ∀ x ∈ l, |x| ≤ Hin) (hidx : idx < N)
    (hnOut : nOut ≤ N) (hsOut : sOut.length = nOut) :
    ∃ res aConv, Ks.lweFromGlwe big128 bout sout nOut a idx key = .ok res ∧ Ks.convIn (rotIn a idx) key = .ok aConv ∧
      res.base2k = bout ∧ res.nLwe = nOut ∧ res.data.length = sout ∧
      ∃ e q : Int,
        2 ^ (a.base2k * a.size + key.base2k * key.mat.size) * lwePhaseVal bout res sOut
          = 2 ^ (bout * sout + key.base2k * key.mat.size) * valCoeff a.base2k (phase sIn a) idx + e
            + 2 ^ (a.base2k * a.size + bout * sout + key.base2k * key.mat.size) * q ∧
        |e| ≤ ksBound N bout sout 1 (rotIn a idx) aConv key sIn (embSk N sOut) EL :=
  KsDec.glwe_to_lwe_decrypts_adm big128 N bout sout nOut a idx key sIn sOut EL KL Hin Dm h ha hInB hidx hnOut hsOut

/-- `lwe_to_glwe_decrypts`, head-room derived -/
theorem lwe_to_glwe_decrypts_adm (big128 : Bool) (n bout sout rout : Nat) (a : Ks.Lwe) (key : Ks.Key) (sIn : Poly) (skOut : List Poly)
    (EL KL : ℕ → ℕ → Poly) (Hin Dm : Int)
    (h : KsSideAdm big128 n bout sout rout (lweEmb n a) key (embSk n sIn) skOut EL KL Hin Dm)
    (hInB : ∀ limb ∈ a.data, ∀ x ∈ limb, |x| ≤ Hin) (hnIn : a.nLwe ≤ n) (hsIn : sIn.length = a.nLwe) :
    ∃ res aConv, Ks.glweFromLwe big128 n bout sout rout a key = .ok res ∧ Ks.convIn (lweEmb n a) key = .ok aConv ∧
      GWF n res ∧ res.base2k = bout ∧ res.size = sout ∧ res.rank = rout ∧
      ∃ e q : Int,
        2 ^ (a.base2k * a.data.length + key.base2k * key.mat.size) * valCoeff bout (phase skOut res) 0
          = 2 ^ (bout * sout + key.base2k * key.mat.size) * lwePhaseVal a.base2k a sIn + e
            + 2 ^ (a.base2k * a.data.length + bout * sout + key.base2k * key.mat.size) * q ∧
        |e| ≤ ksBound n bout sout rout (lweEmb n a) aConv key (embSk n sIn) skOut EL :=
  KsDec.lwe_to_glwe_decrypts_adm big128 n bout sout rout a key sIn skOut EL KL Hin Dm h hInB hnIn hsIn

/-- the crate's parameter sets are admissible for the fused forms too, by `decide` (closed instances of the `_adm` theorems with every
hypothesis discharged: Lemmas/AdmCorollaries.lean) -/
example : KsDec.fusedAdmShape 64 1 1 3 4096 17 (2 ^ 16) (2 ^ 16) ∧ KsDec.fusedAdmShape 64 2 2 2 1024 12 (2 ^ 11) (2 ^ 11) ∧
    KsDec.fusedAdmShape 128 1 1 8 4096 52 (2 ^ 51) (2 ^ 51) ∧ ¬ KsDec.fusedAdmShape 64 1 1 8 4096 52 (2 ^ 51) (2 ^ 51) := by decide
end AdmCorollariesSec

section GgswDecrypt2Sec
open KsDec Hal Core Core.Ops C02L AutoMul
variable {M : Type*} [AddCommGroup M]

/-- in-place form of `ggsw_automorphism_decrypts` -/
theorem ggsw_automorphism_assign_decrypts (N : Nat) (big128 : Bool) (x0 : Ks.Ct) (xs : List Ks.Ct) (key : Ks.Key) (t : ToGGSWKey)
    (cells : List (List Col)) (sk : List Poly) (gInv : Int) (EL KL : ℕ → ℕ → Poly) (ET : ℕ → ℕ → ℕ → Ks.R N) (Hin Hp HpT : Int)
    (hN : 0 < N) (hg : GalOk key.p N) (hskl : Ks.AllLen N sk) (hinv : ∀ s ∈ sk, σ key.p (σ gInv s) = s)
    (hrout : t.rank = key.rankOut) (hc0 : 0 < key.mat.colsOut)
    (hD : 1 ≤ key.dsize) (hMk : ∀ j q, (key.mat.entry j q).length = N) (hSk : key.mat.rows * key.dsize ≤ key.mat.size)
    (hbk1 : 1 ≤ key.base2k) (hbk : key.base2k ≤ 62) (hs : key.mat.colsIn ≤ sk.length)
    (hEL : ∀ i r, (EL i r).length = N) (hKL : ∀ i r, (KL i r).length = N)
    (hkey : ∀ i, i < key.mat.colsIn → ∀ r, r < key.mat.rows →
      Gadget.val (Ks.radix N key.base2k) key.mat.size (Ks.keyPhase N (sk.map (σ gInv)) key.mat i r) =
        Ks.ι N (sk.getD i []) * Ks.radix N key.base2k ^ (key.mat.size - (r + 1) * key.dsize) + Ks.ι N (EL i r)
          + Ks.radix N key.base2k ^ key.mat.size * Ks.ι N (KL i r))
    (hd : 1 ≤ t.dsize) (hn : t.n = N) (hS : t.dnum * t.dsize ≤ t.size) (hrank : t.rank ≤ sk.length)
    (hMt : ∀ c, c < t.rank → ∀ j q, ((t.at c).toPMat.entry j q).length = N) (hb1 : 1 ≤ t.base2k) (hb : t.base2k ≤ 62)
    (hkeyT : ∀ c, c < t.rank → ∀ i, i < t.rank → ∀ r, r < t.dnum →
      Gadget.val ((2 : Ks.R N) ^ t.base2k) t.size (Ks.keyPhase N sk (t.at c).toPMat i r)
        = Ks.ι N (sk.getD c []) * Ks.ι N (sk.getD i []) * ((2 : Ks.R N) ^ t.base2k) ^ (t.size - (r + 1) * t.dsize) + ET c i r)
    (hcov1 : x0.size ≤ t.size) (hcov2 : x0.size ≤ t.dnum * t.dsize)
    (hIn0 : 0 ≤ Hin) (hIn : Hin + 8 ≤ 2 ^ 62) (hHp0 : 0 ≤ Hp) (hAcc : Hp + (Hin + 2 ^ key.base2k) + 8 ≤ 2 ^ (bitsOf big128 - 2))
    (hHpT0 : 0 ≤ HpT) (hAccT : HpT + 2 ^ t.base2k + 8 ≤ 2 ^ (bitsOf big128 - 2))
    (hrows : ∀ (r : Nat) (x : Ks.Ct), (x0 :: xs)[r]? = some x →
      KsRowOk N x.rank key Hin Hp x ∧ x.rank = key.rankOut ∧ x.base2k = t.base2k ∧ x.size = x0.size)
    (hprodT : ∀ (r : Nat) (x y : Ks.Ct), (x0 :: xs)[r]? = some x → Ks.automorphism big128 x.base2k x.size x.rank x key = .ok y →
      ∀ c, c < t.rank → ∀ col ∈ expandProd N (maskOf t y) t c, ∀ l ∈ col, ∀ v ∈ l, |v| ≤ HpT)
    (h : Ks.ggswAutomorphismAssign big128 N (x0 :: xs) key t = .ok cells) :
    cells.length = (x0 :: xs).length * (t.rank + 1) ∧
      ∀ (r : Nat) (x : Ks.Ct), (x0 :: xs)[r]? = some x → ∃ y aConv, Ks.automorphism big128 x.base2k x.size x.rank x key = .ok y ∧
        Ks.convIn x key = .ok aConv ∧ cells[r * (t.rank + 1)]? = some y.cols ∧
        GWF N y ∧ y.base2k = t.base2k ∧ y.size = x0.size ∧ y.rank = t.rank ∧
        ∃ (E1 E3 : Poly) (Q : Ks.R N), E1.length = N ∧ E3.length = N ∧
          normInf (σ key.p (ksErrOf N x.base2k x.size x aConv key (sk.map (σ gInv)) EL E1 E3))
            ≤ ksErrBound N x.base2k x.size x.rank x aConv key sk (sk.map (σ gInv)) EL ∧
          (2 : Ks.R N) ^ (t.base2k * x0.size + key.base2k * key.mat.size) * Ks.ι N (valP t.base2k N (phase sk y))
            = (2 : Ks.R N) ^ (t.base2k * x0.size + key.base2k * key.mat.size) * Ks.ι N (σ key.p (valP t.base2k N (phase sk x)))
              + Ks.ι N (σ key.p (ksErrOf N x.base2k x.size x aConv key (sk.map (σ gInv)) EL E1 E3))
              + (2 : Ks.R N) ^ (t.base2k * x0.size + key.base2k * key.mat.size + t.base2k * x0.size) * Q ∧
          ∀ c, c < t.rank → ∃ cell, cells[r * (t.rank + 1) + (c + 1)]? = some cell ∧ cell.length = t.rank + 1 ∧
            (∀ col ∈ cell, ColWF N x0.size col) ∧ (∀ col ∈ cell, ∀ l ∈ col, ∀ v ∈ l, |v| ≤ 2 ^ t.base2k - 1) ∧
            ∃ E3c Q3c : Poly, E3c.length = N ∧ Q3c.length = N ∧
              normInf E3c ≤ (1 + snorm (min t.rank sk.length) sk) * C02.normTol (t.base2k * x0.size) (t.base2k * t.size) ∧
              (2 : Ks.R N) ^ (t.base2k * x0.size + key.base2k * key.mat.size + t.base2k * t.size) *
                  Ks.ι N (valP t.base2k N (phase sk (Ks.mkCt t.base2k N cell)))
                = (2 : Ks.R N) ^ (t.base2k * x0.size + key.base2k * key.mat.size + t.base2k * t.size) *
                    (Ks.ι N (sk.getD c []) * Ks.ι N (σ key.p (valP t.base2k N (phase sk x))))
                  + ((2 : Ks.R N) ^ (t.base2k * t.size) *
                        (Ks.ι N (sk.getD c []) * Ks.ι N (σ key.p (ksErrOf N x.base2k x.size x aConv key (sk.map (σ gInv)) EL E1 E3)))
                    + (2 : Ks.R N) ^ (t.base2k * x0.size + key.base2k * key.mat.size + t.base2k * x0.size) *
                        expandErr N sk (maskOf t y) t c ((2 : Ks.R N) ^ t.base2k) (ET c)
                    + (2 : Ks.R N) ^ (t.base2k * x0.size + key.base2k * key.mat.size) * Ks.ι N E3c)
                  + (2 : Ks.R N) ^ (t.base2k * x0.size + key.base2k * key.mat.size + t.base2k * x0.size + t.base2k * t.size) *
                      (Ks.ι N (sk.getD c []) * Q + Ks.ι N Q3c) :=
  KsDec.ggsw_automorphism_assign_decrypts N big128 x0 xs key t cells sk gInv EL KL ET Hin Hp HpT hN hg hskl hinv hrout hc0 hD hMk hSk hbk1 hbk hs hEL hKL hkey hd hn hS hrank hMt hb1 hb hkeyT hcov1 hcov2 hIn0 hIn hHp0 hAcc hHpT0 hAccT hrows hprodT h

/-- `ExpandOk` from digit bounds of the operands (`Da`, tensor-key digits `Dt`, body `Ha`) and the decidable `expandAdmissible`, both accumulator widths -/
theorem expand_ok_of_digit_bounds (N : Nat) (big128 : Bool) (a0 : Col) (aDft : List Col) (t : ToGGSWKey) (c : Nat) (Da Dt Ha : Int)
    (hDa : 0 ≤ Da) (hDt : 0 ≤ Dt) (hd : 1 ≤ t.dsize) (hn : t.n = N) (hM : ∀ j q, ((t.at c).toPMat.entry j q).length = N) (hc : c < t.rank)
    (ha0 : LimbsN N a0) (hadm : expandAdmissible big128 t N Da Dt Ha)
    (ha : ∀ col ∈ aDft, ∀ p ∈ col, PB N Da p) (hm : ∀ j q, normInf ((t.at c).toPMat.entry j q) ≤ Dt)
    (hbody : ∀ l ∈ a0, ∀ x ∈ l, |x| ≤ Ha) : ExpandOk N big128 a0 aDft t c :=
  KsDec.expandOk_of_digit_bounds N big128 a0 aDft t c Da Dt Ha hDa hDt hd hn hM hc ha0 hadm ha hm hbody

/-- **`ggsw_keyswitch_decrypts`, head-room derived**: `ksAdmissible` for the column-0 key switch, `expandAdmissible` for the expansion -/
theorem ggsw_keyswitch_decrypts_adm (N : Nat) (big128 : Bool) (rs rd rds ab ads : Nat) (aCol0 : List Ks.Ct) (key : Ks.Key) (t : ToGGSWKey)
    (cells : List (List Col)) (sIn skOut : List Poly) (EL KL : ℕ → ℕ → Poly) (ET : ℕ → ℕ → ℕ → Ks.R N) (Hin Dm Dt : Int)
    (hN : 0 < N) (hrout : t.rank = key.rankOut) (hc0 : 0 < key.mat.colsOut)
    (hD : 1 ≤ key.dsize) (hMk : ∀ j q, (key.mat.entry j q).length = N) (hSk : key.mat.rows * key.dsize ≤ key.mat.size)
    (hbk1 : 1 ≤ key.base2k) (hbk : key.base2k ≤ 62) (hs : key.mat.colsIn ≤ sIn.length)
    (hEL : ∀ i r, (EL i r).length = N) (hKL : ∀ i r, (KL i r).length = N)
    (hkey : ∀ i, i < key.mat.colsIn → ∀ r, r < key.mat.rows →
      Gadget.val (Ks.radix N key.base2k) key.mat.size (Ks.keyPhase N skOut key.mat i r) =
        Ks.ι N (sIn.getD i []) * Ks.radix N key.base2k ^ (key.mat.size - (r + 1) * key.dsize) + Ks.ι N (EL i r)
          + Ks.radix N key.base2k ^ key.mat.size * Ks.ι N (KL i r))
    (hd : 1 ≤ t.dsize) (hn : t.n = N) (hS : t.dnum * t.dsize ≤ t.size) (hrank : t.rank ≤ skOut.length)
    (hMt : ∀ c, c < t.rank → ∀ j q, ((t.at c).toPMat.entry j q).length = N) (hb1 : 1 ≤ t.base2k) (hb : t.base2k ≤ 62)
    (hkeyT : ∀ c, c < t.rank → ∀ i, i < t.rank → ∀ r, r < t.dnum →
      Gadget.val ((2 : Ks.R N) ^ t.base2k) t.size (Ks.keyPhase N skOut (t.at c).toPMat i r)
        = Ks.ι N (skOut.getD c []) * Ks.ι N (skOut.getD i []) * ((2 : Ks.R N) ^ t.base2k) ^ (t.size - (r + 1) * t.dsize) + ET c i r)
    (hcov1 : rs ≤ t.size) (hcov2 : rs ≤ t.dnum * t.dsize)
    (hIn0 : 0 ≤ Hin) (hIn : Hin + 8 ≤ 2 ^ 62)
    (hDm0 : 0 ≤ Dm) (hm : ∀ j q, normInf (key.mat.entry j q) ≤ Dm) (hadm : ksAdmissible big128 key N Hin Dm)
    (hDt0 : 0 ≤ Dt) (hmT : ∀ c, c < t.rank → ∀ j q, normInf ((t.at c).toPMat.entry j q) ≤ Dt)
    (hadmT : expandAdmissible big128 t N (2 ^ t.base2k) Dt (2 ^ t.base2k))
    (hrows : ∀ r x, r < rd → aCol0[r]? = some x → KsRowAdm N key Hin x)
    (h : Ks.ggswKeyswitch big128 N t.base2k rs rd rds ab ads aCol0 key t = .ok cells) :
    cells.length = rd * (t.rank + 1) ∧
      ∀ r, r < rd → ∃ x y aConv, aCol0[r]? = some x ∧ Ks.keyswitch big128 t.base2k rs key.rankOut x key = .ok y ∧
        Ks.convIn x key = .ok aConv ∧ cells[r * (t.rank + 1)]? = some y.cols ∧
        GWF N y ∧ y.base2k = t.base2k ∧ y.size = rs ∧ y.rank = t.rank ∧
        ∃ (E1 E3 : Poly) (Q : Ks.R N), E1.length = N ∧ E3.length = N ∧
          normInf E1 ≤ (1 + snorm (min x.rank sIn.length) sIn) * C02.normTol (key.base2k * convSize x key) (x.base2k * x.size) ∧
          normInf E3 ≤ (1 + snorm (min key.rankOut skOut.length) skOut) * C02.normTol (t.base2k * rs) (key.base2k * key.mat.size) ∧
          normInf (ksErrOf N t.base2k rs x aConv key skOut EL E1 E3) ≤ ksErrBound N t.base2k rs key.rankOut x aConv key sIn skOut EL ∧
          (2 : Ks.R N) ^ (x.base2k * x.size + key.base2k * key.mat.size) * Ks.ι N (valP t.base2k N (phase skOut y))
            = (2 : Ks.R N) ^ (t.base2k * rs + key.base2k * key.mat.size) * Ks.ι N (valP x.base2k N (phase sIn x))
              + Ks.ι N (ksErrOf N t.base2k rs x aConv key skOut EL E1 E3)
              + (2 : Ks.R N) ^ (x.base2k * x.size + key.base2k * key.mat.size + t.base2k * rs) * Q ∧
          ∀ c, c < t.rank → ∃ cell, cells[r * (t.rank + 1) + (c + 1)]? = some cell ∧ cell.length = t.rank + 1 ∧
            (∀ col ∈ cell, ColWF N rs col) ∧ (∀ col ∈ cell, ∀ l ∈ col, ∀ v ∈ l, |v| ≤ 2 ^ t.base2k - 1) ∧
            ∃ E3c Q3c : Poly, E3c.length = N ∧ Q3c.length = N ∧
              normInf E3c ≤ (1 + snorm (min t.rank skOut.length) skOut) * C02.normTol (t.base2k * rs) (t.base2k * t.size) ∧
              (2 : Ks.R N) ^ (x.base2k * x.size + key.base2k * key.mat.size + t.base2k * t.size) *
                  Ks.ι N (valP t.base2k N (phase skOut (Ks.mkCt t.base2k N cell)))
                = (2 : Ks.R N) ^ (t.base2k * rs + key.base2k * key.mat.size + t.base2k * t.size) *
                    (Ks.ι N (skOut.getD c []) * Ks.ι N (valP x.base2k N (phase sIn x)))
                  + ((2 : Ks.R N) ^ (t.base2k * t.size) * (Ks.ι N (skOut.getD c []) * Ks.ι N (ksErrOf N t.base2k rs x aConv key skOut EL E1 E3))
                    + (2 : Ks.R N) ^ (x.base2k * x.size + key.base2k * key.mat.size + t.base2k * rs) *
                        expandErr N skOut (maskOf t y) t c ((2 : Ks.R N) ^ t.base2k) (ET c)
                    + (2 : Ks.R N) ^ (x.base2k * x.size + key.base2k * key.mat.size) * Ks.ι N E3c)
                  + (2 : Ks.R N) ^ (x.base2k * x.size + key.base2k * key.mat.size + t.base2k * rs + t.base2k * t.size) *
                      (Ks.ι N (skOut.getD c []) * Q + Ks.ι N Q3c) :=
  KsDec.ggsw_keyswitch_decrypts_adm N big128 rs rd rds ab ads aCol0 key t cells sIn skOut EL KL ET Hin Dm Dt hN hrout hc0 hD hMk hSk hbk1 hbk hs hEL hKL hkey hd hn hS hrank hMt hb1 hb hkeyT hcov1 hcov2 hIn0 hIn hDm0 hm hadm hDt0 hmT hadmT hrows h

/-- same for `ggsw_automorphism` -/
theorem ggsw_automorphism_decrypts_adm (N : Nat) (big128 : Bool) (rs rd rds ab ads : Nat) (aCol0 : List Ks.Ct) (key : Ks.Key) (t : ToGGSWKey)
    (cells : List (List Col)) (sk : List Poly) (gInv : Int) (EL KL : ℕ → ℕ → Poly) (ET : ℕ → ℕ → ℕ → Ks.R N) (Hin Dm Dt : Int)
    (hN : 0 < N) (hg : GalOk key.p N) (hskl : Ks.AllLen N sk) (hinv : ∀ s ∈ sk, σ key.p (σ gInv s) = s)
    (hrout : t.rank = key.rankOut) (hc0 : 0 < key.mat.colsOut)
    (hD : 1 ≤ key.dsize) (hMk : ∀ j q, (key.mat.entry j q).length = N) (hSk : key.mat.rows * key.dsize ≤ key.mat.size)
    (hbk1 : 1 ≤ key.base2k) (hbk : key.base2k ≤ 62) (hs : key.mat.colsIn ≤ sk.length)
    (hEL : ∀ i r, (EL i r).length = N) (hKL : ∀ i r, (KL i r).length = N)
    (hkey : ∀ i, i < key.mat.colsIn → ∀ r, r < key.mat.rows →
      Gadget.val (Ks.radix N key.base2k) key.mat.size (Ks.keyPhase N (sk.map (σ gInv)) key.mat i r) =
        Ks.ι N (sk.getD i []) * Ks.radix N key.base2k ^ (key.mat.size - (r + 1) * key.dsize) + Ks.ι N (EL i r)
          + Ks.radix N key.base2k ^ key.mat.size * Ks.ι N (KL i r))
    (hd : 1 ≤ t.dsize) (hn : t.n = N) (hS : t.dnum * t.dsize ≤ t.size) (hrank : t.rank ≤ sk.length)
    (hMt : ∀ c, c < t.rank → ∀ j q, ((t.at c).toPMat.entry j q).length = N) (hb1 : 1 ≤ t.base2k) (hb : t.base2k ≤ 62)
    (hkeyT : ∀ c, c < t.rank → ∀ i, i < t.rank → ∀ r, r < t.dnum →
      Gadget.val ((2 : Ks.R N) ^ t.base2k) t.size (Ks.keyPhase N sk (t.at c).toPMat i r)
        = Ks.ι N (sk.getD c []) * Ks.ι N (sk.getD i []) * ((2 : Ks.R N) ^ t.base2k) ^ (t.size - (r + 1) * t.dsize) + ET c i r)
    (hcov1 : rs ≤ t.size) (hcov2 : rs ≤ t.dnum * t.dsize)
    (hIn0 : 0 ≤ Hin) (hIn : Hin + 8 ≤ 2 ^ 62)
    (hDm0 : 0 ≤ Dm) (hm : ∀ j q, normInf (key.mat.entry j q) ≤ Dm) (hadm : ksAdmissible big128 key N Hin Dm)
    (hDt0 : 0 ≤ Dt) (hmT : ∀ c, c < t.rank → ∀ j q, normInf ((t.at c).toPMat.entry j q) ≤ Dt)
    (hadmT : expandAdmissible big128 t N (2 ^ t.base2k) Dt (2 ^ t.base2k))
    (hrows : ∀ r x, r < rd → aCol0[r]? = some x → KsRowAdm N key Hin x)
    (h : Ks.ggswAutomorphism big128 N t.base2k rs rd rds ab ads aCol0 key t = .ok cells) :
    cells.length = rd * (t.rank + 1) ∧
      ∀ r, r < rd → ∃ x y aConv, aCol0[r]? = some x ∧ Ks.automorphism big128 t.base2k rs key.rankOut x key = .ok y ∧
        Ks.convIn x key = .ok aConv ∧ cells[r * (t.rank + 1)]? = some y.cols ∧
        GWF N y ∧ y.base2k = t.base2k ∧ y.size = rs ∧ y.rank = t.rank ∧
        ∃ (E1 E3 : Poly) (Q : Ks.R N), E1.length = N ∧ E3.length = N ∧
          normInf E1 ≤ (1 + snorm (min x.rank sk.length) sk) * C02.normTol (key.base2k * convSize x key) (x.base2k * x.size) ∧
          normInf E3 ≤ (1 + snorm (min key.rankOut (sk.map (σ gInv)).length) (sk.map (σ gInv))) *
            C02.normTol (t.base2k * rs) (key.base2k * key.mat.size) ∧
          normInf (σ key.p (ksErrOf N t.base2k rs x aConv key (sk.map (σ gInv)) EL E1 E3))
            ≤ ksErrBound N t.base2k rs key.rankOut x aConv key sk (sk.map (σ gInv)) EL ∧
          (2 : Ks.R N) ^ (x.base2k * x.size + key.base2k * key.mat.size) * Ks.ι N (valP t.base2k N (phase sk y))
            = (2 : Ks.R N) ^ (t.base2k * rs + key.base2k * key.mat.size) * Ks.ι N (σ key.p (valP x.base2k N (phase sk x)))
              + Ks.ι N (σ key.p (ksErrOf N t.base2k rs x aConv key (sk.map (σ gInv)) EL E1 E3))
              + (2 : Ks.R N) ^ (x.base2k * x.size + key.base2k * key.mat.size + t.base2k * rs) * Q ∧
          ∀ c, c < t.rank → ∃ cell, cells[r * (t.rank + 1) + (c + 1)]? = some cell ∧ cell.length = t.rank + 1 ∧
            (∀ col ∈ cell, ColWF N rs col) ∧ (∀ col ∈ cell, ∀ l ∈ col, ∀ v ∈ l, |v| ≤ 2 ^ t.base2k - 1) ∧
            ∃ E3c Q3c : Poly, E3c.length = N ∧ Q3c.length = N ∧
              normInf E3c ≤ (1 + snorm (min t.rank sk.length) sk) * C02.normTol (t.base2k * rs) (t.base2k * t.size) ∧
              (2 : Ks.R N) ^ (x.base2k * x.size + key.base2k * key.mat.size + t.base2k * t.size) *
                  Ks.ι N (valP t.base2k N (phase sk (Ks.mkCt t.base2k N cell)))
                = (2 : Ks.R N) ^ (t.base2k * rs + key.base2k * key.mat.size + t.base2k * t.size) *
                    (Ks.ι N (sk.getD c []) * Ks.ι N (σ key.p (valP x.base2k N (phase sk x))))
                  + ((2 : Ks.R N) ^ (t.base2k * t.size) *
                        (Ks.ι N (sk.getD c []) * Ks.ι N (σ key.p (ksErrOf N t.base2k rs x aConv key (sk.map (σ gInv)) EL E1 E3)))
                    + (2 : Ks.R N) ^ (x.base2k * x.size + key.base2k * key.mat.size + t.base2k * rs) *
                        expandErr N sk (maskOf t y) t c ((2 : Ks.R N) ^ t.base2k) (ET c)
                    + (2 : Ks.R N) ^ (x.base2k * x.size + key.base2k * key.mat.size) * Ks.ι N E3c)
                  + (2 : Ks.R N) ^ (x.base2k * x.size + key.base2k * key.mat.size + t.base2k * rs + t.base2k * t.size) *
                      (Ks.ι N (sk.getD c []) * Q + Ks.ι N Q3c) :=
  KsDec.ggsw_automorphism_decrypts_adm N big128 rs rd rds ab ads aCol0 key t cells sk gInv EL KL ET Hin Dm Dt hN hg hskl hinv hrout hc0 hD hMk hSk hbk1 hbk hs hEL hKL hkey hd hn hS hrank hMt hb1 hb hkeyT hcov1 hcov2 hIn0 hIn hDm0 hm hadm hDt0 hmT hadmT hrows h

/-- in-place -/
theorem ggsw_keyswitch_assign_decrypts_adm (N : Nat) (big128 : Bool) (x0 : Ks.Ct) (xs : List Ks.Ct) (key : Ks.Key) (t : ToGGSWKey)
    (cells : List (List Col)) (sIn skOut : List Poly) (EL KL : ℕ → ℕ → Poly) (ET : ℕ → ℕ → ℕ → Ks.R N) (Hin Dm Dt : Int)
    (hN : 0 < N) (hrout : t.rank = key.rankOut) (hc0 : 0 < key.mat.colsOut)
    (hD : 1 ≤ key.dsize) (hMk : ∀ j q, (key.mat.entry j q).length = N) (hSk : key.mat.rows * key.dsize ≤ key.mat.size)
    (hbk1 : 1 ≤ key.base2k) (hbk : key.base2k ≤ 62) (hs : key.mat.colsIn ≤ sIn.length)
    (hEL : ∀ i r, (EL i r).length = N) (hKL : ∀ i r, (KL i r).length = N)
    (hkey : ∀ i, i < key.mat.colsIn → ∀ r, r < key.mat.rows →
      Gadget.val (Ks.radix N key.base2k) key.mat.size (Ks.keyPhase N skOut key.mat i r) =
        Ks.ι N (sIn.getD i []) * Ks.radix N key.base2k ^ (key.mat.size - (r + 1) * key.dsize) + Ks.ι N (EL i r)
          + Ks.radix N key.base2k ^ key.mat.size * Ks.ι N (KL i r))
    (hd : 1 ≤ t.dsize) (hn : t.n = N) (hS : t.dnum * t.dsize ≤ t.size) (hrank : t.rank ≤ skOut.length)
    (hMt : ∀ c, c < t.rank → ∀ j q, ((t.at c).toPMat.entry j q).length = N) (hb1 : 1 ≤ t.base2k) (hb : t.base2k ≤ 62)
    (hkeyT : ∀ c, c < t.rank → ∀ i, i < t.rank → ∀ r, r < t.dnum →
      Gadget.val ((2 : Ks.R N) ^ t.base2k) t.size (Ks.keyPhase N skOut (t.at c).toPMat i r)
        = Ks.ι N (skOut.getD c []) * Ks.ι N (skOut.getD i []) * ((2 : Ks.R N) ^ t.base2k) ^ (t.size - (r + 1) * t.dsize) + ET c i r)
    (hcov1 : x0.size ≤ t.size) (hcov2 : x0.size ≤ t.dnum * t.dsize)
    (hIn0 : 0 ≤ Hin) (hIn : Hin + 8 ≤ 2 ^ 62)
    (hDm0 : 0 ≤ Dm) (hm : ∀ j q, normInf (key.mat.entry j q) ≤ Dm) (hadm : ksAdmissible big128 key N Hin Dm)
    (hDt0 : 0 ≤ Dt) (hmT : ∀ c, c < t.rank → ∀ j q, normInf ((t.at c).toPMat.entry j q) ≤ Dt)
    (hadmT : expandAdmissible big128 t N (2 ^ t.base2k) Dt (2 ^ t.base2k))
    (hrows : ∀ (r : Nat) (x : Ks.Ct), (x0 :: xs)[r]? = some x →
      KsRowAdm N key Hin x ∧ x.rank = key.rankOut ∧ x.base2k = t.base2k ∧ x.size = x0.size)
    (h : Ks.ggswKeyswitchAssign big128 N (x0 :: xs) key t = .ok cells) :
    cells.length = (x0 :: xs).length * (t.rank + 1) ∧
      ∀ (r : Nat) (x : Ks.Ct), (x0 :: xs)[r]? = some x → ∃ y aConv, Ks.keyswitch big128 x.base2k x.size x.rank x key = .ok y ∧
        Ks.convIn x key = .ok aConv ∧ cells[r * (t.rank + 1)]? = some y.cols ∧
        GWF N y ∧ y.base2k = t.base2k ∧ y.size = x0.size ∧ y.rank = t.rank ∧
        ∃ (E1 E3 : Poly) (Q : Ks.R N), E1.length = N ∧ E3.length = N ∧
          normInf (ksErrOf N x.base2k x.size x aConv key skOut EL E1 E3) ≤ ksErrBound N x.base2k x.size x.rank x aConv key sIn skOut EL ∧
          (2 : Ks.R N) ^ (t.base2k * x0.size + key.base2k * key.mat.size) * Ks.ι N (valP t.base2k N (phase skOut y))
            = (2 : Ks.R N) ^ (t.base2k * x0.size + key.base2k * key.mat.size) * Ks.ι N (valP t.base2k N (phase sIn x))
              + Ks.ι N (ksErrOf N x.base2k x.size x aConv key skOut EL E1 E3)
              + (2 : Ks.R N) ^ (t.base2k * x0.size + key.base2k * key.mat.size + t.base2k * x0.size) * Q ∧
          ∀ c, c < t.rank → ∃ cell, cells[r * (t.rank + 1) + (c + 1)]? = some cell ∧ cell.length = t.rank + 1 ∧
            (∀ col ∈ cell, ColWF N x0.size col) ∧ (∀ col ∈ cell, ∀ l ∈ col, ∀ v ∈ l, |v| ≤ 2 ^ t.base2k - 1) ∧
            ∃ E3c Q3c : Poly, E3c.length = N ∧ Q3c.length = N ∧
              normInf E3c ≤ (1 + snorm (min t.rank skOut.length) skOut) * C02.normTol (t.base2k * x0.size) (t.base2k * t.size) ∧
              (2 : Ks.R N) ^ (t.base2k * x0.size + key.base2k * key.mat.size + t.base2k * t.size) *
                  Ks.ι N (valP t.base2k N (phase skOut (Ks.mkCt t.base2k N cell)))
                = (2 : Ks.R N) ^ (t.base2k * x0.size + key.base2k * key.mat.size + t.base2k * t.size) *
                    (Ks.ι N (skOut.getD c []) * Ks.ι N (valP t.base2k N (phase sIn x)))
                  + ((2 : Ks.R N) ^ (t.base2k * t.size) *
                        (Ks.ι N (skOut.getD c []) * Ks.ι N (ksErrOf N x.base2k x.size x aConv key skOut EL E1 E3))
                    + (2 : Ks.R N) ^ (t.base2k * x0.size + key.base2k * key.mat.size + t.base2k * x0.size) *
                        expandErr N skOut (maskOf t y) t c ((2 : Ks.R N) ^ t.base2k) (ET c)
                    + (2 : Ks.R N) ^ (t.base2k * x0.size + key.base2k * key.mat.size) * Ks.ι N E3c)
                  + (2 : Ks.R N) ^ (t.base2k * x0.size + key.base2k * key.mat.size + t.base2k * x0.size + t.base2k * t.size) *
                      (Ks.ι N (skOut.getD c []) * Q + Ks.ι N Q3c) :=
  KsDec.ggsw_keyswitch_assign_decrypts_adm N big128 x0 xs key t cells sIn skOut EL KL ET Hin Dm Dt hN hrout hc0 hD hMk hSk hbk1 hbk hs hEL hKL hkey hd hn hS hrank hMt hb1 hb hkeyT hcov1 hcov2 hIn0 hIn hDm0 hm hadm hDt0 hmT hadmT hrows h

/-- in-place -/
theorem ggsw_automorphism_assign_decrypts_adm (N : Nat) (big128 : Bool) (x0 : Ks.Ct) (xs : List Ks.Ct) (key : Ks.Key) (t : ToGGSWKey)
    (cells : List (List Col)) (sk : List Poly) (gInv : Int) (EL KL : ℕ → ℕ → Poly) (ET : ℕ → ℕ → ℕ → Ks.R N) (Hin Dm Dt : Int)
    (hN : 0 < N) (hg : GalOk key.p N) (hskl : Ks.AllLen N sk) (hinv : ∀ s ∈ sk, σ key.p (σ gInv s) = s)
    (hrout : t.rank = key.rankOut) (hc0 : 0 < key.mat.colsOut)
    (hD : 1 ≤ key.dsize) (hMk : ∀ j q, (key.mat.entry j q).length = N) (hSk : key.mat.rows * key.dsize ≤ key.mat.size)
    (hbk1 : 1 ≤ key.base2k) (hbk : key.base2k ≤ 62) (hs : key.mat.colsIn ≤ sk.length)
    (hEL : ∀ i r, (EL i r).length = N) (hKL : ∀ i r, (KL i r).length = N)
    (hkey : ∀ i, i < key.mat.colsIn → ∀ r, r < key.mat.rows →
      Gadget.val (Ks.radix N key.base2k) key.mat.size (Ks.keyPhase N (sk.map (σ gInv)) key.mat i r) =
        Ks.ι N (sk.getD i []) * Ks.radix N key.base2k ^ (key.mat.size - (r + 1) * key.dsize) + Ks.ι N (EL i r)
          + Ks.radix N key.base2k ^ key.mat.size * Ks.ι N (KL i r))
    (hd : 1 ≤ t.dsize) (hn : t.n = N) (hS : t.dnum * t.dsize ≤ t.size) (hrank : t.rank ≤ sk.length)
    (hMt : ∀ c, c < t.rank → ∀ j q, ((t.at c).toPMat.entry j q).length = N) (hb1 : 1 ≤ t.base2k) (hb : t.base2k ≤ 62)
    (hkeyT : ∀ c, c < t.rank → ∀ i, i < t.rank → ∀ r, r < t.dnum →
      Gadget.val ((2 : Ks.R N) ^ t.base2k) t.size (Ks.keyPhase N sk (t.at c).toPMat i r)
        = Ks.ι N (sk.getD c []) * Ks.ι N (sk.getD i []) * ((2 : Ks.R N) ^ t.base2k) ^ (t.size - (r + 1) * t.dsize) + ET c i r)
    (hcov1 : x0.size ≤ t.size) (hcov2 : x0.size ≤ t.dnum * t.dsize)
    (hIn0 : 0 ≤ Hin) (hIn : Hin + 8 ≤ 2 ^ 62)
    (hDm0 : 0 ≤ Dm) (hm : ∀ j q, normInf (key.mat.entry j q) ≤ Dm) (hadm : ksAdmissible big128 key N Hin Dm)
    (hDt0 : 0 ≤ Dt) (hmT : ∀ c, c < t.rank → ∀ j q, normInf ((t.at c).toPMat.entry j q) ≤ Dt)
    (hadmT : expandAdmissible big128 t N (2 ^ t.base2k) Dt (2 ^ t.base2k))
    (hrows : ∀ (r : Nat) (x : Ks.Ct), (x0 :: xs)[r]? = some x →
      KsRowAdm N key Hin x ∧ x.rank = key.rankOut ∧ x.base2k = t.base2k ∧ x.size = x0.size)
    (h : Ks.ggswAutomorphismAssign big128 N (x0 :: xs) key t = .ok cells) :
    cells.length = (x0 :: xs).length * (t.rank + 1) ∧
      ∀ (r : Nat) (x : Ks.Ct), (x0 :: xs)[r]? = some x → ∃ y aConv, Ks.automorphism big128 x.base2k x.size x.rank x key = .ok y ∧
        Ks.convIn x key = .ok aConv ∧ cells[r * (t.rank + 1)]? = some y.cols ∧
        GWF N y ∧ y.base2k = t.base2k ∧ y.size = x0.size ∧ y.rank = t.rank ∧
        ∃ (E1 E3 : Poly) (Q : Ks.R N), E1.length = N ∧ E3.length = N ∧
          normInf (σ key.p (ksErrOf N x.base2k x.size x aConv key (sk.map (σ gInv)) EL E1 E3))
            ≤ ksErrBound N x.base2k x.size x.rank x aConv key sk (sk.map (σ gInv)) EL ∧
          (2 : Ks.R N) ^ (t.base2k * x0.size + key.base2k * key.mat.size) * Ks.ι N (valP t.base2k N (phase sk y))
            = (2 : Ks.R N) ^ (t.base2k * x0.size + key.base2k * key.mat.size) * Ks.ι N (σ key.p (valP t.base2k N (phase sk x)))
              + Ks.ι N (σ key.p (ksErrOf N x.base2k x.size x aConv key (sk.map (σ gInv)) EL E1 E3))
              + (2 : Ks.R N) ^ (t.base2k * x0.size + key.base2k * key.mat.size + t.base2k * x0.size) * Q ∧
          ∀ c, c < t.rank → ∃ cell, cells[r * (t.rank + 1) + (c + 1)]? = some cell ∧ cell.length = t.rank + 1 ∧
            (∀ col ∈ cell, ColWF N x0.size col) ∧ (∀ col ∈ cell, ∀ l ∈ col, ∀ v ∈ l, |v| ≤ 2 ^ t.base2k - 1) ∧
            ∃ E3c Q3c : Poly, E3c.length = N ∧ Q3c.length = N ∧
              normInf E3c ≤ (1 + snorm (min t.rank sk.length) sk) * C02.normTol (t.base2k * x0.size) (t.base2k * t.size) ∧
              (2 : Ks.R N) ^ (t.base2k * x0.size + key.base2k * key.mat.size + t.base2k * t.size) *
                  Ks.ι N (valP t.base2k N (phase sk (Ks.mkCt t.base2k N cell)))
                = (2 : Ks.R N) ^ (t.base2k * x0.size + key.base2k * key.mat.size + t.base2k * t.size) *
                    (Ks.ι N (sk.getD c []) * Ks.ι N (σ key.p (valP t.base2k N (phase sk x))))
                  + ((2 : Ks.R N) ^ (t.base2k * t.size) *
                        (Ks.ι N (sk.getD c []) * Ks.ι N (σ key.p (ksErrOf N x.base2k x.size x aConv key (sk.map (σ gInv)) EL E1 E3)))
                    + (2 : Ks.R N) ^ (t.base2k * x0.size + key.base2k * key.mat.size + t.base2k * x0.size) *
                        expandErr N sk (maskOf t y) t c ((2 : Ks.R N) ^ t.base2k) (ET c)
                    + (2 : Ks.R N) ^ (t.base2k * x0.size + key.base2k * key.mat.size) * Ks.ι N E3c)
                  + (2 : Ks.R N) ^ (t.base2k * x0.size + key.base2k * key.mat.size + t.base2k * x0.size + t.base2k * t.size) *
                      (Ks.ι N (sk.getD c []) * Q + Ks.ι N Q3c) :=
  KsDec.ggsw_automorphism_assign_decrypts_adm N big128 x0 xs key t cells sk gInv EL KL ET Hin Dm Dt hN hg hskl hinv hrout hc0 hD hMk hSk hbk1 hbk hs hEL hKL hkey hd hn hS hrank hMt hb1 hb hkeyT hcov1 hcov2 hIn0 hIn hDm0 hm hadm hDt0 hmT hadmT hrows h

/-- **GGSW → key switch → GGSW, head-room derived** -/
theorem ggsw_keyswitch_wellformed_adm (N : Nat) (big128 : Bool) (rs rd rds ab ads : Nat) (aCol0 : List Ks.Ct) (key : Ks.Key) (t : ToGGSWKey)
    (cells : List (List Col)) (sIn skOut : List Poly) (EL KL : ℕ → ℕ → Poly) (ET : ℕ → ℕ → ℕ → Ks.R N) (Hin Dm Dt : Int)
    (m : Ks.R N) (eIn : ℕ → Ks.R N)
    (hN : 0 < N) (hrout : t.rank = key.rankOut) (hc0 : 0 < key.mat.colsOut)
    (hD : 1 ≤ key.dsize) (hMk : ∀ j q, (key.mat.entry j q).length = N) (hSk : key.mat.rows * key.dsize ≤ key.mat.size)
    (hbk1 : 1 ≤ key.base2k) (hbk : key.base2k ≤ 62) (hs : key.mat.colsIn ≤ sIn.length)
    (hEL : ∀ i r, (EL i r).length = N) (hKL : ∀ i r, (KL i r).length = N)
    (hkey : ∀ i, i < key.mat.colsIn → ∀ r, r < key.mat.rows →
      Gadget.val (Ks.radix N key.base2k) key.mat.size (Ks.keyPhase N skOut key.mat i r) =
        Ks.ι N (sIn.getD i []) * Ks.radix N key.base2k ^ (key.mat.size - (r + 1) * key.dsize) + Ks.ι N (EL i r)
          + Ks.radix N key.base2k ^ key.mat.size * Ks.ι N (KL i r))
    (hd : 1 ≤ t.dsize) (hn : t.n = N) (hS : t.dnum * t.dsize ≤ t.size) (hrank : t.rank ≤ skOut.length)
    (hMt : ∀ c, c < t.rank → ∀ j q, ((t.at c).toPMat.entry j q).length = N) (hb1 : 1 ≤ t.base2k) (hb : t.base2k ≤ 62)
    (hkeyT : ∀ c, c < t.rank → ∀ i, i < t.rank → ∀ r, r < t.dnum →
      Gadget.val ((2 : Ks.R N) ^ t.base2k) t.size (Ks.keyPhase N skOut (t.at c).toPMat i r)
        = Ks.ι N (skOut.getD c []) * Ks.ι N (skOut.getD i []) * ((2 : Ks.R N) ^ t.base2k) ^ (t.size - (r + 1) * t.dsize) + ET c i r)
    (hcov1 : rs ≤ t.size) (hcov2 : rs ≤ t.dnum * t.dsize)
    (hIn0 : 0 ≤ Hin) (hIn : Hin + 8 ≤ 2 ^ 62)
    (hDm0 : 0 ≤ Dm) (hm : ∀ j q, normInf (key.mat.entry j q) ≤ Dm) (hadm : ksAdmissible big128 key N Hin Dm)
    (hDt0 : 0 ≤ Dt) (hmT : ∀ c, c < t.rank → ∀ j q, normInf ((t.at c).toPMat.entry j q) ≤ Dt)
    (hadmT : expandAdmissible big128 t N (2 ^ t.base2k) Dt (2 ^ t.base2k))
    (hrows : ∀ r x, r < rd → aCol0[r]? = some x → KsRowAdm N key Hin x)
    (hop : ∀ r x, r < rd → aCol0[r]? = some x → x.base2k = t.base2k ∧ (r + 1) * ads ≤ x.size ∧
      Ks.ι N (valP t.base2k N (phase sIn x)) = m * ((2 : Ks.R N) ^ t.base2k) ^ (x.size - (r + 1) * ads) + eIn r)
    (hdsr : rd * ads ≤ rs)
    (h : Ks.ggswKeyswitch big128 N t.base2k rs rd rds ab ads aCol0 key t = .ok cells) :
    cells.length = rd * (t.rank + 1) ∧
      ∀ r, r < rd → ∃ x y aConv, aCol0[r]? = some x ∧ Ks.keyswitch big128 t.base2k rs key.rankOut x key = .ok y ∧
        Ks.convIn x key = .ok aConv ∧ cells[r * (t.rank + 1)]? = some y.cols ∧ GWF N y ∧ y.size = rs ∧ y.rank = t.rank ∧
        ∃ (E1 E3 : Poly) (Q : Ks.R N),
          normInf (ksErrOf N t.base2k rs x aConv key skOut EL E1 E3) ≤ ksErrBound N t.base2k rs key.rankOut x aConv key sIn skOut EL ∧
          (2 : Ks.R N) ^ (t.base2k * x.size + key.base2k * key.mat.size) * Ks.ι N (valP t.base2k N (phase skOut y))
            = (2 : Ks.R N) ^ (t.base2k * x.size + key.base2k * key.mat.size) *
                (m * 1 * ((2 : Ks.R N) ^ t.base2k) ^ (rs - (r + 1) * ads))
              + ((2 : Ks.R N) ^ (t.base2k * rs + key.base2k * key.mat.size) * eIn r
                  + Ks.ι N (ksErrOf N t.base2k rs x aConv key skOut EL E1 E3))
              + (2 : Ks.R N) ^ (t.base2k * x.size + key.base2k * key.mat.size) * (((2 : Ks.R N) ^ t.base2k) ^ rs * Q) ∧
          ∀ c, c < t.rank → ∃ cell, cells[r * (t.rank + 1) + (c + 1)]? = some cell ∧ cell.length = t.rank + 1 ∧
            (∀ col ∈ cell, ColWF N rs col) ∧ (∀ col ∈ cell, ∀ l ∈ col, ∀ v ∈ l, |v| ≤ 2 ^ t.base2k - 1) ∧
            ∃ E3c Q3c : Poly, E3c.length = N ∧ Q3c.length = N ∧
              normInf E3c ≤ (1 + snorm (min t.rank skOut.length) skOut) * C02.normTol (t.base2k * rs) (t.base2k * t.size) ∧
              (2 : Ks.R N) ^ (t.base2k * x.size + key.base2k * key.mat.size + t.base2k * t.size) *
                  Ks.ι N (valP t.base2k N (phase skOut (Ks.mkCt t.base2k N cell)))
                = (2 : Ks.R N) ^ (t.base2k * x.size + key.base2k * key.mat.size + t.base2k * t.size) *
                    (m * Ks.ι N (skOut.getD c []) * ((2 : Ks.R N) ^ t.base2k) ^ (rs - (r + 1) * ads))
                  + ((2 : Ks.R N) ^ (t.base2k * rs + key.base2k * key.mat.size + t.base2k * t.size) * (Ks.ι N (skOut.getD c []) * eIn r)
                    + ((2 : Ks.R N) ^ (t.base2k * t.size) * (Ks.ι N (skOut.getD c []) * Ks.ι N (ksErrOf N t.base2k rs x aConv key skOut EL E1 E3))
                      + (2 : Ks.R N) ^ (t.base2k * x.size + key.base2k * key.mat.size + t.base2k * rs) *
                          expandErr N skOut (maskOf t y) t c ((2 : Ks.R N) ^ t.base2k) (ET c)
                      + (2 : Ks.R N) ^ (t.base2k * x.size + key.base2k * key.mat.size) * Ks.ι N E3c))
                  + (2 : Ks.R N) ^ (t.base2k * x.size + key.base2k * key.mat.size + t.base2k * t.size) *
                      (((2 : Ks.R N) ^ t.base2k) ^ rs * (Ks.ι N (skOut.getD c []) * Q + Ks.ι N Q3c)) :=
  KsDec.ggsw_keyswitch_wellformed_adm N big128 rs rd rds ab ads aCol0 key t cells sIn skOut EL KL ET Hin Dm Dt m eIn hN hrout hc0 hD hMk hSk hbk1 hbk hs hEL hKL hkey hd hn hS hrank hMt hb1 hb hkeyT hcov1 hcov2 hIn0 hIn hDm0 hm hadm hDt0 hmT hadmT hrows hop hdsr h

/-- same with `σ_p(m)` -/
theorem ggsw_automorphism_wellformed_adm (N : Nat) (big128 : Bool) (rs rd rds ab ads : Nat) (aCol0 : List Ks.Ct) (key : Ks.Key) (t : ToGGSWKey)
    (cells : List (List Col)) (sk : List Poly) (gInv : Int) (EL KL : ℕ → ℕ → Poly) (ET : ℕ → ℕ → ℕ → Ks.R N) (Hin Dm Dt : Int)
    (m : Ks.R N) (eIn : ℕ → Ks.R N)
    (hN : 0 < N) (hg : GalOk key.p N) (hskl : Ks.AllLen N sk) (hinv : ∀ s ∈ sk, σ key.p (σ gInv s) = s)
    (hrout : t.rank = key.rankOut) (hc0 : 0 < key.mat.colsOut)
    (hD : 1 ≤ key.dsize) (hMk : ∀ j q, (key.mat.entry j q).length = N) (hSk : key.mat.rows * key.dsize ≤ key.mat.size)
    (hbk1 : 1 ≤ key.base2k) (hbk : key.base2k ≤ 62) (hs : key.mat.colsIn ≤ sk.length)
    (hEL : ∀ i r, (EL i r).length = N) (hKL : ∀ i r, (KL i r).length = N)
    (hkey : ∀ i, i < key.mat.colsIn → ∀ r, r < key.mat.rows →
      Gadget.val (Ks.radix N key.base2k) key.mat.size (Ks.keyPhase N (sk.map (σ gInv)) key.mat i r) =
        Ks.ι N (sk.getD i []) * Ks.radix N key.base2k ^ (key.mat.size - (r + 1) * key.dsize) + Ks.ι N (EL i r)
          + Ks.radix N key.base2k ^ key.mat.size * Ks.ι N (KL i r))
    (hd : 1 ≤ t.dsize) (hn : t.n = N) (hS : t.dnum * t.dsize ≤ t.size) (hrank : t.rank ≤ sk.length)
    (hMt : ∀ c, c < t.rank → ∀ j q, ((t.at c).toPMat.entry j q).length = N) (hb1 : 1 ≤ t.base2k) (hb : t.base2k ≤ 62)
    (hkeyT : ∀ c, c < t.rank → ∀ i, i < t.rank → ∀ r, r < t.dnum →
      Gadget.val ((2 : Ks.R N) ^ t.base2k) t.size (Ks.keyPhase N sk (t.at c).toPMat i r)
        = Ks.ι N (sk.getD c []) * Ks.ι N (sk.getD i []) * ((2 : Ks.R N) ^ t.base2k) ^ (t.size - (r + 1) * t.dsize) + ET c i r)
    (hcov1 : rs ≤ t.size) (hcov2 : rs ≤ t.dnum * t.dsize)
    (hIn0 : 0 ≤ Hin) (hIn : Hin + 8 ≤ 2 ^ 62)
    (hDm0 : 0 ≤ Dm) (hm : ∀ j q, normInf (key.mat.entry j q) ≤ Dm) (hadm : ksAdmissible big128 key N Hin Dm)
    (hDt0 : 0 ≤ Dt) (hmT : ∀ c, c < t.rank → ∀ j q, normInf ((t.at c).toPMat.entry j q) ≤ Dt)
    (hadmT : expandAdmissible big128 t N (2 ^ t.base2k) Dt (2 ^ t.base2k))
    (hrows : ∀ r x, r < rd → aCol0[r]? = some x → KsRowAdm N key Hin x)
    (hop : ∀ r x, r < rd → aCol0[r]? = some x → x.base2k = t.base2k ∧ (r + 1) * ads ≤ x.size ∧
      Ks.ι N (valP t.base2k N (phase sk x)) = m * ((2 : Ks.R N) ^ t.base2k) ^ (x.size - (r + 1) * ads) + eIn r)
    (hdsr : rd * ads ≤ rs)
    (h : Ks.ggswAutomorphism big128 N t.base2k rs rd rds ab ads aCol0 key t = .ok cells) :
    cells.length = rd * (t.rank + 1) ∧
      ∀ r, r < rd → ∃ x y aConv, aCol0[r]? = some x ∧ Ks.automorphism big128 t.base2k rs key.rankOut x key = .ok y ∧
        Ks.convIn x key = .ok aConv ∧ cells[r * (t.rank + 1)]? = some y.cols ∧ GWF N y ∧ y.size = rs ∧ y.rank = t.rank ∧
        ∃ (E1 E3 : Poly) (Q : Ks.R N),
          normInf (σ key.p (ksErrOf N t.base2k rs x aConv key (sk.map (σ gInv)) EL E1 E3))
            ≤ ksErrBound N t.base2k rs key.rankOut x aConv key sk (sk.map (σ gInv)) EL ∧
          (2 : Ks.R N) ^ (t.base2k * x.size + key.base2k * key.mat.size) * Ks.ι N (valP t.base2k N (phase sk y))
            = (2 : Ks.R N) ^ (t.base2k * x.size + key.base2k * key.mat.size) *
                (gal N key.p hN hg m * 1 * ((2 : Ks.R N) ^ t.base2k) ^ (rs - (r + 1) * ads))
              + ((2 : Ks.R N) ^ (t.base2k * rs + key.base2k * key.mat.size) * gal N key.p hN hg (eIn r)
                  + Ks.ι N (σ key.p (ksErrOf N t.base2k rs x aConv key (sk.map (σ gInv)) EL E1 E3)))
              + (2 : Ks.R N) ^ (t.base2k * x.size + key.base2k * key.mat.size) * (((2 : Ks.R N) ^ t.base2k) ^ rs * Q) ∧
          ∀ c, c < t.rank → ∃ cell, cells[r * (t.rank + 1) + (c + 1)]? = some cell ∧ cell.length = t.rank + 1 ∧
            (∀ col ∈ cell, ColWF N rs col) ∧ (∀ col ∈ cell, ∀ l ∈ col, ∀ v ∈ l, |v| ≤ 2 ^ t.base2k - 1) ∧
            ∃ E3c Q3c : Poly, E3c.length = N ∧ Q3c.length = N ∧
              normInf E3c ≤ (1 + snorm (min t.rank sk.length) sk) * C02.normTol (t.base2k * rs) (t.base2k * t.size) ∧
              (2 : Ks.R N) ^ (t.base2k * x.size + key.base2k * key.mat.size + t.base2k * t.size) *
                  Ks.ι N (valP t.base2k N (phase sk (Ks.mkCt t.base2k N cell)))
                = (2 : Ks.R N) ^ (t.base2k * x.size + key.base2k * key.mat.size + t.base2k * t.size) *
                    (gal N key.p hN hg m * Ks.ι N (sk.getD c []) * ((2 : Ks.R N) ^ t.base2k) ^ (rs - (r + 1) * ads))
                  + ((2 : Ks.R N) ^ (t.base2k * rs + key.base2k * key.mat.size + t.base2k * t.size) *
                        (Ks.ι N (sk.getD c []) * gal N key.p hN hg (eIn r))
                    + ((2 : Ks.R N) ^ (t.base2k * t.size) *
                          (Ks.ι N (sk.getD c []) * Ks.ι N (σ key.p (ksErrOf N t.base2k rs x aConv key (sk.map (σ gInv)) EL E1 E3)))
                      + (2 : Ks.R N) ^ (t.base2k * x.size + key.base2k * key.mat.size + t.base2k * rs) *
                          expandErr N sk (maskOf t y) t c ((2 : Ks.R N) ^ t.base2k) (ET c)
                      + (2 : Ks.R N) ^ (t.base2k * x.size + key.base2k * key.mat.size) * Ks.ι N E3c))
                  + (2 : Ks.R N) ^ (t.base2k * x.size + key.base2k * key.mat.size + t.base2k * t.size) *
                      (((2 : Ks.R N) ^ t.base2k) ^ rs * (Ks.ι N (sk.getD c []) * Q + Ks.ι N Q3c)) :=
  KsDec.ggsw_automorphism_wellformed_adm N big128 rs rd rds ab ads aCol0 key t cells sk gInv EL KL ET Hin Dm Dt m eIn hN hg hskl hinv hrout hc0 hD hMk hSk hbk1 hbk hs hEL hKL hkey hd hn hS hrank hMt hb1 hb hkeyT hcov1 hcov2 hIn0 hIn hDm0 hm hadm hDt0 hmT hadmT hrows hop hdsr h

/-- the expansion is admissible on the crate's shapes, by `decide` -/
example : KsDec.expandAdmissible false (KsDec.shapeT 17 4096 1 1 3 3) 4096 (2 ^ 17) (2 ^ 16) (2 ^ 17) ∧
    KsDec.expandAdmissible true (KsDec.shapeT 52 4096 1 1 8 8) 4096 (2 ^ 52) (2 ^ 51) (2 ^ 52) ∧
    ¬ KsDec.expandAdmissible false (KsDec.shapeT 52 4096 1 1 8 8) 4096 (2 ^ 52) (2 ^ 51) (2 ^ 52) := by decide
end GgswDecrypt2Sec

section TraceExecSec
open KsDec Hal Core Core.Ops C02L AutoMul TraceJump
variable {M : Type*} [AddCommGroup M]

/-- **one executed trace level** (`glwe_rsh 1` — C02's `rsh_phase`, every scratch content — then `glwe_automorphism_add_assign` — `glwe_automorphism_add_decrypts`): the pair of relations `2φ' = φ + e + 2Q·k`, `c·φ⁺ = c·(φ' + σφ') + Err + c·Q·k'` with `‖e‖_∞ ≤ 2(1+‖sk‖₁)` and the automorphism noise bound; the result is again well formed with balanced digits -/
theorem trace_level_decrypts (big128 : Bool) (N : Nat) (res : Ks.Ct) (key : Ks.Key) (sk : List Poly) (gInv : Int)
    (EL KL : ℕ → ℕ → Poly) (H Dm BA : Int)
    (hN : 0 < N) (hsk : Ks.AllLen N sk) (hg : GalOk key.p N)
    (hr : GWF N res) (hh : NormL.HeadRoom 64 res.base2k 0 H) (hb62 : res.base2k ≤ 62) (hbd : GBound H res)
    (hk : TraceKeyOk big128 N res.base2k res.size res.rank sk key gInv EL KL Dm BA) :
    ∃ r1 r2, Ks.glweRsh 1 res = .ok r1 ∧
      Ks.automorphismFused .add big128 (Ks.zeroBuf res.n (r1.rank + 1) key.size) r1.base2k r1.size r1.rank r1 key = .ok r2 ∧
      GWF N r2 ∧ r2.base2k = res.base2k ∧ r2.size = res.size ∧ r2.rank = res.rank ∧ GBound (2 ^ res.base2k - 1) r2 ∧
      ∃ (e EA : Poly) (k k' : Ks.R N), e.length = N ∧ EA.length = N ∧
        normInf e ≤ 2 * (1 + snorm (min res.rank sk.length) sk) ∧ normInf EA ≤ BA ∧
        2 • Ks.ι N (valP res.base2k N (phase sk r1))
          = Ks.ι N (valP res.base2k N (phase sk res)) + Ks.ι N e + (2 * 2 ^ (res.base2k * res.size) : ℤ) • k ∧
        (2 ^ (res.base2k * res.size + res.base2k * key.mat.size) : ℤ) • Ks.ι N (valP res.base2k N (phase sk r2))
          = (2 ^ (res.base2k * res.size + res.base2k * key.mat.size) : ℤ) • Ks.ι N (valP res.base2k N (phase sk r1))
            + (2 ^ (res.base2k * res.size + res.base2k * key.mat.size) : ℤ) • Ks.ι N (σ key.p (valP res.base2k N (phase sk r1)))
            + Ks.ι N EA
            + (2 ^ (res.base2k * res.size + res.base2k * key.mat.size) * 2 ^ (res.base2k * res.size) : ℤ) • k' :=
  KsDec.trace_level_decrypts big128 N res key sk gInv EL KL H Dm BA hN hsk hg hr hh hb62 hbd hk

/-- the executed `Ks.traceLoop` unrolled level by level (invariant: shape, head-room) -/
theorem trace_loop_unroll (big128 : Bool) (K : ℕ) (hK : K + 1 ≤ 64) (keys : List Ks.Key) (sk : List Poly) (b S Sk rk : ℕ) (H : ℤ)
    (BA : ℕ → ℤ) (hsk : Ks.AllLen (2 ^ K) sk) (hh : NormL.HeadRoom 64 b 0 H) (hb62 : b ≤ 62) (hH : 2 ^ b - 1 ≤ H)
    (hkeys : ∀ i p key, Ks.traceGalois (2 ^ K) i = .ok p → key ∈ keys → key.p = p →
      key.mat.size = Sk ∧ ∃ gInv EL KL Dm, TraceKeyOk big128 (2 ^ K) b S rk sk key gInv EL KL Dm (BA i))
    (n : ℕ) : ∀ (j : ℕ) (x r : Ks.Ct), TraceInv (2 ^ K) b S rk H x → Ks.traceLoop big128 keys x (List.range' j n) = .ok r →
      TraceInv (2 ^ K) b S rk H r ∧
      ∃ seq : ℕ → Ks.Ct, seq j = x ∧ seq (j + n) = r ∧ ∀ i, j ≤ i → i < j + n →
        LevelRel K i (2 ^ (b * S + b * Sk) * 2 ^ (b * S)) (2 ^ (b * S + b * Sk) * (2 * (1 + snorm (min rk sk.length) sk))) (BA i)
          (sph (2 ^ K) b (2 ^ (b * S + b * Sk)) sk (seq i)) (sph (2 ^ K) b (2 ^ (b * S + b * Sk)) sk (seq (i + 1))) :=
  KsDec.traceLoop_unroll big128 K hK keys sk b S Sk rk H BA hsk hh hb62 hH hkeys n

/-- **`glwe_trace` decrypts, modulo 1, with the noise summed over the levels**: for `N = 2^K`, levels `j … K−1`, the executed loop satisfies `c·2^n·φ(r) = c·T_j(φ(res)) + Err + c·2^n·2^M·z` with `‖Err‖_∞ ≤ 2^n·Σ_levels (c·2(1+‖sk‖₁) + automorphism noise of the level)` — per-level contracts INSTANTIATED (not hypotheses), integer wraps handled by `trace_suffix` -/
theorem glwe_trace_loop_decrypts (big128 : Bool) (K j n : ℕ) (hjn : j + n = K) (hK : K + 1 ≤ 64) (keys : List Ks.Key) (sk : List Poly)
    (res r : Ks.Ct) (Sk : ℕ) (H : ℤ) (BA : ℕ → ℤ)
    (hsk : Ks.AllLen (2 ^ K) sk) (hr : GWF (2 ^ K) res) (hh : NormL.HeadRoom 64 res.base2k 0 H) (hb62 : res.base2k ≤ 62)
    (hH : 2 ^ res.base2k - 1 ≤ H) (hbd : GBound H res)
    (hkeys : ∀ i p key, Ks.traceGalois (2 ^ K) i = .ok p → key ∈ keys → key.p = p →
      key.mat.size = Sk ∧ ∃ gInv EL KL Dm, TraceKeyOk big128 (2 ^ K) res.base2k res.size res.rank sk key gInv EL KL Dm (BA i))
    (hrun : Ks.traceLoop big128 keys res (List.range' j n) = .ok r) :
    GWF (2 ^ K) r ∧ r.base2k = res.base2k ∧ r.size = res.size ∧ r.rank = res.rank ∧ GBound H r ∧
    ∃ (ErrL : Poly) (z : Ks.R (2 ^ K)), ErrL.length = 2 ^ K ∧
      normInf ErrL ≤ 2 ^ n * ∑ t ∈ Finset.range n,
        (2 ^ (res.base2k * res.size + res.base2k * Sk) * (2 * (1 + snorm (min res.rank sk.length) sk)) + BA (j + t)) ∧
      (2 ^ (res.base2k * res.size + res.base2k * Sk) * 2 ^ n : ℤ) • Ks.ι (2 ^ K) (valP res.base2k (2 ^ K) (phase sk r))
        = (2 ^ (res.base2k * res.size + res.base2k * Sk) : ℤ) •
            traceOp (2 ^ K) (List.range' j n) (Ks.ι (2 ^ K) (valP res.base2k (2 ^ K) (phase sk res)))
          + Ks.ι (2 ^ K) ErrL
          + (2 ^ (res.base2k * res.size + res.base2k * Sk) * 2 ^ n * 2 ^ (res.base2k * res.size) : ℤ) • z :=
  KsDec.glwe_trace_loop_decrypts big128 K j n hjn hK keys sk res r Sk H BA hsk hr hh hb62 hH hbd hkeys hrun

/-- variant -/
theorem glwe_trace_loop_decrypts_range (big128 : Bool) (K j n : ℕ) (hjn : j + n = K) (hK : K + 1 ≤ 64) (keys : List Ks.Key) (sk : List Poly)
    (res r : Ks.Ct) (Sk : ℕ) (H : ℤ) (BA : ℕ → ℤ)
    (hsk : Ks.AllLen (2 ^ K) sk) (hr : GWF (2 ^ K) res) (hh : NormL.HeadRoom 64 res.base2k 0 H) (hb62 : res.base2k ≤ 62)
    (hH : 2 ^ res.base2k - 1 ≤ H) (hbd : GBound H res)
    (hkeys : ∀ i p key, Ks.traceGalois (2 ^ K) i = .ok p → key ∈ keys → key.p = p →
      key.mat.size = Sk ∧ ∃ gInv EL KL Dm, TraceKeyOk big128 (2 ^ K) res.base2k res.size res.rank sk key gInv EL KL Dm (BA i))
    (hrun : Ks.traceLoop big128 keys res ((List.range n).map (fun t => j + t)) = .ok r) :
    GWF (2 ^ K) r ∧ r.base2k = res.base2k ∧ r.size = res.size ∧ r.rank = res.rank ∧ GBound H r ∧
    ∃ (ErrL : Poly) (z : Ks.R (2 ^ K)), ErrL.length = 2 ^ K ∧
      normInf ErrL ≤ 2 ^ n * ∑ t ∈ Finset.range n,
        (2 ^ (res.base2k * res.size + res.base2k * Sk) * (2 * (1 + snorm (min res.rank sk.length) sk)) + BA (j + t)) ∧
      (2 ^ (res.base2k * res.size + res.base2k * Sk) * 2 ^ n : ℤ) • Ks.ι (2 ^ K) (valP res.base2k (2 ^ K) (phase sk r))
        = (2 ^ (res.base2k * res.size + res.base2k * Sk) : ℤ) •
            traceOp (2 ^ K) ((List.range n).map (fun t => j + t)) (Ks.ι (2 ^ K) (valP res.base2k (2 ^ K) (phase sk res)))
          + Ks.ι (2 ^ K) ErrL
          + (2 ^ (res.base2k * res.size + res.base2k * Sk) * 2 ^ n * 2 ^ (res.base2k * res.size) : ℤ) • z :=
  KsDec.glwe_trace_loop_decrypts' big128 K j n hjn hK keys sk res r Sk H BA hsk hr hh hb62 hH hbd hkeys hrun

/-- the executed `glwe_trace_assign` (same-radix path) -/
theorem glwe_trace_assign_decrypts (big128 : Bool) (K skip : ℕ) (hK : K + 1 ≤ 64) (keys : List Ks.Key) (sk : List Poly)
    (res r : Ks.Ct) (Sk : ℕ) (H : ℤ) (BA : ℕ → ℤ)
    (hsk : Ks.AllLen (2 ^ K) sk) (hr : GWF (2 ^ K) res) (hh : NormL.HeadRoom 64 res.base2k 0 H) (hb62 : res.base2k ≤ 62)
    (hH : 2 ^ res.base2k - 1 ≤ H) (hbd : GBound H res)
    (hkeys : ∀ i p key, Ks.traceGalois (2 ^ K) i = .ok p → key ∈ keys → key.p = p →
      key.mat.size = Sk ∧ ∃ gInv EL KL Dm, TraceKeyOk big128 (2 ^ K) res.base2k res.size res.rank sk key gInv EL KL Dm (BA i))
    (hrun : Ks.traceAssign big128 res.base2k keys skip res = .ok r) :
    skip ≤ K ∧ GWF (2 ^ K) r ∧ r.base2k = res.base2k ∧ r.size = res.size ∧ r.rank = res.rank ∧ GBound H r ∧
    ∃ (ErrL : Poly) (z : Ks.R (2 ^ K)), ErrL.length = 2 ^ K ∧
      normInf ErrL ≤ 2 ^ (K - skip) * ∑ t ∈ Finset.range (K - skip),
        (2 ^ (res.base2k * res.size + res.base2k * Sk) * (2 * (1 + snorm (min res.rank sk.length) sk)) + BA (skip + t)) ∧
      (2 ^ (res.base2k * res.size + res.base2k * Sk) * 2 ^ (K - skip) : ℤ) • Ks.ι (2 ^ K) (valP res.base2k (2 ^ K) (phase sk r))
        = (2 ^ (res.base2k * res.size + res.base2k * Sk) : ℤ) •
            traceOp (2 ^ K) ((List.range (K - skip)).map (fun t => skip + t)) (Ks.ι (2 ^ K) (valP res.base2k (2 ^ K) (phase sk res)))
          + Ks.ι (2 ^ K) ErrL
          + (2 ^ (res.base2k * res.size + res.base2k * Sk) * 2 ^ (K - skip) * 2 ^ (res.base2k * res.size) : ℤ) • z :=
  KsDec.glwe_trace_assign_decrypts big128 K skip hK keys sk res r Sk H BA hsk hr hh hb62 hH hbd hkeys hrun

/-- no level (`skip = log N`): the loop returns its input (the closed instance of `glwe_trace_loop_decrypts` is in Lemmas/TraceExec.lean) -/
example (big128 : Bool) (keys : List Ks.Key) (res : Ks.Ct) : Ks.traceLoop big128 keys res (List.range' 3 0) = .ok res := rfl
end TraceExecSec

section TraceNoiseSec
open KsDec Hal Core Core.Ops C02L AutoMul TraceJump
variable {M : Type*} [AddCommGroup M]

/-- **`TraceKeyOk.hnoise` discharged for `dsize = 1` keys**: from the numeric bounds `gadgetBound ≤ cols_in·rows·N·2^(b−1)·Emax` and `dropBound = 0` (C16's `gadgetBound_d1`/`dropBound_d1`, Lemmas/CkksKsNumeric.lean): the record `TraceKeyD1` (every field of `TraceKeyOk` except `hnoise`, plus `‖EL i r‖_∞ ≤ Emax`) gives `TraceKeyOk` with the closed `BA = traceBA …` -/
theorem trace_key_ok_of_d1 {big128 : Bool} {N b S rk : Nat} {sk : List Poly} {key : Ks.Key} {gInv : Int} {EL KL : ℕ → ℕ → Poly}
    {Dm Emax : Int} (h : TraceKeyD1 big128 N b S rk sk key gInv EL KL Dm Emax) :
    TraceKeyOk big128 N b S rk sk key gInv EL KL Dm
      (traceBA N b S key.mat.size key.mat.colsIn key.mat.rows (1 + snorm (min rk sk.length) sk) Emax) :=
  KsDec.traceKeyOk_of_d1 h

/-- `glwe_trace_loop_decrypts` with the closed numeric noise bound `BA i = 2^(2bS)·rank·rows·N·2^(b−1)·Emax_i + 2^(bS)·(1+‖sk‖₁)·normTol` (no `hnoise` hypothesis) -/
theorem glwe_trace_loop_decrypts_d1 (big128 : Bool) (K j n : ℕ) (hjn : j + n = K) (hK : K + 1 ≤ 64) (keys : List Ks.Key) (sk : List Poly)
    (res r : Ks.Ct) (Sk Rw : ℕ) (H : ℤ) (Emax : ℕ → ℤ)
    (hsk : Ks.AllLen (2 ^ K) sk) (hr : GWF (2 ^ K) res) (hh : NormL.HeadRoom 64 res.base2k 0 H) (hb62 : res.base2k ≤ 62)
    (hH : 2 ^ res.base2k - 1 ≤ H) (hbd : GBound H res)
    (hkeys : ∀ i p key, Ks.traceGalois (2 ^ K) i = .ok p → key ∈ keys → key.p = p →
      key.mat.size = Sk ∧ key.mat.rows = Rw ∧
        ∃ gInv EL KL Dm, TraceKeyD1 big128 (2 ^ K) res.base2k res.size res.rank sk key gInv EL KL Dm (Emax i))
    (hrun : Ks.traceLoop big128 keys res (List.range' j n) = .ok r) :
    GWF (2 ^ K) r ∧ r.base2k = res.base2k ∧ r.size = res.size ∧ r.rank = res.rank ∧ GBound H r ∧
    ∃ (ErrL : Poly) (z : Ks.R (2 ^ K)), ErrL.length = 2 ^ K ∧
      normInf ErrL ≤ 2 ^ n * ∑ t ∈ Finset.range n,
        (2 ^ (res.base2k * res.size + res.base2k * Sk) * (2 * (1 + snorm (min res.rank sk.length) sk))
          + traceBA (2 ^ K) res.base2k res.size Sk res.rank Rw (1 + snorm (min res.rank sk.length) sk) (Emax (j + t))) ∧
      (2 ^ (res.base2k * res.size + res.base2k * Sk) * 2 ^ n : ℤ) • Ks.ι (2 ^ K) (valP res.base2k (2 ^ K) (phase sk r))
        = (2 ^ (res.base2k * res.size + res.base2k * Sk) : ℤ) •
            traceOp (2 ^ K) (List.range' j n) (Ks.ι (2 ^ K) (valP res.base2k (2 ^ K) (phase sk res)))
          + Ks.ι (2 ^ K) ErrL
          + (2 ^ (res.base2k * res.size + res.base2k * Sk) * 2 ^ n * 2 ^ (res.base2k * res.size) : ℤ) • z :=
  KsDec.glwe_trace_loop_decrypts_d1 big128 K j n hjn hK keys sk res r Sk Rw H Emax hsk hr hh hb62 hH hbd hkeys hrun

/-- same for `glwe_trace_assign` -/
theorem glwe_trace_assign_decrypts_d1 (big128 : Bool) (K skip : ℕ) (hK : K + 1 ≤ 64) (keys : List Ks.Key) (sk : List Poly)
    (res r : Ks.Ct) (Sk Rw : ℕ) (H : ℤ) (Emax : ℕ → ℤ)
    (hsk : Ks.AllLen (2 ^ K) sk) (hr : GWF (2 ^ K) res) (hh : NormL.HeadRoom 64 res.base2k 0 H) (hb62 : res.base2k ≤ 62)
    (hH : 2 ^ res.base2k - 1 ≤ H) (hbd : GBound H res)
    (hkeys : ∀ i p key, Ks.traceGalois (2 ^ K) i = .ok p → key ∈ keys → key.p = p →
      key.mat.size = Sk ∧ key.mat.rows = Rw ∧
        ∃ gInv EL KL Dm, TraceKeyD1 big128 (2 ^ K) res.base2k res.size res.rank sk key gInv EL KL Dm (Emax i))
    (hrun : Ks.traceAssign big128 res.base2k keys skip res = .ok r) :
    skip ≤ K ∧ GWF (2 ^ K) r ∧ r.base2k = res.base2k ∧ r.size = res.size ∧ r.rank = res.rank ∧ GBound H r ∧
    ∃ (ErrL : Poly) (z : Ks.R (2 ^ K)), ErrL.length = 2 ^ K ∧
      normInf ErrL ≤ 2 ^ (K - skip) * ∑ t ∈ Finset.range (K - skip),
        (2 ^ (res.base2k * res.size + res.base2k * Sk) * (2 * (1 + snorm (min res.rank sk.length) sk))
          + traceBA (2 ^ K) res.base2k res.size Sk res.rank Rw (1 + snorm (min res.rank sk.length) sk) (Emax (skip + t))) ∧
      (2 ^ (res.base2k * res.size + res.base2k * Sk) * 2 ^ (K - skip) : ℤ) • Ks.ι (2 ^ K) (valP res.base2k (2 ^ K) (phase sk r))
        = (2 ^ (res.base2k * res.size + res.base2k * Sk) : ℤ) •
            traceOp (2 ^ K) ((List.range (K - skip)).map (fun t => skip + t)) (Ks.ι (2 ^ K) (valP res.base2k (2 ^ K) (phase sk res)))
          + Ks.ι (2 ^ K) ErrL
          + (2 ^ (res.base2k * res.size + res.base2k * Sk) * 2 ^ (K - skip) * 2 ^ (res.base2k * res.size) : ℤ) • z :=
  KsDec.glwe_trace_assign_decrypts_d1 big128 K skip hK keys sk res r Sk Rw H Emax hsk hr hh hb62 hH hbd hkeys hrun

/-- **closed instance with ONE EXECUTED level**: `N = 2`, level 0 (`p = −1`), a genuine rank-1 `dsize = 1` key under `σ_{−1}(1+X) = 1−X` with non-zero key errors, both accumulator widths: the loop is evaluated and the conclusion of `glwe_trace_loop_decrypts_d1` holds with every hypothesis discharged -/
theorem trace_one_level_closed_instance (big128 : Bool) :
    Ks.traceLoop big128 [trKey] trCt (List.range' 0 1) = .ok trOut ∧
    ∃ (ErrL : Poly) (z : Ks.R (2 ^ 1)), ErrL.length = 2 ^ 1 ∧ normInf ErrL ≤ 2 * (2 ^ 16 * (6 + 32)) ∧
      (2 ^ 16 * 2 ^ 1 : ℤ) • Ks.ι (2 ^ 1) [47, -249]
        = (2 ^ 16 : ℤ) • traceOp (2 ^ 1) [0] (Ks.ι (2 ^ 1) [44, 34]) + Ks.ι (2 ^ 1) ErrL + (2 ^ 16 * 2 ^ 1 * 2 ^ 8 : ℤ) • z :=
  KsDec.trace_closed_instance big128

/-- the executed one-level trace of the closed instance, both accumulator widths -/
example (big128 : Bool) : Ks.traceLoop big128 [KsDec.trKey] KsDec.trCt (List.range' 0 1) = .ok KsDec.trOut := KsDec.trRun big128
example : Ks.traceGalois 2 0 = .ok (-1) := rfl
end TraceNoiseSec

section TraceWrapSec
open KsDec Hal Core Core.Ops C02L AutoMul TraceJump
variable {M : Type*} [AddCommGroup M]

/-- entry conversion ∘ executed loop ∘ exit conversion, composed in the ring: the entry stage is exact (the temporary covers the input), its wrap is absorbed by `trace_suffix`; the exit stage costs `(1+‖sk‖₁)·exitTol` -/
theorem trace_pipeline (big128 : Bool) (K skip : ℕ) (hle : skip ≤ K) (hK : K + 1 ≤ 64) (keys : List Ks.Key) (sk : List Poly)
    (bk St rb rs : ℕ) (a tmp t r : Ks.Ct) (Sk : ℕ) (Ha H : ℤ) (BA : ℕ → ℤ)
    (hsk : Ks.AllLen (2 ^ K) sk) (ha : GWF (2 ^ K) a) (hab1 : 1 ≤ a.base2k) (hab : a.base2k ≤ 62) (hrb1 : 1 ≤ rb) (hrb : rb ≤ 62)
    (hHa0 : 0 ≤ Ha) (hHa8 : Ha + 8 ≤ 2 ^ 62) (hbda : GBound Ha a) (hHaH : a.base2k = bk → Ha ≤ H)
    (hh : NormL.HeadRoom 64 bk 0 H) (hb62 : bk ≤ 62) (hH : 2 ^ bk - 1 ≤ H) (hH8 : H + 8 ≤ 2 ^ 62)
    (hcov : a.base2k * a.size ≤ bk * St)
    (hkeys : ∀ i p key, Ks.traceGalois (2 ^ K) i = .ok p → key ∈ keys → key.p = p →
      key.mat.size = Sk ∧ ∃ gInv EL KL Dm, TraceKeyOk big128 (2 ^ K) bk St a.rank sk key gInv EL KL Dm (BA i))
    (hent : (if a.base2k = bk then Outcome.ok (Ks.glweCopy bk St a) else Ks.glweNormalize bk St a) = .ok tmp)
    (hloop : Ks.traceLoop big128 keys tmp ((List.range (K - skip)).map (fun t => skip + t)) = .ok t)
    (hexit : (if rb = bk then Outcome.ok (Ks.glweCopy rb rs t) else Ks.glweNormalize rb rs t) = .ok r) :
    GWF (2 ^ K) r ∧ r.base2k = rb ∧ r.size = rs ∧ r.rank = a.rank ∧
    ∃ (ErrL E2 : Poly) (Z : Ks.R (2 ^ K)), ErrL.length = 2 ^ K ∧ E2.length = 2 ^ K ∧
      normInf ErrL ≤ 2 ^ (K - skip) * ∑ u ∈ Finset.range (K - skip),
        (2 ^ (bk * St + bk * Sk) * (2 * (1 + snorm (min a.rank sk.length) sk)) + BA (skip + u)) ∧
      normInf E2 ≤ (1 + snorm (min a.rank sk.length) sk) * exitTol bk St rb rs H ∧
      (2 ^ (bk * St + bk * Sk) * 2 ^ (K - skip) * 2 ^ (a.base2k * a.size) * 2 ^ (bk * St) : ℤ) •
          Ks.ι (2 ^ K) (valP rb (2 ^ K) (phase sk r))
        = (2 ^ (bk * St + bk * Sk) * 2 ^ (bk * St) * 2 ^ (rb * rs) : ℤ) •
            traceOp (2 ^ K) ((List.range (K - skip)).map (fun u => skip + u)) (Ks.ι (2 ^ K) (valP a.base2k (2 ^ K) (phase sk a)))
          + (2 ^ (rb * rs + a.base2k * a.size) : ℤ) • Ks.ι (2 ^ K) ErrL
          + (2 ^ (bk * St + bk * Sk) * 2 ^ (K - skip) * 2 ^ (a.base2k * a.size) : ℤ) • Ks.ι (2 ^ K) E2
          + (2 ^ (bk * St + bk * Sk) * 2 ^ (K - skip) * 2 ^ (a.base2k * a.size) * 2 ^ (bk * St) * 2 ^ (rb * rs) : ℤ) • Z :=
  KsDec.trace_pipeline big128 K skip hle hK keys sk bk St rb rs a tmp t r Sk Ha H BA hsk ha hab1 hab hrb1 hrb hHa0 hHa8 hbda hHaH hh hb62 hH hH8 hcov hkeys hent hloop hexit

/-- **the executed `glwe_trace` with its cross-radix entry/exit wrapper** (all four copy/normalise combinations): decrypts modulo 1 to `2^{−n}·Π(1+σ_{g_i})` of the input phase + the loop noise + the exit conversion unit -/
theorem glwe_trace_decrypts_exec (big128 : Bool) (K skip : ℕ) (hK : K + 1 ≤ 64) (keys : List Ks.Key) (sk : List Poly)
    (bk rb rs : ℕ) (a r : Ks.Ct) (Sk : ℕ) (Ha H : ℤ) (BA : ℕ → ℤ)
    (hsk : Ks.AllLen (2 ^ K) sk) (ha : GWF (2 ^ K) a) (hab1 : 1 ≤ a.base2k) (hab : a.base2k ≤ 62) (hrb1 : 1 ≤ rb) (hrb : rb ≤ 62)
    (hHa0 : 0 ≤ Ha) (hHa8 : Ha + 8 ≤ 2 ^ 62) (hbda : GBound Ha a) (hHaH : a.base2k = bk → Ha ≤ H)
    (hh : NormL.HeadRoom 64 bk 0 H) (hb62 : bk ≤ 62) (hH : 2 ^ bk - 1 ≤ H) (hH8 : H + 8 ≤ 2 ^ 62)
    (hkeys : ∀ i p key, Ks.traceGalois (2 ^ K) i = .ok p → key ∈ keys → key.p = p →
      key.mat.size = Sk ∧
        ∃ gInv EL KL Dm, TraceKeyOk big128 (2 ^ K) bk (traceTmpSize a bk rb rs) a.rank sk key gInv EL KL Dm (BA i))
    (hrun : Ks.trace big128 bk keys skip rb rs a = .ok r) :
    skip ≤ K ∧ GWF (2 ^ K) r ∧ r.base2k = rb ∧ r.size = rs ∧ r.rank = a.rank ∧
    ∃ (ErrL E2 : Poly) (Z : Ks.R (2 ^ K)), ErrL.length = 2 ^ K ∧ E2.length = 2 ^ K ∧
      normInf ErrL ≤ 2 ^ (K - skip) * ∑ u ∈ Finset.range (K - skip),
        (2 ^ (bk * traceTmpSize a bk rb rs + bk * Sk) * (2 * (1 + snorm (min a.rank sk.length) sk)) + BA (skip + u)) ∧
      normInf E2 ≤ (1 + snorm (min a.rank sk.length) sk) * exitTol bk (traceTmpSize a bk rb rs) rb rs H ∧
      (2 ^ (bk * traceTmpSize a bk rb rs + bk * Sk) * 2 ^ (K - skip) * 2 ^ (a.base2k * a.size) * 2 ^ (bk * traceTmpSize a bk rb rs) : ℤ) •
          Ks.ι (2 ^ K) (valP rb (2 ^ K) (phase sk r))
        = (2 ^ (bk * traceTmpSize a bk rb rs + bk * Sk) * 2 ^ (bk * traceTmpSize a bk rb rs) * 2 ^ (rb * rs) : ℤ) •
            traceOp (2 ^ K) ((List.range (K - skip)).map (fun u => skip + u)) (Ks.ι (2 ^ K) (valP a.base2k (2 ^ K) (phase sk a)))
          + (2 ^ (rb * rs + a.base2k * a.size) : ℤ) • Ks.ι (2 ^ K) ErrL
          + (2 ^ (bk * traceTmpSize a bk rb rs + bk * Sk) * 2 ^ (K - skip) * 2 ^ (a.base2k * a.size) : ℤ) • Ks.ι (2 ^ K) E2
          + (2 ^ (bk * traceTmpSize a bk rb rs + bk * Sk) * 2 ^ (K - skip) * 2 ^ (a.base2k * a.size)
              * 2 ^ (bk * traceTmpSize a bk rb rs) * 2 ^ (rb * rs) : ℤ) • Z :=
  KsDec.glwe_trace_decrypts_exec big128 K skip hK keys sk bk rb rs a r Sk Ha H BA hsk ha hab1 hab hrb1 hrb hHa0 hHa8 hbda hHaH hh hb62 hH hH8 hkeys hrun

/-- the executed `glwe_trace_assign` on a ciphertext whose radix differs from the key radix (normalise in, loop, normalise out) -/
theorem glwe_trace_assign_decrypts_cross (big128 : Bool) (K skip : ℕ) (hK : K + 1 ≤ 64) (keys : List Ks.Key) (sk : List Poly)
    (bk : ℕ) (res r : Ks.Ct) (Sk : ℕ) (Ha H : ℤ) (BA : ℕ → ℤ) (hne : res.base2k ≠ bk)
    (hsk : Ks.AllLen (2 ^ K) sk) (hr : GWF (2 ^ K) res) (hab1 : 1 ≤ res.base2k) (hab : res.base2k ≤ 62)
    (hHa0 : 0 ≤ Ha) (hHa8 : Ha + 8 ≤ 2 ^ 62) (hbda : GBound Ha res)
    (hh : NormL.HeadRoom 64 bk 0 H) (hb62 : bk ≤ 62) (hH : 2 ^ bk - 1 ≤ H) (hH8 : H + 8 ≤ 2 ^ 62)
    (hkeys : ∀ i p key, Ks.traceGalois (2 ^ K) i = .ok p → key ∈ keys → key.p = p →
      key.mat.size = Sk ∧
        ∃ gInv EL KL Dm, TraceKeyOk big128 (2 ^ K) bk (Ks.divCeil (res.size * res.base2k) bk) res.rank sk key gInv EL KL Dm (BA i))
    (hrun : Ks.traceAssign big128 bk keys skip res = .ok r) :
    skip ≤ K ∧ GWF (2 ^ K) r ∧ r.base2k = res.base2k ∧ r.size = res.size ∧ r.rank = res.rank ∧
    ∃ (ErrL E2 : Poly) (Z : Ks.R (2 ^ K)), ErrL.length = 2 ^ K ∧ E2.length = 2 ^ K ∧
      normInf ErrL ≤ 2 ^ (K - skip) * ∑ u ∈ Finset.range (K - skip),
        (2 ^ (bk * Ks.divCeil (res.size * res.base2k) bk + bk * Sk) * (2 * (1 + snorm (min res.rank sk.length) sk)) + BA (skip + u)) ∧
      normInf E2 ≤ (1 + snorm (min res.rank sk.length) sk) *
        C02.normTol (res.base2k * res.size) (bk * Ks.divCeil (res.size * res.base2k) bk) ∧
      (2 ^ (bk * Ks.divCeil (res.size * res.base2k) bk + bk * Sk) * 2 ^ (K - skip) * 2 ^ (res.base2k * res.size)
          * 2 ^ (bk * Ks.divCeil (res.size * res.base2k) bk) : ℤ) • Ks.ι (2 ^ K) (valP res.base2k (2 ^ K) (phase sk r))
        = (2 ^ (bk * Ks.divCeil (res.size * res.base2k) bk + bk * Sk) * 2 ^ (bk * Ks.divCeil (res.size * res.base2k) bk)
            * 2 ^ (res.base2k * res.size) : ℤ) •
            traceOp (2 ^ K) ((List.range (K - skip)).map (fun u => skip + u)) (Ks.ι (2 ^ K) (valP res.base2k (2 ^ K) (phase sk res)))
          + (2 ^ (res.base2k * res.size + res.base2k * res.size) : ℤ) • Ks.ι (2 ^ K) ErrL
          + (2 ^ (bk * Ks.divCeil (res.size * res.base2k) bk + bk * Sk) * 2 ^ (K - skip) * 2 ^ (res.base2k * res.size) : ℤ) •
              Ks.ι (2 ^ K) E2
          + (2 ^ (bk * Ks.divCeil (res.size * res.base2k) bk + bk * Sk) * 2 ^ (K - skip) * 2 ^ (res.base2k * res.size)
              * 2 ^ (bk * Ks.divCeil (res.size * res.base2k) bk) * 2 ^ (res.base2k * res.size) : ℤ) • Z :=
  KsDec.glwe_trace_assign_decrypts_cross big128 K skip hK keys sk bk res r Sk Ha H BA hne hsk hr hab1 hab hHa0 hHa8 hbda hh hb62 hH hH8 hkeys hrun

/-- executed `glwe_trace` through both conversions (input radix `2^2`, keys `2^4`, result `2^2`), and with a truncating exit copy; the
closed instances of `glwe_trace_decrypts_exec` are `KsDec.trace_wrap_closed_instance(_trunc)` -/
example (big128 : Bool) : Ks.trace big128 4 [KsDec.trKey] 0 2 4 KsDec.trA = .ok KsDec.trAOut := KsDec.trA_run big128
example (big128 : Bool) : Ks.trace big128 4 [KsDec.trKey] 0 4 1 KsDec.trA = .ok KsDec.trAOut1 := KsDec.trA_run1 big128
end TraceWrapSec

section GgswCrossSec
open KsDec Hal Core Core.Ops C02L AutoMul
variable {M : Type*} [AddCommGroup M]

/-- the cross branch of `ggsw_expand_row`'s preparation returns the body and mask columns of the cell converted into the tensor-key radix -/
theorem expand_pre_cross_wf (N rb rs : Nat) (y yc : Ks.Ct) (t : ToGGSWKey) (hy : GWF N y) (hyb : y.base2k = rb) (hys : y.size = rs)
    (hrank : y.rank = t.rank) (hne : rb ≠ t.base2k) (hconv : Ks.convIn y (radixKey t.base2k) = .ok yc) (gyc : GWF N yc)
    (hsz : yc.size = (rs * rb + t.base2k - 1) / t.base2k) :
    expandPre N rb rs y.cols t = some (yc.cols.getD 0 [], maskOf t yc) :=
  KsDec.expandPre_cross_wf N rb rs y yc t hy hyb hys hrank hne hconv gyc hsz

/-- one row of the executed expansion when the result radix differs from the tensor-key radix: conversion (exact, C08 discharged) ∘ gadget products ∘ normalisation back -/
theorem ggsw_row_cells_decrypt_cross (N : Nat) (big128 : Bool) (rb rs : Nat) (t : ToGGSWKey) (cells : List (List Col)) (sk : List Poly)
    (E : ℕ → ℕ → ℕ → Ks.R N) (r : Nat) (y : Ks.Ct) (Hin Hp : Int)
    (hv : Ks.RowCellsValue N big128 rb rs t cells sk ((2 : Ks.R N) ^ t.base2k) (fun i => Ks.ι N (sk.getD i [])) E r y)
    (hN : 0 < N) (hy : GWF N y) (hyb : y.base2k = rb) (hys : y.size = rs) (hrank : y.rank = t.rank) (hd : 1 ≤ t.dsize) (hn : t.n = N)
    (hM : ∀ c, c < t.rank → ∀ j q, ((t.at c).toPMat.entry j q).length = N) (hsk : t.rank ≤ sk.length)
    (hrb1 : 1 ≤ rb) (hrb : rb ≤ 62) (hb1 : 1 ≤ t.base2k) (hb : t.base2k ≤ 62) (hne : rb ≠ t.base2k)
    (h1 : crossSize rb rs t.base2k ≤ t.size) (h2 : crossSize rb rs t.base2k ≤ t.dnum * t.dsize)
    (hIn0 : 0 ≤ Hin) (hIn : Hin + 8 ≤ 2 ^ 62) (hyB : ∀ c ∈ y.cols, ∀ l ∈ c, ∀ x ∈ l, |x| ≤ Hin)
    (hHp0 : 0 ≤ Hp) (hH : Hp + (Hin + 2 ^ t.base2k) + 8 ≤ 2 ^ (bitsOf big128 - 2))
    (hprod : ∀ yc, Ks.convIn y (radixKey t.base2k) = .ok yc →
      ∀ c, c < t.rank → ∀ col ∈ expandProd N (maskOf t yc) t c, ∀ l ∈ col, ∀ x ∈ l, |x| ≤ Hp) :
    ∃ yc, Ks.convIn y (radixKey t.base2k) = .ok yc ∧ GWF N yc ∧ yc.base2k = t.base2k ∧ yc.rank = t.rank ∧
      yc.size = crossSize rb rs t.base2k ∧
      ∃ E1 Q1 : Poly, E1.length = N ∧ Q1.length = N ∧
        normInf E1 ≤ (1 + snorm (min t.rank sk.length) sk) * C02.normTol (t.base2k * crossSize rb rs t.base2k) (rb * rs) ∧
        ∀ c, c < t.rank → ∃ cell, cells[r * (t.rank + 1) + (c + 1)]? = some cell ∧ cell.length = t.rank + 1 ∧
          (∀ col ∈ cell, ColWF N rs col) ∧ (∀ col ∈ cell, ∀ l ∈ col, ∀ x ∈ l, |x| ≤ 2 ^ rb - 1) ∧
          ∃ E3 Q3 : Poly, E3.length = N ∧ Q3.length = N ∧
            normInf E3 ≤ (1 + snorm (min t.rank sk.length) sk) * C02.normTol (rb * rs) (t.base2k * t.size) ∧
            (2 : Ks.R N) ^ (t.base2k * t.size) * Ks.ι N (valP rb N (phase sk (Ks.mkCt rb N cell)))
              = (2 : Ks.R N) ^ (t.base2k * t.size) * (Ks.ι N (sk.getD c []) * Ks.ι N (valP rb N (phase sk y)))
                + ((2 : Ks.R N) ^ (t.base2k * (t.size - crossSize rb rs t.base2k)) * (Ks.ι N (sk.getD c []) * Ks.ι N E1)
                  + (2 : Ks.R N) ^ (rb * rs) * expandErr N sk (maskOf t yc) t c ((2 : Ks.R N) ^ t.base2k) (E c)
                  + Ks.ι N E3)
                + (2 : Ks.R N) ^ (rb * rs + t.base2k * t.size) * (Ks.ι N (sk.getD c []) * Ks.ι N Q1 + Ks.ι N Q3) :=
  KsDec.row_cells_decrypt_cross N big128 rb rs t cells sk E r y Hin Hp hv hN hy hyb hys hrank hd hn hM hsk hrb1 hrb hb1 hb hne h1 h2 hIn0 hIn hyB hHp0 hH hprod

/-- **`ggsw_keyswitch_decrypts` for a result radix `rb ≠ t.base2k`** (`1 ≤ rb ≤ 61`), per cell -/
theorem ggsw_keyswitch_decrypts_cross (N : Nat) (big128 : Bool) (rb rs rd rds ab ads : Nat) (aCol0 : List Ks.Ct) (key : Ks.Key)
    (t : ToGGSWKey) (cells : List (List Col)) (sIn skOut : List Poly) (EL KL : ℕ → ℕ → Poly) (ET : ℕ → ℕ → ℕ → Ks.R N) (Hin Hp HpT : Int)
    (hN : 0 < N) (hrout : t.rank = key.rankOut) (hc0 : 0 < key.mat.colsOut)
    (hD : 1 ≤ key.dsize) (hMk : ∀ j q, (key.mat.entry j q).length = N) (hSk : key.mat.rows * key.dsize ≤ key.mat.size)
    (hbk1 : 1 ≤ key.base2k) (hbk : key.base2k ≤ 62) (hs : key.mat.colsIn ≤ sIn.length)
    (hEL : ∀ i r, (EL i r).length = N) (hKL : ∀ i r, (KL i r).length = N)
    (hkey : ∀ i, i < key.mat.colsIn → ∀ r, r < key.mat.rows →
      Gadget.val (Ks.radix N key.base2k) key.mat.size (Ks.keyPhase N skOut key.mat i r) =
        Ks.ι N (sIn.getD i []) * Ks.radix N key.base2k ^ (key.mat.size - (r + 1) * key.dsize) + Ks.ι N (EL i r)
          + Ks.radix N key.base2k ^ key.mat.size * Ks.ι N (KL i r))
    (hd : 1 ≤ t.dsize) (hn : t.n = N) (hS : t.dnum * t.dsize ≤ t.size) (hrank : t.rank ≤ skOut.length)
    (hMt : ∀ c, c < t.rank → ∀ j q, ((t.at c).toPMat.entry j q).length = N) (hb1 : 1 ≤ t.base2k) (hb : t.base2k ≤ 62)
    (hrb1 : 1 ≤ rb) (hrb : rb ≤ 61) (hne : rb ≠ t.base2k)
    (hkeyT : ∀ c, c < t.rank → ∀ i, i < t.rank → ∀ r, r < t.dnum →
      Gadget.val ((2 : Ks.R N) ^ t.base2k) t.size (Ks.keyPhase N skOut (t.at c).toPMat i r)
        = Ks.ι N (skOut.getD c []) * Ks.ι N (skOut.getD i []) * ((2 : Ks.R N) ^ t.base2k) ^ (t.size - (r + 1) * t.dsize) + ET c i r)
    (hcov1 : crossSize rb rs t.base2k ≤ t.size) (hcov2 : crossSize rb rs t.base2k ≤ t.dnum * t.dsize)
    (hIn0 : 0 ≤ Hin) (hIn : Hin + 8 ≤ 2 ^ 62) (hHp0 : 0 ≤ Hp) (hAcc : Hp + (Hin + 2 ^ key.base2k) + 8 ≤ 2 ^ (bitsOf big128 - 2))
    (hHpT0 : 0 ≤ HpT) (hAccT : HpT + ((2 ^ rb - 1) + 2 ^ t.base2k) + 8 ≤ 2 ^ (bitsOf big128 - 2))
    (hrows : ∀ r x, r < rd → aCol0[r]? = some x → KsRowOk N key.rankOut key Hin Hp x)
    (hprodT : ∀ r x y yc, r < rd → aCol0[r]? = some x → Ks.keyswitch big128 rb rs key.rankOut x key = .ok y →
      Ks.convIn y (radixKey t.base2k) = .ok yc →
      ∀ c, c < t.rank → ∀ col ∈ expandProd N (maskOf t yc) t c, ∀ l ∈ col, ∀ v ∈ l, |v| ≤ HpT)
    (h : Ks.ggswKeyswitch big128 N rb rs rd rds ab ads aCol0 key t = .ok cells) :
    cells.length = rd * (t.rank + 1) ∧
      ∀ r, r < rd → ∃ x y aConv yc, aCol0[r]? = some x ∧ Ks.keyswitch big128 rb rs key.rankOut x key = .ok y ∧
        Ks.convIn x key = .ok aConv ∧ Ks.convIn y (radixKey t.base2k) = .ok yc ∧ cells[r * (t.rank + 1)]? = some y.cols ∧
        GWF N y ∧ y.base2k = rb ∧ y.size = rs ∧ y.rank = t.rank ∧
        ∃ (E1 E3 : Poly) (Q : Ks.R N), E1.length = N ∧ E3.length = N ∧
          normInf E1 ≤ (1 + snorm (min x.rank sIn.length) sIn) * C02.normTol (key.base2k * convSize x key) (x.base2k * x.size) ∧
          normInf E3 ≤ (1 + snorm (min key.rankOut skOut.length) skOut) * C02.normTol (rb * rs) (key.base2k * key.mat.size) ∧
          normInf (ksErrOf N rb rs x aConv key skOut EL E1 E3) ≤ ksErrBound N rb rs key.rankOut x aConv key sIn skOut EL ∧
          (2 : Ks.R N) ^ (x.base2k * x.size + key.base2k * key.mat.size) * Ks.ι N (valP rb N (phase skOut y))
            = (2 : Ks.R N) ^ (rb * rs + key.base2k * key.mat.size) * Ks.ι N (valP x.base2k N (phase sIn x))
              + Ks.ι N (ksErrOf N rb rs x aConv key skOut EL E1 E3)
              + (2 : Ks.R N) ^ (x.base2k * x.size + key.base2k * key.mat.size + rb * rs) * Q ∧
          ∃ E1c Q1c : Poly, E1c.length = N ∧ Q1c.length = N ∧
            normInf E1c ≤ (1 + snorm (min t.rank skOut.length) skOut) * C02.normTol (t.base2k * crossSize rb rs t.base2k) (rb * rs) ∧
            ∀ c, c < t.rank → ∃ cell, cells[r * (t.rank + 1) + (c + 1)]? = some cell ∧ cell.length = t.rank + 1 ∧
              (∀ col ∈ cell, ColWF N rs col) ∧ (∀ col ∈ cell, ∀ l ∈ col, ∀ v ∈ l, |v| ≤ 2 ^ rb - 1) ∧
              ∃ E3c Q3c : Poly, E3c.length = N ∧ Q3c.length = N ∧
                normInf E3c ≤ (1 + snorm (min t.rank skOut.length) skOut) * C02.normTol (rb * rs) (t.base2k * t.size) ∧
                (2 : Ks.R N) ^ (x.base2k * x.size + key.base2k * key.mat.size + t.base2k * t.size) *
                    Ks.ι N (valP rb N (phase skOut (Ks.mkCt rb N cell)))
                  = (2 : Ks.R N) ^ (rb * rs + key.base2k * key.mat.size + t.base2k * t.size) *
                      (Ks.ι N (skOut.getD c []) * Ks.ι N (valP x.base2k N (phase sIn x)))
                    + ((2 : Ks.R N) ^ (t.base2k * t.size) * (Ks.ι N (skOut.getD c []) * Ks.ι N (ksErrOf N rb rs x aConv key skOut EL E1 E3))
                      + (2 : Ks.R N) ^ (x.base2k * x.size + key.base2k * key.mat.size) *
                          ((2 : Ks.R N) ^ (t.base2k * (t.size - crossSize rb rs t.base2k)) * (Ks.ι N (skOut.getD c []) * Ks.ι N E1c)
                            + (2 : Ks.R N) ^ (rb * rs) * expandErr N skOut (maskOf t yc) t c ((2 : Ks.R N) ^ t.base2k) (ET c)
                            + Ks.ι N E3c))
                    + (2 : Ks.R N) ^ (x.base2k * x.size + key.base2k * key.mat.size + rb * rs + t.base2k * t.size) *
                        (Ks.ι N (skOut.getD c []) * Q + Ks.ι N (skOut.getD c []) * Ks.ι N Q1c + Ks.ι N Q3c) :=
  KsDec.ggsw_keyswitch_decrypts_cross N big128 rb rs rd rds ab ads aCol0 key t cells sIn skOut EL KL ET Hin Hp HpT hN hrout hc0 hD hMk hSk hbk1 hbk hs hEL hKL hkey hd hn hS hrank hMt hb1 hb hrb1 hrb hne hkeyT hcov1 hcov2 hIn0 hIn hHp0 hAcc hHpT0 hAccT hrows hprodT h

/-- same for `ggsw_automorphism` -/
theorem ggsw_automorphism_decrypts_cross (N : Nat) (big128 : Bool) (rb rs rd rds ab ads : Nat) (aCol0 : List Ks.Ct) (key : Ks.Key)
    (t : ToGGSWKey) (cells : List (List Col)) (sk : List Poly) (gInv : Int) (EL KL : ℕ → ℕ → Poly) (ET : ℕ → ℕ → ℕ → Ks.R N)
    (Hin Hp HpT : Int)
    (hN : 0 < N) (hg : GalOk key.p N) (hskl : Ks.AllLen N sk) (hinv : ∀ s ∈ sk, σ key.p (σ gInv s) = s)
    (hrout : t.rank = key.rankOut) (hc0 : 0 < key.mat.colsOut)
    (hD : 1 ≤ key.dsize) (hMk : ∀ j q, (key.mat.entry j q).length = N) (hSk : key.mat.rows * key.dsize ≤ key.mat.size)
    (hbk1 : 1 ≤ key.base2k) (hbk : key.base2k ≤ 62) (hs : key.mat.colsIn ≤ sk.length)
    (hEL : ∀ i r, (EL i r).length = N) (hKL : ∀ i r, (KL i r).length = N)
    (hkey : ∀ i, i < key.mat.colsIn → ∀ r, r < key.mat.rows →
      Gadget.val (Ks.radix N key.base2k) key.mat.size (Ks.keyPhase N (sk.map (σ gInv)) key.mat i r) =
        Ks.ι N (sk.getD i []) * Ks.radix N key.base2k ^ (key.mat.size - (r + 1) * key.dsize) + Ks.ι N (EL i r)
          + Ks.radix N key.base2k ^ key.mat.size * Ks.ι N (KL i r))
    (hd : 1 ≤ t.dsize) (hn : t.n = N) (hS : t.dnum * t.dsize ≤ t.size) (hrank : t.rank ≤ sk.length)
    (hMt : ∀ c, c < t.rank → ∀ j q, ((t.at c).toPMat.entry j q).length = N) (hb1 : 1 ≤ t.base2k) (hb : t.base2k ≤ 62)
    (hrb1 : 1 ≤ rb) (hrb : rb ≤ 61) (hne : rb ≠ t.base2k)
    (hkeyT : ∀ c, c < t.rank → ∀ i, i < t.rank → ∀ r, r < t.dnum →
      Gadget.val ((2 : Ks.R N) ^ t.base2k) t.size (Ks.keyPhase N sk (t.at c).toPMat i r)
        = Ks.ι N (sk.getD c []) * Ks.ι N (sk.getD i []) * ((2 : Ks.R N) ^ t.base2k) ^ (t.size - (r + 1) * t.dsize) + ET c i r)
    (hcov1 : crossSize rb rs t.base2k ≤ t.size) (hcov2 : crossSize rb rs t.base2k ≤ t.dnum * t.dsize)
    (hIn0 : 0 ≤ Hin) (hIn : Hin + 8 ≤ 2 ^ 62) (hHp0 : 0 ≤ Hp) (hAcc : Hp + (Hin + 2 ^ key.base2k) + 8 ≤ 2 ^ (bitsOf big128 - 2))
    (hHpT0 : 0 ≤ HpT) (hAccT : HpT + ((2 ^ rb - 1) + 2 ^ t.base2k) + 8 ≤ 2 ^ (bitsOf big128 - 2))
    (hrows : ∀ r x, r < rd → aCol0[r]? = some x → KsRowOk N key.rankOut key Hin Hp x)
    (hprodT : ∀ r x y yc, r < rd → aCol0[r]? = some x → Ks.automorphism big128 rb rs key.rankOut x key = .ok y →
      Ks.convIn y (radixKey t.base2k) = .ok yc →
      ∀ c, c < t.rank → ∀ col ∈ expandProd N (maskOf t yc) t c, ∀ l ∈ col, ∀ v ∈ l, |v| ≤ HpT)
    (h : Ks.ggswAutomorphism big128 N rb rs rd rds ab ads aCol0 key t = .ok cells) :
    cells.length = rd * (t.rank + 1) ∧
      ∀ r, r < rd → ∃ x y aConv yc, aCol0[r]? = some x ∧ Ks.automorphism big128 rb rs key.rankOut x key = .ok y ∧
        Ks.convIn x key = .ok aConv ∧ Ks.convIn y (radixKey t.base2k) = .ok yc ∧ cells[r * (t.rank + 1)]? = some y.cols ∧
        GWF N y ∧ y.base2k = rb ∧ y.size = rs ∧ y.rank = t.rank ∧
        ∃ (E1 E3 : Poly) (Q : Ks.R N), E1.length = N ∧ E3.length = N ∧
          normInf E1 ≤ (1 + snorm (min x.rank sk.length) sk) * C02.normTol (key.base2k * convSize x key) (x.base2k * x.size) ∧
          normInf E3 ≤ (1 + snorm (min key.rankOut (sk.map (σ gInv)).length) (sk.map (σ gInv))) *
            C02.normTol (rb * rs) (key.base2k * key.mat.size) ∧
          normInf (σ key.p (ksErrOf N rb rs x aConv key (sk.map (σ gInv)) EL E1 E3))
            ≤ ksErrBound N rb rs key.rankOut x aConv key sk (sk.map (σ gInv)) EL ∧
          (2 : Ks.R N) ^ (x.base2k * x.size + key.base2k * key.mat.size) * Ks.ι N (valP rb N (phase sk y))
            = (2 : Ks.R N) ^ (rb * rs + key.base2k * key.mat.size) * Ks.ι N (σ key.p (valP x.base2k N (phase sk x)))
              + Ks.ι N (σ key.p (ksErrOf N rb rs x aConv key (sk.map (σ gInv)) EL E1 E3))
              + (2 : Ks.R N) ^ (x.base2k * x.size + key.base2k * key.mat.size + rb * rs) * Q ∧
          ∃ E1c Q1c : Poly, E1c.length = N ∧ Q1c.length = N ∧
            normInf E1c ≤ (1 + snorm (min t.rank sk.length) sk) * C02.normTol (t.base2k * crossSize rb rs t.base2k) (rb * rs) ∧
            ∀ c, c < t.rank → ∃ cell, cells[r * (t.rank + 1) + (c + 1)]? = some cell ∧ cell.length = t.rank + 1 ∧
              (∀ col ∈ cell, ColWF N rs col) ∧ (∀ col ∈ cell, ∀ l ∈ col, ∀ v ∈ l, |v| ≤ 2 ^ rb - 1) ∧
              ∃ E3c Q3c : Poly, E3c.length = N ∧ Q3c.length = N ∧
                normInf E3c ≤ (1 + snorm (min t.rank sk.length) sk) * C02.normTol (rb * rs) (t.base2k * t.size) ∧
                (2 : Ks.R N) ^ (x.base2k * x.size + key.base2k * key.mat.size + t.base2k * t.size) *
                    Ks.ι N (valP rb N (phase sk (Ks.mkCt rb N cell)))
                  = (2 : Ks.R N) ^ (rb * rs + key.base2k * key.mat.size + t.base2k * t.size) *
                      (Ks.ι N (sk.getD c []) * Ks.ι N (σ key.p (valP x.base2k N (phase sk x))))
                    + ((2 : Ks.R N) ^ (t.base2k * t.size) *
                          (Ks.ι N (sk.getD c []) * Ks.ι N (σ key.p (ksErrOf N rb rs x aConv key (sk.map (σ gInv)) EL E1 E3)))
                      + (2 : Ks.R N) ^ (x.base2k * x.size + key.base2k * key.mat.size) *
                          ((2 : Ks.R N) ^ (t.base2k * (t.size - crossSize rb rs t.base2k)) * (Ks.ι N (sk.getD c []) * Ks.ι N E1c)
                            + (2 : Ks.R N) ^ (rb * rs) * expandErr N sk (maskOf t yc) t c ((2 : Ks.R N) ^ t.base2k) (ET c)
                            + Ks.ι N E3c))
                    + (2 : Ks.R N) ^ (x.base2k * x.size + key.base2k * key.mat.size + rb * rs + t.base2k * t.size) *
                        (Ks.ι N (sk.getD c []) * Q + Ks.ι N (sk.getD c []) * Ks.ι N Q1c + Ks.ι N Q3c) :=
  KsDec.ggsw_automorphism_decrypts_cross N big128 rb rs rd rds ab ads aCol0 key t cells sk gInv EL KL ET Hin Hp HpT hN hg hskl hinv hrout hc0 hD hMk hSk hbk1 hbk hs hEL hKL hkey hd hn hS hrank hMt hb1 hb hrb1 hrb hne hkeyT hcov1 hcov2 hIn0 hIn hHp0 hAcc hHpT0 hAccT hrows hprodT h

/-- head-room derived (`ksAdmissible`, `expandAdmissible` with mask/body digits `(2^rb − 1) + 2^b`) -/
theorem ggsw_keyswitch_decrypts_cross_adm (N : Nat) (big128 : Bool) (rb rs rd rds ab ads : Nat) (aCol0 : List Ks.Ct) (key : Ks.Key)
    (t : ToGGSWKey) (cells : List (List Col)) (sIn skOut : List Poly) (EL KL : ℕ → ℕ → Poly) (ET : ℕ → ℕ → ℕ → Ks.R N) (Hin Dm Dt : Int)
    (hN : 0 < N) (hrout : t.rank = key.rankOut) (hc0 : 0 < key.mat.colsOut)
    (hD : 1 ≤ key.dsize) (hMk : ∀ j q, (key.mat.entry j q).length = N) (hSk : key.mat.rows * key.dsize ≤ key.mat.size)
    (hbk1 : 1 ≤ key.base2k) (hbk : key.base2k ≤ 62) (hs : key.mat.colsIn ≤ sIn.length)
    (hEL : ∀ i r, (EL i r).length = N) (hKL : ∀ i r, (KL i r).length = N)
    (hkey : ∀ i, i < key.mat.colsIn → ∀ r, r < key.mat.rows →
      Gadget.val (Ks.radix N key.base2k) key.mat.size (Ks.keyPhase N skOut key.mat i r) =
        Ks.ι N (sIn.getD i []) * Ks.radix N key.base2k ^ (key.mat.size - (r + 1) * key.dsize) + Ks.ι N (EL i r)
          + Ks.radix N key.base2k ^ key.mat.size * Ks.ι N (KL i r))
    (hd : 1 ≤ t.dsize) (hn : t.n = N) (hS : t.dnum * t.dsize ≤ t.size) (hrank : t.rank ≤ skOut.length)
    (hMt : ∀ c, c < t.rank → ∀ j q, ((t.at c).toPMat.entry j q).length = N) (hb1 : 1 ≤ t.base2k) (hb : t.base2k ≤ 62)
    (hrb1 : 1 ≤ rb) (hrb : rb ≤ 61) (hne : rb ≠ t.base2k)
    (hkeyT : ∀ c, c < t.rank → ∀ i, i < t.rank → ∀ r, r < t.dnum →
      Gadget.val ((2 : Ks.R N) ^ t.base2k) t.size (Ks.keyPhase N skOut (t.at c).toPMat i r)
        = Ks.ι N (skOut.getD c []) * Ks.ι N (skOut.getD i []) * ((2 : Ks.R N) ^ t.base2k) ^ (t.size - (r + 1) * t.dsize) + ET c i r)
    (hcov1 : crossSize rb rs t.base2k ≤ t.size) (hcov2 : crossSize rb rs t.base2k ≤ t.dnum * t.dsize)
    (hIn0 : 0 ≤ Hin) (hIn : Hin + 8 ≤ 2 ^ 62)
    (hDm0 : 0 ≤ Dm) (hm : ∀ j q, normInf (key.mat.entry j q) ≤ Dm) (hadm : ksAdmissible big128 key N Hin Dm)
    (hDt0 : 0 ≤ Dt) (hmT : ∀ c, c < t.rank → ∀ j q, normInf ((t.at c).toPMat.entry j q) ≤ Dt)
    (hadmT : expandAdmissible big128 t N ((2 ^ rb - 1) + 2 ^ t.base2k) Dt ((2 ^ rb - 1) + 2 ^ t.base2k))
    (hrows : ∀ r x, r < rd → aCol0[r]? = some x → KsRowAdm N key Hin x)
    (h : Ks.ggswKeyswitch big128 N rb rs rd rds ab ads aCol0 key t = .ok cells) :
    cells.length = rd * (t.rank + 1) ∧
      ∀ r, r < rd → ∃ x y aConv yc, aCol0[r]? = some x ∧ Ks.keyswitch big128 rb rs key.rankOut x key = .ok y ∧
        Ks.convIn x key = .ok aConv ∧ Ks.convIn y (radixKey t.base2k) = .ok yc ∧ cells[r * (t.rank + 1)]? = some y.cols ∧
        GWF N y ∧ y.base2k = rb ∧ y.size = rs ∧ y.rank = t.rank ∧
        ∃ (E1 E3 : Poly) (Q : Ks.R N), E1.length = N ∧ E3.length = N ∧
          normInf E1 ≤ (1 + snorm (min x.rank sIn.length) sIn) * C02.normTol (key.base2k * convSize x key) (x.base2k * x.size) ∧
          normInf E3 ≤ (1 + snorm (min key.rankOut skOut.length) skOut) * C02.normTol (rb * rs) (key.base2k * key.mat.size) ∧
          normInf (ksErrOf N rb rs x aConv key skOut EL E1 E3) ≤ ksErrBound N rb rs key.rankOut x aConv key sIn skOut EL ∧
          (2 : Ks.R N) ^ (x.base2k * x.size + key.base2k * key.mat.size) * Ks.ι N (valP rb N (phase skOut y))
            = (2 : Ks.R N) ^ (rb * rs + key.base2k * key.mat.size) * Ks.ι N (valP x.base2k N (phase sIn x))
              + Ks.ι N (ksErrOf N rb rs x aConv key skOut EL E1 E3)
              + (2 : Ks.R N) ^ (x.base2k * x.size + key.base2k * key.mat.size + rb * rs) * Q ∧
          ∃ E1c Q1c : Poly, E1c.length = N ∧ Q1c.length = N ∧
            normInf E1c ≤ (1 + snorm (min t.rank skOut.length) skOut) * C02.normTol (t.base2k * crossSize rb rs t.base2k) (rb * rs) ∧
            ∀ c, c < t.rank → ∃ cell, cells[r * (t.rank + 1) + (c + 1)]? = some cell ∧ cell.length = t.rank + 1 ∧
              (∀ col ∈ cell, ColWF N rs col) ∧ (∀ col ∈ cell, ∀ l ∈ col, ∀ v ∈ l, |v| ≤ 2 ^ rb - 1) ∧
              ∃ E3c Q3c : Poly, E3c.length = N ∧ Q3c.length = N ∧
                normInf E3c ≤ (1 + snorm (min t.rank skOut.length) skOut) * C02.normTol (rb * rs) (t.base2k * t.size) ∧
                (2 : Ks.R N) ^ (x.base2k * x.size + key.base2k * key.mat.size + t.base2k * t.size) *
                    Ks.ι N (valP rb N (phase skOut (Ks.mkCt rb N cell)))
                  = (2 : Ks.R N) ^ (rb * rs + key.base2k * key.mat.size + t.base2k * t.size) *
                      (Ks.ι N (skOut.getD c []) * Ks.ι N (valP x.base2k N (phase sIn x)))
                    + ((2 : Ks.R N) ^ (t.base2k * t.size) * (Ks.ι N (skOut.getD c []) * Ks.ι N (ksErrOf N rb rs x aConv key skOut EL E1 E3))
                      + (2 : Ks.R N) ^ (x.base2k * x.size + key.base2k * key.mat.size) *
                          ((2 : Ks.R N) ^ (t.base2k * (t.size - crossSize rb rs t.base2k)) * (Ks.ι N (skOut.getD c []) * Ks.ι N E1c)
                            + (2 : Ks.R N) ^ (rb * rs) * expandErr N skOut (maskOf t yc) t c ((2 : Ks.R N) ^ t.base2k) (ET c)
                            + Ks.ι N E3c))
                    + (2 : Ks.R N) ^ (x.base2k * x.size + key.base2k * key.mat.size + rb * rs + t.base2k * t.size) *
                        (Ks.ι N (skOut.getD c []) * Q + Ks.ι N (skOut.getD c []) * Ks.ι N Q1c + Ks.ι N Q3c) :=
  KsDec.ggsw_keyswitch_decrypts_cross_adm N big128 rb rs rd rds ab ads aCol0 key t cells sIn skOut EL KL ET Hin Dm Dt hN hrout hc0 hD hMk hSk hbk1 hbk hs hEL hKL hkey hd hn hS hrank hMt hb1 hb hrb1 hrb hne hkeyT hcov1 hcov2 hIn0 hIn hDm0 hm hadm hDt0 hmT hadmT hrows h

/-- head-room derived -/
theorem ggsw_automorphism_decrypts_cross_adm (N : Nat) (big128 : Bool) (rb rs rd rds ab ads : Nat) (aCol0 : List Ks.Ct) (key : Ks.Key)
    (t : ToGGSWKey) (cells : List (List Col)) (sk : List Poly) (gInv : Int) (EL KL : ℕ → ℕ → Poly) (ET : ℕ → ℕ → ℕ → Ks.R N)
    (Hin Dm Dt : Int)
    (hN : 0 < N) (hg : GalOk key.p N) (hskl : Ks.AllLen N sk) (hinv : ∀ s ∈ sk, σ key.p (σ gInv s) = s)
    (hrout : t.rank = key.rankOut) (hc0 : 0 < key.mat.colsOut)
    (hD : 1 ≤ key.dsize) (hMk : ∀ j q, (key.mat.entry j q).length = N) (hSk : key.mat.rows * key.dsize ≤ key.mat.size)
    (hbk1 : 1 ≤ key.base2k) (hbk : key.base2k ≤ 62) (hs : key.mat.colsIn ≤ sk.length)
    (hEL : ∀ i r, (EL i r).length = N) (hKL : ∀ i r, (KL i r).length = N)
    (hkey : ∀ i, i < key.mat.colsIn → ∀ r, r < key.mat.rows →
      Gadget.val (Ks.radix N key.base2k) key.mat.size (Ks.keyPhase N (sk.map (σ gInv)) key.mat i r) =
        Ks.ι N (sk.getD i []) * Ks.radix N key.base2k ^ (key.mat.size - (r + 1) * key.dsize) + Ks.ι N (EL i r)
          + Ks.radix N key.base2k ^ key.mat.size * Ks.ι N (KL i r))
    (hd : 1 ≤ t.dsize) (hn : t.n = N) (hS : t.dnum * t.dsize ≤ t.size) (hrank : t.rank ≤ sk.length)
    (hMt : ∀ c, c < t.rank → ∀ j q, ((t.at c).toPMat.entry j q).length = N) (hb1 : 1 ≤ t.base2k) (hb : t.base2k ≤ 62)
    (hrb1 : 1 ≤ rb) (hrb : rb ≤ 61) (hne : rb ≠ t.base2k)
    (hkeyT : ∀ c, c < t.rank → ∀ i, i < t.rank → ∀ r, r < t.dnum →
      Gadget.val ((2 : Ks.R N) ^ t.base2k) t.size (Ks.keyPhase N sk (t.at c).toPMat i r)
        = Ks.ι N (sk.getD c []) * Ks.ι N (sk.getD i []) * ((2 : Ks.R N) ^ t.base2k) ^ (t.size - (r + 1) * t.dsize) + ET c i r)
    (hcov1 : crossSize rb rs t.base2k ≤ t.size) (hcov2 : crossSize rb rs t.base2k ≤ t.dnum * t.dsize)
    (hIn0 : 0 ≤ Hin) (hIn : Hin + 8 ≤ 2 ^ 62)
    (hDm0 : 0 ≤ Dm) (hm : ∀ j q, normInf (key.mat.entry j q) ≤ Dm) (hadm : ksAdmissible big128 key N Hin Dm)
    (hDt0 : 0 ≤ Dt) (hmT : ∀ c, c < t.rank → ∀ j q, normInf ((t.at c).toPMat.entry j q) ≤ Dt)
    (hadmT : expandAdmissible big128 t N ((2 ^ rb - 1) + 2 ^ t.base2k) Dt ((2 ^ rb - 1) + 2 ^ t.base2k))
    (hrows : ∀ r x, r < rd → aCol0[r]? = some x → KsRowAdm N key Hin x)
    (h : Ks.ggswAutomorphism big128 N rb rs rd rds ab ads aCol0 key t = .ok cells) :
    cells.length = rd * (t.rank + 1) ∧
      ∀ r, r < rd → ∃ x y aConv yc, aCol0[r]? = some x ∧ Ks.automorphism big128 rb rs key.rankOut x key = .ok y ∧
        Ks.convIn x key = .ok aConv ∧ Ks.convIn y (radixKey t.base2k) = .ok yc ∧ cells[r * (t.rank + 1)]? = some y.cols ∧
        GWF N y ∧ y.base2k = rb ∧ y.size = rs ∧ y.rank = t.rank ∧
        ∃ (E1 E3 : Poly) (Q : Ks.R N), E1.length = N ∧ E3.length = N ∧
          normInf E1 ≤ (1 + snorm (min x.rank sk.length) sk) * C02.normTol (key.base2k * convSize x key) (x.base2k * x.size) ∧
          normInf E3 ≤ (1 + snorm (min key.rankOut (sk.map (σ gInv)).length) (sk.map (σ gInv))) *
            C02.normTol (rb * rs) (key.base2k * key.mat.size) ∧
          normInf (σ key.p (ksErrOf N rb rs x aConv key (sk.map (σ gInv)) EL E1 E3))
            ≤ ksErrBound N rb rs key.rankOut x aConv key sk (sk.map (σ gInv)) EL ∧
          (2 : Ks.R N) ^ (x.base2k * x.size + key.base2k * key.mat.size) * Ks.ι N (valP rb N (phase sk y))
            = (2 : Ks.R N) ^ (rb * rs + key.base2k * key.mat.size) * Ks.ι N (σ key.p (valP x.base2k N (phase sk x)))
              + Ks.ι N (σ key.p (ksErrOf N rb rs x aConv key (sk.map (σ gInv)) EL E1 E3))
              + (2 : Ks.R N) ^ (x.base2k * x.size + key.base2k * key.mat.size + rb * rs) * Q ∧
          ∃ E1c Q1c : Poly, E1c.length = N ∧ Q1c.length = N ∧
            normInf E1c ≤ (1 + snorm (min t.rank sk.length) sk) * C02.normTol (t.base2k * crossSize rb rs t.base2k) (rb * rs) ∧
            ∀ c, c < t.rank → ∃ cell, cells[r * (t.rank + 1) + (c + 1)]? = some cell ∧ cell.length = t.rank + 1 ∧
              (∀ col ∈ cell, ColWF N rs col) ∧ (∀ col ∈ cell, ∀ l ∈ col, ∀ v ∈ l, |v| ≤ 2 ^ rb - 1) ∧
              ∃ E3c Q3c : Poly, E3c.length = N ∧ Q3c.length = N ∧
                normInf E3c ≤ (1 + snorm (min t.rank sk.length) sk) * C02.normTol (rb * rs) (t.base2k * t.size) ∧
                (2 : Ks.R N) ^ (x.base2k * x.size + key.base2k * key.mat.size + t.base2k * t.size) *
                    Ks.ι N (valP rb N (phase sk (Ks.mkCt rb N cell)))
                  = (2 : Ks.R N) ^ (rb * rs + key.base2k * key.mat.size + t.base2k * t.size) *
                      (Ks.ι N (sk.getD c []) * Ks.ι N (σ key.p (valP x.base2k N (phase sk x))))
                    + ((2 : Ks.R N) ^ (t.base2k * t.size) *
                          (Ks.ι N (sk.getD c []) * Ks.ι N (σ key.p (ksErrOf N rb rs x aConv key (sk.map (σ gInv)) EL E1 E3)))
                      + (2 : Ks.R N) ^ (x.base2k * x.size + key.base2k * key.mat.size) *
                          ((2 : Ks.R N) ^ (t.base2k * (t.size - crossSize rb rs t.base2k)) * (Ks.ι N (sk.getD c []) * Ks.ι N E1c)
                            + (2 : Ks.R N) ^ (rb * rs) * expandErr N sk (maskOf t yc) t c ((2 : Ks.R N) ^ t.base2k) (ET c)
                            + Ks.ι N E3c))
                    + (2 : Ks.R N) ^ (x.base2k * x.size + key.base2k * key.mat.size + rb * rs + t.base2k * t.size) *
                        (Ks.ι N (sk.getD c []) * Q + Ks.ι N (sk.getD c []) * Ks.ι N Q1c + Ks.ι N Q3c) :=
  KsDec.ggsw_automorphism_decrypts_cross_adm N big128 rb rs rd rds ab ads aCol0 key t cells sk gInv EL KL ET Hin Dm Dt hN hg hskl hinv hrout hc0 hD hMk hSk hbk1 hbk hs hEL hKL hkey hd hn hS hrank hMt hb1 hb hrb1 hrb hne hkeyT hcov1 hcov2 hIn0 hIn hDm0 hm hadm hDt0 hmT hadmT hrows h

/-- the executed cross-radix `ggsw_keyswitch` (operand/result radix `2^3`, keys in radix `2^4`), both widths; the closed instance of
`ggsw_keyswitch_decrypts_cross` with every hypothesis discharged is in Lemmas/GgswCross.lean -/
example (big128 : Bool) : Ks.ggswKeyswitch big128 1 3 2 1 1 3 1 [KsDec.exGX3] KsDec.exGKs Ks.exT'
    = .ok [[[[3], [0]], [[1], [0]]], [[[0], [0]], [[-4], [0]]]] := by
  cases big128 <;> decide +kernel
example : KsDec.expandAdmissible false (KsDec.shapeT 16 4096 1 1 4 4) 4096 ((2 ^ 17 - 1) + 2 ^ 16) (2 ^ 15) ((2 ^ 17 - 1) + 2 ^ 16) := by
  decide
end GgswCrossSec

section PackJumpSec
open PackJump TraceJump AutoMul Hal C02L
variable {M : Type*} [AddCommGroup M]

/-- the integer wrap `2^{i}·m·w` produced at level `i` is mapped into `2^K·m·R` by whatever the remaining levels do (`trace_suffix`) -/
theorem pack_wrap_scale (K i : ℕ) (hi : i ≤ K) (m : ℤ) (w0 : Ks.R (2 ^ K)) : Wrap K i (2 ^ K * m) ((2 ^ i * m) • w0) :=
  PackJump.wrap_scale K i hi m w0

/-- the wrap invariant is closed under the merge operator `U_i(a,b) = (1+σ_i)a + X^{t_i}(1+σ_i)b`: `T_{i+1}∘(1+σ_i) = T_i`, and every later `σ_j` fixes `X^{t_i}` -/
theorem pack_wrap_merge (K i : ℕ) (hi : i < K) (Λ : ℤ) (wa wb : Ks.R (2 ^ K)) (ha : Wrap K i Λ wa) (hb : Wrap K i Λ wb) :
    Wrap K (i + 1) Λ (U K i wa wb) :=
  PackJump.wrap_U K i hi Λ wa wb ha hb

/-- one level of the slot invariant `(2^i c)•φ = c•A + ι Err + w` (`w` a wrap below level `i`) through an executed merge relation -/
theorem pack_step_compose (K i : ℕ) (hi : i < K) (c Q : ℤ) (g : ℤ) (hg : IsLvl (2 ^ K) g i)
    (pa pb pr Aa Ab wa wb w0 : Ks.R (2 ^ K)) (EaL EbL EL : Poly)
    (hEa : EaL.length = 2 ^ K) (hEb : EbL.length = 2 ^ K) (hE : EL.length = 2 ^ K)
    (ha : (2 ^ i * c) • pa = c • Aa + Ks.ι (2 ^ K) EaL + wa) (hwa : Wrap K i (2 ^ K * (c * Q)) wa)
    (hb : (2 ^ i * c) • pb = c • Ab + Ks.ι (2 ^ K) EbL + wb) (hwb : Wrap K i (2 ^ K * (c * Q)) wb)
    (hm : (2 * c) • pr = c • U K i pa pb + Ks.ι (2 ^ K) EL + (2 * c * Q) • w0) :
    ∃ (ErrL : Poly) (w : Ks.R (2 ^ K)), ErrL.length = 2 ^ K ∧
      normInf ErrL ≤ 2 * normInf EaL + 2 * normInf EbL + 2 ^ i * normInf EL ∧
      Wrap K (i + 1) (2 ^ K * (c * Q)) w ∧
      (2 ^ (i + 1) * c) • pr = c • U K i Aa Ab + Ks.ι (2 ^ K) ErrL + w :=
  PackJump.packStep_compose K i hi c Q g hg pa pb pr Aa Ab wa wb w0 EaL EbL EL hEa hEb hE ha hwa hb hwb hm

/-- the full trace of `ι a` is `2^K·a₀`: the constant coefficient -/
theorem trace_full_coeff0 (K : ℕ) (a : Poly) (ha : a.length = 2 ^ K) :
    traceOp (2 ^ K) (List.range' 0 K) (Ks.ι (2 ^ K) a) = (2 ^ K * a.getD 0 0 : ℤ) • (1 : Ks.R (2 ^ K)) :=
  PackJump.trace_full_coeff0 K a ha

/-- reading the ring relation of `glwe_pack_decrypts` coefficient by coefficient (ι is injective on length-`N` lists) -/
theorem pack_read_coeff (N G n : ℕ) (hN : 0 < N) (hG : 0 < G) (hn : n * G ≤ N) (c Λ₁ Q : ℤ) (hΛ : 0 < Λ₁ * c) (u : ℕ → ℤ)
    (P Err : Poly) (z : Ks.R N) (hP : P.length = N) (hErr : Err.length = N)
    (h : (Λ₁ * c) • Ks.ι N P
      = c • (∑ k ∈ Finset.range n, rt N ^ (k * G) * ((Λ₁ * u k : ℤ) • (1 : Ks.R N))) + Ks.ι N Err + (Λ₁ * c * Q) • z)
    (J : ℕ) (hJ : J < N) :
    ∃ e q : ℤ, P.getD J 0 = (if J % G = 0 ∧ J / G < n then u (J / G) else 0) + e + Q * q ∧ (Λ₁ * c) * |e| ≤ normInf Err :=
  PackJump.pack_read_coeff N G n hN hG hn c Λ₁ Q hΛ u P Err z hP hErr h J hJ

/-- `N = 4`: the full trace kills `X`, and maps `1` to `4` -/
example : TraceJump.traceOp (2 ^ 2) (List.range' 0 2) (TraceJump.rt (2 ^ 2) ^ 1) = 0 := PackJump.trace_full_mon 2 1 (by norm_num) (by norm_num)
example : TraceJump.traceOp (2 ^ 2) (List.range' 0 2) (1 : Ks.R (2 ^ 2)) = 2 ^ 2 • (1 : Ks.R (2 ^ 2)) := PackJump.trace_full_one 2
end PackJumpSec

section PackExecSec
open KsDec Hal Core Core.Ops C02L AutoMul TraceJump PackJump
variable {M : Type*} [AddCommGroup M]

/-- **one EXECUTED merge (`pack_internal` / `combine`), three code paths**: `(2c)•φ(r) = c•U_i(φ_a, φ_b) + ι Err + (2c·2^M)•w`, `‖Err‖_∞ ≤ mergeBeta = c·4(1+‖sk‖₁) + 2·BA_i`; per-operation relations instantiated from C02 (`rotate`, `add`, `sub`, `rsh_phase`, `normalize_assign_phase`) and `glwe_automorphism(_add/_sub_negate)_decrypts`; the result is again well formed with bounded digits -/
theorem merge_level_decrypts (big128 : Bool) (K i : ℕ) (hi : i < K) (b S rk : ℕ) (hb62 : b ≤ 62) (H : ℤ) (hH : 2 ^ b - 1 ≤ H)
    (hh2 : NormL.HeadRoom 64 b 0 (H + H)) (key : Ks.Key) (sk : List Poly) (gInv : Int) (EL KL : ℕ → ℕ → Poly) (Dm BA : Int)
    (hBA : 0 ≤ BA) (hsk : Ks.AllLen (2 ^ K) sk) (hg : IsLvl (2 ^ K) key.p i)
    (hk : MergeKeyOk big128 (2 ^ K) b S rk sk key gInv EL KL Dm BA)
    (a bo : Option Ks.Ct) (sh : Ks.Ct) (ha : OptInv (2 ^ K) b S rk H a) (hb : OptInv (2 ^ K) b S rk H bo)
    (hsh : a = none → bo.isSome → TraceInv (2 ^ K) b S rk H sh)
    (r : Option Ks.Ct) (h : Ks.mergeStep big128 (2 ^ K) i key a bo sh = .ok r) :
    OptInv (2 ^ K) b S rk H r ∧ r.isSome = (a.isSome || bo.isSome) ∧
      ∃ (ErrL : Poly) (w0 : Ks.R (2 ^ K)), ErrL.length = 2 ^ K ∧ normInf ErrL ≤ mergeBeta b S key.mat.size rk sk BA ∧
        (2 * cc b S key.mat.size) • ov K b sk r
          = cc b S key.mat.size • U K i (ov K b sk a) (ov K b sk bo) + Ks.ι (2 ^ K) ErrL
            + (2 * cc b S key.mat.size * 2 ^ (b * S)) • w0 :=
  KsDec.merge_level_decrypts big128 K i hi b S rk hb62 H hH hh2 key sk gInv EL KL Dm BA hBA hsk hg hk a bo sh ha hb hsh r h

/-- the executed level loop keeps the slot invariant (induction over `packLevel`/`packLevels` and the `SlotMap`) -/
theorem pack_levels_inv (big128 : Bool) (K : ℕ) (hK : K + 1 ≤ 64) (keys : List Ks.Key) (sk : List Poly) (b S Sk rk : ℕ) (hb62 : b ≤ 62)
    (H : ℤ) (hH : 2 ^ b - 1 ≤ H) (hh2 : NormL.HeadRoom 64 b 0 (H + H)) (BA : ℕ → ℤ) (hBA : ∀ i, 0 ≤ BA i)
    (hsk : Ks.AllLen (2 ^ K) sk) (hkeys : PackKeys big128 K b S Sk rk sk keys BA)
    (L : ℕ) (hL : L ≤ K) (m m' : Ks.SlotMap) (hm : ∀ j, OptInv (2 ^ K) b S rk H (m.get j)) (hm2 : ∀ j, 2 ^ K ≤ j → m.get j = none)
    (h : Ks.packLevels big128 (2 ^ K) keys (List.range L) m = .ok m') :
    (∀ j, j < 2 ^ (K - L) → SlotInv K L (cc b S Sk) (2 ^ (b * S)) b sk (packVal K (fun j => ov K b sk (m.get j)) L j)
      (errB (fun i => mergeBeta b S Sk rk sk (BA i)) L) (m'.get j)) ∧
    (∀ j, 2 ^ (K - L) ≤ j → m'.get j = none) ∧ (∀ j, OptInv (2 ^ K) b S rk H (m'.get j)) :=
  KsDec.packLevels_inv big128 K hK keys sk b S Sk rk hb62 H hH hh2 BA hBA hsk hkeys L hL m m' hm hm2 h

/-- **`glwe_pack_decrypts`** — the executed `glwe_pack`, every subset of slots, ring form: `(2^K c)•φ(res) = c•Σ_k X^{kG}·2^K·u_{kG} + ι Err + (2^K c 2^M)•z` -/
theorem glwe_pack_decrypts (big128 : Bool) (K : ℕ) (hK : K + 1 ≤ 64) (keys : List Ks.Key) (sk : List Poly) (b S Sk rk : ℕ) (hb62 : b ≤ 62)
    (H : ℤ) (hH : 2 ^ b - 1 ≤ H) (hh2 : NormL.HeadRoom 64 b 0 (H + H)) (BA : ℕ → ℤ) (hBA : ∀ i, 0 ≤ BA i)
    (hsk : Ks.AllLen (2 ^ K) sk) (hkeys : PackKeys big128 K b S Sk rk sk keys BA)
    (a : Ks.SlotMap) (logGapOut : ℕ) (res : Ks.Ct) (ha : ∀ j, OptInv (2 ^ K) b S rk H (a.get j))
    (h : Ks.pack big128 (2 ^ K) b keys b S a logGapOut = .ok res) :
    TraceInv (2 ^ K) b S rk H res ∧
    ∃ (ErrL : Poly) (z : Ks.R (2 ^ K)), ErrL.length = 2 ^ K ∧ normInf ErrL ≤ packBound K (K - logGapOut) b S Sk rk sk BA ∧
      (2 ^ K * cc b S Sk) • Ks.ι (2 ^ K) (valP b (2 ^ K) (phase sk res))
        = cc b S Sk • (∑ k ∈ Finset.range (2 ^ (K - logGapOut)), rt (2 ^ K) ^ (k * 2 ^ (K - (K - logGapOut))) *
            ((2 ^ K * slotU b (2 ^ K) sk a (k * 2 ^ (K - (K - logGapOut))) : ℤ) • (1 : Ks.R (2 ^ K))))
          + Ks.ι (2 ^ K) ErrL + (2 ^ K * cc b S Sk * 2 ^ (b * S)) • z :=
  KsDec.glwe_pack_decrypts big128 K hK keys sk b S Sk rk hb62 H hH hh2 BA hBA hsk hkeys a logGapOut res ha h

/-- **coefficient form** (the `PackCoeffContract` of slice bin-fhe): coefficient `J` of the phase of the executed result is `u_J` (constant coefficient of slot `J`'s phase; `0` if the slot is absent or `J ∉ G·ℕ`) `+ e + 2^M q` -/
theorem glwe_pack_decrypts_coeff (big128 : Bool) (K : ℕ) (hK : K + 1 ≤ 64) (keys : List Ks.Key) (sk : List Poly) (b S Sk rk : ℕ)
    (hb62 : b ≤ 62) (H : ℤ) (hH : 2 ^ b - 1 ≤ H) (hh2 : NormL.HeadRoom 64 b 0 (H + H)) (BA : ℕ → ℤ) (hBA : ∀ i, 0 ≤ BA i)
    (hsk : Ks.AllLen (2 ^ K) sk) (hkeys : PackKeys big128 K b S Sk rk sk keys BA)
    (a : Ks.SlotMap) (logGapOut : ℕ) (res : Ks.Ct) (ha : ∀ j, OptInv (2 ^ K) b S rk H (a.get j))
    (h : Ks.pack big128 (2 ^ K) b keys b S a logGapOut = .ok res) (J : ℕ) (hJ : J < 2 ^ K) :
    ∃ e q : ℤ, (valP b (2 ^ K) (phase sk res)).getD J 0
        = (if J % 2 ^ (K - (K - logGapOut)) = 0 then slotU b (2 ^ K) sk a J else 0) + e + 2 ^ (b * S) * q ∧
      (2 ^ K * cc b S Sk) * |e| ≤ packBound K (K - logGapOut) b S Sk rk sk BA :=
  KsDec.glwe_pack_decrypts_coeff big128 K hK keys sk b S Sk rk hb62 H hH hh2 BA hBA hsk hkeys a logGapOut res ha h J hJ

/-- **with the normalised noise bound**: `2c·|e| ≤ Σ_{i<L} 2^{L−1−i}·(c·4(1+‖sk‖₁) + 2 BA_i) + 2·Σ_{trace levels}(c·2(1+‖sk‖₁) + BA_i)` — per merge two `rsh` units and the automorphism noise of the level's key, in terms of the key errors through `BA_i` -/
theorem glwe_pack_decrypts_noise (big128 : Bool) (K : ℕ) (hK : K + 1 ≤ 64) (keys : List Ks.Key) (sk : List Poly) (b S Sk rk : ℕ)
    (hb62 : b ≤ 62) (H : ℤ) (hH : 2 ^ b - 1 ≤ H) (hh2 : NormL.HeadRoom 64 b 0 (H + H)) (BA : ℕ → ℤ) (hBA : ∀ i, 0 ≤ BA i)
    (hsk : Ks.AllLen (2 ^ K) sk) (hkeys : PackKeys big128 K b S Sk rk sk keys BA)
    (a : Ks.SlotMap) (logGapOut : ℕ) (res : Ks.Ct) (ha : ∀ j, OptInv (2 ^ K) b S rk H (a.get j))
    (h : Ks.pack big128 (2 ^ K) b keys b S a logGapOut = .ok res) (J : ℕ) (hJ : J < 2 ^ K) :
    ∃ e q : ℤ, (valP b (2 ^ K) (phase sk res)).getD J 0
        = (if J % 2 ^ (K - (K - logGapOut)) = 0 then slotU b (2 ^ K) sk a J else 0) + e + 2 ^ (b * S) * q ∧
      (2 * cc b S Sk) * |e| ≤ ∑ i ∈ Finset.range (K - logGapOut), 2 ^ (K - logGapOut - 1 - i) * mergeBeta b S Sk rk sk (BA i)
          + 2 * ∑ t ∈ Finset.range (K - (K - logGapOut)),
              (cc b S Sk * (2 * (1 + snorm (min rk sk.length) sk)) + BA (K - logGapOut + t)) :=
  KsDec.glwe_pack_decrypts_noise big128 K hK keys sk b S Sk rk hb62 H hH hh2 BA hBA hsk hkeys a logGapOut res ha h J hJ

/-- one executed `combine` of the streaming `GLWEPacker` satisfies the merge relation -/
theorem combine_decrypts (big128 : Bool) (K : ℕ) (hK : K + 1 ≤ 64) (keys : List Ks.Key) (sk : List Poly) (b S Sk rk : ℕ) (hb62 : b ≤ 62)
    (H : ℤ) (hH : 2 ^ b - 1 ≤ H) (hh2 : NormL.HeadRoom 64 b 0 (H + H)) (BA : ℕ → ℤ) (hBA : ∀ i, 0 ≤ BA i)
    (hsk : Ks.AllLen (2 ^ K) sk) (hkeys : PackKeys big128 K b S Sk rk sk keys BA)
    (i : ℕ) (hi : i < K) (acc acc1 : Ks.Acc) (bo : Option Ks.Ct) (hacc : TraceInv (2 ^ K) b S rk H acc.data)
    (hb : OptInv (2 ^ K) b S rk H bo) (h : Ks.combine big128 (2 ^ K) keys acc bo i = .ok acc1) :
    TraceInv (2 ^ K) b S rk H acc1.data ∧ acc1.value = (acc.value || bo.isSome) ∧ acc1.control = acc.control ∧
      ∃ (ErrL : Poly) (w0 : Ks.R (2 ^ K)), ErrL.length = 2 ^ K ∧ normInf ErrL ≤ mergeBeta b S Sk rk sk (BA i) ∧
        (2 * cc b S Sk) • ov K b sk (accO acc1)
          = cc b S Sk • U K i (ov K b sk (accO acc)) (ov K b sk bo) + Ks.ι (2 ^ K) ErrL + (2 * cc b S Sk * 2 ^ (b * S)) • w0 :=
  KsDec.combine_decrypts big128 K hK keys sk b S Sk rk hb62 H hH hh2 BA hBA hsk hkeys i hi acc acc1 bo hacc hb h

/-- the executed `glwe_pack` of two slots on `N = 2` (one merge, genuine key for `g = −1`), both accumulator widths; the phases: `u_0 = 44`,
`u_1 = 31`, packed result `[48, 31]` -/
example (big128 : Bool) : Ks.pack big128 (2 ^ 1) 4 [KsDec.trKey] 4 2 [(0, KsDec.trCt), (1, KsDec.pkB)] 0 = .ok KsDec.pkOut := KsDec.pkRun big128
example : KsDec.slotU 4 (2 ^ 1) KsDec.trSk [(0, KsDec.trCt), (1, KsDec.pkB)] 0 = 44 ∧
    KsDec.slotU 4 (2 ^ 1) KsDec.trSk [(0, KsDec.trCt), (1, KsDec.pkB)] 1 = 31 ∧
    C02L.valP 4 (2 ^ 1) (Core.Ops.phase KsDec.trSk KsDec.pkOut) = [48, 31] := by decide +kernel
end PackExecSec

section PackInstanceSec
open KsDec Hal Core Core.Ops C02L AutoMul TraceJump PackJump
variable {M : Type*} [AddCommGroup M]

/-- `MergeKeyOk` (both noise fields) for `dsize = 1` keys with the closed numeric bound `traceBA` -/
theorem merge_key_ok_of_d1 {big128 : Bool} {N b S rk : Nat} {sk : List Poly} {key : Ks.Key} {gInv : Int} {EL KL : ℕ → ℕ → Poly}
    {Dm Emax : Int} (h : TraceKeyD1 big128 N b S rk sk key gInv EL KL Dm Emax) (sn : ℤ)
    (h1 : 1 + snorm (min rk sk.length) sk ≤ sn)
    (h2 : 1 + snorm (min rk (sk.map (σ gInv)).length) (sk.map (σ gInv)) ≤ sn) :
    MergeKeyOk big128 N b S rk sk key gInv EL KL Dm (traceBA N b S key.mat.size key.mat.colsIn key.mat.rows sn Emax) :=
  KsDec.mergeKeyOk_of_d1 h sn h1 h2

/-- **the `PackCoeffContract` of slice bin-fhe (`WordMachine.pack_spec`: `|slot (pack cs) i − c0 (ph (cs i))| ≤ Bp`) for the EXECUTED `glwe_pack`**: `slot = slotRead` (coefficient `J` of the phase, centred mod `2^M`), `c0 ∘ ph = slotU`, `Bp` any integer with `2c·Bp ≥` the noise sum of `glwe_pack_decrypts_noise`, no wrap (`|u_J| + Bp < 2^(M−1)`) -/
theorem glwe_pack_slot_contract (big128 : Bool) (K : ℕ) (hK : K + 1 ≤ 64) (keys : List Ks.Key) (sk : List Poly) (b S Sk rk : ℕ)
    (hb62 : b ≤ 62) (H : ℤ) (hH : 2 ^ b - 1 ≤ H) (hh2 : NormL.HeadRoom 64 b 0 (H + H)) (BA : ℕ → ℤ) (hBA : ∀ i, 0 ≤ BA i)
    (hsk : Ks.AllLen (2 ^ K) sk) (hkeys : PackKeys big128 K b S Sk rk sk keys BA)
    (a : Ks.SlotMap) (logGapOut : ℕ) (res : Ks.Ct) (ha : ∀ j, OptInv (2 ^ K) b S rk H (a.get j))
    (h : Ks.pack big128 (2 ^ K) b keys b S a logGapOut = .ok res) (Bp : ℤ) (hM : 1 ≤ b * S)
    (hBp : ∑ i ∈ Finset.range (K - logGapOut), 2 ^ (K - logGapOut - 1 - i) * mergeBeta b S Sk rk sk (BA i)
          + 2 * ∑ t ∈ Finset.range (K - (K - logGapOut)),
              (cc b S Sk * (2 * (1 + snorm (min rk sk.length) sk)) + BA (K - logGapOut + t)) ≤ (2 * cc b S Sk) * Bp)
    (J : ℕ) (hJ : J < 2 ^ K)
    (hfit : |(if J % 2 ^ (K - (K - logGapOut)) = 0 then slotU b (2 ^ K) sk a J else 0)| + Bp < 2 ^ (b * S - 1)) :
    |slotRead b S (2 ^ K) sk res J - (if J % 2 ^ (K - (K - logGapOut)) = 0 then slotU b (2 ^ K) sk a J else 0)| ≤ Bp :=
  KsDec.glwe_pack_slot_contract big128 K hK keys sk b S Sk rk hb62 H hH hh2 BA hBA hsk hkeys a logGapOut res ha h Bp hM hBp J hJ hfit

/-- **closed instance**: `N = 2`, both slots present, ONE EXECUTED merge with a genuine key for `g = −1`, both accumulator widths, every hypothesis discharged: `|e| ≤ 38` (executed: `4` and `0`) -/
theorem pack_one_merge_closed_instance (big128 : Bool) (J : ℕ) (hJ : J < 2 ^ 1) :
    Ks.pack big128 (2 ^ 1) 4 [trKey] 4 2 [(0, trCt), (1, pkB)] 0 = .ok pkOut ∧
    ∃ e q : ℤ, (valP 4 (2 ^ 1) (phase trSk pkOut)).getD J 0 = slotU 4 (2 ^ 1) trSk [(0, trCt), (1, pkB)] J + e + 2 ^ (4 * 2) * q ∧
      |e| ≤ 38 :=
  KsDec.pack_closed_instance big128 J hJ

/-- the key of the closed instance satisfies `MergeKeyOk` with `BA = 2^16·32`, both widths -/
example (big128 : Bool) : KsDec.MergeKeyOk big128 (2 ^ 1) 4 2 1 KsDec.trSk KsDec.trKey (-1) KsDec.trEL (fun _ _ => [0, 0]) 2 (2 ^ 16 * 32) :=
  KsDec.trKey_merge big128
example (J : ℕ) (hJ : J < 2 ^ 1) :
    |KsDec.slotRead 4 2 (2 ^ 1) KsDec.trSk KsDec.pkOut J - KsDec.slotU 4 (2 ^ 1) KsDec.trSk [(0, KsDec.trCt), (1, KsDec.pkB)] J| ≤ 38 := by
  have hJ' : J = 0 ∨ J = 1 := by omega
  rcases hJ' with rfl | rfl <;> decide +kernel
end PackInstanceSec

end C03
