import Poulpy.Model.Core.Ks
import Poulpy.Lemmas.GadgetAlg

namespace C03
end C03
