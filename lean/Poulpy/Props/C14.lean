import Poulpy.Lemmas.Lut
import Poulpy.Lemmas.LutBlind
import Poulpy.Lemmas.LutCol
import Poulpy.Lemmas.NoiseAlg
import Poulpy.Model.NoiseBounds
/-
C14 — blind rotation evaluates the lookup table at the encrypted index.

All objects are those of `Poulpy/Model/Lut.lean` (executed by the model driver): `rotate`,
`lutSet`, `lutRotate`, `modSwitch2n`, `setXaiPlusY`, `blindPlain`, `blindExt`; `sext`, `enc`,
`tableF`, `InRange` are specification vocabulary defined in `Lemmas/Lut.lean`.
-/

namespace C14
open Lut

/-- **rotate_spec.** `znx_rotate(p, ·)` shifts the signed 2n-periodic extension of the coefficient
list by `p`, for every integer `p`, every coefficient index `m ∈ ℤ` (so: coefficient `j` of
`X^p·a` is `± a[(j-p) mod n]`, minus exactly when `(j-p) mod 2n ≥ n`). -/
theorem rotate_spec (p : Int) (a : List Vec) (hn : 0 < a.length) (hr : InRange a) (m : Int) :
    sext (rotate p a) m = sext a (m - p) :=
  sext_rotate p a hn (fun v hv => negV_negV v (hr v hv)) m

example : rotate 5 [[1], [2], [3], [4]] = [[4], [-1], [-2], [-3]] ∧ sext [[1], [2], [3], [4]] (-5) = [4] := by decide

/-- rotations compose (`X^p · X^q = X^{p+q}`) -/
theorem rotate_add (p q : Int) (a : List Vec) (hr : InRange a) : rotate p (rotate q a) = rotate (p + q) a :=
  rotate_rotate p q a hr

example : rotate 3 (rotate (-7) [[1, 9], [2, 8], [3, 7]]) = rotate (-4) [[1, 9], [2, 8], [3, 7]] := by decide

/-- **lut_eval (single polynomial, `extension_factor = 1`).**
For every table `f` whose length divides `N` (`N = len·step`), every radix `1 ≤ b ≤ 64`, every
admissible precision `k` (`1 ≤ ⌈k/b⌉ ≤ size`, no overflow of `f·scale`): `lookup_table_set` succeeds
with `drift = step/2`, and after one further clear rotation by any `kk ∈ [-2N, 2N]`
(`Left`: `kk = -t`; `Right`: `kk = +t`) the constant coefficient of the table is, on every limb,

    ± enc(f[⌊u / step⌋ mod len] · scale),   u = (drift − kk) mod 2N,   minus exactly when u ≥ N,

`enc` = the normalised limb vector holding the value in limb `⌈k/b⌉−1` (scaled to the top limbs),
`scale = 2^{b − k mod b}` (1 if `b ∣ k`).  In particular `kk = −t` gives `f[⌊(t + drift)/step⌋ mod len]`. -/
theorem lut_eval (n b kLut k step : Nat) (f : List Int) (hn : 0 < n) (hn2 : 2 * (n : Int) < 2 ^ 62) (hb : 1 ≤ b)
    (hb2 : b ≤ 64) (hlen : 1 ≤ f.length) (hdiv : n = f.length * step)
    (hbits : maxBitSize f + k % b < 64) (hl1 : 1 ≤ (k + b - 1) / b) (hl2 : (k + b - 1) / b ≤ (kLut + b - 1) / b)
    (kk : Int) (hk1 : -(2 * (n : Int)) ≤ kk) (hk2 : kk ≤ 2 * (n : Int)) :
    ∃ T p0, lutSet n 1 b kLut f k = .ok T ∧ T.drift = step / 2 ∧ lutRotate n kk T.data = [p0] ∧
      p0[0]? =
        (let u := ((((step / 2 : Nat) : Int) - kk) % (2 * (n : Int))).toNat
         (f[(u % n) / step]?).map fun fi =>
           let v := enc b ((kLut + b - 1) / b) ((k + b - 1) / b) (w64 (fi * (if k % b ≠ 0 then 2 ^ (b - k % b) else 1)))
           if u < n then v else negV v) := by
  have hset := lutSet_ext1 n b kLut k step f hn hn2 hb hlen hdiv hbits hl1 hl2
  have hstep : 0 < step := by
    rcases Nat.eq_zero_or_pos step with h | h
    · subst h; omega
    · exact h
  let F := tableF b ((kLut + b - 1) / b) ((k + b - 1) / b) step (if k % b ≠ 0 then 2 ^ (b - k % b) else 1) f
  have hFlen : F.length = n := by rw [tableF_length, hdiv]
  have hFr : InRange F := tableF_inRange _ _ _ _ _ f hb hb2
  refine ⟨_, rotate kk (rotate (-((step / 2 : Nat) : Int)) F), hset, rfl, ?_, ?_⟩
  · exact lutRotate_ext1 n kk _ (by rw [rotate_length]; exact hFlen) hn hn2 hk1 (by omega)
  · rw [coeff0_rotate_rotate F hFr n hFlen hn]
    have hM : (0 : Int) < 2 * (n : Int) := by omega
    have h0 := Int.emod_nonneg (((step / 2 : Nat) : Int) - kk) (ne_of_gt hM)
    have h1 := Int.emod_lt_of_pos (((step / 2 : Nat) : Int) - kk) hM
    unfold sext
    simp only [hFlen]
    generalize hu : ((((step / 2 : Nat) : Int) - kk) % (2 * (n : Int))).toNat = u
    have hu2 : u < 2 * n := by omega
    by_cases hlt : u < n
    · have hmod : u % n = u := Nat.mod_eq_of_lt hlt
      rw [if_pos hlt, hmod, tableF_get _ _ _ _ _ f hstep u (by rw [← hdiv]; exact hlt)]
      have hidx : u / step < f.length := Nat.div_lt_of_lt_mul (by rw [Nat.mul_comm, ← hdiv]; exact hlt)
      rw [List.getElem?_eq_getElem hidx]
      simp
      intro h; omega
    · have hmod : u % n = u - n := by
        have : u = (u - n) + n := by omega
        conv => lhs; rw [this]
        rw [Nat.add_mod_right]; exact Nat.mod_eq_of_lt (by omega)
      rw [if_neg hlt, hmod, tableF_get _ _ _ _ _ f hstep (u - n) (by rw [← hdiv]; omega)]
      have hidx : (u - n) / step < f.length := Nat.div_lt_of_lt_mul (by rw [Nat.mul_comm, ← hdiv]; omega)
      rw [List.getElem?_eq_getElem hidx]
      simp
      intro h; omega

/-- non-vacuity of `lut_eval`: N = 8, radix 5, k = 3 (scale 4), table of 4 entries (step 2, drift 1);
rotation by `kk = -3` (`Left`, t = 3): u = 4, entry f[2] = 3, value 12 in limb 0. -/
example : ∃ T p0, lutSet 8 1 5 10 [1, 2, 3, -4] 3 = .ok T ∧ T.drift = 1 ∧ lutRotate 8 (-3) T.data = [p0] ∧
    p0[0]? = some [12, 0] := by
  obtain ⟨T, p0, h1, h2, h3, h4⟩ := lut_eval 8 5 10 3 2 [1, 2, 3, -4] (by decide) (by decide) (by decide) (by decide)
    (by decide) (by decide) (by decide) (by decide) (by decide) (-3) (by decide) (by decide)
  exact ⟨T, p0, h1, h2, h3, by rw [h4]; decide⟩

/-- the wrap-around sign: t = 7 reads `-f[0]` -/
example : ∃ T p0, lutSet 8 1 5 10 [1, 2, 3, -4] 3 = .ok T ∧ lutRotate 8 (-7) T.data = [p0] ∧ p0[0]? = some [-4, 0] := by
  obtain ⟨T, p0, h1, _, h3, h4⟩ := lut_eval 8 5 10 3 2 [1, 2, 3, -4] (by decide) (by decide) (by decide) (by decide)
    (by decide) (by decide) (by decide) (by decide) (by decide) (-7) (by decide) (by decide)
  exact ⟨T, p0, h1, h3, by rw [h4]; decide⟩

/-- the interleaving lemma: `lookup_table_rotate(k)` on the `ext` polynomials of a table is multiplication by
`Y^k` of the degree-`N·ext` polynomial `P(Y)` with `P[x·ext + i] = data[i][x]` -/
theorem lut_rotate_interleave (n : Nat) (k : Int) (L : List (List Vec)) (he : 0 < L.length) (hn : 0 < n)
    (hlen : ∀ p ∈ L, p.length = n) (hr : ∀ p ∈ L, InRange p)
    (hd2 : 2 * ((n * L.length : Nat) : Int) < 2 ^ 62) (hk1 : -(2 * ((n * L.length : Nat) : Int)) ≤ k)
    (hk2 : k + 2 * ((n * L.length : Nat) : Int) < 2 ^ 63) :
    interleave n (lutRotate n k L) = rotate k (interleave n L) :=
  lutRotate_interleave n k L he hn hlen hr hd2 hk1 hk2

example : interleave 2 (lutRotate 2 3 [[[1], [2]], [[3], [4]]]) = rotate 3 [[1], [3], [2], [4]] := by decide

set_option maxHeartbeats 400000 in
/-- **lut_eval (extended tables, `extension_factor = ext > 1`, a power of two).**  Same statement as `lut_eval`
over the extended domain `N·ext = len·step` (table length `len ≤ N`): `lookup_table_set` succeeds with
`drift = step/2` and, after one further clear rotation by any `kk ∈ [-2·N·ext, 2·N·ext]`, coefficient 0 of
polynomial 0 — what the extended blind rotation returns — is `± enc(f[⌊u/step⌋]·scale)`,
`u = (drift − kk) mod 2·N·ext`, minus exactly when `u ≥ N·ext`. -/
theorem lut_eval_ext (n ext b kLut k step : Nat) (f : List Int) (hpow : isPow2 ext = true) (hext : 1 < ext) (hn : 0 < n)
    (hn2 : 2 * ((n * ext : Nat) : Int) < 2 ^ 62) (hb : 1 ≤ b) (hb2 : b ≤ 64) (hlen : 1 ≤ f.length) (hfn : f.length ≤ n)
    (hdiv : n * ext = f.length * step)
    (hbits : maxBitSize f + k % b < 64) (hl1 : 1 ≤ (k + b - 1) / b) (hl2 : (k + b - 1) / b ≤ (kLut + b - 1) / b)
    (kk : Int) (hk1 : -(2 * ((n * ext : Nat) : Int)) ≤ kk) (hk2 : kk ≤ 2 * ((n * ext : Nat) : Int)) :
    ∃ T p0, lutSet n ext b kLut f k = .ok T ∧ T.drift = step / 2 ∧ (lutRotate n kk T.data)[0]? = some p0 ∧
      p0[0]? =
        (let u := ((((step / 2 : Nat) : Int) - kk) % (2 * ((n * ext : Nat) : Int))).toNat
         (f[(u % (n * ext)) / step]?).map fun fi =>
           let v := enc b ((kLut + b - 1) / b) ((k + b - 1) / b) (w64 (fi * (if k % b ≠ 0 then 2 ^ (b - k % b) else 1)))
           if u < n * ext then v else negV v) := by
  have hset := lutSet_extN n ext b kLut k step f hpow hext hb hlen hfn hdiv hbits hl1 hl2
  have hstep : 0 < step := by
    rcases Nat.eq_zero_or_pos step with h | h
    · subst h; have : 0 < n * ext := Nat.mul_pos hn (by omega); omega
    · exact h
  have hsd : step ≤ n * ext := by rw [hdiv]; exact Nat.le_mul_of_pos_left step (by omega)
  generalize hsz : (kLut + b - 1) / b = size at *
  generalize hlm : (k + b - 1) / b = limbs at *
  generalize hsc : (if k % b ≠ 0 then (2:Int) ^ (b - k % b) else 1) = scale at *
  set F := lutFullOf size limbs step scale f with hFdef
  have hFlen : F.length = n * ext := by rw [lutFullOf_length, hdiv]
  have hFr : InRange F := lutFullOf_inRange _ _ _ _ _
  set D1 : List (List Vec) := (List.range ext).map fun i =>
      (switchDown ext n ((List.range i).foldl (fun p _ => rotate (-1) p) F)).map (normVec b) with hD1
  have hD1len : D1.length = ext := by simp [hD1]
  have hD1n : ∀ p ∈ D1, p.length = n := by
    intro p hp
    simp only [hD1, List.mem_map, List.mem_range] at hp
    obtain ⟨i, _, rfl⟩ := hp
    rw [List.length_map, switchDown_length n ext (by omega) _ (by rw [iterRotate F hFr, rotate_length, hFlen])]
  have hD1r : ∀ p ∈ D1, InRange p := by
    intro p hp
    simp only [hD1, List.mem_map, List.mem_range] at hp
    obtain ⟨i, _, rfl⟩ := hp
    intro v hv
    obtain ⟨w, _, rfl⟩ := List.mem_map.1 hv
    exact normVec_range b hb hb2 w
  set F' := tableF b size limbs step scale f with hF'
  have hF'len : F'.length = n * ext := by rw [tableF_length, hdiv]
  have hF'r : InRange F' := tableF_inRange _ _ _ _ _ f hb hb2
  have hI1 : interleave n D1 = F' := by
    rw [hD1, interleave_split n ext (by omega) F hFr hFlen (normVec b), hFdef, lutFullOf_norm]
  -- first rotation (inside `lookup_table_set`)
  set D2 := lutRotate n (-((step / 2 : Nat) : Int)) D1 with hD2
  have hb1' : 2 * ((n * D1.length : Nat) : Int) < 2 ^ 62 := by rw [hD1len]; exact hn2
  have hI2 : interleave n D2 = rotate (-((step / 2 : Nat) : Int)) F' := by
    rw [hD2, lutRotate_interleave n _ D1 (by omega) hn hD1n hD1r hb1' (by rw [hD1len]; omega) (by rw [hD1len]; omega), hI1]
  have hD2len : D2.length = ext := by rw [hD2, lutRotate_length _ _ _ (by omega), hD1len]
  have hD2n : ∀ p ∈ D2, p.length = n := by
    intro p hp
    obtain ⟨r, q, hq, rfl⟩ := lutRotate_mem _ _ _ _ hp
    rw [rotate_length]; exact hD1n q hq
  have hD2r : ∀ p ∈ D2, InRange p := by
    intro p hp
    obtain ⟨r, q, hq, rfl⟩ := lutRotate_mem _ _ _ _ hp
    exact rotate_inRange _ _ (hD1r q hq)
  -- second rotation
  set D3 := lutRotate n kk D2 with hD3
  have hb2' : 2 * ((n * D2.length : Nat) : Int) < 2 ^ 62 := by rw [hD2len]; exact hn2
  have hI3 : interleave n D3 = rotate kk (rotate (-((step / 2 : Nat) : Int)) F') := by
    rw [hD3, lutRotate_interleave n kk D2 (by omega) hn hD2n hD2r hb2' (by rw [hD2len]; exact hk1) (by rw [hD2len]; omega), hI2]
  have hD3len : D3.length = ext := by rw [hD3, lutRotate_length _ _ _ (by omega), hD2len]
  have h0 : 0 < D3.length := by omega
  have hp0n : (D3[0]'h0).length = n := by
    obtain ⟨r, q, hq, he⟩ := lutRotate_mem _ _ _ _ (List.getElem_mem h0)
    rw [he, rotate_length]; exact hD2n q hq
  refine ⟨_, D3[0]'h0, hset, rfl, List.getElem?_eq_getElem h0, ?_⟩
  have hget := interleave_get n D3 0 0 hn h0
  simp only [Nat.zero_mul, Nat.add_zero, List.getElem?_eq_getElem h0, Option.getD_some] at hget
  rw [List.getElem?_eq_getElem (show 0 < (D3[0]'h0).length by omega)] at hget ⊢
  simp only [Option.getD_some] at hget
  rw [← hget, hI3, coeff0_rotate_rotate F' hF'r (n * ext) hF'len (Nat.mul_pos hn (by omega))]
  have := sext_tableF b size limbs step scale f hstep hlen (((step / 2 : Nat) : Int) - kk)
  rw [this]
  simp only [← hdiv]


/-- non-vacuity: N = 8, ext = 2 (domain 16), 4 entries (step 4, drift 2), `kk = -9`: u = 11, entry f[2] = 3 scaled by 8 -/
example : ∃ T p0, lutSet 8 2 5 10 [1, 2, 3, -4] 7 = .ok T ∧ (lutRotate 8 (-9) T.data)[0]? = some p0 ∧
    p0[0]? = some (enc 5 2 2 24) := by
  obtain ⟨T, p0, h1, _, h3, h4⟩ := lut_eval_ext 8 2 5 10 7 4 [1, 2, 3, -4] (by decide) (by decide) (by decide) (by decide)
    (by decide) (by decide) (by decide) (by decide) (by decide) (by decide) (by decide) (by decide) (-9) (by decide) (by decide)
  exact ⟨T, p0, h1, h3, by rw [h4]; decide⟩

/-- `lookup_table_rotate` is total on `i64`: far below `-2N·ext` and at the `i64` limits the model (which
the exhaustive tie shows equal to the code) still rotates by `k mod 2N·ext` — the `k_pos` wrap is
harmless because `2N·ext` divides `2^64`.  Instances (N = 8, ext = 2 and 1). -/
theorem lutRotate_far_instances :
    lutRotate 2 (-35) [[[1], [2]], [[3], [4]]] = lutRotate 2 (-3) [[[1], [2]], [[3], [4]]] ∧
    lutRotate 2 (-(2 ^ 63)) [[[1], [2]], [[3], [4]]] = lutRotate 2 0 [[[1], [2]], [[3], [4]]] ∧
    lutRotate 2 (2 ^ 63 - 1) [[[1], [2]], [[3], [4]]] = lutRotate 2 (-1) [[[1], [2]], [[3], [4]]] ∧
    lutRotate 4 (-1000001) [[[1], [2], [3], [4]]] = lutRotate 4 (-1) [[[1], [2], [3], [4]]] := by decide

/-- **mod_switch_2n, radix above the index width (`base2k > log2(n)`).**  For `n = 2^m` (the extended
domain `2·N·ext`), a radix `b > m` and top-limb digits that do not overflow the rounding addition:
the index width is `bits = log2n − 1 = m` and every output is `⌊(±x + 2^{b-m-1}) / 2^{b-m}⌋`, i.e.
`±x·n/2^b` rounded half up — only the first limb is read. -/
theorem mod_switch_2n_top (m b : Nat) (hm : 1 ≤ m) (hb : m < b) (l0 : List Int) (rest : List (List Int))
    (left : Bool) (hx : ∀ x ∈ l0, -(2:Int)^62 ≤ x ∧ x < 2^62) (hb2 : b - m ≤ 62) :
    modSwitch2n (2 ^ m) b (l0 :: rest) left =
      .ok (l0.map fun x => ((if left then -x else x) + 2 ^ (b - m - 1)) / 2 ^ (b - m)) := by
  have hlog : bitLen (2 ^ m - 1) = m := bitLen_pow_sub_one m hm
  have hn0 : (2 ^ m : Nat) ≠ 0 := by positivity
  unfold modSwitch2n
  simp only [hn0, if_false, hlog, Nat.add_sub_cancel]
  rw [if_pos hb]
  congr 1
  have hpw : (2:Int) ^ (b - m - 1) ≤ 2 ^ 61 := pow_le_pow_right₀ (by norm_num) (by omega)
  have hpw0 : (0:Int) < 2 ^ (b - m - 1) := by positivity
  rw [List.map_map]
  apply List.map_congr_left
  intro x hxm
  have := hx x hxm
  simp only [Function.comp]
  cases left
  · simp only [Bool.false_eq_true, if_false]
    unfold divRoundByPow2 w64
    congr 1
    omega
  · simp only [if_true]
    unfold divRoundByPow2 w64
    congr 1
    omega

example : modSwitch2n 64 12 [[1000, -2048, 37], [5, 6, 7]] true = .ok [-16, 32, -1] := by rfl
/-- the boundary radix `b = m + 1` (formerly sent to the multi-limb branch, which returned the top limb
unreduced) -/
example : modSwitch2n 64 7 [[3, 5], [-2, 7]] false = .ok [2, 3] := by rfl

set_option maxHeartbeats 400000 in
/-- **mod_switch_2n, radix not above the index width (`1 ≤ base2k ≤ log2(n)`), one coefficient.**  For
`n = 2^m`, balanced digits `|x_i| ≤ 2^{b-1}` and `size = ⌈m/b⌉` limbs: with
`H = Σ_{i<size} ±x_i·2^{b(size-1-i)}` (every limb negated for `Left`) the output is `H` when `b ∣ m` and
`⌊(H + 2^{rem-1}) / 2^{rem}⌋`, `rem = b − m mod b = b·size − m`, otherwise — i.e. `±τ_size·n` rounded half up,
`τ_size` = the torus value of the first `size` limbs.  Together with `mod_switch_2n_top` this covers every radix. -/
theorem mod_switch_2n_low (m b : Nat) (xs : List Int) (left : Bool) (hm : 1 ≤ m) (hb1 : 1 ≤ b) (hbm : b ≤ m)
    (hsz : (m + b - 1) / b ≤ xs.length) (hx : ∀ x ∈ xs, -(2:Int) ^ (b - 1) ≤ x ∧ x ≤ 2 ^ (b - 1))
    (hov : b * ((m + b - 1) / b) ≤ 62) :
    modSwitch2n (2 ^ m) b (xs.map fun x => [x]) left =
      .ok [ (let ds : Nat → Int := fun i => (if left then -1 else 1) * xs.getD i 0
             let H := hv b ds ((m + b - 1) / b - 1)
             if m % b = 0 then H else (H + 2 ^ (b - m % b - 1)) / 2 ^ (b - m % b)) ] := by
  have hlog : bitLen (2 ^ m - 1) = m := bitLen_pow_sub_one m hm
  have hn0 : (2 ^ m : Nat) ≠ 0 := by positivity
  have hsize1 : 1 ≤ (m + b - 1) / b := by
    apply (Nat.le_div_iff_mul_le (by omega)).2; omega
  generalize hsz' : (m + b - 1) / b = size at *
  have hb0 : b ≠ 0 := by omega
  have e : (2:Int) ^ b = 2 * 2 ^ (b - 1) := by
    have : b = (b - 1) + 1 := by omega
    conv => lhs; rw [this, pow_succ]
    ring
  have hq : (0:Int) < 2 ^ (b - 1) := by positivity
  have hbb : b ≤ b * size := Nat.le_mul_of_pos_right b (by omega)
  have hq2 : (2:Int) ^ (b - 1) ≤ 2 ^ 61 := pow_le_pow_right₀ (by norm_num) (by omega)
  -- the sign function of the model on bounded digits
  have hgb := getD_bounded xs (2 ^ (b - 1)) (by omega) hx
  have hsgn : ∀ i, (if left then w64 (-(xs.getD i 0)) else xs.getD i 0) = (if left then -1 else 1) * xs.getD i 0 := by
    intro i
    have hb' := hgb i
    cases left
    · simp only [Bool.false_eq_true, if_false, one_mul]
    · simp only [if_true, neg_one_mul]
      rw [w64_id] <;> omega
  have hd : ∀ i, -(2:Int) ^ (b - 1) ≤ (if left then -1 else 1) * xs.getD i 0 ∧
      (if left then -1 else 1) * xs.getD i 0 ≤ 2 ^ (b - 1) := by
    intro i
    have hb' := hgb i
    cases left
    · simp only [Bool.false_eq_true, if_false, one_mul]; exact hb'
    · simp only [if_true, neg_one_mul]; constructor <;> omega
  cases xs with
  | nil => simp at hsz; omega
  | cons x0 xr =>
  unfold modSwitch2n
  simp only [List.map_cons, hn0, if_false, hlog, Nat.add_sub_cancel]
  rw [if_neg (by omega), if_neg hb0]
  simp only [hsz', List.length_cons, List.length_map]
  rw [if_neg (by simp at hsz; omega)]
  congr 1
  have hfold := msFold_singleton b (b - m % b) size (x0 :: xr) (fun x => if left then w64 (-x) else x)
    (size - 1) (by simp at hsz ⊢; omega)
  simp only [List.map_cons, List.getD_cons_zero] at hfold
  have hfun : (fun i => (fun x => if left then w64 (-x) else x) ((x0 :: xr).getD i 0)) =
      (fun i => (if left then -1 else 1) * (x0 :: xr).getD i 0) := by
    funext i; exact hsgn i
  rw [hfun] at hfold
  refine Eq.trans hfold ?_
  congr 1
  by_cases hmb : m % b = 0
  · rw [if_pos hmb]
    apply msRec_full b _ size hb1 _ hd (size - 1) (Or.inr (by omega))
    have : size - 1 + 1 = size := by omega
    rw [this]; exact hov
  · rw [if_neg hmb]
    have hmodlt : m % b < b := Nat.mod_lt _ (by omega)
    have hsize2 : 2 ≤ size := by
      rw [← hsz']
      apply (Nat.le_div_iff_mul_le (by omega)).2
      have := Nat.div_add_mod m b
      have hq1 : 1 ≤ m / b := (Nat.le_div_iff_mul_le (by omega)).2 (by omega)
      have : b * 1 ≤ b * (m / b) := Nat.mul_le_mul_left b hq1
      omega
    obtain ⟨j, hj⟩ : ∃ j, size - 1 = j + 1 := ⟨size - 2, by omega⟩
    rw [hj]
    have hcond : j + 1 = size - 1 ∧ b - m % b ≠ b := ⟨by omega, by omega⟩
    simp only [msRec, hv]
    rw [if_pos hcond]
    have hfull := msRec_full b (b - m % b) size hb1 _ hd j (Or.inl (by omega))
      (by have : b * (j + 1) ≤ b * size := Nat.mul_le_mul_left b (by omega); omega)
    rw [hfull]
    have hbnd := hv_bound b hb1 _ hd j
    have hdj := hd (j + 1)
    have hjs : j + 1 + 1 = size := by omega
    have hb61 : b ≤ 61 := by
      have : b * 2 ≤ b * size := Nat.mul_le_mul_left b hsize2
      omega
    have hbr : b - (b - m % b) = m % b := by omega
    rw [hbr]
    have hle : (2:Int) ^ (b * (j + 1 + 1)) ≤ 2 ^ 62 := by
      rw [hjs]; exact pow_le_pow_right₀ (by norm_num) hov
    have e2 : (2:Int) ^ (b * (j + 1 + 1)) = 2 ^ (b * (j + 1)) * 2 ^ b := by
      rw [← pow_add]; congr 1
    have hP : (0:Int) < 2 ^ (b * (j + 1)) := by positivity
    have hb0' : (0:Int) < 2 ^ b := by positivity
    have hHb : -(2:Int) ^ 62 ≤ hv b (fun i => (if left then -1 else 1) * (x0 :: xr).getD i 0) j * 2 ^ b ∧
        hv b (fun i => (if left then -1 else 1) * (x0 :: xr).getD i 0) j * 2 ^ b ≤ 2 ^ 62 := by
      constructor <;> nlinarith
    exact ms_last _ _ b (m % b) (b - m % b) (by omega) (by omega) hb61 hdj hHb


example : modSwitch2n 512 4 [[3], [-2], [6]] false = .ok [93] := by rfl
example : modSwitch2n 512 4 [[3], [-2], [6]] true = .ok [-93] := by rfl
example : (hv 4 (fun i => [3, -2, 6].getD i 0) 2 + 2 ^ 2) / 2 ^ 3 = 93 := by decide

/-- **set_xai_plus_y.**  For `ai < 2n` the polynomial handed to `svp_prepare` is `X^{ai} + y` in
`Z[X]/(X^n+1)`: coefficient `ai` is 1 (`ai < n`), resp. coefficient `ai − n` is −1, and `y` is
added to the constant coefficient. -/
theorem set_xai_plus_y (n ai : Nat) (y : Int) (hn : 0 < n) (hai : ai < 2 * n) (j : Nat) (hj : j < n) :
    (setXaiPlusY n ai y)[j]? = some
      (let c : Int := if ai < n then (if j = ai then 1 else 0) else (if j = ai - n then -1 else 0)
       if j = 0 then w64 (c + y) else c) := by
  unfold setXaiPlusY
  have hmod : (ai - n) % n = ai - n := Nat.mod_eq_of_lt (by omega)
  simp only [List.getElem?_mapIdx, List.getElem?_map, List.getElem?_range hj, Option.map_some]
  by_cases h : ai < n
  · simp [h]
  · simp [h, hmod]

example : setXaiPlusY 4 6 5 = [5, 0, -1, 0] ∧ setXaiPlusY 4 0 (-1) = [0, 0, 0, 0] ∧ setXaiPlusY 4 3 0 = [0, 0, 0, 1] := by decide

/-- **Accumulator update composes (layer B).**  Over `Lut.rotate` and an abstract external product
`ep s acc` with the C04 contract "multiplying by the encryption of a bit selects": the CGGI update
`acc ← acc + (X^{a_i} − 1)·(acc ⊡ BRK_i)`, written on phases as `upd`, turns `X^b·LUT` into
`X^{b + Σ a_i s_i}·LUT` for every binary key. -/
theorem blind_update_composes (ep : Int → List Vec → List Vec) (upd : Int → Int → List Vec → List Vec)
    (hupd : ∀ a s acc, InRange acc → upd a s acc = if s = 1 then rotate a acc else acc)
    (lut : List Vec) (hl : InRange lut) (b0 : Int) :
    ∀ (as : List (Int × Int)), (∀ p ∈ as, p.2 = 0 ∨ p.2 = 1) →
      as.foldl (fun acc p => upd p.1 p.2 acc) (rotate b0 lut) =
        rotate (b0 + (as.map fun p => p.1 * p.2).sum) lut := by
  have _ := ep
  intro as
  induction as using List.reverseRecOn with
  | nil => intro _; simp
  | append_singleton as p ih =>
    intro hs
    rw [List.foldl_append, ih (fun q hq => hs q (List.mem_append_left _ hq))]
    simp only [List.foldl_cons, List.foldl_nil, List.map_append, List.map_cons, List.map_nil, List.sum_append,
      List.sum_cons, List.sum_nil]
    rw [hupd _ _ _ (rotate_inRange _ _ hl)]
    rcases hs p (List.mem_append_right _ (List.mem_singleton.2 rfl)) with h | h
    · rw [h]; simp
    · rw [h, if_pos rfl, rotate_rotate _ _ _ hl]
      congr 1; ring

example : [((3 : Int), (1 : Int)), (5, 0), (-2, 1)].foldl (fun acc p => if p.2 = 1 then rotate p.1 acc else acc)
    (rotate 1 [[1], [2], [3], [4]]) = rotate 2 [[1], [2], [3], [4]] := by decide

/-- **The extended loop on the former failing input.**  `execute_block_binary_extended` at plaintext level
with N = 2, ext = 2, one key bit `s = 1` and mod-switched `a = −1` (`ai_pos = 7`: `ai_hi + 1 = 4 = 2N`,
`ai_lo = 1`), `a = 1` (`ai_hi = 0`, `ai_lo = 1`) and `a = 3`: polynomial 0 of the result is polynomial 0 of
`X^{a}·LUT` (before the repair the first two left polynomial 0 unchanged). -/
theorem blind_ext_instances :
    (∀ a ∈ [(-1 : Int), 1, 3, -3, 2, 5, -6, 7],
      some (blindExt 2 2 5 1 1 [[[1], [2]], [[3], [4]]] [0, a] [1]) = (lutRotate 2 a [[[1], [2]], [[3], [4]]])[0]?) ∧
    (∀ a ∈ [(-1 : Int), 1, 9, -7, 15, 16, -17],
      some (blindExt 2 4 5 1 1 [[[1], [2]], [[3], [4]], [[5], [6]], [[7], [-8]]] [3, a] [1]) =
        (lutRotate 2 (3 + a) [[[1], [2]], [[3], [4]], [[5], [6]], [[7], [-8]]])[0]?) := by decide

/- The general statement is `blind_ext_rotates` / `blind_ext_eval` below. -/

/-! ### The accumulator loops compute the rotation by the mod-switched phase -/

/-- **Extended block-binary loop (`execute_block_binary_extended`), general theorem.**  For every extension
factor `ext ≥ 1` (`ext = 2^e` in the code), every block size, every number of LWE coefficients, any
mod-switched ciphertext `b₀ :: a` with entries in `[-2N·ext, 2N·ext]` (both rotation directions: the sign
convention lives in `mod_switch_2n`), and a binary block key (each block of `chunks_exact(block)` has all key
bits 0 or exactly one key bit 1), given the external-product contract built into the plaintext-level model
(`acc ⊡ BRK_i = s_i·acc`): the `ext` accumulators stay well-shaped and their interleaving — the degree-`N·ext`
polynomial they stand for — is `Y^{b₀ + Σ a_i s_i}` times the interleaved table.  (Accumulator digits strictly
inside the balanced range, so that the per-block re-normalisation is the identity.) -/
theorem blind_ext_rotates (n ext b size block q : Nat) (hn : 0 < n) (hext : 0 < ext) (hb : 1 ≤ b) (hb2 : b ≤ 63)
    (hblock : 0 < block) (data : List (List Vec)) (hdata : AccOK n ext size b data)
    (hd2 : 2 * ((n * ext : Nat) : Int) < 2 ^ 62) (b0 : Int) (a sk : List Int)
    (hb0 : -(2 * ((n * ext : Nat) : Int)) ≤ b0 ∧ b0 ≤ 2 * ((n * ext : Nat) : Int))
    (ha : ∀ p ∈ List.zip a sk, -(2 * ((n * ext : Nat) : Int)) ≤ p.1 ∧ p.1 ≤ 2 * ((n * ext : Nat) : Int))
    (hq : (List.zip a sk).length = block * q)
    (hkey : ∀ blk ∈ chunksExact block (List.zip a sk).length (List.zip a sk), BinBlock blk) :
    AccOK n ext size b (blindExtAcc n ext b size block data (b0 :: a) sk) ∧
    interleave n (blindExtAcc n ext b size block data (b0 :: a) sk) =
      rotate (b0 + blkPhase (List.zip a sk)) (interleave n data) := by
  have hf := accOK_facts n ext size b hb2 data hdata
  have hl := hdata.1
  have hI : InRange (interleave n data) := interleave_inRange n data hf.2
  have hflat := chunksExact_flatten block hblock q (List.zip a sk) _ hq (Nat.le_refl _)
  unfold blindExtAcc
  simp only
  rw [extInit_eq n ext hn data hl hext b0 hd2 hb0.1 hb0.2]
  have h0ok := lutRotate_accOK n ext size b hb2 data hdata hext b0
  have h0int : interleave n (lutRotate n b0 data) = rotate b0 (interleave n data) :=
    lutRotate_interleave n b0 data (by omega) hn hf.1 hf.2 (by rw [hl]; exact hd2) (by rw [hl]; exact hb0.1)
      (by rw [hl]; omega)
  have := fold_blocks n ext size b hn hext hb hb2 hd2 (interleave n data) hI _ _ b0 h0ok h0int
    (fun blk hblk => ⟨hkey blk hblk, fun p hp => ha p (by
      rw [← hflat]; exact List.mem_flatten.2 ⟨blk, hblk, hp⟩)⟩)
  rw [sum_flatten_phase, hflat] at this
  exact this

/-- N = 2, ext = 2, block = 2, n_lwe = 4, key `(0,1 | 0,0)`: phase `1 + (−3)`; the former skip case `a = −3 ≡ 5` -/
example : interleave 2 (blindExtAcc 2 2 5 1 2 [[[1], [2]], [[3], [4]]] [1, 7, -3, 2, 6] [0, 1, 0, 0]) =
    rotate (1 + (-3)) (interleave 2 [[[1], [2]], [[3], [4]]]) := by decide

set_option maxHeartbeats 400000 in
/-- **Extended blind rotation evaluates the table.**  With the table produced by `lookup_table_set`
(`ext > 1` a power of two, table length `≤ N` dividing `N·ext`, entries whose scaled digits lie strictly inside
the balanced range): polynomial 0 of the loop's result (`res ← acc[0]`) has constant coefficient
`± enc(f[⌊u/step⌋]·scale)`, `u = (drift − (b₀ + Σ a_i s_i)) mod 2·N·ext`, minus exactly when `u ≥ N·ext` — the
statement of `lut_eval_ext` with the clear rotation replaced by the phase of the mod-switched ciphertext. -/
theorem blind_ext_eval (n ext b kLut k step block q : Nat) (f : List Int) (hpow : isPow2 ext = true) (hext : 1 < ext) (hn : 0 < n)
    (hn2 : 2 * ((n * ext : Nat) : Int) < 2 ^ 62) (hb : 1 ≤ b) (hb2 : b ≤ 63) (hlen : 1 ≤ f.length) (hfn : f.length ≤ n)
    (hdiv : n * ext = f.length * step)
    (hbits : maxBitSize f + k % b < 64) (hl1 : 1 ≤ (k + b - 1) / b) (hl2 : (k + b - 1) / b ≤ (kLut + b - 1) / b)
    (hsym : SymP b (tableF b ((kLut + b - 1) / b) ((k + b - 1) / b) step (if k % b ≠ 0 then 2 ^ (b - k % b) else 1) f))
    (hblock : 0 < block) (b0 : Int) (a sk : List Int)
    (hb0 : -(2 * ((n * ext : Nat) : Int)) ≤ b0 ∧ b0 ≤ 2 * ((n * ext : Nat) : Int))
    (ha : ∀ p ∈ List.zip a sk, -(2 * ((n * ext : Nat) : Int)) ≤ p.1 ∧ p.1 ≤ 2 * ((n * ext : Nat) : Int))
    (hq : (List.zip a sk).length = block * q)
    (hkey : ∀ blk ∈ chunksExact block (List.zip a sk).length (List.zip a sk), BinBlock blk) :
    ∃ T, lutSet n ext b kLut f k = .ok T ∧
      (blindExt n ext b ((kLut + b - 1) / b) block T.data (b0 :: a) sk)[0]? =
        (let u := ((((step / 2 : Nat) : Int) - (b0 + blkPhase (List.zip a sk))) % (2 * ((n * ext : Nat) : Int))).toNat
         (f[(u % (n * ext)) / step]?).map fun fi =>
           let v := enc b ((kLut + b - 1) / b) ((k + b - 1) / b) (w64 (fi * (if k % b ≠ 0 then 2 ^ (b - k % b) else 1)))
           if u < n * ext then v else negV v) := by
  obtain ⟨T, hT, _, hok, hint⟩ := lutSet_extN_facts n ext b kLut k step f hpow hext hn hn2 hb hb2 hlen hfn hdiv hbits hl1 hl2 hsym
  refine ⟨T, hT, ?_⟩
  have hstep : 0 < step := by
    rcases Nat.eq_zero_or_pos step with h | h
    · subst h; have : 0 < n * ext := Nat.mul_pos hn (by omega); omega
    · exact h
  obtain ⟨hAok, hAint⟩ := blind_ext_rotates n ext b _ block q hn (by omega) hb hb2 hblock T.data hok hn2 b0 a sk hb0 ha hq hkey
  set A := blindExtAcc n ext b ((kLut + b - 1) / b) block T.data (b0 :: a) sk with hA
  have hAl : 0 < A.length := by rw [hAok.1]; omega
  have hp0 : (A[0]'hAl).length = n := (hAok.2 _ (List.getElem_mem hAl)).1.1
  have hget := interleave_get n A 0 0 hn hAl
  simp only [Nat.zero_mul, Nat.add_zero, List.getElem?_eq_getElem hAl, Option.getD_some] at hget
  unfold blindExt
  rw [← hA, List.getD_eq_getElem?_getD, List.getElem?_eq_getElem hAl, Option.getD_some]
  rw [List.getElem?_eq_getElem (show 0 < (A[0]'hAl).length by omega)] at hget ⊢
  simp only [Option.getD_some] at hget
  rw [← hget, hAint, hint]
  set F' := tableF b ((kLut + b - 1) / b) ((k + b - 1) / b) step (if k % b ≠ 0 then 2 ^ (b - k % b) else 1) f with hF'
  have hF'len : F'.length = n * ext := by rw [tableF_length, hdiv]
  have hF'r : InRange F' := symP_inRange b hb2 F' hsym
  rw [coeff0_rotate_rotate F' hF'r (n * ext) hF'len (Nat.mul_pos hn (by omega))]
  have := sext_tableF b ((kLut + b - 1) / b) ((k + b - 1) / b) step (if k % b ≠ 0 then 2 ^ (b - k % b) else 1) f hstep hlen
    (((step / 2 : Nat) : Int) - (b0 + blkPhase (List.zip a sk)))
  rw [this]
  simp only [← hdiv]

/-- **Block-binary loop (`execute_block_binary`, `ext = 1`) and the plain CGGI loop (`execute_standard`, the
instance `block = 1`).**  For every block size, every `n_lwe = block·q`, every mod-switched ciphertext and every
binary block key: the accumulator is `X^{b₀ + Σ a_i s_i}·LUT` — no range condition on the `a_i` (the ring
rotation is total). -/
theorem blind_plain_rotates {n size : Nat} (b block q : Nat) (hb : 1 ≤ b) (hb2 : b ≤ 63) (hblock : 0 < block)
    (lut0 : List Vec) (hsh : Shaped n size lut0) (hsym : SymP b lut0) (b0 : Int) (a sk : List Int)
    (hq : (List.zip a sk).length = block * q)
    (hkey : ∀ blk ∈ chunksExact block (List.zip a sk).length (List.zip a sk), BinBlock blk) :
    blindPlain b block lut0 (b0 :: a) sk = rotate (b0 + blkPhase (List.zip a sk)) lut0 :=
  blindPlain_rotates b block q hb hb2 hblock lut0 hsh hsym b0 a sk hq hkey

/-- plain CGGI (`block = 1`): every key in `{0,1}^n` is a block key with blocks of one coefficient -/
theorem blind_standard_rotates {n size : Nat} (b : Nat) (hb : 1 ≤ b) (hb2 : b ≤ 63) (lut0 : List Vec) (hsh : Shaped n size lut0)
    (hsym : SymP b lut0) (b0 : Int) (a sk : List Int) (hbin : ∀ s ∈ sk, s = 0 ∨ s = 1) :
    blindPlain b 1 lut0 (b0 :: a) sk = rotate (b0 + blkPhase (List.zip a sk)) lut0 := by
  apply blind_plain_rotates b 1 (List.zip a sk).length hb hb2 (by decide) lut0 hsh hsym b0 a sk (by simp)
  -- every chunk of size 1 is a single pair
  have hsingle : ∀ (fuel : Nat) (l : List (Int × Int)), (∀ p ∈ l, p.2 = 0 ∨ p.2 = 1) → ∀ blk ∈ chunksExact 1 fuel l, BinBlock blk := by
    intro fuel
    induction fuel with
    | zero => intro l _ blk h; simp [chunksExact] at h
    | succ f ih =>
      intro l hl blk h
      unfold chunksExact at h
      split at h
      · simp at h
      · rcases List.mem_cons.1 h with h | h
        · subst h
          cases l with
          | nil => simp at *
          | cons p t =>
            simp only [List.take_succ_cons, List.take_zero]
            rcases hl p List.mem_cons_self with h0 | h1
            · left; intro x hx; simp at hx; subst hx; exact h0
            · right; exact ⟨[], p.1, [], by simp [← h1], by simp, by simp⟩
        · exact ih _ (fun p hp => hl p (List.mem_of_mem_drop hp)) blk h
  apply hsingle
  intro p hp
  exact hbin p.2 (List.of_mem_zip hp).2

example : blindPlain 5 2 [[1], [2], [3], [4]] [1, 3, 5, -2, 7] [0, 1, 0, 0] = rotate (1 + 5) [[1], [2], [3], [4]] := by decide
example : blindPlain 5 1 [[1], [2], [3], [4]] [1, 3, 5, -2] [1, 0, 1] = rotate (1 + 3 + -2) [[1], [2], [3], [4]] := by decide

/-- **Single-polynomial blind rotation evaluates the table** (`ext = 1`, standard and block-binary): constant
coefficient `± enc(f[⌊u/step⌋]·scale)`, `u = (drift − (b₀ + Σ a_i s_i)) mod 2N`, minus exactly when `u ≥ N`. -/
theorem blind_plain_eval (n b kLut k step block q : Nat) (f : List Int) (hn : 0 < n) (hn2 : 2 * (n : Int) < 2 ^ 62) (hb : 1 ≤ b)
    (hb2 : b ≤ 63) (hlen : 1 ≤ f.length) (hdiv : n = f.length * step)
    (hbits : maxBitSize f + k % b < 64) (hl1 : 1 ≤ (k + b - 1) / b) (hl2 : (k + b - 1) / b ≤ (kLut + b - 1) / b)
    (hsym : SymP b (tableF b ((kLut + b - 1) / b) ((k + b - 1) / b) step (if k % b ≠ 0 then 2 ^ (b - k % b) else 1) f))
    (hblock : 0 < block) (b0 : Int) (a sk : List Int) (hq : (List.zip a sk).length = block * q)
    (hkey : ∀ blk ∈ chunksExact block (List.zip a sk).length (List.zip a sk), BinBlock blk) :
    ∃ T p0, lutSet n 1 b kLut f k = .ok T ∧ T.data = [p0] ∧
      (blindPlain b block p0 (b0 :: a) sk)[0]? =
        (let u := ((((step / 2 : Nat) : Int) - (b0 + blkPhase (List.zip a sk))) % (2 * (n : Int))).toNat
         (f[(u % n) / step]?).map fun fi =>
           let v := enc b ((kLut + b - 1) / b) ((k + b - 1) / b) (w64 (fi * (if k % b ≠ 0 then 2 ^ (b - k % b) else 1)))
           if u < n then v else negV v) := by
  have hset := lutSet_ext1 n b kLut k step f hn hn2 hb hlen hdiv hbits hl1 hl2
  have hstep : 0 < step := by
    rcases Nat.eq_zero_or_pos step with h | h
    · subst h; omega
    · exact h
  set F' := tableF b ((kLut + b - 1) / b) ((k + b - 1) / b) step (if k % b ≠ 0 then 2 ^ (b - k % b) else 1) f with hF'
  have hF'len : F'.length = n := by rw [tableF_length, hdiv]
  have hF'r : InRange F' := symP_inRange b hb2 F' hsym
  have hF'sh : Shaped n ((kLut + b - 1) / b) F' := ⟨hF'len, tableF_vec_length _ _ _ _ _ _⟩
  refine ⟨_, rotate (-((step / 2 : Nat) : Int)) F', hset, rfl, ?_⟩
  rw [blind_plain_rotates b block q hb hb2 hblock _ (rotate_shaped _ _ hF'sh) (rotate_sym b hb2 _ _ hsym) b0 a sk hq hkey]
  rw [coeff0_rotate_rotate F' hF'r n hF'len hn]
  have := sext_tableF b ((kLut + b - 1) / b) ((k + b - 1) / b) step (if k % b ≠ 0 then 2 ^ (b - k % b) else 1) f hstep hlen
    (((step / 2 : Nat) : Int) - (b0 + blkPhase (List.zip a sk)))
  rw [this]
  simp only [← hdiv]

/-- **mod_switch_2n ∘ LWE phase: the exact error of the rotation index.**  Radix above the index width
(`d = base2k − log2(n) ≥ 1`, the branch of `mod_switch_2n_top`): with `x₀ :: xs` the sign-applied top-limb digits
of `(b, a_1, …)`, every coefficient is switched to `⌊(x + 2^{d-1})/2^d⌋` and, for any key `s`, the index used by
the blind rotation satisfies

    idx · 2^d = Φ + E,   Φ = x₀ + Σ x_i s_i  (the top-limb phase),   E = (2^{d-1} − r₀) + Σ (2^{d-1} − r_i)·s_i,

`r = (x + 2^{d-1}) mod 2^d` the per-coefficient rounding remainder; for a binary key `|E| ≤ (1 + Σ s_i)·2^{d-1}`,
i.e. `idx = Φ·n/2^{base2k}` up to `±(hw(s) + 1)/2` — the documented rounding drift, with its exact value. -/
theorem index_error (d : Nat) (hd : 1 ≤ d) (x0 : Int) (xs sk : List Int) (hbin : ∀ s ∈ sk, s = 0 ∨ s = 1) :
    (msRound d x0 + blkPhase (List.zip (xs.map (msRound d)) sk)) * 2 ^ d =
      (x0 + blkPhase (List.zip xs sk)) +
        ((2 ^ (d - 1) - msRem d x0) + blkPhase (List.zip (xs.map fun x => 2 ^ (d - 1) - msRem d x) sk)) ∧
    ((2 ^ (d - 1) - msRem d x0) + blkPhase (List.zip (xs.map fun x => 2 ^ (d - 1) - msRem d x) sk)).natAbs
      ≤ (1 + sk.sum.natAbs) * 2 ^ (d - 1) := by
  have h1 := phase_error_sum d xs sk
  have h2 := msRound_mul d x0
  have h3 := phase_error_bound d hd xs sk hbin
  have h4 := msErr_bound d hd x0
  refine ⟨by linear_combination h2 + h1, ?_⟩
  generalize blkPhase (List.zip (xs.map fun x => 2 ^ (d - 1) - msRem d x) sk) = E at *
  generalize (2:Int) ^ (d - 1) - msRem d x0 = e at *
  have ha : (e + E).natAbs ≤ e.natAbs + E.natAbs := Int.natAbs_add_le e E
  have he : e.natAbs ≤ 2 ^ (d - 1) := by
    zify; rw [abs_le]; constructor <;> omega
  rw [Nat.add_mul, Nat.one_mul]
  omega

/-- the switched values of the model are `msRound` of the sign-applied digits (`mod_switch_2n_top`) -/
example : modSwitch2n 64 12 [[1000, -2048, 37]] false = .ok ([1000, -2048, 37].map (msRound 6)) := by rfl

/-- d = 6, digits (1000 | −2048, 37), key (1, 1): idx = 16 − 32 + 1 = −15, Φ = −1011, E = 51 -/
example : (msRound 6 1000 + blkPhase (List.zip ([-2048, 37].map (msRound 6)) [1, 1])) * 2 ^ 6 = (1000 + (-2048 + 37)) + 51 := by decide

theorem getD_map_col (limbs : List (List Int)) (c i : Nat) :
    (limbs.map fun row => row.getD c 0).getD i 0 = (limbs.getD i []).getD c 0 := by
  simp only [List.getD_eq_getElem?_getD, List.getElem?_map]
  cases limbs[i]? <;> simp

set_option maxHeartbeats 400000 in
/-- **mod_switch_2n ∘ LWE phase, multi-limb branch (`1 ≤ base2k ≤ log2(n)`): the exact error of the rotation index.**
For a whole ciphertext (`nl + 1` coefficients per limb, balanced digits, `size = ⌈m/b⌉` limbs read), with
`H c = Σ_{i<size} ±x_{i,c}·2^{b(size-1-i)}` the Horner value of coefficient `c` (`mod_switch_2n_low`, lifted to every
coefficient by `Lut.modSwitch2n_col`):
* `b ∣ m`: the switched values are the `H c` themselves — the index is the `size`-limb phase exactly, no rounding;
* otherwise, with `d = b − m mod b`: every value is `⌊(H c + 2^{d-1})/2^d⌋` and for any key
  `idx·2^d = Φ_H + E`, `Φ_H = H 0 + Σ H_i s_i`, `E = (2^{d-1} − r_0) + Σ (2^{d-1} − r_i) s_i`, `|E| ≤ (1 + hw(s))·2^{d-1}` for a
  binary key — the same drift law as `index_error`, with the Horner values in place of the top-limb digits. -/
theorem index_error_low (m b : Nat) (limbs : List (List Int)) (left : Bool) (nl : Nat) (sk : List Int)
    (hm : 1 ≤ m) (hb1 : 1 ≤ b) (hbm : b ≤ m) (hrows : ∀ row ∈ limbs, row.length = nl + 1)
    (hsz : (m + b - 1) / b ≤ limbs.length)
    (hx : ∀ row ∈ limbs, ∀ x ∈ row, -(2:Int) ^ (b - 1) ≤ x ∧ x ≤ 2 ^ (b - 1))
    (hov : b * ((m + b - 1) / b) ≤ 62) (hbin : ∀ s ∈ sk, s = 0 ∨ s = 1) :
    let H : Nat → Int := fun c =>
      hv b (fun i => (if left then -1 else 1) * (limbs.getD i []).getD c 0) ((m + b - 1) / b - 1)
    let d := b - m % b
    ∃ ys, modSwitch2n (2 ^ m) b limbs left = .ok ys ∧ ys.length = nl + 1 ∧
      (m % b = 0 → ys = (List.range (nl + 1)).map H) ∧
      (m % b ≠ 0 →
        ys = (List.range (nl + 1)).map (fun c => msRound d (H c)) ∧
        (ys.getD 0 0 + blkPhase (List.zip ys.tail sk)) * 2 ^ d =
          (H 0 + blkPhase (List.zip ((List.range nl).map fun c => H (c + 1)) sk)) +
            ((2 ^ (d - 1) - msRem d (H 0)) +
              blkPhase (List.zip (((List.range nl).map fun c => H (c + 1)).map fun x => 2 ^ (d - 1) - msRem d x) sk)) ∧
        ((2 ^ (d - 1) - msRem d (H 0)) +
              blkPhase (List.zip (((List.range nl).map fun c => H (c + 1)).map fun x => 2 ^ (d - 1) - msRem d x) sk)).natAbs
          ≤ (1 + sk.sum.natAbs) * 2 ^ (d - 1)) := by
  intro H d
  -- one coefficient
  have hcol : ∀ c, c < nl + 1 → modSwitch2n (2 ^ m) b (colOf c limbs) left =
      .ok [if m % b = 0 then H c else (H c + 2 ^ (d - 1)) / 2 ^ d] := by
    intro c _
    rw [colOf_eq]
    have := mod_switch_2n_low m b (limbs.map fun row => row.getD c 0) left hm hb1 hbm (by simpa using hsz)
      (by
        intro x hxm
        obtain ⟨row, hrow, rfl⟩ := List.mem_map.1 hxm
        have hlen := hrows row hrow
        by_cases hc : c < row.length
        · rw [getD_of_lt _ _ _ hc]; exact hx row hrow _ (List.getElem_mem hc)
        · have h0 : row.getD c 0 = 0 := by simp [List.getD_eq_getElem?_getD, List.getElem?_eq_none (by omega : row.length ≤ c)]
          rw [h0]
          have : (0:Int) < 2 ^ (b - 1) := by positivity
          constructor <;> omega) hov
    rw [this]
    simp only [getD_map_col]
    rfl
  -- the whole ciphertext
  have h0 := modSwitch2n_col (2 ^ m) b limbs left (nl + 1) 0 (by omega) hrows
  cases hms : modSwitch2n (2 ^ m) b limbs left with
  | panic p => rw [hms] at h0; simp only at h0; rw [hcol 0 (by omega)] at h0; cases h0
  | err e => rw [hms] at h0; simp only at h0; rw [hcol 0 (by omega)] at h0; cases h0
  | ok ys =>
    rw [hms] at h0
    have hlen : ys.length = nl + 1 := h0.1
    have hval : ∀ c, c < nl + 1 → ys.getD c 0 = if m % b = 0 then H c else (H c + 2 ^ (d - 1)) / 2 ^ d := by
      intro c hc
      have h1 := modSwitch2n_col (2 ^ m) b limbs left (nl + 1) c hc hrows
      rw [hms] at h1
      have h2 := h1.2
      rw [hcol c hc] at h2
      simp only [Outcome.ok.injEq, List.cons.injEq, and_true] at h2
      exact h2.symm
    have hys : ys = (List.range (nl + 1)).map fun c => if m % b = 0 then H c else (H c + 2 ^ (d - 1)) / 2 ^ d := by
      apply List.ext_getElem (by simp [hlen])
      intro i h1 h2
      rw [← getD_of_lt ys 0 i h1, hval i (by omega)]
      simp
    refine ⟨ys, rfl, hlen, ?_, ?_⟩
    · intro hmb; rw [hys]; simp [hmb]
    · intro hmb
      have hys' : ys = (List.range (nl + 1)).map (fun c => msRound d (H c)) := by
        rw [hys]; simp [hmb, msRound]
      have hd1 : 1 ≤ d := by
        have : m % b < b := Nat.mod_lt _ (by omega)
        omega
      have hie := index_error d hd1 (H 0) ((List.range nl).map fun c => H (c + 1)) sk hbin
      refine ⟨hys', ?_, hie.2⟩
      have hhead : ys.getD 0 0 = msRound d (H 0) := by rw [hys']; simp
      have htail : ys.tail = ((List.range nl).map fun c => H (c + 1)).map (msRound d) := by
        rw [hys', List.range_succ_eq_map]
        simp [List.map_map, Function.comp]
      rw [hhead, htail]
      exact hie.1

/-- `n = 32`, `base2k = 2`: three limbs, `d = 1`; `H = (23, −28)`, switched `(12, −14)`; key `(1)`: `idx = −2`,
`Φ_H = −5`, `E = 1` -/
example : modSwitch2n 32 2 [[1, -2], [2, 1], [-1, 0]] false = .ok [12, -14] := by rfl
example : hv 2 (fun i => [1, 2, -1].getD i 0) 2 = 23 ∧ hv 2 (fun i => [-2, 1, 0].getD i 0) 2 = -28 ∧
    (12 + -14 * 1) * 2 ^ 1 = (23 + -28 * 1) + (1 : Int) := by decide

/-! ### Blind rotation with NOISE (the external-product contract discharged at phase level)

`blind_ext_rotates` / `blind_plain_rotates` / `blind_standard_rotates` replace `acc ⊡ BRK_i` by its contract `s_i·acc`.  Here the product
returns `s_i·acc + η_i`: `Noise.BrMachine` is the executed loop on ciphertexts (accumulator = GLWE, `BRK_i` = prepared GGSW with key
error `E`), its primitive operations carrying what C04 / C07 / C08 establish for the executed code — `ep_spec` is `C04.ep_decrypts`
(`m2 = s_i` exact, error term `Σ digit·E − dropped − β^S·head + En`) read in `∞`-norm (**EpCoeffContract**, the one field that is not yet a
theorem of C04: C04 states the identity with the symbolic error, not its coefficient bound; `NoiseB.epBound` is the formula), `mul_spec` /
`add_spec` the exact linear operations, `norm_spec` the normalisation of the block.  The ring is `ℤ[X]/(X^N+1)`; for the extended rotation
`ℤ[Y]/(Y^{N·ext}+1)` via `lut_rotate_interleave` (the `ext` accumulators are the interleaved polynomial; the error of a product on the
components is the interleaved error, same `∞`-norm). -/

open Noise in
/-- **`blind_rotation_noise`**: for every block size, number of blocks (`n_lwe = q·block`) and one-hot block key, the executed blind rotation
decrypts to `X^{Σ a_i s_i}·phase(acc₀)` (`acc₀ = X^{b₀}·LUT`, trivially encrypted) plus an error of `∞`-norm at most
`2·n_lwe·B + q·U` — linear in `n_lwe` (`B` per external product: `Σ‖digit‖₁·‖E‖_∞` + truncation; `U` the normalisation unit per block). -/
theorem blind_rotation_noise {R : Type} [CommRing R] {S : Size R} {M : Mono R S} {C G : Type} (m : BrMachine R S M C G) (hB : 0 ≤ m.B)
    (block : ℕ) (blocks : List (List (ℤ × G))) (hlen : ∀ blk ∈ blocks, blk.length = block) (acc : C)
    (hkey : ∀ blk ∈ blocks, OneHot (blk.map fun p => m.bit p.2)) :
    S.ν (m.ph (m.exec acc blocks) - M.X (m.totalRot blocks) * m.ph acc)
      ≤ 2 * ((blocks.length * block : ℕ) * m.B) + blocks.length * m.U := by
  have h := m.exec_spec hB blocks acc hkey
  have hn : BrMachine.nBits blocks = blocks.length * block := by
    unfold BrMachine.nBits
    clear h hkey
    induction blocks with
    | nil => simp
    | cons b t ih =>
      simp only [List.map_cons, List.sum_cons, List.length_cons]
      rw [ih (fun x hx => hlen x (by simp [hx])), hlen b (by simp)]
      ring
  rw [hn] at h
  exact h

open Noise in
/-- **`blind_rotation_correct`**, value side: when the rotated table has constant coefficient `v·Δ` (`lut_eval`, `blind_ext_eval`,
`blind_plain_eval`: `v = ±f[index]`) and `2·(2·n_lwe·B + q·U) < Δ`, rounding the decrypted constant coefficient to the grid gives `v` exactly. -/
theorem blind_rotation_correct {R : Type} [CommRing R] {S : Size R} {M : Mono R S} {C G : Type} (m : BrMachine R S M C G) (K0 : Coef0 R S)
    (hB : 0 ≤ m.B) (blocks : List (List (ℤ × G))) (acc : C)
    (hkey : ∀ blk ∈ blocks, OneHot (blk.map fun p => m.bit p.2))
    (v Δ : ℤ) (hΔ : 0 < Δ) (hval : K0.c0 (M.X (m.totalRot blocks) * m.ph acc) = v * Δ)
    (hnum : 2 * (2 * (BrMachine.nBits blocks * m.B) + blocks.length * m.U) < Δ) :
    (K0.c0 (m.ph (m.exec acc blocks)) + Δ / 2) / Δ = v :=
  Noise.blind_rotation_correct m K0 hB blocks acc hkey v Δ hΔ hval hnum

/-- **`blind_rotation_correct`**, index side: `index_error` (`idx·2^d = Φ + E`, `|E| ≤ (1 + hw(s))·2^{d−1}`) composed with the LWE noise: if the
top-limb phase is `Φ = −(i·step)·2^d + ε` (message `i`, `Left` direction) and `(1 + hw(s))·2^{d−1} + |ε| < (step/2)·2^d` — mod-switch drift plus
LWE noise below half a table step — then `(drift − idx) mod 2N = i·step + e`, `0 < e < step`: the cell hypothesis of `blind_*_eval` /
`C15.cbt_rows_bit`. -/
theorem index_in_cell (d step N i : ℕ) (hd : 1 ≤ d) (x0 : Int) (xs sk : List Int) (hbin : ∀ s ∈ sk, s = 0 ∨ s = 1) (ε : ℤ)
    (hstep : step % 2 = 0) (hΦ : x0 + blkPhase (List.zip xs sk) = -((i * step : ℕ) : ℤ) * 2 ^ d + ε)
    (hsmall : ((1 + sk.sum.natAbs) * 2 ^ (d - 1) : ℕ) + |ε| < ((step / 2 : ℕ) : ℤ) * 2 ^ d) (hfit : i * step + step ≤ 2 * N) :
    ∃ e : ℕ, 0 < e ∧ e < step ∧
      (((step / 2 : ℕ) : ℤ) - (msRound d x0 + blkPhase (List.zip (xs.map (msRound d)) sk))) % (2 * (N : ℤ)) = ((i * step + e : ℕ) : ℤ) := by
  obtain ⟨h1, h2⟩ := index_error d hd x0 xs sk hbin
  apply Noise.index_lands d step N i _ _ _ ε hstep h1 hΦ _ hfit
  have : |(2:ℤ) ^ (d - 1) - msRem d x0 + blkPhase (List.zip (xs.map fun x => 2 ^ (d - 1) - msRem d x) sk)| ≤
      (((1 + sk.sum.natAbs) * 2 ^ (d - 1) : ℕ) : ℤ) := by
    rw [Int.abs_eq_natAbs]; exact_mod_cast h2
  linarith

/-- the numeric condition of `blind_rotation_correct` on the crate's circuit-bootstrapping key (`N = 256`, rank 2, 4 rows of radix `2^12`,
52 bits, `n_lwe = 77` in 11 blocks, fresh key error `≤ 20` units of `2^-52`), worst case: the accumulated error is `≤ 2^47.2·2^-64 = 2^-16.8`, so
a table encoded at `2^-13` (row 0 of the bootstrapped GGSW) decodes exactly, one encoded at `2^-26` (row 1) is not covered by the
worst-case bound (the measured error is far smaller: evidence field `blind_noise`). -/
theorem blind_condition_test_params :
    NoiseB.blindOk { n := 256, rank := 2, dnum := 4, b := 12, k := 52, hw := 256 } 77 11 (20 * 2 ^ 12) 13 = true ∧
    NoiseB.blindOk { n := 256, rank := 2, dnum := 4, b := 12, k := 52, hw := 256 } 77 11 (20 * 2 ^ 12) 26 = false := by decide

/-- non-vacuity: a `BrMachine` over `ℤ` (`X^a = 1`) whose product adds the key's own error -/
example : ∃ m : Noise.BrMachine ℤ
    { ν := fun x => |x|, nonneg := abs_nonneg, zero := abs_zero, add_le := abs_add_le, neg := abs_neg }
    { X := fun _ => 1, X_zero := rfl, X_add := fun _ _ => by simp, isom := fun _ x => by simp } ℤ (Bool × ℤ), m.B = 3 :=
  ⟨{ ph := id, ep := fun c g => Noise.bitR g.1 * c + max (-3) (min 3 g.2), bit := fun g => g.1, B := 3,
     ep_spec := by
       intro c g
       show |Noise.bitR g.1 * c + max (-3) (min 3 g.2) - Noise.bitR g.1 * c| ≤ 3
       rw [add_sub_cancel_left, abs_le]; constructor <;> omega,
     mulXm1 := fun _ _ => 0, mul_spec := by intro a c; simp,
     add := fun x y => x + y, add_spec := fun _ _ => rfl, norm := id, U := 0, norm_spec := by intro c; simp }, rfl⟩

end C14
