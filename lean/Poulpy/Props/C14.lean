import Poulpy.Lemmas.Lut
/-
C14 — blind rotation evaluates the lookup table at the encrypted index.

All objects are those of `Poulpy/Model/Lut.lean` (executed by the model driver): `rotate`,
`lutSet`, `lutRotate`, `modSwitch2n`, `setXaiPlusY`, `blindPlain`, `blindExt`; `sext`, `enc`,
`tableF`, `InRange` are specification vocabulary defined in `Lemmas/Lut.lean`.
-/

namespace C14
open Lut

/-- **rotate_spec.** `znx_rotate(p, ·)` shifts the signed 2n-periodic extension of the coefficient
list by `p`, for every integer `p`, every coefficient index `m ∈ ℤ` (so: coefficient `j` of
`X^p·a` is `± a[(j-p) mod n]`, minus exactly when `(j-p) mod 2n ≥ n`). -/
theorem rotate_spec (p : Int) (a : List Vec) (hn : 0 < a.length) (hr : InRange a) (m : Int) :
    sext (rotate p a) m = sext a (m - p) :=
  sext_rotate p a hn (fun v hv => negV_negV v (hr v hv)) m

example : rotate 5 [[1], [2], [3], [4]] = [[4], [-1], [-2], [-3]] ∧ sext [[1], [2], [3], [4]] (-5) = [4] := by decide

/-- rotations compose (`X^p · X^q = X^{p+q}`) -/
theorem rotate_add (p q : Int) (a : List Vec) (hr : InRange a) : rotate p (rotate q a) = rotate (p + q) a :=
  rotate_rotate p q a hr

example : rotate 3 (rotate (-7) [[1, 9], [2, 8], [3, 7]]) = rotate (-4) [[1, 9], [2, 8], [3, 7]] := by decide

/-- **lut_eval (single polynomial, `extension_factor = 1`).**
For every table `f` whose length divides `N` (`N = len·step`), every radix `1 ≤ b ≤ 64`, every
admissible precision `k` (`1 ≤ ⌈k/b⌉ ≤ size`, no overflow of `f·scale`): `lookup_table_set` succeeds
with `drift = step/2`, and after one further clear rotation by any `kk ∈ [-2N, 2N]`
(`Left`: `kk = -t`; `Right`: `kk = +t`) the constant coefficient of the table is, on every limb,

    ± enc(f[⌊u / step⌋ mod len] · scale),   u = (drift − kk) mod 2N,   minus exactly when u ≥ N,

`enc` = the normalised limb vector holding the value in limb `⌈k/b⌉−1` (scaled to the top limbs),
`scale = 2^{b − k mod b}` (1 if `b ∣ k`).  In particular `kk = −t` gives `f[⌊(t + drift)/step⌋ mod len]`. -/
theorem lut_eval (n b kLut k step : Nat) (f : List Int) (hn : 0 < n) (hn2 : 2 * (n : Int) < 2 ^ 62) (hb : 1 ≤ b)
    (hb2 : b ≤ 64) (hlen : 1 ≤ f.length) (hdiv : n = f.length * step)
    (hbits : maxBitSize f + k % b < 64) (hl1 : 1 ≤ (k + b - 1) / b) (hl2 : (k + b - 1) / b ≤ (kLut + b - 1) / b)
    (kk : Int) (hk1 : -(2 * (n : Int)) ≤ kk) (hk2 : kk ≤ 2 * (n : Int)) :
    ∃ T p0, lutSet n 1 b kLut f k = .ok T ∧ T.drift = step / 2 ∧ lutRotate n kk T.data = [p0] ∧
      p0[0]? =
        (let u := ((((step / 2 : Nat) : Int) - kk) % (2 * (n : Int))).toNat
         (f[(u % n) / step]?).map fun fi =>
           let v := enc b ((kLut + b - 1) / b) ((k + b - 1) / b) (w64 (fi * (if k % b ≠ 0 then 2 ^ (b - k % b) else 1)))
           if u < n then v else negV v) := by
  have hset := lutSet_ext1 n b kLut k step f hn hn2 hb hlen hdiv hbits hl1 hl2
  have hstep : 0 < step := by
    rcases Nat.eq_zero_or_pos step with h | h
    · subst h; omega
    · exact h
  let F := tableF b ((kLut + b - 1) / b) ((k + b - 1) / b) step (if k % b ≠ 0 then 2 ^ (b - k % b) else 1) f
  have hFlen : F.length = n := by rw [tableF_length, hdiv]
  have hFr : InRange F := tableF_inRange _ _ _ _ _ f hb hb2
  refine ⟨_, rotate kk (rotate (-((step / 2 : Nat) : Int)) F), hset, rfl, ?_, ?_⟩
  · exact lutRotate_ext1 n kk _ (by rw [rotate_length]; exact hFlen) hn hn2 hk1 (by omega)
  · rw [coeff0_rotate_rotate F hFr n hFlen hn]
    have hM : (0 : Int) < 2 * (n : Int) := by omega
    have h0 := Int.emod_nonneg (((step / 2 : Nat) : Int) - kk) (ne_of_gt hM)
    have h1 := Int.emod_lt_of_pos (((step / 2 : Nat) : Int) - kk) hM
    unfold sext
    simp only [hFlen]
    generalize hu : ((((step / 2 : Nat) : Int) - kk) % (2 * (n : Int))).toNat = u
    have hu2 : u < 2 * n := by omega
    by_cases hlt : u < n
    · have hmod : u % n = u := Nat.mod_eq_of_lt hlt
      rw [if_pos hlt, hmod, tableF_get _ _ _ _ _ f hstep u (by rw [← hdiv]; exact hlt)]
      have hidx : u / step < f.length := Nat.div_lt_of_lt_mul (by rw [Nat.mul_comm, ← hdiv]; exact hlt)
      rw [List.getElem?_eq_getElem hidx]
      simp
      intro h; omega
    · have hmod : u % n = u - n := by
        have : u = (u - n) + n := by omega
        conv => lhs; rw [this]
        rw [Nat.add_mod_right]; exact Nat.mod_eq_of_lt (by omega)
      rw [if_neg hlt, hmod, tableF_get _ _ _ _ _ f hstep (u - n) (by rw [← hdiv]; omega)]
      have hidx : (u - n) / step < f.length := Nat.div_lt_of_lt_mul (by rw [Nat.mul_comm, ← hdiv]; omega)
      rw [List.getElem?_eq_getElem hidx]
      simp
      intro h; omega

end C14
