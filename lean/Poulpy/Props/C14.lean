import Poulpy.Model.Lut

namespace C14
open Lut

/-- placeholder while the tie is being wired -/
theorem setXaiPlusY_length (n ai : Nat) (y : Int) : (setXaiPlusY n ai y).length = n := by
  simp [setXaiPlusY]

example : setXaiPlusY 4 6 5 = [5, 0, -1, 0] := by decide

end C14
