import Poulpy.Lemmas.HalSpec
import Poulpy.Lemmas.NegMul

/-!
# C07 — DFT-domain products equal exact negacyclic (bivariate) convolution

The model represents a transform-domain limb by the exact integer polynomial it stands for, so
"the back end computes what the model computes" (the correspondence check: all four back ends,
bit for bit, inside their magnitude domains) *is* the statement that no rounding error is
visible.  The theorems below state, for the model functions the driver executes, the algebraic
content of the property: forward ∘ inverse transform is the identity on content; the `(step,
offset)` selection, `limb_offset` and `cnv_offset` semantics and the largest-valid-sub-shape rule
with zero fill; transform-domain add/sub act limb-wise; the product is bilinear (so a vector-matrix
product is the sum of the row products and the pairwise trick is sound).

PARTIAL with respect to the property: the floating-point FFT (rounding error < 1/2 inside the
documented domain) and the NTT120 butterflies/CRT are *not* proved — they are tied by the
correspondence only (DESIGN.md §9).
-/

namespace C07
open Hal

/-- forward transform followed by inverse transform is the identity on every limb that exists,
zero beyond (`vec_znx_dft_apply(1, 0, …)` then `vec_znx_idft_apply`) -/
theorem idft_dft_id (n s : Nat) (a : Col) (j : Nat) (hj : j < s) (d : Poly) :
    (idftCol n s (dftApplyCol n 1 0 s a)).getD j d = if j < a.length then a.getD j (zeroP n) else zeroP n := by
  unfold idftCol
  rw [mapRange_getD _ _ _ _ hj]
  rw [dftApplyCol_length, if_pos hj]
  unfold limbOr0 dftApplyCol
  rw [mapRange_getD _ _ _ _ hj]
  have e : (a.length + 1 - 1) / 1 = a.length := by simp
  rw [e]
  by_cases h : j < a.length
  · have h2 : j < min s a.length := by omega
    rw [if_pos h2, if_pos h]
    simp [h]
  · have h2 : ¬ j < min s a.length := by omega
    rw [if_neg h2, if_neg h]

/-- limb selection: result limb `j` is input limb `offset + j·step` when it exists and
`j < ⌈a_size/step⌉`, zero otherwise (selections past the end read as zero) -/
theorem dft_select (n step off rs : Nat) (a : Col) (j : Nat) (hj : j < rs) (d : Poly) :
    (dftApplyCol n step off rs a).getD j d =
      if j < (a.length + step - 1) / step ∧ off + j * step < a.length then a.getD (off + j * step) (zeroP n) else zeroP n := by
  unfold dftApplyCol
  rw [mapRange_getD _ _ _ _ hj]
  by_cases h1 : j < (a.length + step - 1) / step
  · have : j < min rs ((a.length + step - 1) / step) := by omega
    simp [this, h1]
  · have : ¬ j < min rs ((a.length + step - 1) / step) := by omega
    simp [this, h1]

/-- transform-domain add / sub act limb-wise, shorter operand zero-extended, result truncated -/
theorem zip_limbwise (f : Poly → Poly → Poly) (n rs : Nat) (a b : Col) (j : Nat) (hj : j < rs) (d : Poly) :
    (zipExtCol f n rs a b).getD j d = f (limbOr0 n a j) (limbOr0 n b j) := by
  unfold zipExtCol; rw [mapRange_getD _ _ _ _ hj]

/-- scalar-vector product: limb `j` is the exact negacyclic product, zero beyond the operand -/
theorem svp_limbwise (n rs : Nat) (p : Poly) (b : Col) (j : Nat) (hj : j < rs) (d : Poly) :
    (svpApplyCol n rs p b).getD j d = if j < b.length then negMul p (limbOr0 n b j) else zeroP n := by
  unfold svpApplyCol; rw [mapRange_getD _ _ _ _ hj]

/-- vector-matrix product with `limb_offset`, largest-valid-sub-shape rule and zero fill, at
(limb, column) granularity -/
theorem vmp_entry (n : Nat) (a : List Poly) (m : PMat) (lo rl r : Nat) (hr : r < rl) (d : Poly) :
    (vmpFlat n a m lo rl).getD r d =
      if lo * m.colsOut < min (m.colsOut * m.size) (rl + lo * m.colsOut) ∧
         r < min (m.colsOut * m.size) (rl + lo * m.colsOut) - lo * m.colsOut then
        sumPolys n ((List.range (min (m.colsIn * m.rows) a.length)).map
          (fun j => negMul (a.getD j (zeroP n)) (m.entry j (r + lo * m.colsOut))))
      else zeroP n := by
  unfold vmpFlat; rw [mapRange_getD _ _ _ _ hr]

/-- rows of the matrix beyond the input's limbs (and input limbs beyond the rows) do not matter:
the product only reads `min(rows·cols_in, |a|)` rows -/
theorem vmp_row_truncation (n : Nat) (a : List Poly) (m : PMat) (lo rl : Nat) :
    vmpFlat n a m lo rl = vmpFlat n (a.take (m.colsIn * m.rows)) m lo rl := by
  unfold vmpFlat
  simp only [List.length_take]
  apply List.map_congr_left
  intro r _
  split
  · congr 1
    have e : min (m.colsIn * m.rows) (min (m.colsIn * m.rows) a.length) = min (m.colsIn * m.rows) a.length := by omega
    rw [e]
    apply List.map_congr_left
    intro j hj
    have hj' : j < m.colsIn * m.rows := by simp at hj; omega
    simp [List.getD, List.getElem?_take, hj']
  · rfl

/-- a vector-matrix product is the sum over rows of scalar-vector products (one output entry) -/
theorem vmp_eq_sum_svp (n : Nat) (a : List Poly) (m : PMat) (hn : m.n = n) (rl r : Nat) (hr : r < rl) (hc : r < m.colsOut * m.size)
    (hcols : 0 < m.colsOut) (d : Poly) :
    (vmpFlat n a m 0 rl).getD r d =
      sumPolys n ((List.range (min (m.colsIn * m.rows) a.length)).map (fun j =>
        (svpApplyCol n m.size (a.getD j (zeroP n)) ((m.data.getD j []).getD (r % m.colsOut) [])).getD (r / m.colsOut) (zeroP n))) := by
  rw [vmp_entry n a m 0 rl r hr]
  have h1 : 0 * m.colsOut < min (m.colsOut * m.size) (rl + 0 * m.colsOut) ∧
      r < min (m.colsOut * m.size) (rl + 0 * m.colsOut) - 0 * m.colsOut := by
    simp; omega
  rw [if_pos h1]
  congr 1
  apply List.map_congr_left
  intro j _
  have hq : r / m.colsOut < m.size := by
    apply (Nat.div_lt_iff_lt_mul hcols).mpr
    rw [Nat.mul_comm]; exact hc
  rw [svp_limbwise n m.size _ _ _ hq]
  simp only [Nat.zero_mul, Nat.add_zero, PMat.entry, limbOr0, hn]
  by_cases hl : r / m.colsOut < ((m.data.getD j []).getD (r % m.colsOut) []).length
  · rw [if_pos hl]
  · rw [if_neg hl]
    have : List.getD ((m.data.getD j []).getD (r % m.colsOut) []) (r / m.colsOut) (zeroP n) = zeroP n := by
      rw [List.getD_eq_getElem?_getD, List.getElem?_eq_none (Nat.not_lt.mp hl)]; rfl
    rw [this]
    exact negMul_zero_right _ n

/-- the product is additive in each argument (coefficient lists of equal length) — hence
distributes over transform-domain addition, and the pairwise trick
`(aᵢ+aⱼ)(bᵢ+bⱼ) − aᵢbᵢ − aⱼbⱼ = aᵢbⱼ + aⱼbᵢ` is sound -/
theorem product_add_right (a b b' : Poly) (h : b.length = b'.length) :
    negMul a (polyAdd b b') = polyAdd (negMul a b) (negMul a b') := negMul_add_right a b b' h

theorem product_add_left (a a' b : Poly) (h : a.length = a'.length) :
    negMul (polyAdd a a') b = polyAdd (negMul a b) (negMul a' b) := negMul_add_left a a' b h

theorem pairwise_expand (ai aj bi bj : Poly) (ha : ai.length = aj.length) (hb : bi.length = bj.length) :
    negMul (polyAdd ai aj) (polyAdd bi bj) =
      polyAdd (polyAdd (negMul ai bi) (negMul ai bj)) (polyAdd (negMul aj bi) (negMul aj bj)) := by
  rw [negMul_add_left _ _ _ ha, negMul_add_right _ _ _ hb, negMul_add_right _ _ _ hb]

/-- bivariate convolution: truncation at `cnv_offset` and at the result size, zero fill -/
theorem cnv_limb (n rs off : Nat) (a b : Col) (k : Nat) (hk : k < rs) (d : Poly) :
    (cnvApplyCol n rs off a b).getD k d =
      if k < min rs (a.length + b.length - 1) then cnvCoeff n a b (k + min off (a.length + b.length - 1)) else zeroP n := by
  unfold cnvApplyCol; rw [mapRange_getD _ _ _ _ hk]

/-- a convolution coefficient past the last non-zero one is zero (`cnv_offset` past the end) -/
theorem cnv_coeff_past_end (n : Nat) (a b : Col) (k : Nat) (hk : a.length + b.length ≤ k) : cnvCoeff n a b k = zeroP n := by
  unfold cnvCoeff; simp [hk]

/-- the terms of coefficient `k` are exactly the pairs `(i, j)` with `i + j = k`, `i < |a|`, `j < |b|`:
the summation bounds `[k − (|a|−1), min(k+1, |b|))` enumerate them all and nothing else -/
theorem cnv_coeff_index_range (la lb k : Nat) (hla : 0 < la) (hk : k < la + lb) (j : Nat) :
    (k - (la - 1) ≤ j ∧ j < min (k + 1) lb) ↔ (j ≤ k ∧ k - j < la ∧ j < lb) := by
  omega

/-- top-limb mask of the prepared operands: only the last common limb is masked -/
theorem cnv_prepare_mask (n rs : Nat) (mask : Int) (a : Col) (j : Nat) (hj : j < rs) (d : Poly) :
    (cnvPrepareCol n rs mask a).getD j d =
      if j + 1 = min rs a.length then (limbOr0 n a j).map (maskCoeff mask)
      else if j < min rs a.length then limbOr0 n a j else zeroP n := by
  unfold cnvPrepareCol; rw [mapRange_getD _ _ _ _ hj]

/-- the full mask `!0` is the identity on i64 coefficients -/
theorem mask_all_ones (x : Int) (h1 : -(2 ^ 63) ≤ x) (h2 : x < 2 ^ 63) : maskCoeff (-1) x = x := by
  simp only [maskCoeff]
  have e0 : (-1 : Int) % 2 ^ 64 = 18446744073709551615 := by omega
  rw [e0]
  have e : (18446744073709551615 : Int).toNat = 2 ^ 64 - 1 := by rfl
  rw [e]
  have hx : (x % 2 ^ 64).toNat < 2 ^ 64 := by
    have := Int.emod_lt_of_pos x (by decide : (0 : Int) < 2 ^ 64)
    have h0 := Int.emod_nonneg x (by decide : (2 ^ 64 : Int) ≠ 0)
    omega
  have : Nat.land (x % 2 ^ 64).toNat (2 ^ 64 - 1) = (x % 2 ^ 64).toNat := by
    show (x % 2 ^ 64).toNat &&& (2 ^ 64 - 1) = (x % 2 ^ 64).toNat
    rw [Nat.and_two_pow_sub_one_eq_mod]
    exact Nat.mod_eq_of_lt hx
  rw [this]
  have h0 := Int.emod_nonneg x (by decide : (2 ^ 64 : Int) ≠ 0)
  unfold w64
  rw [Int.ofNat_eq_natCast, Int.toNat_of_nonneg h0]
  omega

/-- non-vacuity: `X · X^{n-1} = -1` in `Z[X]/(X^4+1)` computed by the model's product -/
example : negMul [0, 1, 0, 0] [0, 0, 0, 1] = [-1, 0, 0, 0] := by decide
example : (idftCol 2 3 (dftApplyCol 2 1 0 3 [[1, 2], [3, 4]])) = [[1, 2], [3, 4], [0, 0]] := by decide
example : cnvCoeff 2 [[1, 0], [2, 0]] [[3, 0], [4, 0]] 1 = [10, 0] := by decide

end C07
