import Poulpy.Lemmas.HalSpec
import Poulpy.Lemmas.NegMul
import Poulpy.Lemmas.CnvSum
import Poulpy.Lemmas.Ntt120Top
import Poulpy.Lemmas.NttSum
import Poulpy.Lemmas.NttAvxBridge
import Poulpy.Lemmas.Fft64Instance
import Poulpy.Lemmas.Fft64Vmp
import Poulpy.Lemmas.F64Mono
import Poulpy.Lemmas.Fft64AvxAgree
import Poulpy.Lemmas.Fft64AvxVmpNumeric
import Poulpy.Lemmas.Fft64CnvConstSpec

/-!
# C07 — DFT-domain products equal exact negacyclic (bivariate) convolution

The model represents a transform-domain limb by the exact integer polynomial it stands for, so
"the back end computes what the model computes" (the correspondence check: all four back ends,
bit for bit, inside their magnitude domains) *is* the statement that no rounding error is
visible.  The theorems below state, for the model functions the driver executes, the algebraic
content of the property: forward ∘ inverse transform is the identity on content; the `(step,
offset)` selection, `limb_offset` and `cnv_offset` semantics and the largest-valid-sub-shape rule
with zero fill; transform-domain add/sub act limb-wise; the product is bilinear (so a vector-matrix
product is the sum of the row products and the pairwise trick is sound).

PARTIAL with respect to the property: the floating-point FFT (rounding error < 1/2 inside the
documented domain) and the NTT120 butterfly network are *not* proved — they are tied by the
correspondence only (DESIGN.md §9).  Everything of the NTT120 back end *around* the butterflies
is proved in the second half of this file (`namespace C07`, section "NTT120 integer arithmetic"):
residues, CRT reconstruction with the concrete `Q`, lazy accumulation without 64-bit overflow,
the lazy reductions, and the product pipeline under the explicit hypothesis `NttIsRingIso`.
-/

namespace C07
open Hal

/-- forward transform followed by inverse transform is the identity on every limb that exists,
zero beyond (`vec_znx_dft_apply(1, 0, …)` then `vec_znx_idft_apply`) -/
theorem idft_dft_id (n s : Nat) (a : Col) (j : Nat) (hj : j < s) (d : Poly) :
    (idftCol n s (dftApplyCol n 1 0 s a)).getD j d = if j < a.length then a.getD j (zeroP n) else zeroP n := by
  unfold idftCol
  rw [mapRange_getD _ _ _ _ hj]
  rw [dftApplyCol_length, if_pos hj]
  unfold limbOr0 dftApplyCol
  rw [mapRange_getD _ _ _ _ hj]
  have e : (a.length + 1 - 1) / 1 = a.length := by simp
  rw [e]
  by_cases h : j < a.length
  · have h2 : j < min s a.length := by omega
    rw [if_pos h2, if_pos h]
    simp [h]
  · have h2 : ¬ j < min s a.length := by omega
    rw [if_neg h2, if_neg h]

/-- limb selection: result limb `j` is input limb `offset + j·step` when it exists and
`j < ⌈a_size/step⌉`, zero otherwise (selections past the end read as zero) -/
theorem dft_select (n step off rs : Nat) (a : Col) (j : Nat) (hj : j < rs) (d : Poly) :
    (dftApplyCol n step off rs a).getD j d =
      if j < (a.length + step - 1) / step ∧ off + j * step < a.length then a.getD (off + j * step) (zeroP n) else zeroP n := by
  unfold dftApplyCol
  rw [mapRange_getD _ _ _ _ hj]
  by_cases h1 : j < (a.length + step - 1) / step
  · have : j < min rs ((a.length + step - 1) / step) := by omega
    simp [this, h1]
  · have : ¬ j < min rs ((a.length + step - 1) / step) := by omega
    simp [this, h1]

/-- transform-domain add / sub act limb-wise, shorter operand zero-extended, result truncated -/
theorem zip_limbwise (f : Poly → Poly → Poly) (n rs : Nat) (a b : Col) (j : Nat) (hj : j < rs) (d : Poly) :
    (zipExtCol f n rs a b).getD j d = f (limbOr0 n a j) (limbOr0 n b j) := by
  unfold zipExtCol; rw [mapRange_getD _ _ _ _ hj]

/-- scalar-vector product: limb `j` is the exact negacyclic product, zero beyond the operand -/
theorem svp_limbwise (n rs : Nat) (p : Poly) (b : Col) (j : Nat) (hj : j < rs) (d : Poly) :
    (svpApplyCol n rs p b).getD j d = if j < b.length then negMul p (limbOr0 n b j) else zeroP n := by
  unfold svpApplyCol; rw [mapRange_getD _ _ _ _ hj]

/-- vector-matrix product with `limb_offset`, largest-valid-sub-shape rule and zero fill, at
(limb, column) granularity -/
theorem vmp_entry (n : Nat) (a : List Poly) (m : PMat) (lo rl r : Nat) (hr : r < rl) (d : Poly) :
    (vmpFlat n a m lo rl).getD r d =
      if lo * m.colsOut < min (m.colsOut * m.size) (rl + lo * m.colsOut) ∧
         r < min (m.colsOut * m.size) (rl + lo * m.colsOut) - lo * m.colsOut then
        sumPolys n ((List.range (min (m.colsIn * m.rows) a.length)).map
          (fun j => negMul (a.getD j (zeroP n)) (m.entry j (r + lo * m.colsOut))))
      else zeroP n := by
  unfold vmpFlat; rw [mapRange_getD _ _ _ _ hr]

/-- rows of the matrix beyond the input's limbs (and input limbs beyond the rows) do not matter:
the product only reads `min(rows·cols_in, |a|)` rows -/
theorem vmp_row_truncation (n : Nat) (a : List Poly) (m : PMat) (lo rl : Nat) :
    vmpFlat n a m lo rl = vmpFlat n (a.take (m.colsIn * m.rows)) m lo rl := by
  unfold vmpFlat
  simp only [List.length_take]
  apply List.map_congr_left
  intro r _
  split
  · congr 1
    have e : min (m.colsIn * m.rows) (min (m.colsIn * m.rows) a.length) = min (m.colsIn * m.rows) a.length := by omega
    rw [e]
    apply List.map_congr_left
    intro j hj
    have hj' : j < m.colsIn * m.rows := by simp at hj; omega
    simp [List.getD, List.getElem?_take, hj']
  · rfl

/-- a vector-matrix product is the sum over rows of scalar-vector products (one output entry) -/
theorem vmp_eq_sum_svp (n : Nat) (a : List Poly) (m : PMat) (hn : m.n = n) (rl r : Nat) (hr : r < rl) (hc : r < m.colsOut * m.size)
    (hcols : 0 < m.colsOut) (d : Poly) :
    (vmpFlat n a m 0 rl).getD r d =
      sumPolys n ((List.range (min (m.colsIn * m.rows) a.length)).map (fun j =>
        (svpApplyCol n m.size (a.getD j (zeroP n)) ((m.data.getD j []).getD (r % m.colsOut) [])).getD (r / m.colsOut) (zeroP n))) := by
  rw [vmp_entry n a m 0 rl r hr]
  have h1 : 0 * m.colsOut < min (m.colsOut * m.size) (rl + 0 * m.colsOut) ∧
      r < min (m.colsOut * m.size) (rl + 0 * m.colsOut) - 0 * m.colsOut := by
    simp only [Nat.zero_mul, Nat.add_zero, Nat.sub_zero]; omega
  rw [if_pos h1]
  congr 1
  apply List.map_congr_left
  intro j _
  have hq : r / m.colsOut < m.size := by
    apply (Nat.div_lt_iff_lt_mul hcols).mpr
    rw [Nat.mul_comm]; exact hc
  rw [svp_limbwise n m.size _ _ _ hq]
  simp only [Nat.zero_mul, Nat.add_zero, PMat.entry, limbOr0, hn]
  by_cases hl : r / m.colsOut < ((m.data.getD j []).getD (r % m.colsOut) []).length
  · rw [if_pos hl]
  · rw [if_neg hl]
    have : List.getD ((m.data.getD j []).getD (r % m.colsOut) []) (r / m.colsOut) (zeroP n) = zeroP n := by
      rw [List.getD_eq_getElem?_getD, List.getElem?_eq_none (Nat.not_lt.mp hl)]; rfl
    rw [this]
    exact negMul_zero_right _ n

/-- the product is additive in each argument (coefficient lists of equal length) — hence
distributes over transform-domain addition, and the pairwise trick
`(aᵢ+aⱼ)(bᵢ+bⱼ) − aᵢbᵢ − aⱼbⱼ = aᵢbⱼ + aⱼbᵢ` is sound -/
theorem product_add_right (a b b' : Poly) (h : b.length = b'.length) :
    negMul a (polyAdd b b') = polyAdd (negMul a b) (negMul a b') := negMul_add_right a b b' h

theorem product_add_left (a a' b : Poly) (h : a.length = a'.length) :
    negMul (polyAdd a a') b = polyAdd (negMul a b) (negMul a' b) := negMul_add_left a a' b h

theorem pairwise_expand (ai aj bi bj : Poly) (ha : ai.length = aj.length) (hb : bi.length = bj.length) :
    negMul (polyAdd ai aj) (polyAdd bi bj) =
      polyAdd (polyAdd (negMul ai bi) (negMul ai bj)) (polyAdd (negMul aj bi) (negMul aj bj)) := by
  rw [negMul_add_left _ _ _ ha, negMul_add_right _ _ _ hb, negMul_add_right _ _ _ hb]

/-- bivariate convolution: truncation at `cnv_offset` and at the result size, zero fill -/
theorem cnv_limb (n rs off : Nat) (a b : Col) (k : Nat) (hk : k < rs) (d : Poly) :
    (cnvApplyCol n rs off a b).getD k d =
      if k < min rs (a.length + b.length - 1) then cnvCoeff n a b (k + min off (a.length + b.length - 1)) else zeroP n := by
  unfold cnvApplyCol; rw [mapRange_getD _ _ _ _ hk]

/-- a convolution coefficient past the last non-zero one is zero (`cnv_offset` past the end) -/
theorem cnv_coeff_past_end (n : Nat) (a b : Col) (k : Nat) (hk : a.length + b.length ≤ k) : cnvCoeff n a b k = zeroP n := by
  unfold cnvCoeff; simp [hk]

/-- the terms of coefficient `k` are exactly the pairs `(i, j)` with `i + j = k`, `i < |a|`, `j < |b|`:
the summation bounds `[k − (|a|−1), min(k+1, |b|))` enumerate them all and nothing else -/
theorem cnv_coeff_index_range (la lb k : Nat) (hla : 0 < la) (hk : k < la + lb) (j : Nat) :
    (k - (la - 1) ≤ j ∧ j < min (k + 1) lb) ↔ (j ≤ k ∧ k - j < la ∧ j < lb) := by
  omega

/-- top-limb mask of the prepared operands: only the last common limb is masked -/
theorem cnv_prepare_mask (n rs : Nat) (mask : Int) (a : Col) (j : Nat) (hj : j < rs) (d : Poly) :
    (cnvPrepareCol n rs mask a).getD j d =
      if j + 1 = min rs a.length then (limbOr0 n a j).map (maskCoeff mask)
      else if j < min rs a.length then limbOr0 n a j else zeroP n := by
  unfold cnvPrepareCol; rw [mapRange_getD _ _ _ _ hj]

/-- the full mask `!0` is the identity on i64 coefficients -/
theorem mask_all_ones (x : Int) (h1 : -(2 ^ 63) ≤ x) (h2 : x < 2 ^ 63) : maskCoeff (-1) x = x := by
  simp only [maskCoeff]
  have e0 : (-1 : Int) % 2 ^ 64 = 18446744073709551615 := by omega
  rw [e0]
  have e : (18446744073709551615 : Int).toNat = 2 ^ 64 - 1 := by rfl
  rw [e]
  have hx : (x % 2 ^ 64).toNat < 2 ^ 64 := by
    have := Int.emod_lt_of_pos x (by decide : (0 : Int) < 2 ^ 64)
    have h0 := Int.emod_nonneg x (by decide : (2 ^ 64 : Int) ≠ 0)
    omega
  have : Nat.land (x % 2 ^ 64).toNat (2 ^ 64 - 1) = (x % 2 ^ 64).toNat := by
    show (x % 2 ^ 64).toNat &&& (2 ^ 64 - 1) = (x % 2 ^ 64).toNat
    rw [Nat.and_two_pow_sub_one_eq_mod]
    exact Nat.mod_eq_of_lt hx
  rw [this]
  have h0 := Int.emod_nonneg x (by decide : (2 ^ 64 : Int) ≠ 0)
  unfold w64
  rw [Int.ofNat_eq_natCast, Int.toNat_of_nonneg h0]
  omega

/-- non-vacuity: `X · X^{n-1} = -1` in `Z[X]/(X^4+1)` computed by the model's product -/
example : negMul [0, 1, 0, 0] [0, 0, 0, 1] = [-1, 0, 0, 0] := by decide
example : (idftCol 2 3 (dftApplyCol 2 1 0 3 [[1, 2], [3, 4]])) = [[1, 2], [3, 4], [0, 0]] := by decide
example : cnvCoeff 2 [[1, 0], [2, 0]] [[3, 0], [4, 0]] 1 = [10, 0] := by decide


/-! ## Convolution and vector-matrix product as sums over index sets -/

/-- the loop bounds of `cnv_apply_dft` enumerate exactly the terms of the bivariate product:
`cnvCoeff n a b k = Σ_{j < |b|, j ≤ k, k − j < |a|} a[k−j] · b[j]` (right-hand side a filtered sum
over `List.range |b|`, `Hal.cnvCoeffSpec`) -/
theorem cnv_coeff_eq_filtered_sum (n : Nat) (a b : Col) (k : Nat) (ha : 0 < a.length) :
    cnvCoeff n a b k =
      sumPolys n (((List.range b.length).filter (fun j => decide (j ≤ k ∧ k - j < a.length ∧ j < b.length))).map
        (fun j => negMul (limbOr0 n a (k - j)) (limbOr0 n b j))) :=
  cnvCoeff_eq_spec n a b k ha

/-- `vmp_apply_dft_to_dft` is a vector-matrix product: inside the written range, flat output entry
`r` is the dot product of the input row vector with column `r + limb_offset·cols_out` -/
theorem vmp_entry_is_dot_product (n : Nat) (a : List Poly) (m : PMat) (lo rl r : Nat) (hr : r < rl) (d : Poly)
    (h1 : lo * m.colsOut < min (m.colsOut * m.size) (rl + lo * m.colsOut))
    (h2 : r < min (m.colsOut * m.size) (rl + lo * m.colsOut) - lo * m.colsOut) :
    (vmpFlat n a m lo rl).getD r d =
      dotPoly n (a.take (min (m.colsIn * m.rows) a.length)) (m.column (min (m.colsIn * m.rows) a.length) (r + lo * m.colsOut)) :=
  vmp_entry_dot n a m lo rl r hr d h1 h2

/-- the digit widths chosen by the generator (`vlib/halgen.py: pick_bits`, re-checked at run time by
`vlib/c07.py`) lie inside the FFT64 magnitude domain `n·rows·|a|·|b| ≤ 2^50`, with the factor 4 the
pairwise convolution needs -/
theorem generator_in_fft64_domain (n rows bits : Nat) (hn : n = 2 ^ Nat.log2 n) (hr : 1 ≤ rows)
    (hbud : 4 ≤ pickBitsBudget n rows) (hb1 : 1 ≤ bits) (hb : bits ≤ pickBitsCap n rows) :
    InFft64Domain n rows (2 * 2 ^ (bits - 1)) (2 * 2 ^ (bits - 1)) :=
  pick_bits_in_fft64_domain n rows bits hn hr hbud hb1 hb

example : cnvCoeffSpec 2 [[1, 0], [2, 0]] [[3, 0], [4, 0]] 1 = [10, 0] := by decide
example : pickBitsCap 64 6 = 17 ∧ pickBitsBudget 64 6 = 41 ∧ InFft64Domain 64 6 (2 * 2 ^ 16) (2 * 2 ^ 16) := by
  refine ⟨by decide, by decide, ?_⟩
  unfold InFft64Domain; decide
example : dotPoly 2 [[1, 0], [0, 1]] [[2, 3], [4, 5]] = [-3, 7] := by decide

/-! ## NTT120 integer arithmetic (everything of the NTT120 back end except the butterfly network)

Model: `Model/Ntt120.lean` (executed by the driver `ntt120`, compared bit for bit with
`poulpy_cpu_ref::reference::ntt120::*` and the `Ntt*` trait implementations of NTT120Ref and
NTT120Avx, constants included).  `P.Good` is the list of closed facts about a prime set that the
proofs use; `primes29_good`, `primes30_good`, `primes31_good` establish it for `primes.rs`. -/

section NTT120
open Ntt120

/-- the modulus of the default prime set and the exactness bound, from the actual constants:
`2^119 < Q < 2^120`, `(Q−1)/2 = 657821220234910467805273421263929344 > 2^118` -/
theorem ntt120_Q :
    bigQ primes30 = 1315642440469820935610546842527858689 ∧ 2 ^ 119 < bigQ primes30 ∧ bigQ primes30 < 2 ^ 120 ∧
    (bigQ primes30 - 1) / 2 = 657821220234910467805273421263929344 ∧ 2 ^ 118 < (bigQ primes30 - 1) / 2 := by
  decide +kernel

/-- the constants of `primes.rs` satisfy everything the proofs need: the primes are pairwise
coprime, below `2^32`, `CRT_CST[k]·(Q/Q[k]) ≡ 1 (mod Q[k])`, `4Q < 2^127`, `Q` odd, and the `i128`
products of `b_to_znx128_ref` do not wrap -/
theorem ntt120_constants_good : primes29.Good ∧ primes30.Good ∧ primes31.Good :=
  ⟨primes29_good, primes30_good, primes31_good⟩

/-- `OMEGA[k]` is a primitive `2^17`-th root of unity modulo `Q[k]` (`ω^(2^16) = −1`): the ring
`Z_q[X]/(X^n+1)`, `n ≤ 2^16`, splits completely, so a transform satisfying `NttIsRingIso` exists -/
theorem ntt120_omega_primitive :
    ∀ k, k < 4 → (primes30.omega.getD k 0) ^ (2 ^ 16) % (primes30.qs.getD k 1) = primes30.qs.getD k 1 - 1 := by
  decide +kernel

/-- (a) `b_from_znx64_ref`: for **every** `i64` the four stored values are congruent to the input
modulo the four primes, and are below `2^63 + 2^32` (no `u64` wrap) -/
theorem ntt120_b_from_znx64_residues (P : PrimeSet) (g : P.Good) (x : Int) (h0 : -(2 ^ 63) ≤ x) (h1 : x < 2 ^ 63) (k : Nat) (hk : k < 4) :
    ((bFromZnx64 P x).getD k 0 : Int) ≡ x [ZMOD (P.qs.getD k 1 : Nat)] ∧ (bFromZnx64 P x).getD k 0 < 2 ^ 63 + 2 ^ 32 :=
  bFromZnx64_residues P g x h0 h1 k hk

/-- (a) the masked form is `b_from_znx64` of `x & mask` (the coefficient mask of `cnv_prepare`) -/
theorem ntt120_b_from_znx64_masked (P : PrimeSet) (x mask : Int) :
    bFromZnx64Masked P x mask = bFromZnx64 P (maskCoeff mask x) :=
  bFromZnx64Masked_eq P x mask

/-- (a) the q120c forms hold the canonical residue `r` and `r·2^32 mod q`, for every integer input
(`c_from_znx64_ref`) and every lazy `u64` residue (`c_from_b_ref`) -/
theorem ntt120_c_forms (q : Nat) (hq0 : 0 < q) (hq : q < 2 ^ 32) (x : Int) (y : Nat) :
    cFromZnx64K q x = [(x % (q : Int)).toNat, (x % (q : Int)).toNat * 2 ^ 32 % q] ∧
    cFromBK q y = [y % q, y % q * 2 ^ 32 % q] :=
  ⟨cFromZnx64K_eq q hq0 hq x, cFromBK_eq q hq0 hq y⟩

/-- (b) `b_to_znx128_ref` returns the centred representative: congruent to `x` modulo `Q` and in
`[−(Q−1)/2, (Q−1)/2]`, for arbitrary lazy `u64` residues congruent to `x` -/
theorem ntt120_crt_centred (P : PrimeSet) (g : P.Good) (x : Int) (x0 x1 x2 x3 : Nat)
    (h0 : (x0 : Int) ≡ x [ZMOD P.q0]) (h1 : (x1 : Int) ≡ x [ZMOD P.q1])
    (h2 : (x2 : Int) ≡ x [ZMOD P.q2]) (h3 : (x3 : Int) ≡ x [ZMOD P.q3]) :
    bToZnx128 P [x0, x1, x2, x3] = .ok (bToZnx128Core P x0 x1 x2 x3) ∧
    bToZnx128Core P x0 x1 x2 x3 ≡ x [ZMOD (bigQ P : Int)] ∧
    -(((bigQ P : Int) - 1) / 2) ≤ bToZnx128Core P x0 x1 x2 x3 ∧ bToZnx128Core P x0 x1 x2 x3 ≤ ((bigQ P : Int) - 1) / 2 :=
  ⟨rfl, bToZnx128Core_centred P g x x0 x1 x2 x3 h0 h1 h2 h3⟩

/-- (b) **CRT exactness**: `b_to_znx128_ref` returns exactly `x` whenever `|x| ≤ (Q−1)/2`
(`|x| < Q/2`) — "NTT120 results are exact while the exact value stays below `Q/2`" -/
theorem ntt120_crt_exact (P : PrimeSet) (g : P.Good) (x : Int) (x0 x1 x2 x3 : Nat)
    (hlo : -(((bigQ P : Int) - 1) / 2) ≤ x) (hhi : x ≤ ((bigQ P : Int) - 1) / 2)
    (h0 : (x0 : Int) ≡ x [ZMOD P.q0]) (h1 : (x1 : Int) ≡ x [ZMOD P.q1])
    (h2 : (x2 : Int) ≡ x [ZMOD P.q2]) (h3 : (x3 : Int) ≡ x [ZMOD P.q3]) :
    bToZnx128 P [x0, x1, x2, x3] = .ok x := by
  show Outcome.ok (bToZnx128Core P x0 x1 x2 x3) = .ok x
  rw [bToZnx128Core_exact P g x x0 x1 x2 x3 hlo hhi h0 h1 h2 h3]

/-- (b) with the numbers of the default prime set: exact for `|x| ≤ 2^118` -/
theorem ntt120_crt_exact_primes30 (x : Int) (x0 x1 x2 x3 : Nat) (hlo : -(2 ^ 118) ≤ x) (hhi : x ≤ 2 ^ 118)
    (h0 : (x0 : Int) ≡ x [ZMOD primes30.q0]) (h1 : (x1 : Int) ≡ x [ZMOD primes30.q1])
    (h2 : (x2 : Int) ≡ x [ZMOD primes30.q2]) (h3 : (x3 : Int) ≡ x [ZMOD primes30.q3]) :
    bToZnx128 primes30 [x0, x1, x2, x3] = .ok x := by
  have hq : ((bigQ primes30 : Nat) : Int) = 1315642440469820935610546842527858689 := by
    have := ntt120_Q.1; exact_mod_cast this
  apply ntt120_crt_exact primes30 primes30_good x x0 x1 x2 x3 _ _ h0 h1 h2 h3 <;> rw [hq] <;> omega

/-- (a)+(b) round trip: `b_to_znx128(b_from_znx64(x)) = x` for every `i64` -/
theorem ntt120_crt_roundtrip (P : PrimeSet) (g : P.Good) (hQ : 2 ^ 64 < bigQ P) (x : Int) (h0 : -(2 ^ 63) ≤ x) (h1 : x < 2 ^ 63) :
    bToZnx128Core P ((bFromZnx64 P x).getD 0 0) ((bFromZnx64 P x).getD 1 0) ((bFromZnx64 P x).getD 2 0) ((bFromZnx64 P x).getD 3 0) = x :=
  crt_roundtrip P g hQ x h0 h1

/-- (c) **lazy accumulation never overflows 64 bits** — `vec_mat1col_product_bbc_ref`,
`vec_mat1col_product_x2_bbc_ref`, `vec_mat2cols_product_x2_bbc_ref` (all instances of `bbcOut`)
with the crate's `BbcMeta`: for fewer than 10 000 rows of arbitrary `u32` operands every output
residue equals the un-wrapped expression `collapse …`, is below `2^63 + 2^47`, and is congruent to
the exact dot product `Σ (x_lo·y_lo + x_hi·y_hi)` modulo its prime -/
theorem ntt120_bbc_no_overflow (P : PrimeSet) (g : P.Good) (b : P.Below31) (ell sx ox sy oy : Nat) (x y : Array Nat)
    (hell : ell < 10000) (hx : ∀ i, x.getD i 0 < 2 ^ 32) (hy : ∀ i, y.getD i 0 < 2 ^ 32) (k : Nat) (hk : k < 4) :
    (bbcOut (bbcMeta P) ell sx ox sy oy x y).getD k 0 =
      collapse (bbcH P) (pow2Mod 32 (P.qs.getD k 1)) (pow2Mod (32 + bbcH P) (P.qs.getD k 1))
        (sumLo (bbcTerms ell k sx ox sy oy x y)) (sumHi (bbcTerms ell k sx ox sy oy x y)) ∧
    (bbcOut (bbcMeta P) ell sx ox sy oy x y).getD k 0 < 2 ^ 63 + 2 ^ 47 ∧
    (bbcOut (bbcMeta P) ell sx ox sy oy x y).getD k 0 ≡ dot (bbcTerms ell k sx ox sy oy x y) [MOD P.qs.getD k 1] :=
  bbcOut_spec P g b ell sx ox sy oy x y hell hx hy k hk

/-- (c) the per-prime kernel statement does not depend on the floating-point search of
`BbcMeta::new`: it holds for **every** split point `16 ≤ h < 32` and constants below `2^31` -/
theorem ntt120_bbc_kernel_any_split (q h p1 p2 : Nat) (ts : List Term) (hts : ∀ t ∈ ts, Term.u32 t) (hell : ts.length < 10000)
    (hh : 16 ≤ h) (hh2 : h < 32) (hp1 : p1 < 2 ^ 31) (hp2 : p2 < 2 ^ 31)
    (e1 : p1 ≡ 2 ^ 32 [MOD q]) (e2 : p2 ≡ 2 ^ (32 + h) [MOD q]) :
    bbcK h p1 p2 ts = collapse h p1 p2 (sumLo ts) (sumHi ts) ∧ bbcK h p1 p2 ts < 2 ^ 63 + 2 ^ 47 ∧ bbcK h p1 p2 ts ≡ dot ts [MOD q] :=
  bbcK_spec q h p1 p2 ts hts hell hh hh2 hp1 hp2 e1 e2

/-- (c) `vec_mat1col_product_bbb_ref` with the crate's `BbbMeta` for Primes30 (and Primes29):
no 64-bit wrap for fewer than 10 000 rows of arbitrary `u64` operands, result congruent to `Σ xᵢ·yᵢ` -/
theorem ntt120_bbb_no_overflow (ell : Nat) (x y : Array Nat) (hell : ell < 10000)
    (hx : ∀ i, x.getD i 0 < 2 ^ 64) (hy : ∀ i, y.getD i 0 < 2 ^ 64) (k : Nat) (hk : k < 4) :
    bbbOutK (bbbMeta primes30) ell k x y ≡
      dot2 ((List.range ell).map (fun i => (x.getD (4 * i + k) 0, y.getD (4 * i + k) 0))) [MOD primes30.qs.getD k 1] ∧
    bbbOutK (bbbMeta primes29) ell k x y ≡
      dot2 ((List.range ell).map (fun i => (x.getD (4 * i + k) 0, y.getD (4 * i + k) 0))) [MOD primes29.qs.getD k 1] :=
  ⟨(bbbOutK_spec primes30 k (bbbCst30 k hk) ell x y hell hx hy).1, (bbbOutK_spec primes29 k (bbbCst29 k hk) ell x y hell hx hy).1⟩

/-- (c) the lazy reductions by `Q_SHIFTED = Q[k] << 33` (`add_bbb_ref` / `NttAdd`, `NttSub`,
`NttNegate` and their in-place forms): no wrap, result below `2·Q_SHIFTED`, congruent to
`x + y`, `a − b`, `−a` — for primes below `2^30` (Primes29, Primes30) and arbitrary `u64` inputs -/
theorem ntt120_lazy_add_sub_neg (q x y : Nat) (hq0 : 0 < q) (hq : q < 2 ^ 30) :
    (addBbbK q x y < 2 * (q * 2 ^ 33) ∧ addBbbK q x y ≡ x + y [MOD q]) ∧
    (subBbbK q x y < 2 * (q * 2 ^ 33) ∧ subBbbK q x y + y ≡ x [MOD q]) ∧
    (0 < negBK q x ∧ negBK q x ≤ q * 2 ^ 33 ∧ negBK q x + x ≡ 0 [MOD q]) :=
  ⟨⟨(addBbbK_spec q x y hq0 hq).2.1, (addBbbK_spec q x y hq0 hq).2.2⟩,
   ⟨(subBbbK_spec q x y hq0 hq).2.1, (subBbbK_spec q x y hq0 hq).2.2⟩,
   ⟨(negBK_spec q x hq0 hq).2.1, (negBK_spec q x hq0 hq).2.2.1, (negBK_spec q x hq0 hq).2.2.2⟩⟩

/-- FULL STATEMENT of the documented contract of `add_bbb_ref` ("congruent to `x + y` and fits in 64
bits provided `x, y < Q[k] << 33`") for every prime set is FALSE for Primes31, whose
`2·(Q[k] << 33)` exceeds `2^64` (no back end uses Primes31): witness `x = y = (Q[0] << 33) − 1` -/
theorem add_bbb_primes31_counterexample :
    ¬ (addBbbK primes31.q0 (primes31.q0 * 2 ^ 33 - 1) (primes31.q0 * 2 ^ 33 - 1) ≡
        (primes31.q0 * 2 ^ 33 - 1) + (primes31.q0 * 2 ^ 33 - 1) [MOD primes31.q0]) := by
  decide +kernel

/-- (c) the AVX2 kernels' single conditional subtraction (`lazy_reduce`) coincides with `% Q_SHIFTED`
exactly on the documented input range `x < 2·Q_SHIFTED`; there NTT120Avx = NTT120Ref bit for bit -/
theorem ntt120_avx_lazy_eq_ref (q x y : Nat) (hq0 : 0 < q) (hq : q < 2 ^ 30) (hx : x < 2 * (q * 2 ^ 33)) (hy : y < 2 * (q * 2 ^ 33)) :
    addBbbAvxK q x y = addBbbK q x y ∧ subBbbAvxK q x y = subBbbK q x y ∧ negBAvxK q x = negBK q x :=
  ⟨addBbbAvxK_eq q x y hq0 hq hx hy, subBbbAvxK_eq q x y hq0 hq hx hy, negBAvxK_eq q x hq0 hq hx⟩

/-- outside that range the two differ (witness: the largest `u64`) — the AVX2 kernels rely on the
input range, the reference kernels do not -/
theorem ntt120_avx_lazy_differs_outside :
    addBbbAvxK primes30.q0 (2 ^ 64 - 1) 0 ≠ addBbbK primes30.q0 (2 ^ 64 - 1) 0 := by
  decide +kernel

/-- (c) Barrett-style reduction of the butterflies (`modq_red`) and the split multiplication by a
packed twiddle (`split_precompmul`): no wrap, congruent to the input resp. to `inp·ω` -/
theorem ntt120_modq_red (q x h cst : Nat) (hh : h < 64) (hc : cst < 2 ^ 31) (hx : x < 2 ^ 64) (hroom : 33 ≤ h)
    (e : cst ≡ 2 ^ h [MOD q]) :
    modqRed x h (2 ^ h - 1) cst = x % 2 ^ h + x / 2 ^ h * cst ∧ modqRed x h (2 ^ h - 1) cst ≡ x [MOD q] :=
  modqRed_spec q x h cst hh hc hx hroom e

theorem ntt120_split_precompmul (q inp t t1 hb : Nat) (ht : t < 2 ^ 31) (ht1 : t1 < 2 ^ 31) (hhb : hb ≤ 32)
    (hinp : inp < 2 ^ (2 * hb)) (e : t1 ≡ t * 2 ^ hb [MOD q]) :
    splitPrecompmul inp (t1 * 2 ^ 32 + t) hb (2 ^ hb - 1) = inp % 2 ^ hb * t + inp / 2 ^ hb * t1 ∧
    splitPrecompmul inp (t1 * 2 ^ 32 + t) hb (2 ^ hb - 1) ≡ inp * t [MOD q] :=
  splitPrecompmul_spec q inp t t1 hb ht ht1 hhb hinp e

/-- `pow2_mod(e, q) = 2^e mod q` (the reduction constants of every meta structure) -/
theorem ntt120_pow2_mod (e q : Nat) (hq : 1 < q) (he : e < 2 ^ 64) : pow2Mod e q ≡ 2 ^ e [MOD q] ∧ pow2Mod e q < q :=
  ⟨pow2Mod_spec e q hq he, pow2Mod_lt e q hq⟩

/-- (d) the residue map `Z → Z_{q}` is a ring homomorphism on representatives -/
theorem ntt120_residue_ring_hom (q : Nat) (a b : Int) (ra rb : Nat) (ha : (ra : Int) ≡ a [ZMOD q]) (hb : (rb : Int) ≡ b [ZMOD q]) :
    ((ra * rb : Nat) : Int) ≡ a * b [ZMOD q] ∧ ((ra + rb : Nat) : Int) ≡ a + b [ZMOD q] :=
  ⟨residue_mul q a b ra rb ha hb, residue_add q a b ra rb ha hb⟩

/-- (d) one slot of `svp_apply_dft_to_dft` (`c_from_b` on the prepared operand, `bbc` with
`ell = 1`): the product of the two lazy residues modulo the prime, no 64-bit wrap, any `u64` inputs -/
theorem ntt120_slot_product (q h fa fb : Nat) (hq : 1 < q) (hq31 : q < 2 ^ 31) (hh : 16 ≤ h) (hh2 : h < 32) (hfa : fa < 2 ^ 64) :
    slotProductK q h fa fb ≡ fa * fb [MOD q] ∧ slotProductK q h fa fb < 2 ^ 63 + 2 ^ 47 :=
  slotProductK_modEq q h fa fb hq hq31 hh hh2 hfa

/-- (d) **the NTT120 product pipeline equals the exact negacyclic product below `Q/2`**, under the
explicit assumption `NttIsRingIso` on the butterfly networks of the four lanes (NOT proved; tied by
the correspondence check): `b_from_znx64 → ntt → c_from_b → bbc → intt → b_to_znx128` applied to
`i64` limbs `p`, `x` of length `n` returns exactly `p ⋆ x` whenever every coefficient of `p ⋆ x` is at
most `(Q−1)/2` in absolute value -/
theorem ntt120_pipeline_exact_partial (P : PrimeSet) (g : P.Good) (b : P.Below31)
    (n : Nat) (ntt intt : Nat → List Nat → List Nat)
    (iso0 : NttIsRingIso n P.q0 (ntt 0) (intt 0)) (iso1 : NttIsRingIso n P.q1 (ntt 1) (intt 1))
    (iso2 : NttIsRingIso n P.q2 (ntt 2) (intt 2)) (iso3 : NttIsRingIso n P.q3 (ntt 3) (intt 3))
    (hu64 : ∀ k v, v.length = n → (∀ i, i < n → v.getD i 0 < 2 ^ 64) → ∀ i, i < n → (ntt k v).getD i 0 < 2 ^ 64)
    (p x : Poly) (hp : p.length = n) (hx : x.length = n)
    (hpr : ∀ c ∈ p, -(2 ^ 63) ≤ c ∧ c < 2 ^ 63) (hxr : ∀ c ∈ x, -(2 ^ 63) ≤ c ∧ c < 2 ^ 63)
    (hbound : ∀ i, i < n → -(((bigQ P : Int) - 1) / 2) ≤ (negMul p x).getD i 0 ∧ (negMul p x).getD i 0 ≤ ((bigQ P : Int) - 1) / 2) :
    nttPipeline P (bbcH P) ntt intt p x = negMul p x :=
  nttPipeline_exact P g b n (bbcH P) (bbcH_range P).1 (bbcH_range P).2 ntt intt iso0 iso1 iso2 iso3 hu64 p x hp hx hpr hxr hbound

/-
FULL STATEMENT (not proved): the same with `ntt k := ntt_ref` / `intt k := intt_ref` of
`reference/ntt120/ntt.rs` (resp. the AVX2 twins) and no hypothesis `NttIsRingIso` — i.e. a proof that
the split-radix butterfly network with lazy Barrett reductions computes the evaluation map at the
odd powers of `ω` and its inverse.  Missing: a model of `ntt_butterfly_block` / `intt_butterfly_block`
and the level-by-level bit-size invariant of `NttTable::new`.
-/

/-- the hypothesis is satisfiable: at ring degree 1 (`ntt_ref` / `intt_ref` return immediately) the
identity is a ring isomorphism in the sense of `NttIsRingIso` -/
theorem ntt120_iso_degree_one (q : Nat) : NttIsRingIso 1 q id id := idIso q

/-- hence at `n = 1` the pipeline theorem holds outright (no assumption left): the executed
pipeline of a one-coefficient ring returns the integer product whenever `|a·b| ≤ (Q−1)/2` -/
theorem ntt120_pipeline_exact_degree_one (P : PrimeSet) (g : P.Good) (b : P.Below31) (a c : Int)
    (ha : -(2 ^ 63) ≤ a ∧ a < 2 ^ 63) (hc : -(2 ^ 63) ≤ c ∧ c < 2 ^ 63)
    (hbound : -(((bigQ P : Int) - 1) / 2) ≤ a * c ∧ a * c ≤ ((bigQ P : Int) - 1) / 2) :
    nttPipeline P (bbcH P) (fun _ => id) (fun _ => id) [a] [c] = [a * c] := by
  have e : negMul [a] [c] = [a * c] := by simp [negMul, polyAdd, polyScale, mulX]
  rw [← e]
  apply ntt120_pipeline_exact_partial P g b 1 (fun _ => id) (fun _ => id) (idIso _) (idIso _) (idIso _) (idIso _)
  · intro k v _ hv i hi
    exact hv i hi
  · rfl
  · rfl
  · intro x hx; simp at hx; subst hx; exact ha
  · intro x hx; simp at hx; subst hx; exact hc
  · intro i hi
    have i0 : i = 0 := by omega
    subst i0
    rw [e]; simpa using hbound

/-! non-vacuity: concrete instances of the hypotheses and statements above -/

example : bFromZnx64 primes30 (-1) = [9223372037798232568, 9223372036970549444, 9223372037283580214, 9223372037380339331] := by
  decide +kernel
example : ((9223372037798232568 : Nat) : Int) ≡ -1 [ZMOD (primes30.q0 : Nat)] := by decide +kernel
/-- CRT of canonical and of lazy residues of `−(Q−1)/2`, the most negative exact value -/
example : bToZnx128Core primes30 536739841 535756801 535363585 534118401 = -657821220234910467805273421263929344 := by
  decide +kernel
example : bToZnx128Core primes30 (536739841 + 17183798271 * primes30.q0) (535756801 + 3 * primes30.q1) 535363585
    (534118401 + 17268123647 * primes30.q3) = -657821220234910467805273421263929344 := by
  decide +kernel
example : bToZnx128Core primes30 ((bFromZnx64 primes30 (-(2 ^ 63))).getD 0 0) ((bFromZnx64 primes30 (-(2 ^ 63))).getD 1 0)
    ((bFromZnx64 primes30 (-(2 ^ 63))).getD 2 0) ((bFromZnx64 primes30 (-(2 ^ 63))).getD 3 0) = -(2 ^ 63) := by
  decide +kernel
/-- three rows of all-ones `u32` operands through the flat-operand function -/
example : (bbcOut (bbcMeta primes30) 3 8 0 8 0 (Array.replicate 24 (2 ^ 32 - 1)) (Array.replicate 24 (2 ^ 32 - 1))).getD 0 0
    % primes30.q0 = (3 * 2 * (2 ^ 32 - 1) * (2 ^ 32 - 1)) % primes30.q0 := by
  decide +kernel
example : primes30.Below31 ∧ primes29.Below31 ∧ primes31.Below31 := by
  unfold PrimeSet.Below31; decide +kernel
/-- the whole executed `n = 1` pipeline on a product just inside / just outside `Q/2` -/
example : scalarPipeline primes30 25 (2 ^ 60) 570568956868604318 = 2 ^ 60 * 570568956868604318 := by decide +kernel
example : scalarPipeline primes30 25 (2 ^ 60) 570568956868604319 = 2 ^ 60 * 570568956868604319 - bigQ primes30 := by decide +kernel
example : nttPipeline primes30 25 (fun _ => id) (fun _ => id) [-3] [5] = [-15] := by decide +kernel

end NTT120

/-! ## The NTT120 transforms themselves (`ntt_ref` / `intt_ref`, `NttTable::new` / `NttTableInv::new`)

The hypothesis `NttIsRingIso` of `ntt120_pipeline_exact_partial` is no longer needed: the butterfly
networks are modelled (`Ntt120.nttK`, `Ntt120.inttK` on `Ntt120.nttTableK`, `Ntt120.inttTableK`: levels,
packed twiddles, lazy Barrett reductions, bit-size schedule, final scaling by `n⁻¹`, every `u64` wrap
explicit; tied bit for bit through `pvh ntt120 ntt|intt|tab`) and proved.

Structure of the proof (`Lemmas/NttMath.lean`, `NttRefine.lean`, `NttTable.lean`, `NttFinal.lean`, `NttSum.lean`):
1. over any commutative ring, for **every** `k` (induction, no bound): the decimation-in-frequency
   network `dif ρ k` evaluates its input polynomial at the bit-reversed powers of `ρ` when
   `ρ^(2^(k−1)) = −1`; `nttM ω k` evaluates at the odd powers of `ω` (`ω^(2^k) = −1`), hence is additive
   and multiplicative for the negacyclic product; `dit ρ⁻¹ k ∘ dif ρ k = 2^k`, hence `inttM ∘ nttM = id`;
2. refinement: the executable lazy networks equal the mathematical ones modulo `q` and never wrap,
   given a decidable numeric schedule check (`fwdSchedOK` / `invSchedOK`, propagating the exact
   worst-case magnitude through the levels) and the twiddle conditions;
3. the real tables satisfy both, for every `n = 2^j`, `1 ≤ j ≤ 16` (the constructor asserts `n ≤ 2^16`):
   twiddles by general lemmas (`modq_pow`, successive multiplication, packing), the schedule by kernel
   evaluation of the metadata for Primes29/30/31 (`primes29_nttGood`, `primes30_nttGood`, `primes31_nttGood`). -/

section NTT120Transform
open Ntt120 NttMath

/-- the closed numeric facts (schedule checks for all 16 sizes × 4 primes, `OMEGA^(2^16) = −1`,
`2^17 ∣ q − 1`, `2^(q−1) = 1`, reduction constants) hold for the three prime sets of `primes.rs` -/
theorem ntt120_transform_facts : primes30.NttGood ∧ primes31.NttGood ∧ primes29.NttGood :=
  ⟨primes30_nttGood, primes31_nttGood, primes29_nttGood⟩

/-- `NttTable::new(2^j)` and `NttTableInv::new(2^j)` never hit their bit-size assertions, `1 ≤ j ≤ 16` -/
theorem ntt120_tables_never_panic (P : PrimeSet) (ng : P.NttGood) (k j : Nat) (hk : k < 4) (hj1 : 1 ≤ j) (hj : j ≤ 16) :
    (∃ t, nttTableK P k (2 ^ j) = .ok t) ∧ (∃ t, inttTableK P k (2 ^ j) = .ok t) :=
  ⟨nttTableK_ok P k j (ng k hk).1 hj1 hj, inttTableK_ok P k j (ng k hk).2 hj1 hj⟩

/-- the mathematical network evaluates, for every size `2^k` (no bound on `k`), over any commutative ring -/
theorem ntt_network_evaluates {R : Type*} [CommRing R] (ω : R) (k : Nat) (a : List R) (ha : a.length = 2 ^ k) (hω : ω ^ 2 ^ k = -1) :
    nttM ω k a = (pts (ω * ω) k).map (fun x => ev a (ω * x)) ∧ (∀ x ∈ pts (ω * ω) k, (ω * x) ^ 2 ^ k = -1) :=
  ⟨nttM_eval ω k a ha hω, nttM_point_pow ω k hω⟩

/-- (a) additive, and maps the negacyclic product to the point-wise product; (b) the inverse network inverts -/
theorem ntt_network_ring_iso {R : Type*} [CommRing R] (ω ω' ninv : R) (k : Nat) (a b : List R) (ha : a.length = 2 ^ k) (hb : b.length = 2 ^ k)
    (hω : ω ^ 2 ^ k = -1) (h : ω * ω' = 1) (hn : ninv * 2 ^ k = 1) :
    nttM ω k (addL a b) = addL (nttM ω k a) (nttM ω k b) ∧
    nttM ω k (negMulR a b) = mulL (nttM ω k a) (nttM ω k b) ∧
    inttM ω' ninv k (nttM ω k a) = a :=
  ⟨nttM_add ω k a b ha hb hω, nttM_mul ω k a b ha hb hω, inttM_nttM ω ω' ninv k h hn a ha⟩

/-- **`ntt_ref` is evaluation at the odd powers of `ψ = OMEGA^(2^16/n)`** in the code's output order
(`pts ψ² j`: bit-reversed), modulo the prime, for every `u64` input vector; no 64-bit wrap occurs
(the refinement proof carries the exact magnitudes) -/
theorem ntt120_ntt_ref_is_evaluation (P : PrimeSet) (ng : P.NttGood) (k j : Nat) (hk : k < 4) (hj1 : 1 ≤ j) (hj : j ≤ 16) (t : TableK)
    (ht : nttTableK P k (2 ^ j) = .ok t) (v : List Nat) (hv : v.length = 2 ^ j) (hu : ∀ x ∈ v, x ≤ 2 ^ 64 - 1) :
    (nttK t v).map (cz (P.qs.getD k 1)) =
      (pts (omegaZ P k j * omegaZ P k j) j).map (fun x => ev (v.map (cz (P.qs.getD k 1))) (omegaZ P k j * x)) ∧
    omegaZ P k j ^ 2 ^ j = -1 := by
  obtain ⟨e, _, _⟩ := nttK_real P k j (ng k hk).1 hj1 hj t ht v hv hu
  have hω := omegaZ_pow P k j (ng k hk).1 hj
  rw [e, nttM_eval _ j _ (by simpa using hv) hω]
  exact ⟨rfl, hω⟩

/-- **(a) for the real transform**: additive and multiplicative modulo the prime -/
theorem ntt120_ntt_ref_ring_hom (P : PrimeSet) (ng : P.NttGood) (k j : Nat) (hk : k < 4) (hj1 : 1 ≤ j) (hj : j ≤ 16) (t : TableK)
    (ht : nttTableK P k (2 ^ j) = .ok t) (u v w : List Nat) (hu : u.length = 2 ^ j) (hv : v.length = 2 ^ j) (hw : w.length = 2 ^ j)
    (uu : ∀ x ∈ u, x ≤ 2 ^ 64 - 1) (uv : ∀ x ∈ v, x ≤ 2 ^ 64 - 1) (uw : ∀ x ∈ w, x ≤ 2 ^ 64 - 1) :
    (w.map (cz (P.qs.getD k 1)) = negMulR (u.map (cz (P.qs.getD k 1))) (v.map (cz (P.qs.getD k 1))) →
      (nttK t w).map (cz (P.qs.getD k 1)) = mulL ((nttK t u).map (cz (P.qs.getD k 1))) ((nttK t v).map (cz (P.qs.getD k 1)))) ∧
    (w.map (cz (P.qs.getD k 1)) = addL (u.map (cz (P.qs.getD k 1))) (v.map (cz (P.qs.getD k 1))) →
      (nttK t w).map (cz (P.qs.getD k 1)) = addL ((nttK t u).map (cz (P.qs.getD k 1))) ((nttK t v).map (cz (P.qs.getD k 1)))) := by
  obtain ⟨eu, _, _⟩ := nttK_real P k j (ng k hk).1 hj1 hj t ht u hu uu
  obtain ⟨ev', _, _⟩ := nttK_real P k j (ng k hk).1 hj1 hj t ht v hv uv
  obtain ⟨ew, _, _⟩ := nttK_real P k j (ng k hk).1 hj1 hj t ht w hw uw
  have hω := omegaZ_pow P k j (ng k hk).1 hj
  refine ⟨fun h => ?_, fun h => ?_⟩
  · rw [ew, h, eu, ev', nttM_mul _ j _ _ (by simpa using hu) (by simpa using hv) hω]
  · rw [ew, h, eu, ev', nttM_add _ j _ _ (by simpa using hu) (by simpa using hv) hω]

/-- **(b) for the real transforms**: `intt_ref(ntt_ref(v)) ≡ v` modulo the prime, every `u64` vector -/
theorem ntt120_intt_ntt_id (P : PrimeSet) (ng : P.NttGood) (k j : Nat) (hk : k < 4) (hj1 : 1 ≤ j) (hj : j ≤ 16) (t ti : TableK)
    (ht : nttTableK P k (2 ^ j) = .ok t) (hti : inttTableK P k (2 ^ j) = .ok ti)
    (v : List Nat) (hv : v.length = 2 ^ j) (hu : ∀ x ∈ v, x ≤ 2 ^ 64 - 1) :
    (inttK ti (nttK t v)).map (cz (P.qs.getD k 1)) = v.map (cz (P.qs.getD k 1)) :=
  intt_ntt_real P k j (ng k hk).1 (ng k hk).2 hj1 hj t ti ht hti v hv hu

/-- **the NTT120 product pipeline is exact below `Q/2` — no hypothesis on the transform**:
`svp_prepare(p)`, `vec_znx_dft_apply(x)`, `svp_apply_dft_to_dft`, `vec_znx_idft_apply` on `i64` limbs of ring
degree `n = 2^j`, `1 ≤ j ≤ 16` (`b_from_znx64 → ntt_ref → c_from_b → bbc → intt_ref → b_to_znx128`, all
executable) return exactly the negacyclic product `p ⋆ x` whenever each of its coefficients is at most
`(Q−1)/2` in absolute value (`n = 1`: `ntt120_pipeline_exact_degree_one`) -/
theorem ntt120_pipeline_exact (P : PrimeSet) (g : P.Good) (ng : P.NttGood) (j : Nat) (hj1 : 1 ≤ j) (hj : j ≤ 16)
    (p x : Poly) (hp : p.length = 2 ^ j) (hx : x.length = 2 ^ j)
    (hpr : ∀ c ∈ p, -(2 ^ 63) ≤ c ∧ c < 2 ^ 63) (hxr : ∀ c ∈ x, -(2 ^ 63) ≤ c ∧ c < 2 ^ 63)
    (hbound : ∀ i, i < 2 ^ j → -(((bigQ P : Int) - 1) / 2) ≤ (negMul p x).getD i 0 ∧ (negMul p x).getD i 0 ≤ ((bigQ P : Int) - 1) / 2) :
    svpPipeline P (2 ^ j) p x = negMul p x :=
  svpPipeline_exact P g ng j hj1 hj p x hp hx hpr hxr hbound

/-- the same for the default prime set with its numbers: exact whenever `|coefficient| ≤ 2^118` -/
theorem ntt120_pipeline_exact_primes30 (j : Nat) (hj1 : 1 ≤ j) (hj : j ≤ 16)
    (p x : Poly) (hp : p.length = 2 ^ j) (hx : x.length = 2 ^ j)
    (hpr : ∀ c ∈ p, -(2 ^ 63) ≤ c ∧ c < 2 ^ 63) (hxr : ∀ c ∈ x, -(2 ^ 63) ≤ c ∧ c < 2 ^ 63)
    (hbound : ∀ i, i < 2 ^ j → -(2 ^ 118) ≤ (negMul p x).getD i 0 ∧ (negMul p x).getD i 0 ≤ 2 ^ 118) :
    svpPipeline primes30 (2 ^ j) p x = negMul p x := by
  have hq : ((bigQ primes30 : Nat) : Int) = 1315642440469820935610546842527858689 := by
    have := ntt120_Q.1; exact_mod_cast this
  apply ntt120_pipeline_exact primes30 primes30_good primes30_nttGood j hj1 hj p x hp hx hpr hxr
  intro i hi
  have := hbound i hi
  rw [hq]; omega

/-- **sums of products (`vmp`) are exact below `Q/2`**: fewer than 10 000 rows `(p_j, x_j)` (matrix entry,
input limb), `vmp_prepare`, `dft_apply`, `vmp_apply_dft_to_dft` (one output column), `idft_apply` return
exactly `Σ_j p_j ⋆ x_j` whenever each coefficient of the sum is at most `(Q−1)/2` in absolute value -/
theorem ntt120_vmp_exact (P : PrimeSet) (g : P.Good) (ng : P.NttGood) (j : Nat) (hj1 : 1 ≤ j) (hj : j ≤ 16)
    (rows : List (Poly × Poly)) (hell : rows.length < 10000)
    (hlen : ∀ r ∈ rows, r.1.length = 2 ^ j ∧ r.2.length = 2 ^ j)
    (hrng : ∀ r ∈ rows, (∀ c ∈ r.1, -(2 ^ 63) ≤ c ∧ c < 2 ^ 63) ∧ (∀ c ∈ r.2, -(2 ^ 63) ≤ c ∧ c < 2 ^ 63))
    (hbound : ∀ i, i < 2 ^ j →
      -(((bigQ P : Int) - 1) / 2) ≤ (sumPolys (2 ^ j) (rows.map (fun r => negMul r.1 r.2))).getD i 0 ∧
      (sumPolys (2 ^ j) (rows.map (fun r => negMul r.1 r.2))).getD i 0 ≤ ((bigQ P : Int) - 1) / 2) :
    vmpPipeline P (2 ^ j) rows = sumPolys (2 ^ j) (rows.map (fun r => negMul r.1 r.2)) :=
  vmpPipeline_exact P g ng j hj1 hj rows hell hlen hrng hbound

/-- **end to end, scalar-vector product**: what the NTT120 back end computes for limb `l` of
`svp_apply_dft` is exactly what the HAL specification model says (`svpApplyCol`: `negMul p limb`) -/
theorem ntt120_svp_matches_spec (P : PrimeSet) (g : P.Good) (ng : P.NttGood) (j : Nat) (hj1 : 1 ≤ j) (hj : j ≤ 16)
    (rs : Nat) (p : Poly) (b : Col) (l : Nat) (hl : l < rs) (hlb : l < b.length) (d : Poly)
    (hp : p.length = 2 ^ j) (hb : (limbOr0 (2 ^ j) b l).length = 2 ^ j)
    (hpr : ∀ c ∈ p, -(2 ^ 63) ≤ c ∧ c < 2 ^ 63) (hxr : ∀ c ∈ limbOr0 (2 ^ j) b l, -(2 ^ 63) ≤ c ∧ c < 2 ^ 63)
    (hbound : ∀ i, i < 2 ^ j → -(((bigQ P : Int) - 1) / 2) ≤ (negMul p (limbOr0 (2 ^ j) b l)).getD i 0 ∧
      (negMul p (limbOr0 (2 ^ j) b l)).getD i 0 ≤ ((bigQ P : Int) - 1) / 2) :
    svpPipeline P (2 ^ j) p (limbOr0 (2 ^ j) b l) = (svpApplyCol (2 ^ j) rs p b).getD l d := by
  rw [svp_limbwise (2 ^ j) rs p b l hl d, if_pos hlb]
  exact ntt120_pipeline_exact P g ng j hj1 hj p _ hp hb hpr hxr hbound

/-- **end to end, vector-matrix product**: one flat output entry of the HAL specification model
(`vmpFlat`, `limb_offset = 0`) is exactly what the NTT120 pipeline computes from the rows
`(matrix entry, input limb)` -/
theorem ntt120_vmp_matches_spec (P : PrimeSet) (g : P.Good) (ng : P.NttGood) (j : Nat) (hj1 : 1 ≤ j) (hj : j ≤ 16)
    (a : List Poly) (m : PMat) (rl r : Nat) (hr : r < rl) (hc : r < m.colsOut * m.size) (d : Poly)
    (hrows : min (m.colsIn * m.rows) a.length < 10000)
    (hlen : ∀ i, i < min (m.colsIn * m.rows) a.length → (m.entry i r).length = 2 ^ j ∧ (a.getD i (zeroP (2 ^ j))).length = 2 ^ j)
    (hrng : ∀ i, i < min (m.colsIn * m.rows) a.length →
      (∀ c ∈ m.entry i r, -(2 ^ 63) ≤ c ∧ c < 2 ^ 63) ∧ (∀ c ∈ a.getD i (zeroP (2 ^ j)), -(2 ^ 63) ≤ c ∧ c < 2 ^ 63))
    (hbound : ∀ i, i < 2 ^ j → -(((bigQ P : Int) - 1) / 2) ≤ ((vmpFlat (2 ^ j) a m 0 rl).getD r d).getD i 0 ∧
      ((vmpFlat (2 ^ j) a m 0 rl).getD r d).getD i 0 ≤ ((bigQ P : Int) - 1) / 2) :
    vmpPipeline P (2 ^ j) ((List.range (min (m.colsIn * m.rows) a.length)).map (fun i => (m.entry i r, a.getD i (zeroP (2 ^ j))))) =
      (vmpFlat (2 ^ j) a m 0 rl).getD r d := by
  have e : (vmpFlat (2 ^ j) a m 0 rl).getD r d =
      sumPolys (2 ^ j) (((List.range (min (m.colsIn * m.rows) a.length)).map (fun i => (m.entry i r, a.getD i (zeroP (2 ^ j))))).map
        (fun r => negMul r.2 r.1)) := by
    rw [vmp_entry (2 ^ j) a m 0 rl r hr d]
    have h1 : 0 * m.colsOut < min (m.colsOut * m.size) (rl + 0 * m.colsOut) ∧
        r < min (m.colsOut * m.size) (rl + 0 * m.colsOut) - 0 * m.colsOut := by
      simp only [Nat.zero_mul, Nat.add_zero, Nat.sub_zero]; omega
    rw [if_pos h1, List.map_map]
    congr 1
    apply List.map_congr_left
    intro i _
    simp only [Function.comp, Nat.zero_mul, Nat.add_zero]
  rw [e] at hbound ⊢
  apply vmpPipeline_exact_swapped P g ng j hj1 hj _ (by simpa using hrows)
  · intro r' hr'
    simp only [List.mem_map, List.mem_range] at hr'
    obtain ⟨i, hi, rfl⟩ := hr'
    exact hlen i hi
  · intro r' hr'
    simp only [List.mem_map, List.mem_range] at hr'
    obtain ⟨i, hi, rfl⟩ := hr'
    exact hrng i hi
  · exact hbound

/-! non-vacuity: the executable pipelines (tables, butterflies, lazy reductions, CRT) on concrete limbs -/

example : svpPipeline primes30 4 [1, 2, 0, 0] [3, 4, 0, 0] = [3, 10, 8, 0] := by decide +kernel
example : svpPipeline primes30 8 [0, 0, 0, 0, 0, 0, 0, 1] [0, -9223372036854775808, 0, 0, 0, 0, 0, 0] =
    [9223372036854775808, 0, 0, 0, 0, 0, 0, 0] := by decide +kernel
example : vmpPipeline primes30 2 [([1, 2], [3, 4]), ([-5, 6], [7, -8])] = polyAdd (negMul [1, 2] [3, 4]) (negMul [-5, 6] [7, -8]) := by
  decide +kernel
example : ∃ t, nttTableK primes30 0 65536 = .ok t :=
  (ntt120_tables_never_panic primes30 primes30_nttGood 0 16 (by decide) (by decide) (by decide)).1

end NTT120Transform

/-! ## The NTT120 back end at HAL level (`convolution.rs`, `vmp.rs`, `vec_znx_dft.rs` of `reference/ntt120`)

Whole HAL operations composed from the tied kernels (`Model/Ntt120Hal.lean`) against the exact-integer HAL
specification (`Model/HalSpec.lean`), for every `n = 2^j`, `1 ≤ j ≤ 16`:

* ranges: every forward-transform output is below `2·Q_SHIFTED`, every inverse output below `Q_SHIFTED`; the forward
  bound reaches `2^63` exactly when `log2 n ≡ 1 (mod 5)` — the sizes at which a *lazy* 64-bit sum of two outputs wraps;
* convolution: `cnv_prepare_left/right/self` (+ top-limb mask), `cnv_apply_dft`, `cnv_pairwise_apply_dft` (`i ≠ j`, canonical
  pack sums), `cnv_by_const_apply`, then `idft`: equal `Hal.cnvApplyCol` / `cnvPrepareCol` / `colAdd` when the result fits `(Q−1)/2`;
* vmp: `vec_znx_dft_apply`, `vmp_prepare`, `vmp_apply_dft_to_dft(limb_offset)` (sub-shapes, zero fill, paired / odd columns,
  1-col / 2-cols kernels, prepared layout), then `idft`: equal `Hal.vmpFlat`;
* arbitrary compositions of DFT-domain operations (`DExpr`): the stored lanes represent the specified polynomial, every
  residue stays below `2·Q_SHIFTED`, the AVX2 lazy kernels store the same bits;
* the remaining kernels: `add_ccc`, `baa`, `bbb::<Primes31>`, `fill_reduction_meta(64)`, the fused CRT of `idft_apply_consume`;
* bridge to C10: each HAL step of NTT120Avx computes the reference lanes on every state that can occur. -/

section NTT120Hal
open Ntt120 NttMath

/-- **ranges of the transforms** (Primes30, all 16 sizes, all four lanes): `ntt_ref` outputs `< 2·(Q[k] << 33)` and `intt_ref`
outputs `< Q[k] << 33`, for EVERY `u64` input; and the forward bound is at least `2^63` iff `log2 n ≡ 1 (mod 5)` -/
theorem ntt120_transform_ranges (k j : Nat) (hk : k < 4) (hj1 : 1 ≤ j) (hj : j ≤ 16) (t ti : TableK)
    (ht : nttTableK primes30 k (2 ^ j) = .ok t) (hti : inttTableK primes30 k (2 ^ j) = .ok ti)
    (v : List Nat) (hv : v.length = 2 ^ j) (hu : ∀ x ∈ v, x ≤ 2 ^ 64 - 1) :
    (∀ x ∈ nttK t v, x < 2 * (primes30.qs.getD k 1 * 2 ^ 33)) ∧ (∀ x ∈ inttK ti v, x < primes30.qs.getD k 1 * 2 ^ 33) ∧
    (2 ^ 63 ≤ fwdFinal primes30 k j ↔ j % 5 = 1) := by
  have g := primes30_nttGood k hk
  obtain ⟨r1, r2⟩ := primes30_transform_ranges k hk j (by omega) hj1
  refine ⟨fun x hx => ?_, fun x hx => ?_, primes30_fwd_bound_fills_64_bits k hk j (by omega) hj1⟩
  · have := nttK_real_bound primes30 k j g.1 hj1 hj t ht v hv hu x hx; omega
  · have := inttK_real_bound primes30 k j g.1 g.2 hj1 hj ti hti v hv hu x hx; omega

/-- **the seeded lazy pack really wraps**: `lazyWitness` is slot 39 of prime 0 of the forward transform (`n = 64`) of the constant
limb `i64::MAX`; it exceeds `2^63`; the canonical pack of `(w, w)` is congruent to `2w`, the lazy 64-bit sum `(w + w) mod 2^64`
(split into its two `u32` halves) is not — `cnv_pairwise_apply_dft` with the lazy pack is wrong at `log2 n ≡ 1 (mod 5)` -/
theorem ntt120_lazy_pairwise_pack_wraps :
    (lazyWitness = 14134845492789138207 ∧ 2 ^ 63 ≤ lazyWitness) ∧
    ¬ ((pairwisePackLeftLazyK lazyWitness lazyWitness).1 + 2 ^ 32 * (pairwisePackLeftLazyK lazyWitness lazyWitness).2
        ≡ lazyWitness + lazyWitness [MOD primes30.q0]) ∧
    (pairwisePackLeftK primes30.q0 lazyWitness lazyWitness).1 ≡ lazyWitness + lazyWitness [MOD primes30.q0] :=
  ⟨lazyWitness_value, lazy_pairwise_pack_wraps.1, lazy_pairwise_pack_wraps.2⟩

/-- **`ntt120_cnv_matches_spec`**: `cnv_prepare_left(a, mask_a)`, `cnv_prepare_right(b, mask_b)`, `cnv_apply_dft(cnv_offset)`,
`vec_znx_idft_apply` on the NTT120 back end compute exactly `Hal.cnvApplyCol` of the prepared columns (the bivariate negacyclic
convolution truncated at `cnv_offset`, top limbs masked, zero fill), whenever the specified result fits `(Q−1)/2` -/
theorem ntt120_cnv_matches_spec (P : PrimeSet) (g : P.Good) (ng : P.NttGood) (j : Nat) (hj1 : 1 ≤ j) (hj : j ≤ 16)
    (rs off la lb : Nat) (mA mB : Int) (a b : Col) (ha : ColOK j a) (hb : ColOK j b) (hla : 0 < la) (hlb : 0 < lb) (hsz : la < 10000)
    (hbound : ∀ l, l < rs → ∀ i, i < 2 ^ j →
      -(((bigQ P : Int) - 1) / 2) ≤ ((cnvApplyCol (2 ^ j) rs off (cnvPrepareCol (2 ^ j) la mA a) (cnvPrepareCol (2 ^ j) lb mB b)).getD l (zeroP (2 ^ j))).getD i 0 ∧
      ((cnvApplyCol (2 ^ j) rs off (cnvPrepareCol (2 ^ j) la mA a) (cnvPrepareCol (2 ^ j) lb mB b)).getD l (zeroP (2 ^ j))).getD i 0 ≤ ((bigQ P : Int) - 1) / 2) :
    cnvPipeline P (2 ^ j) rs off la lb mA mB a b =
      cnvApplyCol (2 ^ j) rs off (cnvPrepareCol (2 ^ j) la mA a) (cnvPrepareCol (2 ^ j) lb mB b) :=
  cnvPipeline_exact P g ng j hj1 hj rs off la lb mA mB a b ha hb hla hlb hsz hbound

/-- **`cnv_pairwise_apply_dft`, `i ≠ j`** (canonical pack sums `(a_i%q + a_j%q) mod q`, `u32` sums on the right): the result is
`cnvApplyCol` of the column sums `(a_i + a_j)`, `(b_i + b_j)` of the prepared columns -/
theorem ntt120_cnv_pairwise_matches_spec (P : PrimeSet) (g : P.Good) (ng : P.NttGood) (j : Nat) (hj1 : 1 ≤ j) (hj : j ≤ 16)
    (rs off la lb : Nat) (mA mB : Int) (ai aj bi bj : Col) (hai : ColOK j ai) (haj : ColOK j aj) (hbi : ColOK j bi) (hbj : ColOK j bj)
    (hla : 0 < la) (hlb : 0 < lb) (hsz : la < 10000)
    (hbound : ∀ l, l < rs → ∀ i, i < 2 ^ j →
      -(((bigQ P : Int) - 1) / 2) ≤ ((cnvApplyCol (2 ^ j) rs off
          (colAdd (2 ^ j) (cnvPrepareCol (2 ^ j) la mA ai) (cnvPrepareCol (2 ^ j) la mA aj))
          (colAdd (2 ^ j) (cnvPrepareCol (2 ^ j) lb mB bi) (cnvPrepareCol (2 ^ j) lb mB bj))).getD l (zeroP (2 ^ j))).getD i 0 ∧
      ((cnvApplyCol (2 ^ j) rs off
          (colAdd (2 ^ j) (cnvPrepareCol (2 ^ j) la mA ai) (cnvPrepareCol (2 ^ j) la mA aj))
          (colAdd (2 ^ j) (cnvPrepareCol (2 ^ j) lb mB bi) (cnvPrepareCol (2 ^ j) lb mB bj))).getD l (zeroP (2 ^ j))).getD i 0 ≤ ((bigQ P : Int) - 1) / 2) :
    cnvPairwisePipeline P (2 ^ j) rs off la lb mA mB ai aj bi bj =
      cnvApplyCol (2 ^ j) rs off (colAdd (2 ^ j) (cnvPrepareCol (2 ^ j) la mA ai) (cnvPrepareCol (2 ^ j) la mA aj))
        (colAdd (2 ^ j) (cnvPrepareCol (2 ^ j) lb mB bi) (cnvPrepareCol (2 ^ j) lb mB bj)) :=
  cnvPairwisePipeline_exact P g ng j hj1 hj rs off la lb mA mB ai aj bi bj hai haj hbi hbj hla hlb hsz hbound

/-- **`cnv_by_const_apply`** (coefficient domain, `i128` accumulators): exact while no accumulator leaves the `i128` range -/
theorem ntt120_cnv_by_const_exact (n rs off : Nat) (a : Col) (b : List Int)
    (h : ∀ l ∈ cnvByConstCol id n rs off a b, ∀ x ∈ l, -(2 ^ 127) ≤ x ∧ x < 2 ^ 127) :
    cnvByConstCol w128 n rs off a b = cnvByConstCol id n rs off a b := cnvByConst_exact n rs off a b h

/-- **`vec_znx_dft_apply(step, offset)`**: every stored lane represents (is the negacyclic transform modulo `Q[k]` of) the limb
`Hal.dftApplyCol` selects — input limb `offset + l·step` or zero -/
theorem ntt120_dft_apply_matches_spec (P : PrimeSet) (ng : P.NttGood) (k j : Nat) (hk : k < 4) (hj1 : 1 ≤ j) (hj : j ≤ 16)
    (step offset rs : Nat) (a : Col) (ha : ColOK j a) (l : Nat) (hl : l < rs) :
    Rep P k j ((dftApplyLaneK (P.qs.getD k 1) (2 ^ j) (realNtt P (2 ^ j) k) step offset rs a).getD l [])
      ((dftApplyCol (2 ^ j) step offset rs a).getD l (zeroP (2 ^ j))) :=
  dftApplyLane_rep P k j (laneCtx_of P ng k j hk hj1 hj) step offset rs a ha l hl

/-- **`ntt120_vmp_matches_spec` for the full signature**: `vec_znx_dft_apply` on the input limbs, `vmp_prepare` on the matrix,
`vmp_apply_dft_to_dft(res, a, pmat, limb_offset)`, `vec_znx_idft_apply` compute exactly `Hal.vmpFlat` — any `limb_offset`,
`row_max = min(rows·cols_in, |a|)`, `col_max = min(cols_out·size, |res| + limb_offset·cols_out)`, zero fill beyond, paired and
odd columns — whenever the specified result fits `(Q−1)/2` -/
theorem ntt120_vmp_full_matches_spec (P : PrimeSet) (g : P.Good) (ng : P.NttGood) (j : Nat) (hj1 : 1 ≤ j) (hj : j ≤ 16)
    (aFlat : List Poly) (m : PMat) (limbOffset resLen : Nat) (ha : ColOK j aFlat) (hm : PMatOK j m)
    (hrow : min (m.colsIn * m.rows) aFlat.length < 10000)
    (hbound : ∀ r, r < resLen → ∀ i, i < 2 ^ j →
      -(((bigQ P : Int) - 1) / 2) ≤ ((vmpFlat (2 ^ j) aFlat m limbOffset resLen).getD r (zeroP (2 ^ j))).getD i 0 ∧
      ((vmpFlat (2 ^ j) aFlat m limbOffset resLen).getD r (zeroP (2 ^ j))).getD i 0 ≤ ((bigQ P : Int) - 1) / 2) :
    vmpFullPipeline P (2 ^ j) aFlat m limbOffset resLen = vmpFlat (2 ^ j) aFlat m limbOffset resLen :=
  vmpFullPipeline_exact P g ng j hj1 hj aFlat m limbOffset resLen ha hm hrow hbound

/-- the same on ARBITRARY DFT-domain input (any `u64` residues representing `aFlat`, e.g. results of earlier lazy operations):
every output lane represents the `vmpFlat` limb and every stored residue is at most `2^63 + 2^47` -/
theorem ntt120_vmp_any_input (P : PrimeSet) (ng : P.NttGood) (k j : Nat) (hk : k < 4) (hj1 : 1 ≤ j) (hj : j ≤ 16)
    (A : List (List Nat)) (aFlat : List Poly) (M : Nat → Nat → List (Nat × Nat)) (m : PMat) (limbOffset resLen : Nat)
    (hA : A.length = aFlat.length) (hrow : min (m.colsIn * m.rows) aFlat.length < 10000)
    (hAr : ∀ i (hi : i < aFlat.length), Rep P k j (A.getD i []) (aFlat[i]))
    (hM : ∀ i cc, i < min (m.colsIn * m.rows) aFlat.length → cc < m.colsOut * m.size → PrepRep P k j (M i cc) (m.entry i cc))
    (r : Nat) (hr : r < resLen) :
    Rep P k j
      ((vmpApplyLaneK (P.qs.getD k 1) (bbcH P) (2 ^ j) A M (m.colsIn * m.rows) (m.colsOut * m.size) (limbOffset * m.colsOut) resLen).getD r [])
      ((vmpFlat (2 ^ j) aFlat m limbOffset resLen).getD r (zeroP (2 ^ j))) ∧
    ∀ x ∈ (vmpApplyLaneK (P.qs.getD k 1) (bbcH P) (2 ^ j) A M (m.colsIn * m.rows) (m.colsOut * m.size) (limbOffset * m.colsOut) resLen).getD r [],
      x ≤ 2 ^ 63 + 2 ^ 47 :=
  vmpApplyLane_rep P k j (laneCtx_of P ng k j hk hj1 hj) A aFlat M m limbOffset resLen hA hrow hAr hM r hr

/-- **the kernel calls of `vmp_apply_dft_to_dft_core`** (one block iteration, `limb_offset < col_max ≤ ncols`): the
`save_blk` calls write every active result column exactly once, in increasing order (`vmpWrites = range.map vmpSource`: even /
odd `limb_offset`, even / odd `col_max`, 2-column kernel halves, 1-column kernel for the last column of an odd matrix), and the
block each call reads for row `i` is exactly the slot where `vmp_prepare` stored entry `(i, r + limb_offset)` -/
theorem ntt120_vmp_kernel_calls (nrows ncols L colMax : Nat) (hL : L < colMax) (hcm : colMax ≤ ncols) :
    vmpWrites L colMax ncols = (List.range (colMax - L)).map (vmpSource L colMax ncols) ∧
    ∀ r blk i, r < colMax - L →
      vmpReadAddr nrows ncols (vmpSource L colMax ncols r) blk i = vmpSlotAddr nrows ncols i (r + L) blk :=
  ⟨vmpWrites_eq L colMax ncols hL, fun r blk i hr => vmpReadAddr_eq_slot nrows ncols L colMax r blk i hL hcm hr⟩

/-- **the block-interleaved layout of `vmp_prepare`**: slots are 16-word aligned, inside the `n_blks·nrows·ncols·16`-word buffer,
and distinct `(row, col, blk)` get distinct (hence disjoint) slots — no entry overwrites another -/
theorem ntt120_vmp_prepared_layout (nrows ncols nblks row col blk row' col' blk' : Nat) (hrow : row < nrows) (hcol : col < ncols)
    (hblk : blk < nblks) (hrow' : row' < nrows) (hcol' : col' < ncols) :
    vmpSlotAddr nrows ncols row col blk % 16 = 0 ∧
    vmpSlotAddr nrows ncols row col blk + 16 ≤ nblks * (nrows * ncols * 16) ∧
    (vmpSlotAddr nrows ncols row col blk = vmpSlotAddr nrows ncols row' col' blk' → row = row' ∧ col = col' ∧ blk = blk') :=
  vmpSlotAddr_inj_bound nrows ncols nblks row col blk row' col' blk' hrow hcol hblk hrow' hcol'

/-- **the lazy range invariant over arbitrary operation sequences** (Primes30): whatever finite sequence of zero fills,
`vec_znx_dft_apply`s, `bbc` products and lazy `add / sub / negate`s produced a stored residue (`Reach`), it is below
`2·(Q[k] << 33)` — with the reference kernels and with the AVX2 kernels — and the two back ends reach the same values.  This
closes the observation that the AVX2 lazy add is only correct for `x < 2·Q_SHIFTED`: the HAL never leaves that range. -/
theorem ntt120_lazy_range_invariant (k j : Nat) (hk : k < 4) (hj1 : 1 ≤ j) (hj : j ≤ 16) (avx : Bool) (x : Nat)
    (h : Reach primes30 k j avx x) :
    x < 2 * (primes30.qs.getD k 1 * 2 ^ 33) ∧ (Reach primes30 k j true x ↔ Reach primes30 k j false x) :=
  ⟨reach_lt primes30 k j avx (primes30_reachFacts k j hk hj1 hj) x h, reach_avx_iff primes30 k j (primes30_reachFacts k j hk hj1 hj) x⟩

/-- **any composition of DFT-domain HAL operations** (`DExpr`: zero, `dft_apply`, one-row product with a prepared polynomial,
lazy add / sub / negate, nested to any depth; Primes30): the stored lane represents the specified polynomial, every residue is
below `2·(Q[k] << 33)`, and the AVX2 lazy kernels store exactly the bits of the reference kernels -/
theorem ntt120_hal_compositions (k j : Nat) (hk : k < 4) (hj1 : 1 ≤ j) (hj : j ≤ 16) (e : DExpr) (hw : e.WF j) :
    Rep primes30 k j (e.lane primes30 k (2 ^ j) false) (e.spec (2 ^ j)) ∧
    e.lane primes30 k (2 ^ j) true = e.lane primes30 k (2 ^ j) false ∧
    ∀ avx, ∀ x ∈ e.lane primes30 k (2 ^ j) avx, x < 2 * (primes30.qs.getD k 1 * 2 ^ 33) :=
  ⟨(dexpr_sound primes30 k j (laneCtx_of primes30 primes30_nttGood k j hk hj1 hj) (primes30_reachFacts k j hk hj1 hj) e hw).1,
   dexpr_avx_eq_ref primes30 k j (laneCtx_of primes30 primes30_nttGood k j hk hj1 hj) (primes30_reachFacts k j hk hj1 hj) e hw,
   fun avx => dexpr_range primes30 k j (laneCtx_of primes30 primes30_nttGood k j hk hj1 hj) (primes30_reachFacts k j hk hj1 hj) e hw avx⟩

/-! ### the remaining kernels -/

/-- `add_ccc_ref`: the canonical sum modulo the prime of two `u32` words -/
theorem ntt120_add_ccc (q x y : Nat) (hq0 : 0 < q) (hq : q < 2 ^ 32) (hx : x < 2 ^ 32) (hy : y < 2 ^ 32) :
    addCccK q x y = (x + y) % q ∧ addCccK q x y < q := addCccK_spec q x y hq0 hq hx hy

/-- `vec_mat1col_product_baa_ref` with the crate's `BaaMeta`, Primes29/30/31: no 64-bit wrap for fewer than 10 000 rows of `u32`
operands, result congruent to the dot product -/
theorem ntt120_baa_no_overflow (P : PrimeSet) (hP : P ∈ [primes29, primes30, primes31]) (k : Nat) (hk : k < 4) (ts : List (Nat × Nat))
    (hu : ∀ t ∈ ts, t.1 < 2 ^ 32 ∧ t.2 < 2 ^ 32) (hell : ts.length < 10000) :
    baaK (baaMeta P).h ((baaMeta P).hPowRed.getD k 0) ts ≡ dotA ts [MOD P.qs.getD k 1] := baaOut_spec P hP k hk ts hu hell

/-- `vec_mat1col_product_bbb_ref::<Primes31>`: correct as well (the constants only fit `2^31`, the split point 24 leaves room) -/
theorem ntt120_bbb_primes31 (k : Nat) (hk : k < 4) (ell : Nat) (x y : Array Nat) (hell : ell < 10000)
    (hx : ∀ i, x.getD i 0 < 2 ^ 64) (hy : ∀ i, y.getD i 0 < 2 ^ 64) :
    bbbOutK (bbbMeta primes31) ell k x y ≡ dot2 ((List.range ell).map (fun i => (x.getD (4 * i + k) 0, y.getD (4 * i + k) 0))) [MOD primes31.qs.getD k 1] :=
  bbbOutK_spec31 k hk ell x y hell hx hy

/-- `fill_reduction_meta(64)` for the three prime sets: the chosen split point and constants make `modq_red` map every `u64` to
a congruent value below `2^bs_after ≤ 2^48` -/
theorem ntt120_fill_reduction_meta (P : PrimeSet) (hP : P ∈ [primes29, primes30, primes31]) (k : Nat) (hk : k < 4) (x : Nat) (hx : x < 2 ^ 64) :
    modqRed x (fillReductionMeta P 64).h (fillReductionMeta P 64).mask ((fillReductionMeta P 64).cst.getD k 0) ≡ x [MOD P.qs.getD k 1] ∧
    modqRed x (fillReductionMeta P 64).h (fillReductionMeta P 64).mask ((fillReductionMeta P 64).cst.getD k 0) < 2 ^ (fillReductionMeta P 64).bsAfter ∧
    (fillReductionMeta P 64).bsAfter ≤ 48 := modqRed_meta_spec P hP k hk x hx

/-- **`vec_znx_idft_apply_consume` = `vec_znx_idft_apply`** on one coefficient: the fused per-prime Barrett CRT digits, the `u128`
sum (no wrap), the table reduction (index ≤ 3, no panic) and the symmetric lift of `compact_all_blocks_scalar` equal
`b_to_znx128_ref` for every q120b word in the inverse transform's output range -/
theorem ntt120_idft_consume_eq_apply (x0 x1 x2 x3 : Nat) (h0 : x0 < primes30.q0 * 2 ^ 33) (h1 : x1 < primes30.q1 * 2 ^ 33)
    (h2 : x2 < primes30.q2 * 2 ^ 33) (h3 : x3 < primes30.q3 * 2 ^ 33) :
    compactCrt primes30 [x0, x1, x2, x3] = .ok (bToZnx128Core primes30 x0 x1 x2 x3) :=
  compactCrt_eq_bToZnx128 x0 x1 x2 x3 h0 h1 h2 h3

/-! ### bridge to C10: every `ntt120_*_matches_spec` holds for NTT120Avx

The theorems above are about the reference lane functions (`bFromU64K`, `nttK`, `cPairK`/`cFromBK`, `packLeftK`, `bbcK`,
`addBbbK`/`subBbbK`/`negBK`, `inttK`, `bToZnx128Core`).  The AVX2 back end differs only in these kernels; for each of them the
C10 lane model (`Model/AvxNtt.lean`, `BitVec 64` intrinsics) computes the same value on every operand that can occur:

| HAL step | C10 lemma used | range needed | provided by |
|---|---|---|---|
| `b_from_znx64[_masked]` | `Avx.Ntt.bFromZnx64_eq_ref` | none (all `i64`) | — |
| `ntt_avx2` | `Avx.Ntt.nttAvx_real` | none (all `u64`) | its hypothesis `fitsTable` (table entries are `u64`) proved here: `nttTable_fits` |
| `c_from_b_avx2`, `pack_left` | `Avx.Ntt.barrett_eq_mod`, `reduceB_toNat` (C10) + `cFromB_eq_ref_wide` (here) | none (all `u64`) | `2^32 mod Q[k] < 2^28` |
| `pairwise_pack_left` | `reduceB_toNat`, `condSub_toNat` (C10) + `pairwisePackLeft_eq_ref_wide` (here) | none (all `u64`) | `2^32 mod Q[k] < 2^28` |
| `pairwise_pack_right` | `C10.NttAvx.ntt120_avx_pairwise_pack_right_eq_ref` | none (wrapping `u32` sum) | — |
| `bbc` 1col / x2 / 2cols | `Avx.Ntt.bbcLane_eq_ref` | none (`< 2^24` rows of any `u64`) | — |
| lazy add / sub / negate | `C10.NttAvx.ntt120_avx_lazy_lanes_all_inputs` (intrinsics = `addBbbAvxK` …, all inputs; SAT-backed, C10's axioms) | `x < 2·Q_SHIFTED` for `addBbbAvxK = addBbbK` | `ntt120_hal_compositions` / `ntt120_lazy_range_invariant` (here; `AvxBridge.avx_lazy_on_reachable` composes the two) |
| `intt_avx2` | `Avx.Ntt.inttAvx_real` | none | `fitsTable`: `inttTable_fits` |
| `b_to_znx128_avx2` | `Avx.Ntt.bToZnx128Avx_eq_ref` | `x < Q·2^33` | `inttK_real_bound` + `primes30_transform_ranges` |

Since the x2-block / column layouts are shared by the two back ends, the AVX2 pipelines store the reference pipelines' bits, and
`ntt120_svp_matches_spec`, `ntt120_vmp_full_matches_spec`, `ntt120_cnv_matches_spec`, `ntt120_dft_apply_matches_spec`,
`ntt120_hal_compositions` hold for NTT120Avx as stated. -/

/-- `c_from_b_avx2`, `pack_left_1blk_x2_avx2` and `pairwise_pack_left_1blk_x2_avx2` with the Primes30 constants equal the reference on EVERY 64-bit word (C10 proves
`x < Q·2^33`; forward transform outputs exceed that, e.g. `lazyWitness`) -/
theorem ntt120avx_prepare_all_inputs (k : Nat) (hk : k < 4) (x : BitVec 64) :
    ((Avx.Ntt.cFromB x (BitVec.ofNat 64 (Avx.Q120.Q.getD k 0)) (BitVec.ofNat 64 (Avx.Q120.MU.getD k 0)) (BitVec.ofNat 64 (Avx.Q120.POW32.getD k 0))).toNat % 2 ^ 32,
     (Avx.Ntt.cFromB x (BitVec.ofNat 64 (Avx.Q120.Q.getD k 0)) (BitVec.ofNat 64 (Avx.Q120.MU.getD k 0)) (BitVec.ofNat 64 (Avx.Q120.POW32.getD k 0))).toNat / 2 ^ 32)
      = cPairK (primes30.qs.getD k 1) x.toNat ∧
    ((Avx.Ntt.reduceBToCanonical x (BitVec.ofNat 64 (Avx.Q120.Q.getD k 0)) (BitVec.ofNat 64 (Avx.Q120.MU.getD k 0)) (BitVec.ofNat 64 (Avx.Q120.POW32.getD k 0))).toNat % 2 ^ 32,
     (Avx.Ntt.reduceBToCanonical x (BitVec.ofNat 64 (Avx.Q120.Q.getD k 0)) (BitVec.ofNat 64 (Avx.Q120.MU.getD k 0)) (BitVec.ofNat 64 (Avx.Q120.POW32.getD k 0))).toNat / 2 ^ 32)
      = packLeftK (primes30.qs.getD k 1) x.toNat ∧
    ∀ y : BitVec 64, ((Avx.Ntt.pairwisePackLeft x y (BitVec.ofNat 64 (Avx.Q120.Q.getD k 0)) (BitVec.ofNat 64 (Avx.Q120.MU.getD k 0))
        (BitVec.ofNat 64 (Avx.Q120.POW32.getD k 0))).toNat, 0) = pairwisePackLeftK (primes30.qs.getD k 1) x.toNat y.toNat :=
  ⟨AvxBridge.avx_c_from_b_lane_eq_ref k hk x, AvxBridge.avx_pack_left_lane_eq_ref k hk x,
   fun y => AvxBridge.avx_pairwise_pack_left_lane_eq_ref k hk x y⟩

/-- the hypothesis `fitsTable` of C10's whole-transform theorems holds for every table the constructors return (all three prime
sets, every `n`): `wu64`, `maskOf`, `pack_omega`, `modq_pow` produce 64-bit words and the bit-size assertions bound `half_bs` -/
theorem ntt120_tables_are_u64 (P : PrimeSet) (hP : P ∈ [primes29, primes30, primes31]) (k n : Nat) (hk : k < 4) (t ti : TableK)
    (ht : nttTableK P k n = .ok t) (hti : inttTableK P k n = .ok ti) :
    Avx.Ntt.fitsTable t = true ∧ Avx.Ntt.fitsTable ti = true :=
  ⟨nttTable_fits P k n t ht (reduc_fits P hP k hk).1 (reduc_fits P hP k hk).2.1 (reduc_fits P hP k hk).2.2,
   inttTable_fits P k n ti hti (reduc_fits P hP k hk).1 (reduc_fits P hP k hk).2.1 (reduc_fits P hP k hk).2.2⟩

/-- `vec_znx_dft_apply` on NTT120Avx: the stored lane is the reference lane and represents the coefficient limb -/
theorem ntt120avx_dft_lane (k j : Nat) (hk : k < 4) (hj1 : 1 ≤ j) (hj : j ≤ 16) (t : TableK)
    (ht : nttTableK primes30 k (2 ^ j) = .ok t) (split : Nat) (a : Poly) (ha : PolyOK j a) :
    Avx.Ntt.tn (Avx.Ntt.nttAvx (Avx.Ntt.redCOf t.reduc) (t.levels.map Avx.Ntt.levelCOf) split
        (a.map (fun x => Avx.Ntt.bFromZnx64 (BitVec.ofInt 64 x) (BitVec.ofNat 64 (oq (primes30.qs.getD k 1))))))
      = nttK t (a.map (fun x => bFromU64K (primes30.qs.getD k 1) (asU64 x))) ∧
    Rep primes30 k j (Avx.Ntt.tn (Avx.Ntt.nttAvx (Avx.Ntt.redCOf t.reduc) (t.levels.map Avx.Ntt.levelCOf) split
        (a.map (fun x => Avx.Ntt.bFromZnx64 (BitVec.ofInt 64 x) (BitVec.ofNat 64 (oq (primes30.qs.getD k 1))))))) a :=
  ⟨AvxBridge.avx_dft_lane_eq_ref k j hk hj1 hj t ht split a ha.1, AvxBridge.avx_dft_lane_rep k j hk hj1 hj t ht split a ha⟩

/-- every `bbc` product on NTT120Avx (`svp_apply`, `vmp_apply`, `cnv_apply`): the AVX2 lane is `bbcK` on the same rows -/
theorem ntt120avx_bbc_lane (k : Nat) (hk : k < 4) (rows : List (BitVec 64 × BitVec 64)) (hell : rows.length < 2 ^ 24) :
    (Avx.Ntt.bbcLane (BitVec.ofNat 64 (maskOf (bbcH primes30))) (BitVec.ofNat 64 (bbcH primes30))
        (BitVec.ofNat 64 (pow2Mod 32 (primes30.qs.getD k 1))) (BitVec.ofNat 64 (pow2Mod (32 + bbcH primes30) (primes30.qs.getD k 1))) rows).toNat
      = bbcK (bbcH primes30) (pow2Mod 32 (primes30.qs.getD k 1)) (pow2Mod (32 + bbcH primes30) (primes30.qs.getD k 1)) (rows.map Avx.Ntt.termOf) :=
  AvxBridge.avx_bbc_lane_eq_ref k hk rows hell

/-- `vec_znx_idft_apply` on NTT120Avx, coefficient `i`, for EVERY DFT-domain content: `intt_avx2` + `b_to_znx128_avx2` give the
reference's coefficient (`intt_ref` + `b_to_znx128_ref`) -/
theorem ntt120avx_idft_coeff (j : Nat) (hj1 : 1 ≤ j) (hj : j ≤ 16) (t : Nat → TableK)
    (ht : ∀ k, k < 4 → inttTableK primes30 k (2 ^ j) = .ok (t k))
    (jj : Nat) (hjj : jj ≤ j) (cs : Nat → List (List (BitVec 64))) (hc : ∀ k, k < 4 → ∀ c ∈ cs k, c.length = 2 ^ jj)
    (hlen : ∀ k, k < 4 → (cs k).flatten.length = 2 ^ j) (i : Nat) (hi : i < 2 ^ j) (x : Avx.V4)
    (hx0 : x.l0 = (Avx.Ntt.inttAvx (Avx.Ntt.redCOf (t 0).reduc) ((t 0).levels.map Avx.Ntt.levelCOf) jj (cs 0)).getD i 0#64)
    (hx1 : x.l1 = (Avx.Ntt.inttAvx (Avx.Ntt.redCOf (t 1).reduc) ((t 1).levels.map Avx.Ntt.levelCOf) jj (cs 1)).getD i 0#64)
    (hx2 : x.l2 = (Avx.Ntt.inttAvx (Avx.Ntt.redCOf (t 2).reduc) ((t 2).levels.map Avx.Ntt.levelCOf) jj (cs 2)).getD i 0#64)
    (hx3 : x.l3 = (Avx.Ntt.inttAvx (Avx.Ntt.redCOf (t 3).reduc) ((t 3).levels.map Avx.Ntt.levelCOf) jj (cs 3)).getD i 0#64) :
    Avx.Ntt.bToZnx128AvxCoef x Avx.Ntt.qV Avx.Ntt.muV Avx.Ntt.p32V Avx.Ntt.p16V Avx.Ntt.crtV Avx.Ntt.hiV Avx.Ntt.midV Avx.Ntt.loV (bigQ primes30)
      = bToZnx128Core primes30 ((inttK (t 0) (Avx.Ntt.tn (cs 0).flatten)).getD i 0) ((inttK (t 1) (Avx.Ntt.tn (cs 1).flatten)).getD i 0)
          ((inttK (t 2) (Avx.Ntt.tn (cs 2).flatten)).getD i 0) ((inttK (t 3) (Avx.Ntt.tn (cs 3).flatten)).getD i 0) :=
  AvxBridge.avx_idft_coeff_eq_ref j hj1 hj t ht jj hjj cs hc hlen i hi x hx0 hx1 hx2 hx3

/-! non-vacuity: the executable HAL pipelines on concrete columns, against the specification functions -/

example : cnvPipeline primes30 2 3 0 2 2 (-1) (-4) [[1, 2], [3, -4]] [[5, 6], [-7, 9]] =
    cnvApplyCol 2 3 0 (cnvPrepareCol 2 2 (-1) [[1, 2], [3, -4]]) (cnvPrepareCol 2 2 (-4) [[5, 6], [-7, 9]]) := by decide +kernel
example : cnvPipeline primes30 2 3 1 2 2 (-1) (-4) [[1, 2], [3, -4]] [[5, 6], [-7, 9]] = [[15, -10], [8, 56], [0, 0]] := by decide +kernel
example : cnvPairwisePipeline primes30 2 2 0 1 1 (-1) (-1) [[1, 2]] [[3, 4]] [[5, 6]] [[7, -8]] =
    cnvApplyCol 2 2 0 (colAdd 2 [[1, 2]] [[3, 4]]) (colAdd 2 [[5, 6]] [[7, -8]]) := by decide +kernel
example : vmpFullPipeline primes30 2 [[1, 0], [0, 3], [7, 7]] ⟨2, 2, 1, 1, 3, [[[[1, 2], [5, -6], [1, 0]]], [[[0, 1], [2, -2], [9, 8]]]]⟩ 1 3 =
    vmpFlat 2 [[1, 0], [0, 3], [7, 7]] ⟨2, 2, 1, 1, 3, [[[[1, 2], [5, -6], [1, 0]]], [[[0, 1], [2, -2], [9, 8]]]]⟩ 1 3 := by decide +kernel
example : vmpFullPipeline primes30 2 [[1, 0], [0, 3], [7, 7]] ⟨2, 2, 1, 1, 3, [[[[1, 2], [5, -6], [1, 0]]], [[[0, 1], [2, -2], [9, 8]]]]⟩ 1 3 =
    [[11, 0], [-23, 27], [0, 0]] := by decide +kernel
example : vmpWrites 1 5 5 = [⟨0, true, 0, 1⟩, ⟨1, true, 2, 0⟩, ⟨2, true, 2, 1⟩, ⟨3, false, 4, 0⟩] := by decide
example : vmpWrites 2 5 6 = [⟨0, true, 2, 0⟩, ⟨1, true, 2, 1⟩, ⟨2, true, 4, 0⟩] := by decide
example : vmpSlotAddr 3 5 2 4 1 = 4 * 3 * 16 + 2 * 16 + 3 * 5 * 16 ∧ vmpSlotAddr 3 5 2 3 0 = 1 * (3 * 32) + 2 * 32 + 16 := by decide
example : 2 ^ 63 ≤ fwdFinal primes30 0 6 ∧ fwdFinal primes30 0 5 < 2 ^ 63 := by decide +kernel
example : (DExpr.sub (.svp [1, 2] (.dft [3, 4])) (.neg (.dft [5, 6]))).spec 2 = [0, 16] ∧
    (DExpr.sub (.svp [1, 2] (.dft [3, 4])) (.neg (.dft [5, 6]))).WF 1 := by
  refine ⟨by decide, ⟨⟨by decide, by decide⟩, by decide, by decide⟩, by decide, by decide⟩
example : idftLimb primes30 2 ((DExpr.sub (.svp [1, 2] (.dft [3, 4])) (.neg (.dft [5, 6]))).lane primes30 0 2 true)
    ((DExpr.sub (.svp [1, 2] (.dft [3, 4])) (.neg (.dft [5, 6]))).lane primes30 1 2 true)
    ((DExpr.sub (.svp [1, 2] (.dft [3, 4])) (.neg (.dft [5, 6]))).lane primes30 2 2 true)
    ((DExpr.sub (.svp [1, 2] (.dft [3, 4])) (.neg (.dft [5, 6]))).lane primes30 3 2 true) = [0, 16] := by decide +kernel
example : Reach primes30 0 6 true (addBbbAvxK (primes30.qs.getD 0 1) lazyWitness lazyWitness) := by
  have h : lazyWitness ≤ fwdFinal primes30 0 6 := by decide +kernel
  have := Reach.add (avx := true) lazyWitness lazyWitness (Reach.dft _ h) (Reach.dft _ h)
  simpa using this
example : compactCrt primes30 [primes30.q0 * 2 ^ 33 - 1, 5, primes30.q2 * 2 ^ 33 - 1, 0] =
    .ok (bToZnx128Core primes30 (primes30.q0 * 2 ^ 33 - 1) 5 (primes30.q2 * 2 ^ 33 - 1) 0) :=
  ntt120_idft_consume_eq_apply _ _ _ _ (by decide) (by decide) (by decide) (by decide)
example : (match compactCrt primes30 [primes30.q0 * 2 ^ 33 - 1, 5, primes30.q2 * 2 ^ 33 - 1, 0] with
    | .ok v => decide (v = -300557948761496581723738491311732269) | _ => false) = true := by decide +kernel
example : addCccK primes30.q0 (2 ^ 32 - 1) (2 ^ 32 - 1) = (2 ^ 33 - 2) % primes30.q0 := by decide
example : baaK (baaMeta primes31).h ((baaMeta primes31).hPowRed.getD 0 0) [(2 ^ 32 - 1, 2 ^ 32 - 1), (7, 9)] % primes31.q0 =
    ((2 ^ 32 - 1) * (2 ^ 32 - 1) + 63) % primes31.q0 := by decide +kernel
example : (fillReductionMeta primes30 64).h = 47 ∧ (fillReductionMeta primes31 64).bsAfter = 47 := by decide +kernel
example : ((Avx.Ntt.cFromB (BitVec.ofNat 64 lazyWitness) (BitVec.ofNat 64 (Avx.Q120.Q.getD 0 0)) (BitVec.ofNat 64 (Avx.Q120.MU.getD 0 0))
      (BitVec.ofNat 64 (Avx.Q120.POW32.getD 0 0))).toNat % 2 ^ 32) = (cPairK primes30.q0 lazyWitness).1 ∧
    primes30.q0 * 2 ^ 33 < lazyWitness := by decide +kernel

end NTT120Hal

end C07


/-!
# FFT64 — the floating-point half (appended slice)

`Model/F64.lean` is an exact executable model of IEEE-754 binary64 (`+ − *`, unary `−`, `i64 → f64`, the
`(x·2^-k).round() as i64` conversion) on 64-bit patterns; `Model/Fft64.lean` models the reference transform
(`fft_ref`, `ifft_ref`, `reim_from/to_znx_i64`, `reim_mul/addmul`, the svp / vmp / idft path).  Both are tied bit for
bit to `poulpy_cpu_ref` by the `fft64` gate.  The theorems below are about exactly those definitions:

* (a) the rounding function is round-to-nearest (half an ulp, exact on representable values, monotone), `add/sub/mul` are the
  correctly rounded exact results, `fl(x∘y) = (x∘y)(1+δ)` with `|δ| ≤ 2^-53`;
* (b) a-priori error bounds of the forward and inverse networks **for every `n = 2^k`** by induction over the levels,
  under the hypothesis that the table is within `τ` of the true roots of unity (`Fft64.TableAccurate`: *checked*
  numerically by the gate for every dumped table, proved here for the `m = 2` table);
* the exact networks evaluate at the roots of `X^m − i`, invert each other up to `2^k`, and turn the negacyclic product
  into the slot-wise product;
* hence **`fft64_pipeline_exact`**: inside the explicit domain `Fft64.SvpDomain` the value the FFT64 svp pipeline
  returns is exactly `Hal.negMul`; `fft64_domain_numeric` gives the domain in numbers for `n ≤ 2^16`.

PARTIAL with respect to the slice brief: the a-priori domain is a worst-case (sup-norm) bound, `n²·(9/16)·|a|·|b|·(20k+6)·2^-53 < 1/2`,
i.e. `n·|a|·|b| ≤ 2^35` at `n = 1024` and `2^28` at `n = 65536`, where the measured boundary on the tried worst-case inputs is
`2^49`; the vmp domain (`VmpDomain`) is explicit but has no closed-form table; the AVX2/FMA variants and the convolution path
have no theorem (tied only).
-/

namespace C07
open F64 Fft64 Complex Hal

/-! ### (a) the binary64 model -/

/-- `round` is round-to-nearest: finite result, error at most `max (2^-53·|x|) 2^-1075`, below `2^1023` -/
theorem f64_round_nearest (d : Dy) (hx : |d.val| < (2:ℝ) ^ (1023:Int)) :
    Fin64 (round d) ∧ |val (round d) - d.val| ≤ max (u * |d.val|) η :=
  ⟨(val_round d hx).1, (val_round d hx).2.1⟩

/-- half a unit in the last place: `|round x − x| ≤ 2^(q−1)`, `q` the exponent of the result's last bit -/
theorem f64_round_half_ulp (d : Dy) (hm : d.m ≠ 0) (hx : |d.val| < (2:ℝ) ^ (1023:Int)) :
    |val (round d) - d.val| ≤ (2:ℝ) ^ (quantum d.m d.e - 1) :=
  (val_round d hx).2.2.2 hm

/-- `round` is the identity on representable values (at most 53 significant bits, exponent `≥ -1074`) -/
theorem f64_round_exact_on_representable (d : Dy) (hm : d.m < 2 ^ 53) (he : -1074 ≤ d.e)
    (hx : |d.val| < (2:ℝ) ^ (1023:Int)) : val (round d) = d.val := by
  by_cases h0 : d.m = 0
  · have hd : d = ⟨d.neg, 0, d.e⟩ := by cases d; simp_all
    have h := round_zero d.neg d.e
    rw [← hd] at h
    rw [val_of_decode h, Dy.val_zero]; unfold Dy.val; rw [h0]; simp
  · apply (val_round d hx).2.2.1 h0
    have : Nat.log2 d.m < 53 := (Nat.log2_lt h0).2 hm
    unfold quantum; push_cast; omega

/-- `round` is monotone: `x ≤ y → round x ≤ round y` (ties go to even on both sides of a shared midpoint, binade
boundaries are fixed points) -/
theorem f64_round_monotone (x y : Dy) (hx : |x.val| < (2:ℝ) ^ (1023:Int)) (hy : |y.val| < (2:ℝ) ^ (1023:Int))
    (h : x.val ≤ y.val) : val (round x) ≤ val (round y) := round_mono x y hx hy h

/-- every finite pattern is a fixed point of decode → value: its value is representable -/
theorem f64_decode_representable {b : Nat} {d : Dy} (h : decode b = some d) : d.m < 2 ^ 53 ∧ -1074 ≤ d.e ∧ d.e ≤ 971 :=
  decode_bounds h

/-- `a + b` is the correctly rounded exact sum; no underflow error -/
theorem f64_add_correctly_rounded (a b : Nat) (ha : Fin64 a) (hb : Fin64 b) (hx : |val a + val b| < (2:ℝ) ^ (1023:Int)) :
    Fin64 (add a b) ∧ |val (add a b) - (val a + val b)| ≤ u * |val a + val b| := add_spec a b ha hb hx

theorem f64_sub_correctly_rounded (a b : Nat) (ha : Fin64 a) (hb : Fin64 b) (hx : |val a - val b| < (2:ℝ) ^ (1023:Int)) :
    Fin64 (sub a b) ∧ |val (sub a b) - (val a - val b)| ≤ u * |val a - val b| := sub_spec a b ha hb hx

theorem f64_mul_correctly_rounded (a b : Nat) (ha : Fin64 a) (hb : Fin64 b) (hx : |val a * val b| < (2:ℝ) ^ (1023:Int)) :
    Fin64 (mul a b) ∧ |val (mul a b) - val a * val b| ≤ max (u * |val a * val b|) η := mul_spec a b ha hb hx

theorem f64_neg_exact (a : Nat) (ha : Fin64 a) : Fin64 (neg a) ∧ val (neg a) = -val a := neg_spec a ha

/-- standard model of floating-point arithmetic: `fl(x·y) = x·y·(1+δ)`, `|δ| ≤ 2^-53` (normal range) -/
theorem f64_mul_standard_model (a b : Nat) (ha : Fin64 a) (hb : Fin64 b) (hlo : (2:ℝ) ^ (-1022:Int) ≤ |val a * val b|)
    (hhi : |val a * val b| < (2:ℝ) ^ (1023:Int)) :
    ∃ δ : ℝ, |δ| ≤ u ∧ val (mul a b) = val a * val b * (1 + δ) := (mul_rel a b ha hb hlo hhi).2

/-- `fl(x+y) = (x+y)(1+δ)`, `|δ| ≤ 2^-53`, with no lower range restriction -/
theorem f64_add_standard_model (a b : Nat) (ha : Fin64 a) (hb : Fin64 b) (hhi : |val a + val b| < (2:ℝ) ^ (1023:Int)) :
    ∃ δ : ℝ, |δ| ≤ u ∧ val (add a b) = (val a + val b) * (1 + δ) := (add_rel a b ha hb hhi).2

/-- `x as f64` is exact below `2^53` and correctly rounded beyond -/
theorem f64_of_int (x : Int) (hx : |(x:ℝ)| < (2:ℝ) ^ (1023:Int)) :
    Fin64 (ofInt x) ∧ |val (ofInt x) - (x:ℝ)| ≤ u * |(x:ℝ)| ∧ (x.natAbs < 2 ^ 53 → val (ofInt x) = (x:ℝ)) := ofInt_spec x hx

/-- `reim_to_znx_i64`: a value whose scaled image is within `1/2` (after the rounding of the scaling) of an integer is
converted to that integer -/
theorem f64_to_i64 (k : Nat) (hk : k ≤ 1022) (a : Nat) (ha : Fin64 a) (c : Int) (hc : |c| ≤ 2 ^ 62)
    (hx : |val a * (2:ℝ) ^ (-(k:Int))| < (2:ℝ) ^ (1023:Int))
    (h : |val a * (2:ℝ) ^ (-(k:Int)) - (c:ℝ)| + max (u * |val a * (2:ℝ) ^ (-(k:Int))|) η < 1 / 2) :
    toI64 k a = c := toI64_spec k hk a ha c hc hx h

/-! non-vacuity of (a): concrete patterns (1.0 + 2^-53 ties to even; (1+2^-52)² rounds down; 2^53+1 ties to even) -/
example : add 0x3FF0000000000000 0x3CA0000000000000 = 0x3FF0000000000000 := by decide +kernel
example : mul 0x3FF0000000000001 0x3FF0000000000001 = 0x3FF0000000000002 := by decide +kernel
example : ofInt 9007199254740993 = 0x4340000000000000 ∧ ofInt (-3) = 0xC008000000000000 := by decide +kernel
example : toI64 2 0x4024000000000000 = 3 ∧ toI64 2 0xC024000000000000 = -3 ∧ toI64 0 0x43E0000000000000 = 2 ^ 63 - 1 := by
  decide +kernel
/-- monotonicity on a concrete pair: `2^53 + 1 ≤ 2^53 + 3` round to `2^53` resp. `2^53 + 4` -/
example : val (round ⟨false, 2 ^ 53 + 1, 0⟩) ≤ val (round ⟨false, 2 ^ 53 + 3, 0⟩) := by
  have b : (2:ℝ) ^ (54:Nat) < (2:ℝ) ^ (1023:Int) := by
    rw [← zpow_natCast]; exact zpow_lt_zpow_right₀ (by norm_num) (by norm_num)
  apply f64_round_monotone
  · rw [Dy.val_abs]; refine lt_trans ?_ b; norm_num
  · rw [Dy.val_abs]; refine lt_trans ?_ b; norm_num
  · unfold Dy.val; norm_num
example : F64.round ⟨false, 2 ^ 53 + 1, 0⟩ = 0x4340000000000000 ∧ F64.round ⟨false, 2 ^ 53 + 3, 0⟩ = 0x4340000000000002 := by decide +kernel
example : Fin64 0x3FF0000000000000 ∧ val 0x3FF0000000000000 = 1 := by
  have h : decode 0x3FF0000000000000 = some ⟨false, 2 ^ 52, -52⟩ := by decide +kernel
  refine ⟨⟨_, h⟩, ?_⟩
  rw [val_of_decode h]; unfold Dy.val; simp only [Bool.false_eq_true, if_false, one_mul]
  rw [zpow_neg]; norm_num

/-! ### (b) per-butterfly lemmas and the inductive error bounds -/

/-- one `cplx_twiddle` / `cplx_i_twiddle`: both outputs within `γf τ · M` of the exact butterfly -/
theorem fft64_butterfly_error (t : Tw) (a b : C64) (ω : ℂ) (τ M : ℝ) (ht : TwFin t) (ha : CFin a) (hb : CFin b)
    (hω : ‖ω‖ = 1) (hτ : ‖twC t - ω‖ ≤ τ) (hτ1 : τ ≤ 1) (hMa : ‖cval a‖ ≤ M) (hMb : ‖cval b‖ ≤ M)
    (hM1 : 1 ≤ M) (hM2 : M ≤ (2:ℝ) ^ (999:Int)) :
    CFin (bflyFwd t a b).1 ∧ CFin (bflyFwd t a b).2 ∧
    ‖cval (bflyFwd t a b).1 - (cval a + ω * cval b)‖ ≤ γf τ * M ∧
    ‖cval (bflyFwd t a b).2 - (cval a - ω * cval b)‖ ≤ γf τ * M :=
  bflyFwd_err t a b ω τ M ht ha hb hω hτ hτ1 hMa hMb hM1 hM2

/-- one `inv_twiddle` / `inv_itwiddle` -/
theorem fft64_inv_butterfly_error (t : Tw) (a b : C64) (ω : ℂ) (τ M : ℝ) (ht : TwFin t) (ha : CFin a) (hb : CFin b)
    (hω : ‖ω‖ = 1) (hτ : ‖twCi t - ω‖ ≤ τ) (hτ1 : τ ≤ 1) (hMa : ‖cval a‖ ≤ M) (hMb : ‖cval b‖ ≤ M)
    (hM1 : 1 ≤ M) (hM2 : M ≤ (2:ℝ) ^ (997:Int)) :
    CFin (bflyInv t a b).1 ∧ CFin (bflyInv t a b).2 ∧
    ‖cval (bflyInv t a b).1 - (cval a + cval b)‖ ≤ γi τ * M ∧
    ‖cval (bflyInv t a b).2 - (cval a - cval b) * ω‖ ≤ γi τ * M :=
  bflyInv_err t a b ω τ M ht ha hb hω hτ hτ1 hMa hMb hM1 hM2

/-- the per-butterfly constants in numbers for `τ = 2^-51`: `γf = 10.5·2^-53`, `γi = 19·2^-53` (up to `2^-100`) -/
theorem fft64_gamma_numeric : γf τ51 ≤ 10.51 * u ∧ γi τ51 ≤ 19.01 * u := by
  constructor
  · unfold γf κ u τ51; norm_num
  · unfold γi κ u τ51; norm_num

/-- **forward transform, every `k`**: inputs within `E` of exact vectors bounded by `A` give outputs within
`errB (γf τ) k A E = 2^k·((1+γf/2)^k·(A+E) − A)` of the exact network, whose values are bounded by `2^k·A` -/
theorem fft64_forward_error_bound (τ : ℝ) (hτ0 : 0 ≤ τ) (hτ1 : τ ≤ 1) (tw : Nat → Nat → Tw)
    (k lvl blk : Nat) (j A E : ℝ) (zc : List C64) (z : List ℂ) (hA : 1 ≤ A) (hE : 0 ≤ E) (hlen : zc.length = 2 ^ k)
    (hc : Close E A zc z) (hacc : AccF τ tw k lvl blk j)
    (hbig : 2 ^ k * (1 + γf τ / 2) ^ k * (A + E) ≤ (2:ℝ) ^ (999:Int)) :
    Close (errB (γf τ) k A E) (2 ^ k * A) (fwd tw k lvl blk zc) (fwdE k j z) :=
  fwd_err τ hτ0 hτ1 tw k lvl blk j A E zc z hA hE hlen hc hacc hbig

/-- **inverse transform, every `k`** -/
theorem fft64_inverse_error_bound (τ : ℝ) (hτ0 : 0 ≤ τ) (hτ1 : τ ≤ 1) (tw : Nat → Nat → Tw)
    (k lvl blk : Nat) (j A E : ℝ) (zc : List C64) (z : List ℂ) (hA : 1 ≤ A) (hE : 0 ≤ E) (hlen : zc.length = 2 ^ k)
    (hc : Close E A zc z) (hacc : AccI τ tw k lvl blk j)
    (hbig : 2 ^ k * (1 + γi τ / 2) ^ k * (A + E) ≤ (2:ℝ) ^ (997:Int)) :
    Close (errB (γi τ) k A E) (2 ^ k * A) (inv tw k lvl blk zc) (invE k j z) :=
  inv_err τ hτ0 hτ1 tw k lvl blk j A E zc z hA hE hlen hc hacc hbig

/-- the forward bound in the brief's form: `‖fft_computed(x) − DFT_exact(x)‖∞ ≤ ((1+γf/2)^k − 1)·m·M'` for exact inputs
bounded by `M'` (`m = 2^k` points; `(1+γf/2)^k − 1 ≈ k·γf/2`) -/
theorem fft64_forward_error_closed_form (γ : ℝ) (k : Nat) (A : ℝ) :
    errB γ k A 0 = ((1 + γ / 2) ^ k - 1) * (2 ^ k * A) := by unfold errB; ring

/-! ### the exact networks -/

/-- the exact forward network evaluates the packed polynomial at the `2^k` roots of `X^(2^k) = e^{2πi·j}` -/
theorem fft64_exact_network_is_evaluation (k : Nat) (j : ℝ) (z : List ℂ) (hz : z.length = 2 ^ k) :
    fwdE k j z = (rootsL k j).map (fun r => NttMath.ev z r) ∧ ∀ r ∈ rootsL k j, r ^ (2 ^ k) = cis j :=
  ⟨fwdE_eval k j z hz, rootsL_pow k j⟩

theorem fft64_exact_inverse (k : Nat) (j : ℝ) (z : List ℂ) (hz : z.length = 2 ^ k) :
    invE k j (fwdE k j z) = z.map ((2:ℂ) ^ k * ·) := invE_fwdE k j z hz

/-- convolution theorem: negacyclic product in `Z[X]/(X^n+1)` ↦ slot-wise product -/
theorem fft64_exact_convolution (k : Nat) (a b : Poly) (ha : a.length = 2 ^ (k + 1)) (hb : b.length = 2 ^ (k + 1)) :
    fwdE k (1 / 4) (packC (2 ^ k) ((Hal.negMul a b).map cc)) =
      List.zipWith (· * ·) (fwdE k (1 / 4) (packC (2 ^ k) (a.map cc))) (fwdE k (1 / 4) (packC (2 ^ k) (b.map cc))) :=
  fwdE_mul k a b ha hb

/-! ### the pipeline -/

/-- **`fft64_pipeline_exact`**: `svp_prepare(p)`; `svp_apply_dft(x)`; `vec_znx_idft_apply` on FFT64Ref (model
`Fft64.svpPipeline`, tied bit for bit) returns EXACTLY the negacyclic product `Hal.negMul p x`, for every `n = 2·2^K`,
whenever the tables are `τ`-accurate and `(K, τ, Ma, Mb)` lie in the explicit magnitude domain `SvpDomain` -/
theorem fft64_pipeline_exact (K : Nat) (omg iomg : Array Nat) (τ Ma Mb : ℝ) (p x : List Int)
    (hacc : TableAccurate τ K omg iomg)
    (hp : p.length = 2 ^ (K + 1)) (hx : x.length = 2 ^ (K + 1))
    (hpM : ∀ c ∈ p, c.natAbs < 2 ^ 53 ∧ |(c:ℝ)| ≤ Ma) (hxM : ∀ c ∈ x, c.natAbs < 2 ^ 53 ∧ |(c:ℝ)| ≤ Mb)
    (hdom : SvpDomain K τ Ma Mb) : svpPipeline K omg iomg p x = Hal.negMul p x :=
  svp_pipeline_exact' K omg iomg τ Ma Mb p x hacc hp hx hpM hxM hdom

/-- the domain in closed form: `n²·(9/16)·Ma·Mb·((G−1)(1+u) + u) + 2^-1075 < 1/2` with
`G = (1+γi/2)^K·(1+γf/2)^(2K)·(1+3κ/2)` (`4^K = n²/4`) implies every side condition -/
theorem fft64_domain_closed_form (K : Nat) (τ Ma Mb : ℝ) (hτ0 : 0 ≤ τ) (hτ1 : τ ≤ 1) (hK : K ≤ 1022) (hMa : 1 ≤ Ma) (hMb : 1 ≤ Mb)
    (hmain : 4 ^ K * (9 / 4) * ((G K τ - 1) * (1 + u) + u) * (Ma * Mb) + η < 1 / 2) : SvpDomain K τ Ma Mb :=
  svpDomain_of_main K τ Ma Mb hτ0 hτ1 hK hMa hMb hmain

/-- relative a-priori error of the whole pipeline for `τ = 2^-51`: `(G−1)(1+u) + u ≤ (20K + 6)·2^-53`, `K ≤ 15` -/
theorem fft64_growth_numeric (K : Nat) (hK : K ≤ 15) : (G K τ51 - 1) * (1 + u) + u ≤ (20 * K + 6) * u := growth_le K hK

/-- **the domain in numbers for `n ≤ 2^16`**: `Ma·Mb ≤ 2^(domBits K)`, `domBits = 48, 44, 41, 38, 36, 34, 31, 29, 27, 25, 23,
21, 18, 16, 14, 12` for `n = 2, 4, …, 65536` (`n·Ma·Mb ≤ 2^49, 2^46, 2^44, 2^42, 2^41, 2^40, 2^38, 2^37, 2^36, 2^35, 2^34, 2^33, 2^31,
2^30, 2^29, 2^28`) -/
theorem fft64_domain_numeric (K : Nat) (hK : K ≤ 15) (Ma Mb : ℝ) (hMa : 1 ≤ Ma) (hMb : 1 ≤ Mb)
    (h : Ma * Mb ≤ (2:ℝ) ^ (domBits K)) : SvpDomain K τ51 Ma Mb := svpDomain_numeric K hK Ma Mb hMa hMb h

/-- the two combined, integer hypotheses only -/
theorem fft64_pipeline_exact_numeric (K : Nat) (hK : K ≤ 15) (omg iomg : Array Nat) (hacc : TableAccurate τ51 K omg iomg)
    (p x : List Int) (hp : p.length = 2 ^ (K + 1)) (hx : x.length = 2 ^ (K + 1)) (A B : Nat) (hA : 1 ≤ A) (hB : 1 ≤ B)
    (hpA : ∀ c ∈ p, c.natAbs ≤ A) (hxB : ∀ c ∈ x, c.natAbs ≤ B) (hAB : A * B ≤ 2 ^ domBits K) :
    svpPipeline K omg iomg p x = Hal.negMul p x :=
  svp_pipeline_exact_numeric K hK omg iomg hacc p x hp hx A B hA hB hpA hxB hAB

/-- the hypothesis `TableAccurate` is satisfiable, and for the crate's `m = 2` tables it is *proved* (`√2/2` bounds) -/
theorem fft64_table_accurate_m2 : TableAccurate τ51 1 omg2 iomg2 := tableAccurate_m2

/-- **`fft64_vmp_exact`**: `vmp_prepare(rows b_j)`; `vmp_apply_dft(a)` (one output column: `reim4_vec_mat*_product_ref`
accumulates `acc += a_j·b_j` row by row from `+0`); `vec_znx_idft_apply` returns EXACTLY the sum of the negacyclic
products, inside the explicit domain `VmpDomain K rows τ Ma Mb` (accumulator error `accR` = one product error and two
more roundings per row; `fft64_vmp_acc_growth` bounds it by `R·(1+u)^R·(EP + u·R·AP)`) -/
theorem fft64_vmp_exact (K : Nat) (hK : 2 ≤ K) (omg iomg : Array Nat) (τ Ma Mb : ℝ) (rows : List (Poly × Poly))
    (hacc : TableAccurate τ K omg iomg)
    (hlen : ∀ r ∈ rows, r.1.length = 2 ^ (K + 1) ∧ r.2.length = 2 ^ (K + 1))
    (hM : ∀ r ∈ rows, (∀ c ∈ r.1, c.natAbs < 2 ^ 53 ∧ |(c:ℝ)| ≤ Ma) ∧ (∀ c ∈ r.2, c.natAbs < 2 ^ 53 ∧ |(c:ℝ)| ≤ Mb))
    (hdom : VmpDomain K rows.length τ Ma Mb) :
    vmpApply K omg iomg rows = .ok (Hal.sumPolys (2 ^ (K + 1)) (rows.map (fun r => Hal.negMul r.1 r.2))) := by
  have h8 : ¬ (2 * 2 ^ K < 8) := by
    have : 2 ^ 2 ≤ 2 ^ K := Nat.pow_le_pow_right (by norm_num) hK
    omega
  unfold vmpApply
  rw [if_neg h8, vmp_pipeline_exact K omg iomg τ Ma Mb rows hacc hlen hM hdom]

/-- the entry assertion of `vmp_prepare_core` (`n >= 8`) is an outcome of the model, not a default -/
theorem fft64_vmp_small_n_panics (K : Nat) (hK : K < 2) (omg iomg : Array Nat) (rows : List (Poly × Poly)) :
    vmpApply K omg iomg rows = .panic "assert" := by
  have : 2 * 2 ^ K < 8 := by interval_cases K <;> norm_num
  unfold vmpApply; rw [if_pos this]

theorem fft64_vmp_acc_growth (ep ap : ℝ) (hep : 0 ≤ ep) (hap : 0 ≤ ap) (R r : Nat) (hr : r ≤ R) :
    (accIter ep ap r (0, 0)).1 ≤ r * (1 + u) ^ r * (ep + u * R * ap) ∧ (accIter ep ap r (0, 0)).2 = r * ap :=
  accIter_fst_le ep ap hep hap R r hr

/-- the vmp domain is decidable by evaluation and inhabited: `n = 8`, 3 rows, operands below `2^12` -/
theorem fft64_vmp_domain_example : VmpDomain 2 3 τ51 4096 4096 := vmpDomain_example

/-- **end to end, scalar-vector product**: what the FFT64 reference back end computes for limb `l` of `svp_apply_dft`
is exactly what the HAL specification model says (`Hal.svpApplyCol`: `negMul p limb`) — the exact-integer model the
`hal` tie compares all four back ends with -/
theorem fft64_svp_matches_spec (K : Nat) (omg iomg : Array Nat) (τ Ma Mb : ℝ) (hacc : TableAccurate τ K omg iomg)
    (rs : Nat) (p : Poly) (b : Col) (l : Nat) (hl : l < rs) (hlb : l < b.length) (d : Poly)
    (hp : p.length = 2 ^ (K + 1)) (hb : (limbOr0 (2 ^ (K + 1)) b l).length = 2 ^ (K + 1))
    (hpM : ∀ c ∈ p, c.natAbs < 2 ^ 53 ∧ |(c:ℝ)| ≤ Ma) (hxM : ∀ c ∈ limbOr0 (2 ^ (K + 1)) b l, c.natAbs < 2 ^ 53 ∧ |(c:ℝ)| ≤ Mb)
    (hdom : SvpDomain K τ Ma Mb) :
    Fft64.svpPipeline K omg iomg p (limbOr0 (2 ^ (K + 1)) b l) = (svpApplyCol (2 ^ (K + 1)) rs p b).getD l d := by
  rw [svp_limbwise (2 ^ (K + 1)) rs p b l hl d, if_pos hlb]
  exact fft64_pipeline_exact K omg iomg τ Ma Mb p _ hacc hp hb hpM hxM hdom

/-- **end to end, vector-matrix product**: one flat output entry of `Hal.vmpFlat` (`limb_offset = 0`) is exactly what
the FFT64 vmp pipeline computes from the rows `(input limb, matrix entry)` -/
theorem fft64_vmp_matches_spec (K : Nat) (hK : 2 ≤ K) (omg iomg : Array Nat) (τ Ma Mb : ℝ) (hacc : TableAccurate τ K omg iomg)
    (a : List Poly) (m : PMat) (rl r : Nat) (hr : r < rl) (hc : r < m.colsOut * m.size) (d : Poly)
    (hlen : ∀ i, i < min (m.colsIn * m.rows) a.length →
      (a.getD i (zeroP (2 ^ (K + 1)))).length = 2 ^ (K + 1) ∧ (m.entry i r).length = 2 ^ (K + 1))
    (hM : ∀ i, i < min (m.colsIn * m.rows) a.length →
      (∀ c ∈ a.getD i (zeroP (2 ^ (K + 1))), c.natAbs < 2 ^ 53 ∧ |(c:ℝ)| ≤ Ma) ∧ (∀ c ∈ m.entry i r, c.natAbs < 2 ^ 53 ∧ |(c:ℝ)| ≤ Mb))
    (hdom : VmpDomain K (min (m.colsIn * m.rows) a.length) τ Ma Mb) :
    vmpApply K omg iomg ((List.range (min (m.colsIn * m.rows) a.length)).map (fun i => (a.getD i (zeroP (2 ^ (K + 1))), m.entry i r))) =
      .ok ((vmpFlat (2 ^ (K + 1)) a m 0 rl).getD r d) := by
  have e : (vmpFlat (2 ^ (K + 1)) a m 0 rl).getD r d =
      sumPolys (2 ^ (K + 1)) (((List.range (min (m.colsIn * m.rows) a.length)).map (fun i => (a.getD i (zeroP (2 ^ (K + 1))), m.entry i r))).map
        (fun r => negMul r.1 r.2)) := by
    rw [vmp_entry (2 ^ (K + 1)) a m 0 rl r hr d]
    have h1 : 0 * m.colsOut < min (m.colsOut * m.size) (rl + 0 * m.colsOut) ∧
        r < min (m.colsOut * m.size) (rl + 0 * m.colsOut) - 0 * m.colsOut := by
      simp only [Nat.zero_mul, Nat.add_zero, Nat.sub_zero]; omega
    rw [if_pos h1, List.map_map]
    congr 1
    apply List.map_congr_left
    intro i _
    simp only [Function.comp, Nat.zero_mul, Nat.add_zero]
  rw [e]
  apply fft64_vmp_exact K hK omg iomg τ Ma Mb _ hacc
  · intro r' hr'
    simp only [List.mem_map, List.mem_range] at hr'
    obtain ⟨i, hi, rfl⟩ := hr'
    exact hlen i hi
  · intro r' hr'
    simp only [List.mem_map, List.mem_range] at hr'
    obtain ⟨i, hi, rfl⟩ := hr'
    exact hM i hi
  · simpa using hdom

/- FULL STATEMENT (not proved): closed form / numeric table of `VmpDomain` for every `rows` and `n ≤ 2^16` in the style of
   `fft64_domain_numeric` (the predicate itself is explicit and evaluated per instance, e.g. `fft64_vmp_domain_example`);
   the ℓ2 (Parseval) refinement of the a-priori bound, which would
   replace one factor `n` by `√n`; the convolution (`cnv_*`) path; the AVX2/FMA kernels of FFT64Avx. -/

/-! non-vacuity: `n = 4` with the crate's real tables — no hypothesis left unchecked; and the model evaluated by the kernel -/
example : svpPipeline 1 omg2 iomg2 [1000000, -2000000, 3000000, 4194303] [4194303, -1, 7, -4000000] =
    Hal.negMul [1000000, -2000000, 3000000, 4194303] [4194303, -1, 7, -4000000] :=
  fft64_pipeline_exact_numeric 1 (by norm_num) omg2 iomg2 fft64_table_accurate_m2 _ _ rfl rfl (2 ^ 22) (2 ^ 22) (by norm_num) (by norm_num)
    (by decide) (by decide) (by decide)
example : svpPipeline 1 omg2 iomg2 [1000000, -2000000, 3000000, 4194303] [4194303, -1, 7, -4000000] =
    [-3805713805697, 3611363639879, 29360130000000, 13592160655809] := by decide +kernel
/-- the vmp model on the crate's real `m = 4` tables (dumped by `pvh fft64 tab k=2`), 3 rows, evaluated by the kernel:
equal to the exact sum of products, as `fft64_vmp_exact` predicts inside `fft64_vmp_domain_example` -/
example :
    vmpPipeline 2 #[4604544271217802189, 4604544271217802188, 4606496786581982534, 4600565431771507043, 0, 0, 0, 0]
      #[4606496786581982534, 13823937468626282851, 4604544271217802189, 13827916308072577996, 0, 0, 0, 0]
      [([4095, -4095, 1, 0, 7, -9, 1000, 4095], [1, 2, 3, 4, 5, 6, 7, -4095]),
       ([-5, 4095, 0, 0, 0, 0, 0, 1], [4095, 4095, 4095, 4095, 4095, 4095, 4095, 4095]),
       ([1, 1, 1, 1, 1, 1, 1, 1], [-4095, 4095, -4095, 4095, -4095, 4095, -4095, 4095])] =
    Hal.sumPolys 8 [Hal.negMul [4095, -4095, 1, 0, 7, -9, 1000, 4095] [1, 2, 3, 4, 5, 6, 7, -4095],
      Hal.negMul [-5, 4095, 0, 0, 0, 0, 0, 1] [4095, 4095, 4095, 4095, 4095, 4095, 4095, 4095],
      Hal.negMul [1, 1, 1, 1, 1, 1, 1, 1] [-4095, 4095, -4095, 4095, -4095, 4095, -4095, 4095]] := by decide +kernel
example : vmpApply 1 #[] #[] [([1, 2, 3, 4], [1, 2, 3, 4])] = .panic "assert" := fft64_vmp_small_n_panics 1 (by norm_num) _ _ _
example : SvpDomain 9 τ51 (2 ^ 12) (2 ^ 13) := fft64_domain_numeric 9 (by norm_num) _ _ (by norm_num) (by norm_num) (by unfold domBits; norm_num)
/-- the exact network on a concrete vector: `m = 1` is the identity, and `invE ∘ fwdE = 2^k` is not vacuous -/
example : invE 1 (1 / 4) (fwdE 1 (1 / 4) [1, I]) = [2, 2 * I] := by
  rw [fft64_exact_inverse 1 (1 / 4) [1, I] rfl]; simp
/-- the butterfly lemma on concrete doubles: `a = 3 + 4i`, `b = 1 − 2i`, exact twiddle `1` (table entry `(1.0, +0.0)`) -/
example : ‖cval (bflyFwd ⟨0x3FF0000000000000, 0, false⟩ (0x4008000000000000, 0x4010000000000000) (0x3FF0000000000000, 0xC000000000000000)).1
    - (cval (0x4008000000000000, 0x4010000000000000) + 1 * cval (0x3FF0000000000000, 0xC000000000000000))‖ ≤ γf 0 * 8 := by
  have f1 : Fin64 0x3FF0000000000000 := ⟨⟨false, 2 ^ 52, -52⟩, by decide +kernel⟩
  have f0 : Fin64 0 := ⟨⟨false, 0, -1074⟩, by decide +kernel⟩
  have f3 : Fin64 0x4008000000000000 := ⟨⟨false, 3 * 2 ^ 51, -51⟩, by decide +kernel⟩
  have f4 : Fin64 0x4010000000000000 := ⟨⟨false, 2 ^ 52, -50⟩, by decide +kernel⟩
  have fm2 : Fin64 0xC000000000000000 := ⟨⟨true, 2 ^ 52, -51⟩, by decide +kernel⟩
  have v : ∀ (b : Nat) (d : Dy), decode b = some d → val b = d.val := fun _ _ h => val_of_decode h
  have v1 : val 0x3FF0000000000000 = 1 := by
    rw [v _ ⟨false, 2 ^ 52, -52⟩ (by decide +kernel)]; unfold Dy.val; simp only [Bool.false_eq_true, if_false, one_mul]; rw [zpow_neg]; norm_num
  have v0 : val 0 = 0 := by rw [v _ ⟨false, 0, -1074⟩ (by decide +kernel)]; simp [Dy.val]
  have v3 : val 0x4008000000000000 = 3 := by
    rw [v _ ⟨false, 3 * 2 ^ 51, -51⟩ (by decide +kernel)]; unfold Dy.val; simp only [Bool.false_eq_true, if_false, one_mul]; rw [zpow_neg]; norm_num
  have v4 : val 0x4010000000000000 = 4 := by
    rw [v _ ⟨false, 2 ^ 52, -50⟩ (by decide +kernel)]; unfold Dy.val; simp only [Bool.false_eq_true, if_false, one_mul]; rw [zpow_neg]; norm_num
  have vm2 : val 0xC000000000000000 = -2 := by
    rw [v _ ⟨true, 2 ^ 52, -51⟩ (by decide +kernel)]; unfold Dy.val; simp only [if_true]; rw [zpow_neg]; norm_num
  have hn : ∀ x y : ℝ, |x| ≤ 4 → |y| ≤ 4 → ‖(⟨x, y⟩ : ℂ)‖ ≤ 8 := by
    intro x y hx hy; have := norm_le_of_comp_abs ⟨x, y⟩ 4 (by norm_num) hx hy; linarith
  refine (fft64_butterfly_error ⟨0x3FF0000000000000, 0, false⟩ _ _ 1 0 8 ⟨f1, f0⟩ ⟨f3, f4⟩ ⟨f1, fm2⟩ (by simp) ?_ (by norm_num) ?_ ?_
    (by norm_num) ?_).2.2.1
  · have : twC ⟨0x3FF0000000000000, 0, false⟩ = 1 := by
      apply Complex.ext <;> simp [twC, cval, v1, v0]
    rw [this]; simp
  · exact hn _ _ (by rw [v3]; norm_num) (by rw [v4]; norm_num)
  · exact hn _ _ (by rw [v1]; norm_num) (by rw [vm2]; norm_num)
  · calc (8:ℝ) = 2 ^ (3:Int) := by norm_num
      _ ≤ (2:ℝ) ^ (999:Int) := two_pow_le _ _ (by norm_num)

end C07


/-!
# FFT64Avx — the AVX2/FMA back end (appended slice, second round)

`Model/Fft64Avx.lean` models `poulpy-cpu-avx/src/fft64` lane by lane: `F64.fma` (ONE rounding of `x·y + z`:
`_mm256_fmadd_pd / fmsub_pd`, `vfmadd231pd / vfmsub231pd` of the `.s` kernels) replaces the separately rounded products of
the reference in the butterflies, in `reim_mul/addmul` and in the reim4 matrix-vector kernels; the conversions are the
magic-constant / exponent-shift tricks.  Tied bit for bit through `pvh fft64 be=avx` (the `f64` bits differ from FFT64Ref).
The error analysis lifts with the *same* constants (a fused product saves a rounding), so:

* `fft64avx_pipeline_exact`, `fft64avx_vmp_exact`: the FFT64Avx pipelines return exactly `Hal.negMul` / the sum of products
  inside `SvpDomainX` (= `SvpDomain` + one `u`) resp. `VmpDomainAvx`;
* **`fft64_ref_avx_agree_inside_domain`** (the C10 statement for the FFT64 family): inside the common domain both back ends
  return the same integers although their `f64` intermediate values differ; `fft64_ref_avx_agree_numeric` gives the domain
  in numbers (the table of `fft64_domain_numeric`); `fft64_vmp_ref_avx_agree` for the vector-matrix product.
-/

namespace C07
open F64 Fft64 Fft64Avx Complex Hal

/-- `fma` is the correctly rounded `a·b + c`: ONE rounding -/
theorem f64_fma_correctly_rounded (a b c : Nat) (ha : Fin64 a) (hb : Fin64 b) (hc : Fin64 c)
    (hx : |val a * val b + val c| < (2:ℝ) ^ (1023:Int)) :
    Fin64 (F64.fma a b c) ∧ |val (F64.fma a b c) - (val a * val b + val c)| ≤ max (u * |val a * val b + val c|) η :=
  fma_spec a b c ha hb hc hx

/-- one AVX2/FMA forward butterfly: the statement and constant of the reference butterfly -/
theorem fft64avx_butterfly_error (t : Tw) (a b : C64) (ω : ℂ) (τ M : ℝ) (ht : TwFin t) (ha : CFin a) (hb : CFin b)
    (hω : ‖ω‖ = 1) (hτ : ‖twC t - ω‖ ≤ τ) (hτ1 : τ ≤ 1) (hMa : ‖cval a‖ ≤ M) (hMb : ‖cval b‖ ≤ M)
    (hM1 : 1 ≤ M) (hM2 : M ≤ (2:ℝ) ^ (999:Int)) :
    CFin (bflyFwdAvx t a b).1 ∧ CFin (bflyFwdAvx t a b).2 ∧
    ‖cval (bflyFwdAvx t a b).1 - (cval a + ω * cval b)‖ ≤ γf τ * M ∧
    ‖cval (bflyFwdAvx t a b).2 - (cval a - ω * cval b)‖ ≤ γf τ * M :=
  bflyFwdAvx_err t a b ω τ M ht ha hb hω hτ hτ1 hMa hMb hM1 hM2

theorem fft64avx_inv_butterfly_error (t : Tw) (a b : C64) (ω : ℂ) (τ M : ℝ) (ht : TwFin t) (ha : CFin a) (hb : CFin b)
    (hω : ‖ω‖ = 1) (hτ : ‖twCi t - ω‖ ≤ τ) (hτ1 : τ ≤ 1) (hMa : ‖cval a‖ ≤ M) (hMb : ‖cval b‖ ≤ M)
    (hM1 : 1 ≤ M) (hM2 : M ≤ (2:ℝ) ^ (997:Int)) :
    CFin (bflyInvAvx t a b).1 ∧ CFin (bflyInvAvx t a b).2 ∧
    ‖cval (bflyInvAvx t a b).1 - (cval a + cval b)‖ ≤ γi τ * M ∧
    ‖cval (bflyInvAvx t a b).2 - (cval a - cval b) * ω‖ ≤ γi τ * M :=
  bflyInvAvx_err t a b ω τ M ht ha hb hω hτ hτ1 hMa hMb hM1 hM2

/-- the level induction for ANY butterfly function meeting the per-butterfly statement (`Fft64Avx.FwdSpec`) -/
theorem fft64_network_error_generic (bf : Tw → C64 → C64 → C64 × C64) (hbf : FwdSpec bf) (τ : ℝ) (hτ0 : 0 ≤ τ) (hτ1 : τ ≤ 1)
    (tw : Nat → Nat → Tw) (k lvl blk : Nat) (j A E : ℝ) (zc : List C64) (z : List ℂ) (hA : 1 ≤ A) (hE : 0 ≤ E)
    (hlen : zc.length = 2 ^ k) (hc : Close E A zc z) (hacc : AccF τ tw k lvl blk j)
    (hbig : 2 ^ k * (1 + γf τ / 2) ^ k * (A + E) ≤ (2:ℝ) ^ (999:Int)) :
    Close (errB (γf τ) k A E) (2 ^ k * A) (fwdG bf tw k lvl blk zc) (fwdE k j z) :=
  fwdG_err bf hbf τ hτ0 hτ1 tw k lvl blk j A E zc z hA hE hlen hc hacc hbig

/-- `reim_from_znx_i64_bnd50_fma` (magic constant `2^52 + 2^51`): bit for bit the reference conversion inside its asserted range -/
theorem fft64avx_from_znx_eq (a : List Int) (ha : ∀ x ∈ a, x.natAbs ≤ 2 ^ 50 - 1) : fromZnxAvx a = .ok (fromZnx a) :=
  fromZnxAvx_eq a ha

/-- outside the range the kernel's `assert!` fires (an outcome of the model) -/
theorem fft64avx_from_znx_panics : fromZnxAvx [0, 2 ^ 50, 0, 0] = .panic "other" := by rfl

/-- `reim_to_znx_i64_bnd63_avx2_fma`, one lane: the integer within `δ` of `a/2^K` is returned when `δ + u(|c|+1) < 1/2` -/
theorem fft64avx_to_znx_lane (K : Nat) (hK : K ≤ 900) (a : Nat) (ha : Fin64 a) (c : Int) (hc : |c| ≤ 2 ^ 62) (δ : ℝ)
    (hδ : |val a / 2 ^ K - (c:ℝ)| ≤ δ) (hmain : δ + u * (|(c:ℝ)| + 1) < 1 / 2) : toLaneAvx K a = c :=
  toLaneAvx_spec K hK a ha c hc δ hδ hmain

/-- **`fft64avx_pipeline_exact`**: `svp_prepare`; `svp_apply_dft`; `vec_znx_idft_apply` on `Module<FFT64Avx>` (model
`Fft64Avx.svpPipelineAvx`, tied bit for bit) returns exactly the negacyclic product inside `SvpDomainX` -/
theorem fft64avx_pipeline_exact (K : Nat) (omg iomg : Array Nat) (τ Ma Mb : ℝ) (p x : List Int)
    (hacc : TableAccurate τ K omg iomg)
    (hp : p.length = 2 ^ (K + 1)) (hx : x.length = 2 ^ (K + 1))
    (hpM : ∀ c ∈ p, c.natAbs ≤ 2 ^ 50 - 1 ∧ |(c:ℝ)| ≤ Ma) (hxM : ∀ c ∈ x, c.natAbs ≤ 2 ^ 50 - 1 ∧ |(c:ℝ)| ≤ Mb)
    (hdomX : SvpDomainX K τ Ma Mb) : svpPipelineAvx K omg iomg p x = .ok (Hal.negMul p x) :=
  svpAvx_pipeline_exact K omg iomg τ Ma Mb p x hacc hp hx hpM hxM hdomX

/-- **`fft64_ref_avx_agree_inside_domain`** — the C10 statement for the FFT64 family: inside the common domain FFT64Avx
and FFT64Ref return the same integers, although every intermediate `f64` differs in its last bits -/
theorem fft64_ref_avx_agree_inside_domain (K : Nat) (omg iomg : Array Nat) (τ Ma Mb : ℝ) (p x : List Int)
    (hacc : TableAccurate τ K omg iomg)
    (hp : p.length = 2 ^ (K + 1)) (hx : x.length = 2 ^ (K + 1))
    (hpM : ∀ c ∈ p, c.natAbs ≤ 2 ^ 50 - 1 ∧ |(c:ℝ)| ≤ Ma) (hxM : ∀ c ∈ x, c.natAbs ≤ 2 ^ 50 - 1 ∧ |(c:ℝ)| ≤ Mb)
    (hdomX : SvpDomainX K τ Ma Mb) :
    svpPipelineAvx K omg iomg p x = .ok (Fft64.svpPipeline K omg iomg p x) :=
  svp_ref_avx_agree K omg iomg τ Ma Mb p x hacc hp hx hpM hxM hdomX

/-- the common domain in numbers: the table of `fft64_domain_numeric` -/
theorem fft64avx_domain_numeric (K : Nat) (hK : K ≤ 15) (Ma Mb : ℝ) (hMa : 1 ≤ Ma) (hMb : 1 ≤ Mb)
    (h : Ma * Mb ≤ (2:ℝ) ^ (domBits K)) : SvpDomainX K τ51 Ma Mb := svpDomainX_numeric K hK Ma Mb hMa hMb h

/-- integer hypotheses only: exactness on FFT64Avx and agreement with FFT64Ref for `n ≤ 2^16`, `A·B ≤ 2^(domBits K)` -/
theorem fft64_ref_avx_agree_numeric (K : Nat) (hK : K ≤ 15) (omg iomg : Array Nat) (hacc : TableAccurate τ51 K omg iomg)
    (p x : List Int) (hp : p.length = 2 ^ (K + 1)) (hx : x.length = 2 ^ (K + 1)) (A B : Nat) (hA : 1 ≤ A) (hB : 1 ≤ B)
    (hpA : ∀ c ∈ p, c.natAbs ≤ A) (hxB : ∀ c ∈ x, c.natAbs ≤ B) (hAB : A * B ≤ 2 ^ domBits K) :
    svpPipelineAvx K omg iomg p x = .ok (Hal.negMul p x) ∧
    svpPipelineAvx K omg iomg p x = .ok (Fft64.svpPipeline K omg iomg p x) :=
  svpAvx_exact_numeric K hK omg iomg hacc p x hp hx A B hA hB hpA hxB hAB

/-- **`fft64avx_vmp_exact`**: `vmp_prepare`; `vmp_apply_dft` (one output column through `reim4_vec_mat1col_product_avx`:
four fused real accumulators per slot, `re1 − re2`, `im1 + im2` at the end); `idft` = the exact sum of products, inside
`VmpDomainAvx` -/
theorem fft64avx_vmp_exact (K : Nat) (hK2 : 2 ≤ K) (omg iomg : Array Nat) (τ Ma Mb : ℝ) (rows : List (Poly × Poly))
    (hacc : TableAccurate τ K omg iomg)
    (hlen : ∀ r ∈ rows, r.1.length = 2 ^ (K + 1) ∧ r.2.length = 2 ^ (K + 1))
    (hM : ∀ r ∈ rows, (∀ c ∈ r.1, c.natAbs ≤ 2 ^ 50 - 1 ∧ |(c:ℝ)| ≤ Ma) ∧ (∀ c ∈ r.2, c.natAbs ≤ 2 ^ 50 - 1 ∧ |(c:ℝ)| ≤ Mb))
    (hdom : VmpDomainAvx K rows.length τ Ma Mb) :
    vmpPipelineAvx K omg iomg 1 rows = .ok (Hal.sumPolys (2 ^ (K + 1)) (rows.map (fun r => Hal.negMul r.1 r.2))) :=
  vmpAvx_pipeline_exact K hK2 omg iomg τ Ma Mb rows hacc hlen hM hdom

theorem fft64_vmp_ref_avx_agree (K : Nat) (hK2 : 2 ≤ K) (omg iomg : Array Nat) (τ Ma Mb : ℝ) (rows : List (Poly × Poly))
    (hacc : TableAccurate τ K omg iomg)
    (hlen : ∀ r ∈ rows, r.1.length = 2 ^ (K + 1) ∧ r.2.length = 2 ^ (K + 1))
    (hM : ∀ r ∈ rows, (∀ c ∈ r.1, c.natAbs ≤ 2 ^ 50 - 1 ∧ |(c:ℝ)| ≤ Ma) ∧ (∀ c ∈ r.2, c.natAbs ≤ 2 ^ 50 - 1 ∧ |(c:ℝ)| ≤ Mb))
    (hdomA : VmpDomainAvx K rows.length τ Ma Mb) (hdomR : VmpDomain K rows.length τ Ma Mb) :
    vmpPipelineAvx K omg iomg 1 rows = .ok (Fft64.vmpPipeline K omg iomg rows) :=
  vmp_ref_avx_agree K hK2 omg iomg τ Ma Mb rows hacc hlen hM hdomA hdomR

theorem fft64avx_vmp_domain_example : VmpDomainAvx 2 3 τ51 4096 4096 := vmpDomainAvx_example

/-- `VmpDomain` follows from its main inequality alone (all range side conditions are consequences) -/
theorem fft64_vmp_domain_of_main (K R : Nat) (τ Ma Mb : ℝ) (hτ0 : 0 ≤ τ) (hτ1 : τ ≤ 1) (hK : K ≤ 1022) (hR : 1 ≤ R)
    (hMa : 1 ≤ Ma) (hMb : 1 ≤ Mb)
    (hmain : errB (γi τ) K (accR K R τ Ma Mb).2 (accR K R τ Ma Mb).1 / 2 ^ K * (1 + u) + u * (accR K R τ Ma Mb).2 + η < 1 / 2) :
    VmpDomain K R τ Ma Mb := vmpDomain_of_main K R τ Ma Mb hτ0 hτ1 hK hR hMa hMb hmain

/-- **`VmpDomain` in numbers** (FFT64Ref, `τ = 2^-51`, `n = 8 … 65536`, up to 64 rows): `rows·Ma·Mb ≤ 2^(domBitsV K)`,
`domBitsV = 40, 37, 35, 33, 31, 29, 26, 24, 22, 20, 18, 16, 14, 12` for `K = 2 … 15`, i.e.
`n·rows·Ma·Mb ≤ 2^43, 2^41, 2^40, 2^39, 2^38, 2^37, 2^35, 2^34, 2^33, 2^32, 2^31, 2^30, 2^29, 2^28`;
growth `(Gv−1)(1+u)+u ≤ (20K + 70)·2^-53` -/
theorem fft64_vmp_domain_numeric (K : Nat) (hK2 : 2 ≤ K) (hK : K ≤ 15) (R : Nat) (hR1 : 1 ≤ R) (hR : R ≤ 64) (Ma Mb : ℝ)
    (hMa : 1 ≤ Ma) (hMb : 1 ≤ Mb) (h : R * (Ma * Mb) ≤ (2:ℝ) ^ (domBitsV K)) : VmpDomain K R τ51 Ma Mb :=
  vmpDomain_numeric K hK2 hK R hR1 hR Ma Mb hMa hMb h

/-- **`VmpDomainAvx` in numbers** (FFT64Avx, mat1col kernel): `rows·Ma·Mb ≤ 2^(domBitsVA K)`,
`domBitsVA = 38, 36, 34, 32, 30, 27, 25, 23, 21, 19, 17, 15, 13, 11` for `K = 2 … 15`; growth `≤ (41K + 197)·2^-53` -/
theorem fft64avx_vmp_domain_numeric (K : Nat) (hK : K ≤ 15) (R : Nat) (hR1 : 1 ≤ R) (hR : R ≤ 64) (Ma Mb : ℝ)
    (hMa : 1 ≤ Ma) (hMb : 1 ≤ Mb) (h : R * (Ma * Mb) ≤ (2:ℝ) ^ (domBitsVA K)) : VmpDomainAvx K R τ51 Ma Mb :=
  vmpDomainAvx_numeric K hK R hR1 hR Ma Mb hMa hMb h

/-- vmp on both back ends with numbers only: exact and equal when `rows·Ma·Mb ≤ 2^(domBitsVA K)` -/
theorem fft64_vmp_ref_avx_agree_numeric (K : Nat) (hK2 : 2 ≤ K) (hK : K ≤ 15) (omg iomg : Array Nat) (Ma Mb : ℝ)
    (rows : List (Poly × Poly)) (hacc : TableAccurate τ51 K omg iomg)
    (hlen : ∀ r ∈ rows, r.1.length = 2 ^ (K + 1) ∧ r.2.length = 2 ^ (K + 1))
    (hM : ∀ r ∈ rows, (∀ c ∈ r.1, c.natAbs ≤ 2 ^ 50 - 1 ∧ |(c:ℝ)| ≤ Ma) ∧ (∀ c ∈ r.2, c.natAbs ≤ 2 ^ 50 - 1 ∧ |(c:ℝ)| ≤ Mb))
    (hR1 : 1 ≤ rows.length) (hR : rows.length ≤ 64) (hMa : 1 ≤ Ma) (hMb : 1 ≤ Mb)
    (h : rows.length * (Ma * Mb) ≤ (2:ℝ) ^ (domBitsVA K)) :
    vmpPipelineAvx K omg iomg 1 rows = .ok (Hal.sumPolys (2 ^ (K + 1)) (rows.map (fun r => Hal.negMul r.1 r.2))) ∧
    vmpPipelineAvx K omg iomg 1 rows = .ok (Fft64.vmpPipeline K omg iomg rows) := by
  have hle : (2:ℝ) ^ (domBitsVA K) ≤ (2:ℝ) ^ (domBitsV K) := by
    apply pow_le_pow_right₀ (by norm_num)
    interval_cases K <;> simp [domBitsVA, domBitsV]
  have dA := fft64avx_vmp_domain_numeric K hK rows.length hR1 hR Ma Mb hMa hMb h
  have dR := fft64_vmp_domain_numeric K hK2 hK rows.length hR1 hR Ma Mb hMa hMb (le_trans h hle)
  exact ⟨fft64avx_vmp_exact K hK2 omg iomg τ51 Ma Mb rows hacc hlen hM dA,
    fft64_vmp_ref_avx_agree K hK2 omg iomg τ51 Ma Mb rows hacc hlen hM dA dR⟩

/- The 2-column kernels (`reim4_vec_mat2cols_product_avx`, `…_2ndcol_product_avx`) are proved below: `fft64avx_vmp2_exact`. -/

/-! non-vacuity: FFT64Avx and FFT64Ref on the crate's `m = 2` tables (where `m < 16` runs the reference butterflies and
only the conversions differ), and the fused operation itself -/
example : svpPipelineAvx 1 omg2 iomg2 [1000000, -2000000, 3000000, 4194303] [4194303, -1, 7, -4000000] =
    .ok (Fft64.svpPipeline 1 omg2 iomg2 [1000000, -2000000, 3000000, 4194303] [4194303, -1, 7, -4000000]) :=
  (fft64_ref_avx_agree_numeric 1 (by norm_num) omg2 iomg2 fft64_table_accurate_m2 _ _ rfl rfl (2 ^ 22) (2 ^ 22) (by norm_num) (by norm_num)
    (by decide) (by decide) (by decide)).2
/-- `fma(1+2^-52, 1+2^-51, -(1+3·2^-52)) = 2^-103`: the term a separately rounded product loses -/
example : F64.fma 0x3FF0000000000001 0x3FF0000000000002 0xBFF0000000000003 = 0x3980000000000000 ∧
    F64.add (F64.mul 0x3FF0000000000001 0x3FF0000000000002) 0xBFF0000000000003 = 0 := by decide +kernel
/-- the two back ends really differ in the `f64` domain: one butterfly, same inputs, different bits -/
example : bflyFwdAvx ⟨0x3FE6A09E667F3BCD, 0x3FE6A09E667F3BCC, false⟩ (0x4008000000000002, 0x4010000000000006) (0x3FF8000000000131, 0x3FFC00000000046D) ≠
    bflyFwd ⟨0x3FE6A09E667F3BCD, 0x3FE6A09E667F3BCC, false⟩ (0x4008000000000002, 0x4010000000000006) (0x3FF8000000000131, 0x3FFC00000000046D) := by
  decide +kernel
example : toLaneAvx 2 0x4024000000000000 = 3 ∧ toLaneAvx 2 0xC024000000000000 = -3 ∧ fromLaneAvx (-5) = ofInt (-5) := by decide +kernel

end C07


/-!
# FFT64: the fused-lane kernels and the bivariate convolution path (appended slice, second round, part 2)

* `fft64avx_lane_step_error`: the error lemma of `re = fmsub(ar, br, fmsub(ai, bi, re))`, `im = fmadd(ai, br, fmadd(ar, bi, im))`
  (two fused operations per product on one accumulator) — the lane of `reim4_vec_mat2cols(_2ndcol)_product_avx`,
  `reim4_convolution_{1,2}coeffs_avx` and `reim_addmul_avx2_fma`; `fft64avx_vmp2_exact` lifts it to the 2-column vmp kernels.
* `fft64_cnv_matches_spec` / `fft64avx_cnv_matches_spec`: `cnv_prepare_left/right` + `cnv_apply_dft` + `idft` of one column equal
  `Hal.cnvApplyCol` of the prepared (masked, zero-filled) operands, on both back ends, inside explicit domains
  (`VmpDomain` resp. `LaneDomainAvx` for every number of accumulated products `R ≤ min(sizeL, sizeR)`), numeric tables included;
  `fft64_cnv_ref_avx_agree`: the two back ends return the same column.
* `fft64avx_cnv_by_const_eq_ref`: the `i64` by-constant convolution of FFT64Avx equals FFT64Ref on **all** inputs since patch 34
  (`mul_i64_wrapping_avx2`; the lane lemma is C10's `mul64_lanes_eq_wrapping_mul`); `…_old_lane_counterexample` documents the
  repaired defect: the `_mm256_mul_epi32` lane of the pinned tree is wrong at `3000000000 · 3`.
-/

namespace C07
open F64 Fft64 Fft64Avx Fft64Cnv Complex Hal

/-- **fused two-operation accumulate**: per component the error grows by `accStepN ν2 (2q + u·Aa·Ab) (Aa·Ab)`, `ν2 = 2u + u²` -/
theorem fft64avx_lane_step_error (g A Ea Aa Eb Ab : ℝ) (hAa : 1 ≤ Aa) (hAb : 1 ≤ Ab) (hEa : 0 ≤ Ea) (hEb : 0 ≤ Eb) (hg : 0 ≤ g) (hA : 0 ≤ A)
    (hbig : (accStepN ν2 (2 * qOf Ea Aa Eb Ab + u * (Aa * Ab)) (Aa * Ab) (g, A)).2 +
      (accStepN ν2 (2 * qOf Ea Aa Eb Ab + u * (Aa * Ab)) (Aa * Ab) (g, A)).1 ≤ (2:ℝ) ^ (1000:Int))
    (s : C64) (S : ℂ) (uc vc : C64) (x y : ℂ) (hs : Rel2 g A s S)
    (hu : CFin uc ∧ ‖cval uc - x‖ ≤ Ea ∧ ‖x‖ ≤ Aa) (hv : CFin vc ∧ ‖cval vc - y‖ ≤ Eb ∧ ‖y‖ ≤ Ab) :
    Rel2 (accStepN ν2 (2 * qOf Ea Aa Eb Ab + u * (Aa * Ab)) (Aa * Ab) (g, A)).1
         (accStepN ν2 (2 * qOf Ea Aa Eb Ab + u * (Aa * Ab)) (Aa * Ab) (g, A)).2
      (caddmulLaneAvx s uc vc) (S + x * y) :=
  lane_step g A Ea Aa Eb Ab hAa hAb hEa hEb hg hA hbig s S uc vc x y hs hu hv

/-- the 2-column vmp kernel is the same lane (definitionally) -/
theorem fft64avx_mat2cols_is_lane (acc a b : C64) : mat2colsStep acc a b = caddmulLaneAvx acc a b := rfl

/-- **`fft64avx_vmp_exact` for the 2-column kernels** (`reim4_vec_mat2cols_product_avx`, `…_2ndcol_product_avx`) -/
theorem fft64avx_vmp2_exact (K : Nat) (hK2 : 2 ≤ K) (omg iomg : Array Nat) (τ Ma Mb : ℝ) (rows : List (Poly × Poly))
    (hacc : TableAccurate τ K omg iomg)
    (hlen : ∀ r ∈ rows, r.1.length = 2 ^ (K + 1) ∧ r.2.length = 2 ^ (K + 1))
    (hM : ∀ r ∈ rows, (∀ c ∈ r.1, c.natAbs ≤ 2 ^ 50 - 1 ∧ |(c:ℝ)| ≤ Ma) ∧ (∀ c ∈ r.2, c.natAbs ≤ 2 ^ 50 - 1 ∧ |(c:ℝ)| ≤ Mb))
    (hdom : LaneDomainAvx K rows.length τ Ma Mb) :
    vmpPipelineAvx K omg iomg 2 rows = .ok (Hal.sumPolys (2 ^ (K + 1)) (rows.map (fun r => Hal.negMul r.1 r.2))) :=
  vmpAvx2_pipeline_exact K hK2 omg iomg τ Ma Mb rows hacc hlen hM hdom

/-- `LaneDomainAvx` follows from its main inequality alone -/
theorem fft64avx_lane_domain_of_main (K R : Nat) (τ Ma Mb : ℝ) (hτ0 : 0 ≤ τ) (hτ1 : τ ≤ 1) (hK : K ≤ 900) (hR : 1 ≤ R)
    (hMa : 1 ≤ Ma) (hMb : 1 ≤ Mb)
    (hmain : errB (γi τ) K (accRL K R τ Ma Mb).2 (EaccL K R τ Ma Mb) / 2 ^ K * (1 + u) + u * ((accRL K R τ Ma Mb).2 + 1) + η < 1 / 2) :
    LaneDomainAvx K R τ Ma Mb := laneDomainAvx_of_main K R τ Ma Mb hτ0 hτ1 hK hR hMa hMb hmain

/-- **`LaneDomainAvx` in numbers** (up to 64 accumulated products): `R·Ma·Mb ≤ 2^(domBitsVA K)` — the table of the one-column
kernel (`38, 36, 34, 32, 30, 27, 25, 23, 21, 19, 17, 15, 13, 11` for `K = 2 … 15`), growth `≤ (41K + 197)·2^-53` -/
theorem fft64avx_lane_domain_numeric (K : Nat) (hK : K ≤ 15) (R : Nat) (hR1 : 1 ≤ R) (hR : R ≤ 64) (Ma Mb : ℝ)
    (hMa : 1 ≤ Ma) (hMb : 1 ≤ Mb) (h : R * (Ma * Mb) ≤ (2:ℝ) ^ (domBitsVA K)) : LaneDomainAvx K R τ51 Ma Mb :=
  laneDomainAvx_numeric K hK R hR1 hR Ma Mb hMa hMb h

theorem domBitsVA_le_V (K : Nat) (hK : K ≤ 15) : (2:ℝ) ^ (domBitsVA K) ≤ (2:ℝ) ^ (domBitsV K) := by
  apply pow_le_pow_right₀ (by norm_num)
  interval_cases K <;> simp [domBitsVA, domBitsV]

/-- vmp through the 2-column kernels, numbers only: exact, and equal to FFT64Ref -/
theorem fft64_vmp2_ref_avx_agree_numeric (K : Nat) (hK2 : 2 ≤ K) (hK : K ≤ 15) (omg iomg : Array Nat) (Ma Mb : ℝ)
    (rows : List (Poly × Poly)) (hacc : TableAccurate τ51 K omg iomg)
    (hlen : ∀ r ∈ rows, r.1.length = 2 ^ (K + 1) ∧ r.2.length = 2 ^ (K + 1))
    (hM : ∀ r ∈ rows, (∀ c ∈ r.1, c.natAbs ≤ 2 ^ 50 - 1 ∧ |(c:ℝ)| ≤ Ma) ∧ (∀ c ∈ r.2, c.natAbs ≤ 2 ^ 50 - 1 ∧ |(c:ℝ)| ≤ Mb))
    (hR1 : 1 ≤ rows.length) (hR : rows.length ≤ 64) (hMa : 1 ≤ Ma) (hMb : 1 ≤ Mb)
    (h : rows.length * (Ma * Mb) ≤ (2:ℝ) ^ (domBitsVA K)) :
    vmpPipelineAvx K omg iomg 2 rows = .ok (Hal.sumPolys (2 ^ (K + 1)) (rows.map (fun r => Hal.negMul r.1 r.2))) ∧
    vmpPipelineAvx K omg iomg 2 rows = .ok (Fft64.vmpPipeline K omg iomg rows) := by
  have dA := fft64avx_lane_domain_numeric K hK rows.length hR1 hR Ma Mb hMa hMb h
  have dR := fft64_vmp_domain_numeric K hK2 hK rows.length hR1 hR Ma Mb hMa hMb (le_trans h (domBitsVA_le_V K hK))
  have e := fft64avx_vmp2_exact K hK2 omg iomg τ51 Ma Mb rows hacc hlen hM dA
  refine ⟨e, ?_⟩
  rw [e, vmp_pipeline_exact K omg iomg τ51 Ma Mb rows hacc hlen
      (fun r hr => ⟨fun c hc => ⟨by have := ((hM r hr).1 c hc).1; omega, ((hM r hr).1 c hc).2⟩,
        fun c hc => ⟨by have := ((hM r hr).2 c hc).1; omega, ((hM r hr).2 c hc).2⟩⟩) dR]

/-! ### convolution -/

/-- `convolution_prepare` on FFT64Ref: every prepared limb is `(EF, AF)`-close to the exact transform of the limb of
`Hal.cnvPrepareCol` (masked top limb, zero fill) -/
theorem fft64_cnv_prepare_rel (K : Nat) (omg : Array Nat) (τ M : ℝ) (rs : Nat) (mask : Int) (a : Col)
    (hτ0 : 0 ≤ τ) (hτ1 : τ ≤ 1) (hM : 1 ≤ M) (hacc : AccF τ (twOf (fwdIdx K) omg) K 0 0 (1 / 4))
    (hr : 2 ^ K * (1 + γf τ / 2) ^ K * (A0 M + 0) ≤ (2:ℝ) ^ (999:Int))
    (hok : PrepOK K M (cnvPrepareCol (2 * 2 ^ K) rs mask a)) :
    ∃ pa, cnvPrepare refOps K omg rs mask a = .ok pa ∧ PrepRel K τ M pa (cnvPrepareCol (2 * 2 ^ K) rs mask a) :=
  cnvPrepare_rel K omg τ M rs mask a hτ0 hτ1 hM hacc hr hok

/-- **`fft64_cnv_matches_spec`**: FFT64Ref, one column of `cnv_prepare_left/right` + `cnv_apply_dft` + `idft` -/
theorem fft64_cnv_matches_spec (K : Nat) (hK2 : 2 ≤ K) (omg iomg : Array Nat) (τ Ma Mb : ℝ) (rs off sl sr : Nat) (ml mr : Int)
    (a b : Col) (hacc : TableAccurate τ K omg iomg) (hsl : 1 ≤ sl) (hsr : 1 ≤ sr)
    (hA : PrepOK K Ma (cnvPrepareCol (2 * 2 ^ K) sl ml a)) (hB : PrepOK K Mb (cnvPrepareCol (2 * 2 ^ K) sr mr b))
    (hdom : ∀ R, 1 ≤ R → R ≤ min sl sr → VmpDomain K R τ Ma Mb) :
    cnvPipeline refOps K omg iomg rs off sl sr ml mr a b =
      .ok (cnvApplyCol (2 * 2 ^ K) rs off (cnvPrepareCol (2 * 2 ^ K) sl ml a) (cnvPrepareCol (2 * 2 ^ K) sr mr b)) :=
  cnv_pipeline_exact K hK2 omg iomg τ Ma Mb rs off sl sr ml mr a b hacc hsl hsr hA hB hdom

/-- the convolution domain in numbers: at most `min(sizeL, sizeR) ≤ 64` products are accumulated per output limb -/
theorem fft64_cnv_matches_spec_numeric (K : Nat) (hK2 : 2 ≤ K) (hK : K ≤ 15) (omg iomg : Array Nat) (Ma Mb : ℝ) (rs off sl sr : Nat)
    (ml mr : Int) (a b : Col) (hacc : TableAccurate τ51 K omg iomg) (hsl : 1 ≤ sl) (hsr : 1 ≤ sr) (h64 : min sl sr ≤ 64)
    (hMa : 1 ≤ Ma) (hMb : 1 ≤ Mb)
    (hA : PrepOK K Ma (cnvPrepareCol (2 * 2 ^ K) sl ml a)) (hB : PrepOK K Mb (cnvPrepareCol (2 * 2 ^ K) sr mr b))
    (h : (min sl sr : Nat) * (Ma * Mb) ≤ (2:ℝ) ^ (domBitsV K)) :
    cnvPipeline refOps K omg iomg rs off sl sr ml mr a b =
      .ok (cnvApplyCol (2 * 2 ^ K) rs off (cnvPrepareCol (2 * 2 ^ K) sl ml a) (cnvPrepareCol (2 * 2 ^ K) sr mr b)) := by
  apply fft64_cnv_matches_spec K hK2 omg iomg τ51 Ma Mb rs off sl sr ml mr a b hacc hsl hsr hA hB
  intro R hR1 hR
  apply fft64_vmp_domain_numeric K hK2 hK R hR1 (le_trans hR h64) Ma Mb hMa hMb
  refine le_trans ?_ h
  have : (R:ℝ) ≤ ((min sl sr : Nat):ℝ) := by exact_mod_cast hR
  exact mul_le_mul_of_nonneg_right this (by positivity)

/-- **`fft64avx_cnv_matches_spec`**: FFT64Avx (range assertions of the conversion included: no panic) -/
theorem fft64avx_cnv_matches_spec (K : Nat) (hK2 : 2 ≤ K) (omg iomg : Array Nat) (τ Ma Mb : ℝ) (rs off sl sr : Nat) (ml mr : Int)
    (a b : Col) (hacc : TableAccurate τ K omg iomg) (hsl : 1 ≤ sl) (hsr : 1 ≤ sr)
    (hrawA : ∀ j, j < min sl a.length → ∀ c ∈ limbOr0 (2 * 2 ^ K) a j, c.natAbs ≤ 2 ^ 50 - 1)
    (hrawB : ∀ j, j < min sr b.length → ∀ c ∈ limbOr0 (2 * 2 ^ K) b j, c.natAbs ≤ 2 ^ 50 - 1)
    (hA : PrepOKA K Ma (cnvPrepareCol (2 * 2 ^ K) sl ml a)) (hB : PrepOKA K Mb (cnvPrepareCol (2 * 2 ^ K) sr mr b))
    (hdom : ∀ R, 1 ≤ R → R ≤ min sl sr → LaneDomainAvx K R τ Ma Mb) :
    cnvPipeline avxOps K omg iomg rs off sl sr ml mr a b =
      .ok (cnvApplyCol (2 * 2 ^ K) rs off (cnvPrepareCol (2 * 2 ^ K) sl ml a) (cnvPrepareCol (2 * 2 ^ K) sr mr b)) :=
  cnvAvx_pipeline_exact K hK2 omg iomg τ Ma Mb rs off sl sr ml mr a b hacc hsl hsr hrawA hrawB hA hB hdom

/-- **`fft64_cnv_ref_avx_agree`** with numbers only: both back ends return `Hal.cnvApplyCol`, hence the same column -/
theorem fft64_cnv_ref_avx_agree (K : Nat) (hK2 : 2 ≤ K) (hK : K ≤ 15) (omg iomg : Array Nat) (Ma Mb : ℝ) (rs off sl sr : Nat)
    (ml mr : Int) (a b : Col) (hacc : TableAccurate τ51 K omg iomg) (hsl : 1 ≤ sl) (hsr : 1 ≤ sr) (h64 : min sl sr ≤ 64)
    (hMa : 1 ≤ Ma) (hMb : 1 ≤ Mb)
    (hrawA : ∀ j, j < min sl a.length → ∀ c ∈ limbOr0 (2 * 2 ^ K) a j, c.natAbs ≤ 2 ^ 50 - 1)
    (hrawB : ∀ j, j < min sr b.length → ∀ c ∈ limbOr0 (2 * 2 ^ K) b j, c.natAbs ≤ 2 ^ 50 - 1)
    (hA : PrepOKA K Ma (cnvPrepareCol (2 * 2 ^ K) sl ml a)) (hB : PrepOKA K Mb (cnvPrepareCol (2 * 2 ^ K) sr mr b))
    (h : (min sl sr : Nat) * (Ma * Mb) ≤ (2:ℝ) ^ (domBitsVA K)) :
    cnvPipeline avxOps K omg iomg rs off sl sr ml mr a b =
      .ok (cnvApplyCol (2 * 2 ^ K) rs off (cnvPrepareCol (2 * 2 ^ K) sl ml a) (cnvPrepareCol (2 * 2 ^ K) sr mr b)) ∧
    cnvPipeline avxOps K omg iomg rs off sl sr ml mr a b = cnvPipeline refOps K omg iomg rs off sl sr ml mr a b := by
  have hRle : ∀ R : Nat, R ≤ min sl sr → (R:ℝ) * (Ma * Mb) ≤ (2:ℝ) ^ (domBitsVA K) := by
    intro R hR
    refine le_trans ?_ h
    have : (R:ℝ) ≤ ((min sl sr : Nat):ℝ) := by exact_mod_cast hR
    exact mul_le_mul_of_nonneg_right this (by positivity)
  have dA : ∀ R, 1 ≤ R → R ≤ min sl sr → LaneDomainAvx K R τ51 Ma Mb :=
    fun R hR1 hR => fft64avx_lane_domain_numeric K hK R hR1 (le_trans hR h64) Ma Mb hMa hMb (hRle R hR)
  have dR : ∀ R, 1 ≤ R → R ≤ min sl sr → VmpDomain K R τ51 Ma Mb :=
    fun R hR1 hR => fft64_vmp_domain_numeric K hK2 hK R hR1 (le_trans hR h64) Ma Mb hMa hMb (le_trans (hRle R hR) (domBitsVA_le_V K hK))
  exact ⟨fft64avx_cnv_matches_spec K hK2 omg iomg τ51 Ma Mb rs off sl sr ml mr a b hacc hsl hsr hrawA hrawB hA hB dA,
    cnv_ref_avx_agree K hK2 omg iomg τ51 Ma Mb rs off sl sr ml mr a b hacc hsl hsr hrawA hrawB hA hB dR dA⟩

/-- **by-constant convolution (`i64`)**: FFT64Avx = FFT64Ref on every input (patch 34: both back ends form `wrapping_mul` products;
that the three-`_mm256_mul_epu32` lane *is* `wrapping_mul` is C10's `mul64_lanes_eq_wrapping_mul` /
`fft64avx_cnv_by_const_eq_ref_all_inputs`) -/
theorem fft64avx_cnv_by_const_eq_ref (K rs off : Nat) (a : Col) (b : List Int) :
    cnvByConst true K rs off a b = cnvByConst false K rs off a b := cnvByConst_avx_eq_ref K rs off a b

/-- the lane of the pinned tree (`_mm256_mul_epi32`: sign-extended low 32 bits) agreed with `wrapping_mul` on `i32` operands only -/
theorem fft64avx_cnv_by_const_old_lane_eq (a b : Int) (ha : -(2 ^ 31) ≤ a ∧ a < 2 ^ 31) (hb : -(2 ^ 31) ≤ b ∧ b < 2 ^ 31) :
    byConstTermOldLane a b = byConstTerm true a b := byConstTermOldLane_eq a b ha hb

/-- … and **differed outside** (documentation of the repaired defect): `3000000000 · 3` gave `−3884901888` -/
theorem fft64avx_cnv_by_const_old_lane_counterexample :
    byConstTermOldLane 3000000000 3 = -3884901888 ∧ byConstTerm true 3000000000 3 = 9000000000 ∧
    byConstTermOldLane 3000000000 3 ≠ byConstTerm true 3000000000 3 := byConstTermOldLane_counterexample

/-! ### pairwise convolution `(a_i + a_j)·(b_i + b_j)` -/

/-- `reim_add` of two `(EF τ M, AF M)`-close transforms is `(EF τ' 2M, AF 2M)`-close: the sums double the magnitude, and the one
extra rounding per component is absorbed by stating the result at `τ'` with `(1 + γf τ/2)(1 + 3u/2) ≤ 1 + γf τ'/2` -/
theorem fft64_reim_add_close (K : Nat) (hK : 1 ≤ K) (τ τ' M : ℝ) (hτ0 : 0 ≤ τ) (hM : 1 ≤ M)
    (hf : (1 + γf τ / 2) * (1 + 3 / 2 * u) ≤ 1 + γf τ' / 2)
    (hbig : 2 * (AF K M + EF K τ M) ≤ (2:ℝ) ^ (1000:Int))
    {x y : List C64} {X Y : List ℂ} (hx : Close (EF K τ M) (AF K M) x X) (hy : Close (EF K τ M) (AF K M) y Y) :
    Close (EF K τ' (2 * M)) (AF K (2 * M)) (List.zipWith (fun p q : C64 => (add p.1 q.1, add p.2 q.2)) x y) (List.zipWith (· + ·) X Y) :=
  close_add K hK τ τ' M hτ0 hM hf hbig hx hy

/-- **`fft64_cnv_pairwise_matches_spec`** (FFT64Ref): `cnv_pairwise_apply_dft(i ≠ j)` + `idft` = `cnvApplyCol` of the column sums -/
theorem fft64_cnv_pairwise_matches_spec (K : Nat) (hK2 : 2 ≤ K) (omg iomg : Array Nat) (τ τ' Ma Mb : ℝ) (rs off sl sr : Nat) (ml mr : Int)
    (a0 a1 b0 b1 : Col) (hacc : TableAccurate τ K omg iomg) (hτ0 : 0 ≤ τ) (hττ : τ ≤ τ')
    (hf : (1 + γf τ / 2) * (1 + 3 / 2 * u) ≤ 1 + γf τ' / 2) (hsl : 1 ≤ sl) (hsr : 1 ≤ sr) (hMa : 1 ≤ Ma) (hMb : 1 ≤ Mb)
    (hA0 : PrepOK K Ma (cnvPrepareCol (2 * 2 ^ K) sl ml a0)) (hA1 : PrepOK K Ma (cnvPrepareCol (2 * 2 ^ K) sl ml a1))
    (hB0 : PrepOK K Mb (cnvPrepareCol (2 * 2 ^ K) sr mr b0)) (hB1 : PrepOK K Mb (cnvPrepareCol (2 * 2 ^ K) sr mr b1))
    (hdom : ∀ R, 1 ≤ R → R ≤ min sl sr → VmpDomain K R τ' (2 * Ma) (2 * Mb)) :
    cnvPairwise refOps K omg iomg rs off sl sr ml mr a0 a1 b0 b1 =
      .ok (cnvApplyCol (2 * 2 ^ K) rs off
        (colAdd (2 * 2 ^ K) (cnvPrepareCol (2 * 2 ^ K) sl ml a0) (cnvPrepareCol (2 * 2 ^ K) sl ml a1))
        (colAdd (2 * 2 ^ K) (cnvPrepareCol (2 * 2 ^ K) sr mr b0) (cnvPrepareCol (2 * 2 ^ K) sr mr b1))) :=
  cnv_pairwise_exact K hK2 omg iomg τ τ' Ma Mb rs off sl sr ml mr a0 a1 b0 b1 hacc hτ0 hττ hf hsl hsr hMa hMb hA0 hA1 hB0 hB1 hdom

/-- **`fft64avx_cnv_pairwise_matches_spec`** (FFT64Avx) -/
theorem fft64avx_cnv_pairwise_matches_spec (K : Nat) (hK2 : 2 ≤ K) (omg iomg : Array Nat) (τ τ' Ma Mb : ℝ) (rs off sl sr : Nat) (ml mr : Int)
    (a0 a1 b0 b1 : Col) (hacc : TableAccurate τ K omg iomg) (hτ0 : 0 ≤ τ) (hττ : τ ≤ τ')
    (hf : (1 + γf τ / 2) * (1 + 3 / 2 * u) ≤ 1 + γf τ' / 2) (hsl : 1 ≤ sl) (hsr : 1 ≤ sr) (hMa : 1 ≤ Ma) (hMb : 1 ≤ Mb)
    (hrawA0 : ∀ j, j < min sl a0.length → ∀ c ∈ limbOr0 (2 * 2 ^ K) a0 j, c.natAbs ≤ 2 ^ 50 - 1)
    (hrawA1 : ∀ j, j < min sl a1.length → ∀ c ∈ limbOr0 (2 * 2 ^ K) a1 j, c.natAbs ≤ 2 ^ 50 - 1)
    (hrawB0 : ∀ j, j < min sr b0.length → ∀ c ∈ limbOr0 (2 * 2 ^ K) b0 j, c.natAbs ≤ 2 ^ 50 - 1)
    (hrawB1 : ∀ j, j < min sr b1.length → ∀ c ∈ limbOr0 (2 * 2 ^ K) b1 j, c.natAbs ≤ 2 ^ 50 - 1)
    (hA0 : PrepOKA K Ma (cnvPrepareCol (2 * 2 ^ K) sl ml a0)) (hA1 : PrepOKA K Ma (cnvPrepareCol (2 * 2 ^ K) sl ml a1))
    (hB0 : PrepOKA K Mb (cnvPrepareCol (2 * 2 ^ K) sr mr b0)) (hB1 : PrepOKA K Mb (cnvPrepareCol (2 * 2 ^ K) sr mr b1))
    (hdom : ∀ R, 1 ≤ R → R ≤ min sl sr → LaneDomainAvx K R τ' (2 * Ma) (2 * Mb)) :
    cnvPairwise avxOps K omg iomg rs off sl sr ml mr a0 a1 b0 b1 =
      .ok (cnvApplyCol (2 * 2 ^ K) rs off
        (colAdd (2 * 2 ^ K) (cnvPrepareCol (2 * 2 ^ K) sl ml a0) (cnvPrepareCol (2 * 2 ^ K) sl ml a1))
        (colAdd (2 * 2 ^ K) (cnvPrepareCol (2 * 2 ^ K) sr mr b0) (cnvPrepareCol (2 * 2 ^ K) sr mr b1))) :=
  cnvAvx_pairwise_exact K hK2 omg iomg τ τ' Ma Mb rs off sl sr ml mr a0 a1 b0 b1 hacc hτ0 hττ hf hsl hsr hMa hMb
    hrawA0 hrawA1 hrawB0 hrawB1 hA0 hA1 hB0 hB1 hdom

/-- the pairwise domains in numbers (`τ' = 2^-50 = τ51 + 4u`): `R·Ma·Mb ≤ 2^(domBitsP K)` on FFT64Ref,
`domBitsP = 37, 35, 33, 31, 28, 26, 24, 22, 20, 18, 16, 14, 11, 9`, and `2^(domBitsPA K)` on FFT64Avx,
`domBitsPA = 36, 34, 32, 29, 27, 25, 23, 21, 19, 17, 15, 12, 10, 8`, for `K = 2 … 15` (two bits below the plain convolution for
the doubled operands, at most one more for the extra rounding) -/
theorem fft64_cnv_pairwise_domain_numeric (K : Nat) (hK2 : 2 ≤ K) (hK : K ≤ 15) (R : Nat) (hR1 : 1 ≤ R) (hR : R ≤ 64) (Ma Mb : ℝ)
    (hMa : 1 ≤ Ma) (hMb : 1 ≤ Mb) :
    (R * (Ma * Mb) ≤ (2:ℝ) ^ (domBitsP K) → VmpDomain K R τ50 (2 * Ma) (2 * Mb)) ∧
    (R * (Ma * Mb) ≤ (2:ℝ) ^ (domBitsPA K) → LaneDomainAvx K R τ50 (2 * Ma) (2 * Mb)) :=
  ⟨vmpDomain_pair_numeric K hK2 hK R hR1 hR Ma Mb hMa hMb, laneDomainAvx_pair_numeric K hK2 hK R hR1 hR Ma Mb hMa hMb⟩

/-- pairwise convolution with numbers only (tables accurate to `2^-51`): exact on both back ends, hence equal -/
theorem fft64_cnv_pairwise_ref_avx_agree (K : Nat) (hK2 : 2 ≤ K) (hK : K ≤ 15) (omg iomg : Array Nat) (Ma Mb : ℝ) (rs off sl sr : Nat)
    (ml mr : Int) (a0 a1 b0 b1 : Col) (hacc : TableAccurate τ51 K omg iomg) (hsl : 1 ≤ sl) (hsr : 1 ≤ sr) (h64 : min sl sr ≤ 64)
    (hMa : 1 ≤ Ma) (hMb : 1 ≤ Mb)
    (hrawA0 : ∀ j, j < min sl a0.length → ∀ c ∈ limbOr0 (2 * 2 ^ K) a0 j, c.natAbs ≤ 2 ^ 50 - 1)
    (hrawA1 : ∀ j, j < min sl a1.length → ∀ c ∈ limbOr0 (2 * 2 ^ K) a1 j, c.natAbs ≤ 2 ^ 50 - 1)
    (hrawB0 : ∀ j, j < min sr b0.length → ∀ c ∈ limbOr0 (2 * 2 ^ K) b0 j, c.natAbs ≤ 2 ^ 50 - 1)
    (hrawB1 : ∀ j, j < min sr b1.length → ∀ c ∈ limbOr0 (2 * 2 ^ K) b1 j, c.natAbs ≤ 2 ^ 50 - 1)
    (hA0 : PrepOKA K Ma (cnvPrepareCol (2 * 2 ^ K) sl ml a0)) (hA1 : PrepOKA K Ma (cnvPrepareCol (2 * 2 ^ K) sl ml a1))
    (hB0 : PrepOKA K Mb (cnvPrepareCol (2 * 2 ^ K) sr mr b0)) (hB1 : PrepOKA K Mb (cnvPrepareCol (2 * 2 ^ K) sr mr b1))
    (h : (min sl sr : Nat) * (Ma * Mb) ≤ (2:ℝ) ^ (domBitsPA K)) :
    cnvPairwise avxOps K omg iomg rs off sl sr ml mr a0 a1 b0 b1 =
      .ok (cnvApplyCol (2 * 2 ^ K) rs off
        (colAdd (2 * 2 ^ K) (cnvPrepareCol (2 * 2 ^ K) sl ml a0) (cnvPrepareCol (2 * 2 ^ K) sl ml a1))
        (colAdd (2 * 2 ^ K) (cnvPrepareCol (2 * 2 ^ K) sr mr b0) (cnvPrepareCol (2 * 2 ^ K) sr mr b1))) ∧
    cnvPairwise avxOps K omg iomg rs off sl sr ml mr a0 a1 b0 b1 = cnvPairwise refOps K omg iomg rs off sl sr ml mr a0 a1 b0 b1 := by
  have hτ0 : 0 ≤ τ51 := by unfold τ51; positivity
  have hRle : ∀ R : Nat, R ≤ min sl sr → (R:ℝ) * (Ma * Mb) ≤ (2:ℝ) ^ (domBitsPA K) := by
    intro R hR
    refine le_trans ?_ h
    have : (R:ℝ) ≤ ((min sl sr : Nat):ℝ) := by exact_mod_cast hR
    exact mul_le_mul_of_nonneg_right this (by positivity)
  have hle : (2:ℝ) ^ (domBitsPA K) ≤ (2:ℝ) ^ (domBitsP K) := by
    apply pow_le_pow_right₀ (by norm_num)
    interval_cases K <;> simp [domBitsPA, domBitsP]
  have dA : ∀ R, 1 ≤ R → R ≤ min sl sr → LaneDomainAvx K R τ50 (2 * Ma) (2 * Mb) :=
    fun R hR1 hR => laneDomainAvx_pair_numeric K hK2 hK R hR1 (le_trans hR h64) Ma Mb hMa hMb (hRle R hR)
  have dR : ∀ R, 1 ≤ R → R ≤ min sl sr → VmpDomain K R τ50 (2 * Ma) (2 * Mb) :=
    fun R hR1 hR => vmpDomain_pair_numeric K hK2 hK R hR1 (le_trans hR h64) Ma Mb hMa hMb (le_trans (hRle R hR) hle)
  have eA := fft64avx_cnv_pairwise_matches_spec K hK2 omg iomg τ51 τ50 Ma Mb rs off sl sr ml mr a0 a1 b0 b1 hacc hτ0 τ51_le_τ50
    pair_growth_ok hsl hsr hMa hMb hrawA0 hrawA1 hrawB0 hrawB1 hA0 hA1 hB0 hB1 dA
  have eR := fft64_cnv_pairwise_matches_spec K hK2 omg iomg τ51 τ50 Ma Mb rs off sl sr ml mr a0 a1 b0 b1 hacc hτ0 τ51_le_τ50
    pair_growth_ok hsl hsr hMa hMb (prepOK_of_A K Ma _ hA0) (prepOK_of_A K Ma _ hA1) (prepOK_of_A K Mb _ hB0) (prepOK_of_A K Mb _ hB1) dR
  exact ⟨eA, by rw [eA, eR]⟩

/- FULL STATEMENT (not proved): `convolution_apply_dft` with `n < 8` (`m/4 = 0` blocks: nothing is written to the result) is
   outside the model (`.err "n<8"`); `TableAccurate τ51` itself is a hypothesis for `n > 4` (checked by the gate against exact
   enclosures of the roots of unity for every `n ≤ 2^16`, proved in Lean for the `m = 2` tables only). -/

/-! non-vacuity: both back ends on the crate's real `m = 4` tables, evaluated by the kernel; the numeric domain is inhabited -/
def omg4 : Array Nat := #[4604544271217802189, 4604544271217802188, 4606496786581982534, 4600565431771507043, 0, 0, 0, 0]
def iomg4 : Array Nat := #[4606496786581982534, 13823937468626282851, 4604544271217802189, 13827916308072577996, 0, 0, 0, 0]
def okOr {α} (o : Outcome α) (d : α) : α := match o with | .ok v => v | _ => d
example : okOr (cnvPipeline refOps 2 omg4 iomg4 3 0 2 2 (-1) (-4) [[4095, -4095, 1, 0, 7, -9, 1000, 4095], [1, 2, 3, 4, 5, 6, 7, -4095]]
      [[-5, 4095, 0, 0, 0, 0, 0, 1], [4095, 4095, 4095, 4095, 4095, 4095, 4095, 4095]]) [] =
    cnvApplyCol 8 3 0 (cnvPrepareCol 8 2 (-1) [[4095, -4095, 1, 0, 7, -9, 1000, 4095], [1, 2, 3, 4, 5, 6, 7, -4095]])
      (cnvPrepareCol 8 2 (-4) [[-5, 4095, 0, 0, 0, 0, 0, 1], [4095, 4095, 4095, 4095, 4095, 4095, 4095, 4095]]) := by decide +kernel
example : okOr (cnvPipeline avxOps 2 omg4 iomg4 3 1 2 2 (-1) (-4) [[4095, -4095, 1, 0, 7, -9, 1000, 4095], [1, 2, 3, 4, 5, 6, 7, -4095]]
      [[-5, 4095, 0, 0, 0, 0, 0, 1], [4095, 4095, 4095, 4095, 4095, 4095, 4095, 4095]]) [] =
    cnvApplyCol 8 3 1 (cnvPrepareCol 8 2 (-1) [[4095, -4095, 1, 0, 7, -9, 1000, 4095], [1, 2, 3, 4, 5, 6, 7, -4095]])
      (cnvPrepareCol 8 2 (-4) [[-5, 4095, 0, 0, 0, 0, 0, 1], [4095, 4095, 4095, 4095, 4095, 4095, 4095, 4095]]) := by decide +kernel
example : okOr (vmpPipelineAvx 2 omg4 iomg4 2 [([4095, -4095, 1, 0, 7, -9, 1000, 4095], [1, 2, 3, 4, 5, 6, 7, -4095]),
       ([-5, 4095, 0, 0, 0, 0, 0, 1], [4095, 4095, 4095, 4095, 4095, 4095, 4095, 4095])]) [] =
    Hal.sumPolys 8 [Hal.negMul [4095, -4095, 1, 0, 7, -9, 1000, 4095] [1, 2, 3, 4, 5, 6, 7, -4095],
      Hal.negMul [-5, 4095, 0, 0, 0, 0, 0, 1] [4095, 4095, 4095, 4095, 4095, 4095, 4095, 4095]] := by decide +kernel
example : ∀ R, 1 ≤ R → R ≤ min 2 2 → LaneDomainAvx 2 R τ51 4096 4096 ∧ VmpDomain 2 R τ51 4096 4096 := by
  intro R h1 h2
  have hR : (R:ℝ) ≤ 2 := by exact_mod_cast h2
  exact ⟨fft64avx_lane_domain_numeric 2 (by norm_num) R h1 (by omega) _ _ (by norm_num) (by norm_num) (by unfold domBitsVA; norm_num; nlinarith),
    fft64_vmp_domain_numeric 2 le_rfl (by norm_num) R h1 (by omega) _ _ (by norm_num) (by norm_num) (by unfold domBitsV; norm_num; nlinarith)⟩
example : PrepOKA 2 4096 (cnvPrepareCol 8 2 (-4) [[-5, 4095, 0, 0, 0, 0, 0, 1], [4095, 4095, 4095, 4095, 4095, 4095, 4095, 4095]]) := by
  have e : cnvPrepareCol 8 2 (-4) [[-5, 4095, 0, 0, 0, 0, 0, 1], [4095, 4095, 4095, 4095, 4095, 4095, 4095, 4095]] =
      [[-5, 4095, 0, 0, 0, 0, 0, 1], [4092, 4092, 4092, 4092, 4092, 4092, 4092, 4092]] := by decide +kernel
  rw [e]
  intro l hl
  simp only [List.mem_cons, List.not_mem_nil, or_false] at hl
  rcases hl with rfl | rfl
  · refine ⟨rfl, ?_⟩
    intro c hc
    simp only [List.mem_cons, List.not_mem_nil, or_false] at hc
    rcases hc with rfl | rfl | rfl | rfl | rfl | rfl | rfl | rfl <;> (constructor <;> norm_num)
  · refine ⟨rfl, ?_⟩
    intro c hc
    simp only [List.mem_cons, List.not_mem_nil, or_false] at hc
    rcases hc with rfl | rfl | rfl | rfl | rfl | rfl | rfl | rfl <;> (constructor <;> norm_num)
/-- the fused lane on concrete doubles differs from the reference `caddmul` (separately rounded products) -/
example : caddmulLaneAvx (0x3FF0000000000000, 0x3FF0000000000000) (0x3FF0000000000001, 0x3FF0000000000001) (0x3FF0000000000001, 0x3FE6A09E667F3BCD) ≠
    caddmul (0x3FF0000000000000, 0x3FF0000000000000) (0x3FF0000000000001, 0x3FF0000000000001) (0x3FF0000000000001, 0x3FE6A09E667F3BCD) := by
  decide +kernel
example : lo32 3000000000 = -1294967296 ∧ byConstTermOldLane 3000000000 3 = -3884901888 ∧ byConstTerm true 3000000000 3 = 9000000000 ∧
    byConstTerm false 3000000000 3 = 9000000000 ∧ byConstTerm true (2 ^ 62) 6 = -(2 ^ 63) := by
  decide +kernel

example : okOr (cnvPairwise refOps 2 omg4 iomg4 2 0 1 1 (-1) (-1) [[4095, -4095, 1, 0, 7, -9, 1000, 4095]] [[1, 2, 3, 4, 5, 6, 7, -4095]]
      [[-5, 4095, 0, 0, 0, 0, 0, 1]] [[4095, 4095, 4095, 4095, 4095, 4095, 4095, 4095]]) [] =
    cnvApplyCol 8 2 0 (colAdd 8 (cnvPrepareCol 8 1 (-1) [[4095, -4095, 1, 0, 7, -9, 1000, 4095]]) (cnvPrepareCol 8 1 (-1) [[1, 2, 3, 4, 5, 6, 7, -4095]]))
      (colAdd 8 (cnvPrepareCol 8 1 (-1) [[-5, 4095, 0, 0, 0, 0, 0, 1]]) (cnvPrepareCol 8 1 (-1) [[4095, 4095, 4095, 4095, 4095, 4095, 4095, 4095]])) := by
  decide +kernel
example : okOr (cnvPairwise avxOps 2 omg4 iomg4 2 0 1 1 (-1) (-1) [[4095, -4095, 1, 0, 7, -9, 1000, 4095]] [[1, 2, 3, 4, 5, 6, 7, -4095]]
      [[-5, 4095, 0, 0, 0, 0, 0, 1]] [[4095, 4095, 4095, 4095, 4095, 4095, 4095, 4095]]) [] =
    okOr (cnvPairwise refOps 2 omg4 iomg4 2 0 1 1 (-1) (-1) [[4095, -4095, 1, 0, 7, -9, 1000, 4095]] [[1, 2, 3, 4, 5, 6, 7, -4095]]
      [[-5, 4095, 0, 0, 0, 0, 0, 1]] [[4095, 4095, 4095, 4095, 4095, 4095, 4095, 4095]]) [] := by decide +kernel
example : VmpDomain 2 1 τ50 (2 * 4096) (2 * 4096) ∧ LaneDomainAvx 2 1 τ50 (2 * 4096) (2 * 4096) :=
  ⟨(fft64_cnv_pairwise_domain_numeric 2 le_rfl (by norm_num) 1 le_rfl (by norm_num) 4096 4096 (by norm_num) (by norm_num)).1 (by unfold domBitsP; norm_num),
   (fft64_cnv_pairwise_domain_numeric 2 le_rfl (by norm_num) 1 le_rfl (by norm_num) 4096 4096 (by norm_num) (by norm_num)).2 (by unfold domBitsPA; norm_num)⟩

/-- **`cnv_by_const_apply` on FFT64Ref = the specification with the `i64` wrap** (`Hal.cnvByConstCol w64`): wrapping every product
and every partial sum equals wrapping the exact sum once; with `fft64avx_cnv_by_const_eq_ref` the same holds for FFT64Avx -/
theorem fft64_cnv_by_const_matches_spec (K rs off : Nat) (a : Col) (b : List Int) (hK2 : 2 ≤ K)
    (ha : ∀ l ∈ a, l.length = 2 * 2 ^ K) (ha0 : a.length ≠ 0) (hb0 : b.length ≠ 0) :
    cnvByConst false K rs off a b = .ok (cnvByConstCol w64 (2 * 2 ^ K) rs off a b) := by
  have h8 : ¬ (2 * 2 ^ K < 8) := by
    have : 2 ^ 2 ≤ 2 ^ K := Nat.pow_le_pow_right (by norm_num) hK2
    omega
  exact cnvByConst_ref_matches_spec K rs off a b h8 ha ha0 hb0
example : cnvByConst false 2 2 0 [[3000000000, 1, -3000000000, 5, 6, 7, 8, 9223372036854775807]] [3, -2] =
    .ok (cnvByConstCol w64 8 2 0 [[3000000000, 1, -3000000000, 5, 6, 7, 8, 9223372036854775807]] [3, -2]) :=
  fft64_cnv_by_const_matches_spec 2 2 0 _ _ le_rfl (by decide) (by decide) (by decide)
example : cnvByConstCol w64 8 2 0 [[3000000000, 1, -3000000000, 5, 6, 7, 8, 9223372036854775807]] [3, -2] =
    [[9000000000, 3, -9000000000, 15, 18, 21, 24, 9223372036854775805], [-6000000000, -2, 6000000000, -10, -12, -14, -16, 2]] := by decide +kernel

example : cnvByConst true 2 1 0 [[3000000000, 1, -3000000000, 5, 6, 7, 8, 9]] [3] =
    .ok (cnvByConstCol w64 8 1 0 [[3000000000, 1, -3000000000, 5, 6, 7, 8, 9]] [3]) := by
  rw [fft64avx_cnv_by_const_eq_ref]; exact fft64_cnv_by_const_matches_spec 2 1 0 _ _ le_rfl (by decide) (by decide) (by decide)

end C07
