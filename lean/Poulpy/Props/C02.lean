import Poulpy.Lemmas.CoreOpsVal
import Poulpy.Lemmas.CoreOpsProg
import Poulpy.Lemmas.CoreOpsNorm
import Poulpy.Lemmas.CoreOpsShift
import Poulpy.Lemmas.CoreOpsShift2
import Poulpy.Lemmas.CoreOpsGgsw
import Poulpy.Lemmas.CoreOpsAccum
import Poulpy.Props.C08

/-!
# C02 — noise-free ciphertext operations commute exactly with decryption

All theorems are about the definitions the driver executes (`Core.Ops.glweAddInto`, … in
`Model/Core/Ops.lean`, built on the C08 / C09 per-column kernels) and hold **for every secret `s`**
(any list of polynomials: no key is needed).

Vocabulary (`Lemmas/CoreOps*.lean`):
* `phase s g` = `Core.phaseBig (s.take g.rank) g`: body + Σ sᵢ ⋆ maskᵢ, limb by limb, exact integers;
  a rank-0 operand is a plaintext (its phase is its body).
* `fit N rs c`: the column `c` truncated / zero-extended to `rs` limbs — what every out-of-place
  `vec_znx_*` kernel does to an operand, i.e. "the same operation acting on plaintexts" of other sizes.
* `colAdd`, `List.map polyNeg`, `List.map (rotP k)` (`X^k`), `List.map (mxpP k)` (`X^k − 1`): the
  operations on plaintext limb columns.
* `GWF N g`: `g` has at least a body column and every column has `g.size` limbs of `N` coefficients.
* `GSmall g`: every coefficient in `(-2^62, 2^62)` — the head-room under which no `i64` add / sub /
  negate wraps (the model wraps exactly as the Rust does; outside the head-room the statement is
  about a different function).
* `Same res r'`: `base2k`, `k`, `n` and the number of columns are those of `res`.

Shape of every theorem: under the API's own assertions (and nothing else) the operation returns
`ok r'`, `r'` has the shape of `res`, and `phase s r'` **equals** the operation applied to the fitted
phases of the operands.  Equality is equality of integer limb columns, hence of torus values; the
only inexactness is inside `fit` when an operand is longer than the result (`truncation_*` below:
less than one unit of the result's last limb per truncated column of balanced digits).
-/

namespace C02
open Hal Core Core.Ops C02L CoreEnc

deriving instance DecidableEq for Core.GLWE
deriving instance DecidableEq for Core.Ops.GGSW
deriving instance DecidableEq for Core.Ops.Obj
deriving instance DecidableEq for Core.Ops.Pool
deriving instance DecidableEq for Outcome

instance (N rs : Nat) (c : Col) : Decidable (ColWF N rs c) := by unfold ColWF LimbsN; infer_instance
instance (N : Nat) (g : GLWE) : Decidable (GWF N g) := by unfold GWF; infer_instance
instance (g : GLWE) : Decidable (GSmall g) := by unfold GSmall ColSmall PolySmall; infer_instance

/-! ## the algebra the proofs rest on -/

/-- the exact negacyclic product is additive in the ciphertext operand -/
theorem negMul_additive (p x y : Poly) (h : x.length = y.length) :
    Hal.negMul p (polyAdd x y) = polyAdd (Hal.negMul p x) (Hal.negMul p y) := negMul_add_right p x y h

example : Hal.negMul [1, 2] (polyAdd [3, 4] [5, -6]) = polyAdd (Hal.negMul [1, 2] [3, 4]) (Hal.negMul [1, 2] [5, -6]) := by decide

/-- multiplication by `X^k` (any `k ∈ ℤ`) commutes with the exact negacyclic product -/
theorem negMul_rotate_comm (p : Poly) (k : Int) (x : Poly) :
    Hal.negMul p (znxRotateW id k x) = znxRotateW id k (Hal.negMul p x) := negMul_rot p k x

example : Hal.negMul [1, 2, 0, -1] (znxRotateW id (-9) [3, 4, 5, 6]) = znxRotateW id (-9) (Hal.negMul [1, 2, 0, -1] [3, 4, 5, 6]) := by decide

/-- the phase map is additive: ciphertexts of one shape whose columns add up have phases that add up -/
theorem phase_additive {N : Nat} {r x y : GLWE} (hr : GWF N r) (hx : GWF N x) (hy : GWF N y)
    (hc : ∀ i, fit N r.size (col r i) = colAdd (fit N r.size (col x i)) (fit N r.size (col y i))) (s : List Poly) :
    phase s r = colAdd (fit N r.size (phase s x)) (fit N r.size (phase s y)) := by
  have h := phase_bin (linT_id N) (linT_id N) hr hx hy (fun i => by rw [hc i]; simp) s
  simpa using h

/-! ## test objects for the non-vacuity examples (`N = 2`, radix `2^4`) -/

/-- rank 1, two limbs -/
def exRes : GLWE := { base2k := 4, k := 8, n := 2, cols := [[[0, 0], [0, 0]], [[9, 9], [9, 9]]] }
/-- rank 1, three limbs (longer than `exRes`: truncated) -/
def exA : GLWE := { base2k := 4, k := 12, n := 2, cols := [[[1, 2], [3, -4], [5, 6]], [[7, -8], [1, 0], [2, 2]]] }
/-- rank 1, one limb (shorter than `exRes`: zero-extended) -/
def exB : GLWE := { base2k := 4, k := 4, n := 2, cols := [[[-3, 5]], [[2, -1]]] }
/-- rank 0 plaintext, one limb -/
def exPt : GLWE := { base2k := 4, k := 4, n := 2, cols := [[[3, 1]]] }
/-- rank 2 result -/
def exRes2 : GLWE := { base2k := 4, k := 8, n := 2, cols := [[[1, 1], [2, 2]], [[3, 3], [4, 4]], [[5, 5], [6, 6]]] }

/-! ## linear operations -/

/-- `glwe_add_into`: all limb counts, rank-0 plaintext operands mixed with ciphertexts -/
theorem add_phase {N : Nat} {res a b : GLWE} (hr : GWF N res) (ha : GWF N a) (hb : GWF N b)
    (sa : GSmall a) (sb : GSmall b) (hab : a.base2k = b.base2k) (hrb : res.base2k = b.base2k)
    (hrule : rankRule3 res a b = true) :
    ∃ r', glweAddInto N res a b = .ok r' ∧ Same res r' ∧ GWF N r' ∧ r'.size = res.size ∧
      ∀ s, phase s r' = colAdd (fit N res.size (phase s a)) (fit N res.size (phase s b)) :=
  add_ok hr ha hb sa sb hab hrb hrule

example : ∃ r', glweAddInto 2 exRes exA exPt = .ok r' ∧
    ∀ s, phase s r' = colAdd (fit 2 2 (phase s exA)) (fit 2 2 (phase s exPt)) := by
  obtain ⟨r', h, _, _, _, hp⟩ := add_phase (N := 2) (res := exRes) (a := exA) (b := exPt)
    (by decide) (by decide) (by decide) (by decide) (by decide) rfl rfl (by decide)
  exact ⟨r', h, hp⟩

/-- `glwe_add_assign` (operand of any smaller rank) -/
theorem add_assign_phase {N : Nat} {res a : GLWE} (hr : GWF N res) (ha : GWF N a) (sr : GSmall res) (sa : GSmall a)
    (hb : res.base2k = a.base2k) (hrank : a.rank ≤ res.rank) :
    ∃ r', glweAddAssign N res a = .ok r' ∧ Same res r' ∧ GWF N r' ∧ r'.size = res.size ∧
      ∀ s, phase s r' = colAdd (phase s res) (fit N res.size (phase s a)) :=
  addAssign_ok hr ha sr sa hb hrank

example : ∃ r', glweAddAssign 2 exRes2 exA = .ok r' ∧ ∀ s, phase s r' = colAdd (phase s exRes2) (fit 2 2 (phase s exA)) := by
  obtain ⟨r', h, _, _, _, hp⟩ := add_assign_phase (N := 2) (res := exRes2) (a := exA)
    (by decide) (by decide) (by decide) (by decide) rfl (by decide)
  exact ⟨r', h, hp⟩

/-- `glwe_sub` -/
theorem sub_phase {N : Nat} {res a b : GLWE} (hr : GWF N res) (ha : GWF N a) (hb : GWF N b)
    (sa : GSmall a) (sb : GSmall b) (hab : a.base2k = res.base2k) (hrb : b.base2k = res.base2k)
    (hrule : rankRule3 res a b = true) :
    ∃ r', glweSub N res a b = .ok r' ∧ Same res r' ∧ GWF N r' ∧ r'.size = res.size ∧
      ∀ s, phase s r' = colAdd (fit N res.size (phase s a)) ((fit N res.size (phase s b)).map polyNeg) :=
  sub_ok hr ha hb sa sb hab hrb hrule

example : ∃ r', glweSub 2 exRes exPt exB = .ok r' ∧
    ∀ s, phase s r' = colAdd (fit 2 2 (phase s exPt)) ((fit 2 2 (phase s exB)).map polyNeg) := by
  obtain ⟨r', h, _, _, _, hp⟩ := sub_phase (N := 2) (res := exRes) (a := exPt) (b := exB)
    (by decide) (by decide) (by decide) (by decide) (by decide) rfl rfl (by decide)
  exact ⟨r', h, hp⟩

/-- `glwe_sub_assign` -/
theorem sub_assign_phase {N : Nat} {res a : GLWE} (hr : GWF N res) (ha : GWF N a) (sr : GSmall res) (sa : GSmall a)
    (hb : res.base2k = a.base2k) (hrank : (res.rank == a.rank || a.rank == 0) = true) :
    ∃ r', glweSubAssign N res a = .ok r' ∧ Same res r' ∧ GWF N r' ∧ r'.size = res.size ∧
      ∀ s, phase s r' = colAdd (phase s res) ((fit N res.size (phase s a)).map polyNeg) :=
  subAssign_ok hr ha sr sa hb hrank

example : ∃ r', glweSubAssign 2 exRes exPt = .ok r' ∧
    ∀ s, phase s r' = colAdd (phase s exRes) ((fit 2 2 (phase s exPt)).map polyNeg) := by
  obtain ⟨r', h, _, _, _, hp⟩ := sub_assign_phase (N := 2) (res := exRes) (a := exPt)
    (by decide) (by decide) (by decide) (by decide) rfl (by decide)
  exact ⟨r', h, hp⟩

/-- `glwe_sub_negate_assign` (`res ← a − res`), including the rank-0 operand repaired in 53d064c:
the mask columns the operand does not have are negated -/
theorem sub_negate_assign_phase {N : Nat} {res a : GLWE} (hr : GWF N res) (ha : GWF N a) (sr : GSmall res) (sa : GSmall a)
    (hb : res.base2k = a.base2k) (hrank : (res.rank == a.rank || a.rank == 0) = true) :
    ∃ r', glweSubNegateAssign N res a = .ok r' ∧ Same res r' ∧ GWF N r' ∧ r'.size = res.size ∧
      ∀ s, phase s r' = colAdd ((phase s res).map polyNeg) (fit N res.size (phase s a)) :=
  subNegateAssign_ok hr ha sr sa hb hrank

example : ∃ r', glweSubNegateAssign 2 exRes2 exPt = .ok r' ∧
    ∀ s, phase s r' = colAdd ((phase s exRes2).map polyNeg) (fit 2 2 (phase s exPt)) := by
  obtain ⟨r', h, _, _, _, hp⟩ := sub_negate_assign_phase (N := 2) (res := exRes2) (a := exPt)
    (by decide) (by decide) (by decide) (by decide) rfl (by decide)
  exact ⟨r', h, hp⟩

/-- `glwe_negate` (operands of one radix, as the API now asserts: the limb-column identity is the
torus identity) -/
theorem negate_phase {N : Nat} {res a : GLWE} (hr : GWF N res) (ha : GWF N a) (sa : GSmall a)
    (hb : res.base2k = a.base2k) (hrank : a.rank = res.rank) :
    ∃ r', glweNegate N res a = .ok r' ∧ Same res r' ∧ GWF N r' ∧ r'.size = res.size ∧
      ∀ s, phase s r' = (fit N res.size (phase s a)).map polyNeg :=
  negate_ok hr ha sa hb hrank

example : ∃ r', glweNegate 2 exRes exA = .ok r' ∧ ∀ s, phase s r' = (fit 2 2 (phase s exA)).map polyNeg := by
  obtain ⟨r', h, _, _, _, hp⟩ := negate_phase (N := 2) (res := exRes) (a := exA) (by decide) (by decide) (by decide) rfl rfl
  exact ⟨r', h, hp⟩

/-- `glwe_negate_assign` -/
theorem negate_assign_phase {N : Nat} {res : GLWE} (hr : GWF N res) (sr : GSmall res) :
    ∃ r', glweNegateAssign N res = .ok r' ∧ Same res r' ∧ GWF N r' ∧ r'.size = res.size ∧
      ∀ s, phase s r' = (phase s res).map polyNeg :=
  negateAssign_ok hr sr

example : ∃ r', glweNegateAssign 2 exA = .ok r' ∧ ∀ s, phase s r' = (phase s exA).map polyNeg := by
  obtain ⟨r', h, _, _, _, hp⟩ := negate_assign_phase (N := 2) (res := exA) (by decide) (by decide)
  exact ⟨r', h, hp⟩

/-- `glwe_copy` (same rank, or a plaintext copied into a ciphertext whose mask is zeroed) -/
theorem copy_phase {N : Nat} {res a : GLWE} (hr : GWF N res) (ha : GWF N a) (hb : res.base2k = a.base2k)
    (hrank : (res.rank == a.rank || a.rank == 0) = true) :
    ∃ r', glweCopy N res a = .ok r' ∧ Same res r' ∧ GWF N r' ∧ r'.size = res.size ∧
      ∀ s, phase s r' = fit N res.size (phase s a) :=
  copy_ok hr ha hb hrank

example : ∃ r', glweCopy 2 exRes2 exPt = .ok r' ∧ ∀ s, phase s r' = fit 2 2 (phase s exPt) := by
  obtain ⟨r', h, _, _, _, hp⟩ := copy_phase (N := 2) (res := exRes2) (a := exPt) (by decide) (by decide) rfl (by decide)
  exact ⟨r', h, hp⟩

/-! ## rotation by `X^k` and multiplication by `X^k − 1`, every `k ∈ ℤ` -/

/-- `glwe_rotate` -/
theorem rotate_phase {N : Nat} (k : Int) {res a : GLWE} (hr : GWF N res) (ha : GWF N a) (sa : GSmall a)
    (hb : res.base2k = a.base2k) (hrank : (res.rank == a.rank || a.rank == 0) = true) :
    ∃ r', glweRotate N k res a = .ok r' ∧ Same res r' ∧ GWF N r' ∧ r'.size = res.size ∧
      ∀ s, phase s r' = (fit N res.size (phase s a)).map (rotP k) :=
  rotate_ok k hr ha sa hb hrank

example : ∃ r', glweRotate 2 (-7) exRes exA = .ok r' ∧ ∀ s, phase s r' = (fit 2 2 (phase s exA)).map (rotP (-7)) := by
  obtain ⟨r', h, _, _, _, hp⟩ := rotate_phase (N := 2) (-7) (res := exRes) (a := exA) (by decide) (by decide) (by decide) rfl (by decide)
  exact ⟨r', h, hp⟩

/-- `glwe_rotate_assign` -/
theorem rotate_assign_phase {N : Nat} (k : Int) {res : GLWE} (hr : GWF N res) (sr : GSmall res) :
    ∃ r', glweRotateAssign N k res = .ok r' ∧ Same res r' ∧ GWF N r' ∧ r'.size = res.size ∧
      ∀ s, phase s r' = (phase s res).map (rotP k) :=
  rotateAssign_ok k hr sr

example : ∃ r', glweRotateAssign 2 5 exA = .ok r' ∧ ∀ s, phase s r' = (phase s exA).map (rotP 5) := by
  obtain ⟨r', h, _, _, _, hp⟩ := rotate_assign_phase (N := 2) 5 (res := exA) (by decide) (by decide)
  exact ⟨r', h, hp⟩

/-- `glwe_mul_xp_minus_one` -/
theorem mul_xp_minus_one_phase {N : Nat} (k : Int) {res a : GLWE} (hr : GWF N res) (ha : GWF N a) (sa : GSmall a)
    (hb : res.base2k = a.base2k) (hrank : res.rank = a.rank) :
    ∃ r', glweMulXpMinusOne N k res a = .ok r' ∧ Same res r' ∧ GWF N r' ∧ r'.size = res.size ∧
      ∀ s, phase s r' = (fit N res.size (phase s a)).map (mxpP k) :=
  mulXpMinusOne_ok k hr ha sa hb hrank

example : ∃ r', glweMulXpMinusOne 2 3 exRes exB = .ok r' ∧ ∀ s, phase s r' = (fit 2 2 (phase s exB)).map (mxpP 3) := by
  obtain ⟨r', h, _, _, _, hp⟩ := mul_xp_minus_one_phase (N := 2) 3 (res := exRes) (a := exB) (by decide) (by decide) (by decide) rfl rfl
  exact ⟨r', h, hp⟩

/-- `glwe_mul_xp_minus_one_assign` -/
theorem mul_xp_minus_one_assign_phase {N : Nat} (k : Int) {res : GLWE} (hr : GWF N res) (sr : GSmall res) :
    ∃ r', glweMulXpMinusOneAssign N k res = .ok r' ∧ Same res r' ∧ GWF N r' ∧ r'.size = res.size ∧
      ∀ s, phase s r' = (phase s res).map (mxpP k) :=
  mulXpMinusOneAssign_ok k hr sr

example : ∃ r', glweMulXpMinusOneAssign 2 (-1) exA = .ok r' ∧ ∀ s, phase s r' = (phase s exA).map (mxpP (-1)) := by
  obtain ⟨r', h, _, _, _, hp⟩ := mul_xp_minus_one_assign_phase (N := 2) (-1) (res := exA) (by decide) (by decide)
  exact ⟨r', h, hp⟩

/-! ## from limb columns to torus values -/

/-- torus reading of `add_phase`: coefficient-wise, the integer value of the result's phase (radix
`2^b`, last limb weight 1) is the sum of the values of the fitted operand phases -/
theorem add_phase_value {N : Nat} {res a b : GLWE} (hr : GWF N res) (ha : GWF N a) (hb : GWF N b)
    (sa : GSmall a) (sb : GSmall b) (hab : a.base2k = b.base2k) (hrb : res.base2k = b.base2k)
    (hrule : rankRule3 res a b = true) :
    ∃ r', glweAddInto N res a b = .ok r' ∧ ∀ (s : List Poly) (t : Nat),
      valCoeff res.base2k (phase s r') t
        = valCoeff res.base2k (fit N res.size (phase s a)) t + valCoeff res.base2k (fit N res.size (phase s b)) t := by
  obtain ⟨r', h, _, _, _, hp⟩ := add_ok hr ha hb sa sb hab hrb hrule
  refine ⟨r', h, fun s t => ?_⟩
  rw [hp s]
  exact valCoeff_colAdd _ (fit_wf (phase_wf ha s).2 _) (fit_wf (phase_wf hb s).2 _) t

example : ∃ r', glweAddInto 2 exRes exA exPt = .ok r' ∧ ∀ (s : List Poly) (t : Nat),
    valCoeff 4 (phase s r') t = valCoeff 4 (fit 2 2 (phase s exA)) t + valCoeff 4 (fit 2 2 (phase s exPt)) t :=
  add_phase_value (N := 2) (res := exRes) (a := exA) (b := exPt)
    (by decide) (by decide) (by decide) (by decide) (by decide) rfl rfl (by decide)

/-- an operand that is not longer than the result is used exactly: fitting multiplies its value by
the weight of the added limbs (no error term) -/
theorem extension_exact (b N rs : Nat) (p : Col) (t : Nat) (h : p.length ≤ rs) :
    valCoeff b (fit N rs p) t = valCoeff b p t * 2 ^ (b * (rs - p.length)) :=
  valCoeff_fit_extend b N rs p t h

example : valCoeff 4 (fit 2 3 [[3, 1]]) 0 = valCoeff 4 [[3, 1]] 0 * 2 ^ (4 * (3 - 1)) := by decide

/-- an operand longer than the result is truncated: its value is the value of the kept limbs times
the weight of the dropped ones, plus the value of the dropped tail … -/
theorem truncation_split (b N rs : Nat) (p : Col) (t : Nat) (h : rs ≤ p.length) :
    valCoeff b p t = valCoeff b (fit N rs p) t * 2 ^ (b * (p.length - rs)) + valCoeff b (p.drop rs) t :=
  valCoeff_fit_truncate b N rs p t h

example : valCoeff 4 [[1, 2], [3, -4], [5, 6]] 1 = valCoeff 4 (fit 2 2 [[1, 2], [3, -4], [5, 6]]) 1 * 2 ^ (4 * (3 - 2))
    + valCoeff 4 ([[1, 2], [3, -4], [5, 6]].drop 2) 1 := by decide

/-- … and a dropped tail of balanced digits (`|d| ≤ 2^(b-1)`) is worth strictly less than one unit of
the last kept limb: "up to one unit of the result's last limb per truncated operand column" -/
theorem truncation_within_one_unit (b : Nat) (hb : 1 ≤ b) (p : Col) (rs t : Nat)
    (hd : ∀ l ∈ p.drop rs, |l.getD t 0| ≤ 2 ^ (b - 1)) :
    |valCoeff b (p.drop rs) t| < 2 ^ (b * (p.length - rs)) := by
  have h := valCoeff_balanced_lt b hb (p.drop rs) t hd
  simpa using h

example : |valCoeff 4 ([[1, 2], [3, -4], [-8, 8]].drop 1) 0| < 2 ^ (4 * (3 - 1)) :=
  truncation_within_one_unit 4 (by decide) _ 1 0 (by decide)

/-! ## shifts and re-normalisation (C08 kernels), modulo the value theorem of the kernel

FULL STATEMENT (not proved here): for `glwe_normalize` (same / cross radix), `glwe_normalize_assign`,
`glwe_lsh`, `glwe_lsh_add`, `glwe_lsh_sub`, `glwe_lsh_assign` and `glwe_rsh`, the phase of the result
is the phase of the operand multiplied by the power of two (re-expressed in the result's radix),
exactly when no limb is dropped and within `1 + Σ‖sᵢ‖₁` units of the result's last limb otherwise.
What is proved: the reduction of that statement to the value specification of the per-column kernel
(`A·val(out column) = B·val(in column) + Eᵢ`, the shape of the C08 value theorems), with the exact
error expression `E₀ + Σ sᵢ ⋆ Eᵢ₊₁`; instantiated for `glwe_normalize`.  The `lsh` family and
`normalize_assign` have the same column-wise structure (`phase_value_modulo_norm` applies to their
results verbatim) but are not instantiated.  `glwe_rsh` is proved outright (`rsh_phase`, from `C08.rsh_value`), with the
numeric bound `phase_error_bound`. -/

/-- value form of the phase for any column-wise kernel: if every result column satisfies
`A·val(r'ᵢ) = B·val(aᵢ) + Eᵢ`, the phases satisfy the same relation with error `E₀ + Σ sᵢ ⋆ Eᵢ₊₁` -/
theorem phase_value_modulo_norm {N : Nat} {r' a : GLWE} (hr : GWF N r') (ha : GWF N a) (hrank : a.rank = r'.rank)
    (A B : Int) (E : Nat → Poly) (hE : ∀ i, (E i).length = N)
    (h : ∀ i, i ≤ r'.rank →
      polyScale A (valP r'.base2k N (col r' i)) = polyAdd (polyScale B (valP a.base2k N (col a i))) (E i))
    (s : List Poly) :
    polyScale A (valP r'.base2k N (phase s r'))
      = polyAdd (polyScale B (valP a.base2k N (phase s a))) (errTo (min r'.rank s.length) s E) :=
  phase_val_modulo_norm hr ha hrank A B E hE h s

/-- `glwe_normalize`, same or different radix, all limb counts -/
theorem normalize_phase_modulo_norm {N : Nat} {res a : GLWE} (hr : GWF N res) (ha : GWF N a) (hrank : res.rank = a.rank)
    (C : Nat → Col) (A B : Int) (E : Nat → Poly) (hE : ∀ i, (E i).length = N)
    (hK : ∀ i, i ≤ res.rank →
      normalizeCol? res.base2k res.size 0 (col a i) a.base2k N = some (C i) ∧ ColWF N res.size (C i) ∧
      polyScale A (valP res.base2k N (C i)) = polyAdd (polyScale B (valP a.base2k N (col a i))) (E i)) :
    ∃ r', glweNormalize N res a = .ok r' ∧ Same res r' ∧ GWF N r' ∧ r'.size = res.size ∧
      ∀ s, polyScale A (valP res.base2k N (phase s r'))
        = polyAdd (polyScale B (valP a.base2k N (phase s a))) (errTo (min res.rank s.length) s E) :=
  normalize_modulo_norm hr ha hrank C A B E hE hK

/-- radix `2^2`, two limbs -/
def exA2 : GLWE := { base2k := 2, k := 4, n := 2, cols := [[[1, -2], [0, 1]], [[-1, 0], [1, 1]]] }

/-- cross-radix, no limb dropped (4 bits into 8 bits): the kernel hypothesis holds with `E = 0`, and the
phase is re-expressed exactly (`val_out = 2^4 · val_in`) -/
example : ∃ r', glweNormalize 2 exRes exA2 = .ok r' ∧
    ∀ s, polyScale 1 (valP 4 2 (phase s r')) = polyAdd (polyScale 16 (valP 2 2 (phase s exA2))) (errTo (min 1 s.length) s (fun _ => [0, 0])) := by
  obtain ⟨r', h, _, _, _, hp⟩ := normalize_phase_modulo_norm (N := 2) (res := exRes) (a := exA2) (by decide) (by decide) rfl
    (fun i => if i = 0 then [[4, -7], [0, 0]] else [[-3, 1], [0, 0]]) 1 16 (fun _ => [0, 0]) (fun _ => rfl)
    (fun i hi => by
      have : i = 0 ∨ i = 1 := by have : i ≤ 1 := hi; omega
      rcases this with rfl | rfl <;> decide +kernel)
  exact ⟨r', h, hp⟩

/-- same radix, two limbs dropped: `2^8 · val_out = val_in + E` with `|E| < 2^8` (one unit of the result's last limb) -/
example : ∃ r', glweNormalize 2 { base2k := 4, k := 4, n := 2, cols := [[[0, 0]]] }
      { base2k := 4, k := 12, n := 2, cols := [[[1, -2], [3, 1], [-8, 7]]] } = .ok r' ∧
    ∀ s, polyScale 256 (valP 4 2 (phase s r'))
      = polyAdd (polyScale 1 (valP 4 2 (phase s { base2k := 4, k := 12, n := 2, cols := [[[1, -2], [3, 1], [-8, 7]]] })))
          (errTo (min 0 s.length) s (fun _ => [-40, -23])) := by
  obtain ⟨r', h, _, _, _, hp⟩ := normalize_phase_modulo_norm (N := 2)
    (res := { base2k := 4, k := 4, n := 2, cols := [[[0, 0]]] })
    (a := { base2k := 4, k := 12, n := 2, cols := [[[1, -2], [3, 1], [-8, 7]]] }) (by decide) (by decide) rfl
    (fun _ => [[1, -2]]) 256 1 (fun _ => [-40, -23]) (fun _ => rfl)
    (fun i hi => by
      have : i = 0 := by have : i ≤ 0 := hi; omega
      subst this; decide +kernel)
  exact ⟨r', h, hp⟩

/-- numeric form of the error term: **`|E₀ + Σ sᵢ ⋆ Eᵢ₊₁| ≤ (1 + Σ‖sᵢ‖₁)·max|E|`**, coefficient-wise
(`snorm m s = Σ_{i<m} ‖sᵢ‖₁`; from the norm inequality `‖p ⋆ q‖∞ ≤ ‖p‖₁·‖q‖∞` of C01) -/
theorem phase_error_bound {B : Int} (m : Nat) (s : List Poly) (E : Nat → Poly)
    (hE : ∀ i, i ≤ m → ∀ v ∈ E i, |v| ≤ B) : ∀ v ∈ errTo m s E, |v| ≤ (1 + snorm m s) * B :=
  errTo_bound m s E hE

example : ∀ v ∈ errTo 1 [[1, -1]] (fun i => if i = 0 then [1, -1] else [0, 1]), |v| ≤ (1 + snorm 1 [[1, -1]]) * 1 :=
  phase_error_bound 1 _ _ (by intro i hi v hv; have : i = 0 ∨ i = 1 := by omega
                              rcases this with rfl | rfl <;> simp at hv <;> rcases hv with rfl | rfl <;> decide)

/-- **`glwe_rsh`, every shift amount `k` and any scratch content** (the repaired `vec_znx_rsh_assign`;
head-room of the C08 kernel: `|limb| ≤ H`, `H + 2^b + 4 ≤ 2^63`).  It returns `ok`, keeps the shape,
every column is the column divided by `2^k` within one unit of the last limb (`NormL.TorusNear`), and
the phase is the phase divided by `2^k` within `1 + Σ‖sᵢ‖₁` units — for every secret. -/
theorem rsh_phase {N : Nat} {res : GLWE} (hr : GWF N res) {H : Int} (hh : NormL.HeadRoom 64 res.base2k 0 H)
    (hb : GBound H res) (scr : Int) (k : Nat) :
    ∃ r', glweRsh N scr k res = .ok r' ∧ Same res r' ∧ GWF N r' ∧ r'.size = res.size ∧
      (∀ i, i ≤ res.rank → ∀ t, t < N →
        NormL.TorusNear (valCoeff res.base2k (col r' i) t) (res.base2k * res.size)
          (valCoeff res.base2k (col res i) t) (res.base2k * res.size + k)) ∧
      ∀ (s : List Poly) t, t < N → ∃ q e : Int,
        valCoeff res.base2k (phase s r') t * 2 ^ (res.base2k * res.size + k)
          = valCoeff res.base2k (phase s res) t * 2 ^ (res.base2k * res.size) + e
            + q * 2 ^ (res.base2k * res.size + (res.base2k * res.size + k)) ∧
        |e| ≤ (1 + snorm (min res.rank s.length) s) * 2 ^ (res.base2k * res.size + k) := by
  obtain ⟨r', h1, h2, h3, h4, h5, h6⟩ := rsh_generic hr scr k (fun a => rshCoef .overwrite res.base2k k a a)
    (fun _ => rfl) (res.base2k * res.size) (res.base2k * res.size + k) (2 ^ (res.base2k * res.size + k))
    (kernelOn_of_bound hr hh.hH0 hb _ _ _ _ _ fun a ha hab => by
      have h := C08.rsh_value hh k a a hab
      rw [ha] at h
      exact ⟨h.1, h.2.2.1⟩)
  exact ⟨r', h1, h2, h3, h4, h5, h6⟩

/-- the former defect witnesses (`k = 0` with a non-normalised body, `⌈k/b⌉ = 2`, `⌈k/b⌉ > size`) are now
inside the theorem: radix `2^4`, `H = 2^62` -/
example : ∃ r', glweRsh 2 12345 0 { base2k := 4, k := 4, n := 2, cols := [[[9, 0]], [[1, 1]]] } = .ok r' ∧
    ∀ (s : List Poly) t, t < 2 → ∃ q e : Int,
      valCoeff 4 (phase s r') t * 2 ^ (4 * 1 + 0) = valCoeff 4 (phase s { base2k := 4, k := 4, n := 2, cols := [[[9, 0]], [[1, 1]]] }) t * 2 ^ (4 * 1)
        + e + q * 2 ^ (4 * 1 + (4 * 1 + 0)) ∧ |e| ≤ (1 + snorm (min 1 s.length) s) * 2 ^ (4 * 1 + 0) := by
  obtain ⟨r', h, _, _, _, _, hp⟩ := rsh_phase (N := 2) (res := { base2k := 4, k := 4, n := 2, cols := [[[9, 0]], [[1, 1]]] })
    (by decide) (H := 2 ^ 62) ⟨by norm_num, by norm_num, by norm_num, by norm_num, by norm_num⟩
    (by intro c hc l hl x hx; simp at hc; rcases hc with rfl | rfl <;> simp at hl <;> subst hl <;> simp at hx <;>
          rcases hx with rfl | rfl <;> norm_num) 12345 0
  exact ⟨r', h, hp⟩

example : glweRsh 2 0 2 { base2k := 1, k := 1, n := 2, cols := [[[1, 1]]] } = .ok { base2k := 1, k := 1, n := 2, cols := [[[-1, -1]]] } ∧
    glweRsh 2 7 2 { base2k := 1, k := 2, n := 2, cols := [[[0, 0], [1, 1]]] }
      = .ok { base2k := 1, k := 2, n := 2, cols := [[[-1, -1], [-1, -1]]] } := by
  constructor <;> decide +kernel

/-- **`glwe_normalize_assign`** re-normalises without changing the torus value of any column, hence of
the phase (`e = 0`): outright, from `C08.normalize_assign_value` -/
theorem normalize_assign_phase {N : Nat} {res : GLWE} (hr : GWF N res) {H : Int} (hh : NormL.HeadRoom 64 res.base2k 0 H)
    (hb : GBound H res) :
    ∃ r', glweNormalizeAssign N res = .ok r' ∧ Same res r' ∧ GWF N r' ∧ r'.size = res.size ∧
      ∀ (s : List Poly) t, t < N → ∃ q : Int,
        valCoeff res.base2k (phase s r') t * 2 ^ (res.base2k * res.size)
          = valCoeff res.base2k (phase s res) t * 2 ^ (res.base2k * res.size)
            + q * 2 ^ (res.base2k * res.size + res.base2k * res.size) := by
  obtain ⟨r', h1, h2, h3, h4, _, h6⟩ := selfmap_generic hr (fun ri => normalizeAssignCol res.base2k ri N)
    (normalizeAssignCoef res.base2k) (fun _ => rfl) (res.base2k * res.size) (res.base2k * res.size) 0
    (kernelOn_of_bound hr hh.hH0 hb _ _ _ _ _ fun a ha hab => by
      have h := C08.normalize_assign_value hh a hab
      rw [ha] at h
      obtain ⟨q, hq⟩ := h.2.2
      exact ⟨h.1, q, 0, by linarith, by simp⟩)
  refine ⟨r', h1, h2, h3, h4, fun s t ht => ?_⟩
  obtain ⟨q, e, he, hb⟩ := h6 s t ht
  have : e = 0 := by
    have : |e| ≤ 0 := by simpa using hb
    exact abs_eq_zero.mp (le_antisymm this (abs_nonneg e))
  exact ⟨q, by rw [he, this]; ring⟩

example : ∃ r', glweNormalizeAssign 2 { base2k := 4, k := 8, n := 2, cols := [[[3, -20], [100, 9]], [[0, 7], [-8, 8]]] } = .ok r' :=
  let ⟨r', h, _⟩ := normalize_assign_phase (N := 2) (res := { base2k := 4, k := 8, n := 2, cols := [[[3, -20], [100, 9]], [[0, 7], [-8, 8]]] })
    (by decide) (H := 2 ^ 62) ⟨by norm_num, by norm_num, by norm_num, by norm_num, by norm_num⟩
    (by intro c hc l hl x hx; simp at hc; rcases hc with rfl | rfl <;> simp at hl <;> rcases hl with rfl | rfl <;> simp at hx <;>
          rcases hx with rfl | rfl <;> norm_num)
  ⟨r', h⟩

/-! ### the `lsh` family, outright (from `C08.lsh_value`, `lsh_add_value`, `lsh_sub_value`)

`b = res.base2k = a.base2k`, `rs = res.size`, `as = a.size`; the operand may have any rank `≤ res.rank`
(its missing columns count as zero columns: `glwe_lsh` zeroes them, `glwe_lsh_add/sub` leave them).
The relation `2^(b·as)·X = 2^k·2^(b·rs)·Y + e + q·2^(b·rs+b·as)` reads `X/2^(b·rs) = Y·2^k/2^(b·as) + e/2^(b·rs+b·as) (mod 1)`;
`|e| ≤ u·2^(b·as)` is `u` units of the result's last limb. -/

/-- head-room instances used by the examples (radix `2^4`) -/
def hr4 : NormL.HeadRoom 64 4 0 (2 ^ 62) := ⟨by norm_num, by norm_num, by norm_num, by norm_num, by norm_num⟩
def hr4b : NormL.HeadRoom 64 4 0 (2 ^ 60) := ⟨by norm_num, by norm_num, by norm_num, by norm_num, by norm_num⟩

/-- tolerance of one left shift: exact when the shifted operand fits the result -/
def lshTol (b rs as k : Nat) : Int := if b * as ≤ b * rs + k then 0 else 2 ^ (b * as)

/-- **`glwe_lsh`**: `phase(r') = phase(a)·2^k` on the torus, exactly when `b·as ≤ b·rs + k`, within
`1 + Σ‖sᵢ‖₁` units of the last limb otherwise -/
theorem lsh_phase {N : Nat} {res a : GLWE} (hr : GWF N res) (ha : GWF N a) (hbk : res.base2k = a.base2k)
    (hrank : a.rank ≤ res.rank) {H : Int} (hh : NormL.HeadRoom 64 res.base2k 0 H) (hb : GBound H a) (k : Nat) :
    ∃ r', glweLsh N res a k = .ok r' ∧ Same res r' ∧ GWF N r' ∧ r'.size = res.size ∧
      ∀ (s : List Poly) t, t < N → ∃ q e : Int,
        2 ^ (res.base2k * a.size) * valCoeff res.base2k (phase s r') t
          = (2 ^ k * 2 ^ (res.base2k * res.size)) * valCoeff res.base2k (phase s a) t + e
            + q * 2 ^ (res.base2k * res.size + res.base2k * a.size) ∧
        |e| ≤ (1 + snorm (min res.rank s.length) s) * lshTol res.base2k res.size a.size k := by
  unfold glweLsh
  rw [check_true _ _ (beq_true hr.1), check_true _ _ (beq_true ha.1), check_true _ _ (beq_true hbk),
    check_true _ _ (by simpa using hrank)]
  obtain ⟨r', e, hs, w, sz, h1, h2⟩ := withK_zero_loop hr ha hrank (fun aa rr => lshCoef .overwrite res.base2k k aa rr)
  refine ⟨r', e, hs, w, sz, fun s t ht => ?_⟩
  have hU : 0 ≤ lshTol res.base2k res.size a.size k := by unfold lshTol; split <;> positivity
  have := kernel2_phase hr ha w hs hrank _ (2 ^ (res.base2k * a.size)) 0 (2 ^ k * 2 ^ (res.base2k * res.size))
    (2 ^ (res.base2k * res.size + res.base2k * a.size)) _ hU
    (fun i hi t ht => by
      have hal : (coefAt (col a i) t).length = a.size := by rw [coefAt_length, (ha.col_wf i hi).1]
      have hrl : (coefAt (col res i) t).length = res.size := by rw [coefAt_length, (hr.col_wf i (by omega)).1]
      have hab := coefAt_bound hh.hH0 (hb _ (col_mem i (by rw [ha.len]; omega))) t
      have hv := C08.lsh_value hh k _ (coefAt (col res i) t) hab
      rw [hal, hrl] at hv
      refine ⟨hv.1, ?_⟩
      unfold lshTol
      split
      · obtain ⟨q, hq⟩ := hv.2.2.2 (by assumption)
        exact ⟨q, 0, by linear_combination hq, by simp⟩
      · obtain ⟨q, e, hq, he⟩ := hv.2.2.1
        exact ⟨q, e, by linear_combination hq, he⟩)
    h1 (fun i hi hi2 t => by rw [h2 i hi hi2, valCoeff_vecZero]; ring) s t ht
  obtain ⟨q, e, he, hb'⟩ := this
  exact ⟨q, e, by linear_combination he, hb'⟩

/-- rank-2 result of two limbs, rank-1 operand of three limbs (smaller rank, longer): `glwe_lsh` by 5 bits -/
example : ∃ r', glweLsh 2 exRes2 exA 5 = .ok r' ∧ ∀ (s : List Poly) t, t < 2 → ∃ q e : Int,
    2 ^ (4 * 3) * valCoeff 4 (phase s r') t = (2 ^ 5 * 2 ^ (4 * 2)) * valCoeff 4 (phase s exA) t + e + q * 2 ^ (4 * 2 + 4 * 3) ∧
    |e| ≤ (1 + snorm (min 2 s.length) s) * lshTol 4 2 3 5 := by
  obtain ⟨r', h, _, _, _, hp⟩ := lsh_phase (N := 2) (res := exRes2) (a := exA) (by decide) (by decide) rfl (by decide)
    (H := 2 ^ 62) hr4
    (by intro c hc l hl x hx; have : |x| ≤ 8 := by revert x l c; decide
        exact this.trans (by norm_num)) 5
  exact ⟨r', h, hp⟩

/-- **`glwe_lsh_add`**: `phase(r') = phase(res) + phase(a)·2^k` within `1 + Σ‖sᵢ‖₁` units of the last limb
(`|res limbs| ≤ 2^62`, radix at most `2^62`: the fused kernel adds balanced digits without wrapping) -/
theorem lsh_add_phase {N : Nat} {res a : GLWE} (hr : GWF N res) (ha : GWF N a) (hbk : res.base2k = a.base2k)
    (hrank : a.rank ≤ res.rank) {H : Int} (hh : NormL.HeadRoom 64 res.base2k 0 H) (hb62 : res.base2k ≤ 62)
    (hb : GBound H a) (hbr : GBound (2 ^ 62) res) (k : Nat) :
    ∃ r', glweLshAdd N res a k = .ok r' ∧ Same res r' ∧ GWF N r' ∧ r'.size = res.size ∧
      ∀ (s : List Poly) t, t < N → ∃ q e : Int,
        2 ^ (res.base2k * a.size) * valCoeff res.base2k (phase s r') t
          = 2 ^ (res.base2k * a.size) * valCoeff res.base2k (phase s res) t
            + (2 ^ k * 2 ^ (res.base2k * res.size)) * valCoeff res.base2k (phase s a) t + e
            + q * 2 ^ (res.base2k * res.size + res.base2k * a.size) ∧
        |e| ≤ (1 + snorm (min res.rank s.length) s) * 2 ^ (res.base2k * a.size) := by
  unfold glweLshAdd
  rw [check_true _ _ (beq_true hr.1), check_true _ _ (beq_true ha.1), check_true _ _ (beq_true hbk),
    check_true _ _ (by simpa using hrank)]
  obtain ⟨r', e, hs, w, sz, h1, h2⟩ := withK_loop hr ha hrank (fun aa rr => lshCoef .add res.base2k k aa rr)
  refine ⟨r', e, hs, w, sz, fun s t ht => ?_⟩
  exact kernel2_phase hr ha w hs hrank _ (2 ^ (res.base2k * a.size)) (2 ^ (res.base2k * a.size))
    (2 ^ k * 2 ^ (res.base2k * res.size)) (2 ^ (res.base2k * res.size + res.base2k * a.size)) _ (by positivity)
    (fun i hi t ht => by
      have hal : (coefAt (col a i) t).length = a.size := by rw [coefAt_length, (ha.col_wf i hi).1]
      have hrl : (coefAt (col res i) t).length = res.size := by rw [coefAt_length, (hr.col_wf i (by omega)).1]
      have hab := coefAt_bound hh.hH0 (hb _ (col_mem i (by rw [ha.len]; omega))) t
      have hrb := coefAt_bound (by positivity) (hbr _ (col_mem i (by rw [hr.len]; omega))) t
      have hv := C08.lsh_add_value hh hb62 k _ _ hab hrb
      rw [hal, hrl] at hv
      have hlen : (lshCoef .add res.base2k k (coefAt (col a i) t) (coefAt (col res i) t)).length = res.size := by
        rw [NormL.lshCoef_fused_eq .add (by decide) _ _ _ _ (fun r h => lt_of_le_of_lt (hrb r h) (by norm_num)),
          List.length_zipWith, (C08.lsh_value hh k _ (coefAt (col res i) t) hab).1, hrl]; simp
      obtain ⟨q, e, hq, he⟩ := hv
      exact ⟨hlen, q, e, by linear_combination hq, he⟩)
    h1 (fun i hi _ t => by rw [h2 i hi]) s t ht

example : ∃ r', glweLshAdd 2 exRes2 exA 5 = .ok r' := by
  obtain ⟨r', h, _⟩ := lsh_add_phase (N := 2) (res := exRes2) (a := exA) (by decide) (by decide) rfl (by decide)
    (H := 2 ^ 60) hr4b (by decide)
    (by intro c hc l hl x hx; have : |x| ≤ 8 := by revert x l c; decide
        exact this.trans (by norm_num))
    (by intro c hc l hl x hx; have : |x| ≤ 8 := by revert x l c; decide
        exact this.trans (by norm_num)) 5
  exact ⟨r', h⟩

/-- **`glwe_lsh_sub`**: `phase(r') = phase(res) − phase(a)·2^k` within `1 + Σ‖sᵢ‖₁` units of the last limb -/
theorem lsh_sub_phase {N : Nat} {res a : GLWE} (hr : GWF N res) (ha : GWF N a) (hbk : res.base2k = a.base2k)
    (hrank : a.rank ≤ res.rank) {H : Int} (hh : NormL.HeadRoom 64 res.base2k 0 H) (hb62 : res.base2k ≤ 62)
    (hb : GBound H a) (hbr : GBound (2 ^ 62) res) (k : Nat) :
    ∃ r', glweLshSub N res a k = .ok r' ∧ Same res r' ∧ GWF N r' ∧ r'.size = res.size ∧
      ∀ (s : List Poly) t, t < N → ∃ q e : Int,
        2 ^ (res.base2k * a.size) * valCoeff res.base2k (phase s r') t
          = 2 ^ (res.base2k * a.size) * valCoeff res.base2k (phase s res) t
            + (-(2 ^ k * 2 ^ (res.base2k * res.size))) * valCoeff res.base2k (phase s a) t + e
            + q * 2 ^ (res.base2k * res.size + res.base2k * a.size) ∧
        |e| ≤ (1 + snorm (min res.rank s.length) s) * 2 ^ (res.base2k * a.size) := by
  unfold glweLshSub
  rw [check_true _ _ (beq_true hr.1), check_true _ _ (beq_true ha.1), check_true _ _ (beq_true hbk),
    check_true _ _ (by simpa using hrank)]
  obtain ⟨r', e, hs, w, sz, h1, h2⟩ := withK_loop hr ha hrank (fun aa rr => lshCoef .sub res.base2k k aa rr)
  refine ⟨r', e, hs, w, sz, fun s t ht => ?_⟩
  exact kernel2_phase hr ha w hs hrank _ (2 ^ (res.base2k * a.size)) (2 ^ (res.base2k * a.size))
    (-(2 ^ k * 2 ^ (res.base2k * res.size))) (2 ^ (res.base2k * res.size + res.base2k * a.size)) _ (by positivity)
    (fun i hi t ht => by
      have hal : (coefAt (col a i) t).length = a.size := by rw [coefAt_length, (ha.col_wf i hi).1]
      have hrl : (coefAt (col res i) t).length = res.size := by rw [coefAt_length, (hr.col_wf i (by omega)).1]
      have hab := coefAt_bound hh.hH0 (hb _ (col_mem i (by rw [ha.len]; omega))) t
      have hrb := coefAt_bound (by positivity) (hbr _ (col_mem i (by rw [hr.len]; omega))) t
      have hv := C08.lsh_sub_value hh hb62 k _ _ hab hrb
      rw [hal, hrl] at hv
      have hlen : (lshCoef .sub res.base2k k (coefAt (col a i) t) (coefAt (col res i) t)).length = res.size := by
        rw [NormL.lshCoef_fused_eq .sub (by decide) _ _ _ _ (fun r h => lt_of_le_of_lt (hrb r h) (by norm_num)),
          List.length_zipWith, (C08.lsh_value hh k _ (coefAt (col res i) t) hab).1, hrl]; simp
      obtain ⟨q, e, hq, he⟩ := hv
      exact ⟨hlen, q, e, by linear_combination hq, he⟩)
    h1 (fun i hi _ t => by rw [h2 i hi]) s t ht

example : ∃ r', glweLshSub 2 exRes2 exPt 9 = .ok r' := by
  obtain ⟨r', h, _⟩ := lsh_sub_phase (N := 2) (res := exRes2) (a := exPt) (by decide) (by decide) rfl (by decide)
    (H := 2 ^ 60) hr4b (by decide)
    (by intro c hc l hl x hx; have : |x| ≤ 8 := by revert x l c; decide
        exact this.trans (by norm_num))
    (by intro c hc l hl x hx; have : |x| ≤ 8 := by revert x l c; decide
        exact this.trans (by norm_num)) 9
  exact ⟨r', h⟩

/-- **`glwe_lsh_assign`**: `phase(r') = phase(res)·2^k` on the torus, exactly (the low limbs are zero-filled,
the bits shifted out at the top are integers) -/
theorem lsh_assign_phase {N : Nat} {res : GLWE} (hr : GWF N res) {H : Int} (hh : NormL.HeadRoom 64 res.base2k 0 H)
    (hb : GBound H res) (k : Nat) :
    ∃ r', glweLshAssign N res k = .ok r' ∧ Same res r' ∧ GWF N r' ∧ r'.size = res.size ∧
      ∀ (s : List Poly) t, t < N → ∃ q : Int,
        valCoeff res.base2k (phase s r') t * 2 ^ (res.base2k * res.size)
          = valCoeff res.base2k (phase s res) t * 2 ^ k * 2 ^ (res.base2k * res.size)
            + q * 2 ^ (res.base2k * res.size + res.base2k * res.size) := by
  obtain ⟨r', h1, hs, w, sz, hcol⟩ := selfmap_cols (N := N) hr (fun ri => lshAssignCol res.base2k k ri N)
    (lshAssignCoef res.base2k k) (fun _ => rfl)
  refine ⟨r', h1, hs, w, sz, fun s t ht => ?_⟩
  have := torus_phase3 w hr hr hs.rank.symm (by rw [hs.rank]) res.base2k res.base2k res.base2k
    (2 ^ (res.base2k * res.size)) 0 (2 ^ k * 2 ^ (res.base2k * res.size)) (2 ^ (res.base2k * res.size + res.base2k * res.size)) 0
    (fun i hi t ht => by
      rw [hs.rank] at hi
      have hal : (coefAt (col res i) t).length = res.size := by rw [coefAt_length, (hr.col_wf i hi).1]
      have hab := coefAt_bound hh.hH0 (hb _ (col_mem i (by rw [hr.len]; omega))) t
      have hv := C08.lsh_value hh k _ (coefAt (col res i) t) hab
      rw [hal] at hv
      obtain ⟨q, hq⟩ := hv.2.2.2 (by omega)
      refine ⟨q, 0, ?_, by simp⟩
      rw [hcol i hi, valCoeff_eq, valCoeff_eq, coefAt_mapCoefs _ _ _ t ht (by rw [lshAssign_eq_lsh hh k _ hab]; exact hv.1),
        lshAssign_eq_lsh hh k _ hab]
      linear_combination hq) s t ht
  obtain ⟨q, e, he, hb'⟩ := this
  have : e = 0 := by
    have : |e| ≤ 0 := by simpa using hb'
    exact abs_eq_zero.mp (le_antisymm this (abs_nonneg e))
  exact ⟨q, by rw [this] at he; linear_combination he⟩

example : ∃ r', glweLshAssign 2 exA 6 = .ok r' ∧ ∀ (s : List Poly) t, t < 2 → ∃ q : Int,
    valCoeff 4 (phase s r') t * 2 ^ (4 * 3) = valCoeff 4 (phase s exA) t * 2 ^ 6 * 2 ^ (4 * 3) + q * 2 ^ (4 * 3 + 4 * 3) := by
  obtain ⟨r', h, _, _, _, hp⟩ := lsh_assign_phase (N := 2) (res := exA) (by decide)
    (H := 2 ^ 62) hr4
    (by intro c hc l hl x hx; have : |x| ≤ 8 := by revert x l c; decide
        exact this.trans (by norm_num)) 6
  exact ⟨r', h, hp⟩

/-- **`glwe_normalize`, same radix, all limb counts** (from `C08.normalize_inter_value`): the phase is
re-expressed on `res.size` limbs, exactly when `a.size ≤ res.size`, within `1 + Σ‖sᵢ‖₁` units otherwise -/
theorem normalize_same_radix_phase {N : Nat} {res a : GLWE} (hr : GWF N res) (ha : GWF N a) (hbk : res.base2k = a.base2k)
    (hrank : res.rank = a.rank) {H : Int} (hh : NormL.HeadRoom 64 res.base2k 0 H) (hb : GBound H a) :
    ∃ r', glweNormalize N res a = .ok r' ∧ Same res r' ∧ GWF N r' ∧ r'.size = res.size ∧
      ∀ (s : List Poly) t, t < N → ∃ q e : Int,
        2 ^ (res.base2k * a.size) * valCoeff res.base2k (phase s r') t
          = 2 ^ (res.base2k * res.size) * valCoeff res.base2k (phase s a) t + e
            + q * 2 ^ (res.base2k * res.size + res.base2k * a.size) ∧
        |e| ≤ (1 + snorm (min res.rank s.length) s) * lshTol res.base2k res.size a.size 0 := by
  obtain ⟨r', e, hs, w, sz, hcol⟩ := normalize_loop hr ha hrank
    (fun i => mapCoefs N res.size (fun t => normalizeInterCoef 64 res.base2k res.size 0 (coefAt (col a i) t)))
    (fun i _ => ⟨by rw [← hbk]; exact normalizeCol_same _ _ _ _, mapCoefs_length _ _ _, mapCoefs_WF _ _ _⟩)
  refine ⟨r', e, hs, w, sz, fun s t ht => ?_⟩
  have hU : 0 ≤ lshTol res.base2k res.size a.size 0 := by unfold lshTol; split <;> positivity
  have := torus_phase3 w hr ha hs.rank.symm (by rw [hs.rank, hrank]) res.base2k res.base2k res.base2k
    (2 ^ (res.base2k * a.size)) 0 (2 ^ (res.base2k * res.size)) (2 ^ (res.base2k * res.size + res.base2k * a.size))
    (lshTol res.base2k res.size a.size 0)
    (fun i hi t ht => by
      rw [hs.rank] at hi
      have hal : (coefAt (col a i) t).length = a.size := by rw [coefAt_length, (ha.col_wf i (by omega)).1]
      have hab := coefAt_bound hh.hH0 (hb _ (col_mem i (by rw [ha.len]; omega))) t
      have hv := C08.normalize_inter_value hh res.size 0 _ hab
      simp only [Int.toNat_zero, pow_zero, mul_one, neg_zero, Nat.add_zero, sub_zero] at hv
      rw [hal] at hv
      rw [hcol i hi, valCoeff_eq, valCoeff_eq, valCoeff_eq, coefAt_mapCoefs _ _ _ t ht hv.1]
      unfold lshTol
      split
      next hc =>
        obtain ⟨q, hq⟩ := hv.2.2.2 (by exact_mod_cast (by omega : res.base2k * a.size ≤ res.base2k * res.size))
        exact ⟨q, 0, by linear_combination hq, by simp⟩
      next hc =>
        obtain ⟨q, e, hq, he⟩ := hv.2.2.1
        exact ⟨q, e, by linear_combination hq, he⟩) s t ht
  rw [hs.rank] at this
  obtain ⟨q, e, he, hb'⟩ := this
  exact ⟨q, e, by linear_combination he, hb'⟩

/-- three limbs into two (truncating) and one limb into two (exact), radix `2^4` -/
example : (∃ r', glweNormalize 2 exRes exA = .ok r') ∧ (∃ r', glweNormalize 2 exRes exB = .ok r') := by
  constructor
  · obtain ⟨r', h, _⟩ := normalize_same_radix_phase (N := 2) (res := exRes) (a := exA) (by decide) (by decide) rfl rfl
      (H := 2 ^ 62) hr4
      (by intro c hc l hl x hx; have : |x| ≤ 8 := by revert x l c; decide
          exact this.trans (by norm_num))
    exact ⟨r', h⟩
  · obtain ⟨r', h, _⟩ := normalize_same_radix_phase (N := 2) (res := exRes) (a := exB) (by decide) (by decide) rfl rfl
      (H := 2 ^ 62) hr4
      (by intro c hc l hl x hx; have : |x| ≤ 8 := by revert x l c; decide
          exact this.trans (by norm_num))
    exact ⟨r', h⟩

/-- tolerance of a re-normalisation from `pa` to `pr` bits of precision -/
def normTol (pr pa : Nat) : Int := if pa ≤ pr then 0 else 2 ^ pa

/-- **`glwe_normalize`, any pair of radices `1..62`, all limb counts** (from `C08.normalize_value_offset0`):
whenever the kernel returns on every column (its cross-radix loop has a fuel bound in the model; it was
never exhausted in the corresponded cases) the operation returns `ok` and the phase is re-expressed in
the result's radix, exactly when `ab·as ≤ rb·rs`, within `1 + Σ‖sᵢ‖₁` units of the result's last limb otherwise -/
theorem normalize_phase {N : Nat} {res a : GLWE} (hr : GWF N res) (ha : GWF N a) (hrank : res.rank = a.rank)
    (hrb1 : 1 ≤ res.base2k) (hrb : res.base2k ≤ 62) (hab1 : 1 ≤ a.base2k) (hab : a.base2k ≤ 62)
    {H : Int} (hH0 : 0 ≤ H) (hH : H + 8 ≤ 2 ^ 62) (hb : GBound H a)
    (hret : ∀ i, i ≤ res.rank → ∃ Ci, normalizeCol? res.base2k res.size 0 (col a i) a.base2k N = some Ci) :
    ∃ r', glweNormalize N res a = .ok r' ∧ Same res r' ∧ GWF N r' ∧ r'.size = res.size ∧
      ∀ (s : List Poly) t, t < N → ∃ q e : Int,
        2 ^ (a.base2k * a.size) * valCoeff res.base2k (phase s r') t
          = 2 ^ (res.base2k * res.size) * valCoeff a.base2k (phase s a) t + e
            + q * 2 ^ (res.base2k * res.size + a.base2k * a.size) ∧
        |e| ≤ (1 + snorm (min res.rank s.length) s) * normTol (res.base2k * res.size) (a.base2k * a.size) := by
  let C : Nat → Col := fun i => (normalizeCol? res.base2k res.size 0 (col a i) a.base2k N).getD []
  have hC : ∀ i, i ≤ res.rank → normalizeCol? res.base2k res.size 0 (col a i) a.base2k N = some (C i) := by
    intro i hi
    obtain ⟨Ci, h⟩ := hret i hi
    simp only [C, h, Option.getD_some]
  obtain ⟨r', e, hs, w, sz, hcol⟩ := normalize_loop hr ha hrank C (fun i hi => by
    have h := mapCoefs?_inv _ _ _ _ (hC i hi)
    exact ⟨hC i hi, h.1, h.2.1⟩)
  refine ⟨r', e, hs, w, sz, fun s t ht => ?_⟩
  have hU : 0 ≤ normTol (res.base2k * res.size) (a.base2k * a.size) := by unfold normTol; split <;> positivity
  have := torus_phase3 w hr ha hs.rank.symm (by rw [hs.rank, hrank]) res.base2k res.base2k a.base2k
    (2 ^ (a.base2k * a.size)) 0 (2 ^ (res.base2k * res.size)) (2 ^ (res.base2k * res.size + a.base2k * a.size))
    (normTol (res.base2k * res.size) (a.base2k * a.size))
    (fun i hi t ht => by
      rw [hs.rank] at hi
      have hal : (coefAt (col a i) t).length = a.size := by rw [coefAt_length, (ha.col_wf i (by omega)).1]
      have hab' := coefAt_bound hH0 (hb _ (col_mem i (by rw [ha.len]; omega))) t
      obtain ⟨o, ho, hco⟩ := (mapCoefs?_inv _ _ _ _ (hC i hi)).2.2 t ht
      have ctx : NormL.CrossCtx 64 a.base2k res.base2k res.size 0 H (coefAt (col a i) t) :=
        ⟨Or.inl rfl, hrb1, hrb, by omega, hab, hH0, by simpa using hH, hab'⟩
      have hv := C08.normalize_value_offset0 ctx ho
      rw [hal] at hv
      rw [hcol i hi, valCoeff_eq, valCoeff_eq, valCoeff_eq, hco hv.1]
      unfold normTol
      split
      next hc =>
        obtain ⟨q, hq⟩ := hv.2.2.2 hc
        exact ⟨q, 0, by linear_combination hq, by simp⟩
      next hc =>
        obtain ⟨q, e, hq, he⟩ := hv.2.2.1
        exact ⟨q, e, by linear_combination hq, he⟩) s t ht
  rw [hs.rank] at this
  obtain ⟨q, e, he, hb'⟩ := this
  exact ⟨q, e, by linear_combination he, hb'⟩

/-- radix `2^2` (two limbs) into radix `2^4` (two limbs): cross radix, exact -/
example : ∃ r', glweNormalize 2 exRes exA2 = .ok r' ∧ ∀ (s : List Poly) t, t < 2 → ∃ q e : Int,
    2 ^ (2 * 2) * valCoeff 4 (phase s r') t = 2 ^ (4 * 2) * valCoeff 2 (phase s exA2) t + e + q * 2 ^ (4 * 2 + 2 * 2) ∧
    |e| ≤ (1 + snorm (min 1 s.length) s) * normTol (4 * 2) (2 * 2) := by
  obtain ⟨r', h, _, _, _, hp⟩ := normalize_phase (N := 2) (res := exRes) (a := exA2) (by decide) (by decide) rfl
    (by decide) (by decide) (by decide) (by decide) (H := 2 ^ 60) (by norm_num) (by norm_num)
    (by intro c hc l hl x hx; have : |x| ≤ 8 := by revert x l c; decide
        exact this.trans (by norm_num))
    (by intro i hi
        have : i = 0 ∨ i = 1 := by have : i ≤ 1 := hi; omega
        rcases this with rfl | rfl
        · exact ⟨[[4, -7], [0, 0]], by decide +kernel⟩
        · exact ⟨[[-3, 1], [0, 0]], by decide +kernel⟩)
  exact ⟨r', h, hp⟩

/-- **`glwe_normalize`, any pair of radices `1..62`, all limb counts, unconditional**: the hypothesis `hret` of
`normalize_phase` (the kernel returns on every column) is C08's termination theorem
(`C08.normalize_cross_terminates`), so the operation always returns `ok`, and the phase is re-expressed in the
result's radix — exactly when `ab·as ≤ rb·rs`, within `1 + Σ‖sᵢ‖₁` units of the result's last limb otherwise.
This is `normalize_phase_modulo_norm` / `phase_value_modulo_norm` with every hypothesis about the kernel discharged. -/
theorem normalize_phase_total {N : Nat} {res a : GLWE} (hr : GWF N res) (ha : GWF N a) (hrank : res.rank = a.rank)
    (hrb1 : 1 ≤ res.base2k) (hrb : res.base2k ≤ 62) (hab1 : 1 ≤ a.base2k) (hab : a.base2k ≤ 62)
    {H : Int} (hH0 : 0 ≤ H) (hH : H + 8 ≤ 2 ^ 62) (hb : GBound H a) :
    ∃ r', glweNormalize N res a = .ok r' ∧ Same res r' ∧ GWF N r' ∧ r'.size = res.size ∧
      ∀ (s : List Poly) t, t < N → ∃ q e : Int,
        2 ^ (a.base2k * a.size) * valCoeff res.base2k (phase s r') t
          = 2 ^ (res.base2k * res.size) * valCoeff a.base2k (phase s a) t + e
            + q * 2 ^ (res.base2k * res.size + a.base2k * a.size) ∧
        |e| ≤ (1 + snorm (min res.rank s.length) s) * normTol (res.base2k * res.size) (a.base2k * a.size) :=
  normalize_phase hr ha hrank hrb1 hrb hab1 hab hH0 hH hb
    (fun i _ => NormL.normalizeCol?_exists res.base2k res.size 0 (col a i) a.base2k N hab1 hrb1)

/-- radix `2^2` (two limbs) into radix `2^4` (two limbs), no evaluation of the kernel needed any more -/
example : ∃ r', glweNormalize 2 exRes exA2 = .ok r' ∧ ∀ (s : List Poly) t, t < 2 → ∃ q e : Int,
    2 ^ (2 * 2) * valCoeff 4 (phase s r') t = 2 ^ (4 * 2) * valCoeff 2 (phase s exA2) t + e + q * 2 ^ (4 * 2 + 2 * 2) ∧
    |e| ≤ (1 + snorm (min 1 s.length) s) * normTol (4 * 2) (2 * 2) := by
  obtain ⟨r', h, _, _, _, hp⟩ := normalize_phase_total (N := 2) (res := exRes) (a := exA2) (by decide) (by decide) rfl
    (by decide) (by decide) (by decide) (by decide) (H := 2 ^ 60) (by norm_num) (by norm_num)
    (by intro c hc l hl x hx; have : |x| ≤ 8 := by revert x l c; decide
        exact this.trans (by norm_num))
  exact ⟨r', h, hp⟩

/-! ## GGSW operations (`operations/ggsw.rs`)

A GGSW is `dnum` rows of `rank+1` GLWE cells; `GGWF N g`: `dnum·(rank+1)` well-formed cells of the GGSW's
rank and radix.  Every `(row, col)` cell of the result is the GLWE operation applied to the
corresponding cells, so the GLWE phase theorem holds cell by cell. -/

instance (N : Nat) (g : GGSW) : Decidable (GGWF N g) := by unfold GGWF; infer_instance
instance (g : GGSW) : Decidable (GGSmall g) := by unfold GGSmall; infer_instance

/-- `ggsw_rotate(k, res, a)` (`res.dnum ≤ a.dnum`; the cells may have different limb counts) -/
theorem ggsw_rotate_cells {N : Nat} (k : Int) {res a : GGSW} (hr : GGWF N res) (ha : GGWF N a) (sa : GGSmall a)
    (hd : res.dnum ≤ a.dnum) (hds : res.dsize = a.dsize) (hrk : res.rank = a.rank) (hb : res.base2k = a.base2k) :
    ∃ r', ggswRotate N k res a = .ok r' ∧ r'.cts.length = res.cts.length ∧ r'.dnum = res.dnum ∧ r'.rank = res.rank ∧
      ∀ idx, idx < res.dnum * (res.rank + 1) → ∃ cr ca c',
        res.cts[idx]? = some cr ∧ a.cts[idx]? = some ca ∧ glweRotate N k cr ca = .ok c' ∧ r'.cts[idx]? = some c' ∧
        Same cr c' ∧ GWF N c' ∧ ∀ s, phase s c' = (fit N cr.size (phase s ca)).map (rotP k) :=
  ggswRotate_cells k hr ha sa hd hds hrk hb

/-- two GGSWs of rank 1: `res` one row of two-limb cells, `a` two rows of three-limb cells -/
def exGr : GGSW := { base2k := 4, n := 2, rank := 1, dnum := 1, dsize := 1, cts := [exRes, exRes] }
def exGa : GGSW := { base2k := 4, n := 2, rank := 1, dnum := 2, dsize := 1, cts := [exA, exA, exA, exA] }

example : ∃ r', ggswRotate 2 (-5) exGr exGa = .ok r' ∧ ∀ idx, idx < 2 → ∃ c', r'.cts[idx]? = some c' ∧
    ∀ s, phase s c' = (fit 2 2 (phase s exA)).map (rotP (-5)) := by
  obtain ⟨r', h, _, _, _, hc⟩ := ggsw_rotate_cells (N := 2) (-5) (res := exGr) (a := exGa)
    (by decide) (by decide) (by decide) (by decide) rfl rfl rfl
  refine ⟨r', h, fun idx hi => ?_⟩
  obtain ⟨cr, ca, c', g1, g2, _, g4, _, _, g7⟩ := hc idx hi
  have : idx = 0 ∨ idx = 1 := by omega
  rcases this with rfl | rfl <;> (simp [exGr, exGa] at g1 g2; subst g1 g2; exact ⟨c', g4, g7⟩)

/-- `ggsw_rotate_assign(k, res)` -/
theorem ggsw_rotate_assign_cells {N : Nat} (k : Int) {res : GGSW} (hr : GGWF N res) (sr : GGSmall res) :
    ∃ r', ggswRotateAssign N k res = .ok r' ∧ r'.cts.length = res.cts.length ∧
      ∀ idx, idx < res.dnum * (res.rank + 1) → ∃ cr c',
        res.cts[idx]? = some cr ∧ glweRotateAssign N k cr = .ok c' ∧ r'.cts[idx]? = some c' ∧
        Same cr c' ∧ GWF N c' ∧ ∀ s, phase s c' = (phase s cr).map (rotP k) :=
  ggswRotateAssign_cells k hr sr

example : ∃ r', ggswRotateAssign 2 7 exGa = .ok r' ∧ r'.cts.length = 4 := by
  obtain ⟨r', h, hl, _⟩ := ggsw_rotate_assign_cells (N := 2) 7 (res := exGa) (by decide) (by decide)
  exact ⟨r', h, hl⟩

/-! ## scratch: "no key", but the in-place and shifting operations need a scratch arena

The interpreter executes the `…S` forms: the operation behind its `scratch.available() >= …_tmp_bytes`
assertion (`sc` = bytes available; `scratchCap sb` for `ScratchOwned::alloc(sb)`, rounded up to a
multiple of 64).  With enough scratch the `…S` form *is* the operation, so every theorem above
applies; with less it is an assertion failure, never a wrong result. -/

/-- enough scratch: the guarded form is the operation itself -/
theorem scratch_enough {N sc : Nat} (k : Int) (kk : Nat) (scr : Int) (res a : GLWE) (g : GGSW) :
    (Scratch.tbGlweRotate N ≤ sc → glweRotateAssignS N sc k res = glweRotateAssign N k res ∧
      glweMulXpMinusOneAssignS N sc k res = glweMulXpMinusOneAssign N k res ∧
      ggswRotateAssignS N sc k g = ggswRotateAssign N k g) ∧
    (Scratch.tbGlweShift N ≤ sc → glweRshS N sc scr kk res = glweRsh N scr kk res ∧
      glweLshAssignS N sc res kk = glweLshAssign N res kk ∧ glweLshS N sc res a kk = glweLsh N res a kk ∧
      glweLshAddS N sc res a kk = glweLshAdd N res a kk ∧ glweLshSubS N sc res a kk = glweLshSub N res a kk) ∧
    (Scratch.tbGlweNormalize N ≤ sc → glweNormalizeAssignS N sc res = glweNormalizeAssign N res ∧
      glweNormalizeS N sc res a = glweNormalize N res a) := by
  refine ⟨fun h => ⟨?_, ?_, ?_⟩, fun h => ⟨?_, ?_, ?_, ?_, ?_⟩, fun h => ⟨?_, ?_⟩⟩
  · simp [glweRotateAssignS, checkS, h]
  · have h' : Scratch.oneLimbTmp N ≤ sc := h
    unfold glweMulXpMinusOneAssignS glweMulXpMinusOneAssign
    by_cases c : (res.n == N) = true <;> simp [check, checkS, c, h']
  · simp [ggswRotateAssignS, checkS, h]
  · simp [glweRshS, checkS, h]
  · simp [glweLshAssignS, checkS, h]
  · simp [glweLshS, checkS, h]
  · simp [glweLshAddS, checkS, h]
  · simp [glweLshSubS, checkS, h]
  · simp [glweNormalizeAssignS, checkS, h]
  · unfold glweNormalizeS glweNormalize
    by_cases c1 : (res.n == N) = true <;> by_cases c2 : (a.n == N) = true <;> by_cases c3 : (res.rank == a.rank) = true <;>
      simp [check, checkS, c1, c2, c3, h]

/-- too little scratch is `panic "scratch"` — before any other assertion for the shifts and the in-place
forms, after the shape assertions for `glwe_normalize` (as in the Rust) -/
theorem scratch_too_small_panics {N sc : Nat} (k : Int) (kk : Nat) (scr : Int) (res a : GLWE) (g : GGSW) :
    (sc < Scratch.tbGlweRotate N → glweRotateAssignS N sc k res = .panic "scratch" ∧
      ggswRotateAssignS N sc k g = .panic "scratch" ∧
      (res.n = N → glweMulXpMinusOneAssignS N sc k res = .panic "scratch")) ∧
    (sc < Scratch.tbGlweShift N → glweRshS N sc scr kk res = .panic "scratch" ∧ glweLshAssignS N sc res kk = .panic "scratch" ∧
      glweLshS N sc res a kk = .panic "scratch" ∧ glweLshAddS N sc res a kk = .panic "scratch" ∧
      glweLshSubS N sc res a kk = .panic "scratch") ∧
    (sc < Scratch.tbGlweNormalize N → glweNormalizeAssignS N sc res = .panic "scratch" ∧
      (res.n = N → a.n = N → res.rank = a.rank → glweNormalizeS N sc res a = .panic "scratch")) := by
  refine ⟨fun h => ⟨?_, ?_, fun h1 => ?_⟩, fun h => ⟨?_, ?_, ?_, ?_, ?_⟩, fun h => ⟨?_, fun h1 h2 h3 => ?_⟩⟩
  · simp [glweRotateAssignS, checkS, Nat.not_le.mpr h]
  · simp [ggswRotateAssignS, checkS, Nat.not_le.mpr h]
  · have h' : ¬ Scratch.oneLimbTmp N ≤ sc := Nat.not_le.mpr h
    simp [glweMulXpMinusOneAssignS, check, checkS, h1, h']
  · simp [glweRshS, checkS, Nat.not_le.mpr h]
  · simp [glweLshAssignS, checkS, Nat.not_le.mpr h]
  · simp [glweLshS, checkS, Nat.not_le.mpr h]
  · simp [glweLshAddS, checkS, Nat.not_le.mpr h]
  · simp [glweLshSubS, checkS, Nat.not_le.mpr h]
  · simp [glweNormalizeAssignS, checkS, Nat.not_le.mpr h]
  · simp [glweNormalizeS, check, checkS, h1, h2, h3, Nat.not_le.mpr h]

/-- thresholds at `N = 8`: 64, 128 and 192 bytes; an arena requested with 65 bytes holds 128 -/
example : Scratch.tbGlweRotate 8 = 64 ∧ Scratch.tbGlweShift 8 = 128 ∧ Scratch.tbGlweNormalize 8 = 192 ∧ scratchCap 65 = 128 ∧
    glweRshS 8 (scratchCap 64) 0 1 exA = .panic "scratch" ∧ glweRshS 2 (scratchCap 1) 0 1 exA = glweRsh 2 0 1 exA := by
  refine ⟨by decide, by decide, by decide, by decide, ?_, ?_⟩
  · exact ((scratch_too_small_panics (N := 8) (sc := scratchCap 64) 0 1 0 exA exA exGa).2.1 (by decide)).1
  · exact ((scratch_enough (N := 2) (sc := scratchCap 1) 0 1 0 exA exA exGa).2.1 (by decide)).1

/-! ## straight-line programs

`specStep N sz P op` is the program step on plaintext limb columns (`P i` = phase of pool entry `i`,
`sz r` = limb count of the result entry); `exactOp` = the linear and rotation families above;
`SmallRun p ops` = head-room at every pool reached before an operation (an executable check:
`smallRunB`). -/

/-- one step of the interpreter the driver executes is a homomorphism for the phase -/
theorem step_phase_hom {p p' : Pool} {op : Op} (hp : PoolWF p) (hs : PoolSmall p) (hop : exactOp op = true)
    (h : step p op = .ok p') :
    PoolWF p' ∧ p'.N = p.N ∧ (∀ i, sizeAt p' i = sizeAt p i) ∧
      ∀ s i, phaseAt s p' i = specStep p.N (sizeAt p) (phaseAt s p) op i :=
  step_phase hp hs hop h

/-- phase is a homomorphism for straight-line programs (induction on the op list) -/
theorem program_phase_hom (ops : List Op) (p p' : Pool) (hp : PoolWF p) (hs : SmallRun p ops)
    (hex : ∀ op ∈ ops, exactOp op = true) (h : run p ops = .ok p') :
    PoolWF p' ∧ ∀ s i, phaseAt s p' i = specRun p.N (sizeAt p) (phaseAt s p) ops i :=
  run_phase ops p p' hp hs hex h

def exPool : Pool := { N := 2, scr := 0, objs := [.ct exRes2, .ct exRes, .ct exA, .ct exPt], sb := 16 }
def exProg : List Op := [.rotate (-3) 1 2, .addAssign 0 1, .subNegateAssign 0 3, .mulXpMinusOneAssign 5 0, .add 1 2 3]

example : ∃ p', run exPool exProg = .ok p' ∧
    ∀ s i, phaseAt s p' i = specRun 2 (sizeAt exPool) (phaseAt s exPool) exProg i := by
  have hr : ∃ p', run exPool exProg = .ok p' := exists_of_isOk (by decide +kernel)
  obtain ⟨p', h⟩ := hr
  exact ⟨p', h, (program_phase_hom exProg exPool p' (poolWF_of_all (by decide)) (smallRun_of_B _ _ (by decide +kernel))
    (by decide) h).2⟩

example : step exPool (.rotate (-3) 1 2) ≠ .panic "assert" ∧ exactOp (.rotate (-3) 1 2) = true := by
  constructor <;> decide +kernel

/-! ## programs with shifts: the accumulated error, by induction on the op list

A chain of in-place operations `us : List UOp` (negate, `X^k`, `X^k − 1`, `rsh k`, `lsh k`, normalise) on
pool entry `r`, run by the interpreter `run`.  `TRun us` is the exact ring map of the chain on
plaintexts; `accRun P sn ⟨0,0,m₀,0⟩ us = ⟨a, b, m, U⟩` accumulates the scalings and the tolerance:
the final phase `X` and the initial phase `Y` satisfy, on every coefficient,
`X·2^a = (TRun us Y)·2^b + e + q·2^m` with `|e| ≤ U` — each right shift contributes `(1 + Σ‖sᵢ‖₁)` units of
the last limb (scaled by the later operations), `X^k − 1` doubles what is already there, everything
else contributes nothing. -/

/-- one more operation of the chain -/
theorem chain_step {N : Nat} (s : List Poly) (r : Nat) {H : Int} (u : UOp) (p p' : Pool) (c : GLWE) (acc : Acc) (Y : Poly)
    (hN : p.N = N) (hc : p.objs[r]? = some (Obj.ct c)) (hw : GWF N c) (hh : NormL.HeadRoom 64 c.base2k 0 H)
    (hsm : GSmall c) (hbd : GBound H c) (hY : Y.length = N)
    (hrel : PRel N (valP c.base2k N (phase s c)) acc.a Y acc.b acc.m acc.U)
    (hstep : step p (u.toOp r) = .ok p') :
    ∃ c', p'.objs[r]? = some (Obj.ct c') ∧ p'.N = N ∧ GWF N c' ∧ c'.base2k = c.base2k ∧ c'.size = c.size ∧ c'.rank = c.rank ∧
      PRel N (valP c.base2k N (phase s c')) (accStep (c.base2k * c.size) (snorm (min c.rank s.length) s) acc u).a (u.T Y)
        (accStep (c.base2k * c.size) (snorm (min c.rank s.length) s) acc u).b
        (accStep (c.base2k * c.size) (snorm (min c.rank s.length) s) acc u).m
        (accStep (c.base2k * c.size) (snorm (min c.rank s.length) s) acc u).U := by
  have hX : (valP c.base2k N (phase s c)).length = N := by simp
  have hlim : LimbsN N (phase s c) := (phase_wf hw s).2
  subst hN
  cases u with
  | neg =>
    obtain ⟨res, x, g1, h4, rfl⟩ := un_inv hstep
    rw [hc] at g1; cases g1
    obtain ⟨r', e, sm, w, sz, ph⟩ := negateAssign_ok hw hsm
    rw [h4] at e; cases e
    refine ⟨x, put_same _ _ _ _ hc, rfl, w, sm.1, sz, sm.rank, ?_⟩
    rw [ph s, valP_map (linT_neg _) _ _ hlim]
    exact hrel.neg
  | rot k =>
    obtain ⟨res, x, g1, h4, rfl⟩ := un_inv hstep
    rw [hc] at g1; cases g1
    unfold glweRotateAssignS at h4
    obtain ⟨_, h4⟩ := checkS_ok h4
    obtain ⟨r', e, sm, w, sz, ph⟩ := rotateAssign_ok k hw hsm
    rw [h4] at e; cases e
    refine ⟨x, put_same _ _ _ _ hc, rfl, w, sm.1, sz, sm.rank, ?_⟩
    rw [ph s, valP_map (linT_rot _ k) _ _ hlim]
    exact hrel.rot k hX hY
  | mxp k =>
    obtain ⟨res, x, g1, h4, rfl⟩ := un_inv hstep
    rw [hc] at g1; cases g1
    unfold glweMulXpMinusOneAssignS at h4
    obtain ⟨_, h4⟩ := check_ok h4
    obtain ⟨_, h4⟩ := checkS_ok h4
    obtain ⟨r', e, sm, w, sz, ph⟩ := mulXpMinusOneAssign_ok k hw hsm
    rw [h4] at e; cases e
    refine ⟨x, put_same _ _ _ _ hc, rfl, w, sm.1, sz, sm.rank, ?_⟩
    rw [ph s, valP_map (linT_mxp _ k) _ _ hlim]
    exact hrel.mxp k hX hY
  | rsh k =>
    obtain ⟨res, x, g1, h4, rfl⟩ := un_inv hstep
    rw [hc] at g1; cases g1
    unfold glweRshS at h4
    obtain ⟨_, h4⟩ := checkS_ok h4
    obtain ⟨r', e, sm, w, sz, _, ph⟩ := rsh_phase hw hh hbd p.scr k
    rw [h4] at e; cases e
    refine ⟨x, put_same _ _ _ _ hc, rfl, w, sm.1, sz, sm.rank, ?_⟩
    exact (PRel_of_val c.base2k _ _ _ _ _ _ (ph s)).trans hrel
  | lsh k =>
    obtain ⟨res, x, g1, h4, rfl⟩ := un_inv hstep
    rw [hc] at g1; cases g1
    unfold glweLshAssignS at h4
    obtain ⟨_, h4⟩ := checkS_ok h4
    obtain ⟨r', e, sm, w, sz, ph⟩ := lsh_assign_phase hw hh hbd k
    rw [h4] at e; cases e
    refine ⟨x, put_same _ _ _ _ hc, rfl, w, sm.1, sz, sm.rank, ?_⟩
    refine (PRel_of_val c.base2k _ _ (c.base2k * c.size) (k + c.base2k * c.size) (c.base2k * c.size + c.base2k * c.size) 0
      (fun t ht => ?_)).trans hrel
    obtain ⟨q, hq⟩ := ph s t ht
    exact ⟨q, 0, by rw [pow_add]; linear_combination hq, by simp⟩
  | norm =>
    obtain ⟨res, x, g1, h4, rfl⟩ := un_inv hstep
    rw [hc] at g1; cases g1
    unfold glweNormalizeAssignS at h4
    obtain ⟨_, h4⟩ := checkS_ok h4
    obtain ⟨r', e, sm, w, sz, ph⟩ := normalize_assign_phase hw hh hbd
    rw [h4] at e; cases e
    refine ⟨x, put_same _ _ _ _ hc, rfl, w, sm.1, sz, sm.rank, ?_⟩
    refine (PRel_of_val c.base2k _ _ (c.base2k * c.size) (c.base2k * c.size) (c.base2k * c.size + c.base2k * c.size) 0
      (fun t ht => ?_)).trans hrel
    obtain ⟨q, hq⟩ := ph s t ht
    exact ⟨q, 0, by linear_combination hq, by simp⟩

/-- **accumulated error of a program**, by induction on the op list -/
theorem program_accumulated_error {N : Nat} (s : List Poly) (r : Nat) {H : Int} :
    ∀ (us : List UOp) (p p' : Pool) (c : GLWE) (acc : Acc) (Y : Poly),
    p.N = N → p.objs[r]? = some (Obj.ct c) → GWF N c → NormL.HeadRoom 64 c.base2k 0 H → Y.length = N →
    PRel N (valP c.base2k N (phase s c)) acc.a Y acc.b acc.m acc.U →
    HRun H r p (us.map (UOp.toOp r)) →
    run p (us.map (UOp.toOp r)) = .ok p' →
    ∃ c', p'.objs[r]? = some (Obj.ct c') ∧ GWF N c' ∧ c'.size = c.size ∧ c'.rank = c.rank ∧
      PRel N (valP c.base2k N (phase s c')) (accRun (c.base2k * c.size) (snorm (min c.rank s.length) s) acc us).a (TRun us Y)
        (accRun (c.base2k * c.size) (snorm (min c.rank s.length) s) acc us).b
        (accRun (c.base2k * c.size) (snorm (min c.rank s.length) s) acc us).m
        (accRun (c.base2k * c.size) (snorm (min c.rank s.length) s) acc us).U := by
  intro us
  induction us with
  | nil =>
    intro p p' c acc Y _ hc hw _ _ hrel _ hrun
    cases hrun
    exact ⟨c, hc, hw, rfl, rfl, hrel⟩
  | cons u rest ih =>
    intro p p' c acc Y hN hc hw hh hY hrel hhr hrun
    obtain ⟨p1, h1, h2⟩ := bind_ok hrun
    obtain ⟨hsb, hnext⟩ := hhr
    obtain ⟨c1, g1, gN, w1, b1, z1, k1, rel1⟩ := chain_step s r u p p1 c acc Y hN hc hw hh (hsb c hc).1 (hsb c hc).2 hY hrel h1
    have hh1 : NormL.HeadRoom 64 c1.base2k 0 H := by rw [b1]; exact hh
    obtain ⟨c', g', w', z', k', rel'⟩ := ih p1 p' c1 _ (u.T Y) gN g1 w1 hh1 (T_length u Y hY)
      (by rw [b1]; exact rel1) (hnext p1 h1) h2
    refine ⟨c', g', w', z'.trans z1, k'.trans k1, ?_⟩
    rw [b1, z1, k1] at rel'
    exact rel'

/-- radix `2^4`, one limb, rank 1: negate, shift right by 3 bits, multiply by `X^5 − 1`, shift right by 1, normalise -/
def exChain : List UOp := [.neg, .rsh 3, .mxp 5, .rsh 1, .norm]
def exChainPool : Pool := { N := 2, scr := 7, objs := [.ct exB], sb := 48 }

example : ∃ p', run exChainPool (exChain.map (UOp.toOp 0)) = .ok p' ∧ ∃ c', p'.objs[0]? = some (Obj.ct c') ∧
    ∀ s : List Poly,
      PRel 2 (valP 4 2 (phase s c')) (accRun 4 (snorm (min 1 s.length) s) ⟨0, 0, 8, 0⟩ exChain).a (TRun exChain (valP 4 2 (phase s exB)))
        (accRun 4 (snorm (min 1 s.length) s) ⟨0, 0, 8, 0⟩ exChain).b (accRun 4 (snorm (min 1 s.length) s) ⟨0, 0, 8, 0⟩ exChain).m
        (accRun 4 (snorm (min 1 s.length) s) ⟨0, 0, 8, 0⟩ exChain).U := by
  obtain ⟨p', hp'⟩ : ∃ p', run exChainPool (exChain.map (UOp.toOp 0)) = .ok p' := exists_of_isOk (by decide +kernel)
  have key := fun s => program_accumulated_error (N := 2) s 0 (H := 2 ^ 60) exChain exChainPool p' exB ⟨0, 0, 8, 0⟩
    (valP 4 2 (phase s exB)) rfl rfl (by decide) hr4b (by simp) (PRel.refl _ _ _) (hrun_of_B _ _ _ _ (by decide +kernel)) hp'
  obtain ⟨c', g, _, _, _, _⟩ := key []
  refine ⟨p', hp', c', g, fun s => ?_⟩
  obtain ⟨c'', g'', _, _, _, rel⟩ := key s
  rw [g] at g''; cases g''
  exact rel

/-! ## operands of different radices are rejected

Before the repair `fix: glwe_negate / glwe_copy / glwe_rotate / glwe_mul_xp_minus_one accepted operands
of different base2k` these four operations copied the digits of a radix-`2^a` operand verbatim into a
radix-`2^b` result (the limb-column theorems held, their reading as torus values did not).  They now
carry the assertion their siblings always had: -/

/-- a radix mismatch is an assertion failure in all four operations (well-formed operands) -/
theorem radix_mismatch_rejected {N : Nat} (k : Int) {res a : GLWE} (hr : GWF N res) (ha : GWF N a)
    (hb : res.base2k ≠ a.base2k) :
    glweNegate N res a = .panic "assert" ∧ glweCopy N res a = .panic "assert" ∧
    glweRotate N k res a = .panic "assert" ∧ glweMulXpMinusOne N k res a = .panic "assert" := by
  have hf : (res.base2k == a.base2k) = false := by simpa using hb
  refine ⟨?_, ?_, ?_, ?_⟩
  · unfold glweNegate
    rw [check_true _ _ (beq_true ha.1), check_true _ _ (beq_true hr.1)]; simp [check, hf]
  · unfold glweCopy
    rw [check_true _ _ (beq_true hr.1), check_true _ _ (beq_true ha.1)]; simp [check, hf]
  · unfold glweRotate
    rw [check_true _ _ (beq_true ha.1), check_true _ _ (beq_true hr.1)]; simp [check, hf]
  · unfold glweMulXpMinusOne
    rw [check_true _ _ (beq_true hr.1), check_true _ _ (beq_true ha.1)]; simp [check, hf]

example : glweNegate 2 { base2k := 7, k := 7, n := 2, cols := [[[0, 0]]] } { base2k := 4, k := 4, n := 2, cols := [[[1, 2]]] }
    = .panic "assert" :=
  (radix_mismatch_rejected (N := 2) 0 (by decide) (by decide) (by decide)).1

end C02
