import Poulpy.Model.Core.Ops

namespace C02
theorem placeholder : (1 : Nat) = 1 := rfl
end C02
