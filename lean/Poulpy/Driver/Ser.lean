import Poulpy.Driver.Util
import Poulpy.Model.Bytes
/-
Driver of the serialisation model.  Command word `ser`.

  id ser read  type=T mem=M F=<fields> S=<seed groups> L=<leaves> in=<hex>
        → id <ok|err:kind|panic:cls> rest=<unread bytes> F=… S=… L=… W=<hex of write_to(post-state) | err:kind | panic:cls | big>
  id ser write type=T prof=release|ovf F=… S=… L=…
        → id <hex> | err:kind | panic:cls | big
  id ser readold prof=P L=<vec leaf> in=<hex>      (pre-0c7f5af VecZnx reader, for C17)
        → same answer form as `read`

Flat state text form (documented in Model/Bytes.lean):
  F = comma separated naturals, `-` when empty
  S = groups separated by `;`, a group is `count:hex`; `-` when there is none
  L = leaves separated by `;`: `v:n:cols:size:max_size:hex` | `s:n:cols:hex` | `m:n:size:rows:cols_in:cols_out:hex`
  hex = lower-case hex, `-` for the empty string, `zN` (input only) for N zero bytes
`big` is printed instead of a serialisation longer than 2^20 bytes (never materialised).
-/

namespace Drv.Ser
open _root_.Ser

def hexDigit (c : Char) : Nat :=
  if '0' ≤ c ∧ c ≤ '9' then c.toNat - 48
  else if 'a' ≤ c ∧ c ≤ 'f' then c.toNat - 87
  else if 'A' ≤ c ∧ c ≤ 'F' then c.toNat - 55
  else 0

def hexGo : List Char → Bytes → Bytes
  | a :: b :: rest, acc => hexGo rest (UInt8.ofNat (hexDigit a * 16 + hexDigit b) :: acc)
  | _, acc => acc.reverse

def parseHex (s : String) : Bytes :=
  if s == "-" || s.isEmpty then []
  else if s.startsWith "z" then List.replicate (nat! (s.drop 1).toString) 0
  else hexGo s.toList []

def hexChar (n : Nat) : Char := if n < 10 then Char.ofNat (48 + n) else Char.ofNat (87 + n)

def showHex (b : Bytes) : String :=
  if b.isEmpty then "-"
  else String.ofList (b.foldr (fun x acc => hexChar (x.toNat / 16) :: hexChar (x.toNat % 16) :: acc) [])

def parseLeaf (s : String) : Option Leaf :=
  match s.splitOn ":" with
  | ["v", n, c, sz, mx, d] => some (.vec ⟨nat! n, nat! c, nat! sz, nat! mx, parseHex d⟩)
  | ["s", n, c, d] => some (.scalar ⟨nat! n, nat! c, parseHex d⟩)
  | ["m", n, sz, r, ci, co, d] => some (.mat ⟨nat! n, nat! sz, nat! r, nat! ci, nat! co, parseHex d⟩)
  | _ => none

def showLeaf : Leaf → String
  | .vec v => s!"v:{v.n}:{v.cols}:{v.size}:{v.maxSize}:{showHex v.data}"
  | .scalar v => s!"s:{v.n}:{v.cols}:{showHex v.data}"
  | .mat v => s!"m:{v.n}:{v.size}:{v.rows}:{v.colsIn}:{v.colsOut}:{showHex v.data}"

def parseGroup (s : String) : Option SeedGroup :=
  match s.splitOn ":" with
  | [c, d] => some ⟨nat! c, parseHex d⟩
  | _ => none

def showGroup (g : SeedGroup) : String := s!"{g.count}:{showHex g.filled}"

def parseList {α : Type} (f : String → Option α) (s : String) : List α :=
  if s == "-" || s.isEmpty then [] else (s.splitOn ";").filterMap f

def showList {α : Type} (f : α → String) (l : List α) : String :=
  if l.isEmpty then "-" else ";".intercalate (l.map f)

def parseSt (ts : List String) : St :=
  { fields := kvNats ts "F"
    seeds := parseList parseGroup ((kv ts "S").getD "-")
    leaves := parseList parseLeaf ((kv ts "L").getD "-")
    mem := if (kv ts "mem").isSome then kvNat ts "mem" else 2 ^ 36 }

def showSt (s : St) : String :=
  s!"F={showNats s.fields} S={showList showGroup s.seeds} L={showList showLeaf s.leaves}"

def LIMIT : Nat := 2 ^ 20

/-- upper bound of what a write would emit, computed without materialising seed groups -/
def tooBig (s : St) : Bool :=
  s.seeds.any (fun g => 32 * g.count > LIMIT)

def showOut (o : Outcome Bytes) : String :=
  match o with
  | .ok b => showHex b
  | .err k => "err:" ++ k
  | .panic c => "panic:" ++ c

def prof (ts : List String) : Profile := if (kv ts "prof") == some "ovf" then .ovf else .release

def rewrite (p : Profile) (ty : String) (s : St) : String :=
  if tooBig s then "big" else
  match writerOf p ty with
  | none => "bad-type"
  | some w => showOut (w s)

def showRes (p : Profile) (ty : String) (r : Res St Unit) : String :=
  match r with
  | .ok _ s rest => s!"ok rest={rest.length} {showSt s} W={rewrite p ty s}"
  | .err k s => s!"err:{k} rest=0 {showSt s} W={rewrite p ty s}"
  | .panic c s => s!"panic:{c} rest=0 {showSt s} W={rewrite p ty s}"

/-- `A=1/0`: the capacity-only acceptance predicate of Model/Bytes for the receiver's ORIGINAL capacity (HAL layouts) -/
def acceptTag (s0 : St) (bs : Bytes) : String :=
  match s0.leaves with
  | [.vec v] => if vecAccept v.capacity bs then " A=1" else " A=0"
  | [.scalar v] => if scalarAccept v.capacity bs then " A=1" else " A=0"
  | [.mat v] => if matAccept v.capacity bs then " A=1" else " A=0"
  | _ => ""

def handle (ts : List String) : String :=
  match ts with
  | "read" :: rest =>
    let ty := (kv rest "type").getD ""
    match readerOf ty with
    | none => "bad-type"
    | some r => showRes (prof rest) ty (r (parseSt rest) (parseHex ((kv rest "in").getD "-")))
  | "seq" :: rest =>
    -- successive reads into one receiver: `in=<hex>;<hex>;…` → answers separated by ` | `
    let ty := (kv rest "type").getD ""
    match readerOf ty with
    | none => "bad-type"
    | some r =>
      let streams := (((kv rest "in").getD "-").splitOn ";").map parseHex
      let s0 := parseSt rest
      let hal := ty == "vec" || ty == "scalar" || ty == "mat"
      let step := fun (acc : St × List String) (bs : Bytes) =>
        let res := r acc.1 bs
        (res.state, acc.2 ++ [showRes (prof rest) ty res ++ (if hal then acceptTag s0 bs else "")])
      " | ".intercalate (streams.foldl step (s0, [])).2
  | "write" :: rest =>
    let ty := (kv rest "type").getD ""
    let s := parseSt rest
    if tooBig s then "big" else
    match writerOf (prof rest) ty with
    | none => "bad-type"
    | some w => showOut (w s)
  | "readold" :: rest =>
    let s := parseSt rest
    let r : Rd St Unit := onLeaf 0 (liftVec (VecZnx.readFromOld (prof rest)))
    showRes (prof rest) "vec" (r s (parseHex ((kv rest "in").getD "-")))
  | _ => "bad-op"

end Drv.Ser
