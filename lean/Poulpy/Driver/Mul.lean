import Poulpy.Driver.Util
import Poulpy.Driver.Ep
import Poulpy.Model.Core.Mul

/-!
Model driver for the `mul` command (C05) — the counterpart of `harness/src/cmd_mul.rs`.

Request:  `id mul op=<tensor|tensor_add|square|plain|const|const_assign|relin> big=<0|1> n=N bo=<res base2k>
           so=<res size> off=<cnv_offset> b=<operand base2k> ka= kb= a=<C>x<S>:<ints> [x=<C>x<S>:<ints>]
           [c=<ints>] [r0=<C>x<S>:<ints>] [gp=<base2k>,<colsIn>,<colsOut>,<dsize>,<dnum>,<size> g=<ints>]`
Answer:   `id <C>x<S>:<ints>` or `err:<kind>`.  Integer lists in (column, limb, coefficient) order;
`g` lists the key cells in (row, input column) order.  `x` is the second operand (GLWE `b`, or the
plaintext as a one-column vector); `r0` the prior content of the result tensor (`tensor_add`) or of
the `res_dft` scratch buffer (`relin`).
-/

namespace Drv.Mul
open Core Drv.Ep

def showOpt (o : Option (List Col)) : String :=
  match o with
  | some v => showVec v
  | none => "err:fuel"

def handle (ts : List String) : String :=
  let n := kvNat ts "n"
  let big := kvNat ts "big" == 1
  let bo := kvNat ts "bo"
  let so := kvNat ts "so"
  let off := kvNat ts "off"
  let b := kvNat ts "b"
  let ka := kvNat ts "ka"
  let kb := kvNat ts "kb"
  match (kv ts "op").getD "", (kv ts "a").bind (parseVec n) with
  | "tensor", some a =>
    match (kv ts "x").bind (parseVec n) with
    | some x =>
      let cols := a.length
      showOpt (tensorApply false big n bo so off b a ka x kb (zeroCols n (cols * (cols + 1) / 2) so))
    | none => "err:parse-x"
  | "tensor_add", some a =>
    match (kv ts "x").bind (parseVec n), (kv ts "r0").bind (parseVec n) with
    | some x, some r0 => showOpt (tensorApply true big n bo so off b a ka x kb r0)
    | _, _ => "err:parse-x"
  | "square", some a =>
    let cols := a.length
    showOpt (tensorSquare big n bo so off b a ka (zeroCols n (cols * (cols + 1) / 2) so))
  | "plain", some a =>
    match (kv ts "x").bind (parseVec n) with
    | some x => showOpt (mulPlain big n bo so off b a ka (x.getD 0 []) kb)
    | none => "err:parse-x"
  | "const", some a => showOpt (mulConst false big n bo so off b a (kvInts ts "c"))
  | "const_assign", some a => showOpt (mulConst true big n bo so off b a (kvInts ts "c"))
  | "relin", some a =>
    match kvNats ts "gp" with
    | [gb, colsIn, colsOut, dsize, dnum, gsize] =>
      let gd := kvInts ts "g"
      if gd.length != dnum * colsIn * colsOut * gsize * n then "err:parse-g" else
      let cells := (chunk (colsOut * gsize * n) gd).map (mkCols n colsOut gsize)
      let g : GGLWE := { base2k := gb, n := n, colsIn := colsIn, colsOut := colsOut, dsize := dsize, dnum := dnum,
                         size := gsize, cells := cells }
      let r0 := ((kv ts "r0").bind (parseVec n)).getD (zeroCols n colsOut gsize)
      showOpt (relinearize big n bo so a b g gsize r0)
    | _ => "err:parse-gp"
  | _, _ => "err:parse-a"

end Drv.Mul
