import Poulpy.Driver.Util
import Poulpy.Model.NoiseBounds
/-
Driver of the noise bounds (`Model/NoiseBounds.lean`), units of `2^-64` of the torus.  Request `id noise <sub-op> k=v …`:

* `blind n= rank= dnum= b= k= hw= nlwe= blocks= e= [logdelta=]` → `ok bound=<blindBound with the per-product normalisation included> [ok=<0|1>]`
* `word n= rank= dnum= b= k= hw= l= e= bp=`                     → `ok bc=<cmuxBound> bound=<L·Bc + Bp> wordok=<0|1>`
* `cbt  n= rank= dnum= b= k= hw= nlwe= blocks= e= bt= tdnum= tb= tk= te=` → `ok ecbt=<cbtErr>`
-/
namespace Drv.Noise
open NoiseB

def par (kv : List String) : Par :=
  { n := kvNat kv "n", rank := kvNat kv "rank", dnum := kvNat kv "dnum", b := kvNat kv "b", k := kvNat kv "k", hw := kvNat kv "hw" }

def handle (ts : List String) : String :=
  match ts with
  | "blind" :: kv =>
    let p := par kv
    let nl := kvNat kv "nlwe"; let bl := kvNat kv "blocks"; let e := kvNat kv "e"
    -- the standard path normalises inside every external product: count one unit per product as well
    let bound := blindBound p nl bl e + 2 * nl * normU p
    let ld := kvNat kv "logdelta"
    s!"ok bound={bound} ok={if 2 * bound < 2 ^ (64 - ld) then 1 else 0}"
  | "word" :: kv =>
    let p := par kv
    let l := kvNat kv "l"; let e := kvNat kv "e"; let bp := kvNat kv "bp"
    s!"ok bc={cmuxBound p e} bound={bddBound p l e + bp} wordok={if wordOk p l e bp then 1 else 0}"
  | "cbt" :: kv =>
    let p := par kv
    let pt : Par := { n := p.n, rank := p.rank, dnum := kvNat kv "tdnum", b := kvNat kv "tb", k := kvNat kv "tk", hw := p.hw }
    s!"ok ecbt={cbtErr p (kvNat kv "nlwe") (kvNat kv "blocks") (kvNat kv "e") (kvNat kv "bt") pt (kvNat kv "te")}"
  | _ => "bad-op"

end Drv.Noise
