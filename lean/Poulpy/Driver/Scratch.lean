import Poulpy.Driver.Util
import Poulpy.Model.ScratchOps3
/-
Driver for C12.  Request:  `id scratch <op> be=fft64|ntt120 n=.. k=v … mis=<0..63> [win=<bytes>]`
Answer:   `id tb=<tmp_bytes> req=<req> reqa=<reqA> al=<0|1> fits=<0|1> run=<ok|take|need> peak=<p> ev=<o:l:r,…>`
* the window starts at address `4096 + mis`; without `win=` its length is `alignOff(mis) + tb`, i.e.
  `available() == tb` exactly (the "exact-size window");
* `run`: `ok`, `take` (= `take_slice_aligned` panicked), `need` (= an `available() >= tmp_bytes` assertion failed);
* `peak`: highest end of a taken slice, relative to the window start; `ev`: the takes
  (window offset : window length : requested), `-` if none.
Unknown op → `bad-op`.
-/

namespace Drv.Scratch
open _root_.Scratch

def beOf (ts : List String) : BE := if kv ts "be" == some "ntt120" then .ntt120 else .fft64


/-- third table (Model/ScratchOps3.lean) -/
def opOf3 (op : String) (ts : List String) : Option (Nat × AllocTree) :=
  let be := beOf ts
  let g := kvNat ts
  let n := g "n"
  let res : G := ⟨g "rank", g "size", g "b2k"⟩
  let a : G := ⟨g "arank", g "asize", g "ab2k"⟩
  let k : K := ⟨g "krin", g "krout", g "ksize", g "kb2k", g "dnum", g "dsize"⟩
  let t : K := ⟨g "rank", g "rank", g "tsize", g "tb2k", g "tdnum", g "tdsize"⟩
  let t2 : K := ⟨pairs (g "rank"), g "rank", g "tsize", g "tb2k", g "tdnum", g "tdsize"⟩
  let brk : K := brkK (g "rank") (g "bsize") (g "bb2k") (g "bdnum")
  let ksl : K := ⟨if g "ksglwe" == 1 then g "gkrout" else g "rank", 1, g "lksize", g "lkb2k", g "lkdnum", 1⟩
  let w : W := ⟨res, g "rdnum"⟩
  let nlwe := g "nlwe"
  let block := g "block"
  let ext := g "ext"
  let off := g "off"
  let bs := if g "ptk" > 0 then ceilDiv (g "ptk") res.b2k else g "bsize"
  match op with
  | "gglwe_prepare" => some (tbPrepare be n, treePrepare be n 1)
  | "ggsw_prepare" => some (tbPrepare be n, treePrepare be n 1)
  | "glwe_switching_key_prepare" => some (tbPrepare be n, treePrepare be n 2)
  | "glwe_automorphism_key_prepare" => some (tbPrepare be n, treePrepare be n 2)
  | "prepare_tensor_key" => some (tbPrepare be n, treePrepare be n 2)
  | "gglwe_to_ggsw_key_prepare" => some (tbPrepare be n, treePrepareMany be n res.rank true)
  | "lwe_switching_key_prepare" => some (tbPrepare be n, treePrepare be n 3)
  | "lwe_to_glwe_key_prepare" => some (tbPrepare be n, treePrepare be n 3)
  | "glwe_to_lwe_key_prepare" => some (tbPrepare be n, treePrepare be n 3)
  | "blind_rotation_key_prepare" => some (tbPrepare be n, treePrepareMany be n nlwe false)
  | "circuit_bootstrapping_key_prepare" => some (tbPrepare be n, treeCbtKeyPrepare be n nlwe res.rank (g "natk"))
  | "prepare_bdd_key" => some (tbPrepare be n, treeBddKeyPrepare be n nlwe res.rank (g "natk") (g "ksglwe" == 1))
  | "glwe_switching_key_compressed_encrypt_sk" => some (tbSwitchingKeyEncryptSk be n k, treeSwitchingKeyCompressedEncryptSk be n k)
  | "glwe_automorphism_key_compressed_encrypt_sk" => some (tbAutomorphismKeyEncryptSk be n k, treeAutomorphismKeyCompressedEncryptSk be n k)
  | "glwe_tensor_key_compressed_encrypt_sk" => some (tbTensorKeyEncryptSk be n k, treeTensorKeyCompressedEncryptSk be n k)
  | "gglwe_to_ggsw_key_compressed_encrypt_sk" => some (tbGglweToGgswKeyEncryptSk be n k, treeGglweToGgswKeyCompressedEncryptSk be n k)
  | "glwe_mul_plain" => some (tbGlweMulPlain be n res a (g "bsize"), treeGlweMulPlain be n off res a (g "bsize") (g "ea") (g "eb"))
  | "glwe_mul_plain_assign" => some (tbGlweMulPlain be n res res (g "bsize"), treeGlweMulPlainAssign be n off res (g "bsize") (g "eb") (g "ea"))
  | "glwe_tensor_apply" => some (tbGlweTensorApply be n res a (g "bsize"), treeGlweTensorApply be n off res a (g "bsize") (g "ea") (g "eb"))
  | "glwe_tensor_apply_add_assign" => some (tbGlweTensorApply be n res a (g "bsize"), treeGlweTensorApply be n off res a (g "bsize") (g "ea") (g "eb"))
  | "glwe_tensor_square_apply" => some (tbGlweTensorSquare be n res a, treeGlweTensorSquare be n off res a (g "ea"))
  | "blind_rotation_execute" => some (tbBlindRotation be n block ext res brk, treeBlindRotation be n nlwe block ext res brk)
  | "blind_rotation_key_encrypt_sk" => some (tbGgxEncryptSk be n brk.size, treeBrkEncryptSk be n nlwe brk)
  | "blind_rotation_key_compressed_encrypt_sk" => some (tbGgxEncryptSk be n brk.size, treeBrkCompressedEncryptSk be n nlwe brk)
  | "circuit_bootstrapping_execute" => some (tbCbt be n block ext w brk k t, treeCbtConstant be n nlwe block ext (g "iters") w brk k t)
  | "circuit_bootstrapping_key_encrypt_sk" => some (tbCbtKeyEncryptSk be n brk k t, treeCbtKeyEncryptSk be n nlwe (g "natk") brk k t)
  | "bdd_key_encrypt_sk" =>
      let kg : Option K := if g "ksglwe" == 1 then some ⟨g "rank", g "gkrout", g "gksize", g "gkb2k", g "gkdnum", g "gkdsize"⟩ else none
      some (tbBddKeyEncryptSk be n brk k t ksl kg, treeBddKeyEncryptSk be n nlwe (g "natk") brk k t ksl kg)
  | "fhe_uint_prepare" =>
      let kg : Option K := if g "ksglwe" == 1 then some ⟨g "rank", g "gkrout", g "gksize", g "gkb2k", g "gkdnum", g "gkdsize"⟩ else none
      some (g "threads" * tbFheUintPrepare be n block w a brk k t ksl kg,
        treeFheUintPrepare be n (g "threads") nlwe block (g "iters") (g "bitsper") (g "idx") w a brk k t ksl kg)
  | "glwe_blind_rotation" => some (tbGlweBlindRotation be n res k, treeGlweBlindRotation be n (g "bitmask") res k)
  | "ggsw_to_ggsw_blind_rotation" => some (tbGlweBlindRotation be n res k, treeGgswBlindRotation be n (g "cells") (g "bitmask") res k)
  | "scalar_to_ggsw_blind_rotation" => some (tbScalarToGgswBlindRotation be n res k, treeScalarToGgswBlindRotation be n (g "cells") (g "bitmask") res k)
  | "glwe_blind_selection" => some (tbGlweBlindRotation be n res k, treeGlweBlindSelection be n (g "steps") res k)
  | "glwe_blind_retrieval" => some (tbCswap be n res res k, treeGlweBlindRetrieval be n (g "steps") res k)
  | "retrieve" => some (tbRetrieve be n res k, treeRetrieve be n (g "steps") res k)
  | "bdd_2w_to_1w" => some (tbBdd2w1w be n (g "threads") (g "bits") (g "state") res k t,
      treeBdd2w1w be n (g "threads") (g "bits") (g "state") (g "rounds") (g "iters") res k t)
  | "fhe_uint_encrypt_sk" => some (tbFheUintEncryptSk be n res, treeFheUintEncryptSk be n res)
  | "fhe_uint_decrypt" => some (tbFheUintDecrypt be n res, treeFheUintDecrypt be n res)
  | "ckks_mul" => some (tbCkksMul be n res t2, treeCkksMul be n off (g "ea") (g "eb") res t2)
  | "ckks_square" => some (tbCkksSquare be n res t2, treeCkksSquare be n off (g "ea") res t2)
  | "ckks_mul_pt_vec_znx" => some (tbCkksMulPtVecZnx be n res a (g "bsize"), treeGlweMulPlain be n off res a (g "bsize") (g "ea") (g "eb"))
  | "ckks_mul_pt_vec_rnx" => some (tbCkksMulPtVecRnx be n res a (g "bsize"), treeCkksMulPtVecRnx be n off res a (g "bsize") (g "ea"))
  | "ckks_mul_pt_const" => some (tbCkksMulPtConst be n res a bs, treeCkksMulPtConst be n off res a bs)
  | "ckks_composite_ct" => some (tbCkksComposite n res (tbCkksMul be n res t2), treeCkksComposite n res (treeCkksMul be n off (g "ea") (g "eb") res t2))
  | "ckks_composite_pt_vec_znx" => some (tbCkksComposite n res (tbCkksMulPtVecZnx be n res a (g "bsize")),
      treeCkksComposite n res (treeGlweMulPlain be n off res a (g "bsize") (g "ea") (g "eb")))
  | "ckks_composite_pt_vec_rnx" => some (tbCkksComposite n res (tbCkksMulPtVecRnx be n res a (g "bsize")),
      treeCkksComposite n res (treeCkksMulPtVecRnx be n off res a (g "bsize") (g "ea")))
  | "ckks_composite_pt_const" => some (tbCkksComposite n res (tbCkksMulPtConst be n res a (g "bsize")),
      treeCkksComposite n res (treeCkksMulPtConst be n off res a (g "bsize")))
  | "ckks_mul_many" => some (tbCkksMulMany be n (g "cnt") res t2, treeCkksMulMany be n off (g "ea") (g "eb") res t2 (g "levels"))
  | "ckks_dot_product_ct" => some (tbCkksDotProductCt be n (g "cnt") res t2, treeCkksDotProductCt be n off (g "ea") (g "eb") (g "cnt") res t2)
  | "ckks_all_ops" => some (tbCkksAllOps be n res t2 (g "bsize"), .done)
  | "ckks_all_ops_with_atk" => some (tbCkksAllOpsAtk be n res t2 k (g "bsize"), .done)
  | _ => none

/-- second table (Model/ScratchOps2.lean) -/
def opOf2 (op : String) (ts : List String) : Option (Nat × AllocTree) :=
  let be := beOf ts
  let g := kvNat ts
  let n := g "n"
  let res : G := ⟨g "rank", g "size", g "b2k"⟩
  let a : G := ⟨g "arank", g "asize", g "ab2k"⟩
  let k : K := ⟨g "krin", g "krout", g "ksize", g "kb2k", g "dnum", g "dsize"⟩
  let t : K := ⟨g "rank", g "rank", g "tsize", g "tb2k", g "tdnum", g "tdsize"⟩
  -- tensor key: rank_in = pairs(rank), rank_out = rank
  let t2 : K := ⟨pairs (g "rank"), g "rank", g "tsize", g "tb2k", g "tdnum", g "tdsize"⟩
  let lwe : L := ⟨g "lsize", g "lb2k"⟩
  let alwe : L := ⟨g "alsize", g "alb2k"⟩
  let same : Bool := res.b2k == a.b2k && res.size == a.size && res.rank == a.rank
  -- a GGSW seen as a GLWE key infos for the external product: rank_in = rank_out = krout
  match op with
  | "glwe_secret_tensor_prepare" => some (tbSecretTensorPrepare be n res.rank, treeSecretTensorPrepare be n res.rank)
  | "glwe_switching_key_encrypt_sk" => some (tbSwitchingKeyEncryptSk be n k, treeSwitchingKeyEncryptSk be n k)
  | "glwe_automorphism_key_encrypt_sk" => some (tbAutomorphismKeyEncryptSk be n k, treeAutomorphismKeyEncryptSk be n k)
  | "glwe_tensor_key_encrypt_sk" => some (tbTensorKeyEncryptSk be n k, treeTensorKeyEncryptSk be n k)
  | "gglwe_to_ggsw_key_encrypt_sk" => some (tbGglweToGgswKeyEncryptSk be n k, treeGglweToGgswKeyEncryptSk be n k)
  | "lwe_switching_key_encrypt_sk" => some (tbLweSwitchingKeyEncryptSk be n k, treeLweSwitchingKeyEncryptSk be n k)
  | "lwe_to_glwe_key_encrypt_sk" => some (tbLweToGlweKeyEncryptSk be n k, treeLweToGlweKeyEncryptSk be n k)
  | "glwe_to_lwe_key_encrypt_sk" => some (tbGlweToLweKeyEncryptSk be n k, treeGlweToLweKeyEncryptSk be n k)
  | "glwe_compressed_encrypt_sk" => some (tbGlweEncryptSk be n res.size, treeGlweEncryptSk be n res)
  | "gglwe_compressed_encrypt_sk" => some (tbGgxEncryptSk be n k.size, treeGglweCompressedEncryptSk be n k)
  | "ggsw_compressed_encrypt_sk" => some (tbGgxEncryptSk be n k.size, treeGgswEncryptSk be n k)
  | "glwe_from_lwe" => some (tbGlweFromLwe be n res lwe k, treeGlweFromLwe be n res lwe k)
  | "lwe_from_glwe" => some (tbLweFromGlwe be n lwe a k, treeLweFromGlwe be n lwe a k (g "idx"))
  | "lwe_keyswitch" => some (tbLweKeyswitch be n lwe alwe k, treeLweKeyswitch be n lwe alwe k)
  | "gglwe_keyswitch" => some (tbGlweKeyswitch be n res a k, treeRows (tbGlweKeyswitch be n res a k) (g "rdnum" * g "grin") (treeGlweKeyswitch be n res a k))
  | "gglwe_keyswitch_assign" => some (tbGlweKeyswitch be n res res k, treeRows (tbGlweKeyswitch be n res res k) (g "rdnum" * g "grin") (treeGlweKeyswitch be n res res k))
  | "gglwe_external_product" => some (tbGlweExternalProduct be n res a k, treeRows (tbGlweExternalProduct be n res a k) (g "rdnum" * g "grin") (treeGlweExternalProduct be n res a k))
  | "gglwe_external_product_assign" => some (tbGlweExternalProduct be n res res k, treeRows (tbGlweExternalProduct be n res res k) (g "rdnum" * g "grin") (treeGlweExternalProduct be n res res k))
  | "ggsw_external_product" => some (tbGlweExternalProduct be n res a k, treeRows (tbGlweExternalProduct be n res a k) (min (g "rdnum") (g "adnum")) (treeGlweExternalProduct be n res a k))
  | "ggsw_external_product_assign" => some (tbGlweExternalProduct be n res res k, treeRows (tbGlweExternalProduct be n res res k) (g "rdnum") (treeGlweExternalProduct be n res res k))
  | "ggsw_from_gglwe" => some (tbGgswExpandRows be n res t, .need (tbGgswExpandRows be n res t) (treeGgswExpandRows be n (g "rdnum") res t))
  | "ggsw_expand_row" => some (tbGgswExpandRows be n res t, treeGgswExpandRows be n (g "rdnum") res t)
  | "ggsw_keyswitch" => some (tbGgswKeyswitch be n res a k t, treeGgswKeyswitch be n (g "adnum") res a k t |> fun tr => tr)
  | "ggsw_keyswitch_assign" => some (tbGgswKeyswitch be n res res k t, treeGgswKeyswitch be n (g "rdnum") res res k t)
  | "ggsw_automorphism" => some (tbGgswAutomorphism be n res a k t, treeGgswAutomorphism be n (g "rdnum") res a k t)
  | "ggsw_automorphism_assign" => some (tbGgswAutomorphism be n res res k t, treeGgswAutomorphism be n (g "rdnum") res res k t)
  | "atk_automorphism" => some (tbAtkAutomorphism be n res a k same, treeAtkAutomorphism be n (g "rdnum" * g "krin") res a k same)
  | "atk_automorphism_assign" => some (tbAtkAutomorphism be n res res k true, treeAtkAutomorphismAssign be n (g "rdnum" * g "krin") res k)
  | "ggsw_rotate_assign" => some (tbGlweRotate n, treeRows (tbGlweRotate n) (g "rdnum") (treeGlweRotateAssign n))
  | "glwe_noise" => some (tbGlweNoise be n res.size, treeGlweNoise be n res)
  | "gglwe_noise" => some (tbGglweNoise be n res.size, treeGglweNoise be n res)
  | "ggsw_noise" => some (tbGgswNoise be n res.size, treeGgswNoise be n res (g "col"))
  | "glwe_tensor_decrypt" => some (tbGlweTensorDecrypt be n res, treeGlweTensorDecrypt be n res)
  | "glwe_pack" => some (tbGlwePack be n res k, treeGlwePack be n (g "rounds") (g "gap") res res k)
  | "glwe_packer_add" => some (tbGlwePacker be n res k, treeGlwePackerAdd be n res k)
  | "glwe_tensor_relinearize" => some (tbGlweTensorRelinearize be n a t2, treeGlweTensorRelinearize be n (g "tskuse") a t2)
  | "cswap" => some (tbCswap be n res a k, treeCswap be n res a k)
  | "ckks_rotate" => some (tbCkksRotate be n res k, treeCkksRotate be n res k)
  | "ckks_pt_vec_znx" => some (tbCkksPtVecZnx n, treeCkksPtVecZnx n)
  | "ckks_pt_vec_rnx" => some (tbCkksPtVecRnx n (ceilDiv (g "ptk") res.b2k), .take (vecBytes n 1 (ceilDiv (g "ptk") res.b2k)) (treeCkksPtVecZnx n))
  | "ckks_extract_pt" => some (tbCkksExtractPt n, altList [treeRsh n, treeLsh n])
  | "ckks_encrypt_sk" => some (tbCkksEncryptSk be n res.size, treeCkksEncryptSk be n res)
  | "ckks_decrypt" => some (tbCkksDecrypt be n res.size, treeCkksDecrypt be n res)
  | "glwe_mul_const" => some (tbGlweMulConst be n res a (g "bsize"), treeGlweMulConst be n (g "off") res a (g "bsize"))
  | "glwe_mul_const_assign" => some (tbGlweMulConst be n res res (g "bsize"), treeGlweMulConstAssign be n res (g "bsize"))
  | _ => opOf3 op ts

/-- (tmp_bytes, tree) of a named operation -/
def opOf (op : String) (ts : List String) : Option (Nat × AllocTree) :=
  let be := beOf ts
  let g := kvNat ts
  let n := g "n"
  let res : G := ⟨g "rank", g "size", g "b2k"⟩
  let a : G := ⟨g "arank", g "asize", g "ab2k"⟩
  let k : K := ⟨g "krin", g "krout", g "ksize", g "kb2k", g "dnum", g "dsize"⟩
  match op with
  | "split_mut" => some (parNeed (g "cnt") (g "len"), .par (g "cnt") (g "len") .done .done)
  -- HAL
  | "vec_znx_normalize" => some (normTmp n, treeNormalize n)
  | "vec_znx_normalize_assign" => some (normTmp n, treeNormalize n)
  | "vec_znx_lsh_assign" => some (lshTmp n, treeLsh n)
  | "vec_znx_rsh_assign" => some (rshTmp n, treeRsh n)
  | "vec_znx_lsh" => some (lshTmp n, treeLsh n)
  | "vec_znx_rsh" => some (rshTmp n, treeRsh n)
  | "vec_znx_lsh_add_into" => some (lshTmp n, treeLsh n)
  | "vec_znx_lsh_sub" => some (lshTmp n, treeLsh n)
  | "vec_znx_rsh_add_into" => some (rshTmp n, treeRsh n)
  | "vec_znx_rsh_sub" => some (rshTmp n, treeRsh n)
  | "vec_znx_rotate_assign" => some (oneLimbTmp n, treeOneLimb n)
  | "vec_znx_automorphism_assign" => some (oneLimbTmp n, treeOneLimb n)
  | "vec_znx_mul_xp_minus_one_assign" => some (oneLimbTmp n, treeOneLimb n)
  | "vec_znx_split_ring" => some (oneLimbTmp n, treeOneLimb n)
  | "vec_znx_merge_rings" => some (oneLimbTmp n, treeOneLimb n)
  | "vec_znx_big_normalize" => some (bigNormTmp be n, treeBigNormalize be n)
  | "vec_znx_big_normalize_add_assign" => some (bigNormTmp be n, treeBigNormalize be n)
  | "vec_znx_big_normalize_sub_assign" => some (bigNormTmp be n, treeBigNormalize be n)
  | "vec_znx_big_automorphism_assign" => some (bigAutoTmp be n, treeBigAuto be n)
  | "vec_znx_idft_apply" => some (idftTmp be n, treeIdft be n)
  | "vmp_prepare" => some (vmpPrepTmp be n, treeVmpPrepare be n)
  | "vmp_apply_dft_to_dft" => some (vmpTmp (g "asize") (g "rows") (g "colsin"), treeVmp (g "asize") (g "rows") (g "colsin"))
  | "vmp_apply_dft" => some (vmpApplyDftTmp be n (g "asize") (g "rows") (g "colsin"),
                              treeVmpApplyDft be n (g "asize") (g "rows") (g "colsin"))
  | "cnv_prepare_left" => some (cnvPrepLeftTmp be n (g "size") (g "asize"), leaf (cnvPrepLeftTmp be n (g "size") (g "asize")))
  | "cnv_prepare_right" => some (cnvPrepRightTmp be n (g "size") (g "asize"), leaf (cnvPrepRightTmp be n (g "size") (g "asize")))
  | "cnv_prepare_self" => some (cnvPrepSelfTmp be n (g "size") (g "asize"), leaf (cnvPrepSelfTmp be n (g "size") (g "asize")))
  | "cnv_apply_dft" => some (cnvApplyTmp be (g "size") (g "asize") (g "bsize"), leaf (cnvApplyTmp be (g "size") (g "asize") (g "bsize")))
  | "cnv_by_const_apply" => some (cnvByConstTmp be (g "size") (g "asize") (g "bsize"), leaf (cnvByConstTmp be (g "size") (g "asize") (g "bsize")))
  -- the hal delegate of the pairwise query forwards its first two arguments swapped: the value passed as `cnv_offset` is the result size
  -- (the operation itself takes the buffer for its destination's `size` limbs)
  | "cnv_pairwise_apply_dft" => some (cnvPairwiseQuery be (g "off") (g "size") (g "asize") (g "bsize"), leaf (cnvPairwiseTmp be (g "size") (g "asize") (g "bsize")))
  -- core
  | "lwe_encrypt_sk" => some (tbLwe n (g "size"), treeLweEncryptSk n (g "size"))
  | "lwe_decrypt" => some (tbLwe n (g "size"), treeLweDecrypt n (g "size"))
  | "glwe_encrypt_sk" => some (tbGlweEncryptSk be n res.size, treeGlweEncryptSk be n res)
  | "glwe_encrypt_zero_sk" => some (tbGlweEncryptSk be n res.size, treeGlweEncryptSk be n res)
  | "glwe_encrypt_zero_pk" => some (tbGlweEncryptPk be n res.size, treeGlweEncryptPk be n res (g "pksize"))
  | "glwe_encrypt_pk" => some (tbGlweEncryptPk be n res.size, treeGlweEncryptPk be n res (g "pksize"))
  | "glwe_decrypt" => some (tbGlweDecrypt be n res.size, treeGlweDecrypt be n res)
  | "glwe_normalize" => some (tbGlweNormalize n, treeGlweNormalize n)
  | "glwe_normalize_assign" => some (tbGlweNormalize n, treeGlweNormalize n)
  | "glwe_rsh" => some (tbGlweShift n, treeGlweRsh n)
  | "glwe_lsh" => some (tbGlweShift n, treeGlweLsh n)
  | "glwe_lsh_assign" => some (tbGlweShift n, treeGlweLsh n)
  | "glwe_lsh_add" => some (tbGlweShift n, treeGlweLsh n)
  | "glwe_lsh_sub" => some (tbGlweShift n, treeGlweLsh n)
  | "glwe_rotate_assign" => some (tbGlweRotate n, treeGlweRotateAssign n)
  | "glwe_mul_xp_minus_one_assign" => some (tbGlweRotate n, treeOneLimb n)
  | "glwe_keyswitch" => some (tbGlweKeyswitch be n res a k, treeGlweKeyswitch be n res a k)
  | "glwe_keyswitch_assign" => some (tbGlweKeyswitch be n res res k, treeGlweKeyswitch be n res res k)
  | "glwe_external_product" => some (tbGlweExternalProduct be n res a k, treeGlweExternalProduct be n res a k)
  | "glwe_external_product_assign" => some (tbGlweExternalProduct be n res res k, treeGlweExternalProduct be n res res k)
  | "glwe_automorphism" => some (tbGlweAutomorphism be n res a k, treeGlweAutomorphism be n res a k)
  | "glwe_automorphism_assign" => some (tbGlweAutomorphism be n res res k, treeGlweAutomorphism be n res res k)
  | "glwe_automorphism_sub" => some (tbGlweAutomorphism be n res a k, treeGlweAutomorphismAdd be n res a k)
  | "glwe_automorphism_sub_negate" => some (tbGlweAutomorphism be n res a k, treeGlweAutomorphismAdd be n res a k)
  | "glwe_automorphism_sub_assign" => some (tbGlweAutomorphism be n res res k, treeGlweAutomorphismAdd be n res res k)
  | "glwe_automorphism_sub_negate_assign" => some (tbGlweAutomorphism be n res res k, treeGlweAutomorphismAdd be n res res k)
  | "glwe_automorphism_add" => some (tbGlweAutomorphism be n res a k, treeGlweAutomorphismAdd be n res a k)
  | "glwe_automorphism_add_assign" => some (tbGlweAutomorphism be n res res k, treeGlweAutomorphismAdd be n res res k)
  | "glwe_trace" => some (tbGlweTrace be n res a k, treeGlweTrace be n (g "iters") res a k)
  | "glwe_trace_assign" => some (tbGlweTrace be n res res k, treeGlweTraceAssign be n (g "iters") res k)
  | "gglwe_encrypt_sk" => some (tbGgxEncryptSk be n k.size, treeGglweEncryptSk be n k)
  | "ggsw_encrypt_sk" => some (tbGgxEncryptSk be n k.size, treeGgswEncryptSk be n k)
  | "cmux" => some (tbCmux be n res k, treeCmux be n res k)
  | "execute_bdd" => some (g "threads" * tbExecBdd be n (g "state") res k, treeExecBdd be n (g "threads") (g "state") res k)
  | "ckks_shift_norm" => some (tbCkksShiftNorm n, treeCkksShiftNorm n)
  | "ckks_shift" => some (tbCkksShift n, treeCkksShift n)
  | _ => opOf2 op ts

def showEvs (base : Nat) (evs : List Ev) : String :=
  if evs.isEmpty then "-"
  else ",".intercalate (evs.map (fun (e : Ev) => s!"{e.1 - base}:{e.2.1}:{e.2.2}"))

def b01 (b : Bool) : String := if b then "1" else "0"

def handle (ts : List String) : String :=
  match ts with
  | [] => "bad-op"
  | op :: rest =>
    match opOf op rest with
    | none => "bad-op"
    | some (tb, t) =>
      let mis := kvNat rest "mis" % 64
      let addr := 4096 + mis
      let len := match kv rest "win" with
        | some w => nat! w
        | none => alignOff addr + tb
      let a : Arena := ⟨addr, len⟩
      let hdr := s!"tb={tb} req={req t} reqa={reqA t} al={b01 (aligned t)} fits={b01 (fits t)}"
      match run t a with
      | .ok evs => s!"{hdr} run=ok peak={peakEnd evs - addr} ev={showEvs addr evs}"
      | .failTake => s!"{hdr} run=take peak=0 ev=-"
      | .failNeed => s!"{hdr} run=need peak=0 ev=-"

end Drv.Scratch
