import Poulpy.Driver.Util
import Poulpy.Driver.Ser
import Poulpy.Model.Layout
/-
Driver of the layout state machine.  Command word `layout`.
  id layout hist ctor=alloc:n,cols,size | frombytes:n,cols,size,len  steps=ss:K;rl:K;vw;rd:<hex>;…
     → id <state>|<state>|…   state = n,cols,size,max_size,len,maxEnd  or  panic:<class> (terminal)
  id layout mat p=n,rows,cols_in,cols_out,size → id len,maxEnd
`maxEnd` = largest end offset over every `at(i,j)` range and the `raw()` range of the model.
-/
namespace Drv.Layout
open _root_.Layout _root_.Ser

def maxEnd (l : Lay) : Nat :=
  let ends := (List.range l.cols).flatMap (fun i => (List.range l.size).map (fun j =>
    match atRange l i j with
    | .ok (_, b) => b
    | _ => 0))
  ends.foldl Nat.max (rawRange l).2

def showLay (l : Lay) : String := s!"{l.n},{l.cols},{l.size},{l.maxSize},{l.len},{maxEnd l}"

def parseStep (s : String) : Option Step :=
  match s.splitOn ":" with
  | ["ss", k] => some (.setSize (nat! k))
  | ["rl", k] => some (.reallocateLimbs (nat! k))
  | ["vw"] => some .view
  | ["rd", h] => some (.readFrom (Drv.Ser.parseHex h))
  | _ => none

def go (l : Lay) : List Step → List String
  | [] => []
  | s :: rest =>
    match step l s with
    | .ok l' => showLay l' :: go l' rest
    | .err k => ["err:" ++ k]
    | .panic c => ["panic:" ++ c]

def handle (ts : List String) : String :=
  match ts with
  | "hist" :: rest =>
    let ctor := (kv rest "ctor").getD ""
    let steps := (kv rest "steps").getD "-"
    let stepL := if steps == "-" then [] else (steps.splitOn ";").filterMap parseStep
    let start : Outcome Lay := match ctor.splitOn ":" with
      | ["alloc", p] => match nats p with
        | [n, c, s] => .ok (alloc n c s 8)
        | _ => .err "bad"
      | ["frombytes", p] => match nats p with
        | [n, c, s, len] => fromBytes n c s 8 len
        | _ => .err "bad"
      | _ => .err "bad"
    match start with
    | .ok l => "|".intercalate (showLay l :: go l stepL)
    | .err k => "err:" ++ k
    | .panic c => "panic:" ++ c
  | "mat" :: rest =>
    match kvNats rest "p" with
    | [n, rows, ci, co, size] =>
      let len := pad64 (rows * ci * (n * co * size * 8))
      let m : MatZnx := ⟨n, size, rows, ci, co, List.replicate len 0⟩
      let ends := (List.range rows).flatMap (fun r => (List.range ci).map (fun c =>
        match matAtRange m r c with
        | .ok (_, b) => b
        | _ => 0))
      s!"{len},{ends.foldl Nat.max 0}"
    | _ => "bad-op"
  | "prep" :: rest =>
    -- id layout prep be=fft64|ntt120 kind=big|dft|svp|cnvl|cnvr|vmp p=…  → w,len,maxEnd
    let be : Be := if (kv rest "be") == some "ntt120" then .ntt120 else .fft64
    let kind := (kv rest "kind").getD ""
    let p := kvNats rest "p"
    let g := fun (k : Nat) => p.getD k 1
    let showL := fun (l : Lay) => s!"{l.w},{l.len},{maxEnd l}"
    match kind with
    | "big" => showL (allocPrep (g 0) (g 1) (g 2) (wBig be))
    | "dft" | "cnvl" | "cnvr" => showL (allocPrep (g 0) (g 1) (g 2) (wPrep be))
    | "svp" => showL (allocSvp (g 0) (g 1) (wPrep be))
    | "vmp" =>
      let m := allocVmp (g 0) (g 1) (g 2) (g 3) (g 4) (wPrep be)
      let outs := (List.range m.colsIn).flatMap (fun i => (List.range m.size).map (fun j => vmpAtRange m i j))
      if outs.any (fun o => match o with | .ok _ => false | _ => true) then "panic:assert" else
      let ends := outs.map (fun o => match o with | .ok (_, b) => b | _ => 0)
      s!"{m.w},{m.len},{ends.foldl Nat.max (vmpRawRange m).2}"
    | _ => "bad-op"
  | "consume" :: rest =>
    -- id layout consume be=… p=n,cols,size → same=1 w,len,maxEnd   (same=1 iff the model's trace has no clobber)
    let be : Be := if (kv rest "be") == some "ntt120" then .ntt120 else .fft64
    match kvNats rest "p" with
    | [n, c, sz] =>
      let l := intoBig (allocPrep n c sz (wPrep be)) be
      let okc := !(traceClobbers (compactTrace n (c * sz)))
      s!"same={if okc then 1 else 0} {l.w},{l.len},{maxEnd l}"
    | _ => "bad-op"
  | _ => "bad-op"

end Drv.Layout
