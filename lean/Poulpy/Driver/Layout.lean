import Poulpy.Driver.Util
import Poulpy.Driver.Ser
import Poulpy.Model.Layout
import Poulpy.Model.Kernels
/-
Driver of the layout state machine.  Command word `layout`.
  id layout hist ctor=alloc:n,cols,size | frombytes:n,cols,size,len  steps=ss:K;rl:K;vw;rd:<hex>;…
     → id <state>|<state>|…   state = n,cols,size,max_size,len,maxEnd  or  panic:<class> (terminal)
  id layout mat p=n,rows,cols_in,cols_out,size → id len,maxEnd
`maxEnd` = largest end offset over every `at(i,j)` range and the `raw()` range of the model.
-/
namespace Drv.Layout
open _root_.Layout _root_.Ser

def maxEnd (l : Lay) : Nat :=
  let ends := (List.range l.cols).flatMap (fun i => (List.range l.size).map (fun j =>
    match atRange l i j with
    | .ok (_, b) => b
    | _ => 0))
  ends.foldl Nat.max (rawRange l).2

def showLay (l : Lay) : String := s!"{l.n},{l.cols},{l.size},{l.maxSize},{l.len},{maxEnd l}"

def parseStep (s : String) : Option Step :=
  match s.splitOn ":" with
  | ["ss", k] => some (.setSize (nat! k))
  | ["rl", k] => some (.reallocateLimbs (nat! k))
  | ["vw"] => some .view
  | ["rd", h] => some (.readFrom (Drv.Ser.parseHex h))
  | _ => none

def go (l : Lay) : List Step → List String
  | [] => []
  | s :: rest =>
    match step l s with
    | .ok l' => showLay l' :: go l' rest
    | .err k => ["err:" ++ k]
    | .panic c => ["panic:" ++ c]

/-- sorted index list → `a-b,c-d` half-open ranges -/
def showRanges (l : List Nat) : String :=
  let step := fun (acc : List (Nat × Nat)) (i : Nat) =>
    match acc with
    | (a, b) :: rest => if i == b then (a, b + 1) :: rest else (i, i + 1) :: (a, b) :: rest
    | [] => [(i, i + 1)]
  let rs := (l.foldl step []).reverse
  if rs.isEmpty then "-" else ",".intercalate (rs.map (fun (a, b) => s!"{a}-{b}"))

def handle (ts : List String) : String :=
  match ts with
  | "hist" :: rest =>
    let ctor := (kv rest "ctor").getD ""
    let steps := (kv rest "steps").getD "-"
    let stepL := if steps == "-" then [] else (steps.splitOn ";").filterMap parseStep
    let start : Outcome Lay := match ctor.splitOn ":" with
      | ["alloc", p] => match nats p with
        | [n, c, s] => .ok (alloc n c s 8)
        | _ => .err "bad"
      | ["frombytes", p] => match nats p with
        | [n, c, s, len] => fromBytes n c s 8 len
        | _ => .err "bad"
      | _ => .err "bad"
    match start with
    | .ok l => "|".intercalate (showLay l :: go l stepL)
    | .err k => "err:" ++ k
    | .panic c => "panic:" ++ c
  | "mat" :: rest =>
    match kvNats rest "p" with
    | [n, rows, ci, co, size] =>
      let len := pad64 (rows * ci * (n * co * size * 8))
      let m : MatZnx := ⟨n, size, rows, ci, co, List.replicate len 0⟩
      let ends := (List.range rows).flatMap (fun r => (List.range ci).map (fun c =>
        match matAtRange m r c with
        | .ok (_, b) => b
        | _ => 0))
      s!"{len},{ends.foldl Nat.max 0}"
    | _ => "bad-op"
  | "prep" :: rest =>
    -- id layout prep be=fft64|ntt120 kind=big|dft|svp|cnvl|cnvr|vmp p=…  → w,len,maxEnd
    let be : Be := if (kv rest "be") == some "ntt120" then .ntt120 else .fft64
    let kind := (kv rest "kind").getD ""
    let p := kvNats rest "p"
    let g := fun (k : Nat) => p.getD k 1
    let showL := fun (l : Lay) => s!"{l.w},{l.len},{maxEnd l}"
    match kind with
    | "big" => showL (allocPrep (g 0) (g 1) (g 2) (wBig be))
    | "dft" | "cnvl" | "cnvr" => showL (allocPrep (g 0) (g 1) (g 2) (wPrep be))
    | "svp" => showL (allocSvp (g 0) (g 1) (wPrep be))
    | "vmp" =>
      let m := allocVmp (g 0) (g 1) (g 2) (g 3) (g 4) (wPrep be)
      let outs := (List.range m.colsIn).flatMap (fun i => (List.range m.size).map (fun j => vmpAtRange m i j))
      if outs.any (fun o => match o with | .ok _ => false | _ => true) then "panic:assert" else
      let ends := outs.map (fun o => match o with | .ok (_, b) => b | _ => 0)
      s!"{m.w},{m.len},{ends.foldl Nat.max (vmpRawRange m).2}"
    | _ => "bad-op"
  | "consume" :: rest =>
    -- id layout consume be=… p=n,cols,size → same=1 w,len,maxEnd   (same=1 iff the model's trace has no clobber)
    let be : Be := if (kv rest "be") == some "ntt120" then .ntt120 else .fft64
    match kvNats rest "p" with
    | [n, c, sz] =>
      let l := intoBig (allocPrep n c sz (wPrep be)) be
      let okc := !(traceClobbers (compactTrace n (c * sz)))
      s!"same={if okc then 1 else 0} {l.w},{l.len},{maxEnd l}"
    | _ => "bad-op"
  | "kern" :: rest =>
    -- id layout kern op=cnvconst|cnvapply|vmpapply p=…  → W=<written element ranges of the result> inb=<0|1> chk=<ok|panic>
    let p := kvNats rest "p"
    let g := fun (k : Nat) => p.getD k 0
    let n := g 0
    let fmt := fun (foot : List Kern.Acc) (len : Nat → Nat) (chk : String) =>
      let idx := (Kern.writeIdx 0 foot).filter (fun i => i < len 0)
      let sorted := (List.range (len 0)).filter (fun i => idx.contains i)
      s!"W={showRanges sorted} inb={if decide (Kern.InBounds len foot) then 1 else 0} chk={chk}"
    match (kv rest "op").getD "" with
    | "cnvconst" =>
      let (rc, rs, rcol, ac, asz, acol, bs, off) := (g 1, g 2, g 3, g 4, g 5, g 6, g 7, g 8)
      let len : Nat → Nat := fun b => match b with | 0 => n * rc * rs | 1 => n * ac * asz | 2 => bs | _ => 8 * (min rs (asz + bs - 1) + asz)
      let chk := match Kern.cnvByConstChecked n rs rc rcol asz ac acol bs off with | .ok _ => "ok" | _ => "panic"
      fmt (Kern.cnvByConst n rs rc rcol asz ac acol bs off) len chk
    | "cnvapply" =>
      let (rc, rs, rcol, ac, asz, acol, bc, bsz, bcol, off) := (g 1, g 2, g 3, g 4, g 5, g 6, g 7, g 8, g 9, g 10)
      let m := n / 2
      let len : Nat → Nat := fun b => match b with | 0 => n * rc * rs | 1 => n * ac * asz | 2 => n * bc * bsz | _ => 8 * min rs (asz + bsz - 1)
      let chk := match Kern.cnvApplyChecked m rs rc rcol asz ac acol bsz bc bcol off with | .ok _ => "ok" | _ => "panic"
      fmt (Kern.cnvApply m rs rc rcol asz acol bsz bcol off) len chk
    | "vmpapply" =>
      let (rows, ci, co, sz, asz, rsz, lo) := (g 1, g 2, g 3, g 4, g 5, g 6, g 7)
      let m := n / 2
      let nrows := ci * rows
      let ncols := co * sz
      let len : Nat → Nat := fun b => match b with | 0 => n * (co * rsz) | 1 => n * (ci * asz) | 2 => n * nrows * ncols | _ => 16 + 8 * (min asz rows * ci)
      fmt (Kern.vmpApply m (co * rsz) (ci * asz) nrows ncols (lo * co)) len "ok"
    | _ => "bad-op"
  | _ => "bad-op"

end Drv.Layout
