import Poulpy.Driver.Util
import Poulpy.Model.Ntt120
import Poulpy.Model.Ntt120Hal

/-!
Model driver for `ntt120` — same request format as `pvh ntt120` (harness/src/cmd_ntt120.rs):
`id ntt120 <sub-op> k=v …` → `id <result>`; integers decimal, `,` inside an element, `|` between
elements, `panic:<class>` for the panics the model knows about.  `be=ref|avx` requests (the `Ntt*`
trait implementations, fixed to Primes30) are answered by the same model functions as `p=30`,
except the lazy add / sub / negate family, where `be=avx` runs the AVX2 kernels' single conditional
subtraction (`lazyReduceAvx`) instead of `% q_s`.
-/

namespace Drv.Ntt120
open _root_.Ntt120

def primeSet (ts : List String) : PrimeSet :=
  if (kv ts "be").isSome then primes30
  else match kv ts "p" with
    | some "29" => primes29
    | some "31" => primes31
    | _ => primes30

def chunk (k : Nat) (l : List Nat) : List (List Nat) :=
  if k = 0 then [] else (List.range (l.length / k)).map (fun i => (l.drop (k * i)).take k)

def showChunks (l : List (List Nat)) : String :=
  if l.isEmpty then "-" else "|".intercalate (l.map showNats)

def showOut {α} (f : α → String) : Outcome α → String
  | .ok v => f v
  | .err k => "err:" ++ k
  | .panic c => "panic:" ++ c

def showIntList (l : List (Outcome Int)) : String :=
  match l.find? (fun o => match o with | .ok _ => false | _ => true) with
  | some o => showOut (fun _ => "") o
  | none => showInts (l.map (fun o => match o with | .ok v => v | _ => 0))

def consts (P : PrimeSet) : String :=
  let bbc := bbcMeta P
  let bbb := bbbMeta P
  let baa := baaMeta P
  let r := fillReductionMeta P 64
  let s := s!"q={showNats P.qs} omega={showNats P.omega} crt={showNats P.crt} logq={P.logQ} " ++
    s!"bbc={bbc.h}:{showNats bbc.s2l}:{showNats bbc.s2h} " ++
    s!"bbb={bbb.h}:{bbb.s1h}:{showNats bbb.s2l}:{showNats bbb.s2h}:{showNats bbb.s3l}:{showNats bbb.s3h}:{showNats bbb.s4l}:{showNats bbb.s4h} " ++
    s!"baa={baa.h}:{showNats baa.hPowRed} red={r.h}:{r.mask}:{showNats r.cst}"
  if P.logQ = 30 then s ++ s!" qshift={showNats (P.qs.map qShifted)}" else s

/-- the whole `NttTable` / `NttTableInv` of size `n` in the harness's `tab` format: bit sizes, per-level
metadata (`bs:half_bs:mask:reduce:q2bs[0..4]`) and the flat `powomega` array (entry-major, prime-minor) -/
def showTable (P : PrimeSet) (inverse : Bool) (n : Nat) : String :=
  let tab := fun k => if inverse then inttTableK P k n else nttTableK P k n
  match tab 0, tab 1, tab 2, tab 3 with
  | .ok t0, .ok t1, .ok t2, .ok t3 =>
    let lv := (List.range t0.levels.length).map (fun j =>
      let g := fun (t : TableK) => (t.levels.getD j ({ q2bs := 0, bs := 0, halfBs := 0, mask := 0, reduce := false }, []))
      let m := (g t0).1
      s!"{m.bs}:{m.halfBs}:{m.mask}:{if m.reduce then 1 else 0}:{showNats [(g t0).1.q2bs, (g t1).1.q2bs, (g t2).1.q2bs, (g t3).1.q2bs]}")
    let po := (List.range t0.levels.length).flatMap (fun j =>
      let g := fun (t : TableK) => ((t.levels.getD j ({ q2bs := 0, bs := 0, halfBs := 0, mask := 0, reduce := false }, [])).2).toArray
      let a0 := g t0; let a1 := g t1; let a2 := g t2; let a3 := g t3
      interleave4 a0 a1 a2 a3 a0.size)
    -- `n = 1`: the constructors return before `powomega.truncate`, leaving the 8 zero words of the allocation
    let po := if t0.levels.isEmpty then List.replicate 8 0 else po
    s!"64/{t0.outBs} {if lv.isEmpty then "-" else "|".intercalate lv} {showNats po}"
  | .panic c, _, _, _ => "panic:" ++ c
  | _, _, _, _ => "panic:assert"

/-! ### HAL level: the raw q120b words the back end stores in a DFT-domain buffer (`pvh hal … ; raw D`) -/

/-- the stored words of one limb from its four prime lanes: word `4·i + k` = lane `k`, slot `i` -/
def limbWords (n : Nat) (lane : Nat → List Nat) : List Nat :=
  interleave4 (lane 0).toArray (lane 1).toArray (lane 2).toArray (lane 3).toArray n

def showLimbs (n : Nat) (cnt : Nat) (lanes : Nat → List (List Nat)) : String :=
  showChunks ((List.range cnt).map (fun l => limbWords n (fun k => (lanes k).getD l [])))

def polys (n : Nat) (l : List Int) : List Poly :=
  if n = 0 then [] else (List.range (l.length / n)).map (fun i => (l.drop (n * i)).take n)

/-- `e=` of `hexpr`: prefix notation, tokens separated by `,`, polynomial coefficients by `:` -/
partial def parseExpr (n : Nat) : List String → Option (DExpr × List String)
  | "zero" :: r => some (.zero, r)
  | "dft" :: p :: r => some (.dft ((p.splitOn ":").map (fun s => s.toInt?.getD 0)), r)
  | "svp" :: p :: r => (parseExpr n r).map (fun (e, r') => (.svp ((p.splitOn ":").map (fun s => s.toInt?.getD 0)) e, r'))
  | "add" :: r => (parseExpr n r).bind (fun (x, r1) => (parseExpr n r1).map (fun (y, r2) => (.add x y, r2)))
  | "sub" :: r => (parseExpr n r).bind (fun (x, r1) => (parseExpr n r1).map (fun (y, r2) => (.sub x y, r2)))
  | "neg" :: r => (parseExpr n r).map (fun (x, r1) => (.neg x, r1))
  | _ => none

def handleHal (P : PrimeSet) (op : String) (args : List String) (avx : Bool) : String :=
  let n := kvNat args "n"
  let q := fun k => P.qs.getD k 1
  let xi := kvInts args "x"
  let yi := kvInts args "y"
  match op with
  | "hdft" =>
    let rs := kvNat args "rs"
    showLimbs n rs (fun k => dftApplyLaneK (q k) n (realNtt P n k) (kvNat args "step") (kvNat args "off") rs (polys n xi))
  | "hcnv" =>
    let rs := kvNat args "rs"
    showLimbs n rs (fun k => cnvApplyLaneK (q k) (bbcH P) n rs (kvNat args "off")
      (cnvPrepareLaneK (q k) n (realNtt P n k) (kvNat args "la") (kvInt args "ma") (polys n xi))
      (cnvPrepareRightLaneK (q k) n (realNtt P n k) (kvNat args "lb") (kvInt args "mb") (polys n yi)))
  | "hcnvp" =>
    let rs := kvNat args "rs"
    let la := kvNat args "la"; let lb := kvNat args "lb"; let ma := kvInt args "ma"; let mb := kvInt args "mb"
    showLimbs n rs (fun k => cnvPairwiseLaneK (q k) (bbcH P) n rs (kvNat args "off")
      (cnvPrepareLaneK (q k) n (realNtt P n k) la ma (polys n xi))
      (cnvPrepareLaneK (q k) n (realNtt P n k) la ma (polys n (kvInts args "x2")))
      (cnvPrepareRightLaneK (q k) n (realNtt P n k) lb mb (polys n yi))
      (cnvPrepareRightLaneK (q k) n (realNtt P n k) lb mb (polys n (kvInts args "y2"))))
  | "hvmp" =>
    -- `x` = the flat input limbs (limb-major), `y` = the matrix entries, row-major over `nrows × ncols` flat (limb-major) columns
    let nrows := kvNat args "nrows"; let ncols := kvNat args "ncols"; let rl := kvNat args "rl"
    let ent := (polys n yi).toArray
    showLimbs n rl (fun k => vmpApplyLaneK (q k) (bbcH P) n
      ((polys n xi).map (fun a => realNtt P n k (a.map (fun x => bFromU64K (q k) (asU64 x)))))
      (fun i c => vmpPrepareLaneK (q k) (realNtt P n k) (ent.getD (i * ncols + c) []))
      nrows ncols (kvNat args "off") rl)
  | "hplan" =>
    let w := vmpWrites (kvNat args "lo") (kvNat args "cm") (kvNat args "ncols")
    if w.isEmpty then "-" else "|".intercalate (w.map (fun v => s!"{v.colRes},{if v.twoCols then 2 else 1},{v.colPmat},{v.half}"))
  | "hslot" => toString (vmpSlotAddr (kvNat args "nrows") (kvNat args "ncols") (kvNat args "row") (kvNat args "col") (kvNat args "blk"))
  | "hexpr" =>
    match parseExpr n (((kv args "e").getD "").splitOn ",") with
    | some (e, _) => showNats (limbWords n (fun k => e.lane P k n avx)) ++ " spec=" ++ showInts (e.spec n)
    | none => "bad-expr"
  | _ => "bad-op"

def handle (ts : List String) : String :=
  match ts with
  | [] => "bad-op"
  | op :: args =>
    let P := primeSet args
    let x := kvNats args "x"
    let y := kvNats args "y"
    let xa := x.toArray
    let ya := y.toArray
    let avx := kv args "be" == some "avx"
    let xi := kvInts args "x"
    let ell := kvNat args "ell"
    match op with
    | "packl" => showOut showNats (packLeft1BlkX2 P xa (kvNat args "rows") (kvNat args "stride") (kvNat args "blk"))
    | "packr" => showOut showNats (packRight1BlkX2 xa (kvNat args "rows") (kvNat args "stride") (kvNat args "blk"))
    | "ppackl" => showOut showNats (pairwisePackLeft1BlkX2 P xa ya (kvNat args "rows") (kvNat args "stride") (kvNat args "blk"))
    | "ppackr" => showOut showNats (pairwisePackRight1BlkX2 xa ya (kvNat args "rows") (kvNat args "stride") (kvNat args "blk"))
    | "consts" => consts P
    | "ntt" => showOut showNats (transform P false (kvNat args "n") xa)
    | "intt" => showOut showNats (transform P true (kvNat args "n") xa)
    | "tab" => "fwd=" ++ showTable P false (kvNat args "n") ++ " inv=" ++ showTable P true (kvNat args "n")
    | "bfrom" => showChunks (xi.map (bFromZnx64 P))
    | "bfromm" => showChunks (xi.map (fun v => bFromZnx64Masked P v (kvInt args "mask")))
    | "cfrom" => showChunks (xi.map (cFromZnx64 P))
    | "cfromb" =>
      let r := (chunk 4 x).map (cFromB P)
      match r.find? (fun o => match o with | .ok _ => false | _ => true) with
      | some o => showOut (fun _ => "") o
      | none => showChunks (r.map (fun o => match o with | .ok v => v | _ => []))
    | "bto" => showIntList ((chunk 4 x).map (bToZnx128 P))
    | "consume" => showIntList ((chunk 4 x).map (compactCrt P))
    | "bbc" => showOut showNats (vecMat1ColProductBbc (bbcMeta P) ell xa ya)
    | "bbcx2" => showOut showNats (vecMat1ColProductX2Bbc (bbcMeta P) ell xa ya)
    | "bbc2c" => showOut showNats (vecMat2ColsProductX2Bbc (bbcMeta P) ell xa ya)
    | "bbb" => showOut showNats (vecMat1ColProductBbb (bbbMeta P) ell xa ya)
    | "baa" => showOut showNats (vecMat1ColProductBaa (baaMeta P) ell xa ya)
    | "add" | "addas" => if y.length < x.length then "panic:bounds" else showNats (zipK P (if avx then addBbbAvxK else addBbbK) x y)
    | "sub" | "subas" => if y.length < x.length then "panic:bounds" else showNats (zipK P (if avx then subBbbAvxK else subBbbK) x y)
    | "subneg" => if y.length < x.length then "panic:bounds" else showNats (zipK P (fun q a b => (if avx then subBbbAvxK else subBbbK) q b a) x y)
    | "neg" | "negas" => showNats (mapK P (if avx then negBAvxK else negBK) x)
    | "addccc" => if y.length < x.length then "panic:bounds" else showNats (zipKc P addCccK x y)
    | "spm" => toString (splitPrecompmul (kvNat args "inp") (kvNat args "po") (kvNat args "h") (kvNat args "mask"))
    | "red" => toString (modqRed (kvNat args "x") (kvNat args "h") (kvNat args "mask") (kvNat args "cst"))
    | "pow" => toString (modqPow (kvNat args "x") (kvInt args "n") (kvNat args "q"))
    | "pipe" => showInts ((kvInts args "b").map (fun b => scalarPipeline P (bbcH P) b (kvInt args "a")))
    | _ => handleHal P op args avx

end Drv.Ntt120
