/-
Driver for the normalisation / shift / encoding model (command word `norm`).

Request line:  `id norm <op> key=value …`
  columns  : limbs separated by `|`, coefficients by `,`        e.g. `a=1,-2|3,4`  (2 limbs, n = 2)
  containers (encode/decode): columns separated by `;`
Answer line:   `id <column | container | list>`  in the same syntax,
               `id panic:<class>` for a modelled Rust panic, `id err:fuel` if a model loop ran out of fuel.

ops: normalize normalize_assign lsh lsh_add lsh_sub lsh_assign rsh rsh_add rsh_sub rsh_assign
     big_normalize big_normalize_add big_normalize_sub big_normalize_negate   (be=fft64* → i64 path, be=ntt120* → i128 path)
     enc_i64 enc_i128 enc_coeff_i64 dec_i64 dec_i128 dec_coeff_i64 dec_float
-/
import Poulpy.Driver.Util
import Poulpy.Model.Encoding

namespace Drv.Norm
open Drv

def parseCol (s : String) : Col :=
  if s == "-" || s.isEmpty then [] else (s.splitOn "|").map ints

def showCol (c : Col) : String :=
  if c.isEmpty then "-" else "|".intercalate (c.map showInts)

def parseCont (s : String) : List Col := (s.splitOn ";").map parseCol
def showCont (v : List Col) : String := ";".intercalate (v.map showCol)

def kvCol (ts : List String) (k : String) : Col := ((kv ts k).map parseCol).getD []

def showOpt (o : Option Col) : String :=
  match o with
  | some c => showCol c
  | none => "err:fuel"

def showOutcome {α : Type} (f : α → String) (o : Outcome α) : String :=
  match o with
  | .ok v => f v
  | .err e => "err:" ++ e
  | .panic p => "panic:" ++ p

def is128 (ts : List String) : Bool := ((kv ts "be").getD "").startsWith "ntt120"

def handle (ts : List String) : String :=
  match ts with
  | [] => "bad-op"
  | op :: ts =>
    let n := kvNat ts "n"
    let b := kvNat ts "b"
    let k := kvNat ts "k"
    let rb := kvNat ts "rb"
    let ab := kvNat ts "ab"
    let rs := kvNat ts "rs"
    let off := kvInt ts "off"
    let a := kvCol ts "a"
    let res := kvCol ts "res"
    let col := kvNat ts "col"
    let idx := kvNat ts "idx"
    match op with
    | "normalize" => showOpt (normalizeCol? rb rs off a ab n)
    | "normalize_assign" => showCol (normalizeAssignCol b a n)
    | "lsh" => showCol (lshCol b k res a n)
    | "lsh_add" => showCol (lshAddCol b k res a n)
    | "lsh_sub" => showCol (lshSubCol b k res a n)
    | "lsh_assign" => showCol (lshAssignCol b k a n)
    | "rsh" => showCol (rshCol b k res a n)
    | "rsh_add" => showCol (rshAddCol b k res a n)
    | "rsh_sub" => showCol (rshSubCol b k res a n)
    | "rsh_assign" =>
      match rshAssignCol? b k (kvInt ts "scr") a n with
      | some c => showCol c
      | none => "panic:assert"
    | "big_normalize" =>
      showOpt ((if is128 ts then bigNormalizeCol128? else bigNormalizeCol64?) rb rs off a ab n)
    | "big_normalize_add" =>
      showOpt ((if is128 ts then bigNormalizeFusedCol128? else bigNormalizeFusedCol64?) false rb off res a ab n)
    | "big_normalize_sub" =>
      showOpt ((if is128 ts then bigNormalizeFusedCol128? else bigNormalizeFusedCol64?) true rb off res a ab n)
    | "big_normalize_negate" => showOpt (bigNormalizeNegateCol? (is128 ts) rb rs off a ab n)
    | "enc_i64" =>
      showOutcome showCont (encodeVecI64 (parseCont ((kv ts "v").getD "")) n b col k (kvInts ts "data"))
    | "enc_i128" =>
      showOutcome showCont (encodeVecI128 (parseCont ((kv ts "v").getD "")) n b col k (kvInts ts "data"))
    | "enc_coeff_i64" =>
      showOutcome showCont (encodeCoeffI64 (parseCont ((kv ts "v").getD "")) n b col k idx (kvInt ts "x"))
    | "dec_i64" => showOutcome showInts (decodeVec 64 (parseCont ((kv ts "v").getD "")) n b col k)
    | "dec_i128" => showOutcome showInts (decodeVec 128 (parseCont ((kv ts "v").getD "")) n b col k)
    | "dec_coeff_i64" => showOutcome toString (decodeCoeffI64 (parseCont ((kv ts "v").getD "")) n b col k idx)
    | "dec_float" =>
      let c := getCol (parseCont ((kv ts "v").getD "")) col
      ",".intercalate ((List.range n).map (fun i =>
        let p := decodeFloatCoef b (coefAt c i); toString p.1 ++ ":" ++ toString p.2))
    | _ => "bad-op"

end Drv.Norm
