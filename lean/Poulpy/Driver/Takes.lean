import Poulpy.Driver.Util
import Poulpy.Model.Scratch

/-!
Model side of `pvh takes`: `id takes mis=<m> len=<L> seq=l1,l2,…` → per take `off:len:rem`
(offset of the taken slice from the window start, its length, the remainder's length) computed by
`Scratch.take`; ` panic` appended when a take fails.
-/
namespace Drv.Takes
open Scratch

def handle (ts : List String) : String :=
  let mis := kvNat ts "mis"
  let len := kvNat ts "len"
  let seq := kvNats ts "seq"
  -- window start = a 64-aligned address + mis (the absolute base is irrelevant modulo 64)
  let base := 4096 + mis
  let rec go (a : Arena) (ls : List Nat) (acc : List String) : List String × Bool :=
    match ls with
    | [] => (acc, true)
    | l :: rest =>
      match take a l with
      | some (p, a') => go a' rest (acc ++ [s!"{p - base}:{l}:{a'.len}"])
      | none => (acc, false)
  let (outs, ok) := go ⟨base, len⟩ seq []
  let s := " ".intercalate outs
  (if s.isEmpty then "-" else s) ++ (if ok then "" else " panic")

end Drv.Takes
