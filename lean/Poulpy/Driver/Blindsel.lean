import Poulpy.Driver.Util
import Poulpy.Model.BlindSel
import Poulpy.Model.Lut
/-
Driver of the blind selection / retrieval model (C15).  Request `id blindsel <sub-op> k=v …`:
  `retr bits= rsh= idxword= data=<w,…>`   → `ok fwd=<w,…> rev=<w,…>` (statefull forward pass, then the reverse pass on its result)
  `retr1 size= rsh= idxword= data=<w,…>`  → `ok <w>` | `panic:<class>` (GLWEBlindRetriever::alloc(size) + retrieve, offset = rsh)
  `sel bits= rsh= idxword= keys=<k,…> vals=<w,…>` → `ok <w>` (glwe_blind_selection on the sparse table keys ↦ vals)
  `hist size= rsh= idxword= streams=<w,…|w,…|-|…> modes=<0|1,…>` → `ok <v1>,<v2>,…` | `panic:<class>`: one retriever
      (`alloc(size)`), the listed streams in order (mode 1 = through `retrieve`, 0 = `add`… `flush`), the element
      returned by each
  `brot sign= rsh= mask= lsh= idxword= pt=<coefficients>` → `ok <coefficients>`: `glwe_blind_rotation_assign` on the
      plaintext polynomial (negacyclic `glwe_rotate`, scratch buffer filled with garbage)
Plaintext contracts: `cswap` swaps iff the bit is 1; `cmux_assign(lo, hi, s)` = `lo` if `s` else `hi`;
`cmux_assign_neg(res, a, s)` = `a` if `s` else `res`.
-/
namespace Drv.Blindsel
open _root_.BlindSel

def cs (b : Bool) (x y : Nat) : Nat × Nat := if b then (y, x) else (x, y)
def cm (b : Bool) (t f : Nat) : Nat := if b then t else f
def cmn (b : Bool) (res a : Nat) : Nat := if b then a else res

def handle (ts : List String) : String :=
  match ts with
  | "retr" :: kv =>
    let data := kvNats kv "data"
    let f := retrievalStatefull cs (kvNat kv "idxword") (kvNat kv "rsh") (kvNat kv "bits") data
    let r := retrievalStatefullRev cs (kvNat kv "idxword") (kvNat kv "rsh") (kvNat kv "bits") f
    s!"ok fwd={showNats f} rev={showNats r}"
  | "retr1" :: kv =>
    match retrieve cmn 0 0 (kvNat kv "size") (kvNat kv "idxword") (kvNat kv "rsh") (kvNats kv "data") with
    | .ok w => s!"ok {w}"
    | .panic c => s!"panic:{c}"
    | .err e => s!"err:{e}"
  | "sel" :: kv =>
    let keys := kvNats kv "keys"; let vals := kvNats kv "vals"
    let tbl : Nat → Option Nat := fun j => (List.zip keys vals).findSome? fun (k, v) => if k = j then some v else none
    s!"ok {blindSelection cm 0 (kvNat kv "idxword") (kvNat kv "rsh") (kvNat kv "bits") tbl}"
  | "hist" :: kv =>
    let streams : List (List Nat) := (((Drv.kv kv "streams").getD "").splitOn "|").map fun s => nats s
    let modes := kvNats kv "modes"
    let idx := kvNat kv "idxword"; let off := kvNat kv "rsh"
    let h := List.zip (modes.map (· == 1)) streams
    match Retr.history cmn (fun k => idx.testBit (k + off)) 0 (Retr.alloc 0 (kvNat kv "size")) h with
    | .ok vs => s!"ok {showNats vs}"
    | .panic c => s!"panic:{c}"
    | .err e => s!"err:{e}"
  | "brot" :: kv =>
    let pt := kvInts kv "pt"
    let rotI : Int → List Int → List Int := fun k p => (Lut.rotate k (p.map fun x => [x])).map fun v => v.headD 0
    let cmI : Bool → List Int → List Int → List Int := fun b t f => if b then t else f
    let idx := kvNat kv "idxword"
    let r := blindRotationAssign rotI cmI (kvNat kv "sign" == 1) (fun k => idx.testBit k) (kvNat kv "rsh") (kvNat kv "mask")
      (kvNat kv "lsh") pt (pt.map fun _ => 77)
    "ok " ++ showInts r
  | _ => "bad-op"

end Drv.Blindsel
