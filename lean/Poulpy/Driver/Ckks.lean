import Poulpy.Driver.Util
import Poulpy.Model.Ckks
import Poulpy.Model.CkksData
import Poulpy.Model.CkksMulData
import Poulpy.Model.CkksConv
import Poulpy.Driver.Ep
/-!
Wire format of the `ckks` command (model side; `harness/src/cmd_ckks.rs` prints the same form).

request : `id ckks base2k=B maxprec=P keys=k1,k2,… pool=size:delta:budget/size:delta:budget/… ops=op;op;…`
          an op is `name,arg,arg,…` (all decimal integers; a plaintext is `delta,budget,base2k`,
          a precision `delta,budget`, a Boolean `0|1`); see `parseOp` for the list.
answer  : `id step|step|…`, one entry per executed op:
          `ok@POOL`, `err:<Variant:fields>@POOL` (POOL = state after the call, `delta.budget.size`
          per slot joined by `/`) or `panic:<class>` (execution stops there).
-/

namespace Drv.Ckks
open _root_.Ckks

def showPool (p : Pool) : String :=
  "/".intercalate (p.map (fun c => s!"{c.md.logDelta}.{c.md.logBudget}.{c.size}"))

def parsePool (s : String) : Pool :=
  if s.isEmpty || s == "-" then []
  else (s.splitOn "/").map (fun e =>
    match (e.splitOn ":").map nat! with
    | [sz, d, b] => ⟨⟨d, b⟩, sz⟩
    | _ => ⟨⟨0, 0⟩, 0⟩)

def bool! (s : String) : Bool := s == "1"

/-- variable-arity composite ops: `add_many,d,a…`, `mul_many,d,a…`, `dot_ct,d,n,a×n,b×n`,
`dot_pt_znx,d,n,a×n,pd,pb,pq`, `dot_pt_rnx,d,n,a×n,pd,pb`, `dot_cst_rnx,d,n,a×n,pd,pb,re,im` -/
def parseMany (f : List String) : Option Op :=
  match f with
  | "add_many" :: d :: as => some (.addMany (nat! d) (as.map nat!))
  | "mul_many" :: d :: as => some (.mulMany (nat! d) (as.map nat!))
  | "dot_ct" :: d :: n :: rest =>
    let k := nat! n
    if rest.length = 2 * k then some (.dotCt (nat! d) ((rest.take k).map nat!) ((rest.drop k).map nat!)) else none
  | "dot_pt_znx" :: d :: n :: rest =>
    let k := nat! n
    match rest.drop k with
    | [pd, pb, pq] => some (.dotPtZnx (nat! d) ((rest.take k).map nat!) ⟨⟨nat! pd, nat! pb⟩, nat! pq⟩)
    | _ => none
  | "dot_pt_rnx" :: d :: n :: rest =>
    let k := nat! n
    match rest.drop k with
    | [pd, pb] => some (.dotPtRnx (nat! d) ((rest.take k).map nat!) ⟨nat! pd, nat! pb⟩)
    | _ => none
  | "dot_cst_rnx" :: d :: n :: rest =>
    let k := nat! n
    match rest.drop k with
    | [pd, pb, re, im] => some (.dotCstRnx (nat! d) ((rest.take k).map nat!) ⟨nat! pd, nat! pb⟩ (re == "1") (im == "1"))
    | _ => none
  | _ => none

def parseOp (t : String) : Option Op :=
  match t.splitOn "," with
  | ["enc", d, k, pd, pb, pq] => some (.enc (nat! d) (nat! k) ⟨⟨nat! pd, nat! pb⟩, nat! pq⟩)
  | ["add", d, a, b] => some (.addCt (nat! d) (nat! a) (nat! b))
  | ["sub", d, a, b] => some (.addCt (nat! d) (nat! a) (nat! b))
  | ["add_assign", d, a] => some (.addCtAssign (nat! d) (nat! a))
  | ["sub_assign", d, a] => some (.addCtAssign (nat! d) (nat! a))
  | ["add_pt_znx", d, a, pd, pb, pq] => some (.addPtZnx (nat! d) (nat! a) ⟨⟨nat! pd, nat! pb⟩, nat! pq⟩)
  | ["sub_pt_znx", d, a, pd, pb, pq] => some (.addPtZnx (nat! d) (nat! a) ⟨⟨nat! pd, nat! pb⟩, nat! pq⟩)
  | ["add_pt_znx_assign", d, pd, pb, pq] => some (.addPtZnxAssign (nat! d) ⟨⟨nat! pd, nat! pb⟩, nat! pq⟩)
  | ["sub_pt_znx_assign", d, pd, pb, pq] => some (.addPtZnxAssign (nat! d) ⟨⟨nat! pd, nat! pb⟩, nat! pq⟩)
  | ["add_pt_rnx", d, a, pd, pb] => some (.addPtRnx (nat! d) (nat! a) ⟨nat! pd, nat! pb⟩)
  | ["sub_pt_rnx", d, a, pd, pb] => some (.addPtRnx (nat! d) (nat! a) ⟨nat! pd, nat! pb⟩)
  | ["add_pt_rnx_assign", d, pd, pb] => some (.addPtRnxAssign (nat! d) ⟨nat! pd, nat! pb⟩)
  | ["sub_pt_rnx_assign", d, pd, pb] => some (.addPtRnxAssign (nat! d) ⟨nat! pd, nat! pb⟩)
  | ["add_cst_rnx", d, a, pd, pb, re, im] => some (.addCstRnx (nat! d) (nat! a) ⟨nat! pd, nat! pb⟩ (bool! re) (bool! im))
  | ["sub_cst_rnx", d, a, pd, pb, re, im] => some (.addCstRnx (nat! d) (nat! a) ⟨nat! pd, nat! pb⟩ (bool! re) (bool! im))
  | ["add_cst_rnx_assign", d, pd, pb, re, im] => some (.addCstRnxAssign (nat! d) ⟨nat! pd, nat! pb⟩ (bool! re) (bool! im))
  | ["sub_cst_rnx_assign", d, pd, pb, re, im] => some (.addCstRnxAssign (nat! d) ⟨nat! pd, nat! pb⟩ (bool! re) (bool! im))
  | ["add_cst_znx", d, a, k, ld, re, im] => some (.addCstZnx (nat! d) (nat! a) (nat! k) (nat! ld) (bool! re) (bool! im))
  | ["sub_cst_znx", d, a, k, ld, re, im] => some (.addCstZnx (nat! d) (nat! a) (nat! k) (nat! ld) (bool! re) (bool! im))
  | ["add_cst_znx_assign", d, k, ld, re, im] => some (.addCstZnxAssign (nat! d) (nat! k) (nat! ld) (bool! re) (bool! im))
  | ["sub_cst_znx_assign", d, k, ld, re, im] => some (.addCstZnxAssign (nat! d) (nat! k) (nat! ld) (bool! re) (bool! im))
  | ["neg", d, a] => some (.neg (nat! d) (nat! a))
  | ["neg_assign", d] => some (.negAssign (nat! d))
  | ["mul", d, a, b] => some (.mul (nat! d) (nat! a) (nat! b))
  | ["mul_assign", d, a] => some (.mulAssign (nat! d) (nat! a))
  | ["square", d, a] => some (.square (nat! d) (nat! a))
  | ["square_assign", d] => some (.squareAssign (nat! d))
  | ["mul_pt_znx", d, a, pd, pb, pq] => some (.mulPtZnx (nat! d) (nat! a) ⟨⟨nat! pd, nat! pb⟩, nat! pq⟩)
  | ["mul_pt_znx_assign", d, pd, pb, pq] => some (.mulPtZnxAssign (nat! d) ⟨⟨nat! pd, nat! pb⟩, nat! pq⟩)
  | ["mul_pt_rnx", d, a, pd, pb] => some (.mulPtRnx (nat! d) (nat! a) ⟨nat! pd, nat! pb⟩)
  | ["mul_pt_rnx_assign", d, pd, pb] => some (.mulPtRnxAssign (nat! d) ⟨nat! pd, nat! pb⟩)
  | ["mul_cst_rnx", d, a, pd, pb, re, im] => some (.mulCstRnx (nat! d) (nat! a) ⟨nat! pd, nat! pb⟩ (bool! re) (bool! im))
  | ["mul_cst_rnx_assign", d, pd, pb, re, im] => some (.mulCstRnxAssign (nat! d) ⟨nat! pd, nat! pb⟩ (bool! re) (bool! im))
  | ["mul_add_ct", d, a, b] => some (.mulAddCt (nat! d) (nat! a) (nat! b))
  | ["mul_sub_ct", d, a, b] => some (.mulAddCt (nat! d) (nat! a) (nat! b))
  | ["mul_add_pt_znx", d, a, pd, pb, pq] => some (.mulAddPtZnx (nat! d) (nat! a) ⟨⟨nat! pd, nat! pb⟩, nat! pq⟩)
  | ["mul_sub_pt_znx", d, a, pd, pb, pq] => some (.mulAddPtZnx (nat! d) (nat! a) ⟨⟨nat! pd, nat! pb⟩, nat! pq⟩)
  | ["mul_add_pt_rnx", d, a, pd, pb] => some (.mulAddPtRnx (nat! d) (nat! a) ⟨nat! pd, nat! pb⟩)
  | ["mul_sub_pt_rnx", d, a, pd, pb] => some (.mulAddPtRnx (nat! d) (nat! a) ⟨nat! pd, nat! pb⟩)
  | ["mul_add_cst_rnx", d, a, pd, pb, re, im] => some (.mulAddCstRnx (nat! d) (nat! a) ⟨nat! pd, nat! pb⟩ (bool! re) (bool! im))
  | ["mul_sub_cst_rnx", d, a, pd, pb, re, im] => some (.mulAddCstRnx (nat! d) (nat! a) ⟨nat! pd, nat! pb⟩ (bool! re) (bool! im))
  | ["mul_pow2", d, a, bits] => some (.mulPow2 (nat! d) (nat! a) (nat! bits))
  | ["mul_pow2_assign", d, bits] => some (.mulPow2Assign (nat! d) (nat! bits))
  | ["div_pow2", d, a, bits] => some (.divPow2 (nat! d) (nat! a) (nat! bits))
  | ["div_pow2_assign", d, bits] => some (.divPow2Assign (nat! d) (nat! bits))
  | ["rot", d, a, k] => some (.rot (nat! d) (nat! a) (int! k))
  | ["rot_assign", d, k] => some (.rotAssign (nat! d) (int! k))
  | ["conj", d, a] => some (.conj (nat! d) (nat! a))
  | ["conj_assign", d] => some (.conjAssign (nat! d))
  | ["rescale", d, k, a] => some (.rescale (nat! d) (nat! k) (nat! a))
  | ["rescale_assign", d, k] => some (.rescaleAssign (nat! d) (nat! k))
  | ["align", a, b] => some (.align (nat! a) (nat! b))
  | ["compact", d] => some (.compact (nat! d))
  | ["realloc", d, sz] => some (.realloc (nat! d) (nat! sz))
  | ["compact_copy", d, a] => some (.compactCopy (nat! d) (nat! a))
  | ["set_meta", d, pd, pb] => some (.setMeta (nat! d) ⟨nat! pd, nat! pb⟩)
  | ["dec", a, pd, pb, pq] => some (.dec (nat! a) ⟨⟨nat! pd, nat! pb⟩, nat! pq⟩)
  | f => parseMany f

/-- run the op list, continuing after `Err` with the state the failed call leaves, stopping at a panic -/
def runAll (env : Env) : Pool → List String → List String → List String
  | _, [], acc => acc.reverse
  | pool, t :: rest, acc =>
    match parseOp t with
    | none => ("bad-op" :: acc).reverse
    | some op =>
      match stepR env pool op with
      | .ok s => runAll env s rest (("ok@" ++ showPool s) :: acc)
      | .err e s => runAll env s rest (("err:" ++ e.toString ++ "@" ++ showPool s) :: acc)
      | .panic p => (("panic:" ++ p.cls) :: acc).reverse

/-! ### data mode (`data=…`): the linear fragment on ciphertexts with limbs (`Model/CkksData.lean`)

`data=` carries the limbs of every pool slot (slots joined by `/`; per slot the integers of column 0 then
column 1, limb by limb, coefficient by coefficient, joined by `.`).  Every answer entry is followed by
`#` and the limbs of the destination slot after the call, in the same layout. -/

def chunks {α : Type} (k : Nat) : Nat → List α → List (List α)
  | 0, _ => []
  | m + 1, l => l.take k :: chunks k m (l.drop k)

def parseG (base2k n size : Nat) (s : String) : Core.GLWE :=
  let xs : List Int := ((s.splitOn ".").filter (fun t => !t.isEmpty)).map int!
  let cols := (chunks (size * n) 2 xs).map (fun c => chunks n size c)
  { base2k := base2k, k := size * base2k, n := n, cols := cols }

def showG (g : Core.GLWE) : String :=
  ".".intercalate ((g.cols.flatten.flatten).map toString)

/-- the limbs of a ZNX plaintext operand: `pt.size` limbs of `n` coefficients, `.`-joined (`-`: none) -/
def parsePt (n : Nat) (pt : Pt) (s : String) : List (List Int) :=
  if s == "-" || s.isEmpty then []
  else chunks n pt.size (((s.splitOn ".").filter (fun t => !t.isEmpty)).map int!)

def parseLOp (n : Nat) (t : String) : Option LOp :=
  match t.splitOn "," with
  | ["add", d, a, b] => some (.add false (nat! d) (nat! a) (nat! b))
  | ["sub", d, a, b] => some (.add true (nat! d) (nat! a) (nat! b))
  | ["add_assign", d, a] => some (.addAssign false (nat! d) (nat! a))
  | ["sub_assign", d, a] => some (.addAssign true (nat! d) (nat! a))
  | ["neg", d, a] => some (.neg (nat! d) (nat! a))
  | ["neg_assign", d] => some (.negAssign (nat! d))
  | ["mul_pow2", d, a, bits] => some (.mulPow2 (nat! d) (nat! a) (nat! bits))
  | ["mul_pow2_assign", d, bits] => some (.mulPow2Assign (nat! d) (nat! bits))
  | ["div_pow2", d, a, bits] => some (.divPow2 (nat! d) (nat! a) (nat! bits))
  | ["div_pow2_assign", d, bits] => some (.divPow2Assign (nat! d) (nat! bits))
  | ["rescale", d, k, a] => some (.rescale (nat! d) (nat! k) (nat! a))
  | ["rescale_assign", d, k] => some (.rescaleAssign (nat! d) (nat! k))
  | ["align", a, b] => some (.align (nat! a) (nat! b))
  | ["add_pt_znx", d, a, pd, pb, pq, l] => some (.addPt false (nat! d) (nat! a) ⟨⟨nat! pd, nat! pb⟩, nat! pq⟩ (parsePt n ⟨⟨nat! pd, nat! pb⟩, nat! pq⟩ l))
  | ["sub_pt_znx", d, a, pd, pb, pq, l] => some (.addPt true (nat! d) (nat! a) ⟨⟨nat! pd, nat! pb⟩, nat! pq⟩ (parsePt n ⟨⟨nat! pd, nat! pb⟩, nat! pq⟩ l))
  | ["add_pt_znx_assign", d, pd, pb, pq, l] => some (.addPtAssign false (nat! d) ⟨⟨nat! pd, nat! pb⟩, nat! pq⟩ (parsePt n ⟨⟨nat! pd, nat! pb⟩, nat! pq⟩ l))
  | ["sub_pt_znx_assign", d, pd, pb, pq, l] => some (.addPtAssign true (nat! d) ⟨⟨nat! pd, nat! pb⟩, nat! pq⟩ (parsePt n ⟨⟨nat! pd, nat! pb⟩, nat! pq⟩ l))
  | _ => none

def LOp.dstSlot : LOp → Nat
  | .add _ d _ _ | .addAssign _ d _ | .neg d _ | .negAssign d | .mulPow2 d _ _ | .mulPow2Assign d _
  | .divPow2 d _ _ | .divPow2Assign d _ | .rescale d _ _ | .rescaleAssign d _ | .align d _
  | .addPt _ d _ _ _ | .addPtAssign _ d _ _ => d

def showSlot (p : DPool) (d : Nat) : String :=
  match p[d]? with
  | some c => showG c.g
  | none => "-"

/-- the limbs printed after a call: the destination slot; both slots for `align` -/
def showDst (p : DPool) : LOp → String
  | .align a b => showSlot p a ++ "/" ++ showSlot p b
  | op => showSlot p (LOp.dstSlot op)

def pt! (pd pb pq : String) : Pt := ⟨⟨nat! pd, nat! pb⟩, nat! pq⟩

/-- the multiplicative and composite calls (`Model/CkksMulData.lean`); a plaintext carries its limbs as last field -/
def parseXOp (n : Nat) (t : String) : Option XOp :=
  match parseLOp n t with
  | some op => some (.lin op)
  | none =>
    match t.splitOn "," with
    | ["mul", d, a, b] => some (.mul (nat! d) (nat! a) (nat! b))
    | ["mul_assign", d, a] => some (.mulAssign (nat! d) (nat! a))
    | ["square", d, a] => some (.square (nat! d) (nat! a))
    | ["square_assign", d] => some (.squareAssign (nat! d))
    | ["mul_pt_znx", d, a, pd, pb, pq, l] => some (.mulPt (nat! d) (nat! a) (pt! pd pb pq) (parsePt n (pt! pd pb pq) l))
    | ["mul_pt_znx_assign", d, pd, pb, pq, l] => some (.mulPtAssign (nat! d) (pt! pd pb pq) (parsePt n (pt! pd pb pq) l))
    | ["mul_add_ct", d, a, b] => some (.mulAdd false (nat! d) (nat! a) (nat! b))
    | ["mul_sub_ct", d, a, b] => some (.mulAdd true (nat! d) (nat! a) (nat! b))
    | ["mul_add_pt_znx", d, a, pd, pb, pq, l] => some (.mulAddPt false (nat! d) (nat! a) (pt! pd pb pq) (parsePt n (pt! pd pb pq) l))
    | ["mul_sub_pt_znx", d, a, pd, pb, pq, l] => some (.mulAddPt true (nat! d) (nat! a) (pt! pd pb pq) (parsePt n (pt! pd pb pq) l))
    | "add_many" :: d :: as => some (.addMany (nat! d) (as.map nat!))
    | "mul_many" :: d :: as => some (.mulMany (nat! d) (as.map nat!))
    | "dot_ct" :: d :: k :: rest =>
      let k := nat! k
      if rest.length = 2 * k then some (.dotCt (nat! d) ((rest.take k).map nat!) ((rest.drop k).map nat!)) else none
    | "dot_pt_znx" :: d :: k :: rest =>
      let k := nat! k
      match rest.drop k with
      | [pd, pb, pq, l] => some (.dotPt (nat! d) ((rest.take k).map nat!) (pt! pd pb pq) ((l.splitOn "_").map (parsePt n (pt! pd pb pq))))
      | _ => none
    | ["rot", d, a, k] => some (.rot (nat! d) (nat! a) (int! k))
    | ["rot_assign", d, k] => some (.rotAssign (nat! d) (int! k))
    | ["conj", d, a] => some (.conj (nat! d) (nat! a))
    | ["conj_assign", d] => some (.conjAssign (nat! d))
    | _ => none

def XOp.dstSlot : XOp → Nat
  | .lin op => LOp.dstSlot op
  | .mul d _ _ | .mulAssign d _ | .square d _ | .squareAssign d | .mulPt d _ _ _ | .mulPtAssign d _ _
  | .mulAdd _ d _ _ | .mulAddPt _ d _ _ _ | .mulMany d _
  | .addMany d _ | .dotCt d _ _ | .dotPt d _ _ _ | .rot d _ _ | .rotAssign d _ | .conj d _ | .conjAssign d => d

def showDstX (p : DPool) : XOp → String
  | .lin op => showDst p op
  | op => showSlot p (XOp.dstSlot op)

/-- the data-path run: outcome and metadata from the data model itself (`dstep` / `xstep`; its metadata transition is
the one of `stepR`), continuing after `Err` with the pool the failed call leaves (linear fragment; after an `Err` of a
multiplication or composite the limbs are not compared any more: `#?`) -/
def runData (env : Env) (N : Nat) (mk : MulKey) (ak : AutKeys) : DPool → List String → List String → List String
  | _, [], acc => acc.reverse
  | pool, t :: rest, acc =>
    match parseXOp N t with
    | none => ("bad-op" :: acc).reverse
    | some op =>
      match xstep env N mk ak pool op with
      | .ok p => runData env N mk ak p rest (("ok@" ++ showPool p.cts ++ "#" ++ showDstX p op) :: acc)
      | .err e =>
        match op with
        | .lin lop =>
          let p := dstepErrPool env N pool lop
          runData env N mk ak p rest (("err:" ++ e ++ "@" ++ showPool p.cts ++ "#" ++ showDst p lop) :: acc)
        | _ => (("err:" ++ e ++ "@" ++ "#?") :: acc).reverse
      | .panic c => (("panic:" ++ c) :: acc).reverse

/-- `key=base2k,colsIn,colsOut,dsize,dnum,size:ints` (cells in (row, input column) order) -/
def parseKey (n : Nat) (s : String) : Core.GGLWE :=
  match s.splitOn ":" with
  | [hd, body] =>
    match (hd.splitOn ",").map nat! with
    | [gb, colsIn, colsOut, dsize, dnum, gsize] =>
      let gd := ((body.splitOn ".").filter (fun t => !t.isEmpty)).map int!
      let cells := (Drv.Ep.chunk (colsOut * gsize * n) gd).map (Drv.Ep.mkCols n colsOut gsize)
      { base2k := gb, n := n, colsIn := colsIn, colsOut := colsOut, dsize := dsize, dnum := dnum, size := gsize, cells := cells }
    | _ => { base2k := 0, n := n, colsIn := 0, colsOut := 0, dsize := 1, dnum := 0, size := 0, cells := [] }
  | _ => { base2k := 0, n := n, colsIn := 0, colsOut := 0, dsize := 1, dnum := 0, size := 0, cells := [] }

/-- `m:e+m:e…` = the exact sum of the terms, `nan`, `inf`, `-inf`; `-` = absent -/
def parseFVal (s : String) : Option FVal :=
  if s == "nan" then some .nan
  else if s == "inf" then some (.inf false)
  else if s == "-inf" then some (.inf true)
  else if s == "-" then none
  else
    let terms : List (Int × Int) := (s.splitOn "+").filterMap (fun t =>
      match t.splitOn ":" with
      | [m, e] => some (int! m, int! e)
      | _ => none)
    let emin := terms.foldl (fun a t => min a t.2) 0
    some (.fin (terms.foldl (fun a t => a + t.1 * 2 ^ (t.2 - emin).toNat) 0) emin)

def showDigits (l : List Int) : String := ".".intercalate (l.map toString)

/-- `toznx float=… form=vec|cst base2k= delta= budget= [k=] vals=…` (see `Model/CkksConv.lean`) -/
def handleToZnx (ts : List String) : String :=
  let ty : FloatTy := if kv ts "float" == some "f128" then .f128 else .f64
  let b := kvNat ts "base2k"
  let md : Meta := ⟨kvNat ts "delta", kvNat ts "budget"⟩
  let raw := (((kv ts "vals").getD "").splitOn ";").filter (fun s => !s.isEmpty)
  let vals := raw.map parseFVal
  if kv ts "form" == some "cst" then
    match toZnxCst ty b (kvNat ts "k") md.logDelta (vals.getD 0 none) (vals.getD 1 none) with
    | .ok (r, i, m) =>
      let sh : Option (List Int) → String := fun | none => "-" | some l => showDigits l
      s!"ok {sh r}/{sh i} meta={m.logDelta}.{m.logBudget}"
    | .err e => s!"err:{e}"
    | .panic p => s!"panic:{p}"
  else
    match toZnxVec ty b md vals.length (vals.map (fun v => v.getD (.fin 0 0))) with
    | .ok ds => "ok " ++ ",".intercalate (ds.map showDigits)
    | .err e => s!"err:{e}"
    | .panic p => s!"panic:{p}"

def handle (ts : List String) : String :=
  if ts.head? == some "toznx" then handleToZnx ts else
  let env : Env := ⟨kvNat ts "base2k", kvInts ts "keys", kvNat ts "maxprec"⟩
  let pool := parsePool ((kv ts "pool").getD "")
  let ops := ((kv ts "ops").getD "").splitOn ";" |>.filter (fun s => !s.isEmpty)
  match kv ts "data" with
  | some d =>
    let n := kvNat ts "n"
    let dpool : DPool := (pool.zip (d.splitOn "/")).map (fun (c, s) => ⟨parseG env.base2k n c.size s, c.md⟩)
    let mk : MulKey := ⟨kvNat ts "big" == 1, parseKey n ((kv ts "key").getD "")⟩
    -- `atk=k:p:<key>;…` rotation keys (index, Galois element, key), `ctk=p:<key>` the conjugation key
    let toKey (p : Int) (g : Core.GGLWE) : Ks.Key := { base2k := g.base2k, dsize := g.dsize, p := p, mat := g.toPMat }
    let rot : List (Int × Ks.Key) := (((kv ts "atk").getD "").splitOn ";").filterMap (fun e =>
      match e.splitOn "~" with
      | [k, p, body] => some (int! k, toKey (int! p) (parseKey n body))
      | _ => none)
    let conj : Option Ks.Key := match ((kv ts "ctk").getD "").splitOn "~" with
      | [p, body] => some (toKey (int! p) (parseKey n body))
      | _ => none
    "|".intercalate (runData env n mk ⟨rot, conj⟩ dpool ops [])
  | none => "|".intercalate (runAll env pool ops [])

end Drv.Ckks
