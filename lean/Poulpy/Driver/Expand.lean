import Poulpy.Driver.Util
import Poulpy.Driver.Ep
import Poulpy.Model.Core.Expand

/-!
Model driver for the `expand` command (C04, row expansion) — counterpart of `harness/src/cmd_expand.rs`.

Request:  `id expand op=from_gglwe big=<0|1> n=N bo=<res base2k> so=<res size> kp=<base2k>,<rank>,<dsize>,<dnum>,<size>
           k=<ints> am=<cell>;<cell>…`
`k`: all integers of the `rank` keys in (key, row, input column, output column, limb, coefficient)
order; `am`: the GGLWE rows `a.at(row, 0)` as `<C>x<S>:<ints>`.  Answer: the GGSW cells in (row, column)
order joined by `;`, or `err:<kind>`.  `op=idx rank=r` answers the secret-tensor index table
`at(i, j)` for `i, j < r`, row-major.
-/

namespace Drv.Expand
open Core Drv.Ep

def handle (ts : List String) : String :=
  let n := kvNat ts "n"
  let big := kvNat ts "big" == 1
  match (kv ts "op").getD "" with
  | "idx" =>
    let r := kvNat ts "rank"
    showNats ((List.range r).flatMap (fun i => (List.range r).map (fun j => secretTensorIdx r i j)))
  | "from_gglwe" =>
    match kvNats ts "kp", (kv ts "am").map (fun s => s.splitOn ";") with
    | [kb, rank, dsize, dnum, ksize], some cellsS =>
      let kd := kvInts ts "k"
      let cols := rank + 1
      let cellLen := cols * ksize * n
      if kd.length != rank * dnum * rank * cellLen then "err:parse-k" else
      let cells := (chunk cellLen kd).map (mkCols n cols ksize)
      let keys := chunk (dnum * rank) cells
      let t : ToGGSWKey := { base2k := kb, n := n, rank := rank, dsize := dsize, dnum := dnum, size := ksize, keys := keys }
      match cellsS.mapM (parseVec n) with
      | some am =>
        match ggswFromGGLWE big n (kvNat ts "bo") (kvNat ts "so") am t with
        | some cs => ";".intercalate (cs.map showVec)
        | none => "err:fuel"
      | none => "err:parse-am"
    | _, _ => "err:parse-kp"
  | _ => "err:op"

end Drv.Expand
