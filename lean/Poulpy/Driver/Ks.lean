import Poulpy.Driver.Util
import Poulpy.Model.Core.Ks
import Poulpy.Model.Core.Pack
import Poulpy.Model.Core.KsMat
import Poulpy.Model.Core.KsGgsw

/-!
Model driver for the key-switching family — command word `ks`.

Request:  `id ks op=<op> big=<64|128> n=N bin=.. bkey=.. bout=.. sout=<res limbs> rin=.. rout=.. dsize=..
           [skip=..] [idx=..] [nlin=..] [nlout=..] [dft0=<v>] [lgap=..] keys=<p:GGLWE@p:GGLWE…> a=<ct>`
Answer:   `id ok <ct>` | `id panic:<class>` | `id err:<kind>`.

Canonical text forms (same as `pvh ks`): polynomial = coefficients joined by `,`; column = limbs
joined by `|`; ciphertext = columns joined by `;`; GGLWE = its `dnum × rank_in` ciphertexts (row-major:
row r, input column i) joined by `/`.  An LWE ciphertext is a one-column ciphertext whose limbs have
`n_lwe + 1` coefficients.
-/

namespace Drv.Ks
open _root_.Hal _root_.Ks

def parsePoly (s : String) : Poly := ints s
def parseCol (s : String) : Col := if s.isEmpty || s == "-" then [] else (s.splitOn "|").map parsePoly
def parseCt (s : String) : List Col := if s.isEmpty || s == "-" then [] else (s.splitOn ";").map parseCol

def showCol (c : Col) : String := "|".intercalate (c.map showInts)
def showCt (cs : List Col) : String := ";".intercalate (cs.map showCol)

def parseKey (n bkey dsize rin : Nat) (s : String) : Key :=
  match s.splitOn ":" with
  | [p, body] =>
    let cts := (body.splitOn "/").map parseCt
    let colsOut := (cts.getD 0 []).length
    let size := ((cts.getD 0 []).getD 0 []).length
    { base2k := bkey, dsize := dsize, p := int! p,
      mat := { n := n, rows := cts.length / (max rin 1), colsIn := rin, colsOut := colsOut, size := size, data := cts } }
  | _ => { base2k := bkey, dsize := dsize, p := 0, mat := { n := n, rows := 0, colsIn := rin, colsOut := 0, size := 0, data := [] } }

def showOut {α : Type} (o : Outcome α) (f : α → String) : String :=
  match o with
  | .ok v => "ok " ++ f v
  | .err e => "err:" ++ e
  | .panic c => "panic:" ++ c

def handle (ts : List String) : String :=
  let op := (kv ts "op").getD ""
  let big128 := kvNat ts "big" == 128
  let n := kvNat ts "n"
  let bin := kvNat ts "bin"
  let bkey := kvNat ts "bkey"
  let bout := kvNat ts "bout"
  let sout := kvNat ts "sout"
  let rin := kvNat ts "rin"
  let rout := kvNat ts "rout"
  let dsize := kvNat ts "dsize"
  let skip := kvNat ts "skip"
  let idx := kvNat ts "idx"
  let nlin := kvNat ts "nlin"
  let nlout := kvNat ts "nlout"
  let keysTxt := (kv ts "keys").getD "-"
  let keys : List Key := if keysTxt == "-" then [] else (keysTxt.splitOn "@").map (parseKey n bkey dsize rin)
  let key := keys.getD 0 (parseKey n bkey dsize rin "")
  let aCols := parseCt ((kv ts "a").getD "-")
  let a : Ct := mkCt bin n aCols
  let lwe : Lwe := { base2k := bin, nLwe := nlin, data := aCols.getD 0 [] }
  let ct (o : Outcome Ct) : String := showOut o (fun c => showCt c.cols)
  let lw (o : Outcome Lwe) : String := showOut o (fun l => showCol l.data)
  -- previous content of the un-zeroed `res_dft` scratch buffer of the fused forms: every coefficient `dft0=<v>`
  let dv := kvInt ts "dft0"
  -- `a=<slot:ct@slot:ct…>` for the packing operations
  let slotCts : SlotMap :=
    if op == "pack" || op == "packer" then
      let txt := (kv ts "a").getD "-"
      if txt == "-" then [] else (txt.splitOn "@").filterMap (fun part =>
        match part.splitOn ":" with
        | [j, body] => some (nat! j, mkCt bin n (parseCt body))
        | _ => none)
    else []
  -- `a=<GGLWE>` or `a=<p>:<GGLWE>` for the matrix operations
  let isMat := op == "gglwe_ks" || op == "gglwe_ks_assign" || op == "atk_auto" || op == "atk_auto_assign"
  let matTxt := if isMat then (kv ts "a").getD "-" else "-"
  let matParts := matTxt.splitOn ":"
  let matP : Int := if matParts.length == 2 then int! (matParts.getD 0 "") else 0
  let matBody := matParts.getLast?.getD "-"
  let matCts : List Ct := if isMat && matBody != "-" then (matBody.splitOn "/").map (fun t => mkCt bin n (parseCt t)) else []
  let r0 := if op == "atk_auto" || op == "atk_auto_assign" then rin else kvNat ts "r0"
  let matA : Mat := { base2k := bin, dsize := kvNat ts "adsize", dnum := matCts.length / (max r0 1), rankIn := r0,
                      rankOut := (matCts.getD 0 (mkCt bin n [])).rank, cts := matCts }
  let showMat (l : List Ct) : String := "/".intercalate (l.map (fun c => showCt c.cols))
  -- GGSW operations: `a=<cells (row, column) joined by />`, `tsk=<GGLWE@GGLWE…>` (the `rank` tensor keys)
  let isGgsw := op.startsWith "ggsw_"
  let ggswCells : List Ct := if isGgsw then (((kv ts "a").getD "-").splitOn "/").map (fun t => mkCt bin n (parseCt t)) else []
  let ggswCol0 : List Ct := (List.range (ggswCells.length / (rin + 1))).map (fun r => ggswCells.getD (r * (rin + 1)) (mkCt bin n []))
  let tskKeys : List (List (List Col)) :=
    if isGgsw then (((kv ts "tsk").getD "-").splitOn "@").map (fun g => (g.splitOn "/").map parseCt) else []
  let tskSize := (((tskKeys.getD 0 []).getD 0 []).getD 0 []).length
  let tsk : Core.ToGGSWKey := { base2k := bkey, n := n, rank := rin, dsize := dsize, dnum := (tskKeys.getD 0 []).length / (max rin 1),
                                size := tskSize, keys := tskKeys }
  let showCells (l : List (List Col)) : String := "/".intercalate (l.map showCt)
  let dft0 : Buf := { zeroBuf n (rout + 1) key.size with
    data := List.replicate (rout + 1) (List.replicate key.size (List.replicate n dv)) }
  match op with
  | "ks" => ct (keyswitch big128 bout sout rout a key)
  | "ks_assign" => ct (keyswitch big128 a.base2k a.size a.rank a key)
  | "auto" => ct (automorphism big128 bout sout rout a key)
  | "auto_assign" => ct (automorphism big128 a.base2k a.size a.rank a key)
  | "auto_add" => ct (automorphismFused .add big128 dft0 bout sout rout a key)
  | "auto_add_assign" => ct (automorphismFused .add big128 dft0 a.base2k a.size a.rank a key)
  | "auto_sub" => ct (automorphismFused .sub big128 dft0 bout sout rout a key)
  | "auto_sub_assign" => ct (automorphismFused .sub big128 dft0 a.base2k a.size a.rank a key)
  | "auto_subneg" => ct (automorphismFused .subNegate big128 dft0 bout sout rout a key)
  | "auto_subneg_assign" => ct (automorphismFused .subNegate big128 dft0 a.base2k a.size a.rank a key)
  | "trace" => ct (trace big128 bkey keys skip bout sout a)
  | "trace_assign" => ct (traceAssign big128 bkey keys skip a)
  | "gglwe_ks" => showOut (gglweKeyswitch big128 bout sout (kvNat ts "r0") rout (kvNat ts "rdnum") (kvNat ts "adsize") matA key) showMat
  | "gglwe_ks_assign" => showOut (gglweKeyswitchAssign big128 matA key) showMat
  | "atk_auto" => showOut (atkAutomorphism big128 n bout sout (kvNat ts "rdnum") (kvNat ts "adsize") matP matA key)
      (fun r => toString r.1 ++ ":" ++ showMat r.2)
  | "atk_auto_assign" => showOut (atkAutomorphismAssign big128 n matP matA key) (fun r => toString r.1 ++ ":" ++ showMat r.2)
  | "ggsw_ks" => showOut (ggswKeyswitch big128 n bout sout (kvNat ts "rdnum") (kvNat ts "adsize") bin (kvNat ts "adsize") ggswCol0 key tsk) showCells
  | "ggsw_ks_assign" => showOut (ggswKeyswitchAssign big128 n ggswCol0 key tsk) showCells
  | "ggsw_auto" => showOut (ggswAutomorphism big128 n bout sout (kvNat ts "rdnum") (kvNat ts "adsize") bin (kvNat ts "adsize") ggswCol0 key tsk) showCells
  | "ggsw_auto_assign" => showOut (ggswAutomorphismAssign big128 n ggswCol0 key tsk) showCells
  | "pack" => ct (pack big128 n bkey keys bout sout slotCts (kvNat ts "lgap"))
  | "packer" =>
    ct (packerRun big128 n keys bout sout rin (kvNat ts "lgap") (fun k => SlotMap.get slotCts k)
          (mkCt bout n (List.replicate (rin + 1) (zeroCol n sout))))
  | "lwe_ks" => lw (lweKeyswitch big128 n bout sout nlout lwe key)
  | "glwe_to_lwe" => lw (lweFromGlwe big128 bout sout nlout a idx key)
  | "extract" => lw (sampleExtract bout sout nlout a)
  | "lwe_to_glwe" => ct (glweFromLwe big128 n bout sout rout lwe key)
  | _ => "err:bad-op"

end Drv.Ks
