import Poulpy.Driver.Util
import Poulpy.Model.Avx
import Poulpy.Model.AvxQ120
/-
Driver of the C10 lane model.  Wire format (same tokens as `pvh avx`, see harness/src/avx_kern.rs):
  `id avx kern be=<fref|favx|nref|navx> op=<name> [b=] [lsh=] [k=] [p=] [ow=0|1] x=.. [a=..] [c=..]`
answer `id X|C`: the two mutable buffers after the call as signed decimals, `,` between elements,
`-` for an empty / unused buffer; `panic:<class>` / `err:<kind>` otherwise.
`be` selects the implementation modelled: `*ref` → reference kernel, `*avx` → AVX kernel.
-/
namespace Drv.Avx
open _root_.Avx

def w64s (l : List Int) : List (BitVec 64) := l.map (BitVec.ofInt 64)
def w128s (l : List Int) : List (BitVec 128) := l.map (BitVec.ofInt 128)
def show64 (l : List (BitVec 64)) : String := showInts (l.map BitVec.toInt)
def show128 (l : List (BitVec 128)) : String := showInts (l.map BitVec.toInt)

/-- pad an absent operand with zeros up to `n` -/
def pad {α : Type} (z : α) (n : Nat) (l : List α) : List α := if l.isEmpty then List.replicate n z else l

def zip3 {α β γ : Type} (x : List α) (a : List β) (c : List γ) : List (α × β × γ) :=
  List.zipWith (fun x ac => (x, ac.1, ac.2)) x (List.zip a c)

def outcome {α : Type} (o : Outcome α) (f : α → String) : String :=
  match o with
  | .ok v => f v
  | .err k => "err:" ++ k
  | .panic c => "panic:" ++ c

def isAvx (ts : List String) : Bool := ((kv ts "be").getD "").endsWith "avx"

def kern64 (ts : List String) : String :=
  let op := (kv ts "op").getD ""
  let x := w64s (kvInts ts "x")
  let a := w64s (kvInts ts "a")
  let c := w64s (kvInts ts "c")
  if op == "switch_ring" then
    outcome (if isAvx ts then switchRingAvx x a else switchRingRef x a) (fun r => show64 r ++ "|-")
  else if op == "automorphism" then
    let p := kvInt ts "p"
    outcome (if isAvx ts then automorphismAvx p x a else automorphismRef p x a) (fun r => show64 r ++ "|-")
  else
    let n := x.length
    let p : Params := { b := BitVec.ofNat 64 (kvNat ts "b"), lsh := BitVec.ofNat 64 (kvNat ts "lsh"),
                        k := BitVec.ofInt 64 (kvInt ts "k"), ow := kvNat ts "ow" == 1 }
    let l := zip3 x (pad 0 n a) (pad 0 n c)
    let o := if isAvx ts then sliceAvx op p l else sliceRef op p l
    outcome o (fun r => show64 (r.map Prod.fst) ++ "|" ++ (if c.isEmpty then "-" else show64 (r.map Prod.snd)))

def kern128 (ts : List String) : String :=
  let op := (kv ts "op").getD ""
  let b := BitVec.ofNat 64 (kvNat ts "b")
  let lsh := BitVec.ofNat 64 (kvNat ts "lsh")
  if op.startsWith "nfc_" then
    let x := w64s (kvInts ts "x")
    let n := x.length
    let a := pad 0 n (w128s (kvInts ts "a"))
    let c := w128s (kvInts ts "c")
    let l := zip3 x a c
    let o := if isAvx ts then slice128Avx op b lsh l else slice128Ref op b lsh l
    outcome o (fun r => show64 (r.map Prod.fst) ++ "|" ++ show128 (r.map Prod.snd))
  else
    let x := w128s (kvInts ts "x")
    let n := x.length
    let a := pad 0 n (w128s (kvInts ts "a"))
    let cin := w128s (kvInts ts "c")
    let c := pad 0 n cin
    let l := zip3 x a c
    let o := if isAvx ts then sliceBigAvx op l else sliceBigRef op l
    outcome o (fun r => show128 r ++ "|" ++ (if cin.isEmpty then "-" else show128 cin))

/-- `q120 op=<consts|c_from_b|from_znx64|mul_bbc> be=.. [x=..] [y=..] [h= s2l= s2h= (per prime, 4 values)]`:
NTT120 integer kernels, one request = `nn` coefficients × 4 prime lanes (flattened as the Rust slices). -/
def q120 (ts : List String) : String :=
  let op := (kv ts "op").getD ""
  let avx := isAvx ts
  let qs := Avx.Q120.Q
  let nth := fun (l : List Nat) (k : Nat) => l.getD k 0
  if op == "consts" then
    "q=" ++ showNats qs ++ " crt=" ++ showNats Avx.Q120.CRT_CST
  else if op == "c_from_b" then
    -- x: 4·nn u64 (q120b); answer: 8·nn u32 (q120c)
    let x := kvNats ts "x"
    let out := (x.zipIdx).flatMap (fun (v, i) =>
      let k := i % 4
      let q := nth qs k
      let r := if avx then Avx.Q120.cFromBLane v q (nth Avx.Q120.MU k) (nth Avx.Q120.POW32 k) else Avx.Q120.cFromBRef v q
      [r.1, r.2])
    showNats out
  else if op == "from_znx64" then
    -- x: nn i64; answer: 4·nn u64
    let x := kvInts ts "x"
    let mask := (kv ts "mask").map int!
    let out := x.flatMap (fun v =>
      let v := match mask with
        | some m => (BitVec.ofInt 64 v &&& BitVec.ofInt 64 m).toNat
        | none => (BitVec.ofInt 64 v).toNat
      (List.range 4).map (fun k =>
        if avx then Avx.Q120.bFromZnx64Lane v (nth Avx.Q120.OQ k) else Avx.Q120.bFromZnx64Ref v (nth Avx.Q120.OQ k)))
    showNats out
  else if op == "mul_bbc" then
    -- x: 4·ell u64 (q120b, as the u32 view of the Rust), y: 4·ell u64 (q120c lanes r | rshift << 32); h, s2l, s2h from BbcMeta
    let x := kvNats ts "x"
    let y := kvNats ts "y"
    let h := kvNat ts "h"
    let s2l := kvNats ts "s2l"
    let s2h := kvNats ts "s2h"
    let out := (List.range 4).map (fun k =>
      let l := ((x.zip y).zipIdx).filterMap (fun (xy, i) => if i % 4 == k then some xy else none)
      if avx then Avx.Q120.bbcAvx h (nth s2l k) (nth s2h k) l else Avx.Q120.bbcRef h (nth s2l k) (nth s2h k) l)
    showNats out
  else "bad-op"

def handle (ts : List String) : String :=
  match ts with
  | "q120" :: rest => q120 rest
  | "kern" :: rest =>
    let op := (kv rest "op").getD ""
    if op.startsWith "nfc_" || op.startsWith "i128_" then kern128 rest else kern64 rest
  | _ => "bad-op"

end Drv.Avx
