import Poulpy.Driver.Util
import Poulpy.Model.Avx
import Poulpy.Model.AvxQ120
import Poulpy.Model.AvxNtt
import Poulpy.Model.AvxCnv
/-
Driver of the C10 lane model.  Wire format (same tokens as `pvh avx`, see harness/src/avx_kern.rs):
  `id avx kern be=<fref|favx|nref|navx> op=<name> [b=] [lsh=] [k=] [p=] [ow=0|1] x=.. [a=..] [c=..]`
answer `id X|C`: the two mutable buffers after the call as signed decimals, `,` between elements,
`-` for an empty / unused buffer; `panic:<class>` / `err:<kind>` otherwise.
`be` selects the implementation modelled: `*ref` → reference kernel, `*avx` → AVX kernel.
-/
namespace Drv.Avx
open _root_.Avx

def w64s (l : List Int) : List (BitVec 64) := l.map (BitVec.ofInt 64)
def w128s (l : List Int) : List (BitVec 128) := l.map (BitVec.ofInt 128)
def show64 (l : List (BitVec 64)) : String := showInts (l.map BitVec.toInt)
def show128 (l : List (BitVec 128)) : String := showInts (l.map BitVec.toInt)

/-- pad an absent operand with zeros up to `n` -/
def pad {α : Type} (z : α) (n : Nat) (l : List α) : List α := if l.isEmpty then List.replicate n z else l

def zip3 {α β γ : Type} (x : List α) (a : List β) (c : List γ) : List (α × β × γ) :=
  List.zipWith (fun x ac => (x, ac.1, ac.2)) x (List.zip a c)

def outcome {α : Type} (o : Outcome α) (f : α → String) : String :=
  match o with
  | .ok v => f v
  | .err k => "err:" ++ k
  | .panic c => "panic:" ++ c

def isAvx (ts : List String) : Bool := ((kv ts "be").getD "").endsWith "avx"

def kern64 (ts : List String) : String :=
  let op := (kv ts "op").getD ""
  let x := w64s (kvInts ts "x")
  let a := w64s (kvInts ts "a")
  let c := w64s (kvInts ts "c")
  if op == "switch_ring" then
    outcome (if isAvx ts then switchRingAvx x a else switchRingRef x a) (fun r => show64 r ++ "|-")
  else if op == "automorphism" then
    let p := kvInt ts "p"
    outcome (if isAvx ts then automorphismAvx p x a else automorphismRef p x a) (fun r => show64 r ++ "|-")
  else
    let n := x.length
    let p : Params := { b := BitVec.ofNat 64 (kvNat ts "b"), lsh := BitVec.ofNat 64 (kvNat ts "lsh"),
                        k := BitVec.ofInt 64 (kvInt ts "k"), ow := kvNat ts "ow" == 1 }
    let l := zip3 x (pad 0 n a) (pad 0 n c)
    let o := if isAvx ts then sliceAvx op p l else sliceRef op p l
    outcome o (fun r => show64 (r.map Prod.fst) ++ "|" ++ (if c.isEmpty then "-" else show64 (r.map Prod.snd)))

def kern128 (ts : List String) : String :=
  let op := (kv ts "op").getD ""
  let b := BitVec.ofNat 64 (kvNat ts "b")
  let lsh := BitVec.ofNat 64 (kvNat ts "lsh")
  if op.startsWith "nfc_" then
    let x := w64s (kvInts ts "x")
    let n := x.length
    let a := pad 0 n (w128s (kvInts ts "a"))
    let c := w128s (kvInts ts "c")
    let l := zip3 x a c
    let o := if isAvx ts then slice128Avx op b lsh l else slice128Ref op b lsh l
    outcome o (fun r => show64 (r.map Prod.fst) ++ "|" ++ show128 (r.map Prod.snd))
  else
    let x := w128s (kvInts ts "x")
    let n := x.length
    let a := pad 0 n (w128s (kvInts ts "a"))
    let cin := w128s (kvInts ts "c")
    let c := pad 0 n cin
    let l := zip3 x a c
    let o := if isAvx ts then sliceBigAvx op l else sliceBigRef op l
    outcome o (fun r => show128 r ++ "|" ++ (if cin.isEmpty then "-" else show128 cin))

/-- `q120 op=<consts|c_from_b|from_znx64|mul_bbc> be=.. [x=..] [y=..] [h= s2l= s2h= (per prime, 4 values)]`:
NTT120 integer kernels, one request = `nn` coefficients × 4 prime lanes (flattened as the Rust slices). -/
def q120 (ts : List String) : String :=
  let op := (kv ts "op").getD ""
  let avx := isAvx ts
  let qs := Avx.Q120.Q
  let nth := fun (l : List Nat) (k : Nat) => l.getD k 0
  if op == "consts" then
    "q=" ++ showNats qs ++ " crt=" ++ showNats Avx.Q120.CRT_CST
  else if op == "c_from_b" then
    -- x: 4·nn u64 (q120b); answer: 8·nn u32 (q120c)
    let x := kvNats ts "x"
    let out := (x.zipIdx).flatMap (fun (v, i) =>
      let k := i % 4
      let q := nth qs k
      let r := if avx then Avx.Q120.cFromBLane v q (nth Avx.Q120.MU k) (nth Avx.Q120.POW32 k) else Avx.Q120.cFromBRef v q
      [r.1, r.2])
    showNats out
  else if op == "from_znx64" then
    -- x: nn i64; answer: 4·nn u64
    let x := kvInts ts "x"
    let mask := (kv ts "mask").map int!
    let out := x.flatMap (fun v =>
      let v := match mask with
        | some m => (BitVec.ofInt 64 v &&& BitVec.ofInt 64 m).toNat
        | none => (BitVec.ofInt 64 v).toNat
      (List.range 4).map (fun k =>
        if avx then Avx.Q120.bFromZnx64Lane v (nth Avx.Q120.OQ k) else Avx.Q120.bFromZnx64Ref v (nth Avx.Q120.OQ k)))
    showNats out
  else if op == "mul_bbc" then
    -- x: 4·ell u64 (q120b, as the u32 view of the Rust), y: 4·ell u64 (q120c lanes r | rshift << 32); h, s2l, s2h from BbcMeta
    let x := kvNats ts "x"
    let y := kvNats ts "y"
    let h := kvNat ts "h"
    let s2l := kvNats ts "s2l"
    let s2h := kvNats ts "s2h"
    let out := (List.range 4).map (fun k =>
      let l := ((x.zip y).zipIdx).filterMap (fun (xy, i) => if i % 4 == k then some xy else none)
      if avx then Avx.Q120.bbcAvx h (nth s2l k) (nth s2h k) l else Avx.Q120.bbcRef h (nth s2l k) (nth s2h k) l)
    showNats out
  else "bad-op"


/-! ### `nk`: the raw NTT120 kernels (twin of `pvh avx nk`): `be=navx` evaluates the BitVec lane model of `Model/AvxNtt.lean`,
`be=nref` the reference model of `Model/Ntt120.lean` (C07) -/
section Nk
open Avx.Ntt

def everyFourth (l : List Nat) (k : Nat) : List Nat := (l.zipIdx).filterMap (fun (v, i) => if i % 4 == k then some v else none)
def bv (x : Nat) : BitVec 64 := BitVec.ofNat 64 x
def interleave (ls : List (List Nat)) (n : Nat) : List Nat := (List.range n).flatMap (fun i => ls.map (fun l => l.getD i 0))
def chunksOf (c : Nat) : Nat → List (BitVec 64) → List (List (BitVec 64))
  | 0, _ => []
  | fuel + 1, l => if l.isEmpty || c == 0 then [] else l.take c :: chunksOf c fuel (l.drop c)

/-- one prime lane of `ntt` / `intt`; `split` = number of by-level passes (forward) / log2 of the chunk width (inverse) -/
def nttLane (inverse avx : Bool) (n k split : Nat) (lane : List Nat) : Option (List Nat) :=
  match (if inverse then Ntt120.inttTableK Ntt120.primes30 k n else Ntt120.nttTableK Ntt120.primes30 k n) with
  | .ok t =>
    if !avx then some (if inverse then Ntt120.inttK t lane else Ntt120.nttK t lane)
    else if !(fitsTable t) then none
    else
      let v := lane.map bv
      let r := if inverse then inttAvx (redCOf t.reduc) (t.levels.map levelCOf) split (chunksOf (2 ^ split) v.length v)
               else nttAvx (redCOf t.reduc) (t.levels.map levelCOf) split v
      some (r.map BitVec.toNat)
  | _ => none

def termN (x y : Nat) : Nat × Nat × Nat × Nat := (x &&& Ntt120.m32, x >>> 32, y &&& Ntt120.m32, y >>> 32)

def nk (ts : List String) : String :=
  let op := (kv ts "op").getD ""
  let avx := isAvx ts
  let x := kvNats ts "x"
  let y := kvNats ts "y"
  let q := fun k => Q30 k
  let qs := fun k => Ntt120.qShifted (Q30 k)
  let lane1 := fun (f : Nat → Nat → Nat) => showNats ((x.zipIdx).map (fun (v, i) => f (i % 4) v))
  let lane2 := fun (f : Nat → Nat → Nat → Nat) => showNats (((x.zip y).zipIdx).map (fun (vw, i) => f (i % 4) vw.1 vw.2))
  if op == "ntt" || op == "intt" then
    let n := kvNat ts "n"
    let inverse := op == "intt"
    let lg := Nat.log2 n
    let split := match kv ts "split" with
      | some s => s.toNat?.getD 0
      | none => if inverse then min lg 10 else lg - 10
    if n == 1 then showNats x
    else
      let ls := (List.range 4).map (fun k => nttLane inverse avx n k split (everyFourth (x.take (4 * n)) k))
      if ls.any Option.isNone then "nofit"
      else showNats (interleave (ls.map (fun o => o.getD [])) n ++ x.drop (4 * n))
  else if op == "add" || op == "add_assign" then
    lane2 (fun k a b => if avx then (nttAdd (bv (qs k)) (bv a) (bv b)).toNat else Ntt120.addBbbK (q k) a b)
  else if op == "sub" || op == "sub_assign" then
    lane2 (fun k a b => if avx then (nttSub (bv (qs k)) (bv a) (bv b)).toNat else Ntt120.subBbbK (q k) a b)
  else if op == "sub_negate_assign" then
    lane2 (fun k r a => if avx then (nttSub (bv (qs k)) (bv a) (bv r)).toNat else Ntt120.subBbbK (q k) a r)
  else if op == "negate" || op == "negate_assign" then
    lane1 (fun k a => if avx then (nttNegate (bv (qs k)) (bv a)).toNat else Ntt120.negBK (q k) a)
  else if op == "to_znx128" then
    let n := x.length / 4
    showInts ((List.range n).map (fun j =>
      let g := fun k => x.getD (4 * j + k) 0
      if avx then bToZnx128AvxCoef ⟨bv (g 0), bv (g 1), bv (g 2), bv (g 3)⟩ qV muV p32V p16V crtV hiV midV loV totQ30
      else Ntt120.bToZnx128Core Ntt120.primes30 (g 0) (g 1) (g 2) (g 3)))
  else if op == "mul_bbb" then
    let h := kvNat ts "h"
    let c := fun (name : String) (k : Nat) => (kvNats ts name).getD k 0
    let s1h := kvNat ts "s1h"
    showNats ((List.range 4).map (fun k =>
      let rows := (everyFourth x k).zip (everyFourth y k)
      if avx then
        (bbbLane (bv (Ntt120.maskOf h)) (bv h) (bv s1h) (bv (c "s2l" k)) (bv (c "s2h" k)) (bv (c "s3l" k)) (bv (c "s3h" k))
          (bv (c "s4l" k)) (bv (c "s4h" k)) (rows.map (fun p => (bv p.1, bv p.2)))).toNat
      else Ntt120.bbbK h s1h (c "s2l" k) (c "s2h" k) (c "s3l" k) (c "s3h" k) (c "s4l" k) (c "s4h" k) rows))
  else if op == "mul_bbc_x2" || op == "mul_bbc_2cols" then
    let h := kvNat ts "h"
    let s2l := kvNats ts "s2l"
    let s2h := kvNats ts "s2h"
    let ell := x.length / 8
    let two := op == "mul_bbc_2cols"
    let words := if two then 4 else 2
    showNats ((List.range words).flatMap (fun w => (List.range 4).map (fun k =>
      let rows := (List.range ell).map (fun i =>
        (x.getD (i * 8 + (w % 2) * 4 + k) 0, y.getD (if two then i * 16 + w * 4 + k else i * 8 + w * 4 + k) 0))
      if avx then (bbcLane (bv (Ntt120.maskOf h)) (bv h) (bv (s2l.getD k 0)) (bv (s2h.getD k 0)) (rows.map (fun p => (bv p.1, bv p.2)))).toNat
      else Ntt120.bbcK h (s2l.getD k 0) (s2h.getD k 0) (rows.map (fun p => termN p.1 p.2)))))
  else if op == "pack_left" || op == "pairwise_pack_left" then
    let rows := kvNat ts "rows"
    let stride := kvNat ts "stride"
    let blk := kvNat ts "blk"
    let mu := fun k => 2 ^ 61 / Q30 k
    let pw := fun k => 2 ^ 32 % Q30 k
    showNats ((List.range rows).flatMap (fun r => (List.range 8).map (fun j =>
      let k := j % 4
      let a := x.getD (r * stride + 8 * blk + j) 0
      let b := y.getD (r * stride + 8 * blk + j) 0
      if op == "pack_left" then
        (if avx then (reduceBToCanonical (bv a) (bv (q k)) (bv (mu k)) (bv (pw k))).toNat else a % q k)
      else
        (if avx then (pairwisePackLeft (bv a) (bv b) (bv (q k)) (bv (mu k)) (bv (pw k))).toNat
         else (let s := a % q k + b % q k; if s ≥ q k then s - q k else s)))))
  else if op == "pack_right" || op == "pairwise_pack_right" then
    -- operands are u32 arrays carried as u64 words; `stride` in u32 units (even)
    let rows := kvNat ts "rows"
    let stride := kvNat ts "stride"
    let blk := kvNat ts "blk"
    showNats ((List.range rows).flatMap (fun r => (List.range 8).map (fun j =>
      let idx := ((rows - 1 - r) * stride + 16 * blk) / 2 + j
      let a := x.getD idx 0
      let b := y.getD idx 0
      if op == "pack_right" then a
      else
        let add32 := fun (u v : Nat) => if avx then (add_epi32 (BitVec.ofNat 32 u) (BitVec.ofNat 32 v)).toNat else (u + v) % 2 ^ 32
        add32 (a % 2 ^ 32) (b % 2 ^ 32) + add32 (a / 2 ^ 32) (b / 2 ^ 32) * 2 ^ 32)))
  else "bad-op"

end Nk

/-- `cnvk be=<fref|favx> dst= off= asz= x= y=`: `I64Ops::i64_convolution_by_const` on one block (twin of `pvh avx cnvk`);
`old=1` evaluates the kernels before repair 34 -/
def cnvk (ts : List String) : String :=
  let a := w64s (kvInts ts "x")
  let b := w64s (kvInts ts "y")
  let (d, o, sz) := (kvNat ts "dst", kvNat ts "off", kvNat ts "asz")
  if sz == 0 then "panic:assert"
  else
    let r := if !(isAvx ts) then Avx.Cnv.byConstRef d o a sz b
             else if kvNat ts "old" == 1 then Avx.Cnv.byConstAvxOld d o a sz b else Avx.Cnv.byConstAvx d o a sz b
    show64 r

def handle (ts : List String) : String :=
  match ts with
  | "q120" :: rest => q120 rest
  | "cnvk" :: rest => cnvk rest
  | "nk" :: rest => nk rest
  | "kern" :: rest =>
    let op := (kv rest "op").getD ""
    if op.startsWith "nfc_" || op.startsWith "i128_" then kern128 rest else kern64 rest
  | _ => "bad-op"

end Drv.Avx
