import Poulpy.Driver.Util
import Poulpy.Model.Fft64
import Poulpy.Model.Fft64Avx
import Poulpy.Model.Fft64Cnv

/-!
Model driver for `fft64` — twin of `pvh fft64` (harness/src/cmd_fft64.rs).
Request `id fft64 <op> k=v …` → `id <result>`.  Every `f64` is its 64-bit pattern in decimal; vectors are flat
reim layouts (`re… , im…`), `,` between values, `;` between vectors; `K = log2 m` (`m = n/2` complex points).
The twiddle tables are request fields (`omg=`, `iomg=`: the `2m` patterns the harness dumps with `tab`).

  fadd|fsub|fmul a=… b=…      element-wise scalar operations          → patterns
  fneg a=…                                                           → patterns
  from x=<i64…>              `as f64`                                 → patterns
  to k=<K> x=<patterns>      `(x * (1/2^K)).round() as i64`           → integers
  fft|ifft k= omg= x=        `fft_ref` / `ifft_ref`                   → patterns | err:nonfinite
  mul a= b= | addmul r= a= b=  `reim_mul_ref` / `reim_addmul_ref`      → patterns
  pipe k= omg= iomg= a= b=   svp_prepare(a); svp_apply_dft(b); idft  → integers
  vmp k= omg= iomg= a=v;v;… b=v;v;…  rows of vmp_prepare / vmp_apply_dft, one column; idft → integers
  ffma a= b= c=              `fl(a·b + c)` (one rounding)               → patterns
  `be=avx` on from|to|fft|ifft|mul|addmul|pipe|vmp selects the model of FFT64Avx (`Model/Fft64Avx.lean`); `mul`/`addmul`
  take `k=` there (reference fallback for `m % 4 ≠ 0`); `vmp2 [be=avx] k= … a= b= b2= [off=1]`: matrix with two output
  limbs (2-column kernels) → `limb0|limb1`, or with `off=1` (`vmp_apply_dft_to_dft`, `limb_offset = 1`) the second only
  cnv [be=] k= rs= off= sl= sr= ml= mr= a=l;l;… b=l;l;…   cnv_prepare_left/right (prepared sizes sl/sr, masks ml/mr), cnv_apply_dft,
                             idft of every limb (one column) → `limb;limb;…`;  cnvp: the same with a0= a1= b0= b1= through
                             cnv_pairwise_apply_dft(i=0, j=1);  cnvc [be=] k= rs= off= a=l;l;… c=<i64,…>: cnv_by_const_apply
  idx k= dir=f|i             for every block in network order `lvl:blk:ire:iim:imode:jnum:jlog` (what the
                             numerical twiddle check of the gate reads: positions from `fwdIdx`/`invIdx`,
                             intended angle `j = jnum / 2^jlog` from `jpar`)
-/

namespace Drv.Fft64
open _root_.Fft64 _root_.F64 _root_.Fft64Avx _root_.Fft64Cnv

def showOut : Outcome (List Nat) → String
  | .ok v => if v.all isFinite then showNats v else "err:nonfinite"
  | .err k => "err:" ++ k
  | .panic c => "panic:" ++ c

def finiteOr (v : List Nat) : String := if v.all isFinite then showNats v else "err:nonfinite"

def vecs (ts : List String) (k : String) : List (List Int) :=
  match kv ts k with
  | none => []
  | some s => (s.splitOn ";").map ints

def halves (K : Nat) (d : List Nat) : List C64 := (d.take (2 ^ K)).zip (d.drop (2 ^ K))

def idxDump (K : Nat) (inverse : Bool) : String :=
  let rows := (List.range K).flatMap (fun lvl => (List.range (2 ^ lvl)).map (fun blk =>
    let p := if inverse then invIdx K lvl blk else fwdIdx K lvl blk
    let j := jpar lvl blk
    s!"{lvl}:{blk}:{p.1}:{p.2.1}:{if p.2.2 then 1 else 0}:{j.1}:{j.2}"))
  if rows.isEmpty then "-" else ",".intercalate rows

def showI : Outcome (List Int) → String
  | .ok v => showInts v
  | .err k => "err:" ++ k
  | .panic c => "panic:" ++ c

def handleAvx (op : String) (args : List String) : String :=
  let K := kvNat args "k"
  let a := kvNats args "a"
  let b := kvNats args "b"
  let x := kvNats args "x"
  let omg := (kvNats args "omg").toArray
  let iomg := (kvNats args "iomg").toArray
  match op with
  | "from" => match fromZnxAvx (kvInts args "x") with
    | .ok v => showNats v
    | .panic c => "panic:" ++ c
    | .err e => "err:" ++ e
  | "to" => showInts (toZnxAvx K x)
  | "fft" => showOut (fftAvx K omg x)
  | "ifft" => showOut (ifftAvx K omg x)
  | "mul" =>
    if a.length ≠ b.length ∨ a.length ≠ 2 * 2 ^ K then "panic:assert"
    else finiteOr (flat (List.zipWith (cmulAvx K) (halves K a) (halves K b)))
  | "addmul" =>
    let r := kvNats args "r"
    if a.length ≠ b.length ∨ a.length ≠ r.length ∨ a.length ≠ 2 * 2 ^ K then "panic:assert"
    else finiteOr (flat (List.zipWith (fun s uv => caddmulAvx K s uv.1 uv.2) (halves K r) ((halves K a).zip (halves K b))))
  | "pipe" =>
    let p := kvInts args "a"
    let v := kvInts args "b"
    if omg.size ≠ tabAlloc K ∨ iomg.size ≠ tabAlloc K then "err:table"
    else if p.length ≠ 2 * 2 ^ K ∨ v.length ≠ 2 * 2 ^ K then "err:shape"
    else showI (svpPipelineAvx K omg iomg p v)
  | "vmp" | "vmp2" =>
    let as := vecs args "a"
    let bs := vecs args "b"
    let b2 := vecs args "b2"
    if omg.size ≠ tabAlloc K ∨ iomg.size ≠ tabAlloc K then "err:table"
    else if as.length ≠ bs.length ∨ (as ++ bs ++ b2).any (fun v => v.length ≠ 2 * 2 ^ K) then "err:shape"
    else if op == "vmp" then showI (vmpPipelineAvx K omg iomg 1 (as.zip bs))
    else if as.length ≠ b2.length then "err:shape"
    else
      let l1 := vmpPipelineAvx K omg iomg 2 (as.zip b2)
      if kv args "off" == some "1" then showI l1
      else match vmpPipelineAvx K omg iomg 2 (as.zip bs), l1 with
        | .ok u, .ok v => showInts u ++ "|" ++ showInts v
        | .panic c, _ => "panic:" ++ c
        | _, .panic c => "panic:" ++ c
        | _, _ => "err:internal"
  | _ => "bad-op"

def showLimbs : Outcome (List (List Int)) → String
  | .ok v => if v.isEmpty then "-" else ";".intercalate (v.map showInts)
  | .err k => "err:" ++ k
  | .panic c => "panic:" ++ c

/-- convolution ops (both back ends): `cnv`, `cnvp` (pairwise, two columns), `cnvc` (by constants) -/
def handleCnv (op : String) (args : List String) : String :=
  let K := kvNat args "k"
  let avx := kv args "be" == some "avx"
  let o := if avx then avxOps else refOps
  let omg := (kvNats args "omg").toArray
  let iomg := (kvNats args "iomg").toArray
  let rs := kvNat args "rs"
  let off := kvNat args "off"
  let n := 2 * 2 ^ K
  let bad := fun (c : List (List Int)) => c.any (fun v => v.length ≠ n)
  match op with
  | "cnv" =>
    let a := vecs args "a"
    let b := vecs args "b"
    if omg.size ≠ tabAlloc K ∨ iomg.size ≠ tabAlloc K then "err:table" else if bad a ∨ bad b then "err:shape"
    else showLimbs (cnvPipeline o K omg iomg rs off (kvNat args "sl") (kvNat args "sr") (kvInt args "ml") (kvInt args "mr") a b)
  | "cnvp" =>
    let a0 := vecs args "a0"; let a1 := vecs args "a1"; let b0 := vecs args "b0"; let b1 := vecs args "b1"
    if omg.size ≠ tabAlloc K ∨ iomg.size ≠ tabAlloc K then "err:table" else if bad a0 ∨ bad a1 ∨ bad b0 ∨ bad b1 then "err:shape"
    else showLimbs (cnvPairwise o K omg iomg rs off (kvNat args "sl") (kvNat args "sr") (kvInt args "ml") (kvInt args "mr") a0 a1 b0 b1)
  | _ =>
    let a := vecs args "a"
    if bad a then "err:shape" else showLimbs (cnvByConst avx K rs off a (kvInts args "c"))

def handle (ts : List String) : String :=
  match ts with
  | [] => "bad-op"
  | op :: args =>
    if op == "cnv" || op == "cnvp" || op == "cnvc" then handleCnv op args else
    if kv args "be" == some "avx" then handleAvx op args else
    let K := kvNat args "k"
    let a := kvNats args "a"
    let b := kvNats args "b"
    let x := kvNats args "x"
    match op with
    | "fadd" => showNats (List.zipWith add a b)
    | "fsub" => showNats (List.zipWith sub a b)
    | "fmul" => showNats (List.zipWith mul a b)
    | "fneg" => showNats (a.map neg)
    | "ffma" => showNats ((List.zipWith (fun p c => F64.fma p.1 p.2 c) (a.zip b) (kvNats args "c")))
    | "vmp2" =>
      let omg := (kvNats args "omg").toArray
      let iomg := (kvNats args "iomg").toArray
      let as := vecs args "a"
      let bs := vecs args "b"
      let b2 := vecs args "b2"
      if omg.size ≠ tabAlloc K ∨ iomg.size ≠ tabAlloc K then "err:table"
      else if as.length ≠ bs.length ∨ as.length ≠ b2.length ∨ (as ++ bs ++ b2).any (fun v => v.length ≠ 2 * 2 ^ K) then "err:shape"
      else
        let l1 := vmpApply K omg iomg (as.zip b2)
        if kv args "off" == some "1" then showI l1
        else match vmpApply K omg iomg (as.zip bs), l1 with
          | .ok u, .ok v => showInts u ++ "|" ++ showInts v
          | .panic c, _ => "panic:" ++ c
          | _, .panic c => "panic:" ++ c
          | _, _ => "err:internal"
    | "from" => showNats (fromZnx (kvInts args "x"))
    | "to" => showInts (toZnx K x)
    | "fft" => showOut (fftRef K (kvNats args "omg").toArray x)
    | "ifft" => showOut (ifftRef K (kvNats args "omg").toArray x)
    | "mul" =>
      if a.length ≠ b.length ∨ a.length % 2 = 1 then "panic:assert"
      else finiteOr (flat (pointwise cmul (halves (Nat.log2 (a.length / 2)) a) (halves (Nat.log2 (a.length / 2)) b)))
    | "addmul" =>
      let r := kvNats args "r"
      if a.length ≠ b.length ∨ a.length ≠ r.length ∨ a.length % 2 = 1 then "panic:assert"
      else
        let k := Nat.log2 (a.length / 2)
        finiteOr (flat (List.zipWith (fun s uv => caddmul s uv.1 uv.2) (halves k r) ((halves k a).zip (halves k b))))
    | "pipe" =>
      let omg := (kvNats args "omg").toArray
      let iomg := (kvNats args "iomg").toArray
      let p := kvInts args "a"
      let v := kvInts args "b"
      if omg.size ≠ tabAlloc K ∨ iomg.size ≠ tabAlloc K then "err:table"
      else if p.length ≠ 2 * 2 ^ K ∨ v.length ≠ 2 * 2 ^ K then "err:shape"
      else showInts (svpPipeline K omg iomg p v)
    | "vmp" =>
      let omg := (kvNats args "omg").toArray
      let iomg := (kvNats args "iomg").toArray
      let as := vecs args "a"
      let bs := vecs args "b"
      if omg.size ≠ tabAlloc K ∨ iomg.size ≠ tabAlloc K then "err:table"
      else if as.length ≠ bs.length ∨ (as ++ bs).any (fun v => v.length ≠ 2 * 2 ^ K) then "err:shape"
      else match vmpApply K omg iomg (as.zip bs) with
        | .ok v => showInts v
        | .err e => "err:" ++ e
        | .panic c => "panic:" ++ c
    | "idx" => idxDump K (kv args "dir" == some "i")
    | _ => "bad-op"

end Drv.Fft64
