import Poulpy.Driver.Util
import Poulpy.Model.Core.Ep

/-!
Model driver for the `ep` command (external products, CMux) — the counterpart of
`harness/src/cmd_ep.rs`.

Request:  `id ep op=<glwe|cmux|cmux_assign|cmux_assign_neg|cswap|mat> [gglwe=1] big=<0|1> n=N bo=<res base2k> so=<res size>
           bi=<a base2k> gp=<base2k>,<rank>,<dsize>,<dnum>,<size> g=<ints> a=<C>x<S>:<ints> [f=<C>x<S>:<ints>]
           [rows=<rowsRes>,<rowsA>,<colsIn>] [r0=<C>x<S>:<ints> t0=<C>x<S>:<ints>]`
Answer:   `id <C>x<S>:<ints>` (cells separated by `;` for `op=mat`), `panic:<class>` or `err:<kind>`.

Canonical order of every integer list: (cell,) column, limb, coefficient — decimal, comma separated.
`g` lists the EpGGSW cells in (row, input column) order.  In-place forms are requested with `a` = the
prior content of `res` (`op=glwe`, `bi = bo`, `so` = its size).
-/

namespace Drv.Ep
open Core

/-- split a flat list into `cols` columns of `size` limbs of `n` coefficients -/
def chunk {α} (k : Nat) (l : List α) : List (List α) :=
  if k = 0 then [] else (List.range ((l.length + k - 1) / k)).map (fun i => (l.drop (i * k)).take k)

def mkCols (n cols size : Nat) (v : List Int) : List Col :=
  ((chunk n v).take (cols * size) |> chunk size).take cols

/-- `CxS:ints` → (cols, size, ints) -/
def parseVec (n : Nat) (s : String) : Option (List Col) :=
  match s.splitOn ":" with
  | [hd, body] =>
    match hd.splitOn "x" with
    | [c, z] =>
      let cols := nat! c
      let size := nat! z
      let v := ints body
      if v.length == cols * size * n then some (mkCols n cols size v) else none
    | _ => none
  | _ => none

def showVec (x : List Col) : String :=
  let size := (x.getD 0 []).length
  s!"{x.length}x{size}:" ++ showInts (x.flatMap (fun c => c.flatMap id))

def showOutcome (o : Outcome (List Col)) : String :=
  match o with
  | .ok v => showVec v
  | .err e => "err:" ++ e
  | .panic p => "panic:" ++ p

def handle (ts : List String) : String :=
  let n := kvNat ts "n"
  let big := kvNat ts "big" == 1
  let bo := kvNat ts "bo"
  let so := kvNat ts "so"
  let bi := kvNat ts "bi"
  match kvNats ts "gp" with
  | [gb, rank, dsize, dnum, gsize] =>
    let gd := kvInts ts "g"
    let cols := rank + 1
    if gd.length != dnum * cols * cols * gsize * n then "err:parse-g" else
    let cells := (chunk (cols * gsize * n) gd).map (mkCols n cols gsize)
    let g : EpGGSW := { base2k := gb, n := n, rank := rank, dsize := dsize, dnum := dnum, size := gsize, cells := cells }
    let zero := zeroCols n cols gsize
    let r0 := ((kv ts "r0").bind (parseVec n)).getD zero
    let t0 := ((kv ts "t0").bind (parseVec n)).getD zero
    match (kv ts "op").getD "", (kv ts "a").bind (parseVec n) with
    | "glwe", some a => showOutcome (glweExternalProduct big n bo so a bi g)
    | "cmux", some t =>
      match (kv ts "f").bind (parseVec n) with
      | some f => showOutcome (cmux big n bo so t f g r0 t0)
      | none => "err:parse-f"
    | "cmux_assign", some res =>
      match (kv ts "f").bind (parseVec n) with
      | some a => showOutcome (cmuxAssign big n bo res a g r0 t0)
      | none => "err:parse-f"
    | "cmux_assign_neg", some res =>
      match (kv ts "f").bind (parseVec n) with
      | some a => showOutcome (cmuxAssignNeg big n bo res a g r0 t0)
      | none => "err:parse-f"
    | "cswap", some ra =>
      match (kv ts "f").bind (parseVec n) with
      | some rb =>
        match cswap big n bo ra rb g r0 t0 with
        | .ok (x, y) => showVec x ++ ";" ++ showVec y
        | .err e => "err:" ++ e
        | .panic p => "panic:" ++ p
      | none => "err:parse-f"
    | "mat", _ =>
      match kvNats ts "rows", (kv ts "am").map (fun s => s.splitOn ";") with
      | [rowsRes, rowsA, colsIn], some cellsS =>
        match cellsS.mapM (parseVec n) with
        | some am =>
          match matExternalProduct big n bo so rowsRes rowsA colsIn am bi g (kvNat ts "gglwe" == 1) with
          | .ok cs => ";".intercalate (cs.map showVec)
          | .err e => "err:" ++ e
          | .panic p => "panic:" ++ p
        | none => "err:parse-am"
      | _, _ => "err:parse-rows"
    | _, _ => "err:parse-a"
  | _ => "err:parse-gp"

end Drv.Ep
