import Poulpy.Driver.Util
import Poulpy.Model.HalSpec

/-!
Model driver for `hal` programs — same request format as `pvh hal` (harness/src/cmd_hal.rs):
`id hal be=… n=N ; stmt ; stmt ; …` → `id ok NAME=<cols>x<size>:v,… …`.
A limb clobbered by an operation that uses its operand as scratch (`idft_tmpa`) is printed as `?`
per coefficient and compared as a wildcard.
-/

namespace Drv.Hal
open _root_.Hal

structure Gen where
  kind : Nat          -- 0 zero, 1 random, 2 explicit
  bits : Nat
  state : UInt64
  data : List Int

def Gen.parse (s : String) : Gen :=
  if s == "z" then { kind := 0, bits := 0, state := 0, data := [] }
  else if s.startsWith "d:" then { kind := 2, bits := 0, state := 0, data := ints (s.drop 2).toString }
  else
    match (s.drop 1).toString.splitOn ":" with
    | [b, seed] => { kind := 1, bits := nat! b, state := UInt64.ofNat (nat! seed), data := [] }
    | _ => { kind := 0, bits := 0, state := 0, data := [] }

def Gen.next (g : Gen) : Int × Gen :=
  match g.kind with
  | 0 => (0, g)
  | 1 =>
    let s := g.state + 0x9E3779B97F4A7C15
    let z := s
    let z := (z ^^^ (z >>> 30)) * 0xBF58476D1CE4E5B9
    let z := (z ^^^ (z >>> 27)) * 0x94D049BB133111EB
    let z := z ^^^ (z >>> 31)
    let v : Int :=
      if g.bits == 0 then 0
      else if g.bits ≥ 64 then w64 (Int.ofNat z.toNat)
      else
        let m := z.toNat % 2 ^ g.bits
        if m ≥ 2 ^ (g.bits - 1) then (Int.ofNat m) - 2 ^ g.bits else Int.ofNat m
    (v, { g with state := s })
  | _ =>
    match g.data with
    | [] => (0, g)
    | x :: rest => (x, { g with data := rest })

def Gen.poly (g : Gen) (n : Nat) : Poly × Gen :=
  (List.range n).foldl (fun (acc : Poly × Gen) _ => let (v, g') := acc.2.next; (acc.1 ++ [v], g')) ([], g)

def Gen.col (g : Gen) (n size : Nat) : Col × Gen :=
  (List.range size).foldl (fun (acc : Col × Gen) _ => let (p, g') := acc.2.poly n; (acc.1 ++ [p], g')) ([], g)

def Gen.cols (g : Gen) (n cols size : Nat) : List Col × Gen :=
  (List.range cols).foldl (fun (acc : List Col × Gen) _ => let (c, g') := acc.2.col n size; (acc.1 ++ [c], g')) ([], g)

inductive Obj where
  | buf (kind : String) (b : Buf)            -- kind ∈ vec, big, dft
  | sca (cols : List Poly)
  | mat (m : PMat)
  | svp (cols : List Poly)
  | vmp (m : PMat)
  | cnv (side : String) (b : Buf)

abbrev Env := List (String × Obj)

def Env.get (e : Env) (k : String) : Option Obj := (e.find? (fun p => p.1 == k)).map (·.2)
def Env.put (e : Env) (k : String) (o : Obj) : Env := (k, o) :: e.filter (fun p => p.1 != k)

def getBuf (e : Env) (k : String) : Option (String × Buf) :=
  match e.get k with
  | some (.buf kind b) => some (kind, b)
  | some (.cnv side b) => some (side, b)
  | _ => none

/-- `?`-poison: a clobbered limb is the empty polynomial -/
def poison : Poly := []

def showPoly (n : Nat) (p : Poly) : List String :=
  if p.length == n then p.map toString else List.replicate n "?"

def dumpBuf (name : String) (b : Buf) : String :=
  let vals := (List.range b.cols).flatMap (fun c => (b.act c).flatMap (showPoly b.n))
  s!"{name}={b.cols}x{b.size}:" ++ (if vals.isEmpty then "-" else ",".intercalate vals)

def mkBuf (n cols size : Nat) (data : List Col) : Buf := { n := n, cols := cols, size := size, maxSize := size, data := data }

/-- Executes one statement; `none` = model-level panic (unknown buffer, index out of range …). -/
def stmt (be : String) (n : Nat) (e : Env) (out : List String) (st : List String) : Option (Env × List String) :=
  let N := nat!
  let wrapBig : Int → Int := if be.startsWith "ntt120" then w128 else w64
  match st with
  | ["cnv_by_const", off, b, bc, x, xc, cs] =>
    match getBuf e b, getBuf e x with
    | some (kb, bb), some (_, bx) =>
      if N bc < bb.cols ∧ N xc < bx.cols then
        some (e.put b (.buf kb (opCnvByConst wrapBig (N off) bb (N bc) bx (N xc) (ints cs))), out)
      else none
    | _, _ => none
  | ["vec", x, cols, size, g] =>
    let (d, _) := (Gen.parse g).cols n (N cols) (N size)
    some (e.put x (.buf "vec" (mkBuf n (N cols) (N size) d)), out)
  | ["big", x, cols, size, g] =>
    let (d, _) := (Gen.parse g).cols n (N cols) (N size)
    some (e.put x (.buf "big" (mkBuf n (N cols) (N size) d)), out)
  | ["dft", x, cols, size, g] =>
    let (d, _) := (Gen.parse g).cols n (N cols) (N size)
    some (e.put x (.buf "dft" (mkBuf n (N cols) (N size) d)), out)
  | ["sca", x, cols, g] =>
    let (d, _) := (Gen.parse g).col n (N cols)
    some (e.put x (.sca d), out)
  | ["mat", x, rows, cin, cout, size, g] =>
    let cells := N rows * N cin
    let (d, _) := (List.range cells).foldl (fun (acc : List (List Col) × Gen) _ =>
      let (c, g') := acc.2.cols n (N cout) (N size); (acc.1 ++ [c], g')) ([], Gen.parse g)
    some (e.put x (.mat { n := n, rows := N rows, colsIn := N cin, colsOut := N cout, size := N size, data := d }), out)
  | ["svp", x, cols] => some (e.put x (.svp (List.replicate (N cols) (zeroP n))), out)
  | ["vmp", x, rows, cin, cout, size] =>
    some (e.put x (.vmp { n := n, rows := N rows, colsIn := N cin, colsOut := N cout, size := N size,
                          data := List.replicate (N rows * N cin) (List.replicate (N cout) (List.replicate (N size) (zeroP n))) }), out)
  | ["cnvl", x, cols, size] =>
    some (e.put x (.cnv "cnvl" (mkBuf n (N cols) (N size) (List.replicate (N cols) (List.replicate (N size) (zeroP n))))), out)
  | ["cnvr", x, cols, size] =>
    some (e.put x (.cnv "cnvr" (mkBuf n (N cols) (N size) (List.replicate (N cols) (List.replicate (N size) (zeroP n))))), out)
  | ["setsize", x, s] =>
    match e.get x with
    | some (.buf kind b) => if N s ≤ b.maxSize then some (e.put x (.buf kind { b with size := N s }), out) else none
    | _ => none
  | ["dft_apply", step, off, d, dc, x, xc] =>
    match getBuf e d, getBuf e x with
    | some (kd, bd), some (_, bx) =>
      if N dc < bd.cols ∧ N xc < bx.cols ∧ N step > 0 then
        some (e.put d (.buf kd (opDftApply (N step) (N off) bd (N dc) bx (N xc))), out)
      else none
    | _, _ => none
  | ["dft_copy", step, off, d, dc, a, ac] =>
    match getBuf e d, getBuf e a with
    | some (kd, bd), some (_, ba) =>
      if N dc < bd.cols ∧ N ac < ba.cols ∧ N step > 0 then
        some (e.put d (.buf kd (opDftApply (N step) (N off) bd (N dc) ba (N ac))), out)
      else none
    | _, _ => none
  | ["idft", b, bc, d, dc] =>
    match getBuf e b, getBuf e d with
    | some (kb, bb), some (_, bd) =>
      if N bc < bb.cols ∧ N dc < bd.cols then
        some (e.put b (.buf kb (opIdft bb (N bc) bd (N dc))), out)
      else none
    | _, _ => none
  | ["idft_tmpa", b, bc, d, dc] =>
    match getBuf e b, getBuf e d with
    | some (kb, bb), some (kd, bd) =>
      if N bc < bb.cols ∧ N dc < bd.cols then
        let a := bd.act (N dc)
        let minSize := min bb.size a.length
        let clobbered := a.mapIdx (fun j p => if j < minSize then poison else p)
        let e1 := e.put b (.buf kb (opIdft bb (N bc) bd (N dc)))
        some (e1.put d (.buf kd (bd.setAct (N dc) clobbered)), out)
      else none
    | _, _ => none
  | ["idft_consume", b, d] =>
    match getBuf e d with
    | some (_, bd) =>
      let nb : Buf := { n := n, cols := bd.cols, size := bd.size, maxSize := bd.size, data := (List.range bd.cols).map bd.act }
      some (Env.put (e.filter (fun p => p.1 != d)) b (.buf "big" nb), out)
    | none => none
  | ["dft_add_scaled_assign", d, dc, a, ac, scale] =>
    match getBuf e d, getBuf e a with
    | some (kd, bd), some (_, ba) =>
      if N dc < bd.cols ∧ N ac < ba.cols then
        some (e.put d (.buf kd (opAddScaledAssign bd (N dc) ba (N ac) (int! scale))), out)
      else none
    | _, _ => none
  | ["dft_zero", d, dc] =>
    match getBuf e d with
    | some (kd, bd) =>
      if N dc < bd.cols then some (e.put d (.buf kd (opZero bd (N dc))), out) else none
    | none => none
  | ["vmp_prepare", p, m] =>
    match e.get p, e.get m with
    | some (.vmp pm), some (.mat mm) =>
      if pm.rows == mm.rows ∧ pm.colsIn == mm.colsIn ∧ pm.colsOut == mm.colsOut ∧ pm.size == mm.size then
        some (e.put p (.vmp mm), out)
      else none
    | _, _ => none
  | ["vmp_apply_dft_to_dft", d, a, p, lo] =>
    match getBuf e d, getBuf e a, e.get p with
    | some (kd, bd), some (_, ba), some (.vmp pm) =>
      if bd.cols == pm.colsOut ∧ ba.cols == pm.colsIn then
        some (e.put d (.buf kd (opVmp bd ba pm (N lo))), out)
      else none
    | _, _, _ => none
  | ["vmp_apply_dft", d, x, p] =>
    match getBuf e d, getBuf e x, e.get p with
    | some (kd, bd), some (_, bx), some (.vmp pm) =>
      if bd.cols == pm.colsOut ∧ bx.cols == pm.colsIn then
        -- a_dft has `min(a.size, rows)` limbs
        let sz := min bx.size pm.rows
        let bxa : Buf := { bx with size := sz }
        some (e.put d (.buf kd (opVmp bd bxa pm 0)), out)
      else none
    | _, _, _ => none
  | ["cnv_prepare_self", l, r, x, mask] =>
    match e.get l, e.get r, getBuf e x with
    | some (.cnv sl bl), some (.cnv sr br), some (_, bx) =>
      if bl.cols == bx.cols ∧ br.cols == bx.cols ∧ bl.size == br.size then
        let nb := opCnvPrepare bl bx (int! mask)
        let nr := (List.range br.cols).foldl (fun (acc : Buf) c => acc.setAct c (nb.act c)) br
        some ((e.put l (.cnv sl nb)).put r (.cnv sr nr), out)
      else none
    | _, _, _ => none
  | ["cnv_apply_dft", off, d, dc, l, lc, r, rc] =>
    match getBuf e d, getBuf e l, getBuf e r with
    | some (kd, bd), some (_, bl), some (_, br) =>
      if N dc < bd.cols ∧ N lc < bl.cols ∧ N rc < br.cols ∧ bl.size > 0 ∧ br.size > 0 then
        some (e.put d (.buf kd (opCnvApply (N off) bd (N dc) bl (N lc) br (N rc))), out)
      else none
    | _, _, _ => none
  | ["cnv_pairwise", off, d, dc, l, r, i, j] =>
    match getBuf e d, getBuf e l, getBuf e r with
    | some (kd, bd), some (_, bl), some (_, br) =>
      if N dc < bd.cols ∧ N i < bl.cols ∧ N j < bl.cols ∧ N i < br.cols ∧ N j < br.cols ∧ bl.size > 0 ∧ br.size > 0 then
        some (e.put d (.buf kd (opCnvPairwise (N off) bd (N dc) bl br (N i) (N j))), out)
      else none
    | _, _, _ => none
  | ["dump", x] =>
    match getBuf e x with
    | some (_, b) => some (e, out ++ [dumpBuf x b])
    | none => none
  | [op, d, dc, a, ac, b, bc] =>
    if op == "dft_add" || op == "dft_sub" then
      match getBuf e d, getBuf e a, getBuf e b with
      | some (kd, bd), some (_, ba), some (_, bb) =>
        if N dc < bd.cols ∧ N ac < ba.cols ∧ N bc < bb.cols then
          let f := if op == "dft_add" then polyAdd else polySub
          some (e.put d (.buf kd (opZipExt f bd (N dc) ba (N ac) bb (N bc))), out)
        else none
      | _, _, _ => none
    else if op == "svp_apply_dft" || op == "svp_apply_dft_to_dft" then
      -- d dc S sc X xc
      match getBuf e d, e.get a, getBuf e b with
      | some (kd, bd), some (.svp sp), some (_, bx) =>
        if N dc < bd.cols ∧ N ac < sp.length ∧ N bc < bx.cols then
          some (e.put d (.buf kd (opSvpApply bd (N dc) (sp.getD (N ac) []) bx (N bc))), out)
        else none
      | _, _, _ => none
    else none
  | [op, d, dc, a, ac] =>
    if op == "svp_prepare" then
      match e.get d, e.get a with
      | some (.svp sp), some (.sca sc) =>
        if N dc < sp.length ∧ N ac < sc.length then some (e.put d (.svp (sp.set (N dc) (sc.getD (N ac) []))), out) else none
      | _, _ => none
    else if op == "svp_apply_dft_to_dft_assign" then
      match getBuf e d, e.get a with
      | some (kd, bd), some (.svp sp) =>
        if N dc < bd.cols ∧ N ac < sp.length then
          some (e.put d (.buf kd (opSvpAssign bd (N dc) (sp.getD (N ac) []))), out)
        else none
      | _, _ => none
    else
      match getBuf e d, getBuf e a with
      | some (kd, bd), some (_, ba) =>
        if N dc < bd.cols ∧ N ac < ba.cols then
          let res? : Option Buf :=
            if op == "dft_add_assign" then some (opAssign polyAdd bd (N dc) ba (N ac))
            else if op == "dft_sub_assign" then some (opAssign polySub bd (N dc) ba (N ac))
            else if op == "dft_sub_negate_assign" then some (opSubNegateAssign bd (N dc) ba (N ac))
            else none
          res?.map (fun c => (e.put d (.buf kd c), out))
        else none
      | _, _ => none
  | [op, l, x, mask] =>
    if op == "cnv_prepare_left" || op == "cnv_prepare_right" then
      match e.get l, getBuf e x with
      | some (.cnv side bl), some (_, bx) =>
        if bl.cols == bx.cols then
          some (e.put l (.cnv side (opCnvPrepare bl bx (int! mask))), out)
        else none
      | _, _ => none
    else none
  | [] => some (e, out)
  | _ => none

def splitStmts (ts : List String) : List (List String) :=
  let rec go (cur : List String) (acc : List (List String)) : List String → List (List String)
    | [] => (acc ++ [cur])
    | t :: rest => if t == ";" then go [] (acc ++ [cur]) rest else go (cur ++ [t]) acc rest
  go [] [] ts

def handle (ts : List String) : String :=
  match splitStmts ts with
  | [] => "bad-op"
  | head :: stmts =>
    let n := kvNat head "n"
    let be := (kv head "be").getD "fft64ref"
    let r := stmts.foldl (fun (acc : Option (Env × List String)) st => acc.bind (fun (e, o) => stmt be n e o st)) (some ([], []))
    match r with
    | some (_, out) => " ".intercalate ("ok" :: out)
    | none => "panic:model"

end Drv.Hal
