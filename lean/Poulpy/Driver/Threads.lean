import Poulpy.Driver.Util
import Poulpy.Model.Threads
/-
Driver of the C20 model.  Request `id threads <sub-op> k=v …`:

* `part items= outlen= threads= circin= inbits= avail= per=`  →  `execBdd`:
  `ok started=<t,…> part=<t:i,i;…> acts=<slot 0>,<slot 1>,…` with a slot printed as `t.i`
  (written by thread t with item i), `z` (zeroed) or `u` (untouched); or `panic:<class>`.
* `prep bits= start= count= threads= avail= per=`  →  `execPrepare`:
  `ok:<t.t.…>:<one letter per bit: r = item, z = zeroed, u = untouched>:<acts as above>`.
* `loop base= items= threads=`  →  `parLoop`: `ok <t/s:slot/index,…;…>`.
* `sched base= items= threads= plen= sched=<t.i.pc,…>`  →  checks `isInterleaving` of the given
  schedule against the queues of `parLoop` and runs the abstract machine with a fixed toy work
  function: `ok <outs base … base+items-1>` or `bad-schedule`.
-/
namespace Drv.Threads
open _root_.Threads

def showAct : Act → String
  | .item t _ i => s!"{t}.{i}"
  | .zero => "z"
  | .untouched => "u"

def letter : Act → String
  | .item _ _ _ => "r"
  | .zero => "z"
  | .untouched => "u"

def joinOr (sep : String) (l : List String) : String := if l.isEmpty then "-" else sep.intercalate l

def showPart (qs : List (List Work)) : String :=
  joinOr ";" (qs.map fun q =>
    (match q with | w :: _ => toString w.thread | [] => "?") ++ ":" ++ showNats (q.map (·.index)))

def showLoop (qs : List (List Work)) : String :=
  joinOr ";" (qs.map fun q =>
    (match q with | w :: _ => s!"{w.thread}/{w.scratch}" | [] => "?") ++ ":" ++
      joinOr "," (q.map fun w => s!"{w.slot}/{w.index}"))

def started (qs : List (List Work)) : String := showNats (List.range qs.length)

/-- toy work function (oblivious of prior contents: step 0 overwrites both cells) -/
def toyMicro (i pc : Nat) (p : Int × Int) : Int × Int :=
  if pc = 0 then (1000 * (i : Int) + 7, (i : Int) + 3) else (p.1 + p.2 * (pc : Int), p.2 + 1)

def parseEv (s : String) : Ev :=
  match (s.splitOn ".").map nat! with
  | [t, i, pc] => ⟨t, t, i, i, pc⟩
  | [t, i] => ⟨t, t, i, i, 0⟩
  | _ => ⟨0, 0, 0, 0, 0⟩

def handle (ts : List String) : String :=
  match ts with
  | "part" :: kv =>
    let items := kvNat kv "items"; let threads := kvNat kv "threads"
    match execBdd threads (kvNat kv "outlen") items (kvNat kv "inbits") (kvNat kv "circin") (kvNat kv "avail") (kvNat kv "per") with
    | .panic c => s!"panic:{c}"
    | .err e => s!"err:{e}"
    | .ok acts =>
      match parLoop 0 items threads with
      | .ok qs => s!"ok started={started qs} part={showPart qs} acts={joinOr "," (acts.map showAct)}"
      | _ => "inconsistent"
  | "prep" :: kv =>
    let threads := kvNat kv "threads"; let start := kvNat kv "start"; let count := kvNat kv "count"
    match execPrepare threads (kvNat kv "bits") start count (kvNat kv "avail") (kvNat kv "per") with
    | .panic c => s!"panic:{c}"
    | .err e => s!"err:{e}"
    | .ok acts =>
      match parLoop start count threads with
      | .ok qs => s!"ok:{joinOr "." ((List.range qs.length).map toString)}:{"".intercalate (acts.map letter)}:{joinOr "," (acts.map showAct)}"
      | _ => "inconsistent"
  | "loop" :: kv =>
    match parLoop (kvNat kv "base") (kvNat kv "items") (kvNat kv "threads") with
    | .panic c => s!"panic:{c}"
    | .err e => s!"err:{e}"
    | .ok qs => s!"ok {showLoop qs}"
  | "sched" :: kv =>
    let base := kvNat kv "base"; let items := kvNat kv "items"; let plen := kvNat kv "plen"
    match parLoop base items (kvNat kv "threads") with
    | .panic c => s!"panic:{c}"
    | .err e => s!"err:{e}"
    | .ok qs =>
      let sched := (((kv' kv "sched").getD "").splitOn ",").filter (· ≠ "") |>.map parseEv
      if isInterleaving (qs.map (threadSeq fun _ => plen)) sched then
        let st := run toyMicro sched ⟨fun _ => -1, fun _ => -2⟩
        "ok " ++ showInts ((List.range items).map fun j => st.outs (base + j))
      else "bad-schedule"
  | "mtbytes" :: kv => s!"ok {mtTmpBytes (kvNat kv "slot") (kvNat kv "per") (kvNat kv "pack") (kvNat kv "threads")}"
  | _ => "bad-op"
where
  kv' (ts : List String) (k : String) : Option String := Drv.kv ts k

end Drv.Threads
