/-
Driver for the encryption / decryption model (command word `enc`).

Request line:  `id enc <op> key=value …`
  columns: limbs separated by `|`, coefficients by `,`; several columns separated by `;`
  ops
    glwe_sk      bits n b k kxe size db ds  sk=<cols> ct=<cols> e=<poly> [pt=<col>]   (masks = columns 1.. of ct;
                 no `pt` key = glwe_encrypt_zero_sk)
    glwe_pk      bits n b k kxe size db ds  sk=<cols> pk=<cols> u=<poly> es=<polys> [pt=<col>]
    lwe_sk       b kxe size db ds  sk=<poly> ct=<col> e=<int> pt=<col of 1-coefficient limbs>
    glwe_stream  bits n b k kxe size rank sk=<cols> xa=<raw words> e=<poly> [pt=<col>]   (mask drawn by the model)
    glwe_cmp     same keys as glwe_stream: compressed encryption followed by decompress_glwe
    fill_uniform b n size xa=<raw words>                                               (one column)
Answer line:   `id <ciphertext columns> <decrypted plaintext column>` (enc ops),
               `id <columns>` (stream ops), `id panic` when the model reaches a Rust panic.
-/
import Poulpy.Driver.Util
import Poulpy.Model.Core.Enc

namespace Drv.Enc
open Drv

def parseCol (s : String) : Col :=
  if s == "-" || s.isEmpty then [] else (s.splitOn "|").map ints

def showCol (c : Col) : String :=
  if c.isEmpty then "-" else "|".intercalate (c.map showInts)

def parseCols (s : String) : List Col :=
  if s == "-" || s.isEmpty then [] else (s.splitOn ";").map parseCol

def showCols (v : List Col) : String :=
  if v.isEmpty then "-" else ";".intercalate (v.map showCol)

def kvCol (ts : List String) (k : String) : Col := ((kv ts k).map parseCol).getD []
def kvCols (ts : List String) (k : String) : List Col := ((kv ts k).map parseCols).getD []
def kvPoly (ts : List String) (k : String) : Poly := kvInts ts k

/-- a list of single-limb columns `a,b;c,d` → polynomials -/
def kvPolys (ts : List String) (k : String) : List Poly := (kvCols ts k).map (fun c => c.getD 0 [])

def natsOf (ts : List String) (k : String) : List Nat := kvNats ts k

def handle (ts : List String) : String :=
  match ts with
  | [] => "bad-op"
  | op :: ts =>
    let bits := kvNat ts "bits"
    let n := kvNat ts "n"
    let b := kvNat ts "b"
    let k := kvNat ts "k"
    let kxe := kvNat ts "kxe"
    let size := kvNat ts "size"
    let db := kvNat ts "db"
    let ds := kvNat ts "ds"
    let pt : Option Col := (kv ts "pt").map parseCol
    match op with
    | "glwe_sk" =>
      let sk := kvPolys ts "sk"
      let ct := kvCols ts "ct"
      match Core.glweEncryptSk bits b k n size kxe (ct.drop 1) pt sk (kvPoly ts "e") with
      | none => "panic"
      | some c =>
        match Core.glweDecrypt bits c sk db ds with
        | none => showCols c.cols ++ " panic"
        | some d => showCols c.cols ++ " " ++ showCol d
    | "glwe_pk" =>
      let sk := kvPolys ts "sk"
      match Core.glweEncryptPk bits b k n size kxe (kvCols ts "pk") (kvPoly ts "u") pt (kvPolys ts "es") with
      | none => "panic"
      | some c =>
        match Core.glweDecrypt bits c sk db ds with
        | none => showCols c.cols ++ " panic"
        | some d => showCols c.cols ++ " " ++ showCol d
    | "lwe_sk" =>
      let sk := kvPoly ts "sk"
      let ptl := (kvCol ts "pt").map (fun l => l.getD 0 0)
      match Core.lweEncryptSk b size kxe (kvCol ts "ct") ptl sk (kvInt ts "e") with
      | none => "panic"
      | some c =>
        match Core.lweDecrypt b c sk db ds with
        | none => showCol c ++ " panic"
        | some d => showCol c ++ " " ++ showCol d
    | "glwe_stream" =>
      match Core.glweEncryptSkS bits b k n size kxe (kvNat ts "rank") pt (kvPolys ts "sk") (natsOf ts "xa") (kvPoly ts "e") with
      | none => "panic"
      | some (c, _) => showCols c.cols
    | "glwe_cmp" =>
      match Core.glweEncryptCompressed bits b k n size kxe (kvNat ts "rank") pt (kvPolys ts "sk") (natsOf ts "xa") (kvPoly ts "e") with
      | none => "panic"
      | some cc =>
        match Core.decompressGlwe cc with
        | none => "panic"
        | some c => showCols c.cols
    | "fill_uniform" =>
      match Sampling.vecFillUniform b n size (natsOf ts "xa") with
      | none => "panic"
      | some (c, _) => showCol c
    | _ => "bad-op"

end Drv.Enc
