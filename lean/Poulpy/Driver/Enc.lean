/-
Driver for the encryption / decryption model (command word `enc`).

Request line:  `id enc <op> key=value …`
  columns: limbs separated by `|`, coefficients by `,`; several columns separated by `;`
  ops
    glwe_sk      bits n b k kxe size db ds [ptb=<plaintext base2k, default b>] sk=<cols> ct=<cols> e=<poly> [pt=<col>]   (masks = columns 1.. of ct;
                 no `pt` key = glwe_encrypt_zero_sk)
    glwe_pk      bits n b k kxe size db ds  sk=<cols> pk=<cols> u=<poly> es=<polys> [pt=<col>]
    lwe_sk       b kxe size db ds  sk=<poly> ct=<col> e=<int> pt=<col of 1-coefficient limbs>
    glwe_stream  bits n b k kxe size rank sk=<cols> xa=<raw words> e=<poly> [pt=<col>]   (mask drawn by the model)
    glwe_cmp     same keys as glwe_stream: compressed encryption followed by decompress_glwe
    fill_uniform b n size xa=<raw words>                                               (one column)
    masks        b n size rank cells xa=<raw words>      (masks of `cells` consecutive cells, flattened, `;` between cells)
    cmp_gglwe    bits n b kxe size rank rank_in dnum dsize sk=<cols> pt=<polys> top=<words> seeds=<4 words;…> child=<words;…> es=<polys>
    cmp_ggsw     same with one plaintext polynomial; answer of both: `<seed words;…> <cell/cell/…>` in storage order
                 (each cell = decompress_glwe of the stored (body, seed)); `seeds`/`child` is the table of `Source::new`
                 (each cell = decompress_glwe of the stored (body, seed)); the routines executed are the scratch-temporary
                 versions `…CompressedT`, entered with a non-zero temporary
    cmp_ksk      as cmp_gglwe with `pt` = raw input secret, `sk` = raw output secret of ANY degree ≤ n: compressed switching key (embedding by the model)
    cmp_tsk      as cmp_gglwe without `pt`: compressed tensor key (the model derives the tensor secret from `sk`)
    cmp_brk      bits n b kxe size rank dnum sk=<cols> sklwe=<ints> top gseeds=<4 words;…> sub=<words;…> seeds child es:
                 compressed blind-rotation key, all GGSWs; answer as cmp_ggsw over all GGSWs in order
    lwe_dec      b nl [resb= ressize=] body=<ints> xa=<raw words>: `decompress_lwe` (with its base2k/size assertions; receiver radix / limbs
                 default to the object's) of (body, Source::new(seed) words)
    keygen       layout=<gglwe|ggsw|ksk|atk|tsk|g2g|lksk|g2l|l2g|brk> bits n b kxe size rank rank_in dnum dsize p sk skin sklwein sklweout
                 pt=<polys> xa=<raw words of source_xa> es=<error polys in loop order>: the STANDARD key routines (`gglwe_encrypt_sk`,
                 `ggsw_encrypt_sk` and the wrappers of Model/Core/EncMat.lean, entered with a dirty temporary); answer: all cells in loop
                 order `cols/cols/…` (the objects of the `…_encrypt_sk_wellformed` theorems of Props/C01.lean)
    bundle_order layout=<cbt|bdd> ksg=<0|1> gal=<Galois elements, any order> atkw atke brkw brke tskw tske ksgw ksge kslw ksle
                 (`…w` mask words, `…e` error polynomials one sub-key of that kind consumes): answer
                 `<name:first mask word:mask words:first error polynomial:error polynomials;…>` in encryption order
Answer line:   `id <ciphertext columns> <decrypted plaintext column>` (enc ops),
               `id <columns>` (stream ops), `id panic` when the model reaches a Rust panic.
-/
import Poulpy.Driver.Util
import Poulpy.Model.Core.Enc
import Poulpy.Model.Core.EncMat
import Poulpy.Model.Core.Bundle

namespace Drv.Enc
open Drv

def parseCol (s : String) : Col :=
  if s == "-" || s.isEmpty then [] else (s.splitOn "|").map ints

def showCol (c : Col) : String :=
  if c.isEmpty then "-" else "|".intercalate (c.map showInts)

def parseCols (s : String) : List Col :=
  if s == "-" || s.isEmpty then [] else (s.splitOn ";").map parseCol

def showCols (v : List Col) : String :=
  if v.isEmpty then "-" else ";".intercalate (v.map showCol)

def kvCol (ts : List String) (k : String) : Col := ((kv ts k).map parseCol).getD []
def kvCols (ts : List String) (k : String) : List Col := ((kv ts k).map parseCols).getD []
def kvPoly (ts : List String) (k : String) : Poly := kvInts ts k

/-- a list of single-limb columns `a,b;c,d` → polynomials -/
def kvPolys (ts : List String) (k : String) : List Poly := (kvCols ts k).map (fun c => c.getD 0 [])

def natsOf (ts : List String) (k : String) : List Nat := kvNats ts k

def kvWordLists (ts : List String) (k : String) : List (List Nat) :=
  match kv ts k with
  | none => []
  | some s => if s == "-" || s.isEmpty then [] else (s.splitOn ";").map nats

/-- `Source::new` as a table: the empty seed stands for `seed_xa` (stream `top`) -/
def expandTable (top : List Nat) (seeds child : List (List Nat)) (s : List Nat) : List Nat :=
  if s.isEmpty then top
  else match (seeds.zip child).find? (fun p => p.1 == s) with
    | some p => p.2
    | none => []

def showCells (b n rank count : Nat) (expand : List Nat → List Nat) (cells : List (Nat × Core.CellC)) : String :=
  let stored := (List.range count).map (fun i => Core.storedCell cells i)
  let seeds := stored.map (fun c => match c with
    | some c => showNats c.seed
    | none => "missing")
  let objs := stored.map (fun c => match c with
    | some c => (match Core.decompressCell b n rank expand c with
      | some cols => showCols cols
      | none => "panic")
    | none => "missing")
  ";".intercalate seeds ++ " " ++ "/".intercalate objs

/-- a scratch temporary of the right shape holding leftovers of earlier use (the routines must not depend on it) -/
def dirtyTmp (n size : Nat) : Col :=
  (List.range size).map (fun j => (List.range n).map (fun i => ((j * n + i : Nat) : Int) * 7919 - 12345))

def handle (ts : List String) : String :=
  match ts with
  | [] => "bad-op"
  | op :: ts =>
    let bits := kvNat ts "bits"
    let n := kvNat ts "n"
    let b := kvNat ts "b"
    let k := kvNat ts "k"
    let kxe := kvNat ts "kxe"
    let size := kvNat ts "size"
    let db := kvNat ts "db"
    let ds := kvNat ts "ds"
    let pt : Option Col := (kv ts "pt").map parseCol
    let ptB := if (kv ts "ptb").isSome then kvNat ts "ptb" else b
    match op with
    | "glwe_sk" =>
      let sk := kvPolys ts "sk"
      let ct := kvCols ts "ct"
      match Core.glweEncryptSk bits b k n size kxe (ct.drop 1) pt ptB sk (kvPoly ts "e") with
      | none => "panic"
      | some c =>
        match Core.glweDecrypt bits c sk db ds with
        | none => showCols c.cols ++ " panic"
        | some d => showCols c.cols ++ " " ++ showCol d
    | "glwe_pk" =>
      let sk := kvPolys ts "sk"
      match Core.glweEncryptPk bits b k n size kxe (kvCols ts "pk") (kvPoly ts "u") pt (kvPolys ts "es") with
      | none => "panic"
      | some c =>
        match Core.glweDecrypt bits c sk db ds with
        | none => showCols c.cols ++ " panic"
        | some d => showCols c.cols ++ " " ++ showCol d
    | "lwe_sk" =>
      let sk := kvPoly ts "sk"
      let ptl := (kvCol ts "pt").map (fun l => l.getD 0 0)
      match Core.lweEncryptSk b size kxe (kvCol ts "ct") ptl ptB sk (kvInt ts "e") with
      | none => "panic"
      | some c =>
        match Core.lweDecrypt b c sk db ds with
        | none => showCol c ++ " panic"
        | some d => showCol c ++ " " ++ showCol d
    | "glwe_stream" =>
      match Core.glweEncryptSkS bits b k n size kxe (kvNat ts "rank") pt ptB (kvPolys ts "sk") (natsOf ts "xa") (kvPoly ts "e") with
      | none => "panic"
      | some (c, _) => showCols c.cols
    | "glwe_cmp" =>
      match Core.glweEncryptCompressed bits b k n size kxe (kvNat ts "rank") pt ptB (kvPolys ts "sk") (natsOf ts "xa") (kvPoly ts "e") with
      | none => "panic"
      | some cc =>
        match Core.decompressGlwe cc with
        | none => "panic"
        | some c => showCols c.cols
    | "cmp_gglwe" =>
      let top := natsOf ts "top"
      let expand := expandTable top (kvWordLists ts "seeds") (kvWordLists ts "child")
      let rankIn := kvNat ts "rank_in"
      let dnum := kvNat ts "dnum"
      match Core.gglweEncryptCompressedT (dirtyTmp n size) bits b n size kxe (kvNat ts "rank") rankIn dnum (kvNat ts "dsize") (kvPolys ts "pt")
          (kvPolys ts "sk") expand [] (kvPolys ts "es") with
      | none => "panic"
      | some cells => showCells b n (kvNat ts "rank") (rankIn * dnum) expand cells
    | "cmp_ksk" =>
      -- compressed switching key: raw secrets of any degree ≤ n; the model embeds them (vec_znx_switch_ring)
      let top := natsOf ts "top"
      let expand := expandTable top (kvWordLists ts "seeds") (kvWordLists ts "child")
      let rank := kvNat ts "rank"
      let rankIn := kvNat ts "rank_in"
      let dnum := kvNat ts "dnum"
      match Core.glweSwitchingKeyEncryptCompressedT (dirtyTmp n size) bits b n size kxe rank rankIn dnum (kvNat ts "dsize") (kvPolys ts "pt")
          (kvPolys ts "sk") expand [] (kvPolys ts "es") with
      | none => "panic"
      | some cells => showCells b n rank (rankIn * dnum) expand cells
    | "cmp_tsk" =>
      let top := natsOf ts "top"
      let expand := expandTable top (kvWordLists ts "seeds") (kvWordLists ts "child")
      let rank := kvNat ts "rank"
      let dnum := kvNat ts "dnum"
      match Core.tensorKeyEncryptCompressedT (dirtyTmp n size) bits b n size kxe rank dnum (kvNat ts "dsize")
          (kvPolys ts "sk") expand [] (kvPolys ts "es") with
      | none => "panic"
      | some cells => showCells b n rank ((rank * (rank + 1) / 2) * dnum) expand cells
    | "cmp_brk" =>
      let top := natsOf ts "top"
      let expand := expandTable top (kvWordLists ts "gseeds" ++ kvWordLists ts "seeds") (kvWordLists ts "sub" ++ kvWordLists ts "child")
      let rank := kvNat ts "rank"
      let dnum := kvNat ts "dnum"
      match Core.brkEncryptCompressed bits b n size kxe rank dnum (kvInts ts "sklwe") (kvPolys ts "sk") expand (dirtyTmp n size) []
          (kvPolys ts "es") with
      | none => "panic"
      | some ggsws =>
        let shown := ggsws.map (fun cells => showCells b n rank ((rank + 1) * dnum) expand cells)
        let parts := shown.map (fun s => s.splitOn " ")
        ";".intercalate (parts.map (fun p => p.getD 0 "")) ++ " " ++ "/".intercalate (parts.map (fun p => p.getD 1 ""))
    | "cmp_ggsw" =>
      let top := natsOf ts "top"
      let expand := expandTable top (kvWordLists ts "seeds") (kvWordLists ts "child")
      let rank := kvNat ts "rank"
      let dnum := kvNat ts "dnum"
      match Core.ggswEncryptCompressedT (dirtyTmp n size) bits b n size kxe rank dnum (kvNat ts "dsize") ((kvPolys ts "pt").getD 0 [])
          (kvPolys ts "sk") expand [] (kvPolys ts "es") with
      | none => "panic"
      | some cells => showCells b n rank ((rank + 1) * dnum) expand cells
    | "lwe_dec" =>
      let body := kvInts ts "body"
      let resB := if (kv ts "resb").isSome then kvNat ts "resb" else b
      let resSize := if (kv ts "ressize").isSome then kvNat ts "ressize" else body.length
      match Core.decompressLweRust resB resSize b (kvNat ts "nl") body (natsOf ts "xa") with
      | none => "panic"
      | some c => showCol c
    | "keygen" =>
      let rank := kvNat ts "rank"
      let rankIn := kvNat ts "rank_in"
      let dnum := kvNat ts "dnum"
      let dsize := kvNat ts "dsize"
      let sk := kvPolys ts "sk"
      let skIn := kvPolys ts "skin"
      let lweIn := kvInts ts "sklwein"
      let lweOut := kvInts ts "sklweout"
      let xa := natsOf ts "xa"
      let es := kvPolys ts "es"
      let tmp := dirtyTmp n size
      let showOne (r : Option (List (Nat × List Col) × List Nat × List Poly)) : String :=
        match r with
        | none => "panic"
        | some (cells, _, _) => if cells.isEmpty then "-" else "/".intercalate (cells.map (fun c => showCols c.2))
      let showMany (r : Option (List (List (Nat × List Col)) × List Nat × List Poly)) : String :=
        match r with
        | none => "panic"
        | some (subs, _, _) =>
          let cells := subs.flatten
          if cells.isEmpty then "-" else "/".intercalate (cells.map (fun c => showCols c.2))
      match (kv ts "layout").getD "" with
      | "gglwe" => showOne (Core.gglweEncryptSkT tmp bits b n size kxe rank rankIn dnum dsize (kvPolys ts "pt") sk xa es)
      | "ggsw" => showOne (Core.ggswEncryptSkT tmp bits b n size kxe rank dnum dsize ((kvPolys ts "pt").getD 0 []) sk xa es)
      | "ksk" => showOne (Core.glweSwitchingKeyEncryptSk tmp bits b n size kxe rank rankIn dnum dsize skIn sk xa es)
      | "atk" => showOne (Core.glweAutomorphismKeyEncryptSk tmp bits b n size kxe rank dnum dsize (kvInt ts "p") sk xa es)
      | "tsk" => showOne (Core.glweTensorKeyEncryptSk tmp bits b n size kxe rank dnum dsize sk xa es)
      | "g2g" => showMany (Core.gglweToGgswKeyEncryptSk tmp bits b n size kxe rank dnum dsize sk xa es)
      | "lksk" => showOne (Core.lweSwitchingKeyEncryptSk tmp bits b n size kxe dnum lweIn lweOut xa es)
      | "g2l" => showOne (Core.glweToLweKeyEncryptSk tmp bits b n size kxe rankIn dnum lweOut skIn xa es)
      | "l2g" => showOne (Core.lweToGlweKeyEncryptSk tmp bits b n size kxe rank dnum lweIn sk xa es)
      | "brk" => showMany (Core.blindRotationKeyEncryptSk tmp bits b n size kxe rank dnum lweIn sk xa es)
      | _ => "bad-layout"
    | "bundle_order" =>
      let gal := kvInts ts "gal"
      let order := if (kv ts "layout").getD "" == "bdd" then Core.bddOrder (kvNat ts "ksg" != 0) gal else Core.cbtOrder gal
      let use : Core.SubKey → Core.Use := fun k => match k with
        | .atk _ => ⟨kvNat ts "atkw", kvNat ts "atke"⟩
        | .brk => ⟨kvNat ts "brkw", kvNat ts "brke"⟩
        | .tsk => ⟨kvNat ts "tskw", kvNat ts "tske"⟩
        | .ksGlwe => ⟨kvNat ts "ksgw", kvNat ts "ksge"⟩
        | .ksLwe => ⟨kvNat ts "kslw", kvNat ts "ksle"⟩
      let name : Core.SubKey → String := fun k => match k with
        | .atk p => s!"atk[{p}]"
        | .brk => "brk"
        | .tsk => "tsk"
        | .ksGlwe => "ks_glwe"
        | .ksLwe => "ks_lwe"
      ";".intercalate ((Core.segments use order 0 0).map (fun s =>
        s!"{name s.1}:{s.2.1}:{s.2.2.1}:{s.2.2.2.1}:{s.2.2.2.2}"))
    | "masks" =>
      -- `cells` consecutive cells, each `rank` mask columns drawn from the same source in order
      let rank := kvNat ts "rank"
      let rec go : Nat → List Nat → List String → Option (List String)
        | 0, _, acc => some acc.reverse
        | c + 1, xa, acc =>
          match Core.drawMasks b n size rank xa with
          | none => none
          | some (ms, xa') => go c xa' (showInts (ms.flatten.flatten) :: acc)
      match go (kvNat ts "cells") (natsOf ts "xa") [] with
      | none => "panic"
      | some l => if l.isEmpty then "-" else ";".intercalate l
    | "fill_uniform" =>
      match Sampling.vecFillUniform b n size (natsOf ts "xa") with
      | none => "panic"
      | some (c, _) => showCol c
    | _ => "bad-op"

end Drv.Enc
