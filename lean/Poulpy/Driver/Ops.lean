import Poulpy.Driver.Util
import Poulpy.Model.Core.Ops

/-!
Model driver for `ops` programs — same request format as `pvh ops` (harness/src/cmd_ops.rs):

  `id ops be=… n=N scr=S [sb=BYTES] ; decl ; … ; op ; …`   →   `id S S … [panic:<class>|err:<kind>]`

Canonical form of one step `S`: `<r>=<rank>x<size>@<base2k>:v,v,…` (GLWE, values in
(column, limb, coefficient) order) or `<r>=<rank>x<size>@<base2k>#<dnum>:v,…` (GGSW, the
(row, col) GLWEs one after the other).  The back end token is ignored: one model serves all four.
-/

namespace Drv.Ops
open Core Core.Ops

/-- split a token list at the `;` tokens -/
def splitStmts (ts : List String) : List (List String) :=
  let r := ts.foldl (fun (acc : List (List String) × List String) t =>
    if t == ";" then (acc.1 ++ [acc.2], []) else (acc.1, acc.2 ++ [t])) ([], [])
  r.1 ++ [r.2]

def chunk (k : Nat) (l : List Int) : Nat → List (List Int)
  | 0 => []
  | m + 1 => l.take k :: chunk k (l.drop k) m

/-- `cols × size × n` values in (column, limb, coefficient) order, missing values are zero -/
def mkCols (n cols size : Nat) (v : List Int) : List Col :=
  let v' := v ++ List.replicate (cols * size * n - v.length) 0
  (chunk (size * n) v' cols).map (fun c => chunk n c size)

def mkCt (n rank size b : Nat) (v : List Int) : GLWE :=
  { base2k := b, k := b * size, n := n, cols := mkCols n (rank + 1) size v }

def vals (s : String) : List Int := if s == "z" then [] else ints s

def showCols (cols : List Col) : List Int := cols.flatMap (fun c => c.flatMap id)

def showCt (idx : Nat) (c : GLWE) : String :=
  s!"{idx}={c.rank}x{c.size}@{c.base2k}:{showInts (showCols c.cols)}"

def showGg (idx : Nat) (g : GGSW) : String :=
  let sz := match g.cts with | c :: _ => c.size | [] => 0
  s!"{idx}={g.rank}x{sz}@{g.base2k}#{g.dnum}:{showInts (g.cts.flatMap (fun c => showCols c.cols))}"

def parseOp (st : List String) : Option Op :=
  match st with
  | ["add", r, a, b] => some (.add (nat! r) (nat! a) (nat! b))
  | ["add_assign", r, a] => some (.addAssign (nat! r) (nat! a))
  | ["sub", r, a, b] => some (.sub (nat! r) (nat! a) (nat! b))
  | ["sub_assign", r, a] => some (.subAssign (nat! r) (nat! a))
  | ["sub_negate_assign", r, a] => some (.subNegateAssign (nat! r) (nat! a))
  | ["negate", r, a] => some (.negate (nat! r) (nat! a))
  | ["negate_assign", r] => some (.negateAssign (nat! r))
  | ["copy", r, a] => some (.copy (nat! r) (nat! a))
  | ["rotate", k, r, a] => some (.rotate (int! k) (nat! r) (nat! a))
  | ["rotate_assign", k, r] => some (.rotateAssign (int! k) (nat! r))
  | ["mul_xp_minus_one", k, r, a] => some (.mulXpMinusOne (int! k) (nat! r) (nat! a))
  | ["mul_xp_minus_one_assign", k, r] => some (.mulXpMinusOneAssign (int! k) (nat! r))
  | ["rsh", k, r] => some (.rsh (nat! k) (nat! r))
  | ["lsh_assign", r, k] => some (.lshAssign (nat! r) (nat! k))
  | ["lsh", r, a, k] => some (.lsh (nat! r) (nat! a) (nat! k))
  | ["lsh_add", r, a, k] => some (.lshAdd (nat! r) (nat! a) (nat! k))
  | ["lsh_sub", r, a, k] => some (.lshSub (nat! r) (nat! a) (nat! k))
  | ["normalize", r, a] => some (.normalize (nat! r) (nat! a))
  | ["normalize_assign", r] => some (.normalizeAssign (nat! r))
  | ["ggsw_rotate", k, r, a] => some (.ggswRotate (int! k) (nat! r) (nat! a))
  | ["ggsw_rotate_assign", k, r] => some (.ggswRotateAssign (int! k) (nat! r))
  | _ => none

def showObj (idx : Nat) (p : Pool) : String :=
  match p.objs[idx]? with
  | some (.ct c) => showCt idx c
  | some (.gg g) => showGg idx g
  | none => "?"

/-- executes the statements in order with exactly the model's `step`; returns the answer fields -/
def exec (p : Pool) : List (List String) → List String → List String
  | [], out => out
  | st :: rest, out =>
    match st with
    | [] => exec p rest out
    | ["ct", rank, size, b, v] =>
      exec { p with objs := p.objs ++ [.ct (mkCt p.N (nat! rank) (nat! size) (nat! b) (vals v))] } rest out
    | ["ggsw", rank, size, b, dnum, dsize, v] =>
      let rk := nat! rank
      let sz := nat! size
      let per := (rk + 1) * sz * p.N
      let vs := vals v
      let vs := vs ++ List.replicate (nat! dnum * (rk + 1) * per - vs.length) 0
      let cts := (chunk per vs (nat! dnum * (rk + 1))).map (fun c => mkCt p.N rk sz (nat! b) c)
      exec { p with objs := p.objs ++ [.gg { base2k := nat! b, n := p.N, rank := rk, dnum := nat! dnum, dsize := nat! dsize, cts := cts }] } rest out
    | _ =>
      match parseOp st with
      | none => out ++ ["err:op"]
      | some op =>
        match step p op with
        | .ok p' => exec p' rest (out ++ [showObj op.dst p'])
        | .err e => out ++ ["err:" ++ e]
        | .panic c => out ++ ["panic:" ++ c]

def handle (ts : List String) : String :=
  match splitStmts ts with
  | [] => "empty"
  | head :: stmts =>
    let p : Pool := { N := kvNat head "n", scr := kvInt head "scr", objs := [], sb := ((kv head "sb").bind String.toNat?).getD 65536 }
    let out := exec p stmts []
    if out.isEmpty then "empty" else " ".intercalate out

end Drv.Ops
