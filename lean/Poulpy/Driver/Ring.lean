import Poulpy.Driver.Util
import Poulpy.Model.Ring
import Poulpy.Model.Galois

/-!
Driver of the `ring` area.  Request: `id ring <op> be=<backend> n=<n> rs=<res size> [p=<int>]
[limb=<k>] [a=<col>] [b=<col>] [r=<col>] [ps=<sizes>] [parts=<col;col;…>] [nin=…] [nt=…]`.
A column is `c,c,c|c,c,c` (limbs separated by `|`, limb 0 first, coefficients degree 0 first);
several columns are separated by `;`.  `-` is the empty column.  Answer: the new content of the
selected result column in the same syntax (`split`: the parts separated by `;`), or
`panic:<class>`.  `be` only matters for the `big_*` operations (NTT120 → `i128` limbs and the
`ntt120_*` definitions).
-/

namespace Drv.Ring
open Drv

def parsePoly (s : String) : Poly := ints s
def parseCol (s : String) : Col :=
  if s == "-" || s.isEmpty then [] else (s.splitOn "|").map parsePoly
def parseCols (s : String) : List Col :=
  if s.isEmpty then [] else (s.splitOn ";").map parseCol

def showCol (c : Col) : String := if c.isEmpty then "-" else "|".intercalate (c.map showInts)
def showCols (cs : List Col) : String := ";".intercalate (cs.map showCol)

def showO (o : Outcome Col) : String :=
  match o with
  | .ok c => showCol c
  | .err k => "err:" ++ k
  | .panic c => "panic:" ++ c

def col (ts : List String) (k : String) : Col := ((kv ts k).map parseCol).getD []
def has (ts : List String) (k : String) : Bool := (kv ts k).isSome

def handle (ts : List String) : String :=
  match ts with
  | [] => "bad-op"
  | op :: ts =>
    let be := (kv ts "be").getD "fft64ref"
    let ntt := be.startsWith "ntt120"
    let n := kvNat ts "n"
    let rs := kvNat ts "rs"
    let p := kvInt ts "p"
    let limb := kvNat ts "limb"
    let a := col ts "a"
    let b := col ts "b"
    let r := col ts "r"
    let wb : Int → Int := if ntt then w128 else w64
    let chk (ops : List Col) (k : Col) : String := showO (sameDegreeO n ops k)
    match op with
    | "zero" => showCol (vecZero n rs)
    | "copy" => chk [a] (vecCopy n rs a)
    | "add" => chk [a, b] (vecAdd n rs a b)
    | "add_assign" => chk [a] (vecAddAssignW w64 r a)
    | "sub" => chk [a, b] (vecSub n rs a b)
    | "sub_assign" => chk [a] (vecSubAssignW w64 r a)
    | "sub_negate_assign" => chk [a] (vecSubNegateAssignW w64 r a)
    | "negate" => chk [a] (vecNegate n rs a)
    | "negate_assign" => showCol (vecNegateAssignW w64 r)
    | "add_scalar" => showO (vecAddScalarO w64 n rs (a.headD []) b limb)
    | "sub_scalar" => showO (vecSubScalarO w64 n rs (a.headD []) b limb)
    | "add_scalar_assign" => showO (vecAddScalarAssignO w64 r limb (a.headD []))
    | "sub_scalar_assign" => showO (vecSubScalarAssignO w64 r limb (a.headD []))
    | "rotate" => chk [a] (vecRotate p n rs a)
    | "rotate_assign" => showCol (vecRotateAssignW w64 p r)
    | "mulxp" => chk [a] (vecMulXpMinusOne p n rs a)
    | "mulxp_assign" => showCol (vecMulXpMinusOneAssignW w64 p r)
    | "autom" => chk [a] (if has ts "r" then vecAutomorphismIntoW w64 p n r a else vecAutomorphism p n rs a)
    | "autom_assign" =>
      showCol (if has ts "scr" then (vecAutomorphismAssignScr w64 p (List.replicate n (kvInt ts "scr")) r).1
               else vecAutomorphismAssignW w64 p r)
    | "switch" => showO (vecSwitchRingO (kvNat ts "nin") n rs a)
    | "split" =>
      match vecSplitRingO (kvNat ts "nin") (kvNat ts "nt") (kvNats ts "nouts") (kvNats ts "ps") a with
      | .ok cs => showCols cs
      | .err k => "err:" ++ k
      | .panic c => "panic:" ++ c
    | "merge" =>
      showO (vecMergeRingsO n (kvNat ts "nt") rs (kvNats ts "nins") (((kv ts "parts").map parseCols).getD []))
    -- big accumulator
    | "big_add" => showCol (if ntt then ntt120BigAdd n rs a b else vecAdd n rs a b)
    | "big_add_assign" => showCol (vecAddAssignW wb r a)
    | "big_add_small" => showCol (if ntt then ntt120BigAddSmall n rs a b else vecAdd n rs a b)
    | "big_add_small_assign" => showCol (vecAddAssignW wb r a)
    | "big_sub" => showCol (if ntt then ntt120BigSub n rs a b else vecSub n rs a b)
    | "big_sub_assign" => showCol (vecSubAssignW wb r a)
    | "big_sub_negate_assign" => showCol (if ntt then ntt120BigSubNegateAssign r a else vecSubNegateAssignW w64 r a)
    | "big_sub_small_a" => showCol (if ntt then ntt120BigSubSmallA n rs a b else vecSub n rs a b)
    | "big_sub_small_b" => showCol (if ntt then ntt120BigSubSmallB n rs a b else vecSub n rs a b)
    | "big_sub_small_assign" => showCol (vecSubAssignW wb r a)
    | "big_sub_small_negate_assign" =>
      showCol (if ntt then ntt120BigSubNegateAssign r a else vecSubNegateAssignW w64 r a)
    | "big_negate" => showCol (vecNegateW wb n rs a)
    | "big_negate_assign" => showCol (vecNegateAssignW wb r)
    | "big_autom" =>
      showCol (if has ts "r" then vecAutomorphismIntoW wb p n r a else vecAutomorphismW wb p n rs a)
    | "big_autom_assign" =>
      showCol (if ntt then ntt120BigAutomorphismAssign p r
               else if has ts "scr" then (vecAutomorphismAssignScr w64 p (List.replicate n (kvInt ts "scr")) r).1
               else vecAutomorphismAssignW w64 p r)
    | "big_from_small" => showCol (vecCopy n rs a)
    -- Galois elements
    | "gal" =>
      match galoisElement p (kvInt ts "order") with
      | .ok v => toString v
      | .err k => "err:" ++ k
      | .panic c => "panic:" ++ c
    | "galinv" =>
      match galoisElementInv p (kvInt ts "order") with
      | .ok v => toString v
      | .err k => "err:" ++ k
      | .panic c => "panic:" ++ c
    | "negmul" => showInts (negMul (a.headD []) (b.headD []))
    | _ => "bad-op"

end Drv.Ring
