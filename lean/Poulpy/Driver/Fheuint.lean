import Poulpy.Driver.Util
import Poulpy.Driver.Bdd
import Poulpy.Model.FheUint
/-
Driver of the C15 model.  Request `id fheuint <sub-op> k=v …` (same keys as `pvh fheuint`, `ty=u8|u16|u32`,
default u32):
  `enc a=`                        → `ok <decode (encode a)>`
  `splice8|splice16 a= b= dst= src=`, `sext a= byte=`, `getbit a= i=`, `getbyte a= byte=`, `swap a= b= bit=`,
  `prep a= start= count=`         → `ok <word>[,<word>]`
  `word op= a= b=`                → the C13 circuit model (`evalFlat` on the generated tables) on the bits of a, b
  `bitindex ty=`                  → `ok <bit_index(0)>,…`
-/
namespace Drv.Fheuint
open _root_.FheUint

def tyOf (kv : List String) : Ty :=
  match Drv.kv kv "ty" with
  | some "u8" => u8
  | some "u16" => u16
  | _ => u32

def handle (ts : List String) : String :=
  match ts with
  | op :: kv =>
    let T := tyOf kv
    let a := kvNat kv "a"; let b := kvNat kv "b"
    let ea := encode T a; let eb := encode T b
    match op with
    | "enc" => s!"ok {decode T ea}"
    | "splice8" => s!"ok {decode T (spliceU8 T (kvNat kv "dst") (kvNat kv "src") ea eb)}"
    | "splice16" => s!"ok {decode T (spliceU16 T (kvNat kv "dst") (kvNat kv "src") ea eb)}"
    | "sext" => s!"ok {decode T (sext T (kvNat kv "byte") ea)}"
    | "getbit" => s!"ok {decode T (getBit T (kvNat kv "i") ea)}"
    | "getbyte" => s!"ok {decode T (getByte T (kvNat kv "byte") ea)}"
    | "swap" => let r := cswap (kvNat kv "bit") ea eb; s!"ok {decode T r.1},{decode T r.2}"
    | "prep" => s!"ok {prepareCustomWord T a (kvNat kv "start") (kvNat kv "count")}"
    | "word" => "ok " ++ Drv.Bdd.word ((Drv.kv kv "op").getD "add") a b
    | "bitindex" => "ok " ++ showNats ((List.range T.bits).map (bitIndex T))
    | _ => "bad-op"
  | _ => "bad-op"

end Drv.Fheuint
