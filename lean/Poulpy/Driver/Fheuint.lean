import Poulpy.Driver.Util
import Poulpy.Driver.Bdd
import Poulpy.Model.FheUint
import Poulpy.Model.Cbt
/-
Driver of the C15 model.  Request `id fheuint <sub-op> k=v …` (same keys as `pvh fheuint`, `ty=u8|u16|u32`,
default u32):
  `enc a=`                        → `ok <decode (encode a)>`
  `splice8|splice16 a= b= dst= src=`, `sext a= byte=`, `getbit a= i=`, `getbyte a= byte=`, `swap a= b= bit=`,
  `prep a= start= count=`         → `ok <word>[,<word>]`
  `word op= a= b=`                → the C13 circuit model (`evalFlat` on the generated tables) on the bits of a, b
  `bitindex ty=`                  → `ok <bit_index(0)>,…`
  `cbtexp logn= b= resb= dnum= logdomain= lgo= data= e= prec= [old=1]` → circuit bootstrapping, exponent mode, plaintext level: table,
                                    `lutSet`, right rotation by `data·alpha·step + e − 2^10` (`e` offset by 1024), `expRows`; per row the non-zero
                                    coefficients decoded at `min(resb·(i+1), prec)` bits: `ok r0=<pos:val,…> r1=…`
-/
namespace Drv.Fheuint
open _root_.FheUint

def tyOf (kv : List String) : Ty :=
  match Drv.kv kv "ty" with
  | some "u8" => u8
  | some "u16" => u16
  | _ => u32

/-- value of a limb vector (radix `2^b`) rounded to `prec` fractional bits -/
def decodeVec (b prec : Nat) (v : List Int) : Int :=
  let size := v.length
  let num := v.foldl (fun acc x => acc * 2 ^ b + x) 0            -- units of 2^{-b·size}
  let sh := b * size - prec
  if b * size ≤ prec then num * 2 ^ (prec - b * size) else (num + 2 ^ (sh - 1)) / 2 ^ sh

def cbtexp (kv : List String) : String :=
  let logn := kvNat kv "logn"; let n := 2 ^ logn
  let b := kvNat kv "b"; let resB := kvNat kv "resb"; let dnum := kvNat kv "dnum"
  let ld := kvNat kv "logdomain"; let lgo := kvNat kv "lgo"; let data := kvNat kv "data"
  let e : Int := (kvNat kv "e" : Int) - 1024
  let prec := kvNat kv "prec"
  let k := resB * dnum
  match Lut.lutSet n 1 b k (Cbt.expTable ld dnum resB) k with
  | .ok T =>
    let alpha := Cbt.nextPow2 dnum
    let step := 2 * T.drift
    let gap := Cbt.cbtGap T.drift 1
    let size := (k + b - 1) / b
    let P := Lut.rotate ((data * alpha * step : Nat) + e) (T.data.getD 0 [])
    let rows := Cbt.expRows (kvNat kv "old" == 1) n logn size dnum gap lgo ld P
    let strs := rows.mapIdx fun i row =>
      let pr := min (resB * (i + 1)) prec
      let nz := (row.mapIdx fun p v => (p, decodeVec b pr v)).filter fun x => x.2 ≠ 0
      s!"r{i}=" ++ (if nz.isEmpty then "-" else ",".intercalate (nz.map fun x => s!"{x.1}:{x.2}"))
    "ok " ++ " ".intercalate strs
  | .panic c => s!"panic:{c}"
  | .err c => s!"err:{c}"

def handle (ts : List String) : String :=
  match ts with
  | op :: kv =>
    let T := tyOf kv
    let a := kvNat kv "a"; let b := kvNat kv "b"
    let ea := encode T a; let eb := encode T b
    match op with
    | "enc" => s!"ok {decode T ea}"
    | "splice8" => s!"ok {decode T (spliceU8 T (kvNat kv "dst") (kvNat kv "src") ea eb)}"
    | "splice16" => s!"ok {decode T (spliceU16 T (kvNat kv "dst") (kvNat kv "src") ea eb)}"
    | "sext" => s!"ok {decode T (sext T (kvNat kv "byte") ea)}"
    | "getbit" => s!"ok {decode T (getBit T (kvNat kv "i") ea)}"
    | "getbyte" => s!"ok {decode T (getByte T (kvNat kv "byte") ea)}"
    | "swap" => let r := cswap (kvNat kv "bit") ea eb; s!"ok {decode T r.1},{decode T r.2}"
    | "prep" => s!"ok {prepareCustomWord T a (kvNat kv "start") (kvNat kv "count")}"
    | "word" => "ok " ++ Drv.Bdd.word ((Drv.kv kv "op").getD "add") a b
    | "cbtexp" => cbtexp kv
    | "bitindex" => "ok " ++ showNats ((List.range T.bits).map (bitIndex T))
    | _ => "bad-op"
  | _ => "bad-op"

end Drv.Fheuint
