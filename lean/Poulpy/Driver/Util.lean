/-
Line-protocol helpers of the model driver (no proofs, no imports beyond core).
A request line is `id cmd tok tok …`; the answer line is `id answer…`.
-/

namespace Drv

def toks (line : String) : List String :=
  (line.trimAscii.toString.splitOn " ").filter (fun s => !s.isEmpty)

def int! (s : String) : Int := s.toInt?.getD 0
def nat! (s : String) : Nat := s.toNat?.getD 0

/-- `a,b,c` → list of integers; the empty string or `-` → `[]`. -/
def ints (s : String) : List Int :=
  if s == "-" || s.isEmpty then [] else (s.splitOn ",").map int!

def nats (s : String) : List Nat :=
  if s == "-" || s.isEmpty then [] else (s.splitOn ",").map nat!

def showInts (l : List Int) : String :=
  if l.isEmpty then "-" else ",".intercalate (l.map toString)

def showNats (l : List Nat) : String :=
  if l.isEmpty then "-" else ",".intercalate (l.map toString)

/-- `k=v` lookup in a token list. -/
def kv (ts : List String) (k : String) : Option String :=
  ts.findSome? (fun t => match t.splitOn "=" with
    | [k', v] => if k' == k then some v else none
    | _ => none)

def kvNat (ts : List String) (k : String) : Nat := ((kv ts k).bind String.toNat?).getD 0
def kvInt (ts : List String) (k : String) : Int := ((kv ts k).bind String.toInt?).getD 0
def kvInts (ts : List String) (k : String) : List Int := ((kv ts k).map ints).getD []
def kvNats (ts : List String) (k : String) : List Nat := ((kv ts k).map nats).getD []

end Drv
