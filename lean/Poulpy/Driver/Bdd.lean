import Poulpy.Driver.Util
import Poulpy.Generated.U32.AddTab
import Poulpy.Generated.U32.SubTab
import Poulpy.Generated.U32.SllTab
import Poulpy.Generated.U32.SrlTab
import Poulpy.Generated.U32.SraTab
import Poulpy.Generated.U32.SltTab
import Poulpy.Generated.U32.SltuTab
import Poulpy.Generated.U32.AndTab
import Poulpy.Generated.U32.OrTab
import Poulpy.Generated.U32.XorTab
import Poulpy.Generated.U32.IdentityTab

namespace Drv.Bdd
open U32

/-- (nIn, nOut, width, flat, words) of a named circuit. -/
def table (op : String) : Option (Nat × Nat × (Nat → Nat) × (Nat → List Node) × Nat) :=
  match op with
  | "add" => some (Add.nIn, Add.nOut, Add.width, Add.flat, 2)
  | "sub" => some (Sub.nIn, Sub.nOut, Sub.width, Sub.flat, 2)
  | "sll" => some (Sll.nIn, Sll.nOut, Sll.width, Sll.flat, 2)
  | "srl" => some (Srl.nIn, Srl.nOut, Srl.width, Srl.flat, 2)
  | "sra" => some (Sra.nIn, Sra.nOut, Sra.width, Sra.flat, 2)
  | "slt" => some (Slt.nIn, Slt.nOut, Slt.width, Slt.flat, 2)
  | "sltu" => some (Sltu.nIn, Sltu.nOut, Sltu.width, Sltu.flat, 2)
  | "and" => some (And.nIn, And.nOut, And.width, And.flat, 2)
  | "or" => some (Or.nIn, Or.nOut, Or.width, Or.flat, 2)
  | "xor" => some (Xor.nIn, Xor.nOut, Xor.width, Xor.flat, 2)
  | "identity" => some (Identity.nIn, Identity.nOut, Identity.width, Identity.flat, 1)
  | _ => none

/-- `bddword op a b` → the 32 output bits of the model (bits ≥ nOut are the evaluator's zero fill)
as one word, or `undef` if any bit is undefined. -/
def word (op : String) (a b : Nat) : String :=
  match table op with
  | none => "bad-op"
  | some (nIn, nOut, width, flat, words) =>
    let av := BitVec.ofNat 32 a
    let bv := BitVec.ofNat 32 b
    let inp := if words == 2 then inp2 av bv else inp1 av
    let bits := (List.range 32).map (fun i =>
      if i < nOut then evalFlat nIn (width i) (flat i) inp else some false)
    if bits.any Option.isNone then "undef"
    else
      let v := (bits.zipIdx).foldl (fun acc (x, i) => if x == some true then acc + 2 ^ i else acc) 0
      toString v

def handle (ts : List String) : String :=
  match ts with
  | [op, a, b] => word op (nat! a) (nat! b)
  | _ => "bad-op"

end Drv.Bdd
