import Poulpy.Driver.Util
import Poulpy.Driver.Ep
import Poulpy.Model.Lut
import Poulpy.Model.Core.Blind
/-
Driver of the C14 model.  Request `id lut <sub-op> k=v …` (same keys as `pvh lut`):

* `set n= ext= b= klut= k= f=`            → `ok drift=<d> data=<poly0>;<poly1>;…`, a polynomial as
  `limb0|limb1|…`, a limb as comma separated coefficients; or `panic:<class>`.
* `rot … rot=<k1,k2,…>`                    → the same after the listed `lutRotate`s.
* `rotall … lo= hi= sign=`                 → `ok h=<fnv(t)>,…` for `t ∈ [lo,hi)`: FNV-1a over drift and
  all limbs (little-endian i64 bytes) of `lutRotate (sign·t) (lutSet …)`.
* `modswitch n= b= left= limbs=l0|l1|…`    → `ok <ints>`.
* `xai n= ai= y=`                          → `ok <ints>` (`setXaiPlusY`).
* `blindref n= ext= b= klut= k= f= nn= lweb= left= limbs= sk=`
                                           → the expected plaintext of a blind rotation:
  `ok idx=<t> data=<poly0 limbs>` where `t = (b + Σ a_i s_i) mod 2·n·ext` of the mod-switched LWE and
  the polynomial is polynomial 0 of `lutRotate t (lutSet …)`.
* `blindct big= n= resb= ress= rank= lweb= left= limbs=l0|l1|… lut=<poly0>;<poly1>;… dist=block|binary|other block=
   gp=<base2k>,<rank>,<dsize>,<dnum>,<size> g=<key0>;<key1>;…`
                                           → the executed blind rotation on ciphertexts (`Core.Blind.execute`): the
  content of `res` after `blind_rotation_execute`, `<C>x<S>:<ints>` (column, limb, coefficient); a LUT polynomial is
  `limb0|limb1|…`; a key is the flat integer list of one GGSW (row, input column, output column, limb, coefficient).
-/
namespace Drv.Lut
open _root_.Lut

def showPoly (size : Nat) (p : List Vec) : String := "|".intercalate ((toCol size p).map showInts)

def showTable (size : Nat) (t : Table) : String :=
  s!"ok drift={t.drift} data=" ++ ";".intercalate (t.data.map (showPoly size))

def fnvByte (h : UInt64) (b : UInt64) : UInt64 := (h ^^^ b) * 0x100000001b3

def fnvInt (h : UInt64) (x : Int) : UInt64 :=
  let u : UInt64 := (x % 2 ^ 64).toNat.toUInt64
  (List.range 8).foldl (fun h i => fnvByte h ((u >>> (8 * i.toUInt64)) &&& 0xff)) h

def hashTable (size : Nat) (t : Table) : UInt64 :=
  let h := fnvInt 0xcbf29ce484222325 t.drift
  t.data.foldl (fun h p => (toCol size p).foldl (fun h l => l.foldl fnvInt h) h) h

def mk (kv : List String) : Outcome Table × Nat × Nat :=
  let n := kvNat kv "n"; let b := kvNat kv "b"; let klut := kvNat kv "klut"
  (lutSet n (kvNat kv "ext") b klut (kvInts kv "f") (kvNat kv "k"), n, if b = 0 then 0 else (klut + b - 1) / b)

def parseLimbs (s : String) : List (List Int) := (s.splitOn "|").map ints

def handle (ts : List String) : String :=
  match ts with
  | "set" :: kv | "rot" :: kv =>
    match mk kv with
    | (.panic c, _, _) => s!"panic:{c}"
    | (.err e, _, _) => s!"err:{e}"
    | (.ok t, n, size) =>
      let d := (kvInts kv "rot").foldl (fun d k => lutRotate n k d) t.data
      showTable size { t with data := d }
  | "rotall" :: kv =>
    match mk kv with
    | (.panic c, _, _) => s!"panic:{c}"
    | (.err e, _, _) => s!"err:{e}"
    | (.ok t, n, size) =>
      let lo := kvNat kv "lo"; let hi := kvNat kv "hi"; let sign := kvInt kv "sign"
      "ok h=" ++ ",".intercalate ((List.range (hi - lo)).map fun i =>
        toString (hashTable size { t with data := lutRotate n (sign * ((lo + i : Nat) : Int)) t.data }))
  | "modswitch" :: kv =>
    match modSwitch2n (kvNat kv "n") (kvNat kv "b") (parseLimbs ((Drv.kv kv "limbs").getD "")) (kvNat kv "left" == 1) with
    | .ok v => "ok " ++ showInts v
    | .panic c => s!"panic:{c}"
    | .err e => s!"err:{e}"
  | "xai" :: kv => "ok " ++ showInts (setXaiPlusY (kvNat kv "n") (kvNat kv "ai") (kvInt kv "y"))
  | "blindref" :: kv =>
    match mk kv with
    | (.panic c, _, _) => s!"panic:{c}"
    | (.err e, _, _) => s!"err:{e}"
    | (.ok t, n, size) =>
      let ext := kvNat kv "ext"
      match modSwitch2n (2 * n * ext) (kvNat kv "lweb") (parseLimbs ((Drv.kv kv "limbs").getD "")) (kvNat kv "left" == 1) with
      | .ok (bb :: a) =>
        let sk := kvInts kv "sk"
        let dot := (List.zipWith (· * ·) a sk).foldl (· + ·) bb
        let idx := dot % ((2 * n * ext : Nat) : Int)
        let block := kvNat kv "block"
        let b := kvNat kv "b"
        -- what the accumulator loop of the code computes (plaintext level) …
        let got := if ext > 1 then blindExt n ext b size block t.data (bb :: a) sk
                   else blindPlain b (if block = 0 then 1 else block) (t.data.getD 0 []) (bb :: a) sk
        -- … and the clear rotation of the table at the decrypted index
        match (lutRotate n idx t.data) with
        | p0 :: _ => s!"ok idx={idx} data={showPoly size got} clear={showPoly size p0}"
        | [] => "empty"
      | .ok [] => "empty"
      | .panic c => s!"panic:{c}"
      | .err e => s!"err:{e}"
  | "blindct" :: kv =>
    let n := kvNat kv "n"
    match kvNats kv "gp" with
    | [gb, grank, dsize, dnum, gsize] =>
      let cols := grank + 1
      let mkKey (str : String) : Option Core.EpGGSW :=
        let gd := ints str
        if gd.length != dnum * cols * cols * gsize * n then none
        else some { base2k := gb, n := n, rank := grank, dsize := dsize, dnum := dnum, size := gsize,
                    cells := (Drv.Ep.chunk (cols * gsize * n) gd).map (Drv.Ep.mkCols n cols gsize) }
      match (((Drv.kv kv "g").getD "").splitOn ";").mapM mkKey with
      | none => "err:parse-g"
      | some keys =>
        let dist : Core.Blind.Dist := match (Drv.kv kv "dist").getD "" with
          | "block" => .binaryBlock (kvNat kv "block")
          | "binary" => .binaryOther
          | _ => .other
        let lut : Core.Blind.LutIn :=
          { n := n, data := (((Drv.kv kv "lut").getD "").splitOn ";").map parseLimbs, left := kvNat kv "left" == 1 }
        let lwe : Core.Blind.Lwe := { base2k := kvNat kv "lweb", limbs := parseLimbs ((Drv.kv kv "limbs").getD "") }
        Drv.Ep.showOutcome (Core.Blind.execute (kvNat kv "big" == 1) n (kvNat kv "resb") (kvNat kv "ress") (kvNat kv "rank")
          lwe lut { dist := dist, keys := keys })
    | _ => "err:parse-gp"
  | _ => "bad-op"

end Drv.Lut
