import Poulpy.Lemmas.KsDecrypt
import Poulpy.Lemmas.LweIdx

/-!
# End-to-end decryption theorems of the LWE ↔ GLWE operations

`Ks.lweKeyswitch` (`lwe_keyswitch`), `Ks.lweFromGlwe` (`lwe_from_glwe`), `Ks.glweFromLwe` (`glwe_from_lwe`) are compositions of the embedding
`Ks.lweToGlweCols`, `glwe_rotate`, the GLWE key switch `Ks.keyswitch` and `lwe_sample_extract` (structure: `LweIdx`).  This file composes
`KsDec.glwe_keyswitch_decrypts` with the index maps of `LweIdx`, lifted from limbs to values:

0. `ι_surj`, `ring_to_coeff`: every element of `R N` is the class of a list of `N` coefficients, so an identity of `R N` between classes of
   lists can be read at every coefficient (the converse of `coeff_to_ring`);
1. `KsSide`, `ksBound`, `glwe_keyswitch_decrypts_coeff`: `glwe_keyswitch_decrypts` as a per-coefficient integer relation;
2. `rowsCol`, `valP_phase_rows`, `valCoeff_phase_rows`: the value of the phase is the radix-`2^b` value of the per-limb phases `Ks.phaseRow`;
3. `lwePhaseVal`, `embSk`, `lweEmb`; **value-level index maps** `lwe_embed_value` (embedding), `lwe_extract_value` (sample extraction),
   `rotIn_spec` (rotation by `X^{-idx}`: coefficient `idx` ↦ coefficient 0, on the executed `i64` kernels);
4. **`lwe_keyswitch_decrypts`**, **`glwe_to_lwe_decrypts`**, **`lwe_to_glwe_decrypts`** (both radix cases: `glweFromLwe_eq_keyswitch`);
5. closed instances (`N = 4` for the index maps, `N = 1` / `N = 2` for the composed theorems).
-/

namespace KsDec
open Hal Core Core.Ops C02L Polynomial

/-! ### 0. from `R N` back to coefficients -/

/-- every element of `ℤ[X]/(X^N+1)` is the class of a coefficient list of length `N` -/
theorem ι_surj (N : Nat) (hN : 0 < N) (x : Ks.R N) : ∃ p : Poly, p.length = N ∧ Ks.ι N p = x := by
  obtain ⟨f, rfl⟩ := AdjoinRoot.mk_surjective x
  have hg : (X ^ N + 1 : ℤ[X]).Monic := monic_XN1 N hN
  refine ⟨(List.range N).map (fun i => (f %ₘ (X ^ N + 1 : ℤ[X])).coeff i), by simp, ?_⟩
  have e : toPoly ((List.range N).map (fun i => (f %ₘ (X ^ N + 1 : ℤ[X])).coeff i)) = f %ₘ (X ^ N + 1 : ℤ[X]) := by
    ext i
    rw [coeff_toPoly]
    by_cases hi : i < N
    · simp [List.getD_eq_getElem?_getD, hi]
    · have hd : (f %ₘ (X ^ N + 1 : ℤ[X])).degree < (N : WithBot ℕ) := by
        have := degree_modByMonic_lt f hg
        rwa [degree_eq_natDegree hg.ne_zero, natDegree_XN1 N hN] at this
      have hz : (f %ₘ (X ^ N + 1 : ℤ[X])).coeff i = 0 :=
        coeff_eq_zero_of_degree_lt (lt_of_lt_of_le hd (by exact_mod_cast Nat.le_of_not_lt hi))
      rw [hz, List.getD_eq_getElem?_getD, List.getElem?_eq_none (by simp; omega)]
      rfl
  unfold Ks.ι
  rw [e, AdjoinRoot.mk_eq_mk]
  have := modByMonic_add_div f (X ^ N + 1 : ℤ[X])
  exact ⟨-(f /ₘ (X ^ N + 1 : ℤ[X])), by linear_combination this⟩

/-- `ι` is injective on coefficient lists of length `N` -/
theorem ι_inj (N : Nat) (hN : 0 < N) (p q : Poly) (hp : p.length = N) (hq : q.length = N) (h : Ks.ι N p = Ks.ι N q) : p = q :=
  toPoly_mk_inj N p q hp hq hN h

/-- **an identity of `R N` read at one coefficient**: the converse of `coeff_to_ring` -/
theorem ring_to_coeff (N : Nat) (hN : 0 < N) (P Y E : Poly) (Q : Ks.R N) (A B M : Int)
    (hP : P.length = N) (hY : Y.length = N) (hE : E.length = N)
    (h : (A : Ks.R N) * Ks.ι N P = (B : Ks.R N) * Ks.ι N Y + Ks.ι N E + (M : Ks.R N) * Q) (t : Nat) :
    ∃ q : Int, A * P.getD t 0 = B * Y.getD t 0 + E.getD t 0 + M * q := by
  obtain ⟨Ql, hQl, rfl⟩ := ι_surj N hN Q
  refine ⟨Ql.getD t 0, ?_⟩
  have h' : Ks.ι N (polyScale A P) = Ks.ι N (polyAdd (polyAdd (polyScale B Y) E) (polyScale M Ql)) := by
    rw [Ks.ι_polyScale, Ks.ι_add N _ _ (by simp [hY, hE, hQl]), Ks.ι_add N _ _ (by simp [hY, hE]), Ks.ι_polyScale, Ks.ι_polyScale]
    exact h
  have := ι_inj N hN _ _ (by simp [hP]) (by simp [hY, hE, hQl]) h'
  have h2 : (polyScale A P).getD t 0 = (polyAdd (polyAdd (polyScale B Y) E) (polyScale M Ql)).getD t 0 := by rw [this]
  rw [polyScale_getD, getD_polyAdd _ _ _ (by simp [hY, hE, hQl]), getD_polyAdd _ _ _ (by simp [hY, hE]), polyScale_getD,
    polyScale_getD] at h2
  exact h2

theorem abs_getD_le_normInf (p : Poly) (t : Nat) : |p.getD t 0| ≤ normInf p := by
  by_cases ht : t < p.length
  · rw [List.getD_eq_getElem?_getD, List.getElem?_eq_getElem ht, Option.getD_some]
    exact abs_le_normInf (List.getElem_mem ht)
  · rw [List.getD_eq_getElem?_getD, List.getElem?_eq_none (by omega)]
    simpa using normInf_nonneg p

/-! ### 1. `glwe_keyswitch_decrypts`, coefficient by coefficient -/

/-- the hypotheses of `glwe_keyswitch_decrypts` other than the well-formedness and the digit bound of the input (which the LWE
theorems below discharge for the embedded ciphertext): key shape, radices, head-room, key relation, covered regime -/
structure KsSide (big128 : Bool) (N bout sout rout : Nat) (a : Ks.Ct) (key : Ks.Key) (sIn skOut : List Poly)
    (EL KL : ℕ → ℕ → Poly) (Hin Hp : Int) : Prop where
  hN : 0 < N
  hrank : a.rank = key.rankIn
  hrout : rout = key.rankOut
  hc0 : 0 < key.mat.colsOut
  hD : 1 ≤ key.dsize
  hM : ∀ j q, (key.mat.entry j q).length = N
  hS : key.mat.rows * key.dsize ≤ key.mat.size
  hbi1 : 1 ≤ a.base2k
  hbi : a.base2k ≤ 62
  hbk1 : 1 ≤ key.base2k
  hbk : key.base2k ≤ 62
  hbo1 : 1 ≤ bout
  hbo : bout ≤ 62
  hIn0 : 0 ≤ Hin
  hIn : Hin + 8 ≤ 2 ^ 62
  hHp0 : 0 ≤ Hp
  hAcc : Hp + (Hin + 2 ^ key.base2k) + 8 ≤ 2 ^ (bitsOf big128 - 2)
  hprod : ∀ aConv, Ks.convIn a key = .ok aConv → ∀ i, i < rout + 1 → ∀ l ∈ (prodOf rout aConv key).act i, ∀ x ∈ l, |x| ≤ Hp
  hs : key.mat.colsIn ≤ sIn.length
  hEL : ∀ i r, (EL i r).length = N
  hKL : ∀ i r, (KL i r).length = N
  hkey : ∀ i, i < key.mat.colsIn → ∀ r, r < key.mat.rows →
      Gadget.val (Ks.radix N key.base2k) key.mat.size (Ks.keyPhase N skOut key.mat i r) =
        Ks.ι N (sIn.getD i []) * Ks.radix N key.base2k ^ (key.mat.size - (r + 1) * key.dsize) + Ks.ι N (EL i r)
          + Ks.radix N key.base2k ^ key.mat.size * Ks.ι N (KL i r)
  hcov1 : convSize a key ≤ key.mat.size
  hcov2 : convSize a key ≤ key.mat.rows * key.dsize

/-- the error bound of `glwe_keyswitch_decrypts` (conversion rounding, gadget error, dropped product limbs, final rounding) -/
def ksBound (N bout sout rout : Nat) (a aConv : Ks.Ct) (key : Ks.Key) (sIn skOut : List Poly) (EL : ℕ → ℕ → Poly) : Int :=
  2 ^ (bout * sout + key.base2k * (key.mat.size - convSize a key)) *
      ((1 + snorm (min a.rank sIn.length) sIn) * C02.normTol (key.base2k * convSize a key) (a.base2k * a.size))
    + 2 ^ (a.base2k * a.size + bout * sout) * gadgetBound N key.base2k (aDftOf aConv) key EL
    + 2 ^ (a.base2k * a.size + bout * sout) * dropBound N key.base2k skOut (aDftOf aConv) key
    + 2 ^ (a.base2k * a.size) *
      ((1 + snorm (min rout skOut.length) skOut) * C02.normTol (bout * sout) (key.base2k * key.mat.size))

/-- **`glwe_keyswitch_decrypts` read coefficient by coefficient** (integers, no quotient ring): for every `t < N`,
`2^(b_in·s_a + b_key·S)·val_t(phase_{skOut} res) = 2^(b_out·s_out + b_key·S)·val_t(phase_{sIn} a) + e + 2^(b_in·s_a + b_out·s_out + b_key·S)·q`
with `|e| ≤ ksBound`. -/
theorem glwe_keyswitch_decrypts_coeff (big128 : Bool) (N bout sout rout : Nat) (a : Ks.Ct) (key : Ks.Key) (sIn skOut : List Poly)
    (EL KL : ℕ → ℕ → Poly) (Hin Hp : Int) (h : KsSide big128 N bout sout rout a key sIn skOut EL KL Hin Hp)
    (ha : GWF N a) (hInB : ∀ c ∈ a.cols, ∀ l ∈ c, ∀ x ∈ l, |x| ≤ Hin) :
    ∃ res aConv, Ks.keyswitch big128 bout sout rout a key = .ok res ∧ Ks.convIn a key = .ok aConv ∧
      GWF N res ∧ res.base2k = bout ∧ res.size = sout ∧ res.rank = rout ∧
      ∀ t, t < N → ∃ e q : Int,
        2 ^ (a.base2k * a.size + key.base2k * key.mat.size) * valCoeff bout (phase skOut res) t
          = 2 ^ (bout * sout + key.base2k * key.mat.size) * valCoeff a.base2k (phase sIn a) t + e
            + 2 ^ (a.base2k * a.size + bout * sout + key.base2k * key.mat.size) * q ∧
        |e| ≤ ksBound N bout sout rout a aConv key sIn skOut EL := by
  obtain ⟨res, aConv, hok, hconv, gwR, hbR, hsR, hrR, E1, E3, Q, hE1, hE3, _, _, hrel, hbnd⟩ :=
    glwe_keyswitch_decrypts big128 N bout sout rout a key sIn skOut EL KL Hin Hp h.hN ha h.hrank h.hrout h.hc0 h.hD h.hM h.hS
      h.hbi1 h.hbi h.hbk1 h.hbk h.hbo1 h.hbo h.hIn0 h.hIn hInB h.hHp0 h.hAcc h.hprod h.hs h.hEL h.hKL h.hkey h.hcov1 h.hcov2
  refine ⟨res, aConv, hok, hconv, gwR, hbR, hsR, hrR, ?_⟩
  intro t ht
  have hGl : (Ks.errL N key.base2k (aDftOf aConv) key EL).length = N := Ks.errL_length N _ _ _ EL h.hEL
  have hDl : (Ks.dropL N key.base2k skOut (aDftOf aConv) key).length = N := by
    unfold Ks.dropL
    apply Ks.sumPolys_range_length
    intro i _
    apply Ks.sumPolys_range_length
    intro di _
    apply Ks.sumPolys_range_length
    intro r _
    apply Ks.sumPolys_range_length
    intro l _
    exact Ks.dropTermL_length N _ skOut _ key i di r l h.hc0 h.hM
  generalize hErr : ksErr (2 ^ (bout * sout + key.base2k * (key.mat.size - convSize a key))) (2 ^ (a.base2k * a.size + bout * sout))
      (2 ^ (a.base2k * a.size)) E1 (Ks.errL N key.base2k (aDftOf aConv) key EL)
      (Ks.dropL N key.base2k skOut (aDftOf aConv) key) E3 = Err at hrel hbnd
  have hErrL : Err.length = N := by
    rw [← hErr]; unfold ksErr; simp [hE1, hE3, hGl, hDl]
  have hrel' : ((2 ^ (a.base2k * a.size + key.base2k * key.mat.size) : ℤ) : Ks.R N) * Ks.ι N (valP bout N (phase skOut res))
      = ((2 ^ (bout * sout + key.base2k * key.mat.size) : ℤ) : Ks.R N) * Ks.ι N (valP a.base2k N (phase sIn a)) + Ks.ι N Err
        + ((2 ^ (a.base2k * a.size + bout * sout + key.base2k * key.mat.size) : ℤ) : Ks.R N) * Q := by
    push_cast
    exact hrel
  obtain ⟨q, hq⟩ := ring_to_coeff N h.hN _ _ _ Q _ _ _ (by simp) (by simp) hErrL hrel' t
  rw [valP_getD _ _ _ _ ht, valP_getD _ _ _ _ ht] at hq
  exact ⟨Err.getD t 0, q, hq, (abs_getD_le_normInf Err t).trans hbnd⟩

/-! ### 2. the phase of a ciphertext, limb by limb, at the level of values -/

/-- the column of the per-limb phases `phaseRow s (limb l of every column)` -/
def rowsCol (N : Nat) (s : List Poly) (cols : List Col) (S : Nat) : Col :=
  (List.range S).map (fun l => Ks.phaseRow s (cols.map (fun c => limbOr0 N c l)))

theorem limbOr0_length {N S : Nat} {c : Col} (hc : ColWF N S c) (l : Nat) : (limbOr0 N c l).length = N := by
  unfold limbOr0
  by_cases hl : l < c.length
  · rw [List.getD_eq_getElem?_getD, List.getElem?_eq_getElem hl]
    exact hc.2 _ (List.getElem_mem hl)
  · rw [List.getD_eq_getElem?_getD, List.getElem?_eq_none (by omega)]
    simp [zeroP]

theorem rowsCol_wf (N : Nat) (s : List Poly) (cols : List Col) (S : Nat) (hne : cols ≠ []) (hwf : ∀ c ∈ cols, ColWF N S c) :
    ColWF N S (rowsCol N s cols S) := by
  refine ⟨by simp [rowsCol], ?_⟩
  intro p hp
  obtain ⟨l, _, rfl⟩ := List.mem_map.mp hp
  apply Ks.phaseRow_length N
  · intro q hq
    obtain ⟨c, hc, rfl⟩ := List.mem_map.mp hq
    exact limbOr0_length (hwf c hc) l
  · simpa using hne

theorem limbOr0_rowsCol (N : Nat) (s : List Poly) (cols : List Col) (S l : Nat) (hl : l < S) :
    limbOr0 N (rowsCol N s cols S) l = Ks.phaseRow s (cols.map (fun c => limbOr0 N c l)) := by
  show ((List.range S).map _).getD l (zeroP N) = _
  simp [List.getD_eq_getElem?_getD, List.getElem?_map, List.getElem?_range hl]

/-- the value of the phase is the value of the column of per-limb phases -/
theorem valP_phase_rows (N : Nat) (hN : 0 < N) (b S : Nat) (s : List Poly) (cols : List Col) (hne : cols ≠ [])
    (hwf : ∀ c ∈ cols, ColWF N S c) :
    valP b N (phase s (Ks.mkCt b N cols)) = valP b N (rowsCol N s cols S) := by
  apply ι_inj N hN _ _ (by simp) (by simp)
  have hr := rowsCol_wf N s cols S hne hwf
  rw [Core.ι_valP_phase_rows' N hN b S s cols hne hwf, Core.ι_valP N b _ hr.2, hr.1]
  apply Finset.sum_congr rfl
  intro l hl
  have hl' : l < S := Finset.mem_range.mp hl
  rw [limbOr0_rowsCol N s cols S l hl']

theorem valCoeff_phase_rows (N : Nat) (hN : 0 < N) (b S : Nat) (s : List Poly) (g : Ks.Ct) (hg : GWF N g) (hS : g.size = S)
    (t : Nat) (ht : t < N) :
    valCoeff b (phase s g) t = valCoeff b (rowsCol N s g.cols S) t := by
  have h := valP_phase_rows N hN b S s g.cols hg.2.1 (by rw [← hS]; exact hg.2.2)
  have hph : phase s (Ks.mkCt b N g.cols) = phase s g := rfl
  rw [hph] at h
  have h2 : (valP b N (phase s g)).getD t 0 = (valP b N (rowsCol N s g.cols S)).getD t 0 := by rw [h]
  rwa [valP_getD _ _ _ _ ht, valP_getD _ _ _ _ ht] at h2

/-- `valCoeff` is the radix-`2^b` value of the list of coefficients `t` of the limbs -/
theorem valCoeff_eq_fold (b : Nat) (c : Col) (t : Nat) :
    valCoeff b c t = (c.map (fun l => l.getD t 0)).foldl (fun acc x => acc * 2 ^ b + x) 0 := by
  unfold valCoeff
  rw [List.foldl_map]

/-! ### 3. the LWE phase value -/

/-- the LWE phase `b + ⟨a, s⟩` of one limb `[b, a₁ … a_n]` -/
def lweLimbPhase (n : Nat) (sLwe limb : Poly) : Int :=
  limb.getD 0 0 + ∑ j ∈ Finset.range n, limb.getD (j + 1) 0 * sLwe.getD j 0

/-- **the phase value of an LWE ciphertext** under the LWE secret `sLwe`: the radix-`2^b` value (last limb weight 1, as `valCoeff`) of the
per-limb phases `limb[0] + Σ_{j<n} limb[j+1]·sLwe[j]` -/
def lwePhaseVal (b : Nat) (l : Ks.Lwe) (sLwe : Poly) : Int :=
  l.data.foldl (fun acc limb => acc * 2 ^ b + lweLimbPhase l.nLwe sLwe limb) 0

theorem lwePhaseVal_eq_fold (b : Nat) (l : Ks.Lwe) (sLwe : Poly) :
    lwePhaseVal b l sLwe = (l.data.map (lweLimbPhase l.nLwe sLwe)).foldl (fun acc x => acc * 2 ^ b + x) 0 := by
  unfold lwePhaseVal
  rw [List.foldl_map]

/-- the GLWE secret an LWE secret embeds to: `σ_{-1}` of the zero-padded secret -/
def embSk (N : Nat) (sLwe : Poly) : List Poly := [AutoMul.σ (-1) (Ks.padTo N sLwe)]

/-- the GLWE ciphertext an LWE ciphertext embeds to (`lwe_keyswitch`, `glwe_from_lwe`) -/
def lweEmb (N : Nat) (l : Ks.Lwe) : Ks.Ct := Ks.mkCt l.base2k N (Ks.lweToGlweCols N l)

theorem lweEmb_cols_wf (N : Nat) (l : Ks.Lwe) : ∀ c ∈ Ks.lweToGlweCols N l, ColWF N l.data.length c := by
  intro c hc
  unfold Ks.lweToGlweCols at hc
  simp only [List.mem_cons, List.not_mem_nil, or_false] at hc
  rcases hc with rfl | rfl
  · refine ⟨by simp, ?_⟩
    intro p hp
    obtain ⟨x, _, rfl⟩ := List.mem_map.mp hp
    exact LweIdx.padTo_length N _
  · refine ⟨by simp, ?_⟩
    intro p hp
    obtain ⟨x, _, rfl⟩ := List.mem_map.mp hp
    exact LweIdx.padTo_length N _

theorem lweEmb_size (N : Nat) (l : Ks.Lwe) : (lweEmb N l).size = l.data.length := by
  show ((Ks.lweToGlweCols N l).getD 0 []).length = _
  simp [Ks.lweToGlweCols]

theorem lweEmb_gwf (N : Nat) (l : Ks.Lwe) : GWF N (lweEmb N l) := by
  refine ⟨rfl, by simp [lweEmb, Ks.mkCt, Ks.lweToGlweCols], ?_⟩
  rw [lweEmb_size]
  exact lweEmb_cols_wf N l

theorem lweEmb_rank (N : Nat) (l : Ks.Lwe) : (lweEmb N l).rank = 1 := rfl

theorem padTo_mem (n : Nat) (l : Poly) (x : Int) (hx : x ∈ Ks.padTo n l) : x ∈ l ∨ x = 0 := by
  unfold Ks.padTo at hx
  rcases List.mem_append.mp hx with h | h
  · exact Or.inl (List.mem_of_mem_take h)
  · exact Or.inr (List.mem_replicate.mp h).2

/-- the digits of the embedding are digits of the LWE ciphertext, or `0` -/
theorem lweEmb_bound (N : Nat) (l : Ks.Lwe) (H : Int) (hH : 0 ≤ H) (hb : ∀ limb ∈ l.data, ∀ x ∈ limb, |x| ≤ H) :
    ∀ c ∈ (lweEmb N l).cols, ∀ p ∈ c, ∀ x ∈ p, |x| ≤ H := by
  intro c hc p hp x hx
  have hc' : c ∈ Ks.lweToGlweCols N l := hc
  unfold Ks.lweToGlweCols at hc'
  simp only [List.mem_cons, List.not_mem_nil, or_false] at hc'
  rcases hc' with rfl | rfl
  · obtain ⟨limb, hl, rfl⟩ := List.mem_map.mp hp
    rcases padTo_mem _ _ _ hx with h | h
    · exact hb limb hl x (List.mem_of_mem_take h)
    · rw [h]; simpa using hH
  · obtain ⟨limb, hl, rfl⟩ := List.mem_map.mp hp
    rcases padTo_mem _ _ _ hx with h | h
    · exact hb limb hl x (List.mem_of_mem_drop (List.mem_of_mem_take h))
    · rw [h]; simpa using hH

/-- **embedding, at the level of values**: coefficient 0 of the value of the GLWE phase of the embedded ciphertext under the embedded secret
`σ_{-1}(pad sLwe)` is the LWE phase value -/
theorem lwe_embed_value (N b : Nat) (l : Ks.Lwe) (sLwe : Poly) (hN : 0 < N) (hn : l.nLwe ≤ N) (hs : sLwe.length = l.nLwe) :
    valCoeff b (phase (embSk N sLwe) (lweEmb N l)) 0 = lwePhaseVal b l sLwe := by
  rw [valCoeff_phase_rows N hN b l.data.length _ _ (lweEmb_gwf N l) (lweEmb_size N l) 0 hN, valCoeff_eq_fold, lwePhaseVal_eq_fold]
  congr 1
  apply List.ext_getElem (by simp [rowsCol])
  intro i h1 h2
  have hi : i < l.data.length := by simpa using h2
  simp only [rowsCol, List.getElem_map, List.getElem_range]
  have e : (lweEmb N l).cols.map (fun c => limbOr0 N c i) = (Ks.lweToGlweCols N l).map (fun c => c.getD i []) := by
    show (Ks.lweToGlweCols N l).map _ = _
    apply List.map_congr_left
    intro c hc
    have hlen := (lweEmb_cols_wf N l c hc).1
    unfold limbOr0
    rw [List.getD_eq_getElem?_getD, List.getD_eq_getElem?_getD, List.getElem?_eq_getElem (by omega)]
    rfl
  rw [e]
  have := LweIdx.lweToGlwe_phase N l sLwe i hN hn hs hi
  unfold embSk
  rw [this]
  unfold lweLimbPhase
  simp [List.getD_eq_getElem?_getD, List.getElem?_eq_getElem hi]

/-- **sample extraction, at the level of values**: the LWE phase value of `lwe_sample_extract(out)` (same limb count as `out`, rank 1) under
`sLwe` is coefficient 0 of the value of the GLWE phase of `out` under the embedded secret `σ_{-1}(pad sLwe)` -/
theorem lwe_extract_value (N b rb rs rN : Nat) (out : Ks.Ct) (res : Ks.Lwe) (sLwe : Poly) (hN : 0 < N) (hg : GWF N out)
    (hrank : out.rank = 1) (hsz : out.size = rs) (hs : sLwe.length = rN) (h : Ks.sampleExtract rb rs rN out = .ok res) :
    lwePhaseVal b res sLwe = valCoeff b (phase (embSk N sLwe) out) 0 := by
  obtain ⟨_, hn, hlen, hrN, _, hcopy, _⟩ := LweIdx.sampleExtract_spec rb rs rN out res h
  rw [hg.1] at hrN
  have hl2 : out.cols.length = 2 := by
    have : out.cols.length - 1 = 1 := hrank
    omega
  obtain ⟨x, y, hxy⟩ := List.length_eq_two.mp hl2
  have hx : ColWF N rs x := by rw [← hsz]; exact hg.2.2 x (by rw [hxy]; simp)
  have hy : ColWF N rs y := by rw [← hsz]; exact hg.2.2 y (by rw [hxy]; simp)
  rw [valCoeff_phase_rows N hN b rs _ out hg hsz 0 hN, valCoeff_eq_fold, lwePhaseVal_eq_fold]
  congr 1
  apply List.ext_getElem (by simp [rowsCol, hlen])
  intro i h1 h2
  have hi : i < rs := by simpa [rowsCol] using h2
  simp only [rowsCol, List.getElem_map, List.getElem_range]
  have e1 : res.data[i]'(by rw [hlen]; exact hi) = res.data.getD i [] := by
    rw [List.getD_eq_getElem?_getD, List.getElem?_eq_getElem (by rw [hlen]; exact hi)]; rfl
  rw [e1, hcopy i (by rw [hsz]; simpa using hi), hn, hxy]
  have hxi : x.getD i [] = x[i]'(by rw [hx.1]; exact hi) := by
    rw [List.getD_eq_getElem?_getD, List.getElem?_eq_getElem (by rw [hx.1]; exact hi)]; rfl
  have hyi : y.getD i [] = y[i]'(by rw [hy.1]; exact hi) := by
    rw [List.getD_eq_getElem?_getD, List.getElem?_eq_getElem (by rw [hy.1]; exact hi)]; rfl
  have hxi' : limbOr0 N x i = x[i]'(by rw [hx.1]; exact hi) := by
    unfold limbOr0
    rw [List.getD_eq_getElem?_getD, List.getElem?_eq_getElem (by rw [hx.1]; exact hi)]; rfl
  have hyi' : limbOr0 N y i = y[i]'(by rw [hy.1]; exact hi) := by
    unfold limbOr0
    rw [List.getD_eq_getElem?_getD, List.getElem?_eq_getElem (by rw [hy.1]; exact hi)]; rfl
  simp only [List.getD_cons_zero, List.getD_cons_succ, List.map_cons, List.map_nil, hxi, hyi, hxi', hyi']
  unfold lweLimbPhase embSk
  exact LweIdx.extract_phase _ _ sLwe (hx.2 _ (List.getElem_mem _)) (hy.2 _ (List.getElem_mem _)) hN hrN hs

/-! ### 4. the composed theorems -/

/-- **`lwe_keyswitch_decrypts`** — END-TO-END theorem of `Ks.lweKeyswitch` (`lwe_keyswitch`: embed, `glwe_keyswitch` into rank 1,
`lwe_sample_extract`), all shapes, both accumulator widths.  Hypotheses: `KsSide` = the side hypotheses of `glwe_keyswitch_decrypts` for the
embedded ciphertext `lweEmb n a` and the embedded secrets `σ_{-1}(pad sIn)`, `σ_{-1}(pad sOut)` (key shape and key relation, radices,
head-room, covered regime); the digits of `a` bounded by `Hin`; dimensions `≤ n`.  Well-formedness and the digit bound of the embedded
ciphertext, the structure of the call, and the two index maps are discharged.  Conclusion: the call returns `res` (`sout` limbs of
`nOut + 1` coefficients, radix `2^bout`) and
`2^(b_in·s_a + b_key·S)·lwePhaseVal(res, sOut) = 2^(b_out·s_out + b_key·S)·lwePhaseVal(a, sIn) + e + 2^(b_in·s_a + b_out·s_out + b_key·S)·q`,
`|e| ≤ ksBound` (the bound of `glwe_keyswitch_decrypts`). -/
theorem lwe_keyswitch_decrypts (big128 : Bool) (n bout sout nOut : Nat) (a : Ks.Lwe) (key : Ks.Key) (sIn sOut : Poly)
    (EL KL : ℕ → ℕ → Poly) (Hin Hp : Int)
    (h : KsSide big128 n bout sout 1 (lweEmb n a) key (embSk n sIn) (embSk n sOut) EL KL Hin Hp)
    (hInB : ∀ limb ∈ a.data, ∀ x ∈ limb, |x| ≤ Hin)
    (hnIn : a.nLwe ≤ n) (hnOut : nOut ≤ n) (hsIn : sIn.length = a.nLwe) (hsOut : sOut.length = nOut) :
    ∃ res aConv, Ks.lweKeyswitch big128 n bout sout nOut a key = .ok res ∧ Ks.convIn (lweEmb n a) key = .ok aConv ∧
      res.base2k = bout ∧ res.nLwe = nOut ∧ res.data.length = sout ∧
      ∃ e q : Int,
        2 ^ (a.base2k * a.data.length + key.base2k * key.mat.size) * lwePhaseVal bout res sOut
          = 2 ^ (bout * sout + key.base2k * key.mat.size) * lwePhaseVal a.base2k a sIn + e
            + 2 ^ (a.base2k * a.data.length + bout * sout + key.base2k * key.mat.size) * q ∧
        |e| ≤ ksBound n bout sout 1 (lweEmb n a) aConv key (embSk n sIn) (embSk n sOut) EL := by
  obtain ⟨out, aConv, hok, hconv, gwR, hbR, hsR, hrR, hco⟩ :=
    glwe_keyswitch_decrypts_coeff big128 n bout sout 1 (lweEmb n a) key (embSk n sIn) (embSk n sOut) EL KL Hin Hp h
      (lweEmb_gwf n a) (lweEmb_bound n a Hin h.hIn0 hInB)
  have hex := LweIdx.sampleExtract_ok bout sout nOut out (by rw [gwR.1]; exact hnOut) hbR.symm
  obtain ⟨hb, hn, hlen, _⟩ := LweIdx.sampleExtract_spec _ _ _ _ _ hex
  refine ⟨_, aConv, ?_, hconv, hb, hn, hlen, ?_⟩
  · rw [LweIdx.lweKeyswitch_eq big128 n bout sout nOut a key hnOut hnIn]
    show Ks.obind (Ks.keyswitch big128 bout sout 1 (lweEmb n a) key) _ = _
    rw [hok]
    exact hex
  · obtain ⟨e, q, hrel, hbnd⟩ := hco 0 h.hN
    have hbe : (lweEmb n a).base2k = a.base2k := rfl
    rw [hbe, ← lwe_extract_value n bout bout sout nOut out _ sOut h.hN gwR hrR hsR hsOut hex,
      lwe_embed_value n a.base2k a sIn h.hN hnIn hsIn, lweEmb_size] at hrel
    exact ⟨e, q, hrel, hbnd⟩

/-- the input of the inner key switch of `lwe_from_glwe`: `a`, rotated by `X^{-idx}` when `idx ≠ 0` -/
def rotIn (a : Ks.Ct) (idx : Nat) : Ks.Ct := if idx = 0 then a else Ks.glweRotate (-(idx : Int)) a

theorem rotE_bound (k : Int) (p : Poly) (H : Int) (h : ∀ x ∈ p, |x| ≤ H) : ∀ x ∈ LweIdx.rotE k p, |x| ≤ H := by
  intro x hx
  unfold LweIdx.rotE znxRotateW at hx
  dsimp only at hx
  split at hx
  · rcases List.mem_append.mp hx with h1 | h1
    · unfold znxNegateW at h1
      obtain ⟨y, hy, rfl⟩ := List.mem_map.mp h1
      simp only [id, abs_neg]
      exact h y (List.mem_of_mem_drop hy)
    · exact h x (List.mem_of_mem_take h1)
  · rcases List.mem_append.mp hx with h1 | h1
    · exact h x (List.mem_of_mem_drop h1)
    · unfold znxNegateW at h1
      obtain ⟨y, hy, rfl⟩ := List.mem_map.mp h1
      simp only [id, abs_neg]
      exact h y (List.mem_of_mem_take hy)

theorem inR_of_bound {N : Nat} (a : Ks.Ct) (H : Int) (hH : H + 8 ≤ 2 ^ 62) (hb : ∀ c ∈ a.cols, ∀ l ∈ c, ∀ x ∈ l, |x| ≤ H)
    (_ha : GWF N a) : ∀ c ∈ a.cols, ∀ p ∈ c, ∀ x ∈ p, LweIdx.InR x := by
  intro c hc p hp x hx
  have := abs_le.mp (hb c hc p hp x hx)
  unfold LweIdx.InR
  constructor <;> omega

theorem map_limbOr0_eq_rowAt (N S : Nat) (cols : List Col) (i : Nat) (hi : i < S) (h : ∀ c ∈ cols, c.length = S) :
    cols.map (fun c => limbOr0 N c i) = LweIdx.rowAt cols i := by
  unfold LweIdx.rowAt
  apply List.map_congr_left
  intro c hc
  unfold limbOr0
  rw [List.getD_eq_getElem?_getD, List.getD_eq_getElem?_getD, List.getElem?_eq_getElem (by rw [h c hc]; exact hi)]
  rfl

/-- the rotated input: shape, digit bound, and **rotation, at the level of values** — coefficient 0 of the value of its phase is coefficient
`idx` of the value of the phase of `a` (same secret) -/
theorem rotIn_spec (N : Nat) (a : Ks.Ct) (idx : Nat) (H : Int) (hN : 0 < N) (ha : GWF N a) (hH : H + 8 ≤ 2 ^ 62)
    (hb : ∀ c ∈ a.cols, ∀ l ∈ c, ∀ x ∈ l, |x| ≤ H) (hidx : idx < N) :
    GWF N (rotIn a idx) ∧ (rotIn a idx).base2k = a.base2k ∧ (rotIn a idx).size = a.size ∧ (rotIn a idx).rank = a.rank ∧
    (∀ c ∈ (rotIn a idx).cols, ∀ l ∈ c, ∀ x ∈ l, |x| ≤ H) ∧
    ∀ (b : Nat) (s : List Poly), valCoeff b (phase s (rotIn a idx)) 0 = valCoeff b (phase s a) idx := by
  unfold rotIn
  by_cases h0 : idx = 0
  · rw [if_pos h0, h0]
    exact ⟨ha, rfl, rfl, rfl, hb, fun _ _ => rfl⟩
  · rw [if_neg h0]
    have hsz : ∀ c ∈ a.cols, c.length = a.size := fun c hc => (ha.2.2 c hc).1
    have hr := inR_of_bound a H hH hb ha
    have hcols := LweIdx.glweRotate_cols (-(idx : Int)) a hsz hr
    have hsize : (Ks.glweRotate (-(idx : Int)) a).size = a.size := by
      show ((Ks.glweRotate (-(idx : Int)) a).cols.getD 0 []).length = (a.cols.getD 0 []).length
      rw [hcols]
      cases hc : a.cols with
      | nil => exact absurd hc ha.2.1
      | cons c0 cs => simp
    have hwf : ∀ c ∈ (Ks.glweRotate (-(idx : Int)) a).cols, ColWF N a.size c := by
      intro c hc
      rw [hcols] at hc
      obtain ⟨c0, hc0, rfl⟩ := List.mem_map.mp hc
      refine ⟨by rw [List.length_map]; exact hsz c0 hc0, ?_⟩
      intro p hp
      obtain ⟨p0, hp0, rfl⟩ := List.mem_map.mp hp
      rw [LweIdx.rotE_length]
      exact (ha.2.2 c0 hc0).2 p0 hp0
    have hg : GWF N (Ks.glweRotate (-(idx : Int)) a) := by
      refine ⟨ha.1, ?_, ?_⟩
      · rw [hcols]; simpa using ha.2.1
      · rw [hsize]; exact hwf
    refine ⟨hg, rfl, hsize, ?_, ?_, ?_⟩
    · show (Ks.glweRotate (-(idx : Int)) a).cols.length - 1 = a.cols.length - 1
      rw [hcols, List.length_map]
    · intro c hc l hl x hx
      rw [hcols] at hc
      obtain ⟨c0, hc0, rfl⟩ := List.mem_map.mp hc
      obtain ⟨p0, hp0, rfl⟩ := List.mem_map.mp hl
      exact rotE_bound _ p0 H (hb c0 hc0 p0 hp0) x hx
    · intro b s
      rw [valCoeff_phase_rows N hN b a.size s _ hg hsize 0 hN, valCoeff_phase_rows N hN b a.size s a ha rfl idx hidx,
        valCoeff_eq_fold, valCoeff_eq_fold]
      congr 1
      apply List.ext_getElem (by simp [rowsCol])
      intro i h1 h2
      have hi : i < a.size := by simpa [rowsCol] using h2
      simp only [rowsCol, List.getElem_map, List.getElem_range]
      rw [map_limbOr0_eq_rowAt N a.size _ i hi (fun c hc => (hwf c hc).1), map_limbOr0_eq_rowAt N a.size _ i hi hsz]
      exact LweIdx.extract_index_glwe N s a idx i ha.2.1 hsz hi (fun c hc => (ha.2.2 c hc).2) hr hidx

/-- **`glwe_to_lwe_decrypts`** — END-TO-END theorem of `Ks.lweFromGlwe` (`lwe_from_glwe`: `glwe_rotate(-idx)`, `glwe_keyswitch` into rank 1,
`lwe_sample_extract`).  `KsSide` is taken for the rotated input `rotIn a idx` (same radix, rank and limb count as `a`: `rotIn_spec`).  The LWE
phase value of the result under `sOut` is coefficient `idx` of the value of the GLWE phase of `a` under `sIn`, up to the key-switch error. -/
theorem glwe_to_lwe_decrypts (big128 : Bool) (N bout sout nOut : Nat) (a : Ks.Ct) (idx : Nat) (key : Ks.Key) (sIn : List Poly) (sOut : Poly)
    (EL KL : ℕ → ℕ → Poly) (Hin Hp : Int)
    (h : KsSide big128 N bout sout 1 (rotIn a idx) key sIn (embSk N sOut) EL KL Hin Hp)
    (ha : GWF N a) (hInB : ∀ c ∈ a.cols, ∀ l ∈ c, ∀ x ∈ l, |x| ≤ Hin) (hidx : idx < N)
    (hnOut : nOut ≤ N) (hsOut : sOut.length = nOut) :
    ∃ res aConv, Ks.lweFromGlwe big128 bout sout nOut a idx key = .ok res ∧ Ks.convIn (rotIn a idx) key = .ok aConv ∧
      res.base2k = bout ∧ res.nLwe = nOut ∧ res.data.length = sout ∧
      ∃ e q : Int,
        2 ^ (a.base2k * a.size + key.base2k * key.mat.size) * lwePhaseVal bout res sOut
          = 2 ^ (bout * sout + key.base2k * key.mat.size) * valCoeff a.base2k (phase sIn a) idx + e
            + 2 ^ (a.base2k * a.size + bout * sout + key.base2k * key.mat.size) * q ∧
        |e| ≤ ksBound N bout sout 1 (rotIn a idx) aConv key sIn (embSk N sOut) EL := by
  obtain ⟨gR, bR, sR, _, dR, vR⟩ := rotIn_spec N a idx Hin h.hN ha h.hIn hInB hidx
  obtain ⟨out, aConv, hok, hconv, gwR, hbR, hsR, hrR, hco⟩ :=
    glwe_keyswitch_decrypts_coeff big128 N bout sout 1 (rotIn a idx) key sIn (embSk N sOut) EL KL Hin Hp h gR dR
  have hex := LweIdx.sampleExtract_ok bout sout nOut out (by rw [gwR.1]; exact hnOut) hbR.symm
  obtain ⟨hb, hn, hlen, _⟩ := LweIdx.sampleExtract_spec _ _ _ _ _ hex
  refine ⟨_, aConv, ?_, hconv, hb, hn, hlen, ?_⟩
  · rw [LweIdx.lweFromGlwe_eq big128 bout sout nOut a idx key (by rw [ha.1]; exact hnOut)]
    show Ks.obind (Ks.keyswitch big128 bout sout 1 (rotIn a idx) key) _ = _
    rw [hok]
    exact hex
  · obtain ⟨e, q, hrel, hbnd⟩ := hco 0 h.hN
    rw [bR, sR, ← lwe_extract_value N bout bout sout nOut out _ sOut h.hN gwR hrR hsR hsOut hex, vR] at hrel
    exact ⟨e, q, hrel, hbnd⟩

/-- `glwe_from_lwe` is `glwe_keyswitch` of the embedding, in BOTH radix cases: when the radices differ, the `glwe_normalize` in front is the
input conversion `Ks.convIn` of the key switch, and the key switch of the converted ciphertext converts nothing -/
theorem glweFromLwe_eq_keyswitch (big128 : Bool) (n rb rs rr : Nat) (a : Ks.Lwe) (key : Ks.Key) (aConv : Ks.Ct) (hn : a.nLwe ≤ n)
    (hconv : Ks.convIn (lweEmb n a) key = .ok aConv) (hb : aConv.base2k = key.base2k) (hr : aConv.rank = (lweEmb n a).rank)
    (hN : aConv.n = n) :
    Ks.glweFromLwe big128 n rb rs rr a key = Ks.keyswitch big128 rb rs rr (lweEmb n a) key := by
  by_cases hbk : a.base2k = key.base2k
  · rw [LweIdx.glweFromLwe_eq_same big128 n rb rs rr a key hn hbk, ← hbk]
    rfl
  · rw [LweIdx.glweFromLwe_eq_conv big128 n rb rs rr a key hn hbk]
    have e : Ks.glweNormalize key.base2k (Ks.divCeil (a.data.length * a.base2k) key.base2k) (Ks.mkCt a.base2k n (Ks.lweToGlweCols n a))
        = Ks.convIn (lweEmb n a) key := by
      unfold Ks.convIn
      rw [if_pos (by exact hbk), lweEmb_size]
      rfl
    rw [e, hconv]
    show Ks.keyswitch big128 rb rs rr aConv key = _
    have hc2 : Ks.convIn aConv key = .ok aConv := by
      unfold Ks.convIn
      rw [if_neg (by simpa using hb)]
    have hn2 : (lweEmb n a).n = n := rfl
    unfold Ks.keyswitch
    simp only [hr, hc2, hconv, Ks.obind, hN, hn2]

/-- **`lwe_to_glwe_decrypts`** — END-TO-END theorem of `Ks.glweFromLwe` (`glwe_from_lwe`), BOTH radix cases (radix of the LWE ciphertext equal
to the radix of the key or not: `glweFromLwe_eq_keyswitch`): coefficient 0 of the value of the GLWE phase of the result under `skOut` is the
LWE phase value of the input under `sIn`, up to the key-switch error (the other coefficients are not constrained by the LWE input). -/
theorem lwe_to_glwe_decrypts (big128 : Bool) (n bout sout rout : Nat) (a : Ks.Lwe) (key : Ks.Key) (sIn : Poly) (skOut : List Poly)
    (EL KL : ℕ → ℕ → Poly) (Hin Hp : Int)
    (h : KsSide big128 n bout sout rout (lweEmb n a) key (embSk n sIn) skOut EL KL Hin Hp)
    (hInB : ∀ limb ∈ a.data, ∀ x ∈ limb, |x| ≤ Hin) (hnIn : a.nLwe ≤ n) (hsIn : sIn.length = a.nLwe) :
    ∃ res aConv, Ks.glweFromLwe big128 n bout sout rout a key = .ok res ∧ Ks.convIn (lweEmb n a) key = .ok aConv ∧
      GWF n res ∧ res.base2k = bout ∧ res.size = sout ∧ res.rank = rout ∧
      ∃ e q : Int,
        2 ^ (a.base2k * a.data.length + key.base2k * key.mat.size) * valCoeff bout (phase skOut res) 0
          = 2 ^ (bout * sout + key.base2k * key.mat.size) * lwePhaseVal a.base2k a sIn + e
            + 2 ^ (a.base2k * a.data.length + bout * sout + key.base2k * key.mat.size) * q ∧
        |e| ≤ ksBound n bout sout rout (lweEmb n a) aConv key (embSk n sIn) skOut EL := by
  have hdig := lweEmb_bound n a Hin h.hIn0 hInB
  obtain ⟨res, aConv, hok, hconv, gwR, hbR, hsR, hrR, hco⟩ :=
    glwe_keyswitch_decrypts_coeff big128 n bout sout rout (lweEmb n a) key (embSk n sIn) skOut EL KL Hin Hp h
      (lweEmb_gwf n a) hdig
  obtain ⟨aConv', hconv', gwC, hbC, hrC, _⟩ :=
    convIn_phase n (lweEmb n a) key Hin (lweEmb_gwf n a) h.hbi1 h.hbi h.hbk1 h.hbk h.hIn0 h.hIn hdig
  have hsame : aConv' = aConv := by
    rw [hconv] at hconv'
    injection hconv' with e
    exact e.symm
  subst hsame
  refine ⟨res, aConv', ?_, hconv, gwR, hbR, hsR, hrR, ?_⟩
  · rw [glweFromLwe_eq_keyswitch big128 n bout sout rout a key aConv' hnIn hconv hbC hrC gwC.1]
    exact hok
  · obtain ⟨e, q, hrel, hbnd⟩ := hco 0 h.hN
    have hbe : (lweEmb n a).base2k = a.base2k := rfl
    rw [hbe, lwe_embed_value n a.base2k a sIn h.hN hnIn hsIn, lweEmb_size] at hrel
    exact ⟨e, q, hrel, hbnd⟩

/-! ### 5. closed instances -/

/-- an LWE ciphertext of dimension 2: two limbs `[b, a₁, a₂]`, radix `2^3` -/
def exLwe2 : Ks.Lwe := { base2k := 3, nLwe := 2, data := [[1, 2, 3], [4, 5, 6]] }

example : lwePhaseVal 3 exLwe2 [1, -1] = (1 + 2 * 1 + 3 * (-1)) * 2 ^ 3 + (4 + 5 * 1 + 6 * (-1)) := by decide

example : embSk 4 [1, -1] = [[1, 0, 0, 1]] := by decide

example : (lweEmb 4 exLwe2).cols = [[[1, 0, 0, 0], [4, 0, 0, 0]], [[2, 3, 0, 0], [5, 6, 0, 0]]] := by decide

/-- embedding (`N = 4`): computed on both sides, and as an instance of `lwe_embed_value` -/
example : valCoeff 3 (phase (embSk 4 [1, -1]) (lweEmb 4 exLwe2)) 0 = 3 := by decide

example : valCoeff 3 (phase (embSk 4 [1, -1]) (lweEmb 4 exLwe2)) 0 = lwePhaseVal 3 exLwe2 [1, -1] :=
  lwe_embed_value 4 3 exLwe2 [1, -1] (by decide) (by decide) (by decide)

/-- a rank-1 GLWE ciphertext of two limbs, `N = 4` -/
def exGlwe : Ks.Ct := Ks.mkCt 17 4 [[[1, 2, 3, 4], [5, 6, 7, 8]], [[9, 10, 11, 12], [13, 14, 15, 16]]]

/-- extraction (`N = 4`, LWE dimension 2) as an instance of `lwe_extract_value` -/
example : lwePhaseVal 17 { base2k := 17, nLwe := 2, data := [[1, 9, 10], [5, 13, 14]] } [1, -1]
    = valCoeff 17 (phase (embSk 4 [1, -1]) exGlwe) 0 := by
  refine lwe_extract_value 4 17 17 2 2 exGlwe _ [1, -1] (by decide) (by decide) (by decide) (by decide) (by decide) ?_
  rw [LweIdx.sampleExtract_ok 17 2 2 _ (by decide) (by decide)]
  congr 2

/-- rotation (`N = 4`, `idx = 3`) as an instance of `rotIn_spec` -/
example : valCoeff 17 (phase [[1, 2, 3, 4]] (rotIn exGlwe 3)) 0 = valCoeff 17 (phase [[1, 2, 3, 4]] exGlwe) 3 :=
  (rotIn_spec 4 exGlwe 3 16 (by decide) (by decide) (by norm_num)
    (by intro c hc l hl x hx; revert x l c; decide) (by decide)).2.2.2.2.2 17 [[1, 2, 3, 4]]

example : (rotIn exGlwe 3).cols = [[[4, -1, -2, -3], [8, -5, -6, -7]], [[12, -9, -10, -11], [16, -13, -14, -15]]] := by decide

/-- the LWE ciphertext whose embedding in degree 1 is `exCt` (radix `2^4`, one limb `[2, 1]`) -/
def exLwe : Ks.Lwe := { base2k := 4, nLwe := 1, data := [[2, 1]] }

/-- closed instance of `lwe_to_glwe_decrypts`: `glwe_from_lwe` of `exLwe` with the `dsize = 3` key `Ks.AccumExample.exKey3` (rank 1 → rank 0,
`N = 1`), result radix `2^3`, two limbs, both accumulator widths -/
example (big128 : Bool) :
    ∃ res aConv, Ks.glweFromLwe big128 1 3 2 0 exLwe Ks.AccumExample.exKey3 = .ok res ∧
      Ks.convIn (lweEmb 1 exLwe) Ks.AccumExample.exKey3 = .ok aConv ∧
      GWF 1 res ∧ res.base2k = 3 ∧ res.size = 2 ∧ res.rank = 0 ∧
      ∃ e q : Int,
        2 ^ (exLwe.base2k * exLwe.data.length + Ks.AccumExample.exKey3.base2k * Ks.AccumExample.exKey3.mat.size)
            * valCoeff 3 (phase [] res) 0
          = 2 ^ (3 * 2 + Ks.AccumExample.exKey3.base2k * Ks.AccumExample.exKey3.mat.size) * lwePhaseVal exLwe.base2k exLwe [1] + e
            + 2 ^ (exLwe.base2k * exLwe.data.length + 3 * 2 + Ks.AccumExample.exKey3.base2k * Ks.AccumExample.exKey3.mat.size) * q ∧
        |e| ≤ ksBound 1 3 2 0 (lweEmb 1 exLwe) aConv Ks.AccumExample.exKey3 (embSk 1 [1]) [] exEL := by
  have hM := Ks.entry_length Ks.AccumExample.exKey3.mat 1 rfl (by decide)
  have hz : Ks.ι 1 [0] = 0 := Ks.ι_zero 1 1
  have hemb : lweEmb 1 exLwe = exCt := rfl
  have hsk : embSk 1 [1] = [[1]] := by decide
  have hconv : Ks.convIn exCt Ks.AccumExample.exKey3 = .ok exCt := rfl
  have hside : KsSide big128 1 3 2 0 (lweEmb 1 exLwe) Ks.AccumExample.exKey3 (embSk 1 [1]) [] exEL (fun _ _ => [0]) 2 2 := by
    rw [hemb, hsk]
    exact
      { hN := by decide
        hrank := rfl
        hrout := rfl
        hc0 := by decide
        hD := by decide
        hM := hM
        hS := by decide
        hbi1 := by decide
        hbi := by decide
        hbk1 := by decide
        hbk := by decide
        hbo1 := by decide
        hbo := by decide
        hIn0 := by norm_num
        hIn := by norm_num
        hHp0 := by norm_num
        hAcc := by cases big128 <;> (show (2 : ℤ) + (2 + 2 ^ 4) + 8 ≤ _; norm_num [bitsOf])
        hprod := by
          intro aConv h i hi l hl x hx
          rw [hconv] at h
          injection h with h
          subst h
          have hi0 : i = 0 := by omega
          subst hi0
          have key : ∀ l ∈ (prodOf 0 exCt Ks.AccumExample.exKey3).act 0, ∀ x ∈ l, |x| ≤ 2 := by decide
          exact key l hl x hx
        hs := by decide
        hEL := fun i r => Ks.keyErrL_length 1 4 [] Ks.AccumExample.exKey3 _ i r (by decide) hM (fun _ => rfl)
        hKL := fun _ _ => rfl
        hkey := by
          intro i hi r _
          have hi0 : i = 0 := by have : i < 1 := hi; omega
          subst hi0
          have h := Ks.keyErrL_spec 1 4 [] Ks.AccumExample.exKey3 (fun _ => [1]) 0 r (by decide) hM (fun _ => rfl)
          rw [hz, mul_zero, add_zero]
          exact h
        hcov1 := by decide
        hcov2 := by decide }
  exact lwe_to_glwe_decrypts big128 1 3 2 0 exLwe Ks.AccumExample.exKey3 [1] [] exEL (fun _ _ => [0]) 2 2 hside
    (by intro limb hl x hx; revert x limb; decide) (by decide) rfl

/-- cross-radix instance of `lwe_to_glwe_decrypts`: the LWE ciphertext is in radix `2^2` (two limbs), the key in radix `2^4`; its embedding is
`exCt2`, and `glwe_from_lwe` runs `glwe_normalize` in front of the key switch -/
def exLweX : Ks.Lwe := { base2k := 2, nLwe := 1, data := [[1, 0], [1, 1]] }

example (big128 : Bool) :
    ∃ res aConv, Ks.glweFromLwe big128 1 3 2 0 exLweX Ks.AccumExample.exKey3 = .ok res ∧
      Ks.convIn (lweEmb 1 exLweX) Ks.AccumExample.exKey3 = .ok aConv ∧
      GWF 1 res ∧ res.base2k = 3 ∧ res.size = 2 ∧ res.rank = 0 ∧
      ∃ e q : Int,
        2 ^ (exLweX.base2k * exLweX.data.length + Ks.AccumExample.exKey3.base2k * Ks.AccumExample.exKey3.mat.size)
            * valCoeff 3 (phase [] res) 0
          = 2 ^ (3 * 2 + Ks.AccumExample.exKey3.base2k * Ks.AccumExample.exKey3.mat.size) * lwePhaseVal exLweX.base2k exLweX [1] + e
            + 2 ^ (exLweX.base2k * exLweX.data.length + 3 * 2 + Ks.AccumExample.exKey3.base2k * Ks.AccumExample.exKey3.mat.size) * q ∧
        |e| ≤ ksBound 1 3 2 0 (lweEmb 1 exLweX) aConv Ks.AccumExample.exKey3 (embSk 1 [1]) [] exEL := by
  have hM := Ks.entry_length Ks.AccumExample.exKey3.mat 1 rfl (by decide)
  have hz : Ks.ι 1 [0] = 0 := Ks.ι_zero 1 1
  have hemb : lweEmb 1 exLweX = exCt2 := rfl
  have hsk : embSk 1 [1] = [[1]] := by decide
  have hconv : Ks.convIn exCt2 Ks.AccumExample.exKey3 = .ok (Ks.mkCt 4 1 [[[5]], [[1]]]) := by decide +kernel
  have hside : KsSide big128 1 3 2 0 (lweEmb 1 exLweX) Ks.AccumExample.exKey3 (embSk 1 [1]) [] exEL (fun _ _ => [0]) 2 2 := by
    rw [hemb, hsk]
    exact
      { hN := by decide
        hrank := rfl
        hrout := rfl
        hc0 := by decide
        hD := by decide
        hM := hM
        hS := by decide
        hbi1 := by decide
        hbi := by decide
        hbk1 := by decide
        hbk := by decide
        hbo1 := by decide
        hbo := by decide
        hIn0 := by norm_num
        hIn := by norm_num
        hHp0 := by norm_num
        hAcc := by cases big128 <;> (show (2 : ℤ) + (2 + 2 ^ 4) + 8 ≤ _; norm_num [bitsOf])
        hprod := by
          intro aConv h i hi l hl x hx
          rw [hconv] at h
          injection h with h
          subst h
          have hi0 : i = 0 := by omega
          subst hi0
          have key : ∀ l ∈ (prodOf 0 (Ks.mkCt 4 1 [[[5]], [[1]]]) Ks.AccumExample.exKey3).act 0, ∀ x ∈ l, |x| ≤ 2 := by decide
          exact key l hl x hx
        hs := by decide
        hEL := fun i r => Ks.keyErrL_length 1 4 [] Ks.AccumExample.exKey3 _ i r (by decide) hM (fun _ => rfl)
        hKL := fun _ _ => rfl
        hkey := by
          intro i hi r _
          have hi0 : i = 0 := by have : i < 1 := hi; omega
          subst hi0
          have h := Ks.keyErrL_spec 1 4 [] Ks.AccumExample.exKey3 (fun _ => [1]) 0 r (by decide) hM (fun _ => rfl)
          rw [hz, mul_zero, add_zero]
          exact h
        hcov1 := by decide
        hcov2 := by decide }
  exact lwe_to_glwe_decrypts big128 1 3 2 0 exLweX Ks.AccumExample.exKey3 [1] [] exEL (fun _ _ => [0]) 2 2 hside
    (by intro limb hl x hx; revert x limb; decide) (by decide) rfl

/-- a rank 1 → rank 1 key in degree `N = 2` (radix `2^4`, `dsize = 1`, one row, two limbs); its error is *defined* by the key equation
(`Ks.keyErrL`), so the key relation holds for every pair of secrets -/
def exMat11 : PMat := { n := 2, rows := 1, colsIn := 1, colsOut := 2, size := 2, data := [[[[1, 0], [0, 1]], [[1, 1], [0, 0]]]] }
def exKey11 : Ks.Key := { base2k := 4, dsize := 1, p := 1, mat := exMat11 }

/-- an LWE ciphertext of dimension 2, radix `2^4`, one limb `[b, a₁, a₂]` -/
def exLweK : Ks.Lwe := { base2k := 4, nLwe := 2, data := [[2, 1, -1]] }

/-- the key error for the embedded secrets of `sIn = [1, 1]`, `sOut = [1, 0]` -/
def exEL11 : ℕ → ℕ → Poly := Ks.keyErrL 2 4 (embSk 2 [1, 0]) exKey11 (fun _ => AutoMul.σ (-1) (Ks.padTo 2 [1, 1]))

theorem exKey11_side (big128 : Bool) (a : Ks.Ct) (hr : a.rank = 1) (hb : a.base2k = 4) (hsz : a.size = 1)
    (hprod : ∀ i, i < 2 → ∀ l ∈ (prodOf 1 a exKey11).act i, ∀ x ∈ l, |x| ≤ 8) :
    KsSide big128 2 3 2 1 a exKey11 (embSk 2 [1, 1]) (embSk 2 [1, 0]) exEL11 (fun _ _ => [0, 0]) 2 8 := by
  have hM := Ks.entry_length exKey11.mat 2 rfl (by decide)
  have hz : Ks.ι 2 [0, 0] = 0 := Ks.ι_zero 2 2
  have hconv : Ks.convIn a exKey11 = .ok a := by
    unfold Ks.convIn
    rw [if_neg (by rw [hb]; decide)]
  have hcs : convSize a exKey11 = 1 := by
    unfold convSize
    rw [if_neg (by rw [hb]; decide), hsz]
  exact
    { hN := by decide
      hrank := hr
      hrout := rfl
      hc0 := by decide
      hD := by decide
      hM := hM
      hS := by decide
      hbi1 := by rw [hb]; decide
      hbi := by rw [hb]; decide
      hbk1 := by decide
      hbk := by decide
      hbo1 := by decide
      hbo := by decide
      hIn0 := by norm_num
      hIn := by norm_num
      hHp0 := by norm_num
      hAcc := by cases big128 <;> (show (8 : ℤ) + (2 + 2 ^ 4) + 8 ≤ _; norm_num [bitsOf])
      hprod := by
        intro aConv h i hi l hl x hx
        rw [hconv] at h
        injection h with h
        subst h
        exact hprod i hi l hl x hx
      hs := by decide
      hEL := fun i r => Ks.keyErrL_length 2 4 _ exKey11 _ i r (by decide) hM (fun _ => by decide)
      hKL := fun _ _ => rfl
      hkey := by
        intro i hi r _
        have hi0 : i = 0 := by have : i < 1 := hi; omega
        subst hi0
        have h := Ks.keyErrL_spec 2 4 (embSk 2 [1, 0]) exKey11 (fun _ => AutoMul.σ (-1) (Ks.padTo 2 [1, 1])) 0 r (by decide) hM
          (fun _ => by decide)
        rw [hz, mul_zero, add_zero]
        exact h
      hcov1 := by rw [hcs]; decide
      hcov2 := by rw [hcs]; decide }

/-- closed instance of `lwe_keyswitch_decrypts` (`n = 2`, LWE dimensions 2 → 2, result radix `2^3`, two limbs, both accumulator widths) -/
example (big128 : Bool) :
    ∃ res aConv, Ks.lweKeyswitch big128 2 3 2 2 exLweK exKey11 = .ok res ∧ Ks.convIn (lweEmb 2 exLweK) exKey11 = .ok aConv ∧
      res.base2k = 3 ∧ res.nLwe = 2 ∧ res.data.length = 2 ∧
      ∃ e q : Int,
        2 ^ (exLweK.base2k * exLweK.data.length + exKey11.base2k * exKey11.mat.size) * lwePhaseVal 3 res [1, 0]
          = 2 ^ (3 * 2 + exKey11.base2k * exKey11.mat.size) * lwePhaseVal exLweK.base2k exLweK [1, 1] + e
            + 2 ^ (exLweK.base2k * exLweK.data.length + 3 * 2 + exKey11.base2k * exKey11.mat.size) * q ∧
        |e| ≤ ksBound 2 3 2 1 (lweEmb 2 exLweK) aConv exKey11 (embSk 2 [1, 1]) (embSk 2 [1, 0]) exEL11 :=
  lwe_keyswitch_decrypts big128 2 3 2 2 exLweK exKey11 [1, 1] [1, 0] exEL11 (fun _ _ => [0, 0]) 2 8
    (exKey11_side big128 (lweEmb 2 exLweK) rfl rfl (by decide) (by decide))
    (by intro limb hl x hx; revert x limb; decide) (by decide) (by decide) rfl rfl

/-- a rank-1 GLWE ciphertext in degree 2 (radix `2^4`, one limb) -/
def exGlwe2 : Ks.Ct := Ks.mkCt 4 2 [[[2, 1]], [[1, -1]]]

/-- closed instance of `glwe_to_lwe_decrypts` (`N = 2`, `idx = 1`: the rotation by `X^{-1}` is executed) -/
example (big128 : Bool) :
    ∃ res aConv, Ks.lweFromGlwe big128 3 2 2 exGlwe2 1 exKey11 = .ok res ∧ Ks.convIn (rotIn exGlwe2 1) exKey11 = .ok aConv ∧
      res.base2k = 3 ∧ res.nLwe = 2 ∧ res.data.length = 2 ∧
      ∃ e q : Int,
        2 ^ (exGlwe2.base2k * exGlwe2.size + exKey11.base2k * exKey11.mat.size) * lwePhaseVal 3 res [1, 0]
          = 2 ^ (3 * 2 + exKey11.base2k * exKey11.mat.size) * valCoeff exGlwe2.base2k (phase (embSk 2 [1, 1]) exGlwe2) 1 + e
            + 2 ^ (exGlwe2.base2k * exGlwe2.size + 3 * 2 + exKey11.base2k * exKey11.mat.size) * q ∧
        |e| ≤ ksBound 2 3 2 1 (rotIn exGlwe2 1) aConv exKey11 (embSk 2 [1, 1]) (embSk 2 [1, 0]) exEL11 :=
  glwe_to_lwe_decrypts big128 2 3 2 2 exGlwe2 1 exKey11 (embSk 2 [1, 1]) [1, 0] exEL11 (fun _ _ => [0, 0]) 2 8
    (exKey11_side big128 (rotIn exGlwe2 1) (by decide) (by decide) (by decide) (by decide))
    (by decide) (by intro c hc l hl x hx; revert x l c; decide) (by decide) (by decide) rfl

end KsDec
