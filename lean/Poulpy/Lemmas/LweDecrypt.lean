import Poulpy.Lemmas.KsDecrypt
import Poulpy.Lemmas.LweIdx

namespace KsDec
open Hal Core Core.Ops C02L Polynomial

/-! ### 0. from `R N` back to coefficients -/

/-- every element of `ℤ[X]/(X^N+1)` is the class of a coefficient list of length `N` -/
theorem ι_surj (N : Nat) (hN : 0 < N) (x : Ks.R N) : ∃ p : Poly, p.length = N ∧ Ks.ι N p = x := by
  obtain ⟨f, rfl⟩ := AdjoinRoot.mk_surjective x
  have hg : (X ^ N + 1 : ℤ[X]).Monic := monic_XN1 N hN
  refine ⟨(List.range N).map (fun i => (f %ₘ (X ^ N + 1 : ℤ[X])).coeff i), by simp, ?_⟩
  have e : toPoly ((List.range N).map (fun i => (f %ₘ (X ^ N + 1 : ℤ[X])).coeff i)) = f %ₘ (X ^ N + 1 : ℤ[X]) := by
    ext i
    rw [coeff_toPoly]
    by_cases hi : i < N
    · simp [List.getD_eq_getElem?_getD, hi]
    · have hd : (f %ₘ (X ^ N + 1 : ℤ[X])).degree < (N : WithBot ℕ) := by
        have := degree_modByMonic_lt f hg
        rwa [degree_eq_natDegree hg.ne_zero, natDegree_XN1 N hN] at this
      have hz : (f %ₘ (X ^ N + 1 : ℤ[X])).coeff i = 0 :=
        coeff_eq_zero_of_degree_lt (lt_of_lt_of_le hd (by exact_mod_cast Nat.le_of_not_lt hi))
      rw [hz, List.getD_eq_getElem?_getD, List.getElem?_eq_none (by simp; omega)]
      rfl
  unfold Ks.ι
  rw [e, AdjoinRoot.mk_eq_mk]
  have := modByMonic_add_div f (X ^ N + 1 : ℤ[X])
  exact ⟨-(f /ₘ (X ^ N + 1 : ℤ[X])), by linear_combination this⟩

/-- `ι` is injective on coefficient lists of length `N` -/
theorem ι_inj (N : Nat) (hN : 0 < N) (p q : Poly) (hp : p.length = N) (hq : q.length = N) (h : Ks.ι N p = Ks.ι N q) : p = q :=
  toPoly_mk_inj N p q hp hq hN h

/-- **an identity of `R N` read at one coefficient**: the converse of `coeff_to_ring` -/
theorem ring_to_coeff (N : Nat) (hN : 0 < N) (P Y E : Poly) (Q : Ks.R N) (A B M : Int)
    (hP : P.length = N) (hY : Y.length = N) (hE : E.length = N)
    (h : (A : Ks.R N) * Ks.ι N P = (B : Ks.R N) * Ks.ι N Y + Ks.ι N E + (M : Ks.R N) * Q) (t : Nat) :
    ∃ q : Int, A * P.getD t 0 = B * Y.getD t 0 + E.getD t 0 + M * q := by
  obtain ⟨Ql, hQl, rfl⟩ := ι_surj N hN Q
  refine ⟨Ql.getD t 0, ?_⟩
  have h' : Ks.ι N (polyScale A P) = Ks.ι N (polyAdd (polyAdd (polyScale B Y) E) (polyScale M Ql)) := by
    rw [Ks.ι_polyScale, Ks.ι_add N _ _ (by simp [hY, hE, hQl]), Ks.ι_add N _ _ (by simp [hY, hE]), Ks.ι_polyScale, Ks.ι_polyScale]
    exact h
  have := ι_inj N hN _ _ (by simp [hP]) (by simp [hY, hE, hQl]) h'
  have h2 : (polyScale A P).getD t 0 = (polyAdd (polyAdd (polyScale B Y) E) (polyScale M Ql)).getD t 0 := by rw [this]
  rw [polyScale_getD, getD_polyAdd _ _ _ (by simp [hY, hE, hQl]), getD_polyAdd _ _ _ (by simp [hY, hE]), polyScale_getD,
    polyScale_getD] at h2
  exact h2

theorem abs_getD_le_normInf (p : Poly) (t : Nat) : |p.getD t 0| ≤ normInf p := by
  by_cases ht : t < p.length
  · rw [List.getD_eq_getElem?_getD, List.getElem?_eq_getElem ht, Option.getD_some]
    exact abs_le_normInf (List.getElem_mem ht)
  · rw [List.getD_eq_getElem?_getD, List.getElem?_eq_none (by omega)]
    simpa using normInf_nonneg p

/-! ### 1. `glwe_keyswitch_decrypts`, coefficient by coefficient -/

/-- the hypotheses of `glwe_keyswitch_decrypts` other than the well-formedness and the digit bound of the input (which the LWE
theorems below discharge for the embedded ciphertext): key shape, radices, head-room, key relation, covered regime -/
structure KsSide (big128 : Bool) (N bout sout rout : Nat) (a : Ks.Ct) (key : Ks.Key) (sIn skOut : List Poly)
    (EL KL : ℕ → ℕ → Poly) (Hin Hp : Int) : Prop where
  hN : 0 < N
  hrank : a.rank = key.rankIn
  hrout : rout = key.rankOut
  hc0 : 0 < key.mat.colsOut
  hD : 1 ≤ key.dsize
  hM : ∀ j q, (key.mat.entry j q).length = N
  hS : key.mat.rows * key.dsize ≤ key.mat.size
  hbi1 : 1 ≤ a.base2k
  hbi : a.base2k ≤ 62
  hbk1 : 1 ≤ key.base2k
  hbk : key.base2k ≤ 62
  hbo1 : 1 ≤ bout
  hbo : bout ≤ 62
  hIn0 : 0 ≤ Hin
  hIn : Hin + 8 ≤ 2 ^ 62
  hHp0 : 0 ≤ Hp
  hAcc : Hp + (Hin + 2 ^ key.base2k) + 8 ≤ 2 ^ (bitsOf big128 - 2)
  hprod : ∀ aConv, Ks.convIn a key = .ok aConv → ∀ i, i < rout + 1 → ∀ l ∈ (prodOf rout aConv key).act i, ∀ x ∈ l, |x| ≤ Hp
  hs : key.mat.colsIn ≤ sIn.length
  hEL : ∀ i r, (EL i r).length = N
  hKL : ∀ i r, (KL i r).length = N
  hkey : ∀ i, i < key.mat.colsIn → ∀ r, r < key.mat.rows →
      Gadget.val (Ks.radix N key.base2k) key.mat.size (Ks.keyPhase N skOut key.mat i r) =
        Ks.ι N (sIn.getD i []) * Ks.radix N key.base2k ^ (key.mat.size - (r + 1) * key.dsize) + Ks.ι N (EL i r)
          + Ks.radix N key.base2k ^ key.mat.size * Ks.ι N (KL i r)
  hcov1 : convSize a key ≤ key.mat.size
  hcov2 : convSize a key ≤ key.mat.rows * key.dsize

/-- the error bound of `glwe_keyswitch_decrypts` (conversion rounding, gadget error, dropped product limbs, final rounding) -/
def ksBound (N bout sout rout : Nat) (a aConv : Ks.Ct) (key : Ks.Key) (sIn skOut : List Poly) (EL : ℕ → ℕ → Poly) : Int :=
  2 ^ (bout * sout + key.base2k * (key.mat.size - convSize a key)) *
      ((1 + snorm (min a.rank sIn.length) sIn) * C02.normTol (key.base2k * convSize a key) (a.base2k * a.size))
    + 2 ^ (a.base2k * a.size + bout * sout) * gadgetBound N key.base2k (aDftOf aConv) key EL
    + 2 ^ (a.base2k * a.size + bout * sout) * dropBound N key.base2k skOut (aDftOf aConv) key
    + 2 ^ (a.base2k * a.size) *
      ((1 + snorm (min rout skOut.length) skOut) * C02.normTol (bout * sout) (key.base2k * key.mat.size))

/-- **`glwe_keyswitch_decrypts` read coefficient by coefficient** (integers, no quotient ring): for every `t < N`,
`2^(b_in·s_a + b_key·S)·val_t(phase_{skOut} res) = 2^(b_out·s_out + b_key·S)·val_t(phase_{sIn} a) + e + 2^(b_in·s_a + b_out·s_out + b_key·S)·q`
with `|e| ≤ ksBound`. -/
theorem glwe_keyswitch_decrypts_coeff (big128 : Bool) (N bout sout rout : Nat) (a : Ks.Ct) (key : Ks.Key) (sIn skOut : List Poly)
    (EL KL : ℕ → ℕ → Poly) (Hin Hp : Int) (h : KsSide big128 N bout sout rout a key sIn skOut EL KL Hin Hp)
    (ha : GWF N a) (hInB : ∀ c ∈ a.cols, ∀ l ∈ c, ∀ x ∈ l, |x| ≤ Hin) :
    ∃ res aConv, Ks.keyswitch big128 bout sout rout a key = .ok res ∧ Ks.convIn a key = .ok aConv ∧
      GWF N res ∧ res.base2k = bout ∧ res.size = sout ∧ res.rank = rout ∧
      ∀ t, t < N → ∃ e q : Int,
        2 ^ (a.base2k * a.size + key.base2k * key.mat.size) * valCoeff bout (phase skOut res) t
          = 2 ^ (bout * sout + key.base2k * key.mat.size) * valCoeff a.base2k (phase sIn a) t + e
            + 2 ^ (a.base2k * a.size + bout * sout + key.base2k * key.mat.size) * q ∧
        |e| ≤ ksBound N bout sout rout a aConv key sIn skOut EL := by
  obtain ⟨res, aConv, hok, hconv, gwR, hbR, hsR, hrR, E1, E3, Q, hE1, hE3, _, _, hrel, hbnd⟩ :=
    glwe_keyswitch_decrypts big128 N bout sout rout a key sIn skOut EL KL Hin Hp h.hN ha h.hrank h.hrout h.hc0 h.hD h.hM h.hS
      h.hbi1 h.hbi h.hbk1 h.hbk h.hbo1 h.hbo h.hIn0 h.hIn hInB h.hHp0 h.hAcc h.hprod h.hs h.hEL h.hKL h.hkey h.hcov1 h.hcov2
  refine ⟨res, aConv, hok, hconv, gwR, hbR, hsR, hrR, ?_⟩
  intro t ht
  have hGl : (Ks.errL N key.base2k (aDftOf aConv) key EL).length = N := Ks.errL_length N _ _ _ EL h.hEL
  have hDl : (Ks.dropL N key.base2k skOut (aDftOf aConv) key).length = N := by
    unfold Ks.dropL
    apply Ks.sumPolys_range_length
    intro i _
    apply Ks.sumPolys_range_length
    intro di _
    apply Ks.sumPolys_range_length
    intro r _
    apply Ks.sumPolys_range_length
    intro l _
    exact Ks.dropTermL_length N _ skOut _ key i di r l h.hc0 h.hM
  generalize hErr : ksErr (2 ^ (bout * sout + key.base2k * (key.mat.size - convSize a key))) (2 ^ (a.base2k * a.size + bout * sout))
      (2 ^ (a.base2k * a.size)) E1 (Ks.errL N key.base2k (aDftOf aConv) key EL)
      (Ks.dropL N key.base2k skOut (aDftOf aConv) key) E3 = Err at hrel hbnd
  have hErrL : Err.length = N := by
    rw [← hErr]; unfold ksErr; simp [hE1, hE3, hGl, hDl]
  have hrel' : ((2 ^ (a.base2k * a.size + key.base2k * key.mat.size) : ℤ) : Ks.R N) * Ks.ι N (valP bout N (phase skOut res))
      = ((2 ^ (bout * sout + key.base2k * key.mat.size) : ℤ) : Ks.R N) * Ks.ι N (valP a.base2k N (phase sIn a)) + Ks.ι N Err
        + ((2 ^ (a.base2k * a.size + bout * sout + key.base2k * key.mat.size) : ℤ) : Ks.R N) * Q := by
    push_cast
    exact hrel
  obtain ⟨q, hq⟩ := ring_to_coeff N h.hN _ _ _ Q _ _ _ (by simp) (by simp) hErrL hrel' t
  rw [valP_getD _ _ _ _ ht, valP_getD _ _ _ _ ht] at hq
  exact ⟨Err.getD t 0, q, hq, (abs_getD_le_normInf Err t).trans hbnd⟩

end KsDec
