import Poulpy.Lemmas.KsDecrypt
import Poulpy.Lemmas.LweIdx

namespace KsDec
open Hal Core Core.Ops C02L Polynomial

/-! ### 0. from `R N` back to coefficients -/

/-- every element of `ℤ[X]/(X^N+1)` is the class of a coefficient list of length `N` -/
theorem ι_surj (N : Nat) (hN : 0 < N) (x : Ks.R N) : ∃ p : Poly, p.length = N ∧ Ks.ι N p = x := by
  obtain ⟨f, rfl⟩ := AdjoinRoot.mk_surjective x
  have hg : (X ^ N + 1 : ℤ[X]).Monic := monic_XN1 N hN
  refine ⟨(List.range N).map (fun i => (f %ₘ (X ^ N + 1 : ℤ[X])).coeff i), by simp, ?_⟩
  have e : toPoly ((List.range N).map (fun i => (f %ₘ (X ^ N + 1 : ℤ[X])).coeff i)) = f %ₘ (X ^ N + 1 : ℤ[X]) := by
    ext i
    rw [coeff_toPoly]
    by_cases hi : i < N
    · simp [List.getD_eq_getElem?_getD, hi]
    · have hd : (f %ₘ (X ^ N + 1 : ℤ[X])).degree < (N : WithBot ℕ) := by
        have := degree_modByMonic_lt f hg
        rwa [degree_eq_natDegree hg.ne_zero, natDegree_XN1 N hN] at this
      have hz : (f %ₘ (X ^ N + 1 : ℤ[X])).coeff i = 0 :=
        coeff_eq_zero_of_degree_lt (lt_of_lt_of_le hd (by exact_mod_cast Nat.le_of_not_lt hi))
      rw [hz, List.getD_eq_getElem?_getD, List.getElem?_eq_none (by simp; omega)]
      rfl
  unfold Ks.ι
  rw [e, AdjoinRoot.mk_eq_mk]
  have := modByMonic_add_div f (X ^ N + 1 : ℤ[X])
  exact ⟨-(f /ₘ (X ^ N + 1 : ℤ[X])), by linear_combination this⟩

/-- `ι` is injective on coefficient lists of length `N` -/
theorem ι_inj (N : Nat) (hN : 0 < N) (p q : Poly) (hp : p.length = N) (hq : q.length = N) (h : Ks.ι N p = Ks.ι N q) : p = q :=
  toPoly_mk_inj N p q hp hq hN h

/-- **an identity of `R N` read at one coefficient**: the converse of `coeff_to_ring` -/
theorem ring_to_coeff (N : Nat) (hN : 0 < N) (P Y E : Poly) (Q : Ks.R N) (A B M : Int)
    (hP : P.length = N) (hY : Y.length = N) (hE : E.length = N)
    (h : (A : Ks.R N) * Ks.ι N P = (B : Ks.R N) * Ks.ι N Y + Ks.ι N E + (M : Ks.R N) * Q) (t : Nat) :
    ∃ q : Int, A * P.getD t 0 = B * Y.getD t 0 + E.getD t 0 + M * q := by
  obtain ⟨Ql, hQl, rfl⟩ := ι_surj N hN Q
  refine ⟨Ql.getD t 0, ?_⟩
  have h' : Ks.ι N (polyScale A P) = Ks.ι N (polyAdd (polyAdd (polyScale B Y) E) (polyScale M Ql)) := by
    rw [Ks.ι_polyScale, Ks.ι_add N _ _ (by simp [hY, hE, hQl]), Ks.ι_add N _ _ (by simp [hY, hE]), Ks.ι_polyScale, Ks.ι_polyScale]
    exact h
  have := ι_inj N hN _ _ (by simp [hP]) (by simp [hY, hE, hQl]) h'
  have h2 := congrArg (fun p => p.getD t 0) this
  simp only at h2
  rw [polyScale_getD, getD_polyAdd _ _ _ (by simp [hY, hE, hQl]), getD_polyAdd _ _ _ (by simp [hY, hE]), polyScale_getD,
    polyScale_getD] at h2
  exact h2

end KsDec
